import ZChain.Proofs.Vesting
/-!
# C16 — Vesting pays each destination at most its amount, on schedule

Statements about `Model/Vesting.lean` (smartcontract/vestingsc/vesting.go), tied to the Go code by `harness/cmd/c16`
(the real contract through the real `Chain.UpdateState`).

For amounts below `2^53` (`PoolGood`): a trigger always succeeds, `Vested ≤ Amount` is kept and `Vested` never
decreases (`trigger_sound_partial`), the pool keeps backing the unvested remainders and tokens are conserved, one
trigger at/after expiry vests everything (`by_expiry_exact_partial`), the owner can always withdraw exactly the excess
(`owner_can_withdraw_excess`) and delete the pool, every token leaving it (`owner_can_delete_partial`).
The single step (`unlockDest_spec` in Proofs/Vesting) is what `unlock`-by-destination and `stop` execute, too.

The unrestricted statements are FALSE of the code: for `left ≥ 2^53`, `MultFloat64(left, 1.0)` can exceed `left`
(`float64(left)` rounds up). Negation witnesses (replayed on the Go code by the harness, fixed cases 2 and 3):
`expiry_trigger_fails_witness`, `owner_cannot_delete_witness`, `overpaid_witness`, `owner_cannot_withdraw_witness`.

NOT proved: the linear-schedule bound (“never ahead of schedule”) — it needs a float error analysis; the harness
oracle checks it on every run (`vested·(end−start) ≤ amount·(t−start) + 3·(end−start)` for amounts `< 2^53`).
-/
namespace ZChain.Vesting
open ZChain ZChain.Coin

/-- a pool whose destinations are in good standing at (clipped) time `now`, backed by its balance. -/
structure PoolGood (p : Pool) (now : Int) : Prop where
  dests   : ∀ d ∈ p.dests, Good d (clip p now) p.expire
  backed  : needN p.dests ≤ p.balance
  valid   : p.balance < U64

/-- **trigger_sound_partial** (vested_le_amount, monotone, pool_holds_remainder, conservation). On a good pool with
funds `trigger` succeeds; every destination keeps its id and amount, `Vested` does not decrease and stays `≤ Amount`;
the new balance still covers the unvested remainders; balance + transfers is conserved; what the destinations receive
is exactly what their remainders shrink by; transfers go to destinations of the pool only. -/
theorem trigger_sound_partial (p : Pool) (now : Int) (g : PoolGood p now) (hb : p.balance ≠ 0) :
    ∃ p' ts, triggerPool p now = .ok (p', ts) ∧
      List.Forall₂ (fun d d' => d'.id = d.id ∧ d'.amount = d.amount ∧ d.vested ≤ d'.vested ∧ d'.vested ≤ d'.amount ∧
        d'.move ≤ clip p now ∧ d.move ≤ d'.move ∧ (clip p now = p.expire → d'.vested = d'.amount)) p.dests p'.dests ∧
      needN p'.dests ≤ p'.balance ∧ p'.balance + sumT ts = p.balance ∧ needN p'.dests + sumT ts = needN p.dests ∧
      (∀ t ∈ ts, ∃ d ∈ p.dests, t.1 = d.id) ∧ p'.expire = p.expire ∧ p'.start = p.start ∧ p'.owner = p.owner := by
  obtain ⟨ds', bal', ts, h, hf, h1, h2, h3, h4⟩ := triggerLoop_spec (clip p now) p.expire p.dests p.balance g.dests g.backed
  refine ⟨{ p with dests := ds', balance := bal' }, ts, ?_, hf, h1, h2, h3, h4, rfl, rfl, rfl⟩
  unfold triggerPool
  rw [if_neg hb]
  simp only [h, bind, Except.bind]

/-- **by_expiry_exact_partial.** At or after expiry one trigger vests every destination's full amount. -/
theorem by_expiry_exact_partial (p : Pool) (now : Int) (g : PoolGood p now) (hb : p.balance ≠ 0) (he : p.expire ≤ now)
    (hse : p.start ≤ p.expire) :
    ∃ p' ts, triggerPool p now = .ok (p', ts) ∧ (∀ d' ∈ p'.dests, d'.vested = d'.amount) ∧ needN p'.dests = 0 := by
  obtain ⟨p', ts, h, hf, _⟩ := trigger_sound_partial p now g hb
  have hclip : clip p now = p.expire := by
    unfold clip
    split
    · rfl
    · split
      · omega
      · omega
  have hall : ∀ d' ∈ p'.dests, d'.vested = d'.amount := by
    have : ∀ (l1 l2 : List Dest), List.Forall₂ (fun d d' => d'.id = d.id ∧ d'.amount = d.amount ∧ d.vested ≤ d'.vested ∧ d'.vested ≤ d'.amount ∧
        d'.move ≤ clip p now ∧ d.move ≤ d'.move ∧ (clip p now = p.expire → d'.vested = d'.amount)) l1 l2 → ∀ d' ∈ l2, d'.vested = d'.amount := by
      intro l1 l2 hf
      induction hf with
      | nil => intro d' hd; cases hd
      | cons hh _ ih =>
        intro d' hd
        rcases List.mem_cons.mp hd with rfl | hd
        · exact hh.2.2.2.2.2.2 hclip
        · exact ih d' hd
    exact this _ _ hf
  refine ⟨p', ts, h, hall, ?_⟩
  unfold needN
  have : ∀ (l : List Dest), (∀ d ∈ l, d.vested = d.amount) → (l.map leftN).sum = 0 := by
    intro l
    induction l with
    | nil => intro _; rfl
    | cons a l ih =>
      intro hl
      have := hl a List.mem_cons_self
      simp only [List.map_cons, List.sum_cons, ih (fun d hd => hl d (List.mem_cons_of_mem _ hd))]
      unfold leftN; omega
  exact this _ hall

/-- **owner_can_withdraw_excess.** Whenever every `Vested ≤ Amount` and the balance covers the remainders, the owner's
`unlock` transfers exactly `balance − Σ remainders` to the owner and leaves exactly the remainders (it is refused only
when there is no excess). -/
theorem owner_can_withdraw_excess (p : Pool) (hv : ∀ d ∈ p.dests, d.vested ≤ d.amount)
    (hb : needN p.dests ≤ p.balance) (hval : p.balance < U64) :
    drain p p.owner = (if p.balance = needN p.dests then .error .noExcess
      else .ok ({ p with balance := needN p.dests }, [(p.owner, p.balance - needN p.dests)])) := by
  unfold drain excess
  have hneed := needOf_ok p.dests 0 hv (by omega)
  rw [Nat.zero_add] at hneed
  rw [if_neg (by simp), hneed]
  simp only [bind, Except.bind]
  rw [wrapSub_of_le' hval hb]
  by_cases he : p.balance = needN p.dests
  · rw [if_pos he, if_pos (by omega)]
  · rw [if_neg he, if_neg (by omega)]
    unfold drainPool
    rw [if_neg (by omega)]
    simp only
    congr 2
    · congr 1; omega

/-- **owner_can_delete_partial.** On a good pool the owner's `delete` succeeds and every token leaves the pool
(destinations get what has vested by `now`, the owner the rest). -/
theorem owner_can_delete_partial (p : Pool) (now : Int) (g : PoolGood p now) :
    ∃ ts, scDelete p p.owner now = .ok ts ∧ sumT ts = p.balance := by
  unfold scDelete
  rw [if_neg (by simp)]
  by_cases hb : p.balance = 0
  · refine ⟨[], ?_, by simp [sumT, hb]⟩
    have h1 : ¬ (0 < p.balance) := by omega
    simp only [h1, if_false, bind, Except.bind, List.append_nil]
  · obtain ⟨p', ts, h, _, _, h2, _, _, _, _, ho⟩ := trigger_sound_partial p now g hb
    have h1 : 0 < p.balance := by omega
    have hv' : p'.balance < U64 := by have := g.valid; omega
    by_cases hb' : p'.balance = 0
    · refine ⟨ts, ?_, by omega⟩
      have : ¬ (0 < p'.balance) := by omega
      simp only [h1, if_true, h, bind, Except.bind, this, if_false, List.append_nil]
    · refine ⟨ts ++ [(p.owner, p'.balance)], ?_, ?_⟩
      · have hpos : 0 < p'.balance := by omega
        have hd : drain { p' with dests := [] } p.owner = .ok ({ p' with dests := [], balance := 0 }, [(p.owner, p'.balance)]) := by
          have := owner_can_withdraw_excess { p' with dests := [] } (by intro d hd; cases hd) (by simp [needN]) hv'
          simp only [ho] at this ⊢
          rw [this]
          simp only [needN, List.map_nil, List.sum_nil]
          rw [if_neg hb']
          simp
        simp only [h1, if_true, h, bind, Except.bind, hpos, hd]
      · simp only [sumT, List.map_append, List.sum_append, List.map_cons, List.map_nil, List.sum_cons, List.sum_nil] at h2 ⊢
        omega

/-! ## negation witnesses: amounts ≥ 2^53 -/

/-- one destination of `2^53 + 3`, exactly funded, never triggered before expiry. -/
def bigPool (balance : Nat) : Pool :=
  { balance := balance, start := 1700000000, expire := 1700001000, owner := 0,
    dests := [{ id := 1, amount := 2 ^ 53 + 3, vested := 0, last := 1700000000, move := 1700000000 }] }

/-- at expiry `MultFloat64(2^53+3, 1.0) = 2^53+4` exceeds the pool: the trigger fails — now and at every later time
(the time is clipped to the expiry), so the destination can never be paid: `by_expiry_exact` is false without `< 2^53`. -/
theorem expiry_trigger_fails_witness :
    scTrigger (bigPool (2 ^ 53 + 3)) 0 1700001000 = .error .exceedsBalance ∧
    scTrigger (bigPool (2 ^ 53 + 3)) 0 1800000000 = .error .exceedsBalance ∧
    scUnlock (bigPool (2 ^ 53 + 3)) 1 1800000000 = .error .exceedsBalance := by decide +kernel

/-- … and the owner cannot delete that pool (delete triggers first), nor is there any excess to withdraw: the tokens
are locked for good. -/
theorem owner_cannot_delete_witness :
    scDelete (bigPool (2 ^ 53 + 3)) 0 1700001001 = .error .exceedsBalance ∧
    scUnlock (bigPool (2 ^ 53 + 3)) 0 1700001001 = .error .noExcess := by decide +kernel

/-- with one spare token in the pool the destination is paid `2^53 + 4`, more than its amount (`Vested > Amount`). -/
theorem overpaid_witness :
    scTrigger (bigPool (2 ^ 53 + 4)) 0 1700001000 =
      .ok ({ (bigPool 0) with dests := [{ id := 1, amount := 2 ^ 53 + 3, vested := 2 ^ 53 + 4, last := 1700001000, move := 1700001000 }] },
           [(1, 2 ^ 53 + 4)]) := by decide +kernel

/-- after such an overpayment `left()` fails for ever: the owner can neither withdraw an excess nor delete a funded pool. -/
theorem owner_cannot_withdraw_witness :
    let p : Pool := { (bigPool 7) with dests := [{ id := 1, amount := 2 ^ 53 + 3, vested := 2 ^ 53 + 4, last := 1700001000, move := 1700001000 }] }
    scUnlock p 0 1700001001 = .error (.coin .minusOverflow) ∧ scDelete p 0 1700001001 = .error (.coin .minusOverflow) := by
  decide +kernel

/-! ## non-vacuity -/

def smallPool : Pool :=
  { balance := 30000000005, start := 1700000000, expire := 1700001000, owner := 0,
    dests := [{ id := 1, amount := 10000000000, vested := 0, last := 1700000000, move := 1700000000 },
              { id := 2, amount := 20000000000, vested := 0, last := 1700000000, move := 1700000000 }] }

example : PoolGood smallPool 1700000250 := by
  refine ⟨?_, by decide, by decide⟩
  intro d hd
  simp only [smallPool, List.mem_cons, List.not_mem_nil, or_false] at hd
  rcases hd with rfl | rfl <;> exact ⟨by decide, by decide, by decide, by decide, by decide⟩

example : scTrigger smallPool 0 1700000250 =
    .ok ({ balance := 22500000005, start := 1700000000, expire := 1700001000, owner := 0,
           dests := [{ id := 1, amount := 10000000000, vested := 2500000000, last := 1700000250, move := 1700000250 },
                     { id := 2, amount := 20000000000, vested := 5000000000, last := 1700000250, move := 1700000250 }] },
         [(1, 2500000000), (2, 5000000000)]) := by decide +kernel

example : scDelete smallPool 0 1700000250 = .ok [(1, 2500000000), (2, 5000000000), (0, 22500000005)] := by decide +kernel

end ZChain.Vesting
