import ZChain.Model.Agg
import Mathlib.Algebra.Field.ZMod
import Mathlib.Algebra.BigOperators.Group.List.Basic
import Mathlib.Tactic.Ring
import Mathlib.Tactic.LinearCombination
/-!
# C32 — Batched signature checks agree with individual checks

`Model/Agg.lean` is the aggregate scheme as coded (batches, in-place fold); the statements are over an arbitrary
field and any number of items, any batch size, any assignment of items to batches.

* `first_verify`            — the first `Verify()` after any sequence of `Aggregate` calls answers `Σσᵢ = Σ pkᵢ·hᵢ`,
                              whatever the batch split;
* `agg_complete`            — all individually valid ⇒ accepted;
* FULL statement `agg_sound` (accepted ⇒ all individually valid) is **false**:
  `agg_cancellation` (σ₁+δ, σ₂−δ), `agg_rogue_key` (a rogue public key forges a partner's signature on a common
  message), negation witness `agg_sound_false` (kernel-evaluated, through the scheme model);
* `agg_sound_partial`       — accepted ⇔ the errors `σᵢ − pkᵢ·hᵢ` add up to zero;
  `agg_single_corruption_rejected` — exactly one corrupted signature ⇒ rejected.
-/
namespace ZChain.Agg
open ZChain.Alg
variable {F : Type} [Field F] [DecidableEq F]

def sumSig (items : List (AggItem F)) : F := (items.map (·.sig)).sum
def sumPair (items : List (AggItem F)) : F := (items.map (fun it => it.pk * it.h)).sum
/-- the error of an item: how far its signature is from the valid one. -/
def errOf (it : AggItem F) : F := it.sig - it.pk * it.h

def g0 (o : Option F) : F := o.getD 0

omit [DecidableEq F] in
theorem sum_set_addOpt (l : List (Option F)) (b : Nat) (hb : b < l.length) (x : F) :
    ((l.set b (addOpt (l.getD b none) x)).map g0).sum = (l.map g0).sum + x := by
  induction l generalizing b with
  | nil => simp at hb
  | cons o l ih =>
    cases b with
    | zero =>
      simp only [List.set_cons_zero, List.map_cons, List.sum_cons, List.getD_cons_zero]
      cases o with
      | none => simp [addOpt, g0]; ring
      | some y => simp [addOpt, g0]; ring
    | succ b =>
      simp only [List.set_cons_succ, List.map_cons, List.sum_cons, List.getD_cons_succ]
      rw [ih b (by simpa using hb)]; ring

omit [DecidableEq F] in
theorem aggregate_spec (s s' : Scheme F) (i : Nat) (it : AggItem F) (h : aggregate s i it = some s') :
    (s'.sigs.map g0).sum = (s.sigs.map g0).sum + it.sig ∧
    (s'.gts.map g0).sum = (s.gts.map g0).sum + it.pk * it.h ∧ s'.batchSize = s.batchSize := by
  unfold aggregate at h
  simp only at h
  split at h
  · rename_i hb
    injection h with h
    subst h
    exact ⟨sum_set_addOpt _ _ hb.1 _, sum_set_addOpt _ _ hb.2 _, rfl⟩
  · cases h

omit [DecidableEq F] in
theorem aggregateAll_spec (items : List (Nat × AggItem F)) (s s' : Scheme F) (h : aggregateAll s items = some s') :
    (s'.sigs.map g0).sum = (s.sigs.map g0).sum + sumSig (items.map (·.2)) ∧
    (s'.gts.map g0).sum = (s.gts.map g0).sum + sumPair (items.map (·.2)) := by
  induction items generalizing s with
  | nil =>
    simp only [aggregateAll, Option.some.injEq] at h
    subst h; simp [sumSig, sumPair]
  | cons e items ih =>
    obtain ⟨i, it⟩ := e
    simp only [aggregateAll] at h
    cases ha : aggregate s i it with
    | none => rw [ha] at h; cases h
    | some s1 =>
      rw [ha] at h
      simp only [Option.bind_some] at h
      obtain ⟨h1, h2, _⟩ := aggregate_spec s s1 i it ha
      obtain ⟨k1, k2⟩ := ih s1 h
      refine ⟨?_, ?_⟩
      · rw [k1, h1]; simp [sumSig]; ring
      · rw [k2, h2]; simp [sumPair]; ring

omit [DecidableEq F] in
theorem sumOpts_some (l : List (Option F)) (v : F) (h : sumOpts l = some v) : v = (l.map g0).sum := by
  have key : ∀ (l : List (Option F)) (acc : Option F) (v : F),
      l.foldl (fun acc o => match acc, o with
        | some a, some x => some (a + x)
        | _, _ => none) acc = some v → ∃ a, acc = some a ∧ v = a + (l.map g0).sum := by
    intro l
    induction l with
    | nil => intro acc v h; exact ⟨v, by simpa using h, by simp⟩
    | cons o l ih =>
      intro acc v h
      simp only [List.foldl_cons] at h
      obtain ⟨a1, ha1, hv⟩ := ih _ v h
      cases acc with
      | none => simp at ha1
      | some a =>
        cases o with
        | none => simp at ha1
        | some x =>
          simp only [Option.some.injEq] at ha1
          refine ⟨a, rfl, ?_⟩
          rw [hv, ← ha1]; simp [g0]; ring
  obtain ⟨a, ha, hv⟩ := key l (some 0) v h
  simp only [Option.some.injEq] at ha
  rw [hv, ← ha]; ring

/-- what `Verify()` answers when it answers at all. -/
theorem verify_spec (s s' : Scheme F) (b : Bool) (h : verify s = some (s', b)) :
    b = decide ((s.sigs.map g0).sum = (s.gts.map g0).sum) := by
  unfold verify at h
  split at h
  · rename_i a ss g gs hs hg
    split at h
    · rename_i sa sg hsa hsg
      split at h
      · injection h with h
        injection h with _ hb
        rw [← hb, hs, hg, sumOpts_some ss sa hsa, sumOpts_some gs sg hsg]
        simp [g0]
      · cases h
    · cases h
  · cases h

omit [DecidableEq F] in
theorem new_sums (total bs : Nat) (s : Scheme F) (h : new total bs = some s) :
    (s.sigs.map g0).sum = 0 ∧ (s.gts.map g0).sum = 0 := by
  unfold new at h
  split at h
  · cases h
  · injection h with h
    subst h
    simp [g0]

/-- **first_verify**: the scheme as the callers use it — `New`, any `Aggregate` calls (any indices, any batch size),
one `Verify` — accepts exactly when `Σσᵢ = Σ pkᵢ·hᵢ`; the batch split is irrelevant. -/
theorem first_verify (total bs : Nat) (items : List (Nat × AggItem F)) (s0 s s' : Scheme F) (b : Bool)
    (h0 : new total bs = some s0) (h1 : aggregateAll s0 items = some s) (h2 : verify s = some (s', b)) :
    b = decide (sumSig (items.map (·.2)) = sumPair (items.map (·.2))) := by
  obtain ⟨a1, a2⟩ := aggregateAll_spec items s0 s h1
  obtain ⟨n1, n2⟩ := new_sums total bs s0 h0
  rw [verify_spec s s' b h2, a1, a2, n1, n2]
  simp

/-! ## the property on the equation -/

omit [DecidableEq F] in
theorem sum_err (items : List (AggItem F)) : (items.map errOf).sum = sumSig items - sumPair items := by
  induction items with
  | nil => simp [sumSig, sumPair]
  | cons it items ih =>
    simp only [List.map_cons, List.sum_cons, ih, sumSig, sumPair, errOf]; ring

/-- **agg_complete**: if every signature is valid for its key and message the aggregate equation holds. -/
theorem agg_complete (items : List (AggItem F)) (hv : allValid items = true) : sumSig items = sumPair items := by
  have : ∀ it ∈ items, errOf it = 0 := by
    intro it hit
    simp only [allValid, List.all_eq_true] at hv
    have := hv it hit
    simp only [Alg.verify, decide_eq_true_eq] at this
    simp [errOf, this]
  have hs := sum_err items
  have h0 : (items.map errOf).sum = 0 := by
    rw [List.map_congr_left this]; simp
  rw [h0] at hs
  exact (sub_eq_zero.mp hs.symm)

omit [DecidableEq F] in
/-- **agg_sound_partial**: the aggregate equation holds exactly when the individual errors add up to zero. -/
theorem agg_sound_partial (items : List (AggItem F)) :
    sumSig items = sumPair items ↔ (items.map errOf).sum = 0 := by
  rw [sum_err]; exact sub_eq_zero.symm

/-- **agg_single_corruption_rejected**: all valid but exactly one ⇒ the equation fails. -/
theorem agg_single_corruption_rejected (pre post : List (AggItem F)) (bad : AggItem F)
    (h1 : allValid pre = true) (h2 : allValid post = true) (hb : Alg.verify bad.pk bad.h bad.sig = false) :
    sumSig (pre ++ bad :: post) ≠ sumPair (pre ++ bad :: post) := by
  intro heq
  have e1 := agg_complete pre h1
  have e2 := agg_complete post h2
  simp only [sumSig, sumPair, List.map_append, List.map_cons, List.sum_append, List.sum_cons] at heq e1 e2
  have : bad.sig = bad.pk * bad.h := by linear_combination heq - e1 - e2
  simp [Alg.verify, this] at hb

/-- **agg_cancellation**: two valid signatures perturbed by `+δ` and `−δ` (`δ ≠ 0`, e.g. any curve point `P`) are both
individually invalid, and the aggregate equation still holds — the full `agg_sound` is false. -/
theorem agg_cancellation (a b : AggItem F) (ha : Alg.verify a.pk a.h a.sig = true) (hb : Alg.verify b.pk b.h b.sig = true)
    (δ : F) (hδ : δ ≠ 0) :
    let a' : AggItem F := { a with sig := a.sig + δ }
    let b' : AggItem F := { b with sig := b.sig - δ }
    Alg.verify a'.pk a'.h a'.sig = false ∧ Alg.verify b'.pk b'.h b'.sig = false ∧
      sumSig [a', b'] = sumPair [a', b'] := by
  simp only [Alg.verify, decide_eq_true_eq] at ha hb
  refine ⟨?_, ?_, ?_⟩
  · simp only [Alg.verify, decide_eq_false_iff_not, ha]
    intro h; exact hδ (by linear_combination h)
  · simp only [Alg.verify, decide_eq_false_iff_not, hb]
    intro h; exact hδ (by linear_combination -h)
  · simp only [sumSig, sumPair, List.map_cons, List.map_nil, List.sum_cons, List.sum_nil, ha, hb]; ring

omit [DecidableEq F] in
/-- **agg_rogue_key**: on a common message (tickets all sign the block hash) a party that may register the public
key `x − pk_v` makes the pair ("victim signs ρ", "rogue signs x·h − ρ") pass for ANY `ρ`: the victim's ticket is
forged. (Proof of possession of registered keys is what excludes this; recorded as an assumption.) -/
theorem agg_rogue_key (pkv h x ρ : F) :
    sumSig [⟨pkv, h, ρ⟩, ⟨x - pkv, h, x * h - ρ⟩] = sumPair [⟨pkv, h, ρ⟩, ⟨x - pkv, h, x * h - ρ⟩] := by
  simp only [sumSig, sumPair, List.map_cons, List.map_nil, List.sum_cons, List.sum_nil]; ring

/-! ## negation witness of the full statement, through the scheme model (kernel-evaluated over `ZMod 7`) -/
section Witness
instance : Fact (Nat.Prime 7) := ⟨by decide⟩
abbrev Z7 := ZMod 7

/-- keys 2 and 3, message points 1 and 4: valid signatures 2 and 5; perturbed by ±1 to 3 and 4. -/
def witness : List (Nat × AggItem Z7) := [(0, ⟨2, 1, 3⟩), (1, ⟨3, 4, 4⟩)]

/-- FULL statement (false): "whenever the scheme accepts, every item is individually valid". -/
def AggSound : Prop :=
  ∀ (total bs : Nat) (items : List (Nat × AggItem Z7)) (s0 s s' : Scheme Z7),
    new total bs = some s0 → aggregateAll s0 items = some s → verify s = some (s', true) →
    allValid (items.map (·.2)) = true

theorem witness_accepted_one_batch :
    (((new (F := Z7) 2 2).bind (fun s => aggregateAll s witness)).bind verify).map (·.2) = some true := by decide
theorem witness_accepted_two_batches :
    (((new (F := Z7) 2 1).bind (fun s => aggregateAll s witness)).bind verify).map (·.2) = some true := by decide
theorem witness_items_invalid : (witness.map (·.2)).map (fun it => Alg.verify it.pk it.h it.sig) = [false, false] := by
  decide

theorem agg_sound_false : ¬ AggSound := by
  intro h
  have hn : new (F := Z7) 2 1 = some ⟨1, [none, none], [none, none]⟩ := by rfl
  have ha : aggregateAll (F := Z7) ⟨1, [none, none], [none, none]⟩ witness =
      some ⟨1, [some 3, some 4], [some 2, some 5]⟩ := by rfl
  have hv : verify (F := Z7) ⟨1, [some 3, some 4], [some 2, some 5]⟩ =
      some (⟨1, [some 0, some 4], [some 0, some 5]⟩, true) := by rfl
  have := h 2 1 witness _ _ _ hn ha hv
  revert this
  decide

/-- non-vacuity of `first_verify` / `agg_complete`: an all-valid run is accepted, a single corruption rejected. -/
example : (((new (F := Z7) 3 2).bind (fun s => aggregateAll s [(0, ⟨2, 1, 2⟩), (2, ⟨3, 4, 5⟩), (1, ⟨6, 6, 1⟩)])).bind verify).map (·.2)
    = some true := by decide
example : (((new (F := Z7) 3 2).bind (fun s => aggregateAll s [(0, ⟨2, 1, 2⟩), (2, ⟨3, 4, 6⟩), (1, ⟨6, 6, 1⟩)])).bind verify).map (·.2)
    = some false := by decide
/-- the in-place fold: a second `Verify` of the two-batch witness re-adds batch 1 and now rejects it. -/
example : ((((new (F := Z7) 2 1).bind (fun s => aggregateAll s witness)).bind verify).bind
    (fun r => verify r.1)).map (·.2) = some false := by decide
end Witness

end ZChain.Agg
