import ZChain.Proofs.BlockHash
import ZChain.Generated.C29
/-!
# C29 — Block hashes commit to block contents

> A block's hash is a deterministic function of its contents, so changing any field that determines the block's
> effect (generator, parent, round, random seed, transactions, their outputs, resulting state, magic block)
> changes the hash. A received block whose hash or generator signature does not match, or that repeats a
> transaction, is rejected.

Every statement below is about `Model/BlockHash.lean` interpreted over `Generated.C29.table`, the table that
`harness/cmd/xc29` re-extracts from `chaincore/block/entity.go` on every run; the side conditions "this term is
in the list", "no term is written twice" are DECIDED on that table, so dropping a field from `getHashData`, or a
check from `Validate`, makes the corresponding theorem fail to check. `harness/cmd/c29` ties the interpreter to
the real `ComputeHash`/`Validate` (the model driver computes real SHA3 hashes, compared bit for bit).

`H` (= `encryption.Hash`) and `Hmb` (= `MagicBlock.GetHash`) are arbitrary functions; `Function.Injective H` is a
hypothesis wherever collision resistance is used, never an axiom.

FULL STATEMENT, not provable, of the first sentence: "for every field `f` in {generator, parent, round, random
seed, transactions, outputs, resulting state, magic block} and every block, changing `f` changes `ComputeHash`".
It is FALSE of the code for `resulting state` (`ClientStateHash`) and for the magic block's CONTENTS when its
stored `Hash` is non-empty: see `clientStateHash_not_bound`, `magicBlock_content_not_bound` (negation witnesses,
replayed on the real code by `harness/cmd/c29`; findings `C29:state-hash-not-bound`,
`C29:magic-block-content-not-bound`). The proved part is `commits_partial` (all other named fields).
-/
namespace ZChain.C29
open ZChain.HashBind ZChain.BlockHash

abbrev T : Table := ZChain.Generated.C29.table

/-! ## facts decided on the generated table -/

theorem table_wellTyped : T.wellTyped = true := by decide
theorem terms_nodup : (T.terms ++ T.mbSuffix).Nodup := by decide
theorem sep_is_colon : T.sep = colon := by decide
theorem leaves : T.txnLeaf = .txnHash ∧ T.receiptLeaf = .txnOutputHash ∧ T.mapKey = .txnHash := by decide

/-- the struct fields that NO hash-data term reads — the complete list, decided on the generated table
(`Txns` and `MagicBlock` are read through the Merkle roots / the magic-block hash). A new field, or a field dropped
from `getHashData`, changes this list and the theorem stops checking. -/
def readByHash (f : Field) : Bool :=
  (T.terms ++ T.mbSuffix).any fun t => match t with
    | .str g | .dec g => g = f
    | .txnRoot | .receiptRoot => f = .txns
    | .mbHashOrComputed => f = .magicBlock

theorem unread_fields_exact :
    (T.fields.map (·.1)).filter (fun f => !readByHash f) =
      [.version, .latestFinalizedMagicBlockHash, .latestFinalizedMagicBlockRound, .prevBlockVerificationTickets,
       .roundTimeoutCount, .clientStateHash, .verificationTickets, .hash, .signature, .chainID, .roundRank,
       .prevBlock, .events, .txnsMap, .clientState, .runningTxnCount] := by decide

/-! ## single-field tampering changes the hash (the property's quantifier; only `H` injective is used) -/

section tamper
variable (H Hmb : Str → Str) (hH : Function.Injective H)
include hH

theorem computeHash_eq {b b' : Block} (h : computeHash T H Hmb b' = computeHash T H Hmb b) :
    hashData T H Hmb b' = hashData T H Hmb b := hH h

/-- generator -/
theorem tamper_minerID (b : Block) (v : Str) (hv : v ≠ b.str .minerID) :
    computeHash T H Hmb (b.setStr .minerID v) ≠ computeHash T H Hmb b :=
  fun h => hv (tamper_str T H Hmb terms_nodup .minerID (by decide) b v (computeHash_eq H Hmb hH h))

/-- parent -/
theorem tamper_prevHash (b : Block) (v : Str) (hv : v ≠ b.str .prevHash) :
    computeHash T H Hmb (b.setStr .prevHash v) ≠ computeHash T H Hmb b :=
  fun h => hv (tamper_str T H Hmb terms_nodup .prevHash (by decide) b v (computeHash_eq H Hmb hH h))

theorem tamper_creationDate (b : Block) (v : Int) (hv : v ≠ b.int .creationDate) :
    computeHash T H Hmb (b.setInt .creationDate v) ≠ computeHash T H Hmb b :=
  fun h => hv (tamper_dec T H Hmb terms_nodup .creationDate (by decide) b v (computeHash_eq H Hmb hH h))

theorem tamper_round (b : Block) (v : Int) (hv : v ≠ b.int .round) :
    computeHash T H Hmb (b.setInt .round v) ≠ computeHash T H Hmb b :=
  fun h => hv (tamper_dec T H Hmb terms_nodup .round (by decide) b v (computeHash_eq H Hmb hH h))

theorem tamper_roundRandomSeed (b : Block) (v : Int) (hv : v ≠ b.int .roundRandomSeed) :
    computeHash T H Hmb (b.setInt .roundRandomSeed v) ≠ computeHash T H Hmb b :=
  fun h => hv (tamper_dec T H Hmb terms_nodup .roundRandomSeed (by decide) b v (computeHash_eq H Hmb hH h))

theorem tamper_stateChangesCount (b : Block) (v : Int) (hv : v ≠ b.int .stateChangesCount) :
    computeHash T H Hmb (b.setInt .stateChangesCount v) ≠ computeHash T H Hmb b :=
  fun h => hv (tamper_dec T H Hmb terms_nodup .stateChangesCount (by decide) b v (computeHash_eq H Hmb hH h))

/-- a transaction (its hash, which by C30 commits to time, nonce, sender, recipient, value, data) -/
theorem tamper_txn (b : Block) (pre post : List Txn) (t : Txn) (v : Str) (hb : b.txns = pre ++ t :: post)
    (hv : v ≠ t.hash) :
    computeHash T H Hmb (b.setTxns (pre ++ { t with hash := v } :: post)) ≠ computeHash T H Hmb b :=
  fun h => hv (tamper_txn_hash T H Hmb hH terms_nodup leaves.1 leaves.2.1 (by decide) b pre post t v hb
    (computeHash_eq H Hmb hH h))

/-- a transaction's output (its output hash) -/
theorem tamper_output (b : Block) (pre post : List Txn) (t : Txn) (v : Str) (hb : b.txns = pre ++ t :: post)
    (hv : v ≠ t.outputHash) :
    computeHash T H Hmb (b.setTxns (pre ++ { t with outputHash := v } :: post)) ≠ computeHash T H Hmb b :=
  fun h => hv (tamper_txn_output T H Hmb hH terms_nodup leaves.1 leaves.2.1 (by decide) b pre post t v hb
    (computeHash_eq H Hmb hH h))

/-- the magic block, as far as its effective hash (stored `Hash`, or `GetHash()` when that is empty) goes -/
theorem tamper_magicBlock_hash (b : Block) (m m' : MB) (hb : b.magicBlock = some m)
    (hv : mbHash Hmb m' ≠ mbHash Hmb m) :
    computeHash T H Hmb { b with magicBlock := some m' } ≠ computeHash T H Hmb b :=
  fun h => hv (tamper_mb_hash T H Hmb terms_nodup (by decide) b m m' hb (computeHash_eq H Hmb hH h))

/-- with an empty stored hash and an injective `GetHash`, any change of the magic block's contents shows -/
theorem tamper_magicBlock_content (hmb : Function.Injective Hmb) (b : Block) (c c' : Str)
    (hb : b.magicBlock = some ⟨[], c⟩) (hv : c' ≠ c) :
    computeHash T H Hmb { b with magicBlock := some ⟨[], c'⟩ } ≠ computeHash T H Hmb b :=
  tamper_magicBlock_hash H Hmb hH b ⟨[], c⟩ ⟨[], c'⟩ hb (by
    simp only [mbHash, ↓reduceIte]
    exact fun e => hv (hmb e))

/-- **commits_partial** — the provable part of the first sentence of C29, in one statement: a tampering of the
generator, the parent, the creation date, the round, the random seed, the state-change count, one transaction
hash, one output hash or the effective magic-block hash that leaves the block hash unchanged is no tampering. -/
theorem commits_partial (b : Block) :
    (∀ v, computeHash T H Hmb (b.setStr .minerID v) = computeHash T H Hmb b → v = b.str .minerID) ∧
    (∀ v, computeHash T H Hmb (b.setStr .prevHash v) = computeHash T H Hmb b → v = b.str .prevHash) ∧
    (∀ v, computeHash T H Hmb (b.setInt .creationDate v) = computeHash T H Hmb b → v = b.int .creationDate) ∧
    (∀ v, computeHash T H Hmb (b.setInt .round v) = computeHash T H Hmb b → v = b.int .round) ∧
    (∀ v, computeHash T H Hmb (b.setInt .roundRandomSeed v) = computeHash T H Hmb b → v = b.int .roundRandomSeed) ∧
    (∀ v, computeHash T H Hmb (b.setInt .stateChangesCount v) = computeHash T H Hmb b → v = b.int .stateChangesCount) ∧
    (∀ pre post t v, b.txns = pre ++ t :: post →
      computeHash T H Hmb (b.setTxns (pre ++ { t with hash := v } :: post)) = computeHash T H Hmb b → v = t.hash) ∧
    (∀ pre post t v, b.txns = pre ++ t :: post →
      computeHash T H Hmb (b.setTxns (pre ++ { t with outputHash := v } :: post)) = computeHash T H Hmb b →
      v = t.outputHash) ∧
    (∀ m m', b.magicBlock = some m →
      computeHash T H Hmb { b with magicBlock := some m' } = computeHash T H Hmb b → mbHash Hmb m' = mbHash Hmb m) := by
  refine ⟨?_, ?_, ?_, ?_, ?_, ?_, ?_, ?_, ?_⟩
  · exact fun v h => Classical.byContradiction fun hv => tamper_minerID H Hmb hH b v hv h
  · exact fun v h => Classical.byContradiction fun hv => tamper_prevHash H Hmb hH b v hv h
  · exact fun v h => Classical.byContradiction fun hv => tamper_creationDate H Hmb hH b v hv h
  · exact fun v h => Classical.byContradiction fun hv => tamper_round H Hmb hH b v hv h
  · exact fun v h => Classical.byContradiction fun hv => tamper_roundRandomSeed H Hmb hH b v hv h
  · exact fun v h => Classical.byContradiction fun hv => tamper_stateChangesCount H Hmb hH b v hv h
  · exact fun pre post t v hb h => Classical.byContradiction fun hv => tamper_txn H Hmb hH b pre post t v hb hv h
  · exact fun pre post t v hb h => Classical.byContradiction fun hv => tamper_output H Hmb hH b pre post t v hb hv h
  · exact fun m m' hb h => Classical.byContradiction fun hv => tamper_magicBlock_hash H Hmb hH b m m' hb hv h

/-! `binds_<field>`: one name per effect-relevant field the property lists, each resting on a membership fact
decided against the GENERATED term list (inside the `tamper_*` proofs). -/
theorem binds_generator (b : Block) (v : Str) (hv : v ≠ b.str .minerID) :
    computeHash T H Hmb (b.setStr .minerID v) ≠ computeHash T H Hmb b := tamper_minerID H Hmb hH b v hv
theorem binds_parent (b : Block) (v : Str) (hv : v ≠ b.str .prevHash) :
    computeHash T H Hmb (b.setStr .prevHash v) ≠ computeHash T H Hmb b := tamper_prevHash H Hmb hH b v hv
theorem binds_round (b : Block) (v : Int) (hv : v ≠ b.int .round) :
    computeHash T H Hmb (b.setInt .round v) ≠ computeHash T H Hmb b := tamper_round H Hmb hH b v hv
theorem binds_randomSeed (b : Block) (v : Int) (hv : v ≠ b.int .roundRandomSeed) :
    computeHash T H Hmb (b.setInt .roundRandomSeed v) ≠ computeHash T H Hmb b := tamper_roundRandomSeed H Hmb hH b v hv
theorem binds_transaction (b : Block) (pre post : List Txn) (t : Txn) (v : Str) (hb : b.txns = pre ++ t :: post)
    (hv : v ≠ t.hash) :
    computeHash T H Hmb (b.setTxns (pre ++ { t with hash := v } :: post)) ≠ computeHash T H Hmb b :=
  tamper_txn H Hmb hH b pre post t v hb hv
theorem binds_output (b : Block) (pre post : List Txn) (t : Txn) (v : Str) (hb : b.txns = pre ++ t :: post)
    (hv : v ≠ t.outputHash) :
    computeHash T H Hmb (b.setTxns (pre ++ { t with outputHash := v } :: post)) ≠ computeHash T H Hmb b :=
  tamper_output H Hmb hH b pre post t v hb hv
theorem binds_magicBlock (b : Block) (m m' : MB) (hb : b.magicBlock = some m) (hv : mbHash Hmb m' ≠ mbHash Hmb m) :
    computeHash T H Hmb { b with magicBlock := some m' } ≠ computeHash T H Hmb b :=
  tamper_magicBlock_hash H Hmb hH b m m' hb hv

end tamper

/-! ## the hash determines the contents (collision form, with honest side conditions)

Side conditions and why they hold on the acceptance path:
* `MinerID`, `PrevHash` contain no `':'` — a block is only processed further when `node.GetNode(MinerID)` knows
  the miner (ids are hex hashes of public keys) and when the previous block with that hash is found (block hashes
  are outputs of `H`, i.e. hex). `Validate` itself does NOT check `PrevHash`; without this condition the
  statement is false — `hashdata_two_free_text_collision`.
* decimal renderings of `CreationDate`, `Round`, `RoundRandomSeed`, `StateChangesCount` never contain `':'`
  (proved: `colon_not_mem_renderInt`); Merkle roots are `""` or outputs of `H` (proved: `merkleRoot_range`),
  and outputs of `H` are hex (`hHfree`).
* the magic-block hash is written LAST and may be arbitrary text. -/

/-- **hashdata_injective**: equal block hash ⇒ equal value of every bound field. -/
theorem hashdata_injective (H Hmb : Str → Str) (hH : Function.Injective H) (hHfree : ∀ x, colon ∉ H x)
    (b1 b2 : Block)
    (w1 : colon ∉ b1.str .minerID ∧ colon ∉ b1.str .prevHash) (w2 : colon ∉ b2.str .minerID ∧ colon ∉ b2.str .prevHash)
    (h : computeHash T H Hmb b1 = computeHash T H Hmb b2) :
    b1.str .minerID = b2.str .minerID ∧ b1.str .prevHash = b2.str .prevHash ∧
    b1.int .creationDate = b2.int .creationDate ∧ b1.int .round = b2.int .round ∧
    b1.int .roundRandomSeed = b2.int .roundRandomSeed ∧ b1.int .stateChangesCount = b2.int .stateChangesCount ∧
    merkleRoot H (b1.txns.map (·.hash)) = merkleRoot H (b2.txns.map (·.hash)) ∧
    merkleRoot H (b1.txns.map (·.outputHash)) = merkleRoot H (b2.txns.map (·.outputHash)) ∧
    b1.magicBlock.isSome = b2.magicBlock.isSome ∧
    (∀ m1 m2, b1.magicBlock = some m1 → b2.magicBlock = some m2 → mbHash Hmb m1 = mbHash Hmb m2) := by
  have sf : ∀ b : Block, colon ∉ b.str .minerID ∧ colon ∉ b.str .prevHash → StrFree T b := by
    intro b hb f hf
    have : f = .minerID ∨ f = .prevHash := by
      revert hf; cases f <;> decide
    rcases this with rfl | rfl
    · exact hb.1
    · exact hb.2
  obtain ⟨hsome, hall⟩ := BlockHash.hashData_injective T H Hmb sep_is_colon hHfree (by decide) (by decide) (by decide)
    b1 b2 (sf b1 w1) (sf b2 w2) (hH h)
  have tm : ∀ t, t ∈ T.terms → t ∈ termsOf T b1 := fun t ht => mem_termsOf_of_mem_terms T b1 ht
  have h1 := hall (.str .minerID) (tm _ (by decide))
  have h2 := hall (.str .prevHash) (tm _ (by decide))
  have h3 := hall (.dec .creationDate) (tm _ (by decide))
  have h4 := hall (.dec .round) (tm _ (by decide))
  have h5 := hall (.dec .roundRandomSeed) (tm _ (by decide))
  have h6 := hall (.dec .stateChangesCount) (tm _ (by decide))
  have h7 := hall .txnRoot (tm _ (by decide))
  have h8 := hall .receiptRoot (tm _ (by decide))
  refine ⟨h1, h2, renderInt_injective h3, renderInt_injective h4, renderInt_injective h5, renderInt_injective h6,
    ?_, ?_, hsome, ?_⟩
  · simpa [render, leaves.1, Txn.leaf] using h7
  · simpa [render, leaves.2.1, Txn.leaf] using h8
  · intro m1 m2 e1 e2
    have := hall .mbHashOrComputed (by simp [termsOf, e1]; decide)
    simpa [render, e1, e2] using this

/-- what a verified transaction hash looks like: the hash of a string that contains `':'`
(`Transaction.HashData` joins six terms with `':'`, C30) -/
def TxnHashLike (H : Str → Str) (x : Str) : Prop := ∃ p, colon ∈ p ∧ x = H p

theorem merkleHyp_txn (H : Str → Str) (hH : Function.Injective H) (hHfree : ∀ x, colon ∉ H x) (L : Nat)
    (hw : ∀ x, (H x).length = L) : MerkleHyp H (TxnHashLike H) L where
  inj := hH
  width := hw
  leafRange := fun _ ⟨p, _, e⟩ => ⟨p, e⟩
  sep := by
    rintro x p q ⟨p0, hc, rfl⟩ e
    have := hH e
    rw [this, List.mem_append] at hc
    rcases hc with hc | hc
    · exact hHfree p hc
    · exact hHfree q hc

/-- **binds_transactions**: two blocks with the same hash, each without a repeated transaction (what `Validate`
enforces on a received block) and carrying verified transaction hashes, contain the same transaction hashes in the
same order — whatever the two numbers of transactions are — and the same output hashes. Without the
no-repetition condition this is false for every hash function (`txn_count_not_bound_without_dup_check`). -/
theorem binds_transactions (H Hmb : Str → Str) (hH : Function.Injective H) (hHfree : ∀ x, colon ∉ H x)
    (L : Nat) (hL : 0 < L) (hw : ∀ x, (H x).length = L) (b1 b2 : Block)
    (w1 : colon ∉ b1.str .minerID ∧ colon ∉ b1.str .prevHash) (w2 : colon ∉ b2.str .minerID ∧ colon ∉ b2.str .prevHash)
    (d1 : (b1.txns.map (·.hash)).Nodup) (d2 : (b2.txns.map (·.hash)).Nodup)
    (v1 : ∀ t ∈ b1.txns, TxnHashLike H t.hash) (v2 : ∀ t ∈ b2.txns, TxnHashLike H t.hash)
    (o1 : ∀ t ∈ b1.txns, t.outputHash.length = L) (o2 : ∀ t ∈ b2.txns, t.outputHash.length = L)
    (h : computeHash T H Hmb b1 = computeHash T H Hmb b2) : b1.txns = b2.txns := by
  obtain ⟨_, _, _, _, _, _, hr, hrr, _, _⟩ := hashdata_injective H Hmb hH hHfree b1 b2 w1 w2 h
  have hh : b1.txns.map (·.hash) = b2.txns.map (·.hash) :=
    merkleRoot_injective_nodup (merkleHyp_txn H hH hHfree L hw) hL _ _ d1 d2
      (by intro x hx; obtain ⟨t, ht, rfl⟩ := List.mem_map.mp hx; exact v1 t ht)
      (by intro x hx; obtain ⟨t, ht, rfl⟩ := List.mem_map.mp hx; exact v2 t ht) hr
  have hlen : b1.txns.length = b2.txns.length := by
    have := congrArg List.length hh
    simpa using this
  have ho : b1.txns.map (·.outputHash) = b2.txns.map (·.outputHash) :=
    merkleRoot_inj_len hH hw _ _
      (by intro x hx; obtain ⟨t, ht, rfl⟩ := List.mem_map.mp hx; exact o1 t ht)
      (by intro x hx; obtain ⟨t, ht, rfl⟩ := List.mem_map.mp hx; exact o2 t ht) (by simp [hlen]) hrr
  -- a list of pairs is determined by its two projections
  have key : ∀ (l1 l2 : List Txn), l1.map (·.hash) = l2.map (·.hash) → l1.map (·.outputHash) = l2.map (·.outputHash) →
      l1 = l2 := by
    intro l1
    induction l1 with
    | nil => intro l2 e _; cases l2 with
      | nil => rfl
      | cons _ _ => simp at e
    | cons a r ih =>
      intro l2 e1 e2
      cases l2 with
      | nil => simp at e1
      | cons c s =>
        simp only [List.map_cons, List.cons.injEq] at e1 e2
        have : a = c := by cases a; cases c; simp_all
        rw [this, ih s e1.2 e2.2]
  exact key _ _ hh ho

/-! ## negation witnesses -/

def zeroBlock : Block := ⟨fun _ => [], fun _ => 0, [], none, none⟩

/-- **resulting state is NOT bound**: `ClientStateHash` is not read by `getHashData` (decided on the generated
table), so two blocks that differ ONLY in it have the same hash for every hash function, and `Validate` gives the
same verdict on both. Replayed on the real `ComputeHash`/`Validate` by `harness/cmd/c29`
(finding `C29:state-hash-not-bound`). -/
theorem clientStateHash_not_bound (H Hmb : Str → Str) (env : Env) (b : Block) (v : Str) :
    computeHash T H Hmb (b.setStr .clientStateHash v) = computeHash T H Hmb b ∧
    validate T H Hmb env (b.setStr .clientStateHash v) = validate T H Hmb env b :=
  ⟨computeHash_setStr_unread T H Hmb .clientStateHash (by decide) b v,
   validate_setStr_unread T H Hmb env .clientStateHash (by decide) (by decide) b v⟩

/-- a concrete pair, for the record -/
theorem clientStateHash_witness : ∃ b1 b2 : Block, b1.str .clientStateHash ≠ b2.str .clientStateHash ∧
    (∀ f, f ≠ .clientStateHash → b1.str f = b2.str f) ∧ b1.int = b2.int ∧ b1.txns = b2.txns ∧
    b1.magicBlock = b2.magicBlock ∧ ∀ H Hmb, computeHash T H Hmb b1 = computeHash T H Hmb b2 :=
  ⟨zeroBlock.setStr .clientStateHash [1], zeroBlock, by simp [Block.setStr, zeroBlock],
   by intro f hf; simp [Block.setStr, hf, zeroBlock], rfl, rfl, rfl,
   fun H Hmb => (clientStateHash_not_bound H Hmb ⟨[], [], [], []⟩ zeroBlock [1]).1⟩

/-- **the magic block's contents are NOT bound once its `Hash` field is non-empty**: `getHashData` writes the
stored `MagicBlock.Hash` and recomputes it only when it is `""`. Replayed on the real code
(finding `C29:magic-block-content-not-bound`). -/
theorem magicBlock_content_not_bound (H Hmb : Str → Str) (b : Block) (m : MB) (c : Str)
    (hb : b.magicBlock = some m) (hh : m.hash ≠ []) :
    computeHash T H Hmb { b with magicBlock := some { m with content := c } } = computeHash T H Hmb b :=
  computeHash_mb_content T H Hmb b m c hb hh

/-- **the number of transactions is not bound by the Merkle roots alone**: for EVERY hash function, a block with
transactions `[a,b,c]` and the block with `[a,b,c,c]` have the same hash; it is the duplicate check of `Validate`
(`received_duplicate_rejected`) that excludes the second one. -/
theorem txn_count_not_bound_without_dup_check (H Hmb : Str → Str) (b : Block) (x y z : Txn) :
    computeHash T H Hmb (b.setTxns [x, y, z, z]) = computeHash T H Hmb (b.setTxns [x, y, z]) := by
  -- both Merkle roots coincide by computation (`merkle_dup_collision`), every other term does not read `Txns`
  have r1 := (merkle_dup_collision H x.hash y.hash z.hash).1
  have r2 := (merkle_dup_collision H x.outputHash y.outputHash z.outputHash).1
  unfold computeHash hashData items
  have ht : termsOf T (b.setTxns [x, y, z, z]) = termsOf T (b.setTxns [x, y, z]) := rfl
  rw [ht]
  have : (termsOf T (b.setTxns [x, y, z])).map (render T H Hmb (b.setTxns [x, y, z, z])) =
      (termsOf T (b.setTxns [x, y, z])).map (render T H Hmb (b.setTxns [x, y, z])) := by
    apply List.map_congr_left
    intro t _
    cases t with
    | txnRoot => simpa [render, Block.setTxns, leaves.1, Txn.leaf] using r1.symm
    | receiptRoot => simpa [render, Block.setTxns, leaves.2.1, Txn.leaf] using r2.symm
    | _ => rfl
  rw [this]

/-- **two free-text fields break injectivity of the hash data**: `PrevHash` and the magic-block hash are both
written verbatim; if both may contain `':'`, two blocks that differ in parent, round, seed, … have the same hash
data. (Not a single-field tampering; excluded on the acceptance path because a parent hash that is not hex is not
the hash of any block.) Replayed on the real `ComputeHash` as a fixed correspondence case. -/
theorem hashdata_two_free_text_collision :
    let b1 : Block := ⟨fun f => if f = .minerID then [109] else if f = .prevHash then [112] else [],
      fun f => if f = .creationDate then 1 else if f = .round then 2 else if f = .roundRandomSeed then 3
        else if f = .stateChangesCount then 4 else 0, [], some ⟨[53, 58, 54, 58, 55, 58, 56, 58, 58, 58, 122], []⟩, none⟩
    let b2 : Block := ⟨fun f => if f = .minerID then [109] else if f = .prevHash then [112, 58, 49, 58, 50, 58, 51, 58, 52, 58, 58] else [],
      fun f => if f = .creationDate then 5 else if f = .round then 6 else if f = .roundRandomSeed then 7
        else if f = .stateChangesCount then 8 else 0, [], some ⟨[122], []⟩, none⟩
    b1.int .round ≠ b2.int .round ∧ ∀ H Hmb, hashData T H Hmb b1 = hashData T H Hmb b2 := by
  intro b1 b2
  refine ⟨by decide, fun H Hmb => ?_⟩
  have e1 : hashData T H Hmb b1 = hashData T id id b1 := by
    simp [hashData, items, termsOf, T, ZChain.Generated.C29.table, render, b1, mbHash, merkleRoot]
  have e2 : hashData T H Hmb b2 = hashData T id id b2 := by
    simp [hashData, items, termsOf, T, ZChain.Generated.C29.table, render, b2, mbHash, merkleRoot]
  rw [e1, e2]
  decide

/-! ## Validate: what a received block must pass -/

/-- acceptance is exactly the conjunction of the extracted checks -/
theorem validate_accepts_iff (H Hmb : Str → Str) (env : Env) (b : Block) :
    validate T H Hmb env b = none ↔
      validChain env (b.str .chainID) = true ∧ b.str .hash ≠ [] ∧ b.str .minerID ≠ [] ∧
      b.str .minerID ∈ env.knownMiners ∧
      (∀ m, b.txnsMap = some m → b.txns.length = m.length) ∧
      b.str .hash = computeHash T H Hmb b ∧
      sigOk env (b.str .minerID) (b.str .hash) (b.str .signature) = true := by
  rw [validate_none_iff]
  have hc : T.checks = [.chainValid, .hashNonEmpty, .minerNonEmpty, .minerKnown, .noDupTxnsIfMap, .hashMatches, .sigVerifies] := by
    decide
  rw [hc]
  simp only [List.mem_cons, List.not_mem_nil, or_false, forall_eq_or_imp, forall_eq, checkOk, decide_eq_true_eq,
    List.contains_eq_mem]
  constructor
  · rintro ⟨h1, h2, h3, h4, h5, h6, h7⟩
    refine ⟨h1, h2, h3, h4, ?_, h6, h7⟩
    intro m hm
    rw [hm] at h5
    simpa using h5
  · rintro ⟨h1, h2, h3, h4, h5, h6, h7⟩
    refine ⟨h1, h2, h3, h4, ?_, h6, h7⟩
    cases hm : b.txnsMap with
    | none => rfl
    | some m => simpa using h5 m hm

/-- a block whose hash is not the hash of its contents is rejected -/
theorem hash_mismatch_rejected (H Hmb : Str → Str) (env : Env) (b : Block)
    (h : b.str .hash ≠ computeHash T H Hmb b) : validate T H Hmb env b ≠ none :=
  validate_rejects T H Hmb env b .hashMatches (by decide) (by simpa [checkOk] using h)

/-- a block whose signature is not the generator's signature of its hash is rejected -/
theorem bad_signature_rejected (H Hmb : Str → Str) (env : Env) (b : Block)
    (h : sigOk env (b.str .minerID) (b.str .hash) (b.str .signature) = false) : validate T H Hmb env b ≠ none :=
  validate_rejects T H Hmb env b .sigVerifies (by decide) (by simpa [checkOk] using h)

/-- in particular: if the generator never signed this hash, no signature string helps -/
theorem unsigned_hash_rejected (H Hmb : Str → Str) (env : Env) (b : Block)
    (h : ∀ t ∈ env.signed, ¬ (t.1 = b.str .minerID ∧ t.2.1 = b.str .hash)) : validate T H Hmb env b ≠ none := by
  apply bad_signature_rejected
  unfold sigOk
  rw [List.any_eq_false]
  intro t ht
  have := h t ht
  simp only [Bool.and_eq_true, decide_eq_true_eq]
  exact fun hh => this hh.1

/-- a RECEIVED block (decoding runs `ComputeProperties`, which fills `TxnsMap`) that repeats a transaction is
rejected. As coded the check is skipped when `TxnsMap` is nil: `duplicate_unnoticed_without_map`. -/
theorem received_duplicate_rejected (H Hmb : Str → Str) (env : Env) (b : Block)
    (h : ¬ (b.txns.map (·.hash)).Nodup) : validate T H Hmb env (computeTxnMap T b) ≠ none := by
  apply validate_rejects T H Hmb env _ .noDupTxnsIfMap (by decide)
  have := dedup_length_lt_of_not_nodup _ h
  simp only [checkOk, computeTxnMap, leaves.2.2, Txn.leaf, List.length_map] at this ⊢
  simp only [decide_eq_false_iff_not]
  omega

theorem duplicate_unnoticed_without_map (H Hmb : Str → Str) (env : Env) (b : Block) (h : b.txnsMap = none) :
    checkOk T H Hmb env b .noDupTxnsIfMap = true := by simp [checkOk, h]

/-- **tampering is rejected**: if the hash field is left as it was in an accepted block, any tampering that
changes the computed hash is rejected by `Validate` (combine with the `tamper_*` theorems). -/
theorem tampered_rejected (H Hmb : Str → Str) (env : Env) (b b' : Block)
    (hacc : validate T H Hmb env b = none) (hsame : b'.str .hash = b.str .hash)
    (hchg : computeHash T H Hmb b' ≠ computeHash T H Hmb b) : validate T H Hmb env b' ≠ none := by
  apply hash_mismatch_rejected
  rw [hsame, ((validate_accepts_iff H Hmb env b).mp hacc).2.2.2.2.2.1]
  exact fun e => hchg e.symm

/-- … and if the hash field is recomputed, the generator's signature no longer covers it: rejected unless the
generator signed the new hash as well. -/
theorem rehashed_rejected (H Hmb : Str → Str) (env : Env) (b' : Block)
    (hns : ∀ t ∈ env.signed, ¬ (t.1 = b'.str .minerID ∧ t.2.1 = computeHash T H Hmb b')) :
    validate T H Hmb env b' ≠ none := by
  intro h
  have hacc := (validate_accepts_iff H Hmb env b').mp h
  refine unsigned_hash_rejected H Hmb env b' ?_ h
  intro t ht
  rw [hacc.2.2.2.2.2.1]
  exact hns t ht

/-! ## non-vacuity -/

/-- a concrete accepted block (with the identity as "hash"): the hypotheses of the theorems above are satisfiable -/
def demoBlock : Block :=
  ⟨fun f => if f = .minerID then [109] else if f = .prevHash then [112] else if f = .chainID then [99]
      else if f = .hash then [109, 58, 112, 58, 49, 58, 50, 58, 51, 58, 52, 58, 58] else if f = .signature then [115] else [],
   fun f => if f = .creationDate then 1 else if f = .round then 2 else if f = .roundRandomSeed then 3
      else if f = .stateChangesCount then 4 else 0, [], none, some []⟩

def demoEnv : Env := ⟨[99], [], [[109]], [([109], [109, 58, 112, 58, 49, 58, 50, 58, 51, 58, 52, 58, 58], [115])]⟩

example : validate T id id demoEnv demoBlock = none := by decide
example : validate T id id demoEnv (demoBlock.setInt .round 7) = some .hashMatches := by decide
example : validate T id id demoEnv (demoBlock.setStr .signature [116]) = some .sigVerifies := by decide
example : validate T id id demoEnv (demoBlock.setStr .clientStateHash [1, 2, 3]) = none := by decide
example : validate T id id demoEnv (computeTxnMap T (demoBlock.setTxns [⟨[1], [2]⟩, ⟨[1], [2]⟩])) = some .noDupTxnsIfMap := by
  decide
example : Function.Injective (id : Str → Str) := fun _ _ h => h
example : colon ∉ demoBlock.str .minerID ∧ colon ∉ demoBlock.str .prevHash := by decide

end ZChain.C29
