import ZChain.Model.MinerFees
import ZChain.Generated.C22
import ZChain.Proofs.StakePool
/-!
# C22 — Block fees and rewards are split exactly between miner and sharders

Statements about `Model/MinerFees.lean` (smartcontract/minersc/fees.go `payFees`, `payShardersAndDelegates`, `sumFee`;
models.go `splitByShareRatio`), tied to the Go code by `harness/cmd/c22` (the real `payFees` through a hook on a real
state context), and about the verifier's duplicate built-in check, tied to the source by the translator
`harness/cmd/xc22` (`Generated/C22.lean`).

* `split_exact`          — `splitByShareRatio` never loses or creates a unit: `miner + sharders = amount` (unconditional:
                           the subtraction is the CHECKED `MinusCoin`, a miner part above the amount is an error)
* `payFees_split_exact`  — a successful `payFees` assigns `minerReward + sharderReward = blockReward` and
                           `minerFees + sharderFees = Σ transaction fees`
* `sharder_values_sum`, `paySharderLoop_values` — the sharder side is divided into per-sharder values that add up to it
  exactly (share, `+1` for the first `reward mod n`), and these are the values handed to `DistributeRewardsRandN`
* `only_generator`, `only_this_round` — a payment by anyone but the block's generator, or naming another round, fails
* what each provider's delegates then receive is C10's subject (`randN_exact`, `dead_or_understaked_gets_nothing`):
  a killed / under-staked provider, an absent rewarded miner and the no-live-sharder case withhold that part
* “once per round”: the CONTRACT has no guard (`same_round_paid_twice_by_contract`, informational witness, replayed by
  the harness); the guard is the verifier's duplicate built-in check: `duplicate_builtin_rejected`,
  `two_payFees_block_rejected` over the generated facts.
-/
namespace ZChain.MinerFees
open ZChain ZChain.Coin ZChain.StakePool

theorem bind_ok {ε α β} {x : Except ε α} {f : α → Except ε β} {b : β} (h : (x >>= f) = .ok b) :
    ∃ a, x = .ok a ∧ f a = .ok b := by
  cases x with
  | error e => cases h
  | ok a => exact ⟨a, rfl, h⟩

theorem liftC_ok {α} {x : Except Coin.Err α} {a : α} (h : liftC x = .ok a) : x = .ok a := by
  cases x with
  | error e => cases h
  | ok b => injection h with h; rw [h]

theorem split_exact_aux (x : Except Coin.Err Nat) (amount m s : Nat)
    (h : (do let miner ← liftC x
             let sharders ← liftC (minusCoin amount miner)
             Except.ok (miner, sharders) : Except Err (Nat × Nat)) = .ok (m, s)) : m + s = amount := by
  obtain ⟨miner, _, h⟩ := bind_ok h
  obtain ⟨sh, hs, h⟩ := bind_ok h
  injection h with h; injection h with h1 h2; subst h1 h2
  have := liftC_ok hs
  unfold minusCoin at this
  split at this
  · cases this
  · injection this with this; omega

/-- **split_exact.** -/
theorem split_exact (ratio : F64) (amount m s : Nat) (h : split ratio amount = .ok (m, s)) : m + s = amount :=
  split_exact_aux (float64ToCoin (F64.mul (toFloat64 amount) ratio)) amount m s h

theorem sumFeeAux_sum : ∀ (fees : List Nat) (acc t : Nat), sumFeeAux fees acc = .ok t → t = acc + fees.sum := by
  intro fees
  induction fees with
  | nil => intro acc t h; injection h with h; simp [h]
  | cons f rest ih =>
    intro acc t h
    unfold sumFeeAux at h
    obtain ⟨a, ha, h⟩ := bind_ok h
    have := StakePool.addCoin_ok (liftC_ok ha)
    have := ih _ _ h
    simp only [List.sum_cons]; omega

theorem sumFee_sum (fees : List Nat) (t : Nat) (h : sumFee fees = .ok t) : t = fees.sum := by
  unfold sumFee at h
  obtain ⟨tot, ht, h⟩ := bind_ok h
  obtain ⟨_, _, h⟩ := bind_ok h
  injection h with h; subst h
  have := sumFeeAux_sum fees 0 tot ht
  omega

/-- **only_generator / only_this_round.** -/
theorem only_generator (gn : GN) (ir rd : Int) (fees : List Nat) (m : Option Sel) (s : Option (List Sel)) :
    payFees gn false ir rd fees m s = .error .notGenerator := by
  unfold payFees; rfl

theorem only_this_round (gn : GN) (ir rd : Int) (hne : ir ≠ rd) (fees : List Nat) (m : Option Sel) (s : Option (List Sel)) :
    payFees gn true ir rd fees m s = .error .badRound := by
  unfold payFees
  simp only [Bool.not_true, Bool.false_eq_true, if_false]
  rw [if_pos hne]

/-- **payFees_split_exact.** -/
theorem payFees_split_exact (gn : GN) (g : Bool) (ir rd : Int) (fees : List Nat) (m : Option Sel) (s : Option (List Sel)) (o : Out)
    (h : payFees gn g ir rd fees m s = .ok o) :
    g = true ∧ ir = rd ∧
    (∃ blockReward, multFloat64 gn.blockReward gn.rewardRate = .ok blockReward ∧ o.minerReward + o.sharderReward = blockReward) ∧
    o.minerFees + o.sharderFees = fees.sum ∧ o.gn.lastRound = rd := by
  unfold payFees at h
  cases g with
  | false => simp at h
  | true =>
    simp only [Bool.not_true, Bool.false_eq_true, if_false] at h
    by_cases hr : ir = rd
    · rw [if_neg (by simpa using hr)] at h
      obtain ⟨tot, ht, h⟩ := bind_ok h
      obtain ⟨br, hbr, h⟩ := bind_ok h
      obtain ⟨⟨mR, sR⟩, h1, h⟩ := bind_ok h
      obtain ⟨⟨mF, sF⟩, h2, h⟩ := bind_ok h
      obtain ⟨m', _, h⟩ := bind_ok h
      obtain ⟨s', _, h⟩ := bind_ok h
      injection h with h; subst h
      refine ⟨rfl, hr, ⟨br, liftC_ok hbr, split_exact _ _ _ _ h1⟩, ?_, ?_⟩
      · rw [split_exact _ _ _ _ h2]; exact sumFee_sum _ _ ht
      · show (setLastRound gn rd).lastRound = rd
        unfold setLastRound; simp only; split <;> rfl
    · rw [if_pos (by simpa using hr)] at h; cases h

/-! ## the sharder side is divided exactly -/

/-- the per-sharder values of `payShardersAndDelegates`: `share`, plus 1 while coins are left. -/
def loopValues (share : Nat) : Nat → Nat → List Nat
  | 0, _ => []
  | k + 1, left => (share + if 0 < left then 1 else 0) :: loopValues share k (if 0 < left then left - 1 else left)

theorem loopValues_sum (share : Nat) : ∀ (k left : Nat), (loopValues share k left).sum = share * k + Nat.min left k := by
  intro k
  induction k with
  | zero => intro left; simp [loopValues]
  | succ k ih =>
    intro left
    simp only [loopValues, List.sum_cons, ih]
    by_cases h : 0 < left
    · simp only [h, if_true]
      rw [Nat.mul_succ]
      have : Nat.min left (k + 1) = Nat.min (left - 1) k + 1 := by
        simp only [Nat.min_def]; split <;> split <;> omega
      omega
    · have h0 : left = 0 := by omega
      subst h0
      simp [Nat.mul_succ]; omega

/-- **sharder_values_sum.** `n > 0` rewarded sharders: the values add up to the sharder side exactly. -/
theorem sharder_values_sum (reward n : Nat) (hn : 0 < n) : (loopValues (reward / n) n (reward % n)).sum = reward := by
  rw [loopValues_sum]
  have h1 : reward % n < n := Nat.mod_lt _ hn
  have h2 : Nat.min (reward % n) n = reward % n := Nat.min_eq_left (Nat.le_of_lt h1)
  rw [h2, Nat.mul_comm]
  exact Nat.div_add_mod reward n

/-- applying `DistributeRewardsRandN` to the sharders with given values, in order. -/
def payVals (n : Nat) : List Sel → List Nat → Except Err (List Sel)
  | sh :: rest, v :: vs => do
    let sh' ← reward n sh v
    let rest' ← payVals n rest vs
    .ok (sh' :: rest')
  | _, _ => .ok []

/-- **paySharderLoop_values.** The loop hands exactly `loopValues` to `DistributeRewardsRandN` (no coin added or dropped
on the way), provided `share + 1` fits a `uint64` (it does: the amounts passed `sumFee`'s int64 check). -/
theorem paySharderLoop_values (n share : Nat) (hs : share + 1 < U64) : ∀ (shs : List Sel) (left : Nat),
    paySharderLoop n share shs left = payVals n shs (loopValues share shs.length left) := by
  intro shs
  induction shs with
  | nil => intro left; rfl
  | cons sh rest ih =>
    intro left
    simp only [paySharderLoop, List.length_cons, loopValues, payVals]
    have : addCoin share (if 0 < left then 1 else 0) = .ok (share + if 0 < left then 1 else 0) := by
      unfold addCoin
      rw [if_pos (by split <;> omega)]
    simp only [this, liftC, bind, Except.bind, ih]

/-! ## once per round -/

/-- informational: the contract itself accepts a second payment for the same round (there is no `LastRound` guard in
`payFees`); the harness replays this on the Go code (fixed case 1, ops 5 and 6). -/
def witnessGN : GN := ⟨F64.ofBits 0x3fc47ae147ae147b, 680000000, F64.one, 125000000, F64.ofBits 0x3fb999999999999a, 10, 5, 0⟩

/-- pay round 7, then pay round 7 again with the global node the first payment left behind. -/
def paidTwice : Bool :=
  match payFees witnessGN true 7 7 [100, 250, 3] none none with
  | .ok o1 => (match payFees o1.gn true 7 7 [100, 250, 3] none none with
    | .ok o2 => decide (o1.gn.lastRound = 7 ∧ o2.gn.lastRound = 7 ∧ o2.minerFees + o2.sharderFees = 353)
    | .error _ => false)
  | .error _ => false

theorem same_round_paid_twice_by_contract : paidTwice = true := by decide +kernel

theorem seen_rejects (bs : List String) (t : Txn) (hb : isBuiltIn bs t = true) : ∀ (mid post : List Txn) (seen : List String),
    seen.contains t.fn = true → noDupBuiltIns bs (mid ++ t :: post) seen = false := by
  intro mid
  induction mid with
  | nil =>
    intro post seen hs
    simp only [List.nil_append, noDupBuiltIns, hb, if_true, hs]
  | cons a mid ih =>
    intro post seen hs
    simp only [List.cons_append, noDupBuiltIns]
    split
    · split
      · rfl
      · apply ih
        simp only [List.contains_cons, hs, Bool.or_true]
    · exact ih post seen hs

/-- **duplicate_builtin_rejected.** A block in which two smart-contract transactions carry the same built-in function
name is rejected by the verifier's check, wherever they stand and whatever else the block holds. -/
theorem duplicate_builtin_rejected (bs : List String) (t1 t2 : Txn) (h1 : isBuiltIn bs t1 = true) (h2 : isBuiltIn bs t2 = true)
    (hfn : t1.fn = t2.fn) : ∀ (pre mid post : List Txn) (seen : List String),
    noDupBuiltIns bs (pre ++ t1 :: (mid ++ t2 :: post)) seen = false := by
  intro pre
  induction pre with
  | nil =>
    intro mid post seen
    simp only [List.nil_append, noDupBuiltIns, h1, if_true]
    split
    · rfl
    · apply seen_rejects bs t2 h2
      simp only [List.contains_cons, hfn, beq_self_eq_true, Bool.true_or]
  | cons a pre ih =>
    intro mid post seen
    simp only [List.cons_append, noDupBuiltIns]
    split
    · split
      · rfl
      · exact ih mid post _
    · exact ih mid post seen

/-- **two_payFees_block_rejected**: with the built-in names extracted from the source, a block holding two `payFees`
smart-contract transactions never validates — at most one fee payment per block, hence per round. The three shape
facts are regenerated from `miner/protocol_block.go` on every run (the extractor fails if the code no longer has them). -/
theorem two_payFees_block_rejected (pre mid post : List Txn) :
    noDupBuiltIns Generated.C22.builtins (pre ++ ⟨true, "payFees"⟩ :: (mid ++ ⟨true, "payFees"⟩ :: post)) [] = false ∧
    Generated.C22.isBuildInShape = true ∧ Generated.C22.hasDuplicateShape = true ∧ Generated.C22.rejectsOnDuplicate = true :=
  ⟨duplicate_builtin_rejected _ _ _ (by decide) (by decide) rfl pre mid post [], rfl, rfl, rfl⟩

/-! ## non-vacuity -/
example : noDupBuiltIns Generated.C22.builtins [⟨true, "payFees"⟩, ⟨true, "pour"⟩, ⟨true, "pour"⟩, ⟨false, "payFees"⟩, ⟨true, "generate_challenge"⟩] [] = true := by decide
example : split (F64.ofBits 0x3fc47ae147ae147b) 353 = .ok (56, 297) := by decide +kernel
example : loopValues (10 / 3) 3 (10 % 3) = [4, 3, 3] := by decide

end ZChain.MinerFees
