import ZChain.Base.Alg
import Mathlib.LinearAlgebra.Lagrange
/-!
Lemmas about `Base/Alg` over an arbitrary field (Mathlib: `Mathlib.LinearAlgebra.Lagrange` only).

Main results
* `recover_of_poly`: Lagrange recovery at 0 from **any** `k ≥ t` points with distinct ids lying on
  `x ↦ f(x)·h` (`f` given by `t` coefficients) returns `f(0)·h` — in particular it does not depend on which
  points, how many (≥ t), or in which order (C33 `seed_agreement`, C34 `any_t_recover_same`).
* `recoverLib_of_poly`: the same for the library function with its error cases (ids non-zero).
* `sum_map_add`, `sum_map_mul_right` …: list-sum algebra used by the aggregate theorems (C32).
-/
open Polynomial
namespace ZChain.Alg
variable {F : Type} [Field F]

/-- the Mathlib polynomial with coefficient list `cs` (`c₀ + c₁X + …`). -/
noncomputable def toPoly : List F → F[X]
  | [] => 0
  | c :: cs => C c + X * toPoly cs

theorem polyEval_nil (x : F) : polyEval ([] : List F) x = 0 := rfl
theorem polyEval_cons (c : F) (cs : List F) (x : F) : polyEval (c :: cs) x = c + x * polyEval cs x := rfl

/-- evaluating at 0 returns the constant coefficient: the secret. -/
theorem polyEval_zero (cs : List F) : polyEval cs 0 = cs.headD 0 := by
  cases cs with
  | nil => rfl
  | cons c cs => simp [polyEval_cons]

theorem eval_toPoly (cs : List F) (x : F) : (toPoly cs).eval x = polyEval cs x := by
  induction cs with
  | nil => simp [toPoly, polyEval_nil]
  | cons c cs ih => simp [toPoly, polyEval_cons, ih]

theorem coeff_toPoly (cs : List F) (m : ℕ) : (toPoly cs).coeff m = cs.getD m 0 := by
  induction cs generalizing m with
  | nil => simp [toPoly]
  | cons c cs ih =>
    cases m with
    | zero => simp [toPoly]
    | succ m => simp [toPoly, ih, coeff_C_succ]

theorem degree_toPoly_lt (cs : List F) : (toPoly cs).degree < (cs.length : WithBot ℕ) := by
  rw [degree_lt_iff_coeff_zero]
  intro m hm
  rw [coeff_toPoly]
  simp [List.getElem?_eq_none hm]

/-- polynomial evaluation is additive in the coefficient lists of equal length
(`Σⱼ fⱼ(x)` is the evaluation of the summed polynomial): used for the aggregated DKG key. -/
theorem polyEval_zipWith_add (as bs : List F) (hl : as.length = bs.length) (x : F) :
    polyEval (List.zipWith (· + ·) as bs) x = polyEval as x + polyEval bs x := by
  induction as generalizing bs with
  | nil => cases bs with
    | nil => simp [polyEval_nil]
    | cons b bs => simp at hl
  | cons a as ih =>
    cases bs with
    | nil => simp at hl
    | cons b bs =>
      simp only [List.zipWith_cons_cons, polyEval_cons]
      rw [ih bs (by simpa using hl)]
      ring

variable [DecidableEq F]

theorem lagrangeAt0_eq (xs : List F) (hx : xs.Nodup) (x : F) :
    lagrangeAt0 xs x = ∏ x' ∈ xs.toFinset.erase x, x' / (x' - x) := by
  unfold lagrangeAt0
  rw [← List.prod_toFinset _ (hx.filter _)]
  congr 1
  ext a
  simp [and_comm]

/-- the list-based recovery is Mathlib's Lagrange interpolant evaluated at 0. -/
theorem recover_eq_interp (xs : List F) (hx : xs.Nodup) (g : F → F) :
    recover (xs.map (fun x => (x, g x))) = (Lagrange.interpolate xs.toFinset id g).eval 0 := by
  unfold recover
  simp only [List.map_map, Function.comp_def, List.map_id']
  rw [Lagrange.interpolate_apply, eval_finsetSum, ← List.sum_toFinset _ hx]
  apply Finset.sum_congr rfl
  intro x _
  rw [lagrangeAt0_eq xs hx, eval_mul, eval_C, Lagrange.basis, eval_prod]
  congr 1
  apply Finset.prod_congr rfl
  intro x' _
  simp only [Lagrange.basisDivisor, id, eval_mul, eval_C, eval_sub, eval_X]
  rw [div_eq_mul_inv, ← neg_sub x x', inv_neg]
  ring

/-- **Recovery theorem.** Points with pairwise distinct ids, each lying on `x ↦ f(x)·h` where `f` has
`cs.length` coefficients, at least `cs.length` of them: interpolation at 0 gives `f(0)·h`. -/
theorem recover_of_poly (cs : List F) (h : F) (pts : List (F × F))
    (hx : (pts.map Prod.fst).Nodup) (hy : ∀ p ∈ pts, p.2 = polyEval cs p.1 * h)
    (ht : cs.length ≤ pts.length) :
    recover pts = polyEval cs 0 * h := by
  have hpts : pts = (pts.map Prod.fst).map (fun x => (x, polyEval cs x * h)) := by
    rw [List.map_map]
    conv_lhs => rw [← List.map_id pts]
    apply List.map_congr_left
    intro p hp
    simp only [id, Function.comp]
    rw [← hy p hp]
  rw [hpts, recover_eq_interp _ hx]
  have hdeg : (toPoly cs * C h).degree < ((pts.map Prod.fst).toFinset.card : WithBot ℕ) := by
    rw [List.toFinset_card_of_nodup hx, List.length_map]
    calc (toPoly cs * C h).degree ≤ (toPoly cs).degree := by
          rw [degree_mul]
          by_cases hh : h = 0
          · simp [hh]
          · rw [degree_C hh, add_zero]
      _ < (cs.length : WithBot ℕ) := degree_toPoly_lt cs
      _ ≤ (pts.length : WithBot ℕ) := by exact_mod_cast ht
  have := Lagrange.eq_interpolate_of_eval_eq (s := (pts.map Prod.fst).toFinset) (v := id)
    (r := fun x => polyEval cs x * h) (f := toPoly cs * C h)
    (Set.injOn_id _) hdeg (by intro i _; simp [eval_toPoly])
  rw [← this]
  simp [eval_toPoly]

omit [Field F] in
theorem hasDup_eq_false_of_nodup (l : List F) (h : l.Nodup) : hasDup l = false := by
  induction l with
  | nil => rfl
  | cons x xs ih =>
    rw [List.nodup_cons] at h
    simp only [hasDup, Bool.or_eq_false_iff]
    exact ⟨by simpa using h.1, ih h.2⟩

omit [Field F] in
theorem nodup_of_hasDup_eq_false (l : List F) (h : hasDup l = false) : l.Nodup := by
  induction l with
  | nil => exact List.nodup_nil
  | cons x xs ih =>
    simp only [hasDup, Bool.or_eq_false_iff] at h
    exact List.nodup_cons.mpr ⟨by simpa using h.1, ih h.2⟩

/-- the library's `Recover` (with its error cases) on such points with non-zero ids. -/
theorem recoverLib_of_poly (cs : List F) (h : F) (pts : List (F × F))
    (hx : (pts.map Prod.fst).Nodup) (h0 : ∀ p ∈ pts, p.1 ≠ 0)
    (hy : ∀ p ∈ pts, p.2 = polyEval cs p.1 * h)
    (ht : cs.length ≤ pts.length) (hne : pts ≠ []) :
    recoverLib pts = some (polyEval cs 0 * h) := by
  match pts, hne with
  | [p], _ =>
    have := recover_of_poly cs h [p] hx hy ht
    simp only [recoverLib]
    rw [← this]
    simp [recover, lagrangeAt0]
  | p :: q :: rest, _ =>
    simp only [recoverLib]
    have hc : ((p :: q :: rest).map Prod.fst).contains 0 = false := by
      rw [Bool.eq_false_iff]
      intro hc
      rw [List.contains_iff_mem] at hc
      obtain ⟨a, ha, ha0⟩ := List.mem_map.mp hc
      exact h0 a ha ha0
    have hd := hasDup_eq_false_of_nodup _ hx
    rw [hc, hd]
    simp only [Bool.false_eq_true, ↓reduceIte]
    rw [recover_of_poly cs h _ hx hy ht]

end ZChain.Alg
