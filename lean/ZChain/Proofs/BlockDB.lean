import ZChain.Model.BlockDB
/-!
Helper lemmas for C26 over `Model/BlockDB.lean`: `bytes.Compare` is a strict total order; the loop of
`fixedKeyArrayIndex.GetOffset` (soundness of `found`, present keys, the stuck state, divergence, the repaired
control flow); the byte layout of the index file; records in the data file and what a truncated file gives.
Core-only proofs (no Mathlib needed).
-/
namespace ZChain.BlockDB

/-! ### `cmpBytes` is a strict total order -/

theorem cmpBytes_eq_iff (a b : Bytes) : cmpBytes a b = .eq ↔ a = b := by
  induction a generalizing b with
  | nil => cases b <;> simp [cmpBytes]
  | cons x xs ih =>
    cases b with
    | nil => simp [cmpBytes]
    | cons y ys =>
      simp only [cmpBytes]
      split
      · constructor
        · intro h; cases h
        · intro h; injection h with h1 h2; omega
      · split
        · constructor
          · intro h; cases h
          · intro h; injection h with h1 h2; omega
        · rw [ih]
          constructor
          · intro h; have : x = y := by omega
            rw [this, h]
          · intro h; injection h

theorem cmpBytes_refl (a : Bytes) : cmpBytes a a = .eq := (cmpBytes_eq_iff a a).2 rfl

theorem cmpBytes_lt_gt (a b : Bytes) : cmpBytes a b = .lt ↔ cmpBytes b a = .gt := by
  induction a generalizing b with
  | nil => cases b <;> simp [cmpBytes]
  | cons x xs ih =>
    cases b with
    | nil => simp [cmpBytes]
    | cons y ys =>
      simp only [cmpBytes]
      by_cases h1 : x < y
      · have h2 : ¬ y < x := by omega
        simp [h1, h2]
      · by_cases h2 : y < x
        · simp [h1, h2]
        · simp only [h1, h2, if_false]
          exact ih ys

theorem cmpBytes_lt_trans {a b c : Bytes} (h1 : cmpBytes a b = .lt) (h2 : cmpBytes b c = .lt) :
    cmpBytes a c = .lt := by
  induction a generalizing b c with
  | nil =>
    cases c with
    | nil => cases b <;> simp [cmpBytes] at h1 h2
    | cons z zs => simp [cmpBytes]
  | cons x xs ih =>
    cases b with
    | nil => simp [cmpBytes] at h1
    | cons y ys =>
      cases c with
      | nil => simp [cmpBytes] at h2
      | cons z zs =>
        simp only [cmpBytes] at h1 h2 ⊢
        by_cases hxy : x < y
        · by_cases hyz : y < z
          · have : x < z := by omega
            simp [this]
          · by_cases hzy : z < y
            · simp [hyz, hzy] at h2
            · have : x < z := by omega
              simp [this]
        · by_cases hyx : y < x
          · simp [hxy, hyx] at h1
          · simp only [hxy, hyx, if_false] at h1
            by_cases hyz : y < z
            · have : x < z := by omega
              simp [this]
            · by_cases hzy : z < y
              · simp [hyz, hzy] at h2
              · simp only [hyz, hzy, if_false] at h2
                have e1 : ¬ x < z := by omega
                have e2 : ¬ z < x := by omega
                simp only [e1, e2, if_false]
                exact ih h1 h2

theorem cmpBytes_lt_ne {a b : Bytes} (h : cmpBytes a b = .lt) : a ≠ b := by
  intro e; subst e; rw [cmpBytes_refl] at h; cases h


/-! ### the loop of `GetOffset` -/

section search
variable (keyAt : Nat → Bytes) (offAt : Nat → Int) (key : Bytes)

/-- Whatever the fuel and the control flow, a lookup only ever returns the offset stored with an entry whose
key IS the key asked for: it never returns another record. -/
theorem searchAux_found_sound (fixed : Bool) : ∀ (fuel : Nat) (lo hi : Int) (off : Int), 0 ≤ lo →
    searchAux fixed keyAt offAt key fuel lo hi = .found off →
    ∃ i : Nat, keyAt i = key ∧ offAt i = off ∧ lo ≤ (i : Int) ∧ (i : Int) ≤ hi := by
  intro fuel
  induction fuel with
  | zero => intro lo hi off _ h; simp [searchAux] at h
  | succ n ih =>
    intro lo hi off hlo h
    simp only [searchAux] at h
    split at h
    · rename_i hle
      split at h
      · rename_i hc
        injection h with h
        refine ⟨((lo + hi) / 2).toNat, (cmpBytes_eq_iff _ _).1 hc, h, ?_, ?_⟩ <;> omega
      · split at h
        · split at h
          · cases h
          · exact ih lo hi off hlo h
        · obtain ⟨i, h1, h2, h3, h4⟩ := ih _ _ off (by omega) h
          exact ⟨i, h1, h2, by omega, h4⟩
      · split at h
        · split at h
          · cases h
          · exact ih lo hi off hlo h
        · obtain ⟨i, h1, h2, h3, h4⟩ := ih _ _ off hlo h
          exact ⟨i, h1, h2, h3, by omega⟩
    · cases h

/-- THE DEFECT, in general form: once `lo = hi` and the entry there is not the key, the loop of the pinned
code never leaves that state. -/
theorem searchAux_stuck (lo : Int) (_hlo : 0 ≤ lo) (hne : cmpBytes (keyAt lo.toNat) key ≠ .eq) :
    ∀ fuel, searchAux false keyAt offAt key fuel lo lo = .timeout := by
  intro fuel
  induction fuel with
  | zero => rfl
  | succ n ih =>
    simp only [searchAux]
    have hm : (lo + lo) / 2 = lo := by omega
    rw [hm]
    simp only [Int.le_refl, if_true]
    split
    · rename_i hc; exact absurd hc hne
    · simp [ih]
    · simp [ih]

/-- entries `0..n-1` strictly ascending -/
def SortedKeys (n : Nat) : Prop := ∀ i j, i < j → j < n → cmpBytes (keyAt i) (keyAt j) = .lt

/-- A key that IS in the (sorted) index is found, with either control flow: the `lo == hi` branches are never
reached for it. -/
theorem searchAux_present (fixed : Bool) (n : Nat) (hs : SortedKeys keyAt n) (p : Nat) (hp : p < n)
    (hk : keyAt p = key) :
    ∀ (fuel : Nat) (lo hi : Int), 0 ≤ lo → lo ≤ (p : Int) → (p : Int) ≤ hi → hi < (n : Int) →
      (hi - lo).toNat < fuel →
      searchAux fixed keyAt offAt key fuel lo hi = .found (offAt p) := by
  intro fuel
  induction fuel with
  | zero => intro lo hi _ _ _ _ h; omega
  | succ f ih =>
    intro lo hi h0 h1 h2 h3 hf
    simp only [searchAux]
    have hle : lo ≤ hi := by omega
    simp only [hle, if_true]
    have hmid0 : 0 ≤ (lo + hi) / 2 := by omega
    have hmidn : ((lo + hi) / 2).toNat < n := by omega
    rcases Nat.lt_trichotomy ((lo + hi) / 2).toNat p with hlt | heq | hgt
    · -- entry < key
      have hc : cmpBytes (keyAt ((lo + hi) / 2).toNat) key = .lt := by rw [← hk]; exact hs _ _ hlt hp
      rw [hc]
      have hne : ¬ lo = hi := by omega
      simp only [hne, if_false]
      exact ih _ _ (by omega) (by omega) h2 h3 (by omega)
    · rw [heq, hk, cmpBytes_refl]
    · have hc : cmpBytes (keyAt ((lo + hi) / 2).toNat) key = .gt := by
        rw [← hk]; exact (cmpBytes_lt_gt _ _).1 (hs _ _ hgt hmidn)
      rw [hc]
      have hne : ¬ lo = hi := by omega
      simp only [hne, if_false]
      exact ih _ _ h0 h1 (by omega) (by omega) (by omega)

/-- With the pinned control flow, a run that has not ended after `hi - lo + 2` turns never ends: the answer
`timeout` of the fuel-bounded function with that much fuel means divergence, for every fuel. -/
theorem searchAux_timeout_forever : ∀ (fuel : Nat) (lo hi : Int), 0 ≤ lo →
    (hi - lo).toNat + 2 ≤ fuel →
    searchAux false keyAt offAt key fuel lo hi = .timeout →
    ∀ fuel', searchAux false keyAt offAt key fuel' lo hi = .timeout := by
  intro fuel
  induction fuel with
  | zero => intro lo hi _ h; omega
  | succ f ih =>
    intro lo hi h0 hf h fuel'
    cases fuel' with
    | zero => rfl
    | succ f' =>
      rw [searchAux] at h ⊢
      by_cases hle : lo ≤ hi
      · simp only [hle, if_true] at h ⊢
        cases hc : cmpBytes (keyAt ((lo + hi) / 2).toNat) key with
        | eq => simp only [hc] at h; cases h
        | lt =>
          simp only [hc] at h ⊢
          by_cases he : lo = hi
          · subst he
            simp only [if_true, Bool.false_eq_true, if_false]
            have hm : (lo + lo) / 2 = lo := by omega
            rw [hm] at hc
            exact searchAux_stuck keyAt offAt key lo h0 (by rw [hc]; intro x; cases x) f'
          · simp only [he, if_false] at h ⊢
            exact ih _ _ (by omega) (by omega) h f'
        | gt =>
          simp only [hc] at h ⊢
          by_cases he : lo = hi
          · subst he
            simp only [if_true, Bool.false_eq_true, if_false]
            have hm : (lo + lo) / 2 = lo := by omega
            rw [hm] at hc
            exact searchAux_stuck keyAt offAt key lo h0 (by rw [hc]; intro x; cases x) f'
          · simp only [he, if_false] at h ⊢
            exact ih _ _ h0 (by omega) h f'
      · simp only [hle, if_false] at h; cases h

/-- With the repaired control flow the loop always ends within `hi - lo + 2` turns. -/
theorem searchAux_fixed_terminates : ∀ (fuel : Nat) (lo hi : Int), 0 ≤ lo →
    (hi - lo).toNat + 2 ≤ fuel →
    searchAux true keyAt offAt key fuel lo hi ≠ .timeout := by
  intro fuel
  induction fuel with
  | zero => intro lo hi _ h; omega
  | succ f ih =>
    intro lo hi h0 hf
    simp only [searchAux]
    split
    · split
      · intro h; cases h
      · by_cases he : lo = hi
        · simp [he]
        · simp only [he, if_false]; exact ih _ _ (by omega) (by omega)
      · by_cases he : lo = hi
        · simp [he]
        · simp only [he, if_false]; exact ih _ _ h0 (by omega)
    · intro h; cases h

/-- Every entry of `lo..hi` is smaller than the key (the key lies beyond the last stored key): the pinned
loop moves `lo` up to `hi` and then spins — `timeout` for every fuel. -/
theorem searchAux_beyond_last : ∀ (fuel : Nat) (lo hi : Int), 0 ≤ lo → lo ≤ hi →
    (∀ i : Nat, lo ≤ (i : Int) → (i : Int) ≤ hi → cmpBytes (keyAt i) key = .lt) →
    searchAux false keyAt offAt key fuel lo hi = .timeout := by
  intro fuel
  induction fuel with
  | zero => intros; rfl
  | succ f ih =>
    intro lo hi h0 hle hall
    simp only [searchAux, hle, if_true]
    have hc := hall ((lo + hi) / 2).toNat (by omega) (by omega)
    rw [hc]
    by_cases he : lo = hi
    · simp only [he, if_true, Bool.false_eq_true, if_false]
      exact ih _ _ (by omega) (by omega) (by subst he; exact hall)
    · simp only [he, if_false]
      exact ih _ _ (by omega) (by omega) (fun i h1 h2 => hall i (by omega) h2)

/-- more fuel does not change an answer that is not `timeout` -/
theorem searchAux_fuel_mono (fixed : Bool) : ∀ (fuel : Nat) (lo hi : Int) (r : Lookup),
    searchAux fixed keyAt offAt key fuel lo hi = r → r ≠ .timeout →
    searchAux fixed keyAt offAt key (fuel + 1) lo hi = r := by
  intro fuel
  induction fuel with
  | zero => intro lo hi r h hr; simp [searchAux] at h; exact absurd h.symm hr
  | succ f ih =>
    intro lo hi r h hr
    rw [searchAux] at h ⊢
    by_cases hle : lo ≤ hi
    · simp only [hle, if_true] at h ⊢
      cases hc : cmpBytes (keyAt ((lo + hi) / 2).toNat) key with
      | eq => simp only [hc] at h ⊢; exact h
      | lt =>
        simp only [hc] at h ⊢
        by_cases he : lo = hi
        · cases fixed
          · simp only [he, if_true, Bool.false_eq_true, if_false] at h ⊢; exact ih _ _ r h hr
          · simp only [he, if_true] at h ⊢; exact h
        · simp only [he, if_false] at h ⊢; exact ih _ _ r h hr
      | gt =>
        simp only [hc] at h ⊢
        by_cases he : lo = hi
        · cases fixed
          · simp only [he, if_true, Bool.false_eq_true, if_false] at h ⊢; exact ih _ _ r h hr
          · simp only [he, if_true] at h ⊢; exact h
        · simp only [he, if_false] at h ⊢; exact ih _ _ r h hr
    · simp only [hle, if_false] at h ⊢; exact h

end search



theorem le_length (w v : Nat) : (le w v).length = w := by
  induction w generalizing v with
  | zero => rfl
  | succ n ih => simp [le, ih]

theorem unle_le (w v : Nat) (h : v < 256 ^ w) : unle (le w v) = v := by
  induction w generalizing v with
  | zero => simp [le, unle]; simp at h; omega
  | succ n ih =>
    simp only [le, unle]
    have : v / 256 < 256 ^ n := by
      rw [Nat.pow_succ] at h
      exact Nat.div_lt_of_lt_mul (by rw [Nat.mul_comm]; exact h)
    rw [ih _ this]
    omega

theorem toSigned_small (bits v : Nat) (h : v < 2 ^ (bits - 1)) : toSigned bits v = (v : Int) := by
  simp [toSigned, h]

theorem keySize_eq (klen : Nat) (h : klen ≤ 118) : keySize klen = ((klen + 9 : Nat) : Int) := by
  unfold keySize
  have h1 : (klen + 9) % 256 = klen + 9 := Nat.mod_eq_of_lt (by omega)
  rw [h1]
  apply toSigned_small
  show klen + 9 < 2 ^ 7
  omega

def Uniform (klen : Nat) (es : List (Bytes × Nat)) : Prop := ∀ e ∈ es, e.1.length = klen

theorem encodeEntry_length (klen : Nat) (e : Bytes × Nat) (h : e.1.length = klen) :
    (encodeEntry e).length = klen + 9 := by
  simp [encodeEntry, le_length, h]

theorem encodeEntries_length (klen : Nat) (es : List (Bytes × Nat)) (h : Uniform klen es) :
    (encodeEntries es).length = (klen + 9) * es.length := by
  induction es with
  | nil => simp [encodeEntries]
  | cons e es ih =>
    simp only [encodeEntries, List.length_append, List.length_cons]
    rw [encodeEntry_length klen e (h e (by simp)), ih (fun x hx => h x (by simp [hx]))]
    rw [Nat.mul_add]; omega

theorem encodeEntries_drop (klen : Nat) (es : List (Bytes × Nat)) (h : Uniform klen es) (i : Nat) :
    (encodeEntries es).drop ((klen + 9) * i) = encodeEntries (es.drop i) := by
  induction i generalizing es with
  | zero => simp
  | succ n ih =>
    cases es with
    | nil => simp [encodeEntries]
    | cons e es =>
      simp only [encodeEntries, List.drop_succ_cons]
      have hl := encodeEntry_length klen e (h e (by simp))
      have : (klen + 9) * (n + 1) = (encodeEntry e).length + (klen + 9) * n := by rw [hl, Nat.mul_add]; omega
      rw [this, List.drop_append]
      simp only [Nat.add_sub_cancel_left]
      have hd : List.drop ((encodeEntry e).length + (klen + 9) * n) (encodeEntry e) = [] := by
        apply List.drop_of_length_le; omega
      rw [hd, List.nil_append]
      exact ih es (fun x hx => h x (by simp [hx]))

theorem entryKey_encode (klen : Nat) (es : List (Bytes × Nat)) (h : Uniform klen es) (i : Nat) (hi : i < es.length) :
    entryKey (encodeEntries es) (klen + 9) klen i = es[i].1 := by
  unfold entryKey
  rw [← List.drop_drop, encodeEntries_drop klen es h i]
  rw [List.drop_eq_getElem_cons hi]
  simp only [encodeEntries, encodeEntry, List.cons_append, List.drop_succ_cons, List.drop_zero]
  have hl : es[i].1.length = klen := h _ (List.getElem_mem hi)
  rw [List.append_assoc, List.take_append_of_le_length (by omega)]
  rw [← hl]; simp

theorem entryOff_encode (klen : Nat) (es : List (Bytes × Nat)) (h : Uniform klen es) (i : Nat) (hi : i < es.length)
    (hoff : es[i].2 < 2 ^ 63) :
    entryOff (encodeEntries es) (klen + 9) klen i = (es[i].2 : Int) := by
  unfold entryOff
  have : (klen + 9) * i + 1 + klen = (klen + 9) * i + (1 + klen) := by omega
  rw [this, ← List.drop_drop, encodeEntries_drop klen es h i]
  rw [List.drop_eq_getElem_cons hi]
  have hl : es[i].1.length = klen := h _ (List.getElem_mem hi)
  simp only [encodeEntries, encodeEntry, List.cons_append]
  rw [Nat.add_comm 1 klen, List.drop_succ_cons, List.append_assoc, ← hl, List.drop_left]
  rw [List.take_append_of_le_length (by rw [le_length]; omega)]
  have h8 : List.take 8 (le 8 es[i].2) = le 8 es[i].2 := by
    apply List.take_of_length_le; rw [le_length]; omega
  rw [h8, unle_le 8 _ (by have : (2:Nat)^63 < 256^8 := by decide
                          omega)]
  exact toSigned_small 64 _ hoff

theorem numKeysOf_encode (klen : Nat) (hk : klen ≤ 118) (es : List (Bytes × Nat)) (h : Uniform klen es) :
    numKeysOf (encodeEntries es) klen = (es.length : Int) := by
  unfold numKeysOf
  rw [keySize_eq klen hk, encodeEntries_length klen es h]
  rw [Nat.mul_comm]
  push_cast
  exact Int.mul_tdiv_cancel _ (by omega)



/-! ### the sorted entry list of `mapIndex.Encode` -/

def KeyLt (a b : Bytes × Nat) : Prop := cmpBytes a.1 b.1 = .lt

theorem insertEntry_perm (e : Bytes × Nat) (l : List (Bytes × Nat)) : (insertEntry e l).Perm (e :: l) := by
  induction l with
  | nil => exact List.Perm.refl _
  | cons x xs ih =>
    simp only [insertEntry]
    split
    · exact List.Perm.refl _
    · exact (List.Perm.cons x ih).trans (List.Perm.swap e x xs)

theorem sortEntries_perm (l : List (Bytes × Nat)) : (sortEntries l).Perm l := by
  induction l with
  | nil => exact List.Perm.refl _
  | cons e es ih =>
    simp only [sortEntries]
    exact (insertEntry_perm e _).trans (List.Perm.cons e ih)

theorem insertEntry_sorted (e : Bytes × Nat) (l : List (Bytes × Nat)) (hs : l.Pairwise KeyLt)
    (hne : ∀ x ∈ l, x.1 ≠ e.1) : (insertEntry e l).Pairwise KeyLt := by
  induction l with
  | nil => simp [insertEntry]
  | cons x xs ih =>
    simp only [insertEntry]
    have hx := List.pairwise_cons.mp hs
    split
    · rename_i hlt
      refine List.pairwise_cons.mpr ⟨?_, hs⟩
      intro y hy
      rcases List.mem_cons.mp hy with rfl | hy
      · exact hlt
      · exact cmpBytes_lt_trans hlt (hx.1 y hy)
    · rename_i hnlt
      -- not lt and not equal ⇒ x < e
      have hxe : cmpBytes x.1 e.1 = .lt := by
        cases hc : cmpBytes e.1 x.1 with
        | lt => exact absurd hc hnlt
        | eq => exact absurd ((cmpBytes_eq_iff _ _).1 hc).symm (hne x (by simp))
        | gt => exact (cmpBytes_lt_gt _ _).2 hc
      refine List.pairwise_cons.mpr ⟨?_, ih hx.2 (fun y hy => hne y (by simp [hy]))⟩
      intro y hy
      have := (insertEntry_perm e xs).mem_iff.mp hy
      rcases List.mem_cons.mp this with rfl | hy'
      · exact hxe
      · exact hx.1 y hy'

theorem sortEntries_sorted (l : List (Bytes × Nat)) (hnd : (l.map (·.1)).Nodup) :
    (sortEntries l).Pairwise KeyLt := by
  induction l with
  | nil => simp [sortEntries]
  | cons e es ih =>
    simp only [sortEntries]
    simp only [List.map_cons, List.nodup_cons] at hnd
    apply insertEntry_sorted e _ (ih hnd.2)
    intro x hx heq
    have hx' := (sortEntries_perm es).mem_iff.mp hx
    exact hnd.1 (by rw [← heq]; exact List.mem_map_of_mem hx')

theorem sortEntries_length (l : List (Bytes × Nat)) : (sortEntries l).length = l.length :=
  (sortEntries_perm l).length_eq

theorem sortEntries_uniform (klen : Nat) (l : List (Bytes × Nat)) (h : Uniform klen l) : Uniform klen (sortEntries l) :=
  fun e he => h e ((sortEntries_perm l).mem_iff.mp he)

/-! ### the Go map -/

theorem MapIdx.set_keys_nodup (m : MapIdx) (k : Bytes) (o : Nat) (h : (m.map (·.1)).Nodup) :
    ((m.set k o).map (·.1)).Nodup := by
  induction m with
  | nil => simp [MapIdx.set]
  | cons x xs ih =>
    obtain ⟨k', o'⟩ := x
    simp only [MapIdx.set]
    simp only [List.map_cons, List.nodup_cons] at h
    split
    · rename_i he; subst he
      simp only [List.map_cons, List.nodup_cons]; exact h
    · rename_i hne
      simp only [List.map_cons, List.nodup_cons]
      refine ⟨?_, ih h.2⟩
      intro hm
      obtain ⟨y, hy, hyk⟩ := List.mem_map.mp hm
      -- y ∈ set xs k o : either y = (k,o) or y ∈ xs
      have : y = (k, o) ∨ y ∈ xs := by
        clear ih h hm hyk
        induction xs with
        | nil => simp [MapIdx.set] at hy; exact Or.inl hy
        | cons z zs ihz =>
          obtain ⟨kz, oz⟩ := z
          simp only [MapIdx.set] at hy
          split at hy
          · rcases List.mem_cons.mp hy with h1 | h1
            · exact Or.inl h1
            · exact Or.inr (by simp [h1])
          · rcases List.mem_cons.mp hy with h1 | h1
            · exact Or.inr (by simp [h1])
            · rcases ihz h1 with h2 | h2
              · exact Or.inl h2
              · exact Or.inr (by simp [h2])
      rcases this with rfl | hyx
      · exact hne hyk.symm
      · exact h.1 (by rw [← hyk]; exact List.mem_map_of_mem hyx)

theorem MapIdx.mem_set_of (m : MapIdx) (k : Bytes) (o : Nat) (e : Bytes × Nat) (h : e ∈ m.set k o) :
    e = (k, o) ∨ e ∈ m := by
  induction m with
  | nil => simp [MapIdx.set] at h; exact Or.inl h
  | cons z zs ih =>
    obtain ⟨kz, oz⟩ := z
    simp only [MapIdx.set] at h
    split at h
    · rcases List.mem_cons.mp h with h1 | h1
      · exact Or.inl h1
      · exact Or.inr (by simp [h1])
    · rcases List.mem_cons.mp h with h1 | h1
      · exact Or.inr (by simp [h1])
      · rcases ih h1 with h2 | h2
        · exact Or.inl h2
        · exact Or.inr (by simp [h2])

/-- with distinct keys, `set` keeps exactly the entries of the other keys -/
theorem MapIdx.mem_set_ne (m : MapIdx) (k : Bytes) (o : Nat) (hnd : (m.map (·.1)).Nodup)
    (e : Bytes × Nat) (h : e ∈ m.set k o) : e = (k, o) ∨ (e ∈ m ∧ e.1 ≠ k) := by
  induction m with
  | nil => simp [MapIdx.set] at h; exact Or.inl h
  | cons z zs ih =>
    obtain ⟨kz, oz⟩ := z
    simp only [List.map_cons, List.nodup_cons] at hnd
    simp only [MapIdx.set] at h
    split at h
    · rename_i hk
      rcases List.mem_cons.mp h with h1 | h1
      · exact Or.inl h1
      · refine Or.inr ⟨by simp [h1], ?_⟩
        intro he
        exact hnd.1 (by rw [hk, ← he]; exact List.mem_map_of_mem h1)
    · rename_i hk
      rcases List.mem_cons.mp h with h1 | h1
      · exact Or.inr ⟨by simp [h1], by rw [h1]; exact hk⟩
      · rcases ih hnd.2 h1 with h2 | h2
        · exact Or.inl h2
        · exact Or.inr ⟨by simp [h2.1], h2.2⟩

theorem MapIdx.mem_set_self (m : MapIdx) (k : Bytes) (o : Nat) : (k, o) ∈ m.set k o := by
  induction m with
  | nil => simp [MapIdx.set]
  | cons z zs ih =>
    obtain ⟨kz, oz⟩ := z
    simp only [MapIdx.set]
    split
    · simp
    · simp [ih]

theorem MapIdx.mem_set_other (m : MapIdx) (k : Bytes) (o : Nat) (e : Bytes × Nat) (he : e ∈ m) (hk : e.1 ≠ k) :
    e ∈ m.set k o := by
  induction m with
  | nil => simp at he
  | cons z zs ih =>
    obtain ⟨kz, oz⟩ := z
    simp only [MapIdx.set]
    rcases List.mem_cons.mp he with h1 | h1
    · subst h1
      have : ¬ kz = k := hk
      simp [this]
    · split
      · simp [h1]
      · simp [ih h1]

theorem MapIdx.set_length_le (m : MapIdx) (k : Bytes) (o : Nat) : (m.set k o).length ≤ m.length + 1 := by
  induction m with
  | nil => simp [MapIdx.set]
  | cons z zs ih =>
    obtain ⟨kz, oz⟩ := z
    simp only [MapIdx.set]
    split
    · simp
    · simp; omega

/-! ### records in the data file -/

theorem encodeRecord_length (p : Bytes) : (encodeRecord p).length = 4 + p.length := by
  simp [encodeRecord, le_length]

/-- Reading where a record starts, from a file cut after `j` bytes of it (a crash leaves any prefix):
the record comes back iff all its bytes are there; otherwise the read fails — it never returns other data. -/
theorem readRecord_prefix (p post : Bytes) (hp : p.length < 2 ^ 31) (j : Nat) :
    (4 + p.length ≤ j → readRecord ((encodeRecord p ++ post).take j) = .got p (post.take (j - (4 + p.length)))) ∧
    (j < 4 + p.length → readRecord ((encodeRecord p ++ post).take j) = .eof ∨
                         readRecord ((encodeRecord p ++ post).take j) = .err) := by
  have hlen : ((encodeRecord p ++ post).take j).length = min j (4 + p.length + post.length) := by
    simp [encodeRecord_length]
  by_cases hj4 : j < 4
  · refine ⟨fun h => by omega, fun _ => ?_⟩
    unfold readRecord
    by_cases hj0 : j = 0
    · left; subst hj0; simp
    · right
      have h1 : ¬ ((encodeRecord p ++ post).take j).length = 0 := by rw [hlen]; omega
      have h2 : ((encodeRecord p ++ post).take j).length < 4 := by rw [hlen]; omega
      rw [if_neg h1, if_pos h2]
  · have hj4' : 4 ≤ j := by omega
    have htake4 : ((encodeRecord p ++ post).take j).take 4 = le 4 p.length := by
      rw [List.take_take, Nat.min_eq_left hj4']
      simp only [encodeRecord, List.append_assoc]
      rw [List.take_append_of_le_length (by rw [le_length]; omega)]
      apply List.take_of_length_le; rw [le_length]; omega
    have hdlen : toSigned 32 (unle (le 4 p.length)) = (p.length : Int) := by
      rw [unle_le 4 _ (by have : (2:Nat)^31 < 256^4 := by decide
                          omega)]
      exact toSigned_small 32 _ hp
    have hbody : ((encodeRecord p ++ post).take j).drop 4 = (p ++ post).take (j - 4) := by
      rw [List.drop_take]
      simp only [encodeRecord, List.append_assoc]
      rw [List.drop_append_of_le_length (by rw [le_length]; omega)]
      have : List.drop 4 (le 4 p.length) = [] := by apply List.drop_of_length_le; rw [le_length]; omega
      rw [this, List.nil_append]
    have h1 : ¬ ((encodeRecord p ++ post).take j).length = 0 := by rw [hlen]; omega
    have h2 : ¬ ((encodeRecord p ++ post).take j).length < 4 := by rw [hlen]; omega
    unfold readRecord
    simp only [h1, h2, if_false, htake4, hdlen, hbody]
    have hneg : ¬ ((p.length : Int) < 0) := by omega
    simp only [hneg, if_false, Int.toNat_natCast]
    have hbl : ((p ++ post).take (j - 4)).length = min (j - 4) (p.length + post.length) := by simp
    constructor
    · intro hfull
      by_cases hp0 : p.length = 0
      · have : p = [] := List.eq_nil_of_length_eq_zero hp0
        subst this
        simp
      · simp only [hp0, if_false]
        have h3 : ¬ ((p ++ post).take (j - 4)).length = 0 := by rw [hbl]; omega
        have h4 : ¬ ((p ++ post).take (j - 4)).length < p.length := by rw [hbl]; omega
        simp only [h3, h4, if_false]
        congr 1
        · rw [List.take_take, Nat.min_eq_left (by omega), List.take_append_of_le_length (by omega)]
          exact List.take_of_length_le (by omega)
        · rw [List.drop_take, List.drop_append_of_le_length (by omega)]
          have : List.drop p.length p = [] := List.drop_of_length_le (by omega)
          rw [this, List.nil_append]
          congr 1; omega
    · intro hshort
      have hp0 : ¬ p.length = 0 := by omega
      simp only [hp0, if_false]
      by_cases h3 : ((p ++ post).take (j - 4)).length = 0
      · left; rw [if_pos h3]
      · right
        have h4 : ((p ++ post).take (j - 4)).length < p.length := by rw [hbl]; omega
        rw [if_neg h3, if_pos h4]

/-- the whole record is there -/
theorem readRecord_encode (p post : Bytes) (hp : p.length < 2 ^ 31) :
    readRecord (encodeRecord p ++ post) = .got p post := by
  have := (readRecord_prefix p post hp (encodeRecord p ++ post).length).1
    (by rw [List.length_append, encodeRecord_length]; omega)
  rw [List.take_length] at this
  rw [this]
  congr 1
  apply List.take_of_length_le
  rw [List.length_append, encodeRecord_length]; omega



/-! ### the index file -/

theorem encodeIndex_length (klen : Nat) (m : MapIdx) (hu : Uniform klen m) :
    (encodeIndex m).length = 4 + (klen + 9) * m.length := by
  simp only [encodeIndex, List.length_append, le_length]
  rw [encodeEntries_length klen _ (sortEntries_uniform klen m hu), sortEntries_length]

/-- **index_sorted_after_save** (decoding half): `Open` loads exactly the sorted entry array that `Save` wrote. -/
theorem decodeFixed_encodeIndex_tail (klen : Nat) (hk : klen ≤ 118) (m : MapIdx) (hu : Uniform klen m)
    (hn : m.length < 2 ^ 31) (tail : Bytes) :
    decodeFixed klen (encodeIndex m ++ tail) = .ok (encodeEntries (sortEntries m)) := by
  have hlen := encodeIndex_length klen m hu
  have hel := encodeEntries_length klen _ (sortEntries_uniform klen m hu)
  rw [sortEntries_length] at hel
  unfold decodeFixed
  have h1 : ¬ (encodeIndex m ++ tail).length < 4 := by rw [List.length_append]; omega
  rw [if_neg h1]
  have htake : (encodeIndex m ++ tail).take 4 = le 4 m.length := by
    rw [List.take_append_of_le_length (by omega)]
    unfold encodeIndex
    rw [List.take_append_of_le_length (by rw [le_length]; omega)]
    apply List.take_of_length_le; rw [le_length]; omega
  have hdrop : (encodeIndex m ++ tail).drop 4 = encodeEntries (sortEntries m) ++ tail := by
    rw [List.drop_append_of_le_length (by omega)]
    unfold encodeIndex
    rw [List.drop_append_of_le_length (by rw [le_length]; omega)]
    have : List.drop 4 (le 4 m.length) = [] := by apply List.drop_of_length_le; rw [le_length]; omega
    rw [this, List.nil_append]
  have hnum : toSigned 32 (unle (le 4 m.length)) = (m.length : Int) := by
    rw [unle_le 4 _ (by have : (2:Nat)^31 < 256^4 := by decide
                        omega)]
    exact toSigned_small 32 _ hn
  simp only [htake, hdrop, hnum, keySize_eq klen hk]
  have hsz : ((m.length : Int) * ((klen + 9 : Nat) : Int)) = ((m.length * (klen + 9) : Nat) : Int) := by push_cast; rfl
  rw [hsz]
  have h2 : ¬ (((m.length * (klen + 9) : Nat) : Int) < 0) := by omega
  rw [if_neg h2, Int.toNat_natCast]
  by_cases h0 : m.length * (klen + 9) = 0
  · rw [if_pos h0]
    have : (encodeEntries (sortEntries m)).length = 0 := by rw [hel, Nat.mul_comm]; exact h0
    rw [List.eq_nil_of_length_eq_zero this]
  · rw [if_neg h0]
    have hl : (encodeEntries (sortEntries m) ++ tail).length = m.length * (klen + 9) + tail.length := by
      rw [List.length_append, hel, Nat.mul_comm]
    have h3 : ¬ (encodeEntries (sortEntries m) ++ tail).length = 0 := by rw [hl]; omega
    have h4 : ¬ (encodeEntries (sortEntries m) ++ tail).length < m.length * (klen + 9) := by rw [hl]; omega
    rw [if_neg h3, if_neg h4]
    congr 1
    rw [List.take_append_of_le_length (by rw [hel, Nat.mul_comm]; omega)]
    apply List.take_of_length_le
    rw [hel, Nat.mul_comm]; omega

theorem decodeFixed_encodeIndex (klen : Nat) (hk : klen ≤ 118) (m : MapIdx) (hu : Uniform klen m)
    (hn : m.length < 2 ^ 31) :
    decodeFixed klen (encodeIndex m) = .ok (encodeEntries (sortEntries m)) := by
  have := decodeFixed_encodeIndex_tail klen hk m hu hn []
  rwa [List.append_nil] at this

/-- **torn index detected**: a crash while the index file is written leaves a proper prefix of it (nothing, the
count only, or part of the array); `Open` rejects every such file — it never opens a torn index. -/
theorem decodeFixed_torn (klen : Nat) (hk : klen ≤ 118) (m : MapIdx) (hu : Uniform klen m)
    (hn : m.length < 2 ^ 31) (j : Nat) (hj : j < (encodeIndex m).length) :
    decodeFixed klen ((encodeIndex m).take j) = .err := by
  have hlen := encodeIndex_length klen m hu
  have htl : ((encodeIndex m).take j).length = j := by rw [List.length_take]; omega
  unfold decodeFixed
  by_cases h1 : j < 4
  · rw [if_pos (by rw [htl]; exact h1)]
  · rw [if_neg (by rw [htl]; exact h1)]
    have htake : ((encodeIndex m).take j).take 4 = le 4 m.length := by
      rw [List.take_take, Nat.min_eq_left (by omega)]
      unfold encodeIndex
      rw [List.take_append_of_le_length (by rw [le_length]; omega)]
      apply List.take_of_length_le; rw [le_length]; omega
    have hnum : toSigned 32 (unle (le 4 m.length)) = (m.length : Int) := by
      rw [unle_le 4 _ (by have : (2:Nat)^31 < 256^4 := by decide
                          omega)]
      exact toSigned_small 32 _ hn
    simp only [htake, hnum, keySize_eq klen hk]
    have hsz : ((m.length : Int) * ((klen + 9 : Nat) : Int)) = ((m.length * (klen + 9) : Nat) : Int) := by push_cast; rfl
    rw [hsz]
    have h2 : ¬ (((m.length * (klen + 9) : Nat) : Int) < 0) := by omega
    rw [if_neg h2, Int.toNat_natCast]
    have hdl : (((encodeIndex m).take j).drop 4).length = j - 4 := by rw [List.length_drop, htl]
    have hlt : j - 4 < m.length * (klen + 9) := by rw [Nat.mul_comm]; omega
    rw [if_neg (by omega)]
    by_cases h3 : (((encodeIndex m).take j).drop 4).length = 0
    · rw [if_pos h3]
    · rw [if_neg h3, if_pos (by rw [hdl]; exact hlt)]



/-! ### the lookup on the bytes `Save` wrote -/

theorem getOffsetFuel_present (fixed : Bool) (klen : Nat) (hk : klen ≤ 118) (m : MapIdx)
    (hnd : (m.map (·.1)).Nodup) (hu : Uniform klen m) (hoff : ∀ e ∈ m, e.2 < 2 ^ 63)
    (k : Bytes) (o : Nat) (hmem : (k, o) ∈ m) (fuel : Nat) (hf : m.length < fuel) :
    getOffsetFuel fixed (encodeEntries (sortEntries m)) klen k fuel = .found (o : Int) := by
  have hperm := sortEntries_perm m
  have hus := sortEntries_uniform klen m hu
  have hsorted := sortEntries_sorted m hnd
  have hmem' : (k, o) ∈ sortEntries m := hperm.mem_iff.mpr hmem
  obtain ⟨p, hp, hpe⟩ := List.getElem_of_mem hmem'
  have hlen := sortEntries_length m
  unfold getOffsetFuel
  rw [numKeysOf_encode klen hk _ hus, keySize_eq klen hk]
  simp only [Int.toNat_natCast]
  have hsk : SortedKeys (entryKey (encodeEntries (sortEntries m)) (klen + 9) klen) (sortEntries m).length := by
    intro i j hij hj
    rw [entryKey_encode klen _ hus i (by omega), entryKey_encode klen _ hus j hj]
    exact (List.pairwise_iff_getElem.mp hsorted) i j (by omega) hj hij
  have hkp : entryKey (encodeEntries (sortEntries m)) (klen + 9) klen p = k := by
    rw [entryKey_encode klen _ hus p hp, hpe]
  have := searchAux_present (entryKey (encodeEntries (sortEntries m)) (klen + 9) klen)
    (entryOff (encodeEntries (sortEntries m)) (klen + 9) klen) k fixed (sortEntries m).length hsk p hp hkp
    fuel 0 ((sortEntries m).length - 1 : Int) (by omega) (by omega) (by omega) (by omega) (by omega)
  rw [this, entryOff_encode klen _ hus p hp (by rw [hpe]; exact hoff _ hmem), hpe]

/-! ### the database after a history of writes -/

/-- one `WriteData`: key, the record's content, and the bytes stored for it (compressed or not) -/
structure W where
  key : Bytes
  content : Bytes
  stored : Bytes
deriving DecidableEq, Repr

/-- the database after a history of writes, MOST RECENT FIRST, stored over files that were already there:
`left` = the bytes a crashed earlier attempt left in the data file (ANY content), `oldIdx` = an old index file -/
def afterWritesOver (left : Bytes) (oldIdx : Option Bytes) (klen : Nat) (c : Bool) : List W → DB
  | [] => { DB.create klen c with dat := left, idx := oldIdx }
  | w :: earlier => (afterWritesOver left oldIdx klen c earlier).write w.key w.content w.stored

/-- the database after a history of writes into fresh files -/
def afterWrites (klen : Nat) (c : Bool) (hist : List W) : DB := afterWritesOver [] none klen c hist

/-- the last write under a key (history most recent first) -/
def lastWrite : List W → Bytes → Option W
  | [], _ => none
  | w :: earlier, k => if w.key = k then some w else lastWrite earlier k

theorem lastWrite_mem {hist : List W} {k : Bytes} {w : W} (h : lastWrite hist k = some w) : w ∈ hist ∧ w.key = k := by
  induction hist with
  | nil => simp [lastWrite] at h
  | cons x xs ih =>
    simp only [lastWrite] at h
    split at h
    · injection h with h; subst h; rename_i hk; exact ⟨by simp, hk⟩
    · have := ih h; exact ⟨by simp [this.1], this.2⟩

structure Inv (klen : Nat) (c : Bool) (hist : List W) (d : DB) : Prop where
  klen_eq : d.klen = klen
  comp_eq : d.compress = c
  nodup : (d.midx.map (·.1)).Nodup
  /-- every index entry points at the record of the last write under its key -/
  entry : ∀ e ∈ d.midx, ∃ w pre post, lastWrite hist e.1 = some w ∧
            d.dat = pre ++ (encodeRecord w.stored ++ post) ∧ pre.length = e.2
  /-- every written key has an index entry -/
  cover : ∀ k w, lastWrite hist k = some w → ∃ o, (k, o) ∈ d.midx
  codec_eq : d.codec = hist.map (fun w => (w.stored, w.content))
  len_le : d.midx.length ≤ hist.length
  /-- the write cursor is inside the file, and every indexed record lies wholly before it -/
  pos_le : d.pos ≤ d.dat.length
  entry_before : ∀ e ∈ d.midx, ∀ w, lastWrite hist e.1 = some w → e.2 + (encodeRecord w.stored).length ≤ d.pos

theorem overwriteAt_keeps_before (pre r post bs : Bytes) (pos : Nat) (h : pre.length + r.length ≤ pos) :
    overwriteAt (pre ++ (r ++ post)) pos bs =
      pre ++ (r ++ (post.take (pos - pre.length - r.length) ++ bs ++ (pre ++ (r ++ post)).drop (pos + bs.length))) := by
  unfold overwriteAt
  rw [List.take_append, List.take_of_length_le (by omega : pre.length ≤ pos)]
  rw [List.take_append, List.take_of_length_le (by omega : r.length ≤ pos - pre.length)]
  simp only [List.append_assoc]

theorem afterWritesOver_inv (left : Bytes) (oldIdx : Option Bytes) (klen : Nat) (c : Bool) (hist : List W) :
    Inv klen c hist (afterWritesOver left oldIdx klen c hist) := by
  induction hist with
  | nil =>
    exact { klen_eq := rfl, comp_eq := rfl, nodup := by simp [afterWritesOver, DB.create],
            entry := by simp [afterWritesOver, DB.create],
            cover := by simp [lastWrite], codec_eq := rfl, len_le := by simp [afterWritesOver, DB.create],
            pos_le := by simp [afterWritesOver, DB.create],
            entry_before := by simp [afterWritesOver, DB.create] }
  | cons w earlier ih =>
    simp only [afterWritesOver, DB.write]
    have hpos := ih.pos_le
    refine { klen_eq := ih.klen_eq, comp_eq := ih.comp_eq,
             nodup := MapIdx.set_keys_nodup _ _ _ ih.nodup, entry := ?_, cover := ?_,
             codec_eq := by simp [ih.codec_eq], len_le := ?_, pos_le := ?_, entry_before := ?_ }
    · intro e he
      rcases MapIdx.mem_set_ne _ _ _ ih.nodup e he with h | ⟨h1, h2⟩
      · subst h
        refine ⟨w, (afterWritesOver left oldIdx klen c earlier).dat.take (afterWritesOver left oldIdx klen c earlier).pos,
          (afterWritesOver left oldIdx klen c earlier).dat.drop
            ((afterWritesOver left oldIdx klen c earlier).pos + (encodeRecord w.stored).length),
          by simp [lastWrite], by simp [overwriteAt], ?_⟩
        rw [List.length_take]; exact Nat.min_eq_left hpos
      · obtain ⟨w', pre, post, hl, hd, hp⟩ := ih.entry e h1
        have hb := ih.entry_before e h1 w' hl
        refine ⟨w', pre,
          post.take ((afterWritesOver left oldIdx klen c earlier).pos - pre.length - (encodeRecord w'.stored).length) ++
            encodeRecord w.stored ++
            (pre ++ (encodeRecord w'.stored ++ post)).drop
              ((afterWritesOver left oldIdx klen c earlier).pos + (encodeRecord w.stored).length), ?_, ?_, hp⟩
        · simp only [lastWrite]
          have : ¬ w.key = e.1 := fun x => h2 x.symm
          simp [this, hl]
        · show overwriteAt (afterWritesOver left oldIdx klen c earlier).dat _ _ = _
          rw [hd]
          exact overwriteAt_keeps_before pre (encodeRecord w'.stored) post _ _ (by rw [hp]; exact hb)
    · intro k w' hl
      simp only [lastWrite] at hl
      split at hl
      · rename_i hk; subst hk; exact ⟨_, MapIdx.mem_set_self _ _ _⟩
      · rename_i hk
        obtain ⟨o, ho⟩ := ih.cover k w' hl
        exact ⟨o, MapIdx.mem_set_other _ _ _ _ ho (fun x => hk x.symm)⟩
    · have := MapIdx.set_length_le (afterWritesOver left oldIdx klen c earlier).midx w.key
        (afterWritesOver left oldIdx klen c earlier).pos
      have := ih.len_le
      simp only [List.length_cons]; omega
    · simp only [overwriteAt, List.length_append, List.length_take, List.length_drop]; omega
    · intro e he w' hl
      rcases MapIdx.mem_set_ne _ _ _ ih.nodup e he with h | ⟨h1, h2⟩
      · subst h
        simp only [lastWrite, if_true] at hl
        injection hl with hl; subst hl
        show (afterWritesOver left oldIdx klen c earlier).pos + _ ≤ (afterWritesOver left oldIdx klen c earlier).pos + _
        exact Nat.le_refl _
      · simp only [lastWrite] at hl
        have : ¬ w.key = e.1 := fun x => h2 x.symm
        simp only [this, if_false] at hl
        have := ih.entry_before e h1 w' hl
        show e.2 + (encodeRecord w'.stored).length ≤
          (afterWritesOver left oldIdx klen c earlier).pos + (encodeRecord w.stored).length
        omega

theorem afterWrites_inv (klen : Nat) (c : Bool) (hist : List W) : Inv klen c hist (afterWrites klen c hist) :=
  afterWritesOver_inv [] none klen c hist

theorem save_idx (d : DB) :
    d.save.idx = some (encodeIndex d.midx ++ (d.idx.getD []).drop (encodeIndex d.midx).length) := by
  simp [DB.save, overwriteAt]

theorem Codec.decompress_of_functional (c : Codec) (s x : Bytes) (hmem : (s, x) ∈ c)
    (hf : ∀ a b b', (a, b) ∈ c → (a, b') ∈ c → b = b') : c.decompress s = some x := by
  induction c with
  | nil => simp at hmem
  | cons y ys ih =>
    obtain ⟨s', x'⟩ := y
    simp only [Codec.decompress]
    split
    · rename_i hs; subst hs
      rw [hf s' x' x (by simp) hmem]
    · rename_i hs
      rcases List.mem_cons.mp hmem with h | h
      · injection h with h1 h2; exact absurd h1.symm hs
      · exact ih h (fun a b b' h1 h2 => hf a b b' (by simp [h1]) (by simp [h2]))


/-! ### unfolding `Open` / `Read` -/

theorem DB.openFixed_ok (d : DB) (f buf : Bytes) (hi : d.idx = some f) (hd : decodeFixed d.klen f = .ok buf) :
    d.openFixed = ({ d with oidx := .fixed buf, phase := .opened, atStart := true }, .ok) := by
  unfold DB.openFixed; rw [hi]; simp only [hd]

theorem DB.openFixed_err (d : DB) (f : Bytes) (hi : d.idx = some f) (hd : decodeFixed d.klen f = .err) :
    d.openFixed = (d, .err) := by
  unfold DB.openFixed; rw [hi]; simp only [hd]

theorem DB.read_found (d : DB) (buf : Bytes) (k : Bytes) (o : Int) (ho : d.oidx = .fixed buf)
    (hl : getOffset buf d.klen k = .found o) :
    d.read k = (match readAt d.dat o with
      | .got p _ => (match d.decodePayload p with
        | some c => .data c
        | none => .err)
      | .eof => .err
      | .err => .err
      | .panic => .panic) := by
  unfold DB.read DB.lookup
  rw [ho]
  simp only [hl]
  cases readAt d.dat o <;> rfl

end ZChain.BlockDB
