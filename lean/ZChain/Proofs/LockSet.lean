import ZChain.Model.LockSet
/-!
Soundness of the executable lockset check (`closedB`, `checkB`) for the property `NoConflictExcept`:
the context list and the groups are only certificates — if the context list contains the entries and is closed under
the call edges, it contains every `(function, inherited locks)` that ANY call path from an entry reaches (induction on
`Runs`); if every access of every context appears in the group of its location, the pairwise check inside the groups
covers every pair the property quantifies over.
-/
namespace ZChain.LockSet

theorem allB_eq_true {α : Type} {p : α → Bool} : ∀ {l : List α}, allB l p = true ↔ ∀ x ∈ l, p x = true
  | [] => by simp [allB]
  | h :: t => by
    unfold allB
    by_cases hp : p h = true
    · simp only [hp, if_true, List.mem_cons, forall_eq_or_imp, true_and]
      exact allB_eq_true
    · have hf : p h = false := by cases hph : p h <;> simp_all
      simp [hf]

theorem anyB_eq_true {α : Type} {p : α → Bool} : ∀ {l : List α}, anyB l p = true ↔ ∃ x ∈ l, p x = true
  | [] => by simp [anyB]
  | h :: t => by
    unfold anyB
    by_cases hp : p h = true
    · simp only [hp, if_true, List.mem_cons, true_iff]
      exact ⟨h, Or.inl rfl, hp⟩
    · have hf : p h = false := by cases hph : p h <;> simp_all
      simp only [hf, List.mem_cons, Bool.false_eq_true, if_false]
      rw [anyB_eq_true]
      constructor
      · rintro ⟨x, hx, hpx⟩; exact ⟨x, Or.inr hx, hpx⟩
      · rintro ⟨x, hx | hx, hpx⟩
        · subst hx; exact absurd hpx hp
        · exact ⟨x, hx, hpx⟩

theorem natBeq_eq {a b : Nat} (h : Nat.beq a b = true) : a = b := Nat.eq_of_beq_eq_true h

theorem boolSame_eq {a b : Bool} (h : boolSame a b = true) : a = b := by
  cases a <;> cases b <;> simp_all [boolSame]

theorem Lock.same_eq {a b : Lock} (h : Lock.same a b = true) : a = b := by
  cases a; cases b
  unfold Lock.same at h
  split at h
  · rename_i h1
    simp only at h1 h
    rw [natBeq_eq h1, boolSame_eq h]
  · exact absurd h (by simp)

theorem locksSame_eq : ∀ {l m : List Lock}, locksSame l m = true → l = m
  | [], [], _ => rfl
  | a :: as, b :: bs, h => by
    unfold locksSame at h
    split at h
    · rename_i h1
      rw [Lock.same_eq h1, locksSame_eq h]
    · exact absurd h (by simp)
  | [], _ :: _, h => by simp [locksSame] at h
  | _ :: _, [], h => by simp [locksSame] at h

theorem optSame_eq : ∀ {a b : Option Nat}, optSame a b = true → a = b
  | none, none, _ => rfl
  | some a, some b, h => by simp only [optSame] at h; rw [natBeq_eq h]
  | none, some _, h => by simp [optSame] at h
  | some _, none, h => by simp [optSame] at h

theorem Ctx.same_eq {c d : Ctx} (h : Ctx.same c d = true) : c = d := by
  cases c; cases d
  unfold Ctx.same at h
  split at h
  · rename_i h1
    split at h
    · rename_i h2
      split at h
      · rename_i h3
        simp only at h1 h2 h3 h
        rw [natBeq_eq h1, natBeq_eq h2, optSame_eq h3, locksSame_eq h]
      · exact absurd h (by simp)
    · exact absurd h (by simp)
  · exact absurd h (by simp)

theorem Eff.same_eq {p q : Eff} (h : Eff.same p q = true) : p = q := by
  cases p; cases q
  unfold Eff.same at h
  split at h
  · rename_i h1
    split at h
    · rename_i h2
      split at h
      · rename_i h3
        split at h
        · rename_i h4
          split at h
          · rename_i h5
            split at h
            · rename_i h6
              simp only at h1 h2 h3 h4 h5 h6 h
              rw [natBeq_eq h1, natBeq_eq h2, natBeq_eq h3, optSame_eq h4, boolSame_eq h5, boolSame_eq h6,
                locksSame_eq h]
            · exact absurd h (by simp)
          · exact absurd h (by simp)
        · exact absurd h (by simp)
      · exact absurd h (by simp)
    · exact absurd h (by simp)
  · exact absurd h (by simp)

theorem mem_of_any_ctx {cs : List Ctx} {c : Ctx} (h : anyB cs (Ctx.same c) = true) : c ∈ cs := by
  rw [anyB_eq_true] at h
  obtain ⟨d, hd, hs⟩ := h
  rw [Ctx.same_eq hs]; exact hd

theorem mem_of_any_eff {es : List Eff} {p : Eff} (h : anyB es (Eff.same p) = true) : p ∈ es := by
  rw [anyB_eq_true] at h
  obtain ⟨d, hd, hs⟩ := h
  rw [Eff.same_eq hs]; exact hd

theorem runs_mem_closed {t : Table} {cs : List Ctx} (h : closedB t cs = true) {e : Entry} (he : e ∈ t.entries)
    {f : Nat} {L : List Lock} (r : Runs t e f L) : (⟨e.group, tagOf e, f, L⟩ : Ctx) ∈ cs := by
  unfold closedB at h
  rw [Bool.and_eq_true] at h
  obtain ⟨h₁, h₂⟩ := h
  induction r with
  | entry =>
    have := (allB_eq_true.mp h₁) e he
    exact mem_of_any_ctx this
  | @call f' L' c _ hc hcaller ih =>
    have hctx := (allB_eq_true.mp ((allB_eq_true.mp h₂) _ ih)) c hc
    have hb : Nat.beq c.caller f' = true := by rw [hcaller]; exact Nat.beq_refl f'
    simp only [hb, if_true] at hctx
    exact mem_of_any_ctx hctx

theorem concTags_of_concurrent {e₁ e₂ : Entry} (h : concurrent e₁ e₂) :
    concTags e₁.group (tagOf e₁) e₂.group (tagOf e₂) = true := by
  obtain ⟨hg, hc⟩ := h
  unfold concTags tagOf
  have hb : Nat.beq e₁.group e₂.group = true := by rw [hg]; exact Nat.beq_refl _
  simp only [hb, if_true]
  by_cases s₁ : e₁.selfConc = true
  · simp [s₁]
  · by_cases s₂ : e₂.selfConc = true
    · simp [s₂]
    · have hne : e₁.fn ≠ e₂.fn := by
        rcases hc with hne | hs
        · exact hne
        · exact absurd hs s₁
      have hnb : Nat.beq e₁.fn e₂.fn = false := by
        cases hb' : Nat.beq e₁.fn e₂.fn
        · rfl
        · exact absurd (natBeq_eq hb') hne
      simp [s₁, s₂, hnb]

theorem conflictEff_effOf (c₁ c₂ : Ctx) (a₁ a₂ : Access) :
    conflictEff (effOf c₁ a₁) (effOf c₂ a₂) = conflict a₁ (effLocks a₁ c₁.locks) a₂ (effLocks a₂ c₂.locks) := rfl

theorem concEff_effOf (c₁ c₂ : Ctx) (a₁ a₂ : Access) : concEff (effOf c₁ a₁) (effOf c₂ a₂) = concCtx c₁ c₂ := rfl

theorem loc_eq_of_conflict {a₁ a₂ : Access} {l₁ l₂ : List Lock} (h : conflict a₁ l₁ a₂ l₂ = true) :
    a₁.loc = a₂.loc := by
  unfold conflict at h
  split at h
  · rename_i h1; exact natBeq_eq h1
  · exact absurd h (by simp)

/-- **Soundness of the check.** -/
theorem check_sound {t : Table} {cs : List Ctx} {gs : Groups} {k : Known} (hclosed : closedB t cs = true)
    (hcheck : checkB t cs gs k = true) : NoConflictExcept t k := by
  intro e₁ he₁ e₂ he₂ hconc f₁ L₁ f₂ L₂ r₁ r₂ a₁ ha₁ a₂ ha₂ hf₁ hf₂ hconf
  have c₁ := runs_mem_closed hclosed he₁ r₁
  have c₂ := runs_mem_closed hclosed he₂ r₂
  unfold checkB at hcheck
  rw [Bool.and_eq_true] at hcheck
  obtain ⟨hcov, hgrp⟩ := hcheck
  unfold coveredB at hcov
  have g₁ := (allB_eq_true.mp ((allB_eq_true.mp hcov) _ c₁)) _ ha₁
  have g₂ := (allB_eq_true.mp ((allB_eq_true.mp hcov) _ c₂)) _ ha₂
  have hb₁ : Nat.beq a₁.fn f₁ = true := by rw [hf₁]; exact Nat.beq_refl _
  have hb₂ : Nat.beq a₂.fn f₂ = true := by rw [hf₂]; exact Nat.beq_refl _
  simp only [hb₁, hb₂, if_true] at g₁ g₂
  rw [anyB_eq_true] at g₁ g₂
  obtain ⟨G₁, hG₁, hk₁⟩ := g₁
  obtain ⟨G₂, hG₂, hk₂⟩ := g₂
  have hloc : a₁.loc = a₂.loc := loc_eq_of_conflict hconf
  split at hk₁
  · rename_i hkey₁
    split at hk₂
    · rename_i hkey₂
      have hkey : Nat.beq G₁.1 G₂.1 = true := by
        rw [natBeq_eq hkey₁, natBeq_eq hkey₂, hloc]; exact Nat.beq_refl _
      have p₁ := mem_of_any_eff hk₁
      have p₂ := mem_of_any_eff hk₂
      unfold groupsOKB at hgrp
      have h := (allB_eq_true.mp ((allB_eq_true.mp hgrp) _ hG₁)) _ hG₂
      simp only [hkey, if_true] at h
      have h := (allB_eq_true.mp ((allB_eq_true.mp h) _ p₁)) _ p₂
      unfold pairOK at h
      have hcc : concCtx ⟨e₁.group, tagOf e₁, f₁, L₁⟩ ⟨e₂.group, tagOf e₂, f₂, L₂⟩ = true :=
        concTags_of_concurrent hconc
      rw [conflictEff_effOf, concEff_effOf] at h
      simp only [hconf, hcc, if_true] at h
      exact h
    · exact absurd hk₂ (by simp)
  · exact absurd hk₁ (by simp)

/-- the full property is false of a table as soon as one conflicting pair of entry-level accesses exists -/
theorem not_noConflict_of_witness {t : Table} {e₁ e₂ : Entry} (he₁ : e₁ ∈ t.entries) (he₂ : e₂ ∈ t.entries)
    (hc : concurrent e₁ e₂) {a₁ a₂ : Access} (ha₁ : a₁ ∈ t.accesses) (ha₂ : a₂ ∈ t.accesses)
    (hf₁ : a₁.fn = e₁.fn) (hf₂ : a₂.fn = e₂.fn)
    (hconf : conflict a₁ (effLocks a₁ []) a₂ (effLocks a₂ []) = true) : ¬ NoConflictExcept t [] := by
  intro h
  have := h e₁ he₁ e₂ he₂ hc e₁.fn [] e₂.fn [] Runs.entry Runs.entry a₁ ha₁ a₂ ha₂ hf₁ hf₂ hconf
  simp [listed, anyB] at this

/-! ### Sanity of the definitions (so that the table theorem says what it seems to say) -/

theorem anyB_comm_guard (l₁ l₂ : List Lock) : guards l₁ l₂ = guards l₂ l₁ := by
  unfold guards
  cases h : anyB l₁ fun a => anyB l₂ fun b => if Nat.beq a.name b.name then (if a.excl then true else b.excl) else false
  · symm
    cases h' : anyB l₂ fun a => anyB l₁ fun b => if Nat.beq a.name b.name then (if a.excl then true else b.excl) else false
    · rfl
    · exfalso
      rw [anyB_eq_true] at h'
      obtain ⟨b, hb, hb'⟩ := h'
      rw [anyB_eq_true] at hb'
      obtain ⟨a, ha, hab⟩ := hb'
      have : anyB l₁ (fun a => anyB l₂ fun b => if Nat.beq a.name b.name then (if a.excl then true else b.excl) else false) = true := by
        rw [anyB_eq_true]
        refine ⟨a, ha, ?_⟩
        rw [anyB_eq_true]
        refine ⟨b, hb, ?_⟩
        split at hab
        · rename_i hn
          have hn' : Nat.beq a.name b.name = true := by rw [natBeq_eq hn]; exact Nat.beq_refl _
          simp only [hn', if_true]
          cases ha' : a.excl <;> cases hb'' : b.excl <;> simp_all
        · exact absurd hab (by simp)
      rw [h] at this
      exact absurd this (by simp)
  · rw [anyB_eq_true] at h
    obtain ⟨a, ha, ha'⟩ := h
    rw [anyB_eq_true] at ha'
    obtain ⟨b, hb, hab⟩ := ha'
    symm
    rw [anyB_eq_true]
    refine ⟨b, hb, ?_⟩
    rw [anyB_eq_true]
    refine ⟨a, ha, ?_⟩
    split at hab
    · rename_i hn
      have hn' : Nat.beq b.name a.name = true := by rw [natBeq_eq hn]; exact Nat.beq_refl _
      simp only [hn', if_true]
      cases ha' : a.excl <;> cases hb'' : b.excl <;> simp_all
    · exact absurd hab (by simp)

/-- a conflict does not depend on the order of the two accesses -/
theorem conflict_symm (a₁ a₂ : Access) (l₁ l₂ : List Lock) : conflict a₁ l₁ a₂ l₂ = conflict a₂ l₂ a₁ l₁ := by
  unfold conflict synchronised
  rw [anyB_comm_guard l₁ l₂]
  by_cases h : a₁.loc = a₂.loc
  · have h1 : Nat.beq a₁.loc a₂.loc = true := by rw [h]; exact Nat.beq_refl _
    have h2 : Nat.beq a₂.loc a₁.loc = true := by rw [h]; exact Nat.beq_refl _
    simp only [h1, h2, if_true]
    cases a₁.write <;> cases a₂.write <;> cases a₁.atomic <;> cases a₂.atomic <;> simp
  · have h1 : Nat.beq a₁.loc a₂.loc = false := by
      cases hb : Nat.beq a₁.loc a₂.loc
      · rfl
      · exact absurd (natBeq_eq hb) h
    have h2 : Nat.beq a₂.loc a₁.loc = false := by
      cases hb : Nat.beq a₂.loc a₁.loc
      · rfl
      · exact absurd (natBeq_eq hb).symm h
    simp [h1, h2]

/-- two reads never conflict -/
theorem no_conflict_of_reads {a₁ a₂ : Access} (h₁ : a₁.write = false) (h₂ : a₂.write = false) (l₁ l₂ : List Lock) :
    conflict a₁ l₁ a₂ l₂ = false := by
  unfold conflict
  simp [h₁, h₂]

/-- a common mutex held exclusively by one side rules a conflict out -/
theorem no_conflict_of_common_lock {a₁ a₂ : Access} {l₁ l₂ : List Lock} {m : Nat} {x : Bool}
    (h₁ : (⟨m, true⟩ : Lock) ∈ l₁) (h₂ : (⟨m, x⟩ : Lock) ∈ l₂) : conflict a₁ l₁ a₂ l₂ = false := by
  have hg : guards l₁ l₂ = true := by
    unfold guards
    rw [anyB_eq_true]
    refine ⟨_, h₁, ?_⟩
    rw [anyB_eq_true]
    refine ⟨_, h₂, ?_⟩
    simp [Nat.beq_refl]
  unfold conflict synchronised
  simp [hg]

/-- two atomic operations never conflict -/
theorem no_conflict_of_atomic {a₁ a₂ : Access} (h₁ : a₁.atomic = true) (h₂ : a₂.atomic = true) (l₁ l₂ : List Lock) :
    conflict a₁ l₁ a₂ l₂ = false := by
  unfold conflict synchronised
  simp [h₁, h₂]

/-- two holders of the SHARED lock are not ordered: a write under `RLock` conflicts with a read under `RLock` -/
theorem conflict_of_two_read_locks (a₁ a₂ : Access) (m : Nat) (hl : a₁.loc = a₂.loc) (hw : a₁.write = true)
    (hat : a₁.atomic = false) : conflict a₁ [⟨m, false⟩] a₂ [⟨m, false⟩] = true := by
  have h1 : Nat.beq a₁.loc a₂.loc = true := by rw [hl]; exact Nat.beq_refl _
  unfold conflict synchronised guards
  simp [h1, hw, hat, anyB, Nat.beq_refl]

/-- a longer exception list only weakens the statement -/
theorem NoConflictExcept.mono {t : Table} {k k' : Known} (hk : ∀ x ∈ k, x ∈ k') (h : NoConflictExcept t k) :
    NoConflictExcept t k' := by
  intro e₁ he₁ e₂ he₂ hc f₁ L₁ f₂ L₂ r₁ r₂ a₁ ha₁ a₂ ha₂ hf₁ hf₂ hconf
  have := h e₁ he₁ e₂ he₂ hc f₁ L₁ f₂ L₂ r₁ r₂ a₁ ha₁ a₂ ha₂ hf₁ hf₂ hconf
  unfold listed at this ⊢
  rw [anyB_eq_true] at this ⊢
  obtain ⟨x, hx, hx'⟩ := this
  exact ⟨x, hk x hx, hx'⟩

end ZChain.LockSet
