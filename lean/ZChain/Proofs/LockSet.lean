import ZChain.Model.LockSet
/-!
Soundness of the executable lockset check (`closedB`, `checkB`) for the property `NoConflictExcept`:
the context list is only an over-approximation certificate — if it contains the entries and is closed under the call
edges, it contains every `(function, inherited locks)` that ANY call path from an entry reaches (induction on `Runs`),
and then the pairwise check over the contexts' accesses covers every pair the property quantifies over.
-/
namespace ZChain.LockSet

theorem boolSame_eq {a b : Bool} (h : boolSame a b = true) : a = b := by
  cases a <;> cases b <;> simp_all [boolSame]

theorem Lock.same_eq {a b : Lock} (h : Lock.same a b = true) : a = b := by
  cases a; cases b
  simp only [Lock.same, Bool.and_eq_true, beq_iff_eq] at h
  simp [h.1, boolSame_eq h.2]

theorem locksSame_eq : ∀ {l m : List Lock}, locksSame l m = true → l = m
  | [], [], _ => rfl
  | a :: as, b :: bs, h => by
    simp only [locksSame, Bool.and_eq_true] at h
    rw [Lock.same_eq h.1, locksSame_eq h.2]
  | [], _ :: _, h => by simp [locksSame] at h
  | _ :: _, [], h => by simp [locksSame] at h

theorem optSame_eq : ∀ {a b : Option Nat}, optSame a b = true → a = b
  | none, none, _ => rfl
  | some a, some b, h => by simp only [optSame, beq_iff_eq] at h; rw [h]
  | none, some _, h => by simp [optSame] at h
  | some _, none, h => by simp [optSame] at h

theorem Ctx.same_eq {c d : Ctx} (h : Ctx.same c d = true) : c = d := by
  cases c; cases d
  simp only [Ctx.same, Bool.and_eq_true, beq_iff_eq] at h
  obtain ⟨⟨⟨h1, h2⟩, h3⟩, h4⟩ := h
  rw [h1, optSame_eq h2, h3, locksSame_eq h4]

theorem Eff.same_eq {p q : Eff} (h : Eff.same p q = true) : p = q := by
  cases p; cases q
  simp only [Eff.same, Bool.and_eq_true, beq_iff_eq] at h
  obtain ⟨⟨⟨⟨⟨⟨h1, h2⟩, h3⟩, h4⟩, h5⟩, h6⟩, h7⟩ := h
  rw [h1, optSame_eq h2, h3, h4, boolSame_eq h5, boolSame_eq h6, locksSame_eq h7]

theorem mem_of_any_ctx {cs : List Ctx} {c : Ctx} (h : cs.any (Ctx.same c) = true) : c ∈ cs := by
  rw [List.any_eq_true] at h
  obtain ⟨d, hd, hs⟩ := h
  rw [Ctx.same_eq hs]; exact hd

theorem mem_of_any_eff {es : List Eff} {p : Eff} (h : es.any (Eff.same p) = true) : p ∈ es := by
  rw [List.any_eq_true] at h
  obtain ⟨d, hd, hs⟩ := h
  rw [Eff.same_eq hs]; exact hd

theorem runs_mem_closed {t : Table} {cs : List Ctx} (h : closedB t cs = true) {e : Entry} (he : e ∈ t.entries)
    {f : Nat} {L : List Lock} (r : Runs t e f L) : (⟨e.group, tagOf e, f, L⟩ : Ctx) ∈ cs := by
  unfold closedB at h
  rw [Bool.and_eq_true] at h
  obtain ⟨h₁, h₂⟩ := h
  induction r with
  | entry =>
    have := (List.all_eq_true.mp h₁) e he
    exact mem_of_any_ctx this
  | @call f' L' c _ hc hcaller ih =>
    have hctx := (List.all_eq_true.mp h₂) _ ih
    have hmem : c ∈ t.calls.filter (fun cl => cl.caller == f') := by
      rw [List.mem_filter]
      exact ⟨hc, by simp [hcaller]⟩
    have := (List.all_eq_true.mp hctx) c hmem
    exact mem_of_any_ctx this

theorem concCtx_of_concurrent {e₁ e₂ : Entry} (h : concurrent e₁ e₂) (f₁ f₂ : Nat) (L₁ L₂ : List Lock) :
    concCtx ⟨e₁.group, tagOf e₁, f₁, L₁⟩ ⟨e₂.group, tagOf e₂, f₂, L₂⟩ = true := by
  obtain ⟨hg, hc⟩ := h
  unfold concCtx tagOf
  simp only [hg, beq_self_eq_true, Bool.true_and]
  by_cases s₁ : e₁.selfConc = true
  · simp [s₁]
  · by_cases s₂ : e₂.selfConc = true
    · simp [s₂]
    · have hne : e₁.fn ≠ e₂.fn := by
        rcases hc with hne | hs
        · exact hne
        · exact absurd hs s₁
      simp [s₁, s₂, hne]

theorem conflictEff_effOf (c₁ c₂ : Ctx) (a₁ a₂ : Access) :
    conflictEff (effOf c₁ a₁) (effOf c₂ a₂) = conflict a₁ (effLocks a₁ c₁.locks) a₂ (effLocks a₂ c₂.locks) := rfl

theorem concEff_effOf (c₁ c₂ : Ctx) (a₁ a₂ : Access) : concEff (effOf c₁ a₁) (effOf c₂ a₂) = concCtx c₁ c₂ := rfl

/-- **Soundness of the check.** -/
theorem check_sound {t : Table} {cs : List Ctx} {gs : Groups} {k : Known} (hclosed : closedB t cs = true)
    (hcheck : checkB t cs gs k = true) : NoConflictExcept t k := by
  intro e₁ he₁ e₂ he₂ hconc f₁ L₁ f₂ L₂ r₁ r₂ a₁ ha₁ a₂ ha₂ hf₁ hf₂ hconf
  have c₁ := runs_mem_closed hclosed he₁ r₁
  have c₂ := runs_mem_closed hclosed he₂ r₂
  unfold checkB at hcheck
  rw [Bool.and_eq_true] at hcheck
  obtain ⟨hcov, hgrp⟩ := hcheck
  unfold coveredB at hcov
  have g₁ := (List.all_eq_true.mp ((List.all_eq_true.mp hcov) _ c₁)) _ ha₁
  have g₂ := (List.all_eq_true.mp ((List.all_eq_true.mp hcov) _ c₂)) _ ha₂
  simp only [hf₁, hf₂, bne_self_eq_false, Bool.false_or] at g₁ g₂
  rw [List.any_eq_true] at g₁ g₂
  obtain ⟨G₁, hG₁, hk₁⟩ := g₁
  obtain ⟨G₂, hG₂, hk₂⟩ := g₂
  rw [Bool.and_eq_true] at hk₁ hk₂
  have hloc : a₁.loc = a₂.loc := by
    unfold conflict at hconf
    simp only [Bool.and_eq_true] at hconf
    exact eq_of_beq hconf.1.1
  have hkey : G₁.1 = G₂.1 := by
    have h1 : G₁.1 = a₁.loc := eq_of_beq hk₁.1
    have h2 : G₂.1 = a₂.loc := eq_of_beq hk₂.1
    rw [h1, h2, hloc]
  have p₁ := mem_of_any_eff hk₁.2
  have p₂ := mem_of_any_eff hk₂.2
  unfold groupsOKB at hgrp
  have h := (List.all_eq_true.mp ((List.all_eq_true.mp hgrp) _ hG₁)) _ hG₂
  simp only [hkey, bne_self_eq_false, Bool.false_or] at h
  have h := (List.all_eq_true.mp ((List.all_eq_true.mp h) _ p₁)) _ p₂
  unfold pairOK at h
  have hcc := concCtx_of_concurrent hconc f₁ f₂ L₁ L₂
  rw [conflictEff_effOf, concEff_effOf] at h
  simp only [hconf, hcc, Bool.and_self, Bool.not_true, Bool.false_or] at h
  exact h

/-- the full property is false of a table as soon as one conflicting pair of entry-level accesses exists -/
theorem not_noConflict_of_witness {t : Table} {e₁ e₂ : Entry} (he₁ : e₁ ∈ t.entries) (he₂ : e₂ ∈ t.entries)
    (hc : concurrent e₁ e₂) {a₁ a₂ : Access} (ha₁ : a₁ ∈ t.accesses) (ha₂ : a₂ ∈ t.accesses)
    (hf₁ : a₁.fn = e₁.fn) (hf₂ : a₂.fn = e₂.fn)
    (hconf : conflict a₁ (effLocks a₁ []) a₂ (effLocks a₂ []) = true) : ¬ NoConflictExcept t [] := by
  intro h
  have := h e₁ he₁ e₂ he₂ hc e₁.fn [] e₂.fn [] Runs.entry Runs.entry a₁ ha₁ a₂ ha₂ hf₁ hf₂ hconf
  simp [listed] at this

end ZChain.LockSet
