import ZChain.Model.LockSet
/-!
Soundness of the executable lockset check (`closedB`, `checkB`) for the property `NoConflictExcept`:
the context list is only an over-approximation certificate — if it contains the entries and is closed under the call
edges, it contains every `(function, inherited locks)` that ANY call path from an entry reaches (induction on `Runs`),
and then the pairwise check over the contexts' accesses covers every pair the property quantifies over.
-/
namespace ZChain.LockSet

theorem runs_mem_closed {t : Table} {cs : List Ctx} (h : closedB t cs = true) {e : Entry} (he : e ∈ t.entries)
    {f : Nat} {L : List Lock} (r : Runs t e f L) : (⟨e.group, tagOf e, f, L⟩ : Ctx) ∈ cs := by
  unfold closedB at h
  rw [Bool.and_eq_true] at h
  obtain ⟨h₁, h₂⟩ := h
  induction r with
  | entry =>
    have := (List.all_eq_true.mp h₁) e he
    exact List.contains_iff_mem.mp this
  | @call f' L' c _ hc hcaller ih =>
    have hctx := (List.all_eq_true.mp h₂) _ ih
    have hmem : c ∈ t.calls.filter (fun cl => cl.caller == f') := by
      rw [List.mem_filter]
      exact ⟨hc, by simp [hcaller]⟩
    have := (List.all_eq_true.mp hctx) c hmem
    exact List.contains_iff_mem.mp this

theorem concCtx_of_concurrent {e₁ e₂ : Entry} (h : concurrent e₁ e₂) (f₁ f₂ : Nat) (L₁ L₂ : List Lock) :
    concCtx ⟨e₁.group, tagOf e₁, f₁, L₁⟩ ⟨e₂.group, tagOf e₂, f₂, L₂⟩ = true := by
  obtain ⟨hg, hc⟩ := h
  unfold concCtx tagOf
  simp only [hg, beq_self_eq_true, Bool.true_and]
  by_cases s₁ : e₁.selfConc = true
  · simp [s₁]
  · by_cases s₂ : e₂.selfConc = true
    · simp [s₂]
    · have hne : e₁.fn ≠ e₂.fn := by
        rcases hc with hne | hs
        · exact hne
        · exact absurd hs s₁
      simp [s₁, s₂, hne]

theorem mem_effs {t : Table} {cs : List Ctx} {c : Ctx} {a : Access} (hc : c ∈ cs) (ha : a ∈ t.accesses)
    (hf : a.fn = c.fn) : (c, a) ∈ effs t cs := by
  unfold effs
  rw [List.mem_flatMap]
  refine ⟨c, hc, ?_⟩
  rw [List.mem_map]
  refine ⟨a, ?_, rfl⟩
  rw [List.mem_filter]
  exact ⟨ha, by simp [hf]⟩

theorem conflictEff_effOf (c₁ c₂ : Ctx) (a₁ a₂ : Access) :
    conflictEff (effOf c₁ a₁) (effOf c₂ a₂) = conflict a₁ (effLocks a₁ c₁.locks) a₂ (effLocks a₂ c₂.locks) := rfl

theorem concEff_effOf (c₁ c₂ : Ctx) (a₁ a₂ : Access) : concEff (effOf c₁ a₁) (effOf c₂ a₂) = concCtx c₁ c₂ := rfl

/-- **Soundness of the check.** -/
theorem check_sound {t : Table} {cs : List Ctx} {gs : Groups} {k : Known} (hclosed : closedB t cs = true)
    (hcheck : checkB t cs gs k = true) : NoConflictExcept t k := by
  intro e₁ he₁ e₂ he₂ hconc f₁ L₁ f₂ L₂ r₁ r₂ a₁ ha₁ a₂ ha₂ hf₁ hf₂ hconf
  have c₁ := runs_mem_closed hclosed he₁ r₁
  have c₂ := runs_mem_closed hclosed he₂ r₂
  have m₁ := mem_effs (t := t) c₁ ha₁ (by simpa using hf₁)
  have m₂ := mem_effs (t := t) c₂ ha₂ (by simpa using hf₂)
  unfold checkB at hcheck
  rw [Bool.and_eq_true] at hcheck
  obtain ⟨hcov, hgrp⟩ := hcheck
  unfold coveredB at hcov
  have g₁ := (List.all_eq_true.mp hcov) _ m₁
  have g₂ := (List.all_eq_true.mp hcov) _ m₂
  rw [List.any_eq_true] at g₁ g₂
  obtain ⟨G₁, hG₁, hk₁⟩ := g₁
  obtain ⟨G₂, hG₂, hk₂⟩ := g₂
  rw [Bool.and_eq_true] at hk₁ hk₂
  have hloc : a₁.loc = a₂.loc := by
    unfold conflict at hconf
    simp only [Bool.and_eq_true] at hconf
    exact eq_of_beq hconf.1.1
  have hkey : G₁.1 = G₂.1 := by
    have h1 : G₁.1 = a₁.loc := eq_of_beq hk₁.1
    have h2 : G₂.1 = a₂.loc := eq_of_beq hk₂.1
    rw [h1, h2, hloc]
  have p₁ := List.contains_iff_mem.mp hk₁.2
  have p₂ := List.contains_iff_mem.mp hk₂.2
  unfold groupsOKB at hgrp
  have h := (List.all_eq_true.mp ((List.all_eq_true.mp hgrp) _ hG₁)) _ hG₂
  simp only [hkey, bne_self_eq_false, Bool.false_or] at h
  have h := (List.all_eq_true.mp ((List.all_eq_true.mp h) _ p₁)) _ p₂
  unfold pairOK at h
  have hcc := concCtx_of_concurrent hconc f₁ f₂ L₁ L₂
  rw [conflictEff_effOf, concEff_effOf] at h
  simp only [hconf, hcc, Bool.and_self, Bool.not_true, Bool.false_or] at h
  exact h

/-- the full property is false of a table as soon as one conflicting pair of entry-level accesses exists -/
theorem not_noConflict_of_witness {t : Table} {e₁ e₂ : Entry} (he₁ : e₁ ∈ t.entries) (he₂ : e₂ ∈ t.entries)
    (hc : concurrent e₁ e₂) {a₁ a₂ : Access} (ha₁ : a₁ ∈ t.accesses) (ha₂ : a₂ ∈ t.accesses)
    (hf₁ : a₁.fn = e₁.fn) (hf₂ : a₂.fn = e₂.fn)
    (hconf : conflict a₁ (effLocks a₁ []) a₂ (effLocks a₂ []) = true) : ¬ NoConflictExcept t [] := by
  intro h
  have := h e₁ he₁ e₂ he₂ hc e₁.fn [] e₂.fn [] Runs.entry Runs.entry a₁ ha₁ a₂ ha₂ hf₁ hf₂ hconf
  simp [listed] at this

end ZChain.LockSet
