import ZChain.Proofs.Partitions
/-!
C25, table level. A state of the partitions code is viewed as a *table*: the number `L` of the last
partition, the content `P i` of every partition `i ≤ L` and the location index `loc` (the location
nodes). The table operations below are what the methods of the model do to this view (shown in
`Proofs/PartitionsImpl.lean`); here: they keep the table well formed and act on the member set as a set.
-/
namespace ZChain.Partitions

structure T where
  size : Nat
  L : Nat
  P : Nat → List Item
  loc : Nat → Option Nat

def upd {α : Type} (f : Nat → α) (k : Nat) (v : α) : Nat → α := fun j => if j = k then v else f j

@[simp] theorem upd_same {α : Type} (f : Nat → α) (k : Nat) (v : α) : upd f k v k = v := by simp [upd]
theorem upd_other {α : Type} (f : Nat → α) {k j : Nat} (v : α) (h : j ≠ k) : upd f k v j = f j := by simp [upd, h]
theorem upd_apply {α : Type} (f : Nat → α) (k j : Nat) (v : α) : upd f k v j = if j = k then v else f j := rfl

namespace T

def setP (t : T) (i : Nat) (items : List Item) : T := { t with P := upd t.P i items }
def setLoc (t : T) (id i : Nat) : T := { t with loc := upd t.loc id (some i) }
def delLoc (t : T) (id : Nat) : T := { t with loc := upd t.loc id none }

/-- `pack` -/
def pack (t : T) : T :=
  { t with L := t.L + 1, P := upd t.P (t.L + 1) [],
           loc := fun id => match findItem (t.P t.L) id with
             | some _ => some t.L
             | none => t.loc id }

/-- `AddX` -/
def addX (t : T) (it : Item) : T × Res Nat :=
  match t.loc it.id with
  | some _ => (t, .error .exists_)
  | none =>
    match findItem (t.P t.L) it.id with
    | some _ => (t, .error .exists_)
    | none =>
      let t1 := if (t.P t.L).length = t.size then t.pack else t
      (t1.setP t1.L (t1.P t1.L ++ [it]), .ok t1.L)

/-- `Get` -/
def get (t : T) (id : Nat) : Res (Nat × Nat) :=
  match findItem (t.P t.L) id with
  | some it => .ok (t.L, it.data)
  | none =>
    match t.loc id with
    | none => .error .notFound
    | some l =>
      match findItem (t.P l) id with
      | none => .error .notPresent
      | some it => .ok (l, it.data)

/-- `UpdateItem` -/
def updateItem (t : T) (it : Item) : T × Res Unit :=
  match findItem (t.P t.L) it.id with
  | some _ => (t.setP t.L (replaceData (t.P t.L) it.id it.data), .ok ())
  | none =>
    match t.loc it.id with
    | none => (t, .error .notFound)
    | some l =>
      match findItem (t.P l) it.id with
      | none => (t, .error .partNotFound)
      | some _ => (t.setP l (replaceData (t.P l) it.id it.data), .ok ())

/-- `Update` -/
def update (t : T) (id : Nat) (f : Nat → Option Nat) : T × Res Nat :=
  match findItem (t.P t.L) id with
  | some v =>
    match f v.data with
    | none => (t, .error .ferr)
    | some d => (t.setP t.L (replaceData (t.P t.L) id d), .ok t.L)
  | none =>
    match t.loc id with
    | none => (t, .error .notFound)
    | some l =>
      match findItem (t.P l) id with
      | none => (t, .error .notFound)
      | some v =>
        match f v.data with
        | none => (t, .error .ferr)
        | some d => (t.setP l (replaceData (t.P l) id d), .ok l)

/-- `loadLastFromPrev` -/
def loadLastFromPrev (t : T) : T :=
  if t.L = 0 then t
  else { t with L := t.L - 1,
                loc := fun id => match findItem (t.P (t.L - 1)) id with
                  | some _ => none
                  | none => t.loc id }

/-- `removeFromLast` -/
def removeFromLast (t : T) (k : Nat) : T :=
  let t1 := t.setP t.L (swapRemove (t.P t.L) k)
  if (t1.P t1.L).length > 0 then t1 else t1.loadLastFromPrev

/-- `removeItem` for `i < L` (swap with the tail of the last partition) -/
def removeItem (t : T) (id i : Nat) : T :=
  match findIdx (t.P i) id, (t.P t.L).getLast? with
  | some k, some tl =>
    let t5 := (((t.setP i (swapRemove (t.P i) k)).setP t.L (t.P t.L).dropLast).setP i
                (swapRemove (t.P i) k ++ [tl])).setLoc tl.id i
    if (t5.P t5.L).length > 0 then t5 else t5.loadLastFromPrev
  | _, _ => t

/-- `Remove` -/
def remove (t : T) (id : Nat) : T × Res Unit :=
  match findIdx (t.P t.L) id with
  | some k => (t.removeFromLast k, .ok ())
  | none =>
    match t.loc id with
    | none => (t, .error .notFound)
    | some i => ((t.removeItem id i).delLoc id, .ok ())

/-- `Exist` -/
def exist (t : T) (id : Nat) : Bool :=
  match findItem (t.P t.L) id with
  | some _ => true
  | none => (t.loc id).isSome

/-- `Size` -/
def sizeOf (t : T) : Nat := if (t.P t.L).length = 0 then 0 else t.L * t.size + (t.P t.L).length

/-- all items in `ForEach` order -/
def items (t : T) : List Item := (List.range (t.L + 1)).flatMap t.P

/-- what `ForEach` (never stopping) visits -/
def visits (t : T) : List (Nat × Item) := (List.range (t.L + 1)).flatMap fun i => (t.P i).map fun x => (i, x)

/-- membership in the table -/
def Mem (t : T) (x : Item) : Prop := ∃ i, i ≤ t.L ∧ x ∈ t.P i

/-- some member carries the id -/
def Has (t : T) (id : Nat) : Prop := ∃ x, t.Mem x ∧ x.id = id

end T

/-- well-formed tables -/
structure WFA (t : T) : Prop where
  size_pos : 1 ≤ t.size
  full : ∀ i, i < t.L → (t.P i).length = t.size
  last_le : (t.P t.L).length ≤ t.size
  last_ne : 0 < t.L → t.P t.L ≠ []
  nodup : ∀ i, i ≤ t.L → ((t.P i).map (·.id)).Nodup
  disj : ∀ i j, i ≤ t.L → j ≤ t.L → ∀ x ∈ t.P i, ∀ y ∈ t.P j, x.id = y.id → i = j
  loc_sound : ∀ id i, t.loc id = some i → i < t.L ∧ ∃ x ∈ t.P i, x.id = id
  loc_complete : ∀ i, i < t.L → ∀ x ∈ t.P i, t.loc x.id = some i

theorem T.mem_items (t : T) (x : Item) : x ∈ t.items ↔ t.Mem x := by
  simp only [T.items, List.mem_flatMap, List.mem_range, T.Mem]
  constructor
  · rintro ⟨i, hi, hx⟩; exact ⟨i, by omega, hx⟩
  · rintro ⟨i, hi, hx⟩; exact ⟨i, by omega, hx⟩

namespace WFA
variable {t : T}

/-- two members with the same id are the same item -/
theorem mem_unique (h : WFA t) {x y : Item} (hx : t.Mem x) (hy : t.Mem y) (hid : x.id = y.id) : x = y := by
  obtain ⟨i, hi, hxi⟩ := hx
  obtain ⟨j, hj, hyj⟩ := hy
  have := h.disj i j hi hj x hxi y hyj hid
  subst this
  have h1 := findItem_eq_of_mem (h.nodup i hi) hxi
  have h2 := findItem_eq_of_mem (h.nodup i hi) hyj
  rw [hid] at h1
  rw [h1] at h2
  exact Option.some.inj h2

/-- an id is held iff it is in the last partition or has a location -/
theorem has_iff (h : WFA t) (id : Nat) :
    t.Has id ↔ (∃ x, findItem (t.P t.L) id = some x) ∨ (∃ i, t.loc id = some i) := by
  constructor
  · rintro ⟨x, ⟨i, hi, hxi⟩, rfl⟩
    by_cases hl : i = t.L
    · subst hl; exact Or.inl (findItem_isSome.mpr ⟨x, hxi, rfl⟩)
    · exact Or.inr ⟨i, h.loc_complete i (by omega) x hxi⟩
  · rintro (⟨x, hx⟩ | ⟨i, hi⟩)
    · obtain ⟨hm, hid⟩ := findItem_some hx
      exact ⟨x, ⟨t.L, Nat.le_refl _, hm⟩, hid⟩
    · obtain ⟨hlt, x, hx, hid⟩ := h.loc_sound id i hi
      exact ⟨x, ⟨i, by omega, hx⟩, hid⟩

theorem not_has (h : WFA t) {id : Nat} (hn : ¬ t.Has id) :
    findItem (t.P t.L) id = none ∧ t.loc id = none ∧ ∀ i, i ≤ t.L → ∀ x ∈ t.P i, x.id ≠ id := by
  refine ⟨?_, ?_, ?_⟩
  · cases hf : findItem (t.P t.L) id with
    | none => rfl
    | some x => exact absurd ((h.has_iff id).mpr (Or.inl ⟨x, hf⟩)) hn
  · cases hf : t.loc id with
    | none => rfl
    | some i => exact absurd ((h.has_iff id).mpr (Or.inr ⟨i, hf⟩)) hn
  · intro i hi x hx hid
    exact hn ⟨x, ⟨i, hi, hx⟩, hid⟩

theorem addX_exists (h : WFA t) (it : Item) (hh : t.Has it.id) : t.addX it = (t, .error .exists_) := by
  unfold T.addX
  rcases (h.has_iff it.id).mp hh with ⟨x, hx⟩ | ⟨i, hi⟩
  · rw [hx]; cases t.loc it.id <;> rfl
  · rw [hi]

theorem addX_new (h : WFA t) (it : Item) (hn : ¬ t.Has it.id) :
    ∃ l, (t.addX it).2 = .ok l ∧ WFA (t.addX it).1 ∧ ∀ x, (t.addX it).1.Mem x ↔ t.Mem x ∨ x = it := by
  obtain ⟨h1, h2, h3⟩ := h.not_has hn
  unfold T.addX
  simp only [h1, h2]
  by_cases hp : (t.P t.L).length = t.size
  · simp only [hp, if_true]
    refine ⟨_, rfl, ?_, ?_⟩
    · have hl := h.last_le
      constructor
      · exact h.size_pos
      · intro i hi
        simp only [T.setP, T.pack, upd_apply] at hi ⊢
        have := h.full i
        grind
      · simp [T.setP, T.pack, upd_apply]; exact h.size_pos
      · simp [T.setP, T.pack, upd_apply]
      · intro i hi
        simp only [T.setP, T.pack, upd_apply] at hi ⊢
        have := h.nodup i
        grind
      · intro i j hi hj x hx y hy hid
        simp only [T.setP, T.pack, upd_apply] at hi hj hx hy
        have := h.disj i j
        have := h3 i
        have := h3 j
        grind
      · intro id i hloc
        simp only [T.setP, T.pack, upd_apply] at hloc ⊢
        have := h.loc_sound id i
        split at hloc
        · rename_i x hx
          have := findItem_some hx
          grind
        · grind
      · intro i hi x hx
        simp only [T.setP, T.pack, upd_apply] at hi hx ⊢
        have hc := h.loc_complete i
        by_cases hil : i = t.L
        · have : i ≠ t.L + 1 := by omega
          simp only [this, if_false] at hx
          rw [hil] at hx
          obtain ⟨y, hy⟩ := findItem_isSome.mpr ⟨x, hx, rfl⟩
          simp [hy, hil]
        · have hilt : i < t.L := by omega
          have : i ≠ t.L + 1 := by omega
          simp only [this, if_false] at hx
          have : findItem (t.P t.L) x.id = none := by
            rw [findItem_none]
            intro y hy hid
            exact hil (h.disj i t.L (by omega) (by omega) x hx y hy hid.symm)
          simp [this, hc hilt x hx]
    · intro x
      simp only [T.Mem, T.setP, T.pack, upd_apply]
      constructor
      · rintro ⟨i, hi, hx⟩
        by_cases hil : i = t.L + 1
        · simp [hil] at hx; exact Or.inr hx
        · simp [hil] at hx; exact Or.inl ⟨i, by omega, hx⟩
      · rintro (⟨i, hi, hx⟩ | rfl)
        · exact ⟨i, by omega, by simp [show i ≠ t.L + 1 by omega, hx]⟩
        · exact ⟨t.L + 1, by omega, by simp⟩
  · simp only [hp, if_false]
    refine ⟨_, rfl, ?_, ?_⟩
    · have hl := h.last_le
      constructor
      · exact h.size_pos
      · intro i hi
        simp only [T.setP, upd_apply] at hi ⊢
        have := h.full i
        grind
      · simp [T.setP, upd_apply]; omega
      · simp [T.setP, upd_apply]
      · intro i hi
        simp only [T.setP, upd_apply] at hi ⊢
        have := h.nodup i
        by_cases hil : i = t.L
        · simp only [hil, if_true, List.map_append, List.map_cons, List.map_nil]
          rw [List.nodup_append]
          refine ⟨h.nodup t.L (Nat.le_refl _), by simp, ?_⟩
          intro a ha b hb
          simp at hb; subst hb
          simp only [List.mem_map] at ha
          obtain ⟨y, hy, rfl⟩ := ha
          exact h3 t.L (Nat.le_refl _) y hy
        · simp [hil]; exact this hi
      · intro i j hi hj x hx y hy hid
        simp only [T.setP, upd_apply] at hi hj hx hy
        have := h.disj i j
        have := h3 i
        have := h3 j
        grind
      · intro id i hloc
        simp only [T.setP, upd_apply] at hloc ⊢
        have := h.loc_sound id i hloc
        grind
      · intro i hi x hx
        simp only [T.setP, upd_apply] at hi hx ⊢
        have hc := h.loc_complete i
        grind
    · intro x
      simp only [T.Mem, T.setP, upd_apply]
      constructor
      · rintro ⟨i, hi, hx⟩
        by_cases hil : i = t.L
        · simp [hil] at hx
          rcases hx with hx | hx
          · exact Or.inl ⟨t.L, Nat.le_refl _, hx⟩
          · exact Or.inr hx
        · simp [hil] at hx; exact Or.inl ⟨i, hi, hx⟩
      · rintro (⟨i, hi, hx⟩ | rfl)
        · refine ⟨i, hi, ?_⟩
          by_cases hil : i = t.L
          · rw [hil] at hx; simp [hil, hx]
          · simp [hil, hx]
        · exact ⟨t.L, Nat.le_refl _, by simp⟩
theorem last_find_none (h : WFA t) {i : Nat} (hi : i < t.L) {x : Item} (hx : x ∈ t.P i) :
    findItem (t.P t.L) x.id = none := by
  rw [findItem_none]
  intro y hy hid
  have := h.disj i t.L (by omega) (Nat.le_refl _) x hx y hy hid.symm
  omega

theorem get_of_mem (h : WFA t) {x : Item} (hx : t.Mem x) : ∃ l, t.get x.id = .ok (l, x.data) := by
  obtain ⟨i, hi, hxi⟩ := hx
  unfold T.get
  by_cases hil : i = t.L
  · rw [hil] at hxi
    rw [findItem_eq_of_mem (h.nodup t.L (Nat.le_refl _)) hxi]
    exact ⟨_, rfl⟩
  · have hlt : i < t.L := by omega
    rw [h.last_find_none hlt hxi]
    simp only [h.loc_complete i hlt x hxi, findItem_eq_of_mem (h.nodup i hi) hxi]
    exact ⟨_, rfl⟩

theorem get_of_not_has (h : WFA t) {id : Nat} (hn : ¬ t.Has id) : t.get id = .error .notFound := by
  obtain ⟨h1, h2, _⟩ := h.not_has hn
  simp [T.get, h1, h2]

theorem exist_iff (h : WFA t) (id : Nat) : t.exist id = true ↔ t.Has id := by
  rw [h.has_iff]
  unfold T.exist
  cases hf : findItem (t.P t.L) id with
  | some x => simp
  | none => simp [Option.isSome_iff_exists]

theorem length_range_flatMap (P : Nat → List Item) (sz : Nat) :
    ∀ n, (∀ i, i < n → (P i).length = sz) → ((List.range n).flatMap P).length = n * sz := by
  intro n
  induction n with
  | zero => simp
  | succ n ih =>
    intro hf
    rw [List.range_succ, List.flatMap_append, List.length_append, ih (fun i hi => hf i (by omega))]
    simp [hf n (by omega), Nat.succ_mul]

theorem length_items (h : WFA t) : t.items.length = t.L * t.size + (t.P t.L).length := by
  unfold T.items
  rw [List.range_succ, List.flatMap_append, List.length_append, length_range_flatMap t.P t.size t.L h.full]
  simp

theorem sizeOf_eq (h : WFA t) : t.sizeOf = t.items.length := by
  rw [h.length_items]
  unfold T.sizeOf
  split
  · rename_i h0
    have : t.L = 0 := by
      rcases Nat.eq_zero_or_pos t.L with h' | h'
      · exact h'
      · exact absurd (List.eq_nil_of_length_eq_zero h0) (h.last_ne h')
    rw [h0, this]; simp
  · rfl

theorem nodup_items (h : WFA t) : (t.items.map (·.id)).Nodup := by
  unfold T.items
  rw [List.map_flatMap]
  unfold List.Nodup
  rw [List.pairwise_flatMap]
  constructor
  · intro i hi
    exact h.nodup i (by simp at hi; omega)
  · have : ∀ n, n ≤ t.L + 1 → List.Pairwise (fun a₁ a₂ => ∀ x, x ∈ List.map (fun x => x.id) (t.P a₁) →
        ∀ y, y ∈ List.map (fun x => x.id) (t.P a₂) → x ≠ y) (List.range n) := by
      intro n
      induction n with
      | zero => intro _; simp
      | succ n ih =>
        intro hn
        rw [List.range_succ, List.pairwise_append]
        refine ⟨ih (by omega), by simp, ?_⟩
        intro a ha b hb x hx y hy hxy
        simp at ha hb
        subst hb
        simp only [List.mem_map] at hx hy
        obtain ⟨u, hu, rfl⟩ := hx
        obtain ⟨v, hv, rfl⟩ := hy
        have := h.disj a b (by omega) (by omega) u hu v hv hxy
        omega
    exact this _ (Nat.le_refl _)

theorem visits_eq (t : T) : t.visits.map (·.2) = t.items := by
  unfold T.visits T.items
  rw [List.map_flatMap]
  congr 1
  funext i
  simp [Function.comp_def]

/-- tables with the same shape and the same ids in every partition are well formed together -/
theorem of_same_ids {t t' : T} (h : WFA t) (hs : t'.size = t.size) (hL : t'.L = t.L) (hloc : t'.loc = t.loc)
    (hids : ∀ i, i ≤ t.L → (t'.P i).map (·.id) = (t.P i).map (·.id)) : WFA t' := by
  have hlen : ∀ i, i ≤ t.L → (t'.P i).length = (t.P i).length := by
    intro i hi; have := congrArg List.length (hids i hi); simpa using this
  have hmem : ∀ i, i ≤ t.L → ∀ x ∈ t'.P i, ∃ y ∈ t.P i, y.id = x.id := by
    intro i hi x hx
    have : x.id ∈ (t'.P i).map (·.id) := List.mem_map.mpr ⟨x, hx, rfl⟩
    rw [hids i hi] at this
    obtain ⟨y, hy, hid⟩ := List.mem_map.mp this
    exact ⟨y, hy, hid⟩
  have hmem' : ∀ i, i ≤ t.L → ∀ x ∈ t.P i, ∃ y ∈ t'.P i, y.id = x.id := by
    intro i hi x hx
    have : x.id ∈ (t.P i).map (·.id) := List.mem_map.mpr ⟨x, hx, rfl⟩
    rw [← hids i hi] at this
    obtain ⟨y, hy, hid⟩ := List.mem_map.mp this
    exact ⟨y, hy, hid⟩
  constructor
  · rw [hs]; exact h.size_pos
  · intro i hi; rw [hL] at hi; rw [hlen i (by omega), hs]; exact h.full i hi
  · rw [hL, hlen _ (Nat.le_refl _), hs]; exact h.last_le
  · intro h0 hnil
    rw [hL] at h0 hnil
    have := hlen t.L (Nat.le_refl _)
    rw [hnil] at this
    exact h.last_ne h0 (List.eq_nil_of_length_eq_zero this.symm)
  · intro i hi; rw [hL] at hi; rw [hids i hi]; exact h.nodup i hi
  · intro i j hi hj x hx y hy hid
    rw [hL] at hi hj
    obtain ⟨x', hx', hxid⟩ := hmem i hi x hx
    obtain ⟨y', hy', hyid⟩ := hmem j hj y hy
    exact h.disj i j hi hj x' hx' y' hy' (by rw [hxid, hyid, hid])
  · intro id i hl
    rw [hloc] at hl
    obtain ⟨hlt, x, hx, hid⟩ := h.loc_sound id i hl
    obtain ⟨y, hy, hyid⟩ := hmem' i (by omega) x hx
    exact ⟨by rw [hL]; exact hlt, y, hy, by rw [hyid, hid]⟩
  · intro i hi x hx
    rw [hL] at hi
    obtain ⟨y, hy, hyid⟩ := hmem i (by omega) x hx
    rw [hloc, ← hyid]
    exact h.loc_complete i hi y hy

/-- replacing the data of the entry with `id` in partition `l` -/
theorem setP_replace (h : WFA t) {l id : Nat} (d : Nat) (hl : l ≤ t.L) (hin : ∃ x ∈ t.P l, x.id = id) :
    WFA (t.setP l (replaceData (t.P l) id d)) ∧
    ∀ y, (t.setP l (replaceData (t.P l) id d)).Mem y ↔ (t.Mem y ∧ y.id ≠ id) ∨ y = ⟨id, d⟩ := by
  constructor
  · apply h.of_same_ids (t' := t.setP l (replaceData (t.P l) id d)) rfl rfl rfl
    intro i hi
    simp only [T.setP, upd_apply]
    split
    · subst_vars; exact map_id_replaceData _ _ _
    · rfl
  · intro y
    simp only [T.Mem, T.setP, upd_apply]
    obtain ⟨x, hx, hxid⟩ := hin
    constructor
    · rintro ⟨i, hi, hy⟩
      by_cases hil : i = l
      · simp only [hil, if_true] at hy
        rcases (mem_replaceData (h.nodup l hl) ⟨x, hx, hxid⟩ y).mp hy with ⟨hy', hne⟩ | hy'
        · exact Or.inl ⟨⟨l, hl, hy'⟩, hne⟩
        · exact Or.inr hy'
      · simp only [hil, if_false] at hy
        refine Or.inl ⟨⟨i, hi, hy⟩, ?_⟩
        intro hid
        exact hil (h.disj i l hi hl y hy x hx (by rw [hid, hxid]))
    · rintro (⟨⟨i, hi, hy⟩, hne⟩ | rfl)
      · refine ⟨i, hi, ?_⟩
        by_cases hil : i = l
        · simp only [hil, if_true]
          rw [hil] at hy
          exact (mem_replaceData (h.nodup l hl) ⟨x, hx, hxid⟩ y).mpr (Or.inl ⟨hy, hne⟩)
        · simp only [hil, if_false]; exact hy
      · exact ⟨l, hl, by simp only [if_true]; exact (mem_replaceData (h.nodup l hl) ⟨x, hx, hxid⟩ _).mpr (Or.inr rfl)⟩

/-- where the code finds a member: in the last partition, or through its location -/
theorem locate (h : WFA t) {x : Item} (hx : t.Mem x) :
    (findItem (t.P t.L) x.id = some x) ∨
    (findItem (t.P t.L) x.id = none ∧ ∃ l, l < t.L ∧ t.loc x.id = some l ∧ findItem (t.P l) x.id = some x ∧ x ∈ t.P l) := by
  obtain ⟨i, hi, hxi⟩ := hx
  by_cases hil : i = t.L
  · rw [hil] at hxi
    exact Or.inl (findItem_eq_of_mem (h.nodup t.L (Nat.le_refl _)) hxi)
  · have hlt : i < t.L := by omega
    exact Or.inr ⟨h.last_find_none hlt hxi, i, hlt, h.loc_complete i hlt x hxi,
      findItem_eq_of_mem (h.nodup i hi) hxi, hxi⟩

theorem update_of_mem (h : WFA t) {x : Item} (hx : t.Mem x) (f : Nat → Option Nat) :
    (f x.data = none → t.update x.id f = (t, .error .ferr)) ∧
    (∀ d, f x.data = some d → ∃ l, (t.update x.id f).2 = .ok l ∧ WFA (t.update x.id f).1 ∧
      ∀ y, (t.update x.id f).1.Mem y ↔ (t.Mem y ∧ y.id ≠ x.id) ∨ y = ⟨x.id, d⟩) := by
  unfold T.update
  rcases h.locate hx with h1 | ⟨h1, l, hl, h2, h3, h4⟩
  · have hm := (findItem_some h1).1
    constructor
    · intro hf; simp [h1, hf]
    · intro d hf
      simp only [h1, hf]
      exact ⟨_, rfl, h.setP_replace d (Nat.le_refl _) ⟨x, hm, rfl⟩⟩
  · constructor
    · intro hf; simp [h1, h2, h3, hf]
    · intro d hf
      simp only [h1, h2, h3, hf]
      exact ⟨_, rfl, h.setP_replace d (by omega) ⟨x, h4, rfl⟩⟩

theorem update_of_not_has (h : WFA t) {id : Nat} (hn : ¬ t.Has id) (f : Nat → Option Nat) :
    t.update id f = (t, .error .notFound) := by
  obtain ⟨h1, h2, _⟩ := h.not_has hn
  simp [T.update, h1, h2]

theorem updateItem_of_mem (h : WFA t) {x : Item} (hx : t.Mem x) (d : Nat) :
    (t.updateItem ⟨x.id, d⟩).2 = .ok () ∧ WFA (t.updateItem ⟨x.id, d⟩).1 ∧
      ∀ y, (t.updateItem ⟨x.id, d⟩).1.Mem y ↔ (t.Mem y ∧ y.id ≠ x.id) ∨ y = ⟨x.id, d⟩ := by
  unfold T.updateItem
  rcases h.locate hx with h1 | ⟨h1, l, hl, h2, h3, h4⟩
  · have hm := (findItem_some h1).1
    simp only [h1]
    exact ⟨trivial, h.setP_replace d (Nat.le_refl _) ⟨x, hm, rfl⟩⟩
  · simp only [h1, h2, h3]
    exact ⟨trivial, h.setP_replace d (by omega) ⟨x, h4, rfl⟩⟩

theorem updateItem_of_not_has (h : WFA t) {it : Item} (hn : ¬ t.Has it.id) :
    t.updateItem it = (t, .error .notFound) := by
  obtain ⟨h1, h2, _⟩ := h.not_has hn
  simp [T.updateItem, h1, h2]

end WFA

/-- well formed except that the last partition may be empty (the state between cutting the tail and
`loadLastFromPrev`) -/
structure WFE (t : T) : Prop where
  size_pos : 1 ≤ t.size
  full : ∀ i, i < t.L → (t.P i).length = t.size
  last_le : (t.P t.L).length ≤ t.size
  nodup : ∀ i, i ≤ t.L → ((t.P i).map (·.id)).Nodup
  disj : ∀ i j, i ≤ t.L → j ≤ t.L → ∀ x ∈ t.P i, ∀ y ∈ t.P j, x.id = y.id → i = j
  loc_sound : ∀ id i, t.loc id = some i → i < t.L ∧ ∃ x ∈ t.P i, x.id = id
  loc_complete : ∀ i, i < t.L → ∀ x ∈ t.P i, t.loc x.id = some i

theorem WFA.toWFE {t : T} (h : WFA t) : WFE t :=
  ⟨h.size_pos, h.full, h.last_le, h.nodup, h.disj, h.loc_sound, h.loc_complete⟩

theorem WFE.toWFA {t : T} (h : WFE t) (hne : 0 < t.L → t.P t.L ≠ []) : WFA t :=
  ⟨h.size_pos, h.full, h.last_le, hne, h.nodup, h.disj, h.loc_sound, h.loc_complete⟩

/-- dropping an empty last partition: `loadLastFromPrev` -/
theorem WFE.drop_empty_last {t : T} (h : WFE t) (hL : 0 < t.L) (he : t.P t.L = []) :
    WFA t.loadLastFromPrev ∧ ∀ y, t.loadLastFromPrev.Mem y ↔ t.Mem y := by
  have hL0 : t.L ≠ 0 := by omega
  constructor
  · unfold T.loadLastFromPrev
    simp only [hL0, if_false]
    constructor
    · exact h.size_pos
    · intro i hi; simp only at hi ⊢; exact h.full i (by omega)
    · simp only; rw [h.full (t.L - 1) (by omega)]; exact Nat.le_refl _
    · intro _ hnil
      simp only at hnil
      have := h.full (t.L - 1) (by omega)
      rw [hnil] at this
      have := h.size_pos
      simp at *; omega
    · intro i hi; simp only at hi ⊢; exact h.nodup i (by omega)
    · intro i j hi hj; simp only at hi hj ⊢; exact h.disj i j (by omega) (by omega)
    · intro id i hloc
      simp only at hloc ⊢
      split at hloc
      · simp at hloc
      · rename_i hnone
        obtain ⟨hlt, x, hx, hid⟩ := h.loc_sound id i hloc
        refine ⟨?_, x, hx, hid⟩
        rcases Nat.lt_or_ge i (t.L - 1) with h' | h'
        · exact h'
        · have : i = t.L - 1 := by omega
          rw [this] at hx
          exact absurd hid (findItem_none.mp hnone x hx)
    · intro i hi x hx
      simp only at hi hx ⊢
      have : findItem (t.P (t.L - 1)) x.id = none := by
        rw [findItem_none]
        intro y hy hid
        have := h.disj i (t.L - 1) (by omega) (by omega) x hx y hy hid.symm
        omega
      simp only [this]
      exact h.loc_complete i (by omega) x hx
  · intro y
    unfold T.loadLastFromPrev
    simp only [hL0, if_false, T.Mem]
    constructor
    · rintro ⟨i, hi, hy⟩; exact ⟨i, by omega, hy⟩
    · rintro ⟨i, hi, hy⟩
      refine ⟨i, ?_, hy⟩
      rcases Nat.lt_or_ge i t.L with h' | h'
      · omega
      · have : i = t.L := by omega
        rw [this, he] at hy
        simp at hy

theorem T.loadLast_delLoc_comm (t : T) (id : Nat) :
    (t.loadLastFromPrev).delLoc id = (t.delLoc id).loadLastFromPrev := by
  unfold T.loadLastFromPrev T.delLoc
  split
  · rfl
  · simp only [T.mk.injEq, true_and]
    funext a
    simp only [upd_apply]
    split <;> split <;> simp_all

/-- finishing a removal: if the last partition became empty, drop it -/
theorem WFE.finish {t : T} (h : WFE t) :
    WFA (if (t.P t.L).length > 0 then t else t.loadLastFromPrev) ∧
    ∀ y, (if (t.P t.L).length > 0 then t else t.loadLastFromPrev).Mem y ↔ t.Mem y := by
  split
  · rename_i hpos
    exact ⟨h.toWFA (fun _ hnil => by rw [hnil] at hpos; simp at hpos), fun _ => Iff.rfl⟩
  · rename_i hpos
    have he : t.P t.L = [] := List.eq_nil_of_length_eq_zero (by omega)
    rcases Nat.eq_zero_or_pos t.L with h0 | h0
    · have : t.loadLastFromPrev = t := by simp [T.loadLastFromPrev, h0]
      rw [this]
      exact ⟨h.toWFA (fun hl => by omega), fun _ => Iff.rfl⟩
    · exact h.drop_empty_last h0 he

namespace WFA
variable {t : T}


/-- removing index `k` (the entry with `id`) from the last partition -/
theorem removeFromLast_core (h : WFA t) {id k : Nat} (hk : findIdx (t.P t.L) id = some k) :
    WFE (t.setP t.L (swapRemove (t.P t.L) k)) ∧
    ∀ y, (t.setP t.L (swapRemove (t.P t.L) k)).Mem y ↔ t.Mem y ∧ y.id ≠ id := by
  obtain ⟨hkl, hkid⟩ := findIdx_some hk
  have hnd := h.nodup t.L (Nat.le_refl _)
  have hmem := mem_swapRemove hkl hkid hnd
  have hlen := length_swapRemove (t.P t.L) k hkl
  constructor
  · constructor
    · exact h.size_pos
    · intro i hi
      simp only [T.setP, upd_apply] at hi ⊢
      simp only [show i ≠ t.L by omega, if_false]
      exact h.full i hi
    · simp only [T.setP, upd_apply, if_true]
      have := h.last_le
      omega
    · intro i hi
      simp only [T.setP, upd_apply] at hi ⊢
      split
      · exact nodup_swapRemove hkl hnd
      · exact h.nodup i hi
    · intro i j hi hj x hx y hy hid
      simp only [T.setP, upd_apply] at hi hj hx hy
      have := h.disj i j hi hj
      grind
    · intro a i hloc
      simp only [T.setP, upd_apply] at hloc ⊢
      obtain ⟨hlt, x, hx, hxa⟩ := h.loc_sound a i hloc
      exact ⟨hlt, x, by simp only [show i ≠ t.L by omega, if_false]; exact hx, hxa⟩
    · intro i hi x hx
      simp only [T.setP, upd_apply] at hi hx ⊢
      simp only [show i ≠ t.L by omega, if_false] at hx
      exact h.loc_complete i hi x hx
  · intro y
    simp only [T.Mem, T.setP, upd_apply]
    have hx0 : (t.P t.L)[k] ∈ t.P t.L := List.getElem_mem hkl
    constructor
    · rintro ⟨i, hi, hy⟩
      by_cases hil : i = t.L
      · simp only [hil, if_true] at hy
        exact ⟨⟨t.L, Nat.le_refl _, ((hmem y).mp hy).1⟩, ((hmem y).mp hy).2⟩
      · simp only [hil, if_false] at hy
        refine ⟨⟨i, hi, hy⟩, fun hid => hil ?_⟩
        exact h.disj i t.L hi (Nat.le_refl _) y hy _ hx0 (by rw [hid, hkid])
    · rintro ⟨⟨i, hi, hy⟩, hne⟩
      refine ⟨i, hi, ?_⟩
      by_cases hil : i = t.L
      · simp only [hil, if_true]; rw [hil] at hy; exact (hmem y).mpr ⟨hy, hne⟩
      · simp only [hil, if_false]; exact hy

end WFA

namespace WFA
variable {t : T}


theorem removeItem_core (h : WFA t) {id i k : Nat} {tl : Item} (hi : i < t.L)
    (hk : findIdx (t.P i) id = some k) (htl : (t.P t.L).getLast? = some tl)
    (hnl : findItem (t.P t.L) id = none) :
    WFE (((((t.setP i (swapRemove (t.P i) k)).setP t.L (t.P t.L).dropLast).setP i
            (swapRemove (t.P i) k ++ [tl])).setLoc tl.id i).delLoc id) ∧
    ∀ y, (((((t.setP i (swapRemove (t.P i) k)).setP t.L (t.P t.L).dropLast).setP i
            (swapRemove (t.P i) k ++ [tl])).setLoc tl.id i).delLoc id).Mem y ↔ t.Mem y ∧ y.id ≠ id := by
  obtain ⟨hkl, hkid⟩ := findIdx_some hk
  have hiL : i ≠ t.L := by omega
  have hndA := h.nodup i (by omega)
  have hndB := h.nodup t.L (Nat.le_refl _)
  have hmA := mem_swapRemove hkl hkid hndA
  have hlenA := length_swapRemove (t.P i) k hkl
  have hndS := nodup_swapRemove hkl hndA
  have hfull := h.full i hi
  have hB := eq_dropLast_append htl
  have hx0 : (t.P i)[k] ∈ t.P i := List.getElem_mem hkl
  have htlB : tl ∈ t.P t.L := by rw [hB]; simp
  have hmB : ∀ y, y ∈ t.P t.L ↔ y ∈ (t.P t.L).dropLast ∨ y = tl := by
    intro y; conv => lhs; rw [hB]
    simp
  have hndB' : ((t.P t.L).dropLast.map (·.id)).Nodup ∧ ∀ y ∈ (t.P t.L).dropLast, y.id ≠ tl.id := by
    rw [hB, List.map_append, List.nodup_append] at hndB
    refine ⟨hndB.1, fun y hy hid => hndB.2.2 y.id (List.mem_map.mpr ⟨y, hy, rfl⟩) tl.id (by simp) hid⟩
  have htlid : tl.id ≠ id := findItem_none.mp hnl tl htlB
  have htlA : ∀ y ∈ t.P i, y.id ≠ tl.id := fun y hy hid =>
    hiL (h.disj i t.L (by omega) (Nat.le_refl _) y hy tl htlB hid)
  -- closed forms
  have hP : ∀ j, (((((t.setP i (swapRemove (t.P i) k)).setP t.L (t.P t.L).dropLast).setP i
            (swapRemove (t.P i) k ++ [tl])).setLoc tl.id i).delLoc id).P j =
      if j = i then swapRemove (t.P i) k ++ [tl] else if j = t.L then (t.P t.L).dropLast else t.P j := by
    intro j
    simp only [T.setP, T.setLoc, T.delLoc, upd_apply]
    grind
  have hloc : ∀ a, (((((t.setP i (swapRemove (t.P i) k)).setP t.L (t.P t.L).dropLast).setP i
            (swapRemove (t.P i) k ++ [tl])).setLoc tl.id i).delLoc id).loc a =
      if a = id then none else if a = tl.id then some i else t.loc a := by
    intro a
    simp only [T.setP, T.setLoc, T.delLoc, upd_apply]
  have hL6 : (((((t.setP i (swapRemove (t.P i) k)).setP t.L (t.P t.L).dropLast).setP i
            (swapRemove (t.P i) k ++ [tl])).setLoc tl.id i).delLoc id).L = t.L := rfl
  have hS6 : (((((t.setP i (swapRemove (t.P i) k)).setP t.L (t.P t.L).dropLast).setP i
            (swapRemove (t.P i) k ++ [tl])).setLoc tl.id i).delLoc id).size = t.size := rfl
  generalize ((((t.setP i (swapRemove (t.P i) k)).setP t.L (t.P t.L).dropLast).setP i
            (swapRemove (t.P i) k ++ [tl])).setLoc tl.id i).delLoc id = t6 at hP hloc hL6 hS6 ⊢
  have hsz := h.size_pos
  have hlast := h.last_le
  constructor
  · constructor
    · rw [hS6]; exact hsz
    · intro j hj
      rw [hL6] at hj
      rw [hP, hS6]
      have := h.full j hj
      split
      · simp; omega
      · simp only [show j ≠ t.L by omega, if_false]; exact this
    · rw [hL6, hP, hS6]
      simp only [show t.L ≠ i by omega, if_false, if_true, List.length_dropLast]
      omega
    · intro j hj
      rw [hL6] at hj
      rw [hP]
      split
      · rw [List.map_append, List.nodup_append]
        refine ⟨hndS, by simp, ?_⟩
        intro a ha b hb
        simp at hb; subst hb
        obtain ⟨y, hy, rfl⟩ := List.mem_map.mp ha
        exact htlA y ((hmA y).mp hy).1
      · split
        · exact hndB'.1
        · exact h.nodup j hj
    · have orig : ∀ j, j ≤ t.L → ∀ z, z ∈ t6.P j →
          ∃ j', j' ≤ t.L ∧ z ∈ t.P j' ∧ (z ≠ tl → j' = j) ∧ (z = tl → j = i) := by
        intro j hj z hz
        rw [hP] at hz
        split at hz
        · simp at hz
          rcases hz with hz | rfl
          · exact ⟨i, by omega, ((hmA z).mp hz).1, fun _ => by omega, fun _ => by assumption⟩
          · exact ⟨t.L, Nat.le_refl _, htlB, fun hne => absurd rfl hne, fun _ => by assumption⟩
        · split at hz
          · refine ⟨t.L, Nat.le_refl _, (hmB z).mpr (Or.inl hz), fun _ => by omega, fun heq => ?_⟩
            exact absurd (by rw [heq]) (hndB'.2 z hz)
          · refine ⟨j, hj, hz, fun _ => rfl, fun heq => ?_⟩
            rw [heq] at hz
            have := h.disj j t.L hj (Nat.le_refl _) tl hz tl htlB rfl
            contradiction
      intro j1 j2 hj1 hj2 x hx y hy hid
      rw [hL6] at hj1 hj2
      obtain ⟨a1, ha1, hxa, hx1, hx2⟩ := orig j1 hj1 x hx
      obtain ⟨a2, ha2, hya, hy1, hy2⟩ := orig j2 hj2 y hy
      have hxy : x = y := h.mem_unique ⟨a1, ha1, hxa⟩ ⟨a2, ha2, hya⟩ hid
      subst hxy
      have ha := h.disj a1 a2 ha1 ha2 x hxa x hya rfl
      by_cases hxt : x = tl
      · rw [hx2 hxt, hy2 hxt]
      · rw [← hx1 hxt, ← hy1 hxt, ha]
    · intro a j hl
      rw [hloc] at hl
      rw [hL6]
      by_cases ha1 : a = id
      · simp [ha1] at hl
      · by_cases ha2 : a = tl.id
        · simp only [ha2, htlid, if_false, if_true, Option.some.injEq] at hl
          subst hl
          exact ⟨hi, tl, by rw [hP]; simp, ha2.symm⟩
        · simp only [ha1, ha2, if_false] at hl
          obtain ⟨hlt, x, hx, hxa⟩ := h.loc_sound a j hl
          refine ⟨hlt, x, ?_, hxa⟩
          rw [hP]
          split
          · subst_vars; simp; exact Or.inl ((hmA x).mpr ⟨hx, by omega⟩)
          · simp only [show j ≠ t.L by omega, if_false]; exact hx
    · intro j hj x hx
      rw [hL6] at hj
      rw [hP] at hx
      rw [hloc]
      have hc := h.loc_complete j hj
      split at hx
      · subst_vars
        simp at hx
        rcases hx with hx | rfl
        · have := (hmA x).mp hx
          simp only [this.2, if_false, htlA x this.1]
          exact h.loc_complete j hj x this.1
        · simp [htlid]
      · simp only [show j ≠ t.L by omega, if_false] at hx
        have h1 : x.id ≠ id := fun hid => by
          have := h.disj j i (by omega) (by omega) x hx _ hx0 (by rw [hid, hkid])
          contradiction
        have h2 : x.id ≠ tl.id := fun hid => by
          have := h.disj j t.L (by omega) (Nat.le_refl _) x hx tl htlB hid
          omega
        simp only [h1, h2, if_false]
        exact hc x hx
  · intro y
    simp only [T.Mem, hL6, hP]
    constructor
    · rintro ⟨j, hj, hy⟩
      split at hy
      · subst_vars
        simp at hy
        rcases hy with hy | rfl
        · exact ⟨⟨j, hj, ((hmA y).mp hy).1⟩, ((hmA y).mp hy).2⟩
        · exact ⟨⟨t.L, Nat.le_refl _, htlB⟩, htlid⟩
      · split at hy
        · subst_vars
          have hyB := (hmB y).mpr (Or.inl hy)
          exact ⟨⟨t.L, Nat.le_refl _, hyB⟩, findItem_none.mp hnl y hyB⟩
        · refine ⟨⟨j, hj, hy⟩, fun hid => ?_⟩
          have := h.disj j i hj (by omega) y hy _ hx0 (by rw [hid, hkid])
          contradiction
    · rintro ⟨⟨j, hj, hy⟩, hne⟩
      by_cases hji : j = i
      · subst hji
        exact ⟨j, hj, by simp; exact Or.inl ((hmA y).mpr ⟨hy, hne⟩)⟩
      · by_cases hjL : j = t.L
        · rw [hjL] at hy
          rcases (hmB y).mp hy with hy' | rfl
          · exact ⟨t.L, Nat.le_refl _, by simp [show t.L ≠ i by omega]; exact hy'⟩
          · exact ⟨i, by omega, by simp⟩
        · exact ⟨j, hj, by simp [hji, hjL]; exact hy⟩

end WFA

namespace WFA
variable {t : T}


theorem remove_of_not_has (h : WFA t) {id : Nat} (hn : ¬ t.Has id) : t.remove id = (t, .error .notFound) := by
  obtain ⟨h1, h2, _⟩ := h.not_has hn
  simp [T.remove, findIdx_findItem.mpr h1, h2]

theorem remove_of_mem (h : WFA t) {x : Item} (hx : t.Mem x) :
    (t.remove x.id).2 = .ok () ∧ WFA (t.remove x.id).1 ∧
      ∀ y, (t.remove x.id).1.Mem y ↔ t.Mem y ∧ y.id ≠ x.id := by
  unfold T.remove
  rcases h.locate hx with h1 | ⟨h1, l, hl, h2, h3, h4⟩
  · cases hk : findIdx (t.P t.L) x.id with
    | none => rw [findIdx_findItem.mp hk] at h1; simp at h1
    | some k =>
      simp only
      obtain ⟨he, hm⟩ := h.removeFromLast_core hk
      have hf := he.finish
      refine ⟨trivial, ?_, ?_⟩
      · exact hf.1
      · intro y; rw [← hm y]; exact hf.2 y
  · rw [findIdx_findItem.mpr h1]
    simp only [h2]
    cases hk : findIdx (t.P l) x.id with
    | none => rw [findIdx_findItem.mp hk] at h3; simp at h3
    | some k =>
      have hne : t.P t.L ≠ [] := h.last_ne (by omega)
      cases htl : (t.P t.L).getLast? with
      | none => simp at htl; exact absurd htl hne
      | some tl =>
        obtain ⟨he, hm⟩ := h.removeItem_core hl hk htl h1
        have hf := he.finish
        have heq : (t.removeItem x.id l).delLoc x.id =
            (if ((((((t.setP l (swapRemove (t.P l) k)).setP t.L (t.P t.L).dropLast).setP l
                (swapRemove (t.P l) k ++ [tl])).setLoc tl.id l).delLoc x.id).P
                  (((((t.setP l (swapRemove (t.P l) k)).setP t.L (t.P t.L).dropLast).setP l
                (swapRemove (t.P l) k ++ [tl])).setLoc tl.id l).delLoc x.id).L).length > 0
             then ((((t.setP l (swapRemove (t.P l) k)).setP t.L (t.P t.L).dropLast).setP l
                (swapRemove (t.P l) k ++ [tl])).setLoc tl.id l).delLoc x.id
             else (((((t.setP l (swapRemove (t.P l) k)).setP t.L (t.P t.L).dropLast).setP l
                (swapRemove (t.P l) k ++ [tl])).setLoc tl.id l).delLoc x.id).loadLastFromPrev) := by
          unfold T.removeItem
          simp only [hk, htl]
          split
          · rename_i hc
            rw [if_pos (by simpa [T.delLoc] using hc)]
          · rename_i hc
            rw [if_neg (by simpa [T.delLoc] using hc), T.loadLast_delLoc_comm]
        refine ⟨trivial, ?_, ?_⟩
        · rw [heq]; exact hf.1
        · intro y; rw [heq, ← hm y]; exact hf.2 y

end WFA

namespace WFA
variable {t : T}


/-- the location node of the removed id survives `removeItem` (it is deleted afterwards by `Remove`) -/
theorem removeItem_loc_id (h : WFA t) {id i : Nat} (hl : t.loc id = some i)
    (hnl : findItem (t.P t.L) id = none) : (t.removeItem id i).loc id = some i := by
  obtain ⟨hlt, y, hy, hyid⟩ := h.loc_sound id i hl
  unfold T.removeItem
  cases hk : findIdx (t.P i) id with
  | none => exact absurd hyid (findIdx_none.mp hk y hy)
  | some k =>
    have hne : t.P t.L ≠ [] := h.last_ne (by omega)
    cases htl : (t.P t.L).getLast? with
    | none => simp at htl; exact absurd htl hne
    | some tl =>
      simp only
      obtain ⟨hwe, hm⟩ := h.removeItem_core hlt hk htl hnl
      have h5 : ((((t.setP i (swapRemove (t.P i) k)).setP t.L (t.P t.L).dropLast).setP i
          (swapRemove (t.P i) k ++ [tl])).setLoc tl.id i).loc id = some i := by
        simp only [T.setLoc, T.setP, upd_apply]
        split
        · rfl
        · exact hl
      split
      · exact h5
      · unfold T.loadLastFromPrev
        split
        · exact h5
        · simp only
          have : findItem (((((t.setP i (swapRemove (t.P i) k)).setP t.L (t.P t.L).dropLast).setP i
              (swapRemove (t.P i) k ++ [tl])).setLoc tl.id i).P
              (((((t.setP i (swapRemove (t.P i) k)).setP t.L (t.P t.L).dropLast).setP i
              (swapRemove (t.P i) k ++ [tl])).setLoc tl.id i).L - 1)) id = none := by
            rw [findItem_none]
            intro z hz
            exact ((hm z).mp ⟨t.L - 1, by simp [T.delLoc, T.setLoc, T.setP], hz⟩).2
          rw [this]
          exact h5

end WFA

/-- the `for requiredCount != 0` loop of `GetRandomItems` on the table -/
def T.randLoop (t : T) : Nat → Nat → Nat → Nat → List Item → Res (List Item)
  | 0, _, _, _, _ => .error .hang
  | fuel + 1, req, pi, ii, acc =>
    if req = 0 then .ok acc
    else if pi > t.L then .error .overflow
    else
      let items := t.P pi
      if ii + req > items.length then
        match itemRange items ii items.length with
        | .error e => .error e
        | .ok res => t.randLoop fuel (req - (items.length - ii)) (if pi = t.L then 0 else pi + 1) 0 (acc ++ res)
      else
        match itemRange items ii (ii + req) with
        | .error e => .error e
        | .ok res => .ok (acc ++ res)

/-- `GetRandomItems` on the table -/
def T.getRandomItems (t : T) (e : Nat) : Res (List Item) :=
  if (t.P t.L).length = 0 then .error .empty
  else
    let total := t.L * t.size + (t.P t.L).length
    let req := if total < t.size then total else t.size
    if t.size = 0 then .error .panic
    else t.randLoop ((req + 1) * (t.L + 2) + 1) req (e / t.size) (e % t.size) []

/-- partitions `a … a+b-1`, concatenated -/
def T.seg (t : T) (a b : Nat) : List Item := (List.range' a b).flatMap t.P

theorem T.seg_succ (t : T) (a b : Nat) : t.seg a (b + 1) = t.P a ++ t.seg (a + 1) b := by
  simp [T.seg, List.range'_succ]

theorem T.seg_append (t : T) (a b c : Nat) : t.seg a b ++ t.seg (a + b) c = t.seg a (b + c) := by
  simp only [T.seg, ← List.flatMap_append, List.range'_append_1]

theorem T.items_eq_seg (t : T) : t.items = t.seg 0 (t.L + 1) := by
  simp [T.items, T.seg, List.range_eq_range']

namespace WFA
variable {t : T}

theorem length_seg0 (h : WFA t) (n : Nat) (hn : n ≤ t.L) : (t.seg 0 n).length = n * t.size := by
  have := length_range_flatMap t.P t.size n (fun i hi => h.full i (by omega))
  simpa [T.seg, List.range_eq_range'] using this

/-- the item list, cut at the start of partition `pi` -/
theorem items_split (h : WFA t) (pi : Nat) (hpi : pi ≤ t.L) :
    t.items = t.seg 0 pi ++ (t.P pi ++ t.seg (pi + 1) (t.L - pi)) := by
  rw [T.items_eq_seg, ← T.seg_succ]
  have := t.seg_append 0 pi (t.L - pi + 1)
  simp only [Nat.zero_add] at this
  rw [this]
  congr 1
  omega

theorem drop_items2 (h : WFA t) (pi ii : Nat) (hpi : pi ≤ t.L) (hii : ii ≤ (t.P pi).length) :
    (t.items ++ t.items).drop (pi * t.size + ii) =
      (t.P pi).drop ii ++ (t.seg (pi + 1) (t.L - pi) ++ t.items) := by
  conv => lhs; arg 2; arg 1; rw [h.items_split pi hpi]
  rw [List.append_assoc, ← h.length_seg0 pi hpi, List.drop_length_add_append, List.append_assoc,
    List.drop_append_of_le_length hii]

theorem parts_nonempty (h : WFA t) (hne : t.items ≠ []) (i : Nat) (hi : i ≤ t.L) : 0 < (t.P i).length := by
  rcases Nat.lt_or_ge i t.L with h1 | h1
  · rw [h.full i h1]; exact h.size_pos
  · have : i = t.L := by omega
    subst this
    rcases Nat.eq_zero_or_pos t.L with h0 | h0
    · cases hp : t.P t.L with
      | nil =>
        exfalso; apply hne
        simp [T.items, h0]
        rw [h0] at hp; exact hp
      | cons x r => simp
    · have := h.last_ne h0
      cases hp : t.P t.L with
      | nil => exact absurd hp this
      | cons x r => simp

theorem randLoop_spec (h : WFA t) (hne : t.items ≠ []) :
    ∀ (fuel req pi ii : Nat) (acc : List Item), req < fuel → req ≤ t.items.length → pi ≤ t.L →
      ii < (t.P pi).length →
      t.randLoop fuel req pi ii acc = .ok (acc ++ ((t.items ++ t.items).drop (pi * t.size + ii)).take req) := by
  intro fuel
  induction fuel with
  | zero => intro req pi ii acc hf; omega
  | succ fuel ih =>
    intro req pi ii acc hf hreq hpi hii
    unfold T.randLoop
    by_cases h0 : req = 0
    · simp [h0]
    · simp only [h0, if_false, show ¬ pi > t.L by omega]
      rw [h.drop_items2 pi ii hpi (by omega)]
      by_cases hc : ii + req > (t.P pi).length
      · simp only [hc, if_true, itemRange]
        simp only [show ¬(ii > (t.P pi).length ∨ (t.P pi).length > (t.P pi).length) by omega, if_false]
        have hres : List.take ((t.P pi).length - ii) (List.drop ii (t.P pi)) = List.drop ii (t.P pi) :=
          List.take_of_length_le (by simp)
        rw [hres]
        have hpi' : (if pi = t.L then 0 else pi + 1) ≤ t.L := by split <;> omega
        rw [ih _ _ 0 _ (by omega) (by omega) hpi' (h.parts_nonempty hne _ hpi')]
        congr 1
        rw [List.append_assoc]
        congr 1
        rw [List.take_append, List.take_of_length_le (l := List.drop ii (t.P pi)) (i := req) (by simp; omega)]
        congr 1
        simp only [List.length_drop, Nat.add_zero]
        by_cases hpl : pi = t.L
        · simp only [hpl, if_true, Nat.sub_self, Nat.zero_mul, List.drop_zero]
          have : t.seg (t.L + 1) 0 = [] := by simp [T.seg]
          rw [this, List.nil_append, List.take_append_of_le_length (by omega)]
        · simp only [hpl, if_false]
          have := h.drop_items2 (pi + 1) 0 (by omega) (by omega)
          simp only [Nat.add_zero, List.drop_zero] at this
          rw [this, ← List.append_assoc, ← T.seg_succ]
          congr 3
          omega
      · simp only [hc, if_false, itemRange]
        rw [List.take_append_of_le_length (by simp; omega)]
        have h1 : ¬ (ii > ii + req) := by omega
        simp only [h1, or_false, if_false, show ii + req - ii = req by omega]

end WFA
/-- a window of length `r ≤ |A|` of the doubled list, starting inside the first copy: no duplicates, only
members, exactly `r` elements -/
theorem window_props {α : Type} (A : List α) (hn : A.Nodup) (e r : Nat) (he : e < A.length) (hr : r ≤ A.length) :
    (((A ++ A).drop e).take r).Nodup ∧ (∀ x ∈ ((A ++ A).drop e).take r, x ∈ A) ∧
      (((A ++ A).drop e).take r).length = r := by
  refine ⟨?_, ?_, ?_⟩
  · rw [List.drop_append_of_le_length (by omega), List.take_append]
    have hsub : (List.take r (List.drop e A) ++ List.take (r - (List.drop e A).length) A).Sublist
        (List.drop e A ++ List.take e A) := by
      apply List.Sublist.append (List.take_sublist _ _)
      apply List.take_sublist_take_left
      simp only [List.length_drop]; omega
    apply List.Nodup.sublist hsub
    have : (List.drop e A ++ List.take e A).Perm A := by
      have := List.perm_append_comm (l₁ := List.drop e A) (l₂ := List.take e A)
      rw [List.take_append_drop] at this
      exact this
    exact this.nodup_iff.mpr hn
  · intro x hx
    have := List.mem_of_mem_drop (List.mem_of_mem_take hx)
    simpa using this
  · simp only [List.length_take, List.length_drop, List.length_append]; omega

namespace WFA
variable {t : T}

theorem items_nil_iff (h : WFA t) : t.items = [] ↔ (t.P t.L).length = 0 := by
  constructor
  · intro he
    have := h.length_items
    rw [he] at this; simp at this; omega
  · intro h0
    have := h.sizeOf_eq
    simp only [T.sizeOf, h0, if_true] at this
    exact List.eq_nil_of_length_eq_zero this.symm

theorem getRandomItems_empty (h : WFA t) (e : Nat) (he : t.items = []) :
    t.getRandomItems e = .error .empty := by
  simp [T.getRandomItems, h.items_nil_iff.mp he]

theorem getRandomItems_spec (h : WFA t) (e : Nat) (hne : t.items ≠ []) (he : e < t.items.length) :
    t.getRandomItems e = .ok (((t.items ++ t.items).drop e).take (min t.size t.items.length)) := by
  have hlen := h.length_items
  have hsz := h.size_pos
  have hl0 : (t.P t.L).length ≠ 0 := fun h0 => hne (h.items_nil_iff.mpr h0)
  unfold T.getRandomItems
  simp only [hl0, if_false, show t.size ≠ 0 by omega, ← hlen]
  have hreq : (if t.items.length < t.size then t.items.length else t.size) = min t.size t.items.length := by
    split <;> omega
  rw [hreq]
  have hmul : e / t.size * t.size ≤ e := Nat.div_mul_le_self e t.size
  have hdm : e / t.size * t.size + e % t.size = e := by
    have := Nat.div_add_mod e t.size; rw [Nat.mul_comm] at this; exact this
  have hmod : e % t.size < t.size := Nat.mod_lt _ (by omega)
  have hlast := h.last_le
  have hpi : e / t.size ≤ t.L := by
    have : e / t.size < t.L + 1 := by
      rw [Nat.div_lt_iff_lt_mul (by omega)]
      rw [hlen] at he
      have : (t.L + 1) * t.size = t.L * t.size + t.size := by rw [Nat.add_mul]; simp
      omega
    omega
  have hii : e % t.size < (t.P (e / t.size)).length := by
    rcases Nat.lt_or_ge (e / t.size) t.L with h1 | h1
    · rw [h.full _ h1]; exact hmod
    · have h2 : e / t.size = t.L := by omega
      rw [h2] at hdm ⊢
      rw [hlen] at he
      omega
  rw [h.randLoop_spec hne _ _ _ _ [] ?_ (by omega) hpi hii, hdm]
  · simp
  · have : min t.size t.items.length + 1 ≤ (min t.size t.items.length + 1) * (t.L + 2) :=
      Nat.le_mul_of_pos_right _ (by omega)
    omega

/-- **random sampling**: distinct members, `min(size, card)` of them -/
theorem getRandomItems_props (h : WFA t) (e : Nat) (hne : t.items ≠ []) (he : e < t.items.length) :
    ∃ xs, t.getRandomItems e = .ok xs ∧ (xs.map (·.id)).Nodup ∧ (∀ x ∈ xs, t.Mem x) ∧
      xs.length = min t.size t.items.length := by
  refine ⟨_, h.getRandomItems_spec e hne he, ?_, ?_, ?_⟩
  · have hw := window_props (t.items.map (·.id)) h.nodup_items e (min t.size t.items.length)
      (by simpa using he) (by simp; omega)
    have : (((t.items ++ t.items).drop e).take (min t.size t.items.length)).map (·.id) =
        (((t.items.map (·.id)) ++ (t.items.map (·.id))).drop e).take (min t.size t.items.length) := by
      simp [List.map_take, List.map_drop]
    rw [this]
    exact hw.1
  · intro x hx
    rw [← T.mem_items]
    have := List.mem_of_mem_drop (List.mem_of_mem_take hx)
    simpa using this
  · simp only [List.length_take, List.length_drop, List.length_append]; omega

end WFA
namespace T
variable (t : T)

@[simp] theorem size_setP (i : Nat) (l : List Item) : (t.setP i l).size = t.size := rfl
@[simp] theorem size_setLoc (a b : Nat) : (t.setLoc a b).size = t.size := rfl
@[simp] theorem size_delLoc (a : Nat) : (t.delLoc a).size = t.size := rfl
@[simp] theorem size_pack : t.pack.size = t.size := rfl
@[simp] theorem size_loadLastFromPrev : t.loadLastFromPrev.size = t.size := by
  unfold loadLastFromPrev; split <;> rfl

theorem size_addX (it : Item) : (t.addX it).1.size = t.size := by
  unfold addX
  split
  · rfl
  · split
    · rfl
    · simp only [size_setP]; split <;> simp

theorem size_updateItem (it : Item) : (t.updateItem it).1.size = t.size := by
  unfold updateItem
  repeat' split
  all_goals simp

theorem size_update (id : Nat) (f : Nat → Option Nat) : (t.update id f).1.size = t.size := by
  unfold update
  repeat' split
  all_goals simp

theorem size_removeFromLast (k : Nat) : (t.removeFromLast k).size = t.size := by
  unfold removeFromLast
  simp only
  split <;> simp

theorem size_removeItem (id i : Nat) : (t.removeItem id i).size = t.size := by
  unfold removeItem
  split
  · simp only; split <;> simp
  · rfl

theorem size_remove (id : Nat) : (t.remove id).1.size = t.size := by
  unfold remove
  split
  · exact size_removeFromLast t _
  · split
    · rfl
    · simp [size_removeItem]

end T
end ZChain.Partitions
