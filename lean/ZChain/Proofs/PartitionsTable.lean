import ZChain.Proofs.Partitions
/-!
C25, table level. A state of the partitions code is viewed as a *table*: the number `L` of the last
partition, the content `P i` of every partition `i ≤ L` and the location index `loc` (the location
nodes). The table operations below are what the methods of the model do to this view (shown in
`Proofs/PartitionsImpl.lean`); here: they keep the table well formed and act on the member set as a set.
-/
namespace ZChain.Partitions

structure T where
  size : Nat
  L : Nat
  P : Nat → List Item
  loc : Nat → Option Nat

def upd {α : Type} (f : Nat → α) (k : Nat) (v : α) : Nat → α := fun j => if j = k then v else f j

@[simp] theorem upd_same {α : Type} (f : Nat → α) (k : Nat) (v : α) : upd f k v k = v := by simp [upd]
theorem upd_other {α : Type} (f : Nat → α) {k j : Nat} (v : α) (h : j ≠ k) : upd f k v j = f j := by simp [upd, h]
theorem upd_apply {α : Type} (f : Nat → α) (k j : Nat) (v : α) : upd f k v j = if j = k then v else f j := rfl

namespace T

def setP (t : T) (i : Nat) (items : List Item) : T := { t with P := upd t.P i items }
def setLoc (t : T) (id i : Nat) : T := { t with loc := upd t.loc id (some i) }
def delLoc (t : T) (id : Nat) : T := { t with loc := upd t.loc id none }

/-- `pack` -/
def pack (t : T) : T :=
  { t with L := t.L + 1, P := upd t.P (t.L + 1) [],
           loc := fun id => match findItem (t.P t.L) id with
             | some _ => some t.L
             | none => t.loc id }

/-- `AddX` -/
def addX (t : T) (it : Item) : T × Res Nat :=
  match t.loc it.id with
  | some _ => (t, .error .exists_)
  | none =>
    match findItem (t.P t.L) it.id with
    | some _ => (t, .error .exists_)
    | none =>
      let t1 := if (t.P t.L).length = t.size then t.pack else t
      (t1.setP t1.L (t1.P t1.L ++ [it]), .ok t1.L)

/-- `Get` -/
def get (t : T) (id : Nat) : Res (Nat × Nat) :=
  match findItem (t.P t.L) id with
  | some it => .ok (t.L, it.data)
  | none =>
    match t.loc id with
    | none => .error .notFound
    | some l =>
      match findItem (t.P l) id with
      | none => .error .notPresent
      | some it => .ok (l, it.data)

/-- `UpdateItem` -/
def updateItem (t : T) (it : Item) : T × Res Unit :=
  match findItem (t.P t.L) it.id with
  | some _ => (t.setP t.L (replaceData (t.P t.L) it.id it.data), .ok ())
  | none =>
    match t.loc it.id with
    | none => (t, .error .notFound)
    | some l =>
      match findItem (t.P l) it.id with
      | none => (t, .error .partNotFound)
      | some _ => (t.setP l (replaceData (t.P l) it.id it.data), .ok ())

/-- `Update` -/
def update (t : T) (id : Nat) (f : Nat → Option Nat) : T × Res Nat :=
  match findItem (t.P t.L) id with
  | some v =>
    match f v.data with
    | none => (t, .error .ferr)
    | some d => (t.setP t.L (replaceData (t.P t.L) id d), .ok t.L)
  | none =>
    match t.loc id with
    | none => (t, .error .notFound)
    | some l =>
      match findItem (t.P l) id with
      | none => (t, .error .notFound)
      | some v =>
        match f v.data with
        | none => (t, .error .ferr)
        | some d => (t.setP l (replaceData (t.P l) id d), .ok l)

/-- `loadLastFromPrev` -/
def loadLastFromPrev (t : T) : T :=
  if t.L = 0 then t
  else { t with L := t.L - 1,
                loc := fun id => match findItem (t.P (t.L - 1)) id with
                  | some _ => none
                  | none => t.loc id }

/-- `removeFromLast` -/
def removeFromLast (t : T) (k : Nat) : T :=
  let t1 := t.setP t.L (swapRemove (t.P t.L) k)
  if (t1.P t1.L).length > 0 then t1 else t1.loadLastFromPrev

/-- `removeItem` for `i < L` (swap with the tail of the last partition) -/
def removeItem (t : T) (id i : Nat) : T :=
  match findIdx (t.P i) id, (t.P t.L).getLast? with
  | some k, some tl =>
    let t5 := (((t.setP i (swapRemove (t.P i) k)).setP t.L (t.P t.L).dropLast).setP i
                (swapRemove (t.P i) k ++ [tl])).setLoc tl.id i
    if (t5.P t5.L).length > 0 then t5 else t5.loadLastFromPrev
  | _, _ => t

/-- `Remove` -/
def remove (t : T) (id : Nat) : T × Res Unit :=
  match findIdx (t.P t.L) id with
  | some k => (t.removeFromLast k, .ok ())
  | none =>
    match t.loc id with
    | none => (t, .error .notFound)
    | some i => ((t.removeItem id i).delLoc id, .ok ())

/-- `Exist` -/
def exist (t : T) (id : Nat) : Bool :=
  match findItem (t.P t.L) id with
  | some _ => true
  | none => (t.loc id).isSome

/-- `Size` -/
def sizeOf (t : T) : Nat := if (t.P t.L).length = 0 then 0 else t.L * t.size + (t.P t.L).length

/-- all items in `ForEach` order -/
def items (t : T) : List Item := (List.range (t.L + 1)).flatMap t.P

/-- what `ForEach` (never stopping) visits -/
def visits (t : T) : List (Nat × Item) := (List.range (t.L + 1)).flatMap fun i => (t.P i).map fun x => (i, x)

/-- membership in the table -/
def Mem (t : T) (x : Item) : Prop := ∃ i, i ≤ t.L ∧ x ∈ t.P i

/-- some member carries the id -/
def Has (t : T) (id : Nat) : Prop := ∃ x, t.Mem x ∧ x.id = id

end T

/-- well-formed tables -/
structure WFA (t : T) : Prop where
  size_pos : 1 ≤ t.size
  full : ∀ i, i < t.L → (t.P i).length = t.size
  last_le : (t.P t.L).length ≤ t.size
  last_ne : 0 < t.L → t.P t.L ≠ []
  nodup : ∀ i, i ≤ t.L → ((t.P i).map (·.id)).Nodup
  disj : ∀ i j, i ≤ t.L → j ≤ t.L → ∀ x ∈ t.P i, ∀ y ∈ t.P j, x.id = y.id → i = j
  loc_sound : ∀ id i, t.loc id = some i → i < t.L ∧ ∃ x ∈ t.P i, x.id = id
  loc_complete : ∀ i, i < t.L → ∀ x ∈ t.P i, t.loc x.id = some i

theorem T.mem_items (t : T) (x : Item) : x ∈ t.items ↔ t.Mem x := by
  simp only [T.items, List.mem_flatMap, List.mem_range, T.Mem]
  constructor
  · rintro ⟨i, hi, hx⟩; exact ⟨i, by omega, hx⟩
  · rintro ⟨i, hi, hx⟩; exact ⟨i, by omega, hx⟩

namespace WFA
variable {t : T}

/-- two members with the same id are the same item -/
theorem mem_unique (h : WFA t) {x y : Item} (hx : t.Mem x) (hy : t.Mem y) (hid : x.id = y.id) : x = y := by
  obtain ⟨i, hi, hxi⟩ := hx
  obtain ⟨j, hj, hyj⟩ := hy
  have := h.disj i j hi hj x hxi y hyj hid
  subst this
  have h1 := findItem_eq_of_mem (h.nodup i hi) hxi
  have h2 := findItem_eq_of_mem (h.nodup i hi) hyj
  rw [hid] at h1
  rw [h1] at h2
  exact Option.some.inj h2

/-- an id is held iff it is in the last partition or has a location -/
theorem has_iff (h : WFA t) (id : Nat) :
    t.Has id ↔ (∃ x, findItem (t.P t.L) id = some x) ∨ (∃ i, t.loc id = some i) := by
  constructor
  · rintro ⟨x, ⟨i, hi, hxi⟩, rfl⟩
    by_cases hl : i = t.L
    · subst hl; exact Or.inl (findItem_isSome.mpr ⟨x, hxi, rfl⟩)
    · exact Or.inr ⟨i, h.loc_complete i (by omega) x hxi⟩
  · rintro (⟨x, hx⟩ | ⟨i, hi⟩)
    · obtain ⟨hm, hid⟩ := findItem_some hx
      exact ⟨x, ⟨t.L, Nat.le_refl _, hm⟩, hid⟩
    · obtain ⟨hlt, x, hx, hid⟩ := h.loc_sound id i hi
      exact ⟨x, ⟨i, by omega, hx⟩, hid⟩

theorem not_has (h : WFA t) {id : Nat} (hn : ¬ t.Has id) :
    findItem (t.P t.L) id = none ∧ t.loc id = none ∧ ∀ i, i ≤ t.L → ∀ x ∈ t.P i, x.id ≠ id := by
  refine ⟨?_, ?_, ?_⟩
  · cases hf : findItem (t.P t.L) id with
    | none => rfl
    | some x => exact absurd ((h.has_iff id).mpr (Or.inl ⟨x, hf⟩)) hn
  · cases hf : t.loc id with
    | none => rfl
    | some i => exact absurd ((h.has_iff id).mpr (Or.inr ⟨i, hf⟩)) hn
  · intro i hi x hx hid
    exact hn ⟨x, ⟨i, hi, hx⟩, hid⟩

theorem addX_exists (h : WFA t) (it : Item) (hh : t.Has it.id) : t.addX it = (t, .error .exists_) := by
  unfold T.addX
  rcases (h.has_iff it.id).mp hh with ⟨x, hx⟩ | ⟨i, hi⟩
  · rw [hx]; cases t.loc it.id <;> rfl
  · rw [hi]

theorem addX_new (h : WFA t) (it : Item) (hn : ¬ t.Has it.id) :
    ∃ l, (t.addX it).2 = .ok l ∧ WFA (t.addX it).1 ∧ ∀ x, (t.addX it).1.Mem x ↔ t.Mem x ∨ x = it := by
  obtain ⟨h1, h2, h3⟩ := h.not_has hn
  unfold T.addX
  simp only [h1, h2]
  by_cases hp : (t.P t.L).length = t.size
  · simp only [hp, if_true]
    refine ⟨_, rfl, ?_, ?_⟩
    · have hl := h.last_le
      constructor
      · exact h.size_pos
      · intro i hi
        simp only [T.setP, T.pack, upd_apply] at hi ⊢
        have := h.full i
        grind
      · simp [T.setP, T.pack, upd_apply]; exact h.size_pos
      · simp [T.setP, T.pack, upd_apply]
      · intro i hi
        simp only [T.setP, T.pack, upd_apply] at hi ⊢
        have := h.nodup i
        grind
      · intro i j hi hj x hx y hy hid
        simp only [T.setP, T.pack, upd_apply] at hi hj hx hy
        have := h.disj i j
        have := h3 i
        have := h3 j
        grind
      · intro id i hloc
        simp only [T.setP, T.pack, upd_apply] at hloc ⊢
        have := h.loc_sound id i
        split at hloc
        · rename_i x hx
          have := findItem_some hx
          grind
        · grind
      · intro i hi x hx
        simp only [T.setP, T.pack, upd_apply] at hi hx ⊢
        have hc := h.loc_complete i
        by_cases hil : i = t.L
        · have : i ≠ t.L + 1 := by omega
          simp only [this, if_false] at hx
          rw [hil] at hx
          obtain ⟨y, hy⟩ := findItem_isSome.mpr ⟨x, hx, rfl⟩
          simp [hy, hil]
        · have hilt : i < t.L := by omega
          have : i ≠ t.L + 1 := by omega
          simp only [this, if_false] at hx
          have : findItem (t.P t.L) x.id = none := by
            rw [findItem_none]
            intro y hy hid
            exact hil (h.disj i t.L (by omega) (by omega) x hx y hy hid.symm)
          simp [this, hc hilt x hx]
    · intro x
      simp only [T.Mem, T.setP, T.pack, upd_apply]
      constructor
      · rintro ⟨i, hi, hx⟩
        by_cases hil : i = t.L + 1
        · simp [hil] at hx; exact Or.inr hx
        · simp [hil] at hx; exact Or.inl ⟨i, by omega, hx⟩
      · rintro (⟨i, hi, hx⟩ | rfl)
        · exact ⟨i, by omega, by simp [show i ≠ t.L + 1 by omega, hx]⟩
        · exact ⟨t.L + 1, by omega, by simp⟩
  · simp only [hp, if_false]
    refine ⟨_, rfl, ?_, ?_⟩
    · have hl := h.last_le
      constructor
      · exact h.size_pos
      · intro i hi
        simp only [T.setP, upd_apply] at hi ⊢
        have := h.full i
        grind
      · simp [T.setP, upd_apply]; omega
      · simp [T.setP, upd_apply]
      · intro i hi
        simp only [T.setP, upd_apply] at hi ⊢
        have := h.nodup i
        by_cases hil : i = t.L
        · simp only [hil, if_true, List.map_append, List.map_cons, List.map_nil]
          rw [List.nodup_append]
          refine ⟨h.nodup t.L (Nat.le_refl _), by simp, ?_⟩
          intro a ha b hb
          simp at hb; subst hb
          simp only [List.mem_map] at ha
          obtain ⟨y, hy, rfl⟩ := ha
          exact h3 t.L (Nat.le_refl _) y hy
        · simp [hil]; exact this hi
      · intro i j hi hj x hx y hy hid
        simp only [T.setP, upd_apply] at hi hj hx hy
        have := h.disj i j
        have := h3 i
        have := h3 j
        grind
      · intro id i hloc
        simp only [T.setP, upd_apply] at hloc ⊢
        have := h.loc_sound id i hloc
        grind
      · intro i hi x hx
        simp only [T.setP, upd_apply] at hi hx ⊢
        have hc := h.loc_complete i
        grind
    · intro x
      simp only [T.Mem, T.setP, upd_apply]
      constructor
      · rintro ⟨i, hi, hx⟩
        by_cases hil : i = t.L
        · simp [hil] at hx
          rcases hx with hx | hx
          · exact Or.inl ⟨t.L, Nat.le_refl _, hx⟩
          · exact Or.inr hx
        · simp [hil] at hx; exact Or.inl ⟨i, hi, hx⟩
      · rintro (⟨i, hi, hx⟩ | rfl)
        · refine ⟨i, hi, ?_⟩
          by_cases hil : i = t.L
          · rw [hil] at hx; simp [hil, hx]
          · simp [hil, hx]
        · exact ⟨t.L, Nat.le_refl _, by simp⟩
theorem last_find_none (h : WFA t) {i : Nat} (hi : i < t.L) {x : Item} (hx : x ∈ t.P i) :
    findItem (t.P t.L) x.id = none := by
  rw [findItem_none]
  intro y hy hid
  have := h.disj i t.L (by omega) (Nat.le_refl _) x hx y hy hid.symm
  omega

theorem get_of_mem (h : WFA t) {x : Item} (hx : t.Mem x) : ∃ l, t.get x.id = .ok (l, x.data) := by
  obtain ⟨i, hi, hxi⟩ := hx
  unfold T.get
  by_cases hil : i = t.L
  · rw [hil] at hxi
    rw [findItem_eq_of_mem (h.nodup t.L (Nat.le_refl _)) hxi]
    exact ⟨_, rfl⟩
  · have hlt : i < t.L := by omega
    rw [h.last_find_none hlt hxi]
    simp only [h.loc_complete i hlt x hxi, findItem_eq_of_mem (h.nodup i hi) hxi]
    exact ⟨_, rfl⟩

theorem get_of_not_has (h : WFA t) {id : Nat} (hn : ¬ t.Has id) : t.get id = .error .notFound := by
  obtain ⟨h1, h2, _⟩ := h.not_has hn
  simp [T.get, h1, h2]

theorem exist_iff (h : WFA t) (id : Nat) : t.exist id = true ↔ t.Has id := by
  rw [h.has_iff]
  unfold T.exist
  cases hf : findItem (t.P t.L) id with
  | some x => simp
  | none => simp [Option.isSome_iff_exists]

theorem length_range_flatMap (P : Nat → List Item) (sz : Nat) :
    ∀ n, (∀ i, i < n → (P i).length = sz) → ((List.range n).flatMap P).length = n * sz := by
  intro n
  induction n with
  | zero => simp
  | succ n ih =>
    intro hf
    rw [List.range_succ, List.flatMap_append, List.length_append, ih (fun i hi => hf i (by omega))]
    simp [hf n (by omega), Nat.succ_mul]

theorem length_items (h : WFA t) : t.items.length = t.L * t.size + (t.P t.L).length := by
  unfold T.items
  rw [List.range_succ, List.flatMap_append, List.length_append, length_range_flatMap t.P t.size t.L h.full]
  simp

theorem sizeOf_eq (h : WFA t) : t.sizeOf = t.items.length := by
  rw [h.length_items]
  unfold T.sizeOf
  split
  · rename_i h0
    have : t.L = 0 := by
      rcases Nat.eq_zero_or_pos t.L with h' | h'
      · exact h'
      · exact absurd (List.eq_nil_of_length_eq_zero h0) (h.last_ne h')
    rw [h0, this]; simp
  · rfl

theorem nodup_items (h : WFA t) : (t.items.map (·.id)).Nodup := by
  unfold T.items
  rw [List.map_flatMap]
  unfold List.Nodup
  rw [List.pairwise_flatMap]
  constructor
  · intro i hi
    exact h.nodup i (by simp at hi; omega)
  · have : ∀ n, n ≤ t.L + 1 → List.Pairwise (fun a₁ a₂ => ∀ x, x ∈ List.map (fun x => x.id) (t.P a₁) →
        ∀ y, y ∈ List.map (fun x => x.id) (t.P a₂) → x ≠ y) (List.range n) := by
      intro n
      induction n with
      | zero => intro _; simp
      | succ n ih =>
        intro hn
        rw [List.range_succ, List.pairwise_append]
        refine ⟨ih (by omega), by simp, ?_⟩
        intro a ha b hb x hx y hy hxy
        simp at ha hb
        subst hb
        simp only [List.mem_map] at hx hy
        obtain ⟨u, hu, rfl⟩ := hx
        obtain ⟨v, hv, rfl⟩ := hy
        have := h.disj a b (by omega) (by omega) u hu v hv hxy
        omega
    exact this _ (Nat.le_refl _)

theorem visits_eq (t : T) : t.visits.map (·.2) = t.items := by
  unfold T.visits T.items
  rw [List.map_flatMap]
  congr 1
  funext i
  simp [Function.comp_def]

/-- tables with the same shape and the same ids in every partition are well formed together -/
theorem of_same_ids {t t' : T} (h : WFA t) (hs : t'.size = t.size) (hL : t'.L = t.L) (hloc : t'.loc = t.loc)
    (hids : ∀ i, i ≤ t.L → (t'.P i).map (·.id) = (t.P i).map (·.id)) : WFA t' := by
  have hlen : ∀ i, i ≤ t.L → (t'.P i).length = (t.P i).length := by
    intro i hi; have := congrArg List.length (hids i hi); simpa using this
  have hmem : ∀ i, i ≤ t.L → ∀ x ∈ t'.P i, ∃ y ∈ t.P i, y.id = x.id := by
    intro i hi x hx
    have : x.id ∈ (t'.P i).map (·.id) := List.mem_map.mpr ⟨x, hx, rfl⟩
    rw [hids i hi] at this
    obtain ⟨y, hy, hid⟩ := List.mem_map.mp this
    exact ⟨y, hy, hid⟩
  have hmem' : ∀ i, i ≤ t.L → ∀ x ∈ t.P i, ∃ y ∈ t'.P i, y.id = x.id := by
    intro i hi x hx
    have : x.id ∈ (t.P i).map (·.id) := List.mem_map.mpr ⟨x, hx, rfl⟩
    rw [← hids i hi] at this
    obtain ⟨y, hy, hid⟩ := List.mem_map.mp this
    exact ⟨y, hy, hid⟩
  constructor
  · rw [hs]; exact h.size_pos
  · intro i hi; rw [hL] at hi; rw [hlen i (by omega), hs]; exact h.full i hi
  · rw [hL, hlen _ (Nat.le_refl _), hs]; exact h.last_le
  · intro h0 hnil
    rw [hL] at h0 hnil
    have := hlen t.L (Nat.le_refl _)
    rw [hnil] at this
    exact h.last_ne h0 (List.eq_nil_of_length_eq_zero this.symm)
  · intro i hi; rw [hL] at hi; rw [hids i hi]; exact h.nodup i hi
  · intro i j hi hj x hx y hy hid
    rw [hL] at hi hj
    obtain ⟨x', hx', hxid⟩ := hmem i hi x hx
    obtain ⟨y', hy', hyid⟩ := hmem j hj y hy
    exact h.disj i j hi hj x' hx' y' hy' (by rw [hxid, hyid, hid])
  · intro id i hl
    rw [hloc] at hl
    obtain ⟨hlt, x, hx, hid⟩ := h.loc_sound id i hl
    obtain ⟨y, hy, hyid⟩ := hmem' i (by omega) x hx
    exact ⟨by rw [hL]; exact hlt, y, hy, by rw [hyid, hid]⟩
  · intro i hi x hx
    rw [hL] at hi
    obtain ⟨y, hy, hyid⟩ := hmem i (by omega) x hx
    rw [hloc, ← hyid]
    exact h.loc_complete i hi y hy

/-- replacing the data of the entry with `id` in partition `l` -/
theorem setP_replace (h : WFA t) {l id : Nat} (d : Nat) (hl : l ≤ t.L) (hin : ∃ x ∈ t.P l, x.id = id) :
    WFA (t.setP l (replaceData (t.P l) id d)) ∧
    ∀ y, (t.setP l (replaceData (t.P l) id d)).Mem y ↔ (t.Mem y ∧ y.id ≠ id) ∨ y = ⟨id, d⟩ := by
  constructor
  · apply h.of_same_ids (t' := t.setP l (replaceData (t.P l) id d)) rfl rfl rfl
    intro i hi
    simp only [T.setP, upd_apply]
    split
    · subst_vars; exact map_id_replaceData _ _ _
    · rfl
  · intro y
    simp only [T.Mem, T.setP, upd_apply]
    obtain ⟨x, hx, hxid⟩ := hin
    constructor
    · rintro ⟨i, hi, hy⟩
      by_cases hil : i = l
      · simp only [hil, if_true] at hy
        rcases (mem_replaceData (h.nodup l hl) ⟨x, hx, hxid⟩ y).mp hy with ⟨hy', hne⟩ | hy'
        · exact Or.inl ⟨⟨l, hl, hy'⟩, hne⟩
        · exact Or.inr hy'
      · simp only [hil, if_false] at hy
        refine Or.inl ⟨⟨i, hi, hy⟩, ?_⟩
        intro hid
        exact hil (h.disj i l hi hl y hy x hx (by rw [hid, hxid]))
    · rintro (⟨⟨i, hi, hy⟩, hne⟩ | rfl)
      · refine ⟨i, hi, ?_⟩
        by_cases hil : i = l
        · simp only [hil, if_true]
          rw [hil] at hy
          exact (mem_replaceData (h.nodup l hl) ⟨x, hx, hxid⟩ y).mpr (Or.inl ⟨hy, hne⟩)
        · simp only [hil, if_false]; exact hy
      · exact ⟨l, hl, by simp only [if_true]; exact (mem_replaceData (h.nodup l hl) ⟨x, hx, hxid⟩ _).mpr (Or.inr rfl)⟩

/-- where the code finds a member: in the last partition, or through its location -/
theorem locate (h : WFA t) {x : Item} (hx : t.Mem x) :
    (findItem (t.P t.L) x.id = some x) ∨
    (findItem (t.P t.L) x.id = none ∧ ∃ l, l < t.L ∧ t.loc x.id = some l ∧ findItem (t.P l) x.id = some x ∧ x ∈ t.P l) := by
  obtain ⟨i, hi, hxi⟩ := hx
  by_cases hil : i = t.L
  · rw [hil] at hxi
    exact Or.inl (findItem_eq_of_mem (h.nodup t.L (Nat.le_refl _)) hxi)
  · have hlt : i < t.L := by omega
    exact Or.inr ⟨h.last_find_none hlt hxi, i, hlt, h.loc_complete i hlt x hxi,
      findItem_eq_of_mem (h.nodup i hi) hxi, hxi⟩

theorem update_of_mem (h : WFA t) {x : Item} (hx : t.Mem x) (f : Nat → Option Nat) :
    (f x.data = none → t.update x.id f = (t, .error .ferr)) ∧
    (∀ d, f x.data = some d → ∃ l, (t.update x.id f).2 = .ok l ∧ WFA (t.update x.id f).1 ∧
      ∀ y, (t.update x.id f).1.Mem y ↔ (t.Mem y ∧ y.id ≠ x.id) ∨ y = ⟨x.id, d⟩) := by
  unfold T.update
  rcases h.locate hx with h1 | ⟨h1, l, hl, h2, h3, h4⟩
  · have hm := (findItem_some h1).1
    constructor
    · intro hf; simp [h1, hf]
    · intro d hf
      simp only [h1, hf]
      exact ⟨_, rfl, h.setP_replace d (Nat.le_refl _) ⟨x, hm, rfl⟩⟩
  · constructor
    · intro hf; simp [h1, h2, h3, hf]
    · intro d hf
      simp only [h1, h2, h3, hf]
      exact ⟨_, rfl, h.setP_replace d (by omega) ⟨x, h4, rfl⟩⟩

theorem update_of_not_has (h : WFA t) {id : Nat} (hn : ¬ t.Has id) (f : Nat → Option Nat) :
    t.update id f = (t, .error .notFound) := by
  obtain ⟨h1, h2, _⟩ := h.not_has hn
  simp [T.update, h1, h2]

theorem updateItem_of_mem (h : WFA t) {x : Item} (hx : t.Mem x) (d : Nat) :
    (t.updateItem ⟨x.id, d⟩).2 = .ok () ∧ WFA (t.updateItem ⟨x.id, d⟩).1 ∧
      ∀ y, (t.updateItem ⟨x.id, d⟩).1.Mem y ↔ (t.Mem y ∧ y.id ≠ x.id) ∨ y = ⟨x.id, d⟩ := by
  unfold T.updateItem
  rcases h.locate hx with h1 | ⟨h1, l, hl, h2, h3, h4⟩
  · have hm := (findItem_some h1).1
    simp only [h1]
    exact ⟨trivial, h.setP_replace d (Nat.le_refl _) ⟨x, hm, rfl⟩⟩
  · simp only [h1, h2, h3]
    exact ⟨trivial, h.setP_replace d (by omega) ⟨x, h4, rfl⟩⟩

theorem updateItem_of_not_has (h : WFA t) {it : Item} (hn : ¬ t.Has it.id) :
    t.updateItem it = (t, .error .notFound) := by
  obtain ⟨h1, h2, _⟩ := h.not_has hn
  simp [T.updateItem, h1, h2]

end WFA

/-- well formed except that the last partition may be empty (the state between cutting the tail and
`loadLastFromPrev`) -/
structure WFE (t : T) : Prop where
  size_pos : 1 ≤ t.size
  full : ∀ i, i < t.L → (t.P i).length = t.size
  last_le : (t.P t.L).length ≤ t.size
  nodup : ∀ i, i ≤ t.L → ((t.P i).map (·.id)).Nodup
  disj : ∀ i j, i ≤ t.L → j ≤ t.L → ∀ x ∈ t.P i, ∀ y ∈ t.P j, x.id = y.id → i = j
  loc_sound : ∀ id i, t.loc id = some i → i < t.L ∧ ∃ x ∈ t.P i, x.id = id
  loc_complete : ∀ i, i < t.L → ∀ x ∈ t.P i, t.loc x.id = some i

theorem WFA.toWFE {t : T} (h : WFA t) : WFE t :=
  ⟨h.size_pos, h.full, h.last_le, h.nodup, h.disj, h.loc_sound, h.loc_complete⟩

theorem WFE.toWFA {t : T} (h : WFE t) (hne : 0 < t.L → t.P t.L ≠ []) : WFA t :=
  ⟨h.size_pos, h.full, h.last_le, hne, h.nodup, h.disj, h.loc_sound, h.loc_complete⟩

/-- dropping an empty last partition: `loadLastFromPrev` -/
theorem WFE.drop_empty_last {t : T} (h : WFE t) (hL : 0 < t.L) (he : t.P t.L = []) :
    WFA t.loadLastFromPrev ∧ ∀ y, t.loadLastFromPrev.Mem y ↔ t.Mem y := by
  have hL0 : t.L ≠ 0 := by omega
  constructor
  · unfold T.loadLastFromPrev
    simp only [hL0, if_false]
    constructor
    · exact h.size_pos
    · intro i hi; simp only at hi ⊢; exact h.full i (by omega)
    · simp only; rw [h.full (t.L - 1) (by omega)]; exact Nat.le_refl _
    · intro _ hnil
      simp only at hnil
      have := h.full (t.L - 1) (by omega)
      rw [hnil] at this
      have := h.size_pos
      simp at *; omega
    · intro i hi; simp only at hi ⊢; exact h.nodup i (by omega)
    · intro i j hi hj; simp only at hi hj ⊢; exact h.disj i j (by omega) (by omega)
    · intro id i hloc
      simp only at hloc ⊢
      split at hloc
      · simp at hloc
      · rename_i hnone
        obtain ⟨hlt, x, hx, hid⟩ := h.loc_sound id i hloc
        refine ⟨?_, x, hx, hid⟩
        rcases Nat.lt_or_ge i (t.L - 1) with h' | h'
        · exact h'
        · have : i = t.L - 1 := by omega
          rw [this] at hx
          exact absurd hid (findItem_none.mp hnone x hx)
    · intro i hi x hx
      simp only at hi hx ⊢
      have : findItem (t.P (t.L - 1)) x.id = none := by
        rw [findItem_none]
        intro y hy hid
        have := h.disj i (t.L - 1) (by omega) (by omega) x hx y hy hid.symm
        omega
      simp only [this]
      exact h.loc_complete i (by omega) x hx
  · intro y
    unfold T.loadLastFromPrev
    simp only [hL0, if_false, T.Mem]
    constructor
    · rintro ⟨i, hi, hy⟩; exact ⟨i, by omega, hy⟩
    · rintro ⟨i, hi, hy⟩
      refine ⟨i, ?_, hy⟩
      rcases Nat.lt_or_ge i t.L with h' | h'
      · omega
      · have : i = t.L := by omega
        rw [this, he] at hy
        simp at hy

theorem T.loadLast_delLoc_comm (t : T) (id : Nat) :
    (t.loadLastFromPrev).delLoc id = (t.delLoc id).loadLastFromPrev := by
  unfold T.loadLastFromPrev T.delLoc
  split
  · rfl
  · simp only [T.mk.injEq, true_and]
    funext a
    simp only [upd_apply]
    split <;> split <;> simp_all

/-- finishing a removal: if the last partition became empty, drop it -/
theorem WFE.finish {t : T} (h : WFE t) :
    WFA (if (t.P t.L).length > 0 then t else t.loadLastFromPrev) ∧
    ∀ y, (if (t.P t.L).length > 0 then t else t.loadLastFromPrev).Mem y ↔ t.Mem y := by
  split
  · rename_i hpos
    exact ⟨h.toWFA (fun _ hnil => by rw [hnil] at hpos; simp at hpos), fun _ => Iff.rfl⟩
  · rename_i hpos
    have he : t.P t.L = [] := List.eq_nil_of_length_eq_zero (by omega)
    rcases Nat.eq_zero_or_pos t.L with h0 | h0
    · have : t.loadLastFromPrev = t := by simp [T.loadLastFromPrev, h0]
      rw [this]
      exact ⟨h.toWFA (fun hl => by omega), fun _ => Iff.rfl⟩
    · exact h.drop_empty_last h0 he

end ZChain.Partitions
