import ZChain.Model.Partitions
/-!
Helper lemmas for C25 (partitions).

Layout:
1. association lists (`KV.get` of `set`/`del`/folds, sorted keys);
2. item lists (`findItem`, `findIdx`, `swapRemove`, `replaceData`);
3. the *table view* `T` of a state (partition contents as a function, location index as a function), the
   table-level operations, and the coherence invariant `CI` between the in-memory object and the store;
4. implementation → table: every method of the model acts on the view as the table operation does;
5. table → set: the table operations keep the table well formed (`WFA`) and act on the member set as the
   set specification says.
-/
namespace ZChain.Partitions

/-! ## 1. association lists -/
namespace KV
variable {β : Type}

@[simp] theorem get_nil (k : Nat) : get ([] : KV β) k = none := rfl

theorem get_cons (a : Nat) (v : β) (r : KV β) (k : Nat) :
    get ((a, v) :: r) k = if a = k then some v else get r k := rfl

theorem get_del (m : KV β) (k k' : Nat) : (del m k).get k' = if k = k' then none else m.get k' := by
  induction m with
  | nil => simp [del, get]
  | cons p r ih =>
    obtain ⟨a, v⟩ := p
    simp only [del] at ih
    simp only [del, List.filter_cons, get_cons]
    by_cases h : a = k <;> grind [get_cons]

theorem get_set (m : KV β) (k k' : Nat) (v : β) :
    (set m k v).get k' = if k = k' then some v else m.get k' := by
  simp only [set, get_cons, get_del]
  grind

theorem mem_insertKey (k x : Nat) (l : List Nat) : x ∈ insertKey k l ↔ x = k ∨ x ∈ l := by
  induction l with
  | nil => simp [insertKey]
  | cons y ys ih =>
    simp only [insertKey]
    split
    · simp
    · simp only [List.mem_cons, ih]; grind

theorem mem_keys (m : KV β) (k : Nat) : k ∈ keys m ↔ ∃ v, m.get k = some v := by
  induction m with
  | nil => simp [keys]
  | cons p r ih =>
    obtain ⟨a, v⟩ := p
    simp only [keys, List.map_cons, List.foldr_cons, mem_insertKey, get_cons] at ih ⊢
    rw [ih]
    by_cases h : a = k
    · subst h; simp
    · simp only [h, if_false]
      constructor
      · rintro (h' | h')
        · exact absurd h'.symm h
        · exact h'
      · exact Or.inr

end KV

/-! ## 2. item lists -/

theorem findItem_none {l : List Item} {id : Nat} : findItem l id = none ↔ ∀ x ∈ l, x.id ≠ id := by
  induction l with
  | nil => simp [findItem]
  | cons x r ih => simp only [findItem]; split <;> simp_all

theorem findItem_some {l : List Item} {id : Nat} {x : Item} (h : findItem l id = some x) :
    x ∈ l ∧ x.id = id := by
  induction l with
  | nil => simp [findItem] at h
  | cons y r ih =>
    simp only [findItem] at h
    split at h
    · simp_all
    · have := ih h; simp_all

theorem findItem_isSome {l : List Item} {id : Nat} : (∃ x, findItem l id = some x) ↔ ∃ x ∈ l, x.id = id := by
  constructor
  · rintro ⟨x, h⟩; exact ⟨x, findItem_some h⟩
  · rintro ⟨x, hx, hid⟩
    cases h : findItem l id with
    | none => exact absurd hid (findItem_none.mp h x hx)
    | some y => exact ⟨y, rfl⟩

/-- with distinct ids, `findItem` returns THE entry with the id -/
theorem findItem_eq_of_mem {l : List Item} {x : Item} (hn : (l.map (·.id)).Nodup) (hx : x ∈ l) :
    findItem l x.id = some x := by
  induction l with
  | nil => simp at hx
  | cons y r ih =>
    simp only [List.map_cons, List.nodup_cons, List.mem_map, not_exists, not_and] at hn
    simp only [findItem]
    rcases List.mem_cons.mp hx with rfl | hx'
    · simp
    · have : y.id ≠ x.id := fun h => hn.1 x hx' h.symm
      simp [this, ih hn.2 hx']

theorem findIdx_none {l : List Item} {id : Nat} : findIdx l id = none ↔ ∀ x ∈ l, x.id ≠ id := by
  induction l with
  | nil => simp [findIdx]
  | cons x r ih =>
    simp only [findIdx]; split
    · simp_all
    · simp only [Option.map_eq_none_iff, ih]; simp_all

theorem findIdx_some {l : List Item} {id k : Nat} (h : findIdx l id = some k) :
    ∃ hk : k < l.length, (l[k]).id = id := by
  induction l generalizing k with
  | nil => simp [findIdx] at h
  | cons x r ih =>
    simp only [findIdx] at h
    split at h
    · simp at h; subst h; exact ⟨by simp, by simpa⟩
    · simp only [Option.map_eq_some_iff] at h
      obtain ⟨j, hj, rfl⟩ := h
      obtain ⟨hk, hid⟩ := ih hj
      exact ⟨by simp; omega, by simpa using hid⟩

theorem findIdx_findItem {l : List Item} {id : Nat} : findIdx l id = none ↔ findItem l id = none := by
  rw [findIdx_none, findItem_none]

theorem swapRemove_last (a : List Item) (x : Item) : swapRemove (a ++ [x]) a.length = a := by
  unfold swapRemove
  simp

theorem swapRemove_mid (a b' : List Item) (x t : Item) :
    swapRemove (a ++ x :: (b' ++ [t])) a.length = a ++ t :: b' := by
  unfold swapRemove
  have e : a ++ x :: (b' ++ [t]) = (a ++ x :: b') ++ [t] := by simp
  have h1 : (a ++ x :: (b' ++ [t])).getLast? = some t := by
    rw [e]; exact List.getLast?_concat
  rw [h1]
  simp only
  rw [List.set_append_right _ _ (by simp)]
  simp only [Nat.sub_self, List.set_cons_zero]
  rw [show a ++ t :: (b' ++ [t]) = (a ++ t :: b') ++ [t] by simp, List.dropLast_concat]

/-- `swapRemove` is a permutation of erasing the index. -/
theorem swapRemove_perm (l : List Item) (k : Nat) (hk : k < l.length) :
    (swapRemove l k).Perm (l.eraseIdx k) := by
  obtain ⟨a, x, b, rfl, hlen⟩ : ∃ a x b, l = a ++ x :: b ∧ a.length = k :=
    ⟨l.take k, l[k], l.drop (k + 1), by simp, by simp; omega⟩
  subst hlen
  rw [List.eraseIdx_append_of_length_le (by simp)]
  simp only [Nat.sub_self, List.eraseIdx_cons_zero]
  rcases List.eq_nil_or_concat b with rfl | ⟨b', t, rfl⟩
  · rw [swapRemove_last]; simp
  · rw [List.concat_eq_append, swapRemove_mid]
    apply List.Perm.append_left
    exact (List.perm_append_singleton t b').symm

theorem length_swapRemove (l : List Item) (k : Nat) (hk : k < l.length) :
    (swapRemove l k).length = l.length - 1 := by
  rw [(swapRemove_perm l k hk).length_eq, List.length_eraseIdx]; simp [hk]

/-- ids are distinct and `l[k]` carries `id`: erasing index `k` removes exactly the entries with that id. -/
theorem mem_eraseIdx_of_nodup {l : List Item} {k : Nat} (hk : k < l.length)
    (hn : (l.map (·.id)).Nodup) (x : Item) :
    x ∈ l.eraseIdx k ↔ x ∈ l ∧ x.id ≠ (l[k]).id := by
  rw [List.mem_eraseIdx_iff_getElem]
  constructor
  · rintro ⟨i, hi, hne, rfl⟩
    refine ⟨List.getElem_mem hi, fun h => hne ?_⟩
    have := (List.getElem_inj (i := i) (j := k) (h₀ := by simpa using hi) (h₁ := by simpa using hk) hn).mp
      (by simpa using h)
    exact this
  · rintro ⟨hx, hne⟩
    obtain ⟨i, hi, rfl⟩ := List.getElem_of_mem hx
    exact ⟨i, hi, fun h => hne (by subst h; rfl), rfl⟩

theorem mem_swapRemove {l : List Item} {k id : Nat} (hk : k < l.length) (hid : (l[k]).id = id)
    (hn : (l.map (·.id)).Nodup) (x : Item) :
    x ∈ swapRemove l k ↔ x ∈ l ∧ x.id ≠ id := by
  rw [(swapRemove_perm l k hk).mem_iff, mem_eraseIdx_of_nodup hk hn, hid]

theorem nodup_swapRemove {l : List Item} {k : Nat} (hk : k < l.length) (hn : (l.map (·.id)).Nodup) :
    ((swapRemove l k).map (·.id)).Nodup := by
  have hp := (swapRemove_perm l k hk).map (·.id)
  rw [hp.nodup_iff]
  exact List.Nodup.sublist ((List.eraseIdx_sublist l k).map _) hn

/-! `replaceData` -/

theorem map_id_replaceData (l : List Item) (id d : Nat) :
    (replaceData l id d).map (·.id) = l.map (·.id) := by
  induction l with
  | nil => rfl
  | cons x r ih =>
    simp only [replaceData]; split
    · simp_all
    · simp [ih]

theorem length_replaceData (l : List Item) (id d : Nat) : (replaceData l id d).length = l.length := by
  have := congrArg List.length (map_id_replaceData l id d); simpa using this

theorem mem_replaceData {l : List Item} {id d : Nat} (hn : (l.map (·.id)).Nodup)
    (hin : ∃ x ∈ l, x.id = id) (y : Item) :
    y ∈ replaceData l id d ↔ (y ∈ l ∧ y.id ≠ id) ∨ y = ⟨id, d⟩ := by
  induction l with
  | nil => simp at hin
  | cons x r ih =>
    simp only [List.map_cons, List.nodup_cons, List.mem_map, not_exists, not_and] at hn
    simp only [replaceData]
    split
    · rename_i hx
      have : ∀ z ∈ r, z.id ≠ id := fun z hz h => hn.1 z hz (by rw [h, hx])
      simp only [List.mem_cons]
      constructor
      · rintro (h | h)
        · exact Or.inr h
        · exact Or.inl ⟨Or.inr h, this y h⟩
      · rintro (⟨h | h, hne⟩ | h)
        · subst h; exact absurd hx hne
        · exact Or.inr h
        · exact Or.inl h
    · rename_i hx
      have hin' : ∃ x ∈ r, x.id = id := by
        obtain ⟨z, hz, hzid⟩ := hin
        rcases List.mem_cons.mp hz with rfl | hz'
        · exact absurd hzid hx
        · exact ⟨z, hz', hzid⟩
      simp only [List.mem_cons, ih hn.2 hin']
      constructor
      · rintro (h | ⟨h, hne⟩ | h)
        · subst h; exact Or.inl ⟨Or.inl rfl, hx⟩
        · exact Or.inl ⟨Or.inr h, hne⟩
        · exact Or.inr h
      · rintro (⟨h | h, hne⟩ | h)
        · exact Or.inl h
        · exact Or.inr (Or.inl ⟨h, hne⟩)
        · exact Or.inr (Or.inr h)

/-! `dropLast` / `getLast?` (cutTail) -/

theorem eq_dropLast_append {l : List Item} {t : Item} (h : l.getLast? = some t) : l = l.dropLast ++ [t] := by
  obtain ⟨ys, rfl⟩ := List.getLast?_eq_some_iff.mp h
  simp

end ZChain.Partitions
