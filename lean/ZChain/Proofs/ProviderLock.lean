import ZChain.Proofs.Provider
/-!
# Lemmas about stake-pool lock / unlock / collect in `Model/Provider` (C11)
-/
namespace ZChain.Provider
open ZChain ZChain.Coin

/-! ## the engine step -/

theorem exec_ok_inv {s : State} {c : Id} {r : Except Err (State × List Ledger.Transfer)}
    (h : (exec s c r).2 = .ok) :
    ∃ s' trs a, r = .ok (s', trs) ∧ Ledger.applyTransfers s.accts trs = .ok a ∧
      (exec s c r).1 = { s' with accts := bumpNonce a c } := by
  unfold exec at h ⊢
  cases r with
  | error e => cases e <;> simp at h
  | ok p =>
    obtain ⟨s', trs⟩ := p
    simp only at h ⊢
    cases ha : Ledger.applyTransfers s.accts trs with
    | error e => simp [ha] at h
    | ok a => exact ⟨s', trs, a, rfl, ha, by simp⟩

/-- a call that does not succeed leaves everything but the caller's nonce as it was. -/
theorem exec_not_ok {s : State} {c : Id} {r : Except Err (State × List Ledger.Transfer)}
    (h : (exec s c r).2 ≠ .ok) :
    (exec s c r).1 = s ∨ (exec s c r).1 = { s with accts := bumpNonce s.accts c } := by
  unfold exec at h ⊢
  cases r with
  | error e => cases e <;> first | exact Or.inl rfl | exact Or.inr rfl
  | ok p =>
    obtain ⟨s', trs⟩ := p
    simp only at h ⊢
    cases ha : Ledger.applyTransfers s.accts trs with
    | error e => exact Or.inl rfl
    | ok a => simp [ha] at h

theorem bumpNonce_bal (a : Ledger.Accts) (c j : Id) :
    (Ledger.get (bumpNonce a c) j).balance = (Ledger.get a j).balance := by
  unfold bumpNonce
  by_cases h : c = j
  · subst h; rw [Ledger.get_set_eq]
  · rw [Ledger.get_set_ne _ _ _ _ h]

/-! ## association-list facts used below -/

theorem kvSet_length_of_none {κ α : Type} [DecidableEq κ] (m : List (κ × α)) (k : κ) (v : α) (h : kvGet m k = none) :
    (kvSet m k v).length = m.length + 1 := by
  induction m with
  | nil => rfl
  | cons p rest ih =>
    obtain ⟨k', w⟩ := p
    unfold kvGet at h
    unfold kvSet
    by_cases hk : k' = k
    · simp [hk] at h
    · simp only [hk, ↓reduceIte] at h ⊢
      simp [ih h]

theorem kvSet_length_of_some {κ α : Type} [DecidableEq κ] (m : List (κ × α)) (k : κ) (v w : α) (h : kvGet m k = some w) :
    (kvSet m k v).length = m.length := by
  induction m with
  | nil => simp [kvGet] at h
  | cons p rest ih =>
    obtain ⟨k', x⟩ := p
    unfold kvGet at h
    unfold kvSet
    by_cases hk : k' = k
    · simp [hk]
    · simp only [hk, ↓reduceIte] at h ⊢
      simp [ih h]

/-! ## inversion of `lock` -/

/-- everything a successful `StakePoolLock` establishes. -/
structure LockFacts (cfg : Cfg) (s : State) (k : Kind) (pid : Id) (t : Txn) (s' : State)
    (trs : List Ledger.Transfer) (sp : SP) : Prop where
  load     : loadSP s k pid = .ok sp
  pos      : 0 < t.value
  minOK    : cfg.minStake k ≤ t.value
  maxOK    : balanceOf (kvGet sp.pools t.client) + t.value ≤ cfg.maxStake k
  room     : sp.pools.length < sp.maxDelegates ∨ (kvGet sp.pools t.client).isSome
  funded   : t.value ≤ (Ledger.get s.accts t.client).balance
  state    : s' = putSP s k pid
               { sp with pools := kvSet sp.pools t.client (lockedDP (kvGet sp.pools t.client) t.value t.now) }
  transfer : trs = [{ src := t.client, dst := k.sc, amount := t.value }]
  active   : isDeleted (kvGet sp.pools t.client) = false

theorem lock_inv {cfg : Cfg} {s s' : State} {k : Kind} {pid : Id} {t : Txn} {trs : List Ledger.Transfer}
    (h : lock cfg s k pid t = .ok (s', trs)) : ∃ sp, LockFacts cfg s k pid t s' trs sp := by
  unfold lock at h
  cases hl : loadSP s k pid with
  | error e => simp [hl] at h
  | ok sp =>
    simp only [hl] at h
    refine ⟨sp, ?_⟩
    split at h
    · cases h
    · rename_i h0
      split at h
      · cases h
      · rename_i hmin
        cases ha : addCoin (balanceOf (kvGet sp.pools t.client)) t.value with
        | error e => rw [ha] at h; cases h
        | ok after =>
          rw [ha] at h
          simp only at h
          have haf : after = balanceOf (kvGet sp.pools t.client) + t.value := by
            unfold addCoin at ha
            split at ha
            · injection ha with ha; exact ha.symm
            · cases ha
          split at h
          · cases h
          · rename_i hmax
            split at h
            · cases h
            · rename_i hroom
              split at h
              · cases h
              · split at h
                · cases h
                · rename_i hbal
                  split at h
                  · cases h
                  rename_i hdel
                  cases hst : stakeOf (orderedPools s.order (kvSet sp.pools t.client
                      (lockedDP (kvGet sp.pools t.client) t.value t.now))) 0 with
                  | error e => rw [hst] at h; cases h
                  | ok tot =>
                    rw [hst] at h
                    simp only at h
                    cases hrf : refreshAfter s k pid with
                    | error e => rw [hrf] at h; cases h
                    | ok u =>
                      rw [hrf] at h
                      simp only at h
                      injection h with h
                      injection h with h1 h2
                      refine ⟨hl, Nat.pos_of_ne_zero h0, Nat.le_of_not_lt hmin, ?_, ?_, Nat.le_of_not_lt hbal, h1.symm, h2.symm,
                        by simpa using hdel⟩
                      · rw [← haf]; exact Nat.le_of_not_lt hmax
                      · by_cases hc : (kvGet sp.pools t.client).isSome = true
                        · exact Or.inr hc
                        · left
                          have hn : (kvGet sp.pools t.client).isNone = true := by
                            cases hq : kvGet sp.pools t.client <;> simp_all
                          exact Nat.lt_of_not_le (fun hle => hroom ⟨hle, hn⟩)

/-! ## `MintRewards` -/

/-- fields of a pool other than the delegate pools and the provider reward. -/
def SameSettings (a b : SP) : Prop :=
  b.wallet = a.wallet ∧ b.maxDelegates = a.maxDelegates ∧ b.minStake = a.minStake ∧ b.ratio = a.ratio ∧
  b.dead = a.dead ∧ b.offers = a.offers

theorem SameSettings.rfl' (a : SP) : SameSettings a a := ⟨rfl, rfl, rfl, rfl, rfl, rfl⟩

theorem SameSettings.trans {a b c : SP} (h1 : SameSettings a b) (h2 : SameSettings b c) : SameSettings a c := by
  obtain ⟨a1, a2, a3, a4, a5, a6⟩ := h1
  obtain ⟨b1, b2, b3, b4, b5, b6⟩ := h2
  exact ⟨b1.trans a1, b2.trans a2, b3.trans a3, b4.trans a4, b5.trans a5, b6.trans a6⟩

/-- a transfer queue that only moves `n` tokens from the contract wallet `sc` to `client`. -/
def PaysOnly (trs : List Ledger.Transfer) (sc client n : Nat) : Prop :=
  Ledger.outflow trs sc = n ∧ Ledger.inflow trs client = n ∧
  (∀ j, j ≠ sc → Ledger.outflow trs j = 0) ∧ (∀ j, j ≠ client → Ledger.inflow trs j = 0)

theorem paysOnly_nil (sc client : Nat) : PaysOnly [] sc client 0 := by
  refine ⟨rfl, rfl, fun _ _ => rfl, fun _ _ => rfl⟩

theorem paysOnly_single (sc client n : Nat) : PaysOnly [{ src := sc, dst := client, amount := n }] sc client n := by
  refine ⟨by simp [Ledger.outflow], by simp [Ledger.inflow], ?_, ?_⟩
  · intro j hj; simp [Ledger.outflow, Ne.symm hj]
  · intro j hj; simp [Ledger.inflow, Ne.symm hj]

theorem paysOnly_append {p q : List Ledger.Transfer} {sc client n m : Nat} (h1 : PaysOnly p sc client n)
    (h2 : PaysOnly q sc client m) : PaysOnly (p ++ q) sc client (n + m) := by
  refine ⟨by rw [Ledger.outflow_append, h1.1, h2.1], by rw [Ledger.inflow_append, h1.2.1, h2.2.1], ?_, ?_⟩
  · intro j hj; rw [Ledger.outflow_append, h1.2.2.1 j hj, h2.2.2.1 j hj]
  · intro j hj; rw [Ledger.inflow_append, h1.2.2.2 j hj, h2.2.2.2 j hj]

theorem payCharge_spec (sp : SP) (k : Kind) (client : Id) :
    (payCharge sp k client).1.pools = sp.pools ∧
    (payCharge sp k client).1.reward = sp.reward - chargeOf sp client ∧
    SameSettings sp (payCharge sp k client).1 ∧
    PaysOnly (payCharge sp k client).2 k.sc client (chargeOf sp client) := by
  unfold payCharge chargeOf
  split
  · exact ⟨rfl, by simp, SameSettings.rfl' _, paysOnly_single _ _ _⟩
  · exact ⟨rfl, by simp, SameSettings.rfl' _, paysOnly_nil _ _⟩

theorem payDelegate_spec (sp : SP) (k : Kind) (client : Id) (d : DP) (hd : kvGet sp.pools client = some d) :
    kvGet (payDelegate sp k client d).1.pools client = some { d with reward := 0 } ∧
    (∀ j, j ≠ client → kvGet (payDelegate sp k client d).1.pools j = kvGet sp.pools j) ∧
    (payDelegate sp k client d).1.reward = sp.reward ∧
    SameSettings sp (payDelegate sp k client d).1 ∧
    PaysOnly (payDelegate sp k client d).2 k.sc client d.reward := by
  unfold payDelegate
  split
  · refine ⟨kvGet_kvSet_eq _ _ _, fun j hj => kvGet_kvSet_ne _ _ _ _ hj, rfl, SameSettings.rfl' _, paysOnly_single _ _ _⟩
  · rename_i hr
    have hr0 : d.reward = 0 := Nat.eq_zero_of_not_pos hr
    refine ⟨?_, fun _ _ => rfl, rfl, SameSettings.rfl' _, ?_⟩
    · rw [hd]; cases d; simp_all
    · rw [hr0]; exact paysOnly_nil _ _

/-- `MintRewards` for a caller that owns a delegate pool `d`: pays exactly `d.reward` plus the service charge (if the
caller is the delegate wallet) from the contract wallet to the caller, zeroes both, touches nothing else. -/
theorem mintRewards_some {sp : SP} {k : Kind} {client : Id} {d : DP} (hd : kvGet sp.pools client = some d) :
    ∃ sp1 trs amount, mintRewards sp k client = some (sp1, trs, amount) ∧
      kvGet sp1.pools client = some { d with reward := 0 } ∧
      (∀ j, j ≠ client → kvGet sp1.pools j = kvGet sp.pools j) ∧
      sp1.reward = sp.reward - chargeOf sp client ∧ SameSettings sp sp1 ∧
      PaysOnly trs k.sc client (chargeOf sp client + d.reward) := by
  obtain ⟨c1, c2, c3, c4⟩ := payCharge_spec sp k client
  have hd' : kvGet (payCharge sp k client).1.pools client = some d := by rw [c1]; exact hd
  obtain ⟨e1, e2, e3, e4, e5⟩ := payDelegate_spec (payCharge sp k client).1 k client d hd'
  refine ⟨(payDelegate (payCharge sp k client).1 k client d).1,
    (payCharge sp k client).2 ++ (payDelegate (payCharge sp k client).1 k client d).2,
    wrapAdd d.reward (chargeOf sp client), ?_, e1, ?_, ?_, c3.trans e4, paysOnly_append c4 e5⟩
  · unfold mintRewards; simp only [hd]
  · intro j hj; rw [e2 j hj, c1]
  · rw [e3, c2]

/-- `MintRewards` for the delegate wallet without a pool of its own. -/
theorem mintRewards_none {sp : SP} {k : Kind} {client : Id} (hd : kvGet sp.pools client = none) :
    (chargeOf sp client = 0 ∧ mintRewards sp k client = none) ∨
    (0 < chargeOf sp client ∧ ∃ sp1 trs amount, mintRewards sp k client = some (sp1, trs, amount) ∧
      sp1.pools = sp.pools ∧ sp1.reward = sp.reward - chargeOf sp client ∧ SameSettings sp sp1 ∧
      PaysOnly trs k.sc client (chargeOf sp client)) := by
  obtain ⟨c1, c2, c3, c4⟩ := payCharge_spec sp k client
  by_cases h0 : chargeOf sp client = 0
  · left; exact ⟨h0, by unfold mintRewards; simp only [hd, h0, ↓reduceIte]⟩
  · right
    refine ⟨Nat.pos_of_ne_zero h0, (payCharge sp k client).1, (payCharge sp k client).2, chargeOf sp client, ?_, c1, c2, c3, c4⟩
    unfold mintRewards; simp only [hd, h0, ↓reduceIte]

/-! ## inversion of `unlock` and `collect` -/

/-- `Empty` + `DeletePool` on a pool that exists: the pool is gone, whatever its status was; nothing else moves. -/
theorem deletePool_emptyPool (sp : SP) (c : Id) (d : DP) (hd : kvGet sp.pools c = some d) :
    deletePool (emptyPool sp c) c =
      { sp with pools := kvDel (kvSet sp.pools c { d with balance := 0, deleted := true }) c } := by
  unfold emptyPool
  simp only [hd]
  unfold deletePool
  simp only [kvGet_kvSet_eq, ↓reduceIte]

structure UnlockFacts (cfg : Cfg) (s : State) (k : Kind) (pid : Id) (t : Txn) (wall : Nat) (s' : State)
    (trs : List Ledger.Transfer) (sp : SP) (dp : DP) : Prop where
  load    : loadSP s k pid = .ok sp
  pool    : kvGet sp.pools t.client = some dp
  time    : dp.stakedAt = 0 ∨ dp.stakedAt + cfg.minLock < wall
  result  : ∃ sp2, s' = putSP s k pid sp2 ∧ kvGet sp2.pools t.client = none ∧
              (∀ j, j ≠ t.client → kvGet sp2.pools j = kvGet sp.pools j) ∧
              sp2.reward = sp.reward - chargeOf sp t.client ∧ SameSettings sp sp2
  pays    : PaysOnly trs k.sc t.client (chargeOf sp t.client + dp.reward + dp.balance)

theorem unlock_inv {cfg : Cfg} {s s' : State} {k : Kind} {pid : Id} {t : Txn} {wall : Nat} {trs : List Ledger.Transfer}
    (h : unlock cfg s k pid t wall = .ok (s', trs)) : ∃ sp dp, UnlockFacts cfg s k pid t wall s' trs sp dp := by
  unfold unlock at h
  cases hl : loadSP s k pid with
  | error e => rw [hl] at h; cases h
  | ok sp =>
    rw [hl] at h
    simp only at h
    cases hd : kvGet sp.pools t.client with
    | none => rw [hd] at h; cases h
    | some dp =>
      rw [hd] at h
      simp only at h
      refine ⟨sp, dp, ?_⟩
      split at h
      · cases h
      · rename_i htime
        obtain ⟨sp1, trR, amount, hm, m1, m2, m3, m4, m5⟩ := mintRewards_some (k := k) hd
        rw [hm] at h
        simp only at h
        cases hb : toInt64 dp.balance with
        | error e => rw [hb] at h; cases h
        | ok bi =>
          cases ham : toInt64 amount with
          | error e => rw [hb, ham] at h; cases h
          | ok ai =>
            rw [hb, ham] at h
            simp only at h
            split at h
            · cases h
            · rw [deletePool_emptyPool sp1 t.client _ m1] at h
              simp only at h
              cases hst : stakeOf (orderedPools s.order (kvDel (kvSet sp1.pools t.client
                  { balance := 0, reward := 0, stakedAt := dp.stakedAt, deleted := true }) t.client)) 0 with
              | error e => rw [hst] at h; cases h
              | ok tot =>
                rw [hst] at h
                simp only at h
                cases hrf : refreshAfter s k pid with
                | error e => rw [hrf] at h; cases h
                | ok u =>
                  rw [hrf] at h
                  simp only at h
                  injection h with h
                  injection h with h1 h2
                  refine ⟨hl, hd, ?_, ⟨_, h1.symm, kvGet_kvDel_eq _ _, ?_, m3, m4⟩, ?_⟩
                  · by_cases hz : dp.stakedAt = 0
                    · exact Or.inl hz
                    · right
                      have hp : 0 < dp.stakedAt := Nat.pos_of_ne_zero hz
                      exact Classical.byContradiction (fun hn => htime ⟨hp, hn⟩)
                  · intro j hj
                    show kvGet (kvDel (kvSet sp1.pools t.client _) t.client) j = _
                    rw [kvGet_kvDel_ne _ _ _ hj, kvGet_kvSet_ne _ _ _ _ hj, m2 j hj]
                  · rw [← h2]
                    exact paysOnly_append m5 (paysOnly_single _ _ _)

theorem collect_inv {s s' : State} {k : Kind} {pid client : Id} {trs : List Ledger.Transfer}
    (h : collect s k pid client = .ok (s', trs)) :
    ∃ sp sp1, loadSP s k pid = .ok sp ∧ s' = saveSP s k pid sp1 ∧
      (∀ j, j ≠ client → kvGet sp1.pools j = kvGet sp.pools j) ∧
      (kvGet sp1.pools client).map (fun d => (d.balance, d.stakedAt)) =
        (kvGet sp.pools client).map (fun d => (d.balance, d.stakedAt)) ∧
      sp1.reward = sp.reward - chargeOf sp client ∧ SameSettings sp sp1 ∧
      PaysOnly trs k.sc client (chargeOf sp client + ((kvGet sp.pools client).map (·.reward)).getD 0) := by
  unfold collect at h
  cases hl : loadSP s k pid with
  | error e => rw [hl] at h; cases h
  | ok sp =>
    rw [hl] at h
    simp only at h
    cases hd : kvGet sp.pools client with
    | none =>
      rcases mintRewards_none (k := k) hd with ⟨_, hm⟩ | ⟨_, sp1, trR, amount, hm, m1, m2, m3, m4⟩
      · rw [hm] at h; cases h
      · rw [hm] at h
        simp only at h
        injection h with h
        injection h with h1 h2
        refine ⟨sp, sp1, rfl, h1.symm, fun j _ => by rw [m1], by rw [m1, hd], m2, m3, ?_⟩
        rw [← h2, hd]
        exact m4
    | some d =>
      obtain ⟨sp1, trR, amount, hm, m1, m2, m3, m4, m5⟩ := mintRewards_some (k := k) hd
      rw [hm] at h
      simp only at h
      injection h with h
      injection h with h1 h2
      refine ⟨sp, sp1, rfl, h1.symm, m2, by rw [m1, hd]; rfl, m3, m4, ?_⟩
      rw [← h2, hd]
      exact m5

/-! ## rewards never touch balances -/

theorem kvGet_map_val {α β : Type} (m : List (Id × α)) (g : Id → α → β) (c : Id) :
    kvGet (m.map fun p => (p.1, g p.1 p.2)) c = (kvGet m c).map (g c) := by
  induction m with
  | nil => rfl
  | cons p rest ih =>
    obtain ⟨i, x⟩ := p
    simp only [List.map_cons, kvGet]
    by_cases h : i = c
    · subst h; simp
    · simp only [h, ↓reduceIte]; exact ih

theorem kvGet_writeRewards (pools : List (Id × DP)) (rs : List (Id × Nat)) (c : Id) :
    (kvGet (writeRewards pools rs) c).map (fun d => (d.balance, d.stakedAt)) =
      (kvGet pools c).map (fun d => (d.balance, d.stakedAt)) := by
  let g : Id → DP → DP := fun i d => match kvGet rs i with
    | some r => { d with reward := r }
    | none => d
  have : writeRewards pools rs = pools.map fun p => (p.1, g p.1 p.2) := by
    unfold writeRewards
    apply List.map_congr_left
    intro p _
    obtain ⟨i, d⟩ := p
    simp only [g]
    cases kvGet rs i <;> rfl
  rw [this, kvGet_map_val pools g c]
  cases kvGet pools c with
  | none => rfl
  | some d =>
    simp only [Option.map_some, g]
    cases kvGet rs c <;> rfl

/-- the stake part of a delegate's entry in a stored record: balance and staking time. -/
def stakeOfClient (s : State) (kk : Kind × Id) (c : Id) : Option (Nat × Nat) :=
  ((kvGet s.sps kk).bind (fun sp => kvGet sp.pools c)).map (fun d => (d.balance, d.stakedAt))

theorem stakeOfClient_put (s : State) (k : Kind) (pid : Id) (sp sp' : SP) (kk : Kind × Id) (c : Id)
    (hst : kvGet s.sps (k, pid) = some sp)
    (h : (kvGet sp'.pools c).map (fun d => (d.balance, d.stakedAt)) = (kvGet sp.pools c).map (fun d => (d.balance, d.stakedAt))) :
    stakeOfClient (putSP s k pid sp') kk c = stakeOfClient s kk c ∧
    stakeOfClient (saveSP s k pid sp') kk c = stakeOfClient s kk c := by
  have hput : stakeOfClient (putSP s k pid sp') kk c = stakeOfClient s kk c := by
    unfold stakeOfClient putSP
    by_cases hk : kk = (k, pid)
    · subst hk
      simp only
      rw [kvGet_kvSet_eq, hst]
      simp only [Option.bind_some]
      exact h
    · simp only
      rw [kvGet_kvSet_ne _ _ _ _ hk]
  exact ⟨hput, hput⟩

/-- what a contract loads is the stored record (every kind). -/
theorem loadSP_stored {s : State} {k : Kind} {pid : Id} {sp : SP} (h : loadSP s k pid = .ok sp) :
    kvGet s.sps (k, pid) = some sp := by
  have : getSP s k pid = some sp := by
    unfold loadSP at h
    cases k with
    | miner =>
      simp only at h
      cases hp : kvGet s.provs pid with
      | none => simp [hp] at h
      | some p =>
        simp only [hp] at h
        split at h
        · cases h
        · cases hg : getSP s .miner pid with
          | none => simp [hg] at h
          | some x => simp only [hg] at h; injection h with h; rw [h]
    | sharder =>
      simp only at h
      cases hp : kvGet s.provs pid with
      | none => simp [hp] at h
      | some p =>
        simp only [hp] at h
        split at h
        · cases h
        · cases hg : getSP s .sharder pid with
          | none => simp [hg] at h
          | some x => simp only [hg] at h; injection h with h; rw [h]
    | blobber =>
      simp only at h
      cases hg : getSP s .blobber pid with
      | none => simp [hg] at h
      | some x => simp only [hg] at h; injection h with h; rw [h]
    | validator =>
      simp only at h
      cases hg : getSP s .validator pid with
      | none => simp [hg] at h
      | some x => simp only [hg] at h; injection h with h; rw [h]
    | authorizer =>
      simp only at h
      cases hg : getSP s .authorizer pid with
      | none => simp [hg] at h
      | some x => simp only [hg] at h; injection h with h; rw [h]
  exact this

end ZChain.Provider
