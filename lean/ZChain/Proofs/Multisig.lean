import ZChain.Model.Multisig
import ZChain.Proofs.Alg
import ZChain.Props.C02
/-!
Helper lemmas for `Model/Multisig.lean`: the engine wrapper `settleMs`, the stages of `vote`, list bookkeeping
(`findProp`, `putProp`, `eraseProp`, `findWallet`).
-/
namespace ZChain.Multisig
open ZChain ZChain.Ledger ZChain.Alg

section
variable {F : Type}

/-! ### the engine wrapper -/

theorem step_ms_ok (feeOn : Bool) (a : Accts) (c : Call) (sg : List Ledger.Transfer) :
    Ledger.step feeOn ⟨a, []⟩ c.txn (.ok [] [] sg) =
      if c.value > maxTokenSupply then (⟨a, []⟩, .rejected)
      else if (get a c.sender).nonce + 1 ≠ c.nonce then (⟨a, []⟩, .rejected)
      else match settle feeOn a c.txn [] sg with
        | none => (⟨a, []⟩, .rejected)
        | some a' => (⟨a', []⟩, .success) := by
  unfold Ledger.step
  simp only [Call.txn, applyWrites]
  rfl

theorem step_ms_chg (feeOn : Bool) (a : Accts) (c : Call) :
    Ledger.step feeOn ⟨a, []⟩ c.txn (.chargeable [] [] []) =
      if c.value > maxTokenSupply then (⟨a, []⟩, .rejected)
      else if (get a c.sender).nonce + 1 ≠ c.nonce then (⟨a, []⟩, .rejected)
      else match settle feeOn a c.txn [] [] with
        | none => (⟨a, []⟩, .rejected)
        | some a' => (⟨a', []⟩, .failed) := by
  unfold Ledger.step
  simp only [Call.txn]
  rfl

def Admissible (s : MSt F) (c : Call) : Prop :=
  c.value ≤ maxTokenSupply ∧ (get s.accts c.sender).nonce + 1 = c.nonce

theorem settleMs_some (feeOn : Bool) (s : MSt F) (c : Call) (s' : MSt F) (q : List Ledger.Transfer) :
    settleMs feeOn s c (some (s', q)) =
      if c.value > maxTokenSupply then (s, .rejected)
      else if (get s.accts c.sender).nonce + 1 ≠ c.nonce then (s, .rejected)
      else match settle feeOn s.accts c.txn [] q with
        | none => (s, .rejected)
        | some a' => ({ s' with accts := a' }, .success) := by
  simp only [settleMs]
  rw [step_ms_ok]
  by_cases h1 : c.value > maxTokenSupply
  · simp [h1]
  · by_cases h2 : (get s.accts c.sender).nonce + 1 ≠ c.nonce
    · simp [h1, h2]
    · cases hs : settle feeOn s.accts c.txn [] q with
      | none => simp [h1, h2]
      | some a' => simp [h1, h2]

theorem settleMs_none (feeOn : Bool) (s : MSt F) (c : Call) :
    settleMs feeOn s c none =
      if c.value > maxTokenSupply then (s, .rejected)
      else if (get s.accts c.sender).nonce + 1 ≠ c.nonce then (s, .rejected)
      else match settle feeOn s.accts c.txn [] [] with
        | none => (s, .rejected)
        | some a' => ({ s with accts := a' }, .failed) := by
  simp only [settleMs]
  rw [step_ms_chg]
  by_cases h1 : c.value > maxTokenSupply
  · simp [h1]
  · by_cases h2 : (get s.accts c.sender).nonce + 1 ≠ c.nonce
    · simp [h1, h2]
    · cases hs : settle feeOn s.accts c.txn [] [] with
      | none => simp [h1, h2]
      | some a' => simp [h1, h2]

/-- success: the contract succeeded, the engine admitted the transaction and settled fee + signed transfers. -/
theorem settleMs_success (feeOn : Bool) (s : MSt F) (c : Call) (r : Option (MSt F × List Ledger.Transfer))
    (h : (settleMs feeOn s c r).2 = .success) :
    ∃ s' q a', r = some (s', q) ∧ Admissible s c ∧ settle feeOn s.accts c.txn [] q = some a' ∧
      (settleMs feeOn s c r).1 = { s' with accts := a' } := by
  cases r with
  | none =>
    exfalso
    rw [settleMs_none] at h
    by_cases h1 : c.value > maxTokenSupply
    · simp [h1] at h
    · by_cases h2 : (get s.accts c.sender).nonce + 1 ≠ c.nonce
      · simp [h1, h2] at h
      · cases hs : settle feeOn s.accts c.txn [] [] <;> simp [h1, h2, hs] at h
  | some p =>
    obtain ⟨s', q⟩ := p
    rw [settleMs_some] at h
    by_cases h1 : c.value > maxTokenSupply
    · simp [h1] at h
    · by_cases h2 : (get s.accts c.sender).nonce + 1 ≠ c.nonce
      · simp [h1, h2] at h
      · cases hs : settle feeOn s.accts c.txn [] q with
        | none => simp [h1, h2, hs] at h
        | some a' =>
          refine ⟨s', q, a', rfl, ⟨by omega, by simpa using h2⟩, hs, ?_⟩
          rw [settleMs_some]; simp [h1, h2, hs]

/-- anything but success leaves the whole contract state as it was (only the fee may have moved). -/
theorem settleMs_not_success (feeOn : Bool) (s : MSt F) (c : Call) (r : Option (MSt F × List Ledger.Transfer))
    (h : (settleMs feeOn s c r).2 ≠ .success) : ∃ a', (settleMs feeOn s c r).1 = { s with accts := a' } := by
  cases r with
  | none =>
    rw [settleMs_none] at h ⊢
    by_cases h1 : c.value > maxTokenSupply
    · exact ⟨s.accts, by simp [h1]⟩
    · by_cases h2 : (get s.accts c.sender).nonce + 1 ≠ c.nonce
      · exact ⟨s.accts, by simp [h1, h2]⟩
      · cases hs : settle feeOn s.accts c.txn [] [] with
        | none => exact ⟨s.accts, by simp [h1, h2]⟩
        | some a' => exact ⟨a', by simp [h1, h2]⟩
  | some p =>
    obtain ⟨s', q⟩ := p
    rw [settleMs_some] at h ⊢
    by_cases h1 : c.value > maxTokenSupply
    · exact ⟨s.accts, by simp [h1]⟩
    · by_cases h2 : (get s.accts c.sender).nonce + 1 ≠ c.nonce
      · exact ⟨s.accts, by simp [h1, h2]⟩
      · cases hs : settle feeOn s.accts c.txn [] q with
        | none => exact ⟨s.accts, by simp [h1, h2]⟩
        | some a' => simp [h1, h2, hs] at h

/-- a failing contract call never reports success. -/
theorem settleMs_none_ne_success (feeOn : Bool) (s : MSt F) (c : Call) : (settleMs feeOn s c none).2 ≠ .success := by
  intro h
  obtain ⟨_, _, _, hr, _⟩ := settleMs_success feeOn s c none h
  cases hr

/-- flows of a settlement queue that consists of the fee and one signed transfer. -/
theorem feeQueue_signed_single (feeOn : Bool) (t : Txn) (x : Ledger.Transfer) (i : Id) :
    outflow (feeQueue feeOn t [] [x]) i = (if i = t.sender then feeOf feeOn t else 0) + (if x.src = i then x.amount else 0) ∧
    inflow (feeQueue feeOn t [] [x]) i = (if i = minerSC then feeOf feeOn t else 0) + (if x.dst = i then x.amount else 0) := by
  have h := feeQueue_nil feeOn t i
  unfold feeQueue at h ⊢
  cases feeOn
  · simp only [Bool.false_eq_true, if_false, List.append_nil, List.nil_append] at h ⊢
    constructor
    · rw [outflow_cons, h.1]; omega
    · rw [inflow_cons, h.2]; omega
  · simp only [if_true, List.append_nil, List.nil_append] at h ⊢
    constructor
    · rw [outflow_append, h.1, outflow_cons]; simp [outflow]
    · rw [inflow_append, h.2, inflow_cons]; simp [inflow]

/-! ### list bookkeeping -/

theorem findWallet_append_some (ws : List (Wallet F)) (w' w : Wallet F) (i : Id)
    (h : findWallet ws i = some w) : findWallet (ws ++ [w']) i = some w := by
  unfold findWallet at h ⊢
  rw [List.find?_append, h]; rfl

theorem findWallet_append_ne (ws : List (Wallet F)) (w' : Wallet F) (i : Id) (h : w'.id ≠ i) :
    findWallet (ws ++ [w']) i = findWallet ws i := by
  unfold findWallet
  rw [List.find?_append]
  cases ws.find? (fun w => decide (w.id = i)) with
  | some w => rfl
  | none => simp [h]

theorem findWallet_mem (ws : List (Wallet F)) (i : Id) (w : Wallet F) (h : findWallet ws i = some w) :
    w ∈ ws ∧ w.id = i := by
  unfold findWallet at h
  exact ⟨List.mem_of_find?_eq_some h, by simpa using List.find?_some h⟩

theorem findProp_mem (ps : List (Proposal F)) (r : Ref) (p : Proposal F) (h : findProp ps r = some p) :
    p ∈ ps ∧ p.ref = r := by
  unfold findProp at h
  exact ⟨List.mem_of_find?_eq_some h, by simpa using List.find?_some h⟩

theorem findProp_none (ps : List (Proposal F)) (r : Ref) (h : findProp ps r = none) : ∀ p ∈ ps, p.ref ≠ r := by
  unfold findProp at h
  intro p hp
  have := List.find?_eq_none.mp h p hp
  simpa using this

theorem mem_eraseProp (ps : List (Proposal F)) (r : Ref) (p : Proposal F) (h : p ∈ eraseProp ps r) : p ∈ ps ∧ p.ref ≠ r := by
  unfold eraseProp at h
  have := List.mem_filter.mp h
  exact ⟨this.1, by simpa using this.2⟩

/-- after `putProp`, every record is either the new one or an old one with another key. -/
theorem mem_putProp (ps : List (Proposal F)) (p q : Proposal F) (h : q ∈ putProp ps p) :
    q = p ∨ (q ∈ ps ∧ q.ref ≠ p.ref) := by
  unfold putProp at h
  split at h
  · obtain ⟨x, hx, hq⟩ := List.mem_map.mp h
    by_cases hr : x.ref = p.ref
    · simp only [hr, if_true] at hq; exact Or.inl hq.symm
    · simp only [hr, if_false] at hq; subst hq; exact Or.inr ⟨hx, hr⟩
  · rename_i hany
    rcases List.mem_append.mp h with h | h
    · right
      refine ⟨h, ?_⟩
      intro hr
      apply hany
      exact List.any_eq_true.mpr ⟨q, h, by simpa using hr⟩
    · simp at h; exact Or.inl h

theorem mem_putProp_self (ps : List (Proposal F)) (p : Proposal F) : p ∈ putProp ps p := by
  unfold putProp
  split
  · rename_i hany
    obtain ⟨x, hx, hr⟩ := List.any_eq_true.mp hany
    exact List.mem_map.mpr ⟨x, hx, by simp only [decide_eq_true_eq] at hr; simp [hr]⟩
  · simp

/-- `putProp` keeps the list of keys when the key is present, and appends it otherwise. -/
theorem putProp_refs (ps : List (Proposal F)) (p : Proposal F) :
    (putProp ps p).map (·.ref) = if ps.any (fun q => q.ref = p.ref) then ps.map (·.ref) else ps.map (·.ref) ++ [p.ref] := by
  unfold putProp
  split
  · rw [List.map_map]
    apply List.map_congr_left
    intro x _
    simp only [Function.comp]
    split
    · rename_i h; exact h.symm
    · rfl
  · simp

theorem findProp_putProp_self (ps : List (Proposal F)) (p : Proposal F) (hnd : (ps.map (·.ref)).Nodup) :
    findProp (putProp ps p) p.ref = some p := by
  induction ps with
  | nil => simp [putProp, findProp]
  | cons x xs ih =>
    have hnd0 : (x.ref :: xs.map (·.ref)).Nodup := hnd
    have hnd' := (List.nodup_cons.mp hnd0).2
    by_cases hr : x.ref = p.ref
    · unfold putProp findProp
      simp [hr]
    · have ih' := ih hnd'
      unfold putProp findProp at ih' ⊢
      by_cases hany : xs.any (fun q => decide (q.ref = p.ref))
      · simp only [List.any_cons, hr, decide_false, Bool.false_or, hany, if_true, List.map_cons, if_false] at ih' ⊢
        rw [List.find?_cons]
        simp only [hr, decide_false]
        exact ih'
      · simp only [List.any_cons, hr, decide_false, Bool.false_or, hany, Bool.false_eq_true, if_false, List.cons_append] at ih' ⊢
        rw [List.find?_cons]
        simp only [hr, decide_false]
        exact ih'

end

end ZChain.Multisig
