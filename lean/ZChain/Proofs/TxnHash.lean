import ZChain.Model.TxnHash
import ZChain.Proofs.HashBind
/-!
Table-generic lemmas about the transaction-hash model (`Model/TxnHash.lean`); `Props/C30.lean` instantiates them
with the generated table.
-/
namespace ZChain.TxnHash
open ZChain.HashBind

variable (tbl : Table) (H : Str → Str)

/-! ### hex text never contains the separator -/

theorem hexNibble_some_ne_colon {c x : Nat} (h : hexNibble c = some x) : c ≠ colon := by
  unfold hexNibble at h
  unfold colon
  intro e
  subst e
  simp at h

theorem hexDecode_colon_free : ∀ (s b : Str), hexDecode s = some b → colon ∉ s
  | [], _, _ => by simp
  | [_], _, h => by simp [hexDecode] at h
  | a :: c :: rest, b, h => by
    unfold hexDecode at h
    cases ha : hexNibble a with
    | none => simp [ha] at h
    | some x =>
      cases hc : hexNibble c with
      | none => simp [ha, hc] at h
      | some y =>
        cases hr : hexDecode rest with
        | none => simp [ha, hc, hr] at h
        | some r =>
          have ih := hexDecode_colon_free rest r hr
          intro hm
          simp only [List.mem_cons] at hm
          rcases hm with e | e | e
          · exact hexNibble_some_ne_colon ha e.symm
          · exact hexNibble_some_ne_colon hc e.symm
          · exact ih e

theorem isHash_colon_free (s : Str) (h : isHash s = true) : colon ∉ s := by
  unfold isHash at h
  cases hd : hexDecode s with
  | none => simp [hd] at h
  | some b => exact hexDecode_colon_free s b hd

/-! ### one changed term -/

theorem map_update_of_nodup {α β : Type} (f g : α → β) (t0 : α) : ∀ (l : List α), l.Nodup → t0 ∈ l →
    (∀ t ∈ l, t ≠ t0 → f t = g t) →
    ∃ pre post, l.map g = pre ++ g t0 :: post ∧ l.map f = pre ++ f t0 :: post
  | [], _, h, _ => by cases h
  | a :: r, hn, hm, ho => by
    rw [List.nodup_cons] at hn
    by_cases ha : a = t0
    · subst ha
      refine ⟨[], r.map g, rfl, ?_⟩
      simp only [List.map_cons, List.nil_append, List.cons.injEq, true_and]
      apply List.map_congr_left
      intro t ht
      exact ho t (List.mem_cons_of_mem _ ht) (fun e => hn.1 (e ▸ ht))
    · have hm' : t0 ∈ r := by
        rcases List.mem_cons.mp hm with e | e
        · exact absurd e.symm ha
        · exact e
      obtain ⟨pre, post, e1, e2⟩ := map_update_of_nodup f g t0 r hn.2 hm' (fun t ht => ho t (List.mem_cons_of_mem _ ht))
      refine ⟨g a :: pre, post, by simp [e1], ?_⟩
      simp only [List.map_cons, List.cons_append, e2, ho a (by simp) ha]

/-- if all terms but `t0` have the same value in two transactions, equal hash data forces `t0` to agree too -/
theorem hashData_single (t t' : Txn) (t0 : Term) (hmem : t0 ∈ tbl.terms) (hnd : tbl.terms.Nodup)
    (hother : ∀ x ∈ tbl.terms, x ≠ t0 → render H t' x = render H t x)
    (h : hashData tbl H t' = hashData tbl H t) : render H t' t0 = render H t t0 := by
  unfold hashData at h
  obtain ⟨pre, post, e1, e2⟩ := map_update_of_nodup (render H t') (render H t) t0 _ hnd hmem hother
  rw [e1, e2] at h
  exact joinSep_single_inj _ _ _ _ _ h

/-- a field is read by a term -/
def Term.reads : Term → Field → Bool
  | .str g, f | .dec g, f | .udec g, f | .hashOf g, f => g = f

/-- no two terms read the same field (so changing one field changes one term) -/
def Table.fieldsDistinct (tbl : Table) : Bool :=
  tbl.terms.all fun a => tbl.terms.all fun b => a = b || !(Field.all.any fun f => a.reads f && b.reads f)

theorem render_setStr_of_not_reads (t : Txn) (f : Field) (v : Str) (x : Term) (h : x.reads f = false) :
    render H (t.setStr f v) x = render H t x := by
  cases x <;> simp only [Term.reads, decide_eq_false_iff_not] at h <;> simp [render, Txn.setStr, h]

theorem render_setInt_of_not_reads (t : Txn) (f : Field) (v : Int) (x : Term) (h : x.reads f = false) :
    render H (t.setInt f v) x = render H t x := by
  cases x <;> simp only [Term.reads, decide_eq_false_iff_not] at h <;> simp [render, Txn.setInt, h]

theorem other_not_reads (hd : tbl.fieldsDistinct = true) {t0 x : Term} {f : Field} (h0 : t0 ∈ tbl.terms)
    (hx : x ∈ tbl.terms) (hne : x ≠ t0) (hr : t0.reads f = true) : x.reads f = false := by
  unfold Table.fieldsDistinct at hd
  rw [List.all_eq_true] at hd
  have := hd x hx
  rw [List.all_eq_true] at this
  have := this t0 h0
  simp only [Bool.or_eq_true, decide_eq_true_eq, Bool.not_eq_true', List.any_eq_false, Bool.and_eq_true, not_and,
    Bool.not_eq_true] at this
  rcases this with e | e
  · exact absurd e hne
  · cases hxr : x.reads f with
    | false => rfl
    | true =>
      have := e f (by cases f <;> simp [Field.all]) hxr
      rw [hr] at this
      cases this

/-- a string field no term reads does not influence the hash -/
theorem computeHash_setStr_unread (f : Field) (hf : ∀ x ∈ tbl.terms, x.reads f = false) (t : Txn) (v : Str) :
    computeHash tbl H (t.setStr f v) = computeHash tbl H t := by
  unfold computeHash hashData
  congr 2
  exact List.map_congr_left (fun x hx => render_setStr_of_not_reads H t f v x (hf x hx))

theorem computeHash_setInt_unread (f : Field) (hf : ∀ x ∈ tbl.terms, x.reads f = false) (t : Txn) (v : Int) :
    computeHash tbl H (t.setInt f v) = computeHash tbl H t := by
  unfold computeHash hashData
  congr 2
  exact List.map_congr_left (fun x hx => render_setInt_of_not_reads H t f v x (hf x hx))

/-! ### collision form -/

/-- every item of the hash data is separator-free when the string terms are -/
theorem hashData_injective (hs : tbl.sep = colon) (hHfree : ∀ x, colon ∉ H x) (hne : tbl.terms ≠ [])
    (t1 t2 : Txn) (w1 : ∀ f, Term.str f ∈ tbl.terms → colon ∉ t1.str f) (w2 : ∀ f, Term.str f ∈ tbl.terms → colon ∉ t2.str f)
    (h : hashData tbl H t1 = hashData tbl H t2) : ∀ x ∈ tbl.terms, render H t1 x = render H t2 x := by
  have free : ∀ (t : Txn), (∀ f, Term.str f ∈ tbl.terms → colon ∉ t.str f) → ∀ y ∈ tbl.terms.map (render H t), tbl.sep ∉ y := by
    intro t wt y hy
    obtain ⟨x, hx, rfl⟩ := List.mem_map.mp hy
    rw [hs]
    cases x with
    | str f => exact wt f hx
    | dec f => exact colon_not_mem_renderInt _
    | udec f => exact colon_not_mem_renderNat _
    | hashOf f => exact hHfree _
  unfold hashData at h
  have hmap := joinSep_injective (tbl.terms.map (render H t1)) (tbl.terms.map (render H t2))
    (by simpa using hne) (by simpa using hne)
    (initSepFree_of_all _ (free t1 w1)) (initSepFree_of_all _ (free t2 w2)) (by simp) (Or.inl (by simp)) h
  exact fun x hx => List.map_inj_left.mp hmap x hx

/-! ### Validate -/

theorem validate_none_iff (env : Env) (now : Int) (vs : Bool) (t : Txn) :
    validate tbl H env now vs t = none ↔ ∀ c ∈ tbl.checks, checkOk tbl H env now vs t c = true := by
  unfold validate
  rw [List.find?_eq_none]
  constructor
  · intro h c hc
    simpa using h c hc
  · intro h c hc
    simp [h c hc]

theorem accept_none_iff (env : Env) (now : Int) (vs : Bool) (t : Txn) :
    accept tbl H env now vs t = none ↔
      ∃ t', computeProperties tbl H env t = .ok t' ∧ validate tbl H env now vs t' = none := by
  unfold accept
  cases computeProperties tbl H env t with
  | error r => simp
  | ok t' => simp


/-! ### integer fields that the acceptance path does not look at -/

theorem idGo_setInt (t : Txn) (f : Field) (v : Int) : ∀ steps : List IdStep,
    idGo H (t.setInt f v) steps = (idGo H t steps).map (·.setInt f v)
  | [] => rfl
  | .pkNonEmpty :: rest => by
    simp only [idGo]
    have : (t.setInt f v).str .publicKey = t.str .publicKey := rfl
    rw [this]
    split
    · rfl
    · exact idGo_setInt t f v rest
  | .verifyIfSet :: rest => by
    simp only [idGo]
    have e1 : (t.setInt f v).str .publicKey = t.str .publicKey := rfl
    have e2 : (t.setInt f v).str .clientID = t.str .clientID := rfl
    rw [e1, e2]
    split
    · split
      · rfl
      · split <;> rfl
    · exact idGo_setInt t f v rest
  | .deriveIfEmpty :: _ => by
    simp only [idGo]
    have e1 : (t.setInt f v).str .publicKey = t.str .publicKey := rfl
    rw [e1]
    split <;> rfl

/-- `ComputeProperties` commutes with overwriting an integer field, provided the overwrite does not change whether
the transaction counts as a smart-contract call -/
theorem propGo_setInt (env : Env) (f : Field) (v : Int) : ∀ (steps : List PropStep) (t : Txn),
    (decide ((t.setInt f v).int .transactionType = tbl.scType) = decide (t.int .transactionType = tbl.scType)) →
    propGo tbl H env (t.setInt f v) steps = (propGo tbl H env t steps).map (·.setInt f v)
  | [], _, _ => rfl
  | .chainDefault :: rest, t, hc => by
    simp only [propGo]
    have e : (t.setInt f v).str .chainID = t.str .chainID := rfl
    rw [e]
    by_cases h : t.str .chainID = []
    · simp only [h, ↓reduceIte]
      exact propGo_setInt env f v rest (t.setStr .chainID (serverChainOrMain env)) hc
    · simp only [h, ↓reduceIte]
      exact propGo_setInt env f v rest t hc
  | .scDataJson :: rest, t, hc => by
    simp only [propGo]
    have e : (t.setInt f v).str .transactionData = t.str .transactionData := rfl
    rw [e, hc]
    split
    · rfl
    · exact propGo_setInt env f v rest t hc
  | .computeClientID :: _, t, _ => by
    simp only [propGo, computeClientID]
    exact idGo_setInt H t f v _

/-- the checks of `ValidateWrtTimeForBlock` read one integer field only: the creation date -/
theorem validate_setInt_unread (env : Env) (now : Int) (vs : Bool) (f : Field) (v : Int)
    (hf : ∀ x ∈ tbl.terms, x.reads f = false) (hne : f ≠ .creationDate) (t : Txn) :
    validate tbl H env now vs (t.setInt f v) = validate tbl H env now vs t := by
  unfold validate
  congr 1
  funext c
  congr 1
  have hh := computeHash_setInt_unread tbl H f hf t v
  have hcd : (t.setInt f v).int .creationDate = t.int .creationDate := by simp [Txn.setInt, Ne.symm hne]
  cases c <;> simp only [checkOk, hh, hcd] <;> rfl

/-- **an integer field that neither the hash data nor any check reads is invisible to acceptance** -/
theorem accept_setInt_unread (env : Env) (now : Int) (vs : Bool) (f : Field) (v : Int)
    (hf : ∀ x ∈ tbl.terms, x.reads f = false) (hne : f ≠ .creationDate) (t : Txn)
    (hc : decide ((t.setInt f v).int .transactionType = tbl.scType) = decide (t.int .transactionType = tbl.scType)) :
    accept tbl H env now vs (t.setInt f v) = accept tbl H env now vs t := by
  unfold accept computeProperties
  rw [propGo_setInt tbl H env f v tbl.propSteps t hc]
  cases propGo tbl H env t tbl.propSteps with
  | error r => rfl
  | ok t' =>
    simp only [Except.map]
    rw [validate_setInt_unread tbl H env now vs f v hf hne t']

end ZChain.TxnHash
