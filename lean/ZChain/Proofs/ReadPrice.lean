import ZChain.Proofs.F64
import ZChain.Model.ReadMarker
/-!
The float64 pricing formula of `commitBlobberRead`, evaluated exactly:
`currency.Coin(float64(price) * (float64(numReads*CHUNK_SIZE) / GB)) = ⌊price · numReads · 65536 / 2^30⌋`
whenever `price · numReads · 65536 < 2^53` (no rounding happens anywhere in the float pipeline).
-/
namespace ZChain.F64

/-- rounding an exact dyadic `n·2^k` (units of 2^-1074) with `n < 2^53`: no rounding. -/
theorem roundDiv_dyadic {n k N D : Nat} (h0 : 0 < n) (hn : n < 2 ^ 53) (hk : 53 - bitlen n ≤ k)
    (hE : k - (53 - bitlen n) ≤ 2045) (hD : 0 < D) (hN : N = n * 2 ^ k * D) :
    roundDiv false N D = .fin false (n * 2 ^ (53 - bitlen n)) (k - (53 - bitlen n)) := by
  have hb : bitlen n ≤ 53 := (bitlen_le_iff n 53).mpr hn
  have hb0 : 0 < bitlen n := by rw [lt_bitlen_iff]; simp only [Nat.pow_zero]; exact h0
  apply roundDiv_repr false hD
  · unfold Canon
    right
    refine ⟨?_, ?_, hE⟩
    · have h2 : 2 ^ (bitlen n - 1) ≤ n := by rw [← lt_bitlen_iff]; omega
      calc 2 ^ 52 = 2 ^ (bitlen n - 1) * 2 ^ (53 - bitlen n) := by
            rw [← Nat.pow_add]; congr 1; omega
        _ ≤ n * 2 ^ (53 - bitlen n) := Nat.mul_le_mul_right _ h2
    · calc n * 2 ^ (53 - bitlen n) < 2 ^ bitlen n * 2 ^ (53 - bitlen n) :=
            Nat.mul_lt_mul_of_lt_of_le (lt_two_pow_bitlen n) (Nat.le_refl _) (p2 _)
        _ = 2 ^ 53 := by rw [← Nat.pow_add]; congr 1; omega
  · rw [hN]
    have : k = (53 - bitlen n) + (k - (53 - bitlen n)) := by omega
    calc n * 2 ^ k * D = n * 2 ^ ((53 - bitlen n) + (k - (53 - bitlen n))) * D := by rw [← this]
      _ = n * 2 ^ (53 - bitlen n) * 2 ^ (k - (53 - bitlen n)) * D := by rw [Nat.pow_add]; ring

theorem roundDiv_zero (D : Nat) (hD : 0 < D) : roundDiv false 0 D = zero := by
  unfold zero
  exact roundDiv_repr false hD (by unfold Canon; left; exact ⟨by decide, rfl⟩) (by simp)

/-- magnitude form: a positive `n < 2^53` times `2^k` units is represented exactly. -/
theorem roundDiv_dyadic_mag {n k N D : Nat} (h0 : 0 < n) (hn : n < 2 ^ 53) (hk : 53 ≤ k) (hk2 : k ≤ 2045)
    (hD : 0 < D) (hN : N = n * 2 ^ k * D) :
    ∃ m E, roundDiv false N D = .fin false m E ∧ m * 2 ^ E = n * 2 ^ k ∧
      m = n * 2 ^ (53 - bitlen n) ∧ E = k - (53 - bitlen n) := by
  have hb : bitlen n ≤ 53 := (bitlen_le_iff n 53).mpr hn
  refine ⟨_, _, roundDiv_dyadic h0 hn (by omega) (by omega) hD hN, ?_, rfl, rfl⟩
  have : k = (53 - bitlen n) + (k - (53 - bitlen n)) := by omega
  calc n * 2 ^ (53 - bitlen n) * 2 ^ (k - (53 - bitlen n)) = n * 2 ^ ((53 - bitlen n) + (k - (53 - bitlen n))) := by
        rw [Nat.pow_add]; ring
    _ = n * 2 ^ k := by rw [← this]


theorem roundDiv_zero' (s : Bool) (D : Nat) (hD : 0 < D) : roundDiv s 0 D = .fin s 0 0 :=
  roundDiv_repr s hD (by unfold Canon; left; exact ⟨by decide, rfl⟩) (by simp)

/-- a non-negative result of rounding: finite non-negative, or `+∞`. -/
def NN (x : F64) : Prop := x = .inf false ∨ ∃ m E, x = .fin false m E

theorem roundDiv_NN (N D : Nat) : NN (roundDiv false N D) := by
  rw [roundDiv_eq]
  split
  · exact Or.inl rfl
  · exact Or.inr ⟨_, _, rfl⟩

theorem leNN_inf {x : F64} (h : NN x) : leNN x (.inf false) := by
  rcases h with h | ⟨m, E, h⟩ <;> rw [h] <;> trivial

/-- dividing by a fixed positive finite double is monotone on non-negative values. -/
theorem div_pos_mono (g : Nat) (Eg : Nat) (hg : g ≠ 0) (a b : F64) (ha : NN a) (hb : NN b) (h : leNN a b) :
    NN (div a (.fin false g Eg)) ∧ NN (div b (.fin false g Eg)) ∧
      leNN (div a (.fin false g Eg)) (div b (.fin false g Eg)) := by
  have hD : 0 < g * 2 ^ Eg := Nat.mul_pos (Nat.pos_of_ne_zero hg) (p2 _)
  have dfin : ∀ m E, div (.fin false m E) (.fin false g Eg) = roundDiv false (m * 2 ^ E * 2 ^ 1074) (g * 2 ^ Eg) := by
    intro m E; simp only [div, if_neg hg, bne_self_eq_false]
  have dinf : div (.inf false) (.fin false g Eg) = .inf false := by simp [div]
  rcases ha with ha | ⟨m1, E1, ha⟩ <;> rcases hb with hb | ⟨m2, E2, hb⟩ <;> subst ha <;> subst hb
  · rw [dinf]; exact ⟨Or.inl rfl, Or.inl rfl, trivial⟩
  · exact absurd h (by simp [leNN])
  · rw [dinf, dfin]
    generalize m1 * 2 ^ E1 * 2 ^ 1074 = X
    generalize g * 2 ^ Eg = D
    exact ⟨roundDiv_NN X D, Or.inl rfl, leNN_inf (roundDiv_NN X D)⟩
  · rw [dfin, dfin]
    have h' : m1 * 2 ^ E1 ≤ m2 * 2 ^ E2 := h
    have hx : m1 * 2 ^ E1 * 2 ^ 1074 * (g * 2 ^ Eg) ≤ m2 * 2 ^ E2 * 2 ^ 1074 * (g * 2 ^ Eg) :=
      Nat.mul_le_mul_right _ (Nat.mul_le_mul_right _ h')
    generalize m1 * 2 ^ E1 * 2 ^ 1074 = X1 at hx ⊢
    generalize m2 * 2 ^ E2 * 2 ^ 1074 = X2 at hx ⊢
    generalize g * 2 ^ Eg = D at hx hD ⊢
    exact ⟨roundDiv_NN X1 D, roundDiv_NN X2 D, roundDiv_mono hD hD hx⟩

/-- `uint64(p · x)` is monotone in `x ≥ 0` for a fixed finite `p ≥ 0`, wherever both conversions are defined. -/
theorem trunc_mul_mono (mp Ep : Nat) (a b : F64) (ha : NN a) (hb : NN b) (h : leNN a b) (v1 v2 : Nat)
    (h1 : toNatTrunc (mul (.fin false mp Ep) a) = some v1) (h2 : toNatTrunc (mul (.fin false mp Ep) b) = some v2) :
    v1 ≤ v2 := by
  have mfin : ∀ m E, mul (.fin false mp Ep) (.fin false m E) = roundDiv false (mp * m * 2 ^ (Ep + E)) (2 ^ 1074) := by
    intro m E; simp only [mul, bne_self_eq_false]
  have minf : ∀ v, toNatTrunc (mul (.fin false mp Ep) (.inf false)) ≠ some v := by
    intro v; simp only [mul]; split <;> simp [toNatTrunc]
  rcases hb with hb | ⟨m2, E2, hb⟩ <;> subst hb
  · exact absurd h2 (minf v2)
  · rcases ha with ha | ⟨m1, E1, ha⟩ <;> subst ha
    · exact absurd h (by simp [leNN])
    · rw [mfin] at h1 h2
      have h' : m1 * 2 ^ E1 ≤ m2 * 2 ^ E2 := h
      have hm := roundDiv_mono (N1 := mp * m1 * 2 ^ (Ep + E1)) (D1 := 2 ^ 1074) (N2 := mp * m2 * 2 ^ (Ep + E2)) (D2 := 2 ^ 1074)
        (p2 _) (p2 _) (by
          apply Nat.mul_le_mul_right
          calc mp * m1 * 2 ^ (Ep + E1) = mp * 2 ^ Ep * (m1 * 2 ^ E1) := by rw [Nat.pow_add]; ring
            _ ≤ mp * 2 ^ Ep * (m2 * 2 ^ E2) := Nat.mul_le_mul_left _ h'
            _ = mp * m2 * 2 ^ (Ep + E2) := by rw [Nat.pow_add]; ring)
      rcases roundDiv_NN (mp * m1 * 2 ^ (Ep + E1)) (2 ^ 1074) with c1 | ⟨x1, y1, c1⟩ <;>
        rcases roundDiv_NN (mp * m2 * 2 ^ (Ep + E2)) (2 ^ 1074) with c2 | ⟨x2, y2, c2⟩ <;> rw [c1] at h1 hm <;> rw [c2] at h2 hm
      · simp [toNatTrunc] at h1
      · simp [toNatTrunc] at h1
      · simp [toNatTrunc] at h2
      · have hle : x1 * 2 ^ y1 ≤ x2 * 2 ^ y2 := hm
        simp only [toNatTrunc, Bool.false_eq_true, if_false] at h1 h2
        split at h1 <;> split at h2
        · cases h1; cases h2; exact Nat.div_le_div_right hle
        · cases h2
        · cases h1
        · cases h1

end ZChain.F64

namespace ZChain.ReadMarker
open ZChain ZChain.F64 ZChain.Generated.C15

theorem wrapI64_small (s : Nat) (hs : s < 2 ^ 63) : wrapI64 (s : Int) = (s : Int) := by
  unfold wrapI64 Coin.u64ToI64 Coin.i64ToU64 Coin.U64 Coin.I64max
  simp only [Int.ofNat_eq_natCast]
  have h1 : ((s : Int) % ((18446744073709551616 : Nat) : Int)).toNat = s := by
    have : (s : Int) % ((18446744073709551616 : Nat) : Int) = (s : Int) := by
      apply Int.emod_eq_of_lt (by omega) (by omega)
    rw [this]; simp
  rw [h1]
  have : s ≤ 9223372036854775807 := by omega
  rw [if_pos this]

/-- `sizeInGB(s)` for a byte count `0 < s < 2^53`: exactly `s / 2^30` (magnitude `s · 2^1044` units). -/
theorem sizeGB_exact (s : Nat) (h0 : 0 < s) (hs : s < 2 ^ 53) :
    ∃ m E, F64.div (F64.ofInt (s : Int)) (F64.ofNat gb) = .fin false m E ∧ m * 2 ^ E = s * 2 ^ 1044 := by
  have hgb : F64.ofNat gb = .fin false (2 ^ 52) 1052 := by decide +kernel
  obtain ⟨ms, Es, hof, hmag, _⟩ := ofNat_exact s hs
  have hofi : F64.ofInt (s : Int) = F64.ofNat s := by
    unfold F64.ofInt F64.ofNat
    have : decide ((s : Int) < 0) = false := by simp
    rw [this]; simp
  rw [hofi, hof, hgb]
  have hne : (2 : Nat) ^ 52 ≠ 0 := Nat.pos_iff_ne_zero.mp (p2 52)
  simp only [F64.div, if_neg hne, bne_self_eq_false]
  obtain ⟨m, E, h, hm, _, _⟩ := roundDiv_dyadic_mag (n := s) (k := 1044) (N := ms * 2 ^ Es * 2 ^ 1074) (D := 2 ^ 52 * 2 ^ 1052)
    h0 hs (by decide) (by decide) (Nat.mul_pos (p2 _) (p2 _)) (by
      rw [hmag]
      have : (2 : Nat) ^ 1074 * 2 ^ 1074 = 2 ^ 1044 * (2 ^ 52 * 2 ^ 1052) := by
        rw [← Nat.pow_add, ← Nat.pow_add, ← Nat.pow_add]
      calc s * 2 ^ 1074 * 2 ^ 1074 = s * (2 ^ 1074 * 2 ^ 1074) := by ring
        _ = s * (2 ^ 1044 * (2 ^ 52 * 2 ^ 1052)) := by rw [this]
        _ = s * 2 ^ 1044 * (2 ^ 52 * 2 ^ 1052) := by ring)
  refine ⟨m, E, ?_, ?_⟩
  · rw [h]
  · rw [hm]

theorem div_2_1044 (a : Nat) : a * 2 ^ 1044 / 2 ^ 1074 = a / 2 ^ 30 := by
  have : (2 : Nat) ^ 1074 = 2 ^ 1044 * 2 ^ 30 := by rw [← Nat.pow_add]
  rw [this, Nat.mul_comm a, Nat.mul_div_mul_left _ _ (p2 1044)]

/-- **the pricing formula is the exact floor** when nothing in the float pipeline rounds:
`price · numReads · CHUNK < 2^53`. -/
theorem chargeOf_exact (price n : Nat) (hp : price < 2 ^ 53) (hs : n * chunkSize < 2 ^ 53)
    (h : price * (n * chunkSize) < 2 ^ 53) :
    chargeOf price (n : Int) = some (price * (n * chunkSize) / gb) := by
  unfold chargeOf sizeRead
  have hcast : ((n : Int) * (chunkSize : Int)) = ((n * chunkSize : Nat) : Int) := by push_cast; rfl
  rw [hcast, wrapI64_small _ (Nat.lt_of_lt_of_le hs (Nat.pow_le_pow_right (by decide) (by decide)))]
  generalize n * chunkSize = s at hs h
  have hgbv : gb = 2 ^ 30 := by decide
  rcases Nat.eq_zero_or_pos s with hs0 | hs0
  · subst hs0
    have h1 : F64.div (F64.ofInt ((0 : Nat) : Int)) (F64.ofNat gb) = F64.zero := by decide +kernel
    rw [h1]
    rcases Nat.eq_zero_or_pos price with hp0 | hp0
    · subst hp0; decide +kernel
    · obtain ⟨mp, Ep, hof, _, _⟩ := ofNat_exact price hp
      rw [hof]
      show F64.toNatTrunc (roundDiv (false != false) (mp * 0 * 2 ^ (Ep + 0)) (2 ^ 1074)) = _
      simp only [Nat.mul_zero, Nat.zero_mul, bne_self_eq_false]
      rw [roundDiv_zero _ (p2 _)]
      simp [F64.toNatTrunc, F64.zero]
  · obtain ⟨ms, Es, hsz, hsmag⟩ := sizeGB_exact s hs0 hs
    rw [hsz]
    rcases Nat.eq_zero_or_pos price with hp0 | hp0
    · subst hp0
      have : F64.ofNat 0 = .fin false 0 0 := ofNat_zero
      rw [this]
      show F64.toNatTrunc (roundDiv (false != false) (0 * ms * 2 ^ (0 + Es)) (2 ^ 1074)) = _
      simp only [Nat.zero_mul, bne_self_eq_false]
      rw [roundDiv_zero _ (p2 _)]
      simp [F64.toNatTrunc, F64.zero]
    · obtain ⟨mp, Ep, hof, hpmag, _⟩ := ofNat_exact price hp
      rw [hof]
      show F64.toNatTrunc (roundDiv (false != false) (mp * ms * 2 ^ (Ep + Es)) (2 ^ 1074)) = _
      simp only [bne_self_eq_false]
      obtain ⟨m, E, hr, hm, _, _⟩ := roundDiv_dyadic_mag (n := price * s) (k := 1044) (N := mp * ms * 2 ^ (Ep + Es)) (D := 2 ^ 1074)
        (Nat.mul_pos hp0 hs0) h (by decide) (by decide) (p2 _) (by
          calc mp * ms * 2 ^ (Ep + Es) = (mp * 2 ^ Ep) * (ms * 2 ^ Es) := by rw [Nat.pow_add]; ring
            _ = (price * 2 ^ 1074) * (s * 2 ^ 1044) := by rw [hpmag, hsmag]
            _ = price * s * 2 ^ 1044 * 2 ^ 1074 := by ring)
      rw [hr]
      unfold F64.toNatTrunc
      simp only [Bool.false_eq_true, if_false]
      rw [hm, div_2_1044, hgbv]
      have : price * s / 2 ^ 30 < 2 ^ 64 := by
        have : price * s / 2 ^ 30 ≤ price * s := Nat.div_le_self _ _
        have : (2 : Nat) ^ 53 < 2 ^ 64 := by decide
        omega
      rw [if_pos this]

/-- the price of a zero increment is zero (whenever the conversion is defined at all). -/
theorem chargeOf_zero (price v : Nat) (h : chargeOf price 0 = some v) : v = 0 := by
  unfold chargeOf at h
  have hs : sizeRead 0 = F64.zero := by decide +kernel
  rw [hs] at h
  unfold F64.ofNat at h
  rw [F64.roundDiv_eq] at h
  split at h
  · simp [F64.mul, F64.zero, F64.toNatTrunc] at h
  · simp only [F64.mul, F64.zero, Nat.mul_zero, Nat.zero_mul, Bool.bne_false] at h
    rw [F64.roundDiv_zero _ (F64.p2 _)] at h
    simp [F64.toNatTrunc, F64.zero] at h
    exact h.symm



/-- inside the guard of `commitBlobberRead` (`0 ≤ Δ ≤ MaxInt64/CHUNK_SIZE`) the `int64` byte count does not wrap. -/
theorem wrap_in_range (n : Int) (h0 : 0 ≤ n) (h : n ≤ maxDelta) :
    wrapI64 (n * (chunkSize : Int)) = n * (chunkSize : Int) ∧ n * (chunkSize : Int) < 2 ^ 63 := by
  have hmd : maxDelta = 140737488355327 := by decide
  have hcs : (chunkSize : Int) = 65536 := by decide
  rw [hmd] at h
  rw [hcs]
  obtain ⟨k, rfl⟩ : ∃ k : Nat, n = (k : Int) := ⟨n.toNat, by omega⟩
  have hk : k * 65536 < 2 ^ 63 := by omega
  refine ⟨?_, by omega⟩
  have := wrapI64_small (k * 65536) hk
  push_cast at this
  exact this

/-- at read price 0 nothing is charged, whatever the increment (when the conversion is defined at all). -/
theorem chargeOf_price_zero (n : Int) (v : Nat) (h : chargeOf 0 n = some v) : v = 0 := by
  unfold chargeOf at h
  rw [ofNat_zero] at h
  generalize sizeRead n = x at h
  cases x with
  | nan => simp [F64.mul, F64.zero, F64.toNatTrunc] at h
  | inf t => simp [F64.mul, F64.zero, F64.toNatTrunc] at h
  | fin t m E =>
    simp only [F64.mul, F64.zero, Nat.zero_mul] at h
    rw [roundDiv_zero' _ _ (p2 _)] at h
    simp only [F64.toNatTrunc, Nat.zero_mul, Nat.zero_div] at h
    split at h <;> simp at h <;> exact h.symm

/-- **the charge is monotone in the increment** over the whole range the guard admits (`Δ·CHUNK < 2^63`), for every
read price below 2^53: beyond the exactness range (`price·Δ·CHUNK ≥ 2^53`) the float product is rounded to nearest
(one part in 2^53), never reordered. -/
theorem chargeOf_mono (price n1 n2 v1 v2 : Nat) (hp : price < 2 ^ 53) (hle : n1 ≤ n2) (hr : n2 * chunkSize < 2 ^ 63)
    (h1 : chargeOf price (n1 : Int) = some v1) (h2 : chargeOf price (n2 : Int) = some v2) : v1 ≤ v2 := by
  unfold chargeOf sizeRead at h1 h2
  have hc1 : ((n1 : Int) * (chunkSize : Int)) = ((n1 * chunkSize : Nat) : Int) := by push_cast; rfl
  have hc2 : ((n2 : Int) * (chunkSize : Int)) = ((n2 * chunkSize : Nat) : Int) := by push_cast; rfl
  have hr1 : n1 * chunkSize < 2 ^ 63 := Nat.lt_of_le_of_lt (Nat.mul_le_mul_right _ hle) hr
  rw [hc1, wrapI64_small _ hr1] at h1
  rw [hc2, wrapI64_small _ hr] at h2
  have hofi : ∀ s : Nat, F64.ofInt (s : Int) = roundDiv false (s * 2 ^ 1074) 1 := by
    intro s
    unfold F64.ofInt
    have : decide ((s : Int) < 0) = false := by simp
    rw [this]; simp
  rw [hofi] at h1 h2
  have hgb : F64.ofNat gb = .fin false (2 ^ 52) 1052 := by decide +kernel
  rw [hgb] at h1 h2
  obtain ⟨mp, Ep, hof, _, _⟩ := ofNat_exact price hp
  rw [hof] at h1 h2
  have hne : (2 : Nat) ^ 52 ≠ 0 := Nat.pos_iff_ne_zero.mp (p2 52)
  have key : ∀ P : Nat, leNN (roundDiv false (n1 * chunkSize * P) 1) (roundDiv false (n2 * chunkSize * P) 1) := fun P =>
    roundDiv_mono Nat.one_pos Nat.one_pos
      (Nat.mul_le_mul_right 1 (Nat.mul_le_mul_right P (Nat.mul_le_mul_right chunkSize hle)))
  generalize (2 : Nat) ^ 1074 = P at h1 h2
  have hs := key P
  have na1 : NN (roundDiv false (n1 * chunkSize * P) 1) := roundDiv_NN _ _
  have na2 : NN (roundDiv false (n2 * chunkSize * P) 1) := roundDiv_NN _ _
  generalize roundDiv false (n1 * chunkSize * P) 1 = a at h1 hs na1
  generalize roundDiv false (n2 * chunkSize * P) 1 = b at h2 hs na2
  obtain ⟨da, db, hd⟩ := div_pos_mono (2 ^ 52) 1052 hne a b na1 na2 hs
  generalize F64.div a (.fin false (2 ^ 52) 1052) = a' at h1 da hd
  generalize F64.div b (.fin false (2 ^ 52) 1052) = b' at h2 db hd
  exact trunc_mul_mono mp Ep a' b' da db hd v1 v2 h1 h2

end ZChain.ReadMarker
