import ZChain.Model.Round
/-! Helper lemmas for C37 (core-only): what `locked`/`rlocked` compute, and the invariant of the concurrent
phase model. -/
namespace ZChain.Round

/-- nobody holds `r.mutex` -/
def Free (s : R) : Prop := s.mutexHeld = false ∧ s.readers = 0

theorem locked_eq {α} (f : R → α × R) (s : R) :
    locked f s = if s.mutexHeld || s.readers != 0 then .blocked s
      else .ret (f { s with mutexHeld := true }).1 { (f { s with mutexHeld := true }).2 with mutexHeld := false } := by
  unfold locked M.bind lock
  by_cases h : (s.mutexHeld || s.readers != 0) = true
  · simp [h]
  · simp [h, act, unlock, M.pure]

theorem rlocked_eq {α} (f : R → α × R) (s : R) :
    rlocked f s = if s.mutexHeld then .blocked s
      else .ret (f { s with readers := s.readers + 1 }).1
        { (f { s with readers := s.readers + 1 }).2 with readers := (f { s with readers := s.readers + 1 }).2.readers - 1 } := by
  unfold rlocked M.bind rlock
  by_cases h : s.mutexHeld = true
  · simp [h]
  · simp [h, act, runlock, M.pure]

theorem setPhaseF_phase (p : Int) (s : R) : (setPhaseF p s).phase = if p > s.phase then p else s.phase := by
  unfold setPhaseF; split <;> rfl

theorem setPhaseF_ge (p : Int) (s : R) : s.phase ≤ (setPhaseF p s).phase := by
  rw [setPhaseF_phase]; split <;> omega

theorem setPhaseF_mutexHeld (p : Int) (s : R) : (setPhaseF p s).mutexHeld = s.mutexHeld := by
  unfold setPhaseF; split <;> rfl
theorem setPhaseF_readers (p : Int) (s : R) : (setPhaseF p s).readers = s.readers := by
  unfold setPhaseF; split <;> rfl
theorem setPhaseF_tcount (p : Int) (s : R) : (setPhaseF p s).tcount = s.tcount := by
  unfold setPhaseF; split <;> rfl
theorem setPhaseF_fin (p : Int) (s : R) : (setPhaseF p s).fin = s.fin := by
  unfold setPhaseF; split <;> rfl
theorem setPhaseF_shares (p : Int) (s : R) : (setPhaseF p s).shares = s.shares := by
  unfold setPhaseF; split <;> rfl
theorem setPhaseF_number (p : Int) (s : R) : (setPhaseF p s).number = s.number := by
  unfold setPhaseF; split <;> rfl
theorem setPhaseF_cap (p : Int) (s : R) : (setPhaseF p s).cap = s.cap := by
  unfold setPhaseF; split <;> rfl

theorem setPhaseF_votes (p : Int) (s : R) : (setPhaseF p s).votes = s.votes := by
  unfold setPhaseF; split <;> rfl
theorem setPhaseF_perm (p : Int) (s : R) : (setPhaseF p s).perm = s.perm := by
  unfold setPhaseF; split <;> rfl
theorem setPhaseF_self (p : Int) (s : R) : (setPhaseF p s).self = s.self := by
  unfold setPhaseF; split <;> rfl

/-- `addProposedBlock` touches only `proposed` -/
theorem addProposedF_mutexHeld (b : Blk) (s : R) : (addProposedF b s).mutexHeld = s.mutexHeld := by
  unfold addProposedF; split <;> rfl
theorem addProposedF_readers (b : Blk) (s : R) : (addProposedF b s).readers = s.readers := by
  unfold addProposedF; split <;> rfl
theorem addProposedF_tcount (b : Blk) (s : R) : (addProposedF b s).tcount = s.tcount := by
  unfold addProposedF; split <;> rfl
theorem addProposedF_fin (b : Blk) (s : R) : (addProposedF b s).fin = s.fin := by
  unfold addProposedF; split <;> rfl
theorem addProposedF_shares (b : Blk) (s : R) : (addProposedF b s).shares = s.shares := by
  unfold addProposedF; split <;> rfl
theorem addProposedF_number (b : Blk) (s : R) : (addProposedF b s).number = s.number := by
  unfold addProposedF; split <;> rfl
theorem addProposedF_cap (b : Blk) (s : R) : (addProposedF b s).cap = s.cap := by
  unfold addProposedF; split <;> rfl
theorem addProposedF_phase (b : Blk) (s : R) : (addProposedF b s).phase = s.phase := by
  unfold addProposedF; split <;> rfl
theorem addProposedF_votes (b : Blk) (s : R) : (addProposedF b s).votes = s.votes := by
  unfold addProposedF; split <;> rfl
theorem addProposedF_perm (b : Blk) (s : R) : (addProposedF b s).perm = s.perm := by
  unfold addProposedF; split <;> rfl
theorem addProposedF_self (b : Blk) (s : R) : (addProposedF b s).self = s.self := by
  unfold addProposedF; split <;> rfl

/-- `AddNotarizedBlock` touches `proposed`, `notarized`, `block`, and the phase through `setPhase(Share)` -/
theorem addNotarizedF_mutexHeld (b : Blk) (s : R) : (addNotarizedF b s).mutexHeld = s.mutexHeld := by
  unfold addNotarizedF
  simp only
  split
  · exact addProposedF_mutexHeld b s
  · simp only [setPhaseF_mutexHeld, addProposedF_mutexHeld]
theorem addNotarizedF_readers (b : Blk) (s : R) : (addNotarizedF b s).readers = s.readers := by
  unfold addNotarizedF
  simp only
  split
  · exact addProposedF_readers b s
  · simp only [setPhaseF_readers, addProposedF_readers]
theorem addNotarizedF_tcount (b : Blk) (s : R) : (addNotarizedF b s).tcount = s.tcount := by
  unfold addNotarizedF
  simp only
  split
  · exact addProposedF_tcount b s
  · simp only [setPhaseF_tcount, addProposedF_tcount]
theorem addNotarizedF_fin (b : Blk) (s : R) : (addNotarizedF b s).fin = s.fin := by
  unfold addNotarizedF
  simp only
  split
  · exact addProposedF_fin b s
  · simp only [setPhaseF_fin, addProposedF_fin]
theorem addNotarizedF_shares (b : Blk) (s : R) : (addNotarizedF b s).shares = s.shares := by
  unfold addNotarizedF
  simp only
  split
  · exact addProposedF_shares b s
  · simp only [setPhaseF_shares, addProposedF_shares]
theorem addNotarizedF_number (b : Blk) (s : R) : (addNotarizedF b s).number = s.number := by
  unfold addNotarizedF
  simp only
  split
  · exact addProposedF_number b s
  · simp only [setPhaseF_number, addProposedF_number]
theorem addNotarizedF_cap (b : Blk) (s : R) : (addNotarizedF b s).cap = s.cap := by
  unfold addNotarizedF
  simp only
  split
  · exact addProposedF_cap b s
  · simp only [setPhaseF_cap, addProposedF_cap]
theorem addNotarizedF_votes (b : Blk) (s : R) : (addNotarizedF b s).votes = s.votes := by
  unfold addNotarizedF
  simp only
  split
  · exact addProposedF_votes b s
  · simp only [setPhaseF_votes, addProposedF_votes]
theorem addNotarizedF_perm (b : Blk) (s : R) : (addNotarizedF b s).perm = s.perm := by
  unfold addNotarizedF
  simp only
  split
  · exact addProposedF_perm b s
  · simp only [setPhaseF_perm, addProposedF_perm]
theorem addNotarizedF_self (b : Blk) (s : R) : (addNotarizedF b s).self = s.self := by
  unfold addNotarizedF
  simp only
  split
  · exact addProposedF_self b s
  · simp only [setPhaseF_self, addProposedF_self]
theorem addNotarizedF_phase_ge (b : Blk) (s : R) : s.phase ≤ (addNotarizedF b s).phase := by
  unfold addNotarizedF
  simp only
  split
  · rw [addProposedF_phase]; exact Int.le_refl _
  · have := setPhaseF_ge Share (addProposedF b s)
    rw [addProposedF_phase] at this
    exact this

/-! ### timeout counter -/

theorem scanVotes_ge (self : Nat) (votes : List (Nat × Int)) (c : Int) (l : List Nat) :
    c ≤ scanVotes self votes c l := by
  induction l with
  | nil => exact Int.le_refl _
  | cons m ms ih =>
    unfold scanVotes
    split
    · exact ih
    · split
      · split
        · omega
        · exact ih
      · exact ih

theorem wrap64_succ {c : Int} (h1 : -9223372036854775808 ≤ c) (h2 : c < 9223372036854775807) :
    wrap64 (c + 1) = c + 1 := by
  unfold wrap64; omega

end ZChain.Round
