import ZChain.Model.Round
/-! Helper lemmas for C37 (core-only): what the step sequences compute (`step_spec`: an operation either blocks
without any effect, or returns the answer of its body and applies the body's effect to the data), and which
fields each body touches. -/
namespace ZChain.Round

/-- nobody holds `r.mutex` -/
def Free (s : R) : Prop := s.mutexHeld = false ∧ s.readers = 0

theorem locked_eq {α} (f : D → α × D) (s : R) :
    locked f s = if s.mutexHeld || s.readers != 0 then .blocked s
      else .ret (f s.d).1 { d := (f s.d).2, mutexHeld := false, readers := s.readers } := by
  unfold locked M.bind lock
  by_cases h : (s.mutexHeld || s.readers != 0) = true
  · simp [h]
  · simp [h, act, unlock, M.pure]

theorem rlocked_eq {α} (f : D → α × D) (s : R) :
    rlocked f s = if s.mutexHeld then .blocked s
      else .ret (f s.d).1 { d := (f s.d).2, mutexHeld := s.mutexHeld, readers := s.readers + 1 - 1 } := by
  unfold rlocked M.bind rlock
  by_cases h : s.mutexHeld = true
  · simp [h]
  · simp [h, act, runlock, M.pure]

/-- does `op` block when called in lock state `(mutexHeld, readers)` and data `d`? -/
def blocks (s : R) (op : Op) : Bool :=
  match op with
  | .setSeed _ _ => s.d.seed == 0 && (s.mutexHeld || s.readers != 0)
  | op => match op.lk with
    | .none => false
    | .write => s.mutexHeld || s.readers != 0
    | .read => s.mutexHeld

def Op.isRestart : Op → Bool
  | .restart => true
  | _ => false

/-- **what a call does**: it blocks with no effect at all, or it returns the body's answer, applies the body's
effect to the data, and leaves the lock state as it found it — except the rejected `Restart` of the unrepaired
code, which leaves the write lock held. -/
theorem step_spec (cfg : Cfg) (s : R) (op : Op) :
    step cfg s op =
      if blocks s op then (s, none)
      else ({ d := (op.body s.d).2,
              mutexHeld := if op.isRestart then decide (s.d.phase ≥ Share) && !cfg.restartUnlocksOnReject else s.mutexHeld,
              readers := s.readers },
            some (op.body s.d).1) := by
  cases op <;>
    simp only [step, opM, Op.lk, blocks, locked_eq, rlocked_eq, act, Op.body, Op.isRestart] <;>
    first
      | (simp; done)
      | (by_cases h : (s.mutexHeld || s.readers != 0) = true <;> simp_all; done)
      | (by_cases h : s.mutexHeld = true <;> simp_all; done)
      | skip
  · -- Restart
    by_cases h : (s.mutexHeld || s.readers != 0) = true
    · simp [restart, M.bind, lock, h]
    · by_cases hp : s.d.phase ≥ Share
      · cases hc : cfg.restartUnlocksOnReject <;>
          simp_all [restart, M.bind, M.pure, lock, unlock]
      · have hp' : ¬ (Share ≤ s.d.phase) := hp
        have h' : (s.mutexHeld || s.readers != 0) = false := by simpa using h
        simp only [restart, M.bind, lock, h', ge_iff_le, M.pure, unlock, act]
        simp only [Bool.false_eq_true, if_false, if_neg hp', decide_eq_false hp', Bool.false_and]
        rfl
  · -- SetRandomSeed
    by_cases hs : s.d.seed = 0
    · by_cases h : (s.mutexHeld || s.readers != 0) = true
      · simp [setSeed, M.bind, lock, h, hs]
      · simp_all [setSeed, M.bind, lock, unlock, act]
    · simp [setSeed, hs]
  · -- SetRandomSeedForNotarizedBlock
    by_cases h : (s.mutexHeld || s.readers != 0) = true
    · simp [setSeedNB, M.bind, lock, h]
    · simp_all [setSeedNB, M.bind, lock, unlock, act]

theorem setPhaseF_phase (p : Int) (s : D) : (setPhaseF p s).phase = if p > s.phase then p else s.phase := by
  unfold setPhaseF; split <;> rfl

theorem setPhaseF_ge (p : Int) (s : D) : s.phase ≤ (setPhaseF p s).phase := by
  rw [setPhaseF_phase]; split <;> omega

theorem setPhaseF_tcount (p : Int) (s : D) : (setPhaseF p s).tcount = s.tcount := by
  unfold setPhaseF; split <;> rfl
theorem setPhaseF_fin (p : Int) (s : D) : (setPhaseF p s).fin = s.fin := by
  unfold setPhaseF; split <;> rfl
theorem setPhaseF_shares (p : Int) (s : D) : (setPhaseF p s).shares = s.shares := by
  unfold setPhaseF; split <;> rfl
theorem setPhaseF_number (p : Int) (s : D) : (setPhaseF p s).number = s.number := by
  unfold setPhaseF; split <;> rfl
theorem setPhaseF_cap (p : Int) (s : D) : (setPhaseF p s).cap = s.cap := by
  unfold setPhaseF; split <;> rfl
theorem setPhaseF_votes (p : Int) (s : D) : (setPhaseF p s).votes = s.votes := by
  unfold setPhaseF; split <;> rfl
theorem setPhaseF_perm (p : Int) (s : D) : (setPhaseF p s).perm = s.perm := by
  unfold setPhaseF; split <;> rfl
theorem setPhaseF_self (p : Int) (s : D) : (setPhaseF p s).self = s.self := by
  unfold setPhaseF; split <;> rfl

/-- `addProposedBlock` touches only `proposed` -/
theorem addProposedF_tcount (b : Blk) (s : D) : (addProposedF b s).tcount = s.tcount := by
  unfold addProposedF; split <;> rfl
theorem addProposedF_fin (b : Blk) (s : D) : (addProposedF b s).fin = s.fin := by
  unfold addProposedF; split <;> rfl
theorem addProposedF_shares (b : Blk) (s : D) : (addProposedF b s).shares = s.shares := by
  unfold addProposedF; split <;> rfl
theorem addProposedF_number (b : Blk) (s : D) : (addProposedF b s).number = s.number := by
  unfold addProposedF; split <;> rfl
theorem addProposedF_cap (b : Blk) (s : D) : (addProposedF b s).cap = s.cap := by
  unfold addProposedF; split <;> rfl
theorem addProposedF_phase (b : Blk) (s : D) : (addProposedF b s).phase = s.phase := by
  unfold addProposedF; split <;> rfl
theorem addProposedF_votes (b : Blk) (s : D) : (addProposedF b s).votes = s.votes := by
  unfold addProposedF; split <;> rfl
theorem addProposedF_perm (b : Blk) (s : D) : (addProposedF b s).perm = s.perm := by
  unfold addProposedF; split <;> rfl
theorem addProposedF_self (b : Blk) (s : D) : (addProposedF b s).self = s.self := by
  unfold addProposedF; split <;> rfl

/-- `AddNotarizedBlock` touches `proposed`, `notarized`, `block`, and the phase through `setPhase(Share)` -/
theorem addNotarizedF_tcount (b : Blk) (s : D) : (addNotarizedF b s).tcount = s.tcount := by
  unfold addNotarizedF
  simp only
  split
  · exact addProposedF_tcount b s
  · simp only [setPhaseF_tcount, addProposedF_tcount]
theorem addNotarizedF_fin (b : Blk) (s : D) : (addNotarizedF b s).fin = s.fin := by
  unfold addNotarizedF
  simp only
  split
  · exact addProposedF_fin b s
  · simp only [setPhaseF_fin, addProposedF_fin]
theorem addNotarizedF_shares (b : Blk) (s : D) : (addNotarizedF b s).shares = s.shares := by
  unfold addNotarizedF
  simp only
  split
  · exact addProposedF_shares b s
  · simp only [setPhaseF_shares, addProposedF_shares]
theorem addNotarizedF_number (b : Blk) (s : D) : (addNotarizedF b s).number = s.number := by
  unfold addNotarizedF
  simp only
  split
  · exact addProposedF_number b s
  · simp only [setPhaseF_number, addProposedF_number]
theorem addNotarizedF_cap (b : Blk) (s : D) : (addNotarizedF b s).cap = s.cap := by
  unfold addNotarizedF
  simp only
  split
  · exact addProposedF_cap b s
  · simp only [setPhaseF_cap, addProposedF_cap]
theorem addNotarizedF_votes (b : Blk) (s : D) : (addNotarizedF b s).votes = s.votes := by
  unfold addNotarizedF
  simp only
  split
  · exact addProposedF_votes b s
  · simp only [setPhaseF_votes, addProposedF_votes]
theorem addNotarizedF_perm (b : Blk) (s : D) : (addNotarizedF b s).perm = s.perm := by
  unfold addNotarizedF
  simp only
  split
  · exact addProposedF_perm b s
  · simp only [setPhaseF_perm, addProposedF_perm]
theorem addNotarizedF_self (b : Blk) (s : D) : (addNotarizedF b s).self = s.self := by
  unfold addNotarizedF
  simp only
  split
  · exact addProposedF_self b s
  · simp only [setPhaseF_self, addProposedF_self]
theorem addNotarizedF_phase_ge (b : Blk) (s : D) : s.phase ≤ (addNotarizedF b s).phase := by
  unfold addNotarizedF
  simp only
  split
  · rw [addProposedF_phase]; exact Int.le_refl _
  · have := setPhaseF_ge Share (addProposedF b s)
    rw [addProposedF_phase] at this
    exact this

/-! ### timeout counter -/

theorem scanVotes_ge (self : Nat) (votes : List (Nat × Int)) (c : Int) (l : List Nat) :
    c ≤ scanVotes self votes c l := by
  induction l with
  | nil => exact Int.le_refl _
  | cons m ms ih =>
    unfold scanVotes
    split
    · exact ih
    · split
      · split
        · omega
        · exact ih
      · exact ih

theorem wrap64_succ {c : Int} (h1 : -9223372036854775808 ≤ c) (h2 : c < 9223372036854775807) :
    wrap64 (c + 1) = c + 1 := by
  unfold wrap64; omega

end ZChain.Round
