import ZChain.Model.IndexOwn
/-! Arithmetic of the ownership-by-index discipline: a strided partition and a slot map `idx / D` never make two
workers share a slot when stride = bound = D (or D divides the stride and the bound does not exceed it); they do as soon
as D does not divide the stride. -/
namespace ZChain.IndexOwn

theorem slot_of_owner {B n k i : Nat} (h : owns B B n k i) : slot B i = k := by
  obtain ⟨h1, h2, _⟩ := h
  unfold slot
  apply Nat.div_eq_of_lt_le
  · exact h1
  · rw [Nat.succ_mul]; exact h2

/-- stride = bound = batch size: worker `k` only ever touches slot `k` -/
theorem disjoint_of_eq (B n : Nat) : SlotsDisjoint B B B n := by
  intro k k' i i' hk h h'
  rw [slot_of_owner h, slot_of_owner h']
  exact hk

/-- more generally: the batch size divides the stride and the bound is at most the stride -/
theorem disjoint_of_dvd (S E D n c : Nat) (hD : 0 < D) (hS : S = c * D) (hE : E ≤ S) : SlotsDisjoint S E D n := by
  intro k k' i i' hk h h'
  obtain ⟨h1, h2, _⟩ := h
  obtain ⟨h1', h2', _⟩ := h'
  unfold slot
  intro heq
  -- i / D ∈ [k·c, (k+1)·c) and i' / D ∈ [k'·c, (k'+1)·c)
  have hi : k * c ≤ i / D ∧ i / D < (k + 1) * c := by
    constructor
    · rw [Nat.le_div_iff_mul_le hD]
      calc k * c * D = k * (c * D) := Nat.mul_assoc _ _ _
        _ = k * S := by rw [hS]
        _ ≤ i := h1
    · rw [Nat.div_lt_iff_lt_mul hD]
      calc i < k * S + E := h2
        _ ≤ k * S + S := Nat.add_le_add_left hE _
        _ = (k + 1) * S := by rw [Nat.succ_mul]
        _ = (k + 1) * (c * D) := by rw [hS]
        _ = (k + 1) * c * D := (Nat.mul_assoc _ _ _).symm
  have hi' : k' * c ≤ i' / D ∧ i' / D < (k' + 1) * c := by
    constructor
    · rw [Nat.le_div_iff_mul_le hD]
      calc k' * c * D = k' * (c * D) := Nat.mul_assoc _ _ _
        _ = k' * S := by rw [hS]
        _ ≤ i' := h1'
    · rw [Nat.div_lt_iff_lt_mul hD]
      calc i' < k' * S + E := h2'
        _ ≤ k' * S + S := Nat.add_le_add_left hE _
        _ = (k' + 1) * S := by rw [Nat.succ_mul]
        _ = (k' + 1) * (c * D) := by rw [hS]
        _ = (k' + 1) * c * D := (Nat.mul_assoc _ _ _).symm
  rw [heq] at hi
  -- the two half-open intervals [k·c, (k+1)·c) and [k'·c, (k'+1)·c) are disjoint for k ≠ k'
  rcases Nat.lt_or_gt_of_ne hk with hlt | hgt
  · have : (k + 1) * c ≤ k' * c := Nat.mul_le_mul_right c hlt
    omega
  · have : (k' + 1) * c ≤ k * c := Nat.mul_le_mul_right c hgt
    omega

/-- conversely: if the batch size does not divide the stride, the last index of worker 0 and the first index of
worker 1 fall into one slot (for every limit that gives worker 1 an index) -/
theorem shared_of_not_dvd (S D n : Nat) (hS : 0 < S) (hD : 0 < D) (hnd : S % D ≠ 0) (hn : S < n) :
    ¬ SlotsDisjoint S S D n := by
  intro h
  have h0 : owns S S n 0 (S - 1) := ⟨by omega, by omega, by omega⟩
  have h1 : owns S S n 1 S := ⟨by omega, by omega, hn⟩
  apply h 0 1 (S - 1) S (by decide) h0 h1
  unfold slot
  -- S = q·D + r with 0 < r < D, so S − 1 = q·D + (r − 1): same quotient
  have hdm := Nat.div_add_mod S D
  have hr : S % D < D := Nat.mod_lt _ hD
  apply Nat.div_eq_of_lt_le
  · rw [Nat.mul_comm]; omega
  · rw [Nat.succ_mul, Nat.mul_comm]; omega

/-- the seeded "balanced stride": 5 transactions, batch size 4 ⇒ 2 workers with stride ⌈5/2⌉ = 3, slots by 4:
index 2 (worker 0) and index 3 (worker 1) both land in slot 0 -/
theorem balanced_stride_shares_a_slot : ¬ SlotsDisjoint 3 3 4 5 :=
  shared_of_not_dvd 3 4 5 (by decide) (by decide) (by decide) (by decide)

/-- **a recognised site with one expression for stride, bound and batch size is race-free** for every valuation of the
expressions (a zero stride gives no worker any index) -/
theorem StridedSite.disjoint_of_sameBatch (s : StridedSite) (h : s.sameBatch = true) (val : Nat → Nat) :
    s.Disjoint val := by
  unfold StridedSite.sameBatch at h
  simp only [Bool.and_eq_true] at h
  obtain ⟨⟨⟨_, hb⟩, hd⟩, _⟩ := h
  have e1 : s.stride = s.bound := Nat.eq_of_beq_eq_true hb
  have e2 : s.stride = s.div := Nat.eq_of_beq_eq_true hd
  intro n
  rw [← e1, ← e2]
  exact disjoint_of_eq _ n

/-- one goroutine per index, each writing only its own index: different goroutines, different indices -/
theorem perIndex_disjoint (i j : Nat) (h : i ≠ j) : i ≠ j := h

end ZChain.IndexOwn
