import ZChain.Model.NodePools
import ZChain.Proofs.Replicators
/-! Pools over shared node objects: a pool's node list evolves exactly like the pure `NodePool.addNode`, whatever
`SetIndex` values other pools left in the objects. Core-only. -/
namespace ZChain.NodePools
open ZChain.NodePool ZChain.Replicators

theorem objGet_setIdx (objs : List (Nat × NObj)) (o i x : Nat) :
    (objGet (setIdx objs o i) x).map (·.node) = (objGet objs x).map (·.node) := by
  induction objs with
  | nil => rfl
  | cons q t ih =>
    obtain ⟨k, v⟩ := q
    unfold setIdx at ih ⊢
    simp only [List.map_cons]
    by_cases hk : k = o
    · simp only [hk, if_true, objGet]
      by_cases hx : o = x
      · simp [hx]
      · simp only [hx, if_false]; exact ih
    · simp only [hk, if_false, objGet]
      by_cases hx : k = x
      · simp [hx]
      · simp only [hx, if_false]; exact ih

theorem objGet_assign (l : List Nat) : ∀ (i : Nat) (objs : List (Nat × NObj)) (x : Nat),
    (objGet (assign l i objs) x).map (·.node) = (objGet objs x).map (·.node) := by
  induction l with
  | nil => intro i objs x; rfl
  | cons o t ih => intro i objs x; show (objGet (assign t (i + 1) (setIdx objs o i)) x).map _ = _; rw [ih, objGet_setIdx]

/-- `computeNodePositions` rewrites `SetIndex` only: every object keeps its node (key, id bytes). -/
theorem nodeOf_assign (w : World) (l : List Nat) (pools : List (Nat × List Nat)) (x : Nat) :
    nodeOf { objs := assign l 0 w.objs, pools := pools } x = nodeOf w x := by
  have := objGet_assign l 0 w.objs x
  unfold nodeOf getObj
  simp only
  cases h1 : objGet (assign l 0 w.objs) x <;> cases h2 : objGet w.objs x <;> simp_all

theorem map_insertBy {α β : Type} (f : α → β) (less : β → β → Bool) (x : α) (l : List α) :
    (insertBy (fun a b => less (f a) (f b)) x l).map f = insertBy less (f x) (l.map f) := by
  induction l with
  | nil => rfl
  | cons y ys ih =>
    simp only [insertBy, List.map_cons]
    split
    · simp only [List.map_cons, ih]
    · rfl

theorem map_sortStable {α β : Type} (f : α → β) (less : β → β → Bool) (l : List α) :
    (sortStable (fun a b => less (f a) (f b)) l).map f = sortStable less (l.map f) := by
  induction l with
  | nil => rfl
  | cons x xs ih =>
    show (insertBy _ x (sortStable _ xs)).map f = insertBy less (f x) (sortStable less (xs.map f))
    rw [map_insertBy, ih]

theorem map_replaceFirstW (w : World) (o : Nat) (l : List Nat) :
    (replaceFirstW w o l).map (nodeOf w) = replaceFirst (nodeOf w o) (l.map (nodeOf w)) := by
  induction l with
  | nil => rfl
  | cons x xs ih =>
    simp only [replaceFirstW, replaceFirst, List.map_cons]
    split
    · rfl
    · simp only [List.map_cons, ih]

theorem poolGet_filter (pools : List (Nat × List Nat)) (p q : Nat) (h : q ≠ p) :
    poolGet (pools.filter (fun r => decide (r.1 ≠ p))) q = poolGet pools q := by
  induction pools with
  | nil => rfl
  | cons r t ih =>
    obtain ⟨k, v⟩ := r
    by_cases hk : k = p
    · have hkq : ¬ k = q := fun e => h (e.symm.trans hk)
      have hf : ((k, v) :: t).filter (fun r => decide (r.1 ≠ p)) = t.filter (fun r => decide (r.1 ≠ p)) := by
        simp [hk]
      rw [hf, ih]
      simp only [poolGet, hkq, if_false]
    · have hf : ((k, v) :: t).filter (fun r => decide (r.1 ≠ p))
          = (k, v) :: t.filter (fun r => decide (r.1 ≠ p)) := by
        simp [hk]
      rw [hf]
      simp only [poolGet]
      by_cases hkq : k = q
      · simp [hkq]
      · simp only [hkq, if_false]; exact ih

theorem poolGet_poolSet (pools : List (Nat × List Nat)) (p q : Nat) (l : List Nat) :
    poolGet (poolSet pools p l) q = if q = p then l else poolGet pools q := by
  unfold poolSet
  by_cases h : q = p
  · subst h; simp [poolGet]
  · have h' : ¬ p = q := fun e => h e.symm
    simp only [poolGet, h, h', if_false]
    exact poolGet_filter pools p q h

/-- **a pool's members and order depend on its own `AddNode` history only**: in terms of nodes (key, id bytes), `AddNode`
on a pool of shared objects is the pure `NodePool.addNode`; every other pool keeps its node list. -/
theorem addNodeW_nodes (w : World) (p o : Nat) :
    (poolNodes (addNodeW w p o) p).map (nodeOf (addNodeW w p o))
      = addNode ((poolNodes w p).map (nodeOf w)) (nodeOf w o) ∧
    ∀ q, q ≠ p → (poolNodes (addNodeW w p o) q).map (nodeOf (addNodeW w p o)) = (poolNodes w q).map (nodeOf w) := by
  have hn : ∀ x, nodeOf (addNodeW w p o) x = nodeOf w x := by
    intro x; unfold addNodeW; exact nodeOf_assign w _ _ x
  have hfun : nodeOf (addNodeW w p o) = nodeOf w := funext hn
  constructor
  · rw [hfun]
    unfold addNodeW poolNodes addNode
    simp only [poolGet_poolSet, if_true]
    rw [map_sortStable (nodeOf w) keyLess]
    congr 1
    rw [List.any_map]
    by_cases h : (poolGet w.pools p).any ((fun x => decide (x.key = (nodeOf w o).key)) ∘ nodeOf w) = true
    · have h' : (poolGet w.pools p).any (fun x => decide ((nodeOf w x).key = (nodeOf w o).key)) = true := h
      simp only [h, h', if_true]
      exact map_replaceFirstW w o _
    · have h' : ¬ (poolGet w.pools p).any (fun x => decide ((nodeOf w x).key = (nodeOf w o).key)) = true := h
      simp only [h, h']
      simp
  · intro q hq
    rw [hfun]
    unfold addNodeW poolNodes
    simp only [poolGet_poolSet, hq, if_false]

theorem scoreObjs_spec (w : World) (hash : List Nat) : ∀ (l : List Nat) (sc : List Score),
    scoreObjs w hash l = some sc →
      sc.map (·.node) = l.map (nodeOf w) ∧ ∀ x ∈ sc, scoreBytes x.node.idBytes hash = some x.score := by
  intro l
  induction l with
  | nil => intro sc h; simp [scoreObjs] at h; subst h; simp
  | cons o t ih =>
    intro sc h
    unfold scoreObjs at h
    cases hs : scoreBytes (nodeOf w o).idBytes hash with
    | none => simp [hs] at h
    | some s =>
      cases hr : scoreObjs w hash t with
      | none => simp [hs, hr] at h
      | some rest =>
        simp only [hs, hr, Option.some.injEq] at h
        subst h
        obtain ⟨h1, h2⟩ := ih rest hr
        refine ⟨by simp [h1], ?_⟩
        intro x hx
        rcases List.mem_cons.mp hx with rfl | hx
        · exact hs
        · exact h2 x hx

theorem scoreObjs_some (w : World) (hash : List Nat) (l : List Nat)
    (h : ∀ o ∈ l, (nodeOf w o).idBytes.length ≤ hash.length) : ∃ sc, scoreObjs w hash l = some sc := by
  induction l with
  | nil => exact ⟨[], rfl⟩
  | cons o t ih =>
    obtain ⟨s, hs⟩ := scoreBytes_some (nodeOf w o).idBytes hash (h o (List.mem_cons_self ..))
    obtain ⟨r, hr⟩ := ih (fun x hx => h x (List.mem_cons_of_mem _ hx))
    exact ⟨⟨nodeOf w o, s, (getObj w o).setIndex⟩ :: r, by simp [scoreObjs, hs, hr]⟩

/-! ### positions right after `computeNodePositions` -/

theorem objGet_setIdx_other (objs : List (Nat × NObj)) (o i x : Nat) (h : x ≠ o) :
    objGet (setIdx objs o i) x = objGet objs x := by
  induction objs with
  | nil => rfl
  | cons q t ih =>
    obtain ⟨k, v⟩ := q
    unfold setIdx at ih ⊢
    simp only [List.map_cons]
    by_cases hk : k = o
    · have hkx : ¬ o = x := fun e => h e.symm
      simp only [hk, if_true, objGet, hkx, if_false]; exact ih
    · simp only [hk, if_false, objGet]
      by_cases hx : k = x
      · simp [hx]
      · simp only [hx, if_false]; exact ih

theorem objGet_setIdx_self (objs : List (Nat × NObj)) (o i : Nat) (v : NObj) (h : objGet objs o = some v) :
    objGet (setIdx objs o i) o = some { v with setIndex := i } := by
  induction objs with
  | nil => simp [objGet] at h
  | cons q t ih =>
    obtain ⟨k, u⟩ := q
    unfold setIdx at ih ⊢
    simp only [List.map_cons]
    unfold objGet at h
    by_cases hk : k = o
    · simp only [hk, if_true, Option.some.injEq] at h
      subst h
      simp [hk, objGet]
    · simp only [hk, if_false] at h
      simp only [hk, if_false, objGet]
      exact ih h

theorem objGet_assign_other (l : List Nat) : ∀ (i : Nat) (objs : List (Nat × NObj)) (x : Nat), x ∉ l →
    objGet (assign l i objs) x = objGet objs x := by
  induction l with
  | nil => intro i objs x _; rfl
  | cons o t ih =>
    intro i objs x hx
    show objGet (assign t (i + 1) (setIdx objs o i)) x = _
    rw [ih _ _ _ (fun h => hx (List.mem_cons_of_mem _ h)), objGet_setIdx_other _ _ _ _ (fun e => hx (by rw [e]; exact List.mem_cons_self ..))]

/-- after `for idx, node := range Nodes { node.SetIndex = idx }` over distinct, existing objects, the `k`-th object
carries `SetIndex = i + k`. -/
theorem assign_positions (l : List Nat) : ∀ (i : Nat) (objs : List (Nat × NObj)), l.Nodup →
    (∀ o ∈ l, (objGet objs o).isSome) →
    l.map (fun o => ((objGet (assign l i objs) o).getD default).setIndex) = (List.range l.length).map (· + i) := by
  induction l with
  | nil => intro i objs _ _; rfl
  | cons o t ih =>
    intro i objs hnd hk
    have hnd' := List.nodup_cons.mp hnd
    obtain ⟨v, hv⟩ := Option.isSome_iff_exists.mp (hk o (List.mem_cons_self ..))
    have hk' : ∀ x ∈ t, (objGet (setIdx objs o i) x).isSome := by
      intro x hx
      have hne : x ≠ o := fun e => hnd'.1 (by rw [← e]; exact hx)
      rw [objGet_setIdx_other _ _ _ _ hne]; exact hk x (List.mem_cons_of_mem _ hx)
    have iht := ih (i + 1) (setIdx objs o i) hnd'.2 hk'
    simp only [List.map_cons, List.length_cons]
    rw [List.range_succ_eq_map, List.map_cons, List.map_map]
    congr 1
    · show ((objGet (assign t (i + 1) (setIdx objs o i)) o).getD default).setIndex = 0 + i
      rw [objGet_assign_other t _ _ o hnd'.1, objGet_setIdx_self _ _ _ v hv]
      simp
    · show t.map (fun x => ((objGet (assign t (i + 1) (setIdx objs o i)) x).getD default).setIndex) = _
      rw [iht]
      apply List.map_congr_left
      intro a _
      simp only [Function.comp]
      omega

end ZChain.NodePools
