import ZChain.Proofs.Multisig
/-!
Stage lemmas of `vote` and the state invariant of the multisig model: every stored proposal belongs to a
registered wallet, its entries are votes by pairwise distinct registered signers of that wallet, each validly
signed over the proposal's transfer and cast before the expiry; an executed proposal holds exactly `NumRequired`
entries, an open one fewer.
-/
set_option linter.unusedSectionVars false

namespace ZChain.Multisig
open ZChain ZChain.Ledger ZChain.Alg

section
variable {F : Type}

/-! ### stages -/

theorem voteChecks_ok (v : VoteIn F) (name : Nat) (t : Xfer) (sig : SigTok F)
    (h : voteChecks v = .ok (name, t, sig)) : v = .vote name t sig false ∧ t.amount ≠ 0 := by
  unfold voteChecks at h
  cases v with
  | malformed => simp at h
  | vote n t' sg tb =>
    simp only at h
    by_cases h1 : tb
    · simp [h1] at h
    · by_cases h2 : t'.amount = 0
      · simp [h1, h2] at h
      · simp only [h1, h2, Bool.false_eq_true, if_false] at h
        cases sg with
        | empty => simp at h
        | bad =>
          simp only [Except.ok.injEq, Prod.mk.injEq] at h
          obtain ⟨a, b, c⟩ := h
          subst a b c
          exact ⟨by simp [Bool.not_eq_true _ |>.mp h1], h2⟩
        | pt σ =>
          simp only [Except.ok.injEq, Prod.mk.injEq] at h
          obtain ⟨a, b, c⟩ := h
          subst a b c
          exact ⟨by simp [Bool.not_eq_true _ |>.mp h1], h2⟩

/-- the proposal a vote works on: an existing, unexpired one, or a freshly created empty one. -/
theorem findOrCreate_ok (s s1 : MSt F) (now : Int) (name : Nat) (t : Xfer) (p : Proposal F)
    (h : findOrCreate s now name t = .ok (s1, p)) :
    (findProp s.props (t.src, name) = some p ∧ now < p.expires ∧ s1 = s) ∨
    (findProp s.props (t.src, name) = none ∧
      p = { wallet := t.src, name := name, serial := s.nextSerial, expires := now + expirationTime,
            transfer := t, entries := [], clientSig := none, executed := none } ∧
      s1 = { s with props := s.props ++ [p], queue := s.queue ++ [(t.src, name)], nextSerial := s.nextSerial + 1 }) := by
  unfold findOrCreate at h
  cases hf : findProp s.props (t.src, name) with
  | some q =>
    simp only [hf] at h
    by_cases he : now ≥ q.expires
    · simp [he] at h
    · simp only [he, if_false, Except.ok.injEq, Prod.mk.injEq] at h
      left
      obtain ⟨a, b⟩ := h
      subst a b
      exact ⟨rfl, by omega, rfl⟩
  | none =>
    simp only [hf, Except.ok.injEq, Prod.mk.injEq] at h
    right
    obtain ⟨a, b⟩ := h
    subst b
    exact ⟨rfl, rfl, a.symm⟩

end

section
variable {F : Type} [Add F] [Mul F] [Sub F] [Div F] [Zero F] [One F] [DecidableEq F]

theorem authorize_ok (hm : Xfer → F) (s : MSt F) (sender : Id) (t : Xfer) (sig : SigTok F) (w : Wallet F) (sg : Signer F) (σ : F)
    (h : authorize hm s sender t sig = .ok (w, sg, σ)) :
    findWallet s.wallets t.src = some w ∧ sg ∈ w.signers ∧ sg.client = sender ∧
    verifyLib sg.pk (hm t) σ = true := by
  unfold authorize at h
  cases hw : findWallet s.wallets t.src with
  | none => simp [hw] at h
  | some w' =>
    simp only [hw] at h
    cases hs : w'.signers.find? (fun sg => sg.client = sender) with
    | none => simp [hs] at h
    | some sg' =>
      simp only [hs] at h
      cases sig with
      | empty => simp at h
      | bad => simp at h
      | pt σ' =>
        simp only at h
        by_cases hv : verifyLib sg'.pk (hm t) σ' = true
        · simp only [hv, if_true, Except.ok.injEq, Prod.mk.injEq] at h
          obtain ⟨a, b, c⟩ := h
          subst a b c
          exact ⟨rfl, List.mem_of_find?_eq_some hs, by simpa using List.find?_some hs, hv⟩
        · simp [hv] at h

/-! ### the invariant -/

/-- a registered wallet: distinct threshold ids, `2 ≤ NumRequired ≤ #signers`. -/
structure WOk (w : Wallet F) : Prop where
  tids : (w.signers.map (·.tid)).Nodup
  req2 : 2 ≤ w.numRequired
  reqLe : w.numRequired ≤ w.signers.length

/-- an accepted vote: cast (ghost `voter`, `time`) by the registered signer that owns the threshold id, validly
signed over the proposal's transfer, before the proposal's expiry. -/
def EntryOk (hm : Xfer → F) (w : Wallet F) (p : Proposal F) (e : Entry F) : Prop :=
  ∃ sg ∈ w.signers, sg.tid = e.tid ∧ sg.client = e.voter ∧ verifyLib sg.pk (hm p.transfer) e.sig = true ∧ e.time < p.expires

structure POk (hm : Xfer → F) (ws : List (Wallet F)) (p : Proposal F) : Prop where
  src : p.transfer.src = p.wallet
  wallet : ∃ w, findWallet ws p.wallet = some w ∧ (∀ e ∈ p.entries, EntryOk hm w p e) ∧
    (p.executed = none → (p.entries.length : Int) < w.numRequired) ∧
    (p.executed.isSome → (p.entries.length : Int) = w.numRequired ∧ p.clientSig = reconstruct w p.entries ∧ p.clientSig.isSome)
  tids : (p.entries.map (·.tid)).Nodup

structure Inv (hm : Xfer → F) (s : MSt F) : Prop where
  wallets : ∀ w ∈ s.wallets, WOk w
  props : ∀ p ∈ s.props, POk hm s.wallets p
  refs : (s.props.map (·.ref)).Nodup
  serials : ∀ p ∈ s.props, p.serial < s.nextSerial

theorem inv_empty (hm : Xfer → F) (a : Accts) : Inv hm ({ accts := a, wallets := [], props := [], queue := [], nextSerial := 0 } : MSt F) :=
  ⟨by intro w hw; simp at hw, by intro p hp; simp at hp, by simp, by intro p hp; simp at hp⟩

/-- the invariant does not read the accounts. -/
theorem inv_accts (hm : Xfer → F) (s : MSt F) (a : Accts) (h : Inv hm s) : Inv hm { s with accts := a } :=
  ⟨h.wallets, h.props, h.refs, h.serials⟩

theorem inv_pruneHead (hm : Xfer → F) (s : MSt F) (now : Int) (h : Inv hm s) : Inv hm (pruneHead now s) := by
  unfold pruneHead
  cases hq : s.queue with
  | nil => exact h
  | cons r rest =>
    simp only
    cases hf : findProp s.props r with
    | none =>
      simp only
      split
      · exact ⟨h.wallets, h.props, h.refs, h.serials⟩
      · exact h
    | some p =>
      simp only
      split
      · refine ⟨h.wallets, ?_, ?_, ?_⟩
        · intro q hq'; exact h.props q (mem_eraseProp _ _ _ hq').1
        · unfold eraseProp
          exact List.Nodup.sublist (List.Sublist.map _ List.filter_sublist) h.refs
        · intro q hq'; exact h.serials q (mem_eraseProp _ _ _ hq').1
      · exact h

/-- the stored records never change for refs other than the one voted on; pruning only removes. -/
theorem mem_pruneHead_props (s : MSt F) (now : Int) (p : Proposal F) (hp : p ∈ (pruneHead now s).props) : p ∈ s.props := by
  unfold pruneHead at hp
  cases hq : s.queue with
  | nil => simpa [hq] using hp
  | cons r rest =>
    simp only [hq] at hp
    cases hf : findProp s.props r with
    | none =>
      simp only [hf] at hp
      split at hp <;> exact hp
    | some q =>
      simp only [hf] at hp
      split at hp
      · exact (mem_eraseProp _ _ _ hp).1
      · exact hp

theorem pruneHead_wallets (s : MSt F) (now : Int) : (pruneHead now s).wallets = s.wallets := by
  unfold pruneHead
  cases s.queue with
  | nil => rfl
  | cons r rest =>
    simp only
    cases findProp s.props r with
    | none => simp only; split <;> rfl
    | some p => simp only; split <;> rfl

theorem pruneHead_nextSerial (s : MSt F) (now : Int) : (pruneHead now s).nextSerial = s.nextSerial := by
  unfold pruneHead
  cases s.queue with
  | nil => rfl
  | cons r rest =>
    simp only
    cases findProp s.props r with
    | none => simp only; split <;> rfl
    | some p => simp only; split <;> rfl

/-! ### shape of a successful vote -/

/-- the appended entry. -/
def newEntry (sg : Signer F) (σ : F) (sender : Id) (now : Int) : Entry F := { tid := sg.tid, sig := σ, voter := sender, time := now }
/-- the proposal with one more vote / with the last vote, the reconstructed signature and the execution mark. -/
def withVote (p : Proposal F) (e : Entry F) : Proposal F := { p with entries := p.entries ++ [e] }
def executedWith (p : Proposal F) (e : Entry F) (cs : F) (txn : Nat) : Proposal F :=
  { p with entries := p.entries ++ [e], clientSig := some cs, executed := some txn }

theorem castVote_ok (s : MSt F) (w : Wallet F) (p : Proposal F) (sg : Signer F) (σ : F) (sender : Id) (now : Int) (txn : Nat)
    (o : VoteOut F) (h : castVote s w p sg σ sender now txn = .ok o) :
    (p.entries.any (fun e => e.tid = sg.tid) = true ∧
      o = { st := s, res := .duplicate (w.numRequired - p.entries.length), signed := [] }) ∨
    (p.entries.any (fun e => e.tid = sg.tid) = false ∧ w.numRequired - p.entries.length - 1 > 0 ∧
      o = { st := { s with props := putProp s.props (withVote p (newEntry sg σ sender now)) },
            res := .needMore (w.numRequired - p.entries.length - 1), signed := [] }) ∨
    (p.entries.any (fun e => e.tid = sg.tid) = false ∧ ¬ (w.numRequired - p.entries.length - 1 > 0) ∧
      ∃ cs, reconstruct w (p.entries ++ [newEntry sg σ sender now]) = some cs ∧
        o = { st := { s with props := putProp s.props (executedWith p (newEntry sg σ sender now) cs txn) },
              res := .executed,
              signed := [{ src := p.transfer.src, dst := p.transfer.dst, amount := p.transfer.amount }] }) := by
  unfold castVote at h
  simp only at h
  by_cases hd : p.entries.any (fun e => e.tid = sg.tid) = true
  · left
    simp only [hd, if_true, Except.ok.injEq] at h
    exact ⟨hd, h.symm⟩
  · right
    have hd' : p.entries.any (fun e => e.tid = sg.tid) = false := by simpa using hd
    simp only [hd', Bool.false_eq_true, if_false] at h
    by_cases hr : w.numRequired - p.entries.length - 1 > 0
    · left
      simp only [hr, if_true, Except.ok.injEq] at h
      exact ⟨hd', hr, h.symm⟩
    · right
      simp only [hr, if_false] at h
      cases hrec : reconstruct w (p.entries ++ [({ tid := sg.tid, sig := σ, voter := sender, time := now } : Entry F)]) with
      | none => simp [hrec] at h
      | some cs =>
        simp only [hrec, Except.ok.injEq] at h
        exact ⟨hd', hr, cs, hrec, h.symm⟩

theorem vote_ok (hm : Xfer → F) (s : MSt F) (sender : Id) (now : Int) (txn : Nat) (v : VoteIn F) (o : VoteOut F)
    (h : vote hm s sender now txn v = .ok o) :
    ∃ name t sig s1 p, voteChecks v = .ok (name, t, sig) ∧
      findOrCreate (pruneHead now s) now name t = .ok (s1, p) ∧ t = p.transfer ∧
      ((p.executed.isSome = true ∧ o = { st := s1, res := .prevExecuted, signed := [] }) ∨
       (p.executed = none ∧ ∃ w sg σ, authorize hm s1 sender t sig = .ok (w, sg, σ) ∧
          castVote s1 w p sg σ sender now txn = .ok o)) := by
  unfold vote at h
  cases h1 : voteChecks v with
  | error e => simp [h1] at h
  | ok r =>
    obtain ⟨name, t, sig⟩ := r
    simp only [h1] at h
    cases h2 : findOrCreate (pruneHead now s) now name t with
    | error e => simp [h2] at h
    | ok r2 =>
      obtain ⟨s1, p⟩ := r2
      simp only [h2] at h
      by_cases hc : t ≠ p.transfer
      · simp [hc] at h
      · have hc' : t = p.transfer := by simpa using hc
        simp only [hc, if_false] at h
        by_cases he : p.executed.isSome = true
        · simp only [he, if_true, Except.ok.injEq] at h
          exact ⟨name, t, sig, s1, p, rfl, h2, hc', Or.inl ⟨he, h.symm⟩⟩
        · simp only [he, Bool.false_eq_true, if_false] at h
          have hen : p.executed = none := by
            cases hx : p.executed with
            | none => rfl
            | some x => simp [hx] at he
          cases h3 : authorize hm s1 sender t sig with
          | error e => simp [h3] at h
          | ok r3 =>
            obtain ⟨w, sg, σ⟩ := r3
            simp only [h3] at h
            exact ⟨name, t, sig, s1, p, rfl, h2, hc', Or.inr ⟨hen, w, sg, σ, h3, h⟩⟩

/-! ### the invariant is preserved -/

theorem entryOk_congr (hm : Xfer → F) (w : Wallet F) (p p' : Proposal F) (e : Entry F)
    (ht : p'.transfer = p.transfer) (he : p'.expires = p.expires) (h : EntryOk hm w p e) : EntryOk hm w p' e := by
  obtain ⟨sg, hsg, a, b, c, d⟩ := h
  exact ⟨sg, hsg, a, b, by rw [ht]; exact c, by rw [he]; exact d⟩

/-- the state after `findOrCreate`, seen from the invariant of the state before it. -/
theorem findOrCreate_inv (hm : Xfer → F) (s0 s1 : MSt F) (now : Int) (name : Nat) (t : Xfer) (p : Proposal F)
    (hinv : Inv hm s0) (h : findOrCreate s0 now name t = .ok (s1, p)) :
    s1.wallets = s0.wallets ∧ p ∈ s1.props ∧ p.ref = (t.src, name) ∧ now < p.expires ∧
    (s1.props.map (·.ref)).Nodup ∧ (∀ q ∈ s1.props, q.serial < s1.nextSerial) ∧
    (∀ q ∈ s1.props, q.ref ≠ p.ref → POk hm s0.wallets q) ∧
    (p.entries = [] ∧ p.executed = none ∧ p.transfer.src = p.wallet ∨ POk hm s0.wallets p) ∧
    s0.nextSerial ≤ s1.nextSerial ∧
    (∀ q ∈ s1.props, q ∈ s0.props ∨ (q = p ∧ p.serial = s0.nextSerial ∧ p.executed = none)) := by
  rcases findOrCreate_ok s0 s1 now name t p h with ⟨hf, hexp, hs⟩ | ⟨hf, hp, hs⟩
  · subst hs
    obtain ⟨hmem, href⟩ := findProp_mem _ _ _ hf
    exact ⟨rfl, hmem, href, hexp, hinv.refs, hinv.serials, fun q hq _ => hinv.props q hq, Or.inr (hinv.props p hmem), Nat.le_refl _,
      fun q hq => Or.inl hq⟩
  · have hnone := findProp_none _ _ hf
    have href : p.ref = (t.src, name) := by rw [hp]; rfl
    subst hs
    refine ⟨rfl, by simp, href, ?_, ?_, ?_, ?_, Or.inl ?_, by simp, ?_⟩
    rotate_left 5
    · intro q hq
      rcases List.mem_append.mp hq with hq | hq
      · exact Or.inl hq
      · simp only [List.mem_cons, List.not_mem_nil, or_false] at hq
        exact Or.inr ⟨hq, by rw [hp], by rw [hp]⟩
    · rw [hp]; simp [expirationTime]
    · simp only [List.map_append, List.map_cons, List.map_nil]
      rw [List.nodup_append]
      refine ⟨hinv.refs, by simp, ?_⟩
      intro a ha b hb
      simp only [List.mem_cons, List.not_mem_nil, or_false] at hb
      obtain ⟨q, hq, hqa⟩ := List.mem_map.mp ha
      rw [hb, href, ← hqa]
      exact hnone q hq
    · intro q hq
      rcases List.mem_append.mp hq with hq | hq
      · exact Nat.lt_succ_of_lt (hinv.serials q hq)
      · simp only [List.mem_cons, List.not_mem_nil, or_false] at hq
        rw [hq, hp]; simp
    · intro q hq hne
      rcases List.mem_append.mp hq with hq | hq
      · exact hinv.props q hq
      · simp only [List.mem_cons, List.not_mem_nil, or_false] at hq
        exact absurd (by rw [hq]) hne
    · rw [hp]; exact ⟨rfl, rfl, rfl⟩

/-- what a successful contract-level vote does to the stored records (`p` = the record voted on, before). -/
structure VoteFacts (s : MSt F) (txn : Nat) (v : VoteIn F) (o : VoteOut F) (p : Proposal F) : Prop where
  serialMono : s.nextSerial ≤ o.st.nextSerial
  origin : p ∈ s.props ∨ p.serial = s.nextSerial
  records : ∀ q ∈ o.st.props, q ∈ s.props ∨ (q.ref = p.ref ∧ q.serial = p.serial ∧ p.executed = none)
  target : ∃ name sig tb, v = .vote name p.transfer sig tb ∧ p.ref = (p.transfer.src, name)
  executed : o.res = .executed → p.executed = none ∧
    o.signed = [{ src := p.transfer.src, dst := p.transfer.dst, amount := p.transfer.amount }] ∧
    ∃ q ∈ o.st.props, q.ref = p.ref ∧ q.serial = p.serial ∧ q.executed = some txn ∧ q.transfer = p.transfer ∧ q.expires = p.expires
  notExecuted : o.res ≠ .executed → o.signed = []

theorem vote_spec (hm : Xfer → F) (s : MSt F) (sender : Id) (now : Int) (txn : Nat) (v : VoteIn F) (o : VoteOut F)
    (hinv : Inv hm s) (h : vote hm s sender now txn v = .ok o) :
    Inv hm o.st ∧ o.st.wallets = s.wallets ∧ ∃ p, VoteFacts s txn v o p := by
  obtain ⟨name, t, sig, s1, p, hchk, h2, hct, hcase⟩ := vote_ok hm s sender now txn v o h
  have hinv0 := inv_pruneHead hm s now hinv
  obtain ⟨hws, hpmem, href, hexp, hrefs, hser, hothers, hp, hmono, hrecs⟩ := findOrCreate_inv hm _ s1 now name t p hinv0 h2
  have hmono' : s.nextSerial ≤ s1.nextSerial := by rw [← pruneHead_nextSerial s now]; exact hmono
  have horigin : p ∈ s.props ∨ p.serial = s.nextSerial := by
    rcases hrecs p hpmem with h' | ⟨_, h', _⟩
    · exact Or.inl (mem_pruneHead_props s now p h')
    · exact Or.inr (by rw [h', pruneHead_nextSerial])
  have hrecs1 : ∀ q ∈ s1.props, q ∈ s.props ∨ (q.ref = p.ref ∧ q.serial = p.serial ∧ p.executed = none) := by
    intro q hq
    rcases hrecs q hq with h' | ⟨h', _, hn⟩
    · exact Or.inl (mem_pruneHead_props s now q h')
    · exact Or.inr ⟨by rw [h'], by rw [h'], hn⟩
  have htarget : ∃ name sig tb, v = .vote name p.transfer sig tb ∧ p.ref = (p.transfer.src, name) := by
    obtain ⟨hv, _⟩ := voteChecks_ok v name t sig hchk
    exact ⟨name, sig, false, by rw [← hct]; exact hv, by rw [← hct]; exact href⟩
  have hws' : s1.wallets = s.wallets := by rw [hws, pruneHead_wallets]
  have hw0 : (pruneHead now s).wallets = s.wallets := pruneHead_wallets s now
  -- the state `s1` itself satisfies the invariant when the proposal is an old one
  rcases hcase with ⟨hex, ho⟩ | ⟨hnone, w, sg, σ, hauth, hcast⟩
  · -- previously executed: `p` is an existing record
    subst ho
    have hpok : POk hm (pruneHead now s).wallets p := by
      rcases hp with ⟨_, hn, _⟩ | hp
      · rw [hn] at hex; simp at hex
      · exact hp
    have hold1 : ∀ q ∈ s1.props, q ∈ s.props := by
      intro q hq
      rcases hrecs q hq with h' | ⟨_, _, hn⟩
      · exact mem_pruneHead_props s now q h'
      · rw [hn] at hex; simp at hex
    refine ⟨⟨?_, ?_, hrefs, hser⟩, hws', p, ⟨hmono', horigin, fun q hq => Or.inl (hold1 q hq), htarget, (by intro hx; cases hx), fun _ => rfl⟩⟩
    · intro w hw; rw [hws'] at hw; exact hinv.wallets w hw
    · intro q hq
      rw [hws]
      by_cases hqr : q.ref = p.ref
      · have : q = p := by
          -- distinct records have distinct refs
          have hnd := hrefs
          exact (List.inj_on_of_nodup_map hnd hq hpmem hqr)
        rw [this]; exact hpok
      · exact hothers q hq hqr
  · obtain ⟨hfw, hsgmem, hsgc, hver⟩ := authorize_ok hm s1 sender t sig w sg σ hauth
    have hfw0 : findWallet (pruneHead now s).wallets p.wallet = some w := by
      have hsrc : p.transfer.src = p.wallet := by
        rcases hp with ⟨_, _, hs⟩ | hp
        · exact hs
        · exact hp.src
      rw [← hws, ← hsrc, ← hct]; exact hfw
    -- facts about the old entries of `p`
    have hold : (∀ e ∈ p.entries, EntryOk hm w p e) ∧ (p.entries.length : Int) < w.numRequired ∧
        (p.entries.map (·.tid)).Nodup ∧ p.transfer.src = p.wallet := by
      rcases hp with ⟨he, _, hs⟩ | hp
      · rw [he]
        have := (hinv.wallets w (by rw [← hw0]; exact (findWallet_mem _ _ _ hfw0).1)).req2
        exact ⟨by intro e h'; simp at h', by simp; omega, by simp, hs⟩
      · obtain ⟨w0, hw0', hents, hlt, _⟩ := hp.wallet
        rw [hfw0] at hw0'
        injection hw0' with hw0'
        subst hw0'
        exact ⟨hents, hlt hnone, hp.tids, hp.src⟩
    obtain ⟨hents, hlen, htids, hsrc⟩ := hold
    have hnewOk : ∀ p' : Proposal F, p'.transfer = p.transfer → p'.expires = p.expires →
        EntryOk hm w p' (newEntry sg σ sender now) := by
      intro p' ht he
      exact ⟨sg, hsgmem, rfl, hsgc, by rw [ht, ← hct]; exact hver, by rw [he]; exact hexp⟩
    -- the generic "replace `p` by `p'`" step
    have hput : ∀ p' : Proposal F, p'.ref = p.ref → p'.serial = p.serial → POk hm (pruneHead now s).wallets p' →
        Inv hm ({ s1 with props := putProp s1.props p' } : MSt F) := by
      intro p' hr hsr hpok
      refine ⟨?_, ?_, ?_, ?_⟩
      · intro w' hw'; rw [hws'] at hw'; exact hinv.wallets w' hw'
      · intro q hq
        show POk hm s1.wallets q
        rw [hws]
        rcases mem_putProp _ _ _ hq with hq | ⟨hq, hne⟩
        · rw [hq]; exact hpok
        · exact hothers q hq (by rw [← hr]; exact hne)
      · show ((putProp s1.props p').map (·.ref)).Nodup
        rw [putProp_refs]
        have hany : s1.props.any (fun q => decide (q.ref = p'.ref)) = true :=
          List.any_eq_true.mpr ⟨p, hpmem, by simp [hr]⟩
        rw [if_pos hany]; exact hrefs
      · intro q hq
        rcases mem_putProp _ _ _ hq with hq | ⟨hq, _⟩
        · rw [hq, hsr]; exact hser p hpmem
        · exact hser q hq
    rcases castVote_ok s1 w p sg σ sender now txn o hcast with ⟨hdupAny, ho⟩ | ⟨hnd, hrem, ho⟩ | ⟨hnd, hrem, cs, hrec, ho⟩
    · -- duplicate: nothing stored; `p` is an old record (it has an entry)
      subst ho
      refine ⟨⟨?_, ?_, hrefs, hser⟩, hws', p, ⟨hmono', horigin, hrecs1, htarget, (by intro hx; cases hx), fun _ => rfl⟩⟩
      · intro w' hw'; rw [hws'] at hw'; exact hinv.wallets w' hw'
      · intro q hq
        show POk hm s1.wallets q
        rw [hws]
        by_cases hqr : q.ref = p.ref
        · have : q = p := List.inj_on_of_nodup_map hrefs hq hpmem hqr
          rw [this]
          rcases hp with ⟨he, _, _⟩ | hp
          · rw [he] at hdupAny; simp at hdupAny
          · exact hp
        · exact hothers q hq hqr
    · subst ho
      have hrecs2 : ∀ q ∈ putProp s1.props (withVote p (newEntry sg σ sender now)),
          q ∈ s.props ∨ (q.ref = p.ref ∧ q.serial = p.serial ∧ p.executed = none) := by
        intro q hq
        rcases mem_putProp _ _ _ hq with hq | ⟨hq, _⟩
        · rw [hq]; exact Or.inr ⟨rfl, rfl, hnone⟩
        · exact hrecs1 q hq
      refine ⟨hput _ rfl rfl ?_, hws', p, ⟨hmono', horigin, hrecs2, htarget, (by intro hx; cases hx), fun _ => rfl⟩⟩
      unfold withVote
      refine ⟨hsrc, ⟨w, hfw0, ?_, ?_, ?_⟩, ?_⟩
      · intro e he
        rcases List.mem_append.mp he with he | he
        · exact entryOk_congr hm w p _ e rfl rfl (hents e he)
        · simp only [List.mem_cons, List.not_mem_nil, or_false] at he
          rw [he]; exact hnewOk _ rfl rfl
      · intro _; simp only [List.length_append, List.length_cons, List.length_nil]; push_cast; omega
      · intro hs; simp [hnone] at hs
      · simp only [List.map_append, List.map_cons, List.map_nil]
        rw [List.nodup_append]
        refine ⟨htids, by simp, ?_⟩
        intro a ha b hb
        simp only [List.mem_cons, List.not_mem_nil, or_false] at hb
        obtain ⟨e, he, hea⟩ := List.mem_map.mp ha
        rw [hb, ← hea]
        intro heq
        have hne := List.any_eq_false.mp hnd e he
        exact absurd (show e.tid = sg.tid from heq) (by simpa using hne)
    · subst ho
      have hrecs2 : ∀ q ∈ putProp s1.props (executedWith p (newEntry sg σ sender now) cs txn),
          q ∈ s.props ∨ (q.ref = p.ref ∧ q.serial = p.serial ∧ p.executed = none) := by
        intro q hq
        rcases mem_putProp _ _ _ hq with hq | ⟨hq, _⟩
        · rw [hq]; exact Or.inr ⟨rfl, rfl, hnone⟩
        · exact hrecs1 q hq
      refine ⟨hput _ rfl rfl ?_, hws', p, ⟨hmono', horigin, hrecs2, htarget,
        fun _ => ⟨hnone, rfl, executedWith p (newEntry sg σ sender now) cs txn, mem_putProp_self _ _, rfl, rfl, rfl, rfl, rfl⟩,
        fun hne => absurd rfl hne⟩⟩
      unfold executedWith
      refine ⟨hsrc, ⟨w, hfw0, ?_, ?_, ?_⟩, ?_⟩
      · intro e he
        rcases List.mem_append.mp he with he | he
        · exact entryOk_congr hm w p _ e rfl rfl (hents e he)
        · simp only [List.mem_cons, List.not_mem_nil, or_false] at he
          rw [he]; exact hnewOk _ rfl rfl
      · intro hn; simp at hn
      · intro _
        refine ⟨?_, ?_, by simp⟩
        · simp only [List.length_append, List.length_cons, List.length_nil]; push_cast; omega
        · exact congrArg some (by rfl) |>.trans (by rw [hrec])
      · simp only [List.map_append, List.map_cons, List.map_nil]
        rw [List.nodup_append]
        refine ⟨htids, by simp, ?_⟩
        intro a ha b hb
        simp only [List.mem_cons, List.not_mem_nil, or_false] at hb
        obtain ⟨e, he, hea⟩ := List.mem_map.mp ha
        rw [hb, ← hea]
        intro heq
        have hne := List.any_eq_false.mp hnd e he
        exact absurd (show e.tid = sg.tid from heq) (by simpa using hne)

theorem inv_vote (hm : Xfer → F) (s : MSt F) (sender : Id) (now : Int) (txn : Nat) (v : VoteIn F) (o : VoteOut F)
    (hinv : Inv hm s) (h : vote hm s sender now txn v = .ok o) : Inv hm o.st ∧ o.st.wallets = s.wallets :=
  ⟨(vote_spec hm s sender now txn v o hinv h).1, (vote_spec hm s sender now txn v o hinv h).2.1⟩

/-! ### registration -/

theorem mkSigners_spec (ts : List (Nat × Option F)) (ks : List (KeyTok F)) (l : List (Signer F))
    (h : mkSigners ts ks = some l) : l.map (·.tid) = ts.map (·.1) ∧ l.length = ts.length := by
  induction ts generalizing ks l with
  | nil =>
    cases ks with
    | nil => simp [mkSigners] at h; subst h; exact ⟨rfl, rfl⟩
    | cons k ks => simp [mkSigners] at h
  | cons t ts ih =>
    obtain ⟨tv, x⟩ := t
    cases ks with
    | nil => simp [mkSigners] at h
    | cons k ks =>
      cases k with
      | bad v => simp [mkSigners] at h
      | good c pk =>
        simp only [mkSigners, Option.map_eq_some_iff] at h
        obtain ⟨l', hl', hl⟩ := h
        subst hl
        obtain ⟨a, b⟩ := ih ks l' hl'
        exact ⟨by simp [a], by simp [b]⟩

theorem nodup_of_hasDupBy_false (l : List (Nat × Option F)) (h : hasDupBy (fun a b => a.1 == b.1) l = false) :
    (l.map (·.1)).Nodup := by
  induction l with
  | nil => simp
  | cons x xs ih =>
    simp only [hasDupBy, Bool.or_eq_false_iff] at h
    simp only [List.map_cons, List.nodup_cons]
    refine ⟨?_, ih h.2⟩
    intro hm
    obtain ⟨y, hy, hxy⟩ := List.mem_map.mp hm
    have := List.any_eq_false.mp h.1 y hy
    simp [hxy] at this

theorem register_ok (s s' : MSt F) (sender : Id) (r : Option (RegIn F)) (h : register s sender r = .ok s') :
    ∃ w, s' = { s with wallets := s.wallets ++ [w] } ∧ WOk w ∧ w.id = sender ∧ findWallet s.wallets sender = none := by
  unfold register at h
  cases r with
  | none => simp at h
  | some r =>
    simp only at h
    by_cases h1 : r.clientId ≠ sender
    · simp [h1] at h
    by_cases h2 : r.pkOwner ≠ some r.clientId
    · simp [h1, h2] at h
    by_cases h3 : r.tids.length ≠ r.keys.length
    · simp [h1, h2, h3] at h
    by_cases h4 : r.tids.length > maxSigners
    · simp [h1, h2, h3, h4] at h
    by_cases h5 : r.numRequired < minSigners
    · simp [h1, h2, h3, h4, h5] at h
    by_cases h6 : r.numRequired > r.tids.length
    · simp [h1, h2, h3, h4, h5, h6] at h
    by_cases h7 : hasDupBy (fun a b => a.1 == b.1) r.tids = true
    · simp [h1, h2, h3, h4, h5, h6, h7] at h
    by_cases h8 : hasDupBy KeyTok.same r.keys = true
    · simp [h1, h2, h3, h4, h5, h6, h7, h8] at h
    by_cases h9 : (!r.schemeOk) = true
    · simp [h1, h2, h3, h4, h5, h6, h7, h8, h9] at h
    simp only [h1, h2, h3, h4, h5, h6, h7, h8, h9, if_false, Bool.false_eq_true] at h
    cases hsg : mkSigners r.tids r.keys with
    | none => simp [hsg] at h
    | some sg =>
      simp only [hsg] at h
      by_cases h10 : (findWallet s.wallets sender).isSome = true
      · simp [h10] at h
      simp only [h10, Bool.false_eq_true, if_false, Except.ok.injEq] at h
      obtain ⟨htid, hlen⟩ := mkSigners_spec _ _ _ hsg
      refine ⟨_, h.symm, ⟨?_, ?_, ?_⟩, by simpa using h1, ?_⟩
      · show (sg.map (·.tid)).Nodup
        rw [htid]; exact nodup_of_hasDupBy_false _ (by simpa using h7)
      · show 2 ≤ r.numRequired
        unfold minSigners at h5; omega
      · show r.numRequired ≤ (sg.length : Int)
        rw [hlen]; omega
      · cases hf : findWallet s.wallets sender with
        | none => rfl
        | some w => simp [hf] at h10

theorem inv_register (hm : Xfer → F) (s s' : MSt F) (sender : Id) (r : Option (RegIn F))
    (hinv : Inv hm s) (h : register s sender r = .ok s') : Inv hm s' := by
  obtain ⟨w, hs, hwok, _, _⟩ := register_ok s s' sender r h
  subst hs
  refine ⟨?_, ?_, hinv.refs, hinv.serials⟩
  · intro w' hw'
    rcases List.mem_append.mp hw' with hw' | hw'
    · exact hinv.wallets w' hw'
    · simp only [List.mem_cons, List.not_mem_nil, or_false] at hw'
      rw [hw']; exact hwok
  · intro p hp
    have hpok := hinv.props p hp
    obtain ⟨w0, hw0, rest⟩ := hpok.wallet
    exact ⟨hpok.src, ⟨w0, findWallet_append_some _ _ _ _ hw0, rest⟩, hpok.tids⟩

/-- **every operation preserves the invariant** (through the engine: a transaction that is not successful
keeps the contract state). -/
theorem inv_step (hm : Xfer → F) (feeOn : Bool) (s : MSt F) (op : Op F) (hinv : Inv hm s) :
    Inv hm (stepOp hm feeOn s op).1 := by
  have key : ∀ (c : Call) (r : Option (MSt F × List Ledger.Transfer)),
      (∀ s' q, r = some (s', q) → Inv hm s') → Inv hm (settleMs feeOn s c r).1 := by
    intro c r hr
    by_cases hs : (settleMs feeOn s c r).2 = .success
    · obtain ⟨s', q, a', hr', _, _, hst⟩ := settleMs_success feeOn s c r hs
      rw [hst]; exact inv_accts hm _ _ (hr s' q hr')
    · obtain ⟨a', hst⟩ := settleMs_not_success feeOn s c r hs
      rw [hst]; exact inv_accts hm _ _ hinv
  cases op with
  | register c r =>
    show Inv hm (registerStep feeOn s c r).1
    unfold registerStep
    apply key
    intro s' q hr
    cases hreg : register s c.sender r with
    | error e => simp [hreg] at hr
    | ok s2 =>
      simp only [hreg, Option.some.injEq, Prod.mk.injEq] at hr
      rw [← hr.1]; exact inv_register hm s s2 c.sender r hinv hreg
  | vote c now txn v =>
    show Inv hm (voteStep hm feeOn s c now txn v).1
    unfold voteStep
    apply key
    intro s' q hr
    cases hv : vote hm s c.sender now txn v with
    | error e => simp [hv] at hr
    | ok o =>
      simp only [hv, Option.some.injEq, Prod.mk.injEq] at hr
      rw [← hr.1]; exact (inv_vote hm s c.sender now txn v o hinv hv).1

/-- every state reachable from an empty contract state satisfies the invariant. -/
theorem inv_run (hm : Xfer → F) (feeOn : Bool) (ops : List (Op F)) : ∀ s, Inv hm s → Inv hm (runOps hm feeOn s ops) := by
  induction ops with
  | nil => intro s h; exact h
  | cons op rest ih => intro s h; exact ih _ (inv_step hm feeOn s op h)

end

end ZChain.Multisig
