import ZChain.Model.Prune
/-!
Helper lemmas for C27 over `Model/Prune.lean`: membership in the node store, the chain of finalized blocks,
"a dead node of an earlier block is not part of a later block's state" (from origin stamping), and the
change collector's disjointness invariant.
-/
namespace ZChain.Prune

theorem mem_addAll (s xs : List Hash) (h : Hash) : h ∈ addAll s xs ↔ h ∈ s ∨ h ∈ xs := by
  unfold addAll
  induction xs generalizing s with
  | nil => simp
  | cons x xs ih =>
    simp only [List.foldl_cons]
    rw [ih]
    by_cases hc : s.contains x
    · simp only [hc, if_true]
      have hx : x ∈ s := by simpa using hc
      constructor
      · rintro (h1 | h1)
        · exact Or.inl h1
        · exact Or.inr (by simp [h1])
      · rintro (h1 | h1)
        · exact Or.inl h1
        · rcases List.mem_cons.mp h1 with rfl | h2
          · exact Or.inl hx
          · exact Or.inr h2
    · simp only [hc, Bool.false_eq_true, if_false]
      constructor
      · rintro (h1 | h1)
        · rcases List.mem_cons.mp h1 with rfl | h2
          · exact Or.inr (by simp)
          · exact Or.inl h2
        · exact Or.inr (by simp [h1])
      · rintro (h1 | h1)
        · exact Or.inl (by simp [h1])
        · rcases List.mem_cons.mp h1 with rfl | h2
          · exact Or.inl (by simp)
          · exact Or.inr h2

theorem mem_removeAll (s xs : List Hash) (h : Hash) : h ∈ removeAll s xs ↔ h ∈ s ∧ h ∉ xs := by
  unfold removeAll
  simp [List.mem_filter]

/-! ### the chain of finalized blocks (newest first) -/

/-- `origin` = the round a node was created in; every node hash covers it. Per block:
new nodes carry the block's round, dead nodes are older or of this round, and no dead node is part of the
block's own final state. -/
structure BlockOK (origin : Hash → Nat) (f : Fin) : Prop where
  new_origin  : ∀ h ∈ f.new, origin h = f.round
  dead_origin : ∀ h ∈ f.dead, origin h ≤ f.round
  dead_not_in_state : ∀ h ∈ f.dead, h ∉ f.nodes

/-- consecutive finalized blocks: increasing rounds; a state consists of nodes of the previous state and new nodes
(the first block sits on the empty genesis state) -/
def Chain : List Fin → Prop
  | [] => True
  | [g] => ∀ h ∈ g.nodes, h ∈ g.new
  | g :: f :: rest => f.round < g.round ∧ (∀ h ∈ g.nodes, h ∈ f.nodes ∨ h ∈ g.new) ∧ Chain (f :: rest)

theorem Chain.tail {g : Fin} {rest : List Fin} (h : Chain (g :: rest)) : Chain rest := by
  cases rest with
  | nil => trivial
  | cons f r => exact h.2.2

theorem Chain.rounds_lt {g : Fin} {rest : List Fin} (h : Chain (g :: rest)) : ∀ f ∈ rest, f.round < g.round := by
  induction rest generalizing g with
  | nil => intro f hf; simp at hf
  | cons y ys ih =>
    intro f hf
    rcases List.mem_cons.mp hf with rfl | hf'
    · exact h.1
    · have := ih h.2.2 f hf'
      have := h.1
      omega

/-- every node of a finalized state was written as a new node by that block or an earlier one -/
theorem nodes_were_new : ∀ (hist : List Fin), Chain hist → ∀ g ∈ hist, ∀ h ∈ g.nodes, ∃ f ∈ hist, h ∈ f.new := by
  intro hist
  induction hist with
  | nil => intro _ g hg; simp at hg
  | cons x rest ih =>
    intro hc g hg h hh
    rcases List.mem_cons.mp hg with rfl | hg'
    · cases rest with
      | nil => exact ⟨g, by simp, hc h hh⟩
      | cons y ys =>
        rcases hc.2.1 h hh with h1 | h1
        · obtain ⟨f, hf, hfn⟩ := ih hc.2.2 y (by simp) h h1
          exact ⟨f, by simp [hf], hfn⟩
        · exact ⟨g, by simp, h1⟩
    · obtain ⟨f, hf, hfn⟩ := ih hc.tail g hg' h hh
      exact ⟨f, by simp [hf], hfn⟩

/-- **H, derived**: a node recorded dead by a block is part of no state of that block or any later block —
because the only way back into a state is to be created anew, and a node created in a later round has another
origin, hence another hash. -/
theorem dead_not_in_later_state (origin : Hash → Nat) : ∀ (hist : List Fin), Chain hist →
    (∀ f ∈ hist, BlockOK origin f) →
    ∀ f ∈ hist, ∀ g ∈ hist, f.round ≤ g.round → ∀ h ∈ f.dead, h ∉ g.nodes := by
  intro hist
  induction hist with
  | nil => intro _ _ f hf; simp at hf
  | cons x rest ih =>
    intro hc hok f hf g hg hle h hd
    have hlt := hc.rounds_lt
    have ih' := ih hc.tail (fun f hf => hok f (by simp [hf]))
    rcases List.mem_cons.mp hg with hgx | hg'
    · rw [hgx]
      rcases List.mem_cons.mp hf with hfx | hf'
      · rw [hfx] at hd
        exact (hok x (by simp)).dead_not_in_state h hd
      · -- f earlier, x the newest block
        intro hin
        cases rest with
        | nil => simp at hf'
        | cons y ys =>
          have hfy : f.round ≤ y.round := by
            rcases List.mem_cons.mp hf' with rfl | h2
            · exact Nat.le_refl _
            · exact Nat.le_of_lt (hc.2.2.rounds_lt f h2)
          rcases hc.2.1 h hin with h1 | h1
          · exact ih' f hf' y (by simp) hfy h hd h1
          · have e1 := (hok x (by simp)).new_origin h h1
            have e2 := (hok f (by simp [hf'])).dead_origin h hd
            have := hlt f hf'
            omega
    · rcases List.mem_cons.mp hf with hfx | hf'
      · have := hlt g hg'
        rw [hfx] at hle
        omega
      · exact ih' f hf' g hg' hle h hd

/-! ### the change collector -/

def Collector.Disjoint (c : Collector) : Prop := ∀ h, h ∈ c.deletes → c.getChange h = none

theorem getChange_setChange (c : Collector) (k : Hash) (ch : Change) (h : Hash) :
    (c.setChange k ch).getChange h = if k = h then some ch else c.getChange h := by
  unfold Collector.setChange Collector.getChange
  simp only [List.find?_cons]
  by_cases hk : k = h
  · subst hk; simp
  · have : (k == h) = false := by simpa using hk
    simp only [this, hk, if_false]
    congr 1
    induction c.changes with
    | nil => rfl
    | cons e es ih =>
      simp only [List.filter_cons]
      by_cases he : e.1 = k
      · have h1 : (e.1 != k) = false := by simp [he]
        have h2 : (e.1 == h) = false := by rw [he]; simpa using hk
        simp [h1, h2, ih]
      · have h1 : (e.1 != k) = true := by simpa using he
        simp only [h1, if_true, List.find?_cons]
        cases e.1 == h <;> simp [ih]

theorem getChange_dropChange (c : Collector) (k h : Hash) :
    (c.dropChange k).getChange h = if k = h then none else c.getChange h := by
  unfold Collector.dropChange Collector.getChange
  by_cases hk : k = h
  · subst hk
    simp only [if_true, Option.map_eq_none_iff, List.find?_eq_none]
    intro e he
    have := (List.mem_filter.mp he).2
    simpa using this
  · simp only [hk, if_false]
    congr 1
    induction c.changes with
    | nil => rfl
    | cons e es ih =>
      simp only [List.filter_cons]
      by_cases he : e.1 = k
      · have h1 : (e.1 != k) = false := by simp [he]
        have h2 : (e.1 == h) = false := by rw [he]; simpa using hk
        simp [h1, h2, ih]
      · have h1 : (e.1 != k) = true := by simpa using he
        simp only [h1, if_true, List.find?_cons]
        cases e.1 == h <;> simp [ih]

end ZChain.Prune
