import ZChain.Model.Round
/-! Invariant of the concurrent phase model when every phase writer runs under `r.mutex` (C37). Core-only. -/
namespace ZChain.Round.Conc

/-- a thread's remaining program: a sequence of `setPhase(v)` calls, each under the mutex -/
def prog (vs : List Int) : List Instr := (vs.map lockedSetPhaseI).flatten

theorem prog_nil : prog [] = [] := rfl
theorem prog_cons (v : Int) (vs : List Int) :
    prog (v :: vs) = .lock :: .load :: .storeIfGt v :: .unlock :: prog vs := rfl

/-- outside any critical section -/
def Idle (t : Thread) : Prop := ∃ vs, t.rem = prog vs

/-- inside its critical section (after `lock`), in one of its three positions; between the load and the store
the register holds the CURRENT phase (nobody else can have stored meanwhile) -/
def InCS (ph : Int) (t : Thread) : Prop :=
  ∃ v vs, t.rem = .load :: .storeIfGt v :: .unlock :: prog vs ∨
    (t.rem = .storeIfGt v :: .unlock :: prog vs ∧ t.reg = ph) ∨
    t.rem = .unlock :: prog vs

def Inv (s : CS) : Prop :=
  (s.mutex = false ∧ ∀ i, Idle (s.thr i)) ∨
  (s.mutex = true ∧ ∃ h, InCS s.phase (s.thr h) ∧ ∀ j, j ≠ h → Idle (s.thr j))

theorem upd_same (f : Nat → Thread) (i : Nat) (t : Thread) : upd f i t i = t := by simp [upd]
theorem upd_other (f : Nat → Thread) (i j : Nat) (t : Thread) (h : j ≠ i) : upd f i t j = f j := by simp [upd, h]

/-- one atomic step of any thread keeps the invariant and does not lower the phase -/
theorem cstep_inv (s : CS) (i : Nat) (hs : Inv s) : Inv (cstep s i) ∧ s.phase ≤ (cstep s i).phase := by
  rcases hs with ⟨hm, hidle⟩ | ⟨hm, h, hcs, hothers⟩
  · -- mutex free, everybody idle
    obtain ⟨vs, hvs⟩ := hidle i
    cases vs with
    | nil =>
      have : cstep s i = s := by simp only [cstep, hvs, prog_nil]
      rw [this]; exact ⟨Or.inl ⟨hm, hidle⟩, Int.le_refl _⟩
    | cons v vs =>
      have hstep : cstep s i = { s with mutex := true, thr := upd s.thr i { s.thr i with rem := .load :: .storeIfGt v :: .unlock :: prog vs } } := by
        simp [cstep, hvs, prog_cons, hm]
      rw [hstep]
      refine ⟨Or.inr ⟨rfl, i, ?_, ?_⟩, Int.le_refl _⟩
      · refine ⟨v, vs, Or.inl ?_⟩
        simp [upd_same]
      · intro j hj
        simp only [upd_other _ _ _ _ hj]
        exact hidle j
  · -- mutex held by h
    by_cases hi : i = h
    · subst hi
      obtain ⟨v, vs, h1 | ⟨h2, hreg⟩ | h3⟩ := hcs
      · -- load
        have hstep : cstep s i = { s with thr := upd s.thr i { rem := .storeIfGt v :: .unlock :: prog vs, reg := s.phase } } := by
          simp only [cstep, h1]
        rw [hstep]
        refine ⟨Or.inr ⟨hm, i, ⟨v, vs, Or.inr (Or.inl ?_)⟩, ?_⟩, Int.le_refl _⟩
        · simp [upd_same]
        · intro j hj; simp only [upd_other _ _ _ _ hj]; exact hothers j hj
      · -- conditional store: the register equals the current phase
        have hstep : cstep s i = { s with phase := (if v > (s.thr i).reg then v else s.phase), thr := upd s.thr i { s.thr i with rem := .unlock :: prog vs } } := by
          simp only [cstep, h2]
        rw [hstep]
        refine ⟨Or.inr ⟨hm, i, ⟨v, vs, Or.inr (Or.inr ?_)⟩, ?_⟩, ?_⟩
        · simp [upd_same]
        · intro j hj; simp only [upd_other _ _ _ _ hj]; exact hothers j hj
        · simp only [hreg]; split <;> omega
      · -- unlock
        have hstep : cstep s i = { s with mutex := false, thr := upd s.thr i { s.thr i with rem := prog vs } } := by
          simp only [cstep, h3]
        rw [hstep]
        refine ⟨Or.inl ⟨rfl, ?_⟩, Int.le_refl _⟩
        intro j
        by_cases hj : j = i
        · subst hj; exact ⟨vs, by simp [upd_same]⟩
        · simp only [upd_other _ _ _ _ hj]; exact hothers j hj
    · -- another thread: idle, and its next instruction (if any) is `lock`, which blocks
      obtain ⟨vs, hvs⟩ := hothers i hi
      have : cstep s i = s := by
        cases vs with
        | nil => simp only [cstep, hvs, prog_nil]
        | cons v vs => simp [cstep, hvs, prog_cons, hm]
      rw [this]
      exact ⟨Or.inr ⟨hm, h, hcs, hothers⟩, Int.le_refl _⟩

theorem trace_ge (sched : List Nat) : ∀ (s : CS), Inv s → ∀ x ∈ trace s sched, s.phase ≤ x := by
  induction sched with
  | nil => intro s _ x hx; simp [trace] at hx; omega
  | cons i is ih =>
    intro s hs x hx
    simp only [trace, List.mem_cons] at hx
    rcases hx with rfl | hx
    · exact Int.le_refl _
    · have := cstep_inv s i hs
      exact Int.le_trans this.2 (ih _ this.1 x hx)

theorem trace_pairwise (sched : List Nat) : ∀ (s : CS), Inv s → (trace s sched).Pairwise (· ≤ ·) := by
  induction sched with
  | nil => intro s _; simp [trace]
  | cons i is ih =>
    intro s hs
    have := cstep_inv s i hs
    simp only [trace, List.pairwise_cons]
    exact ⟨fun x hx => Int.le_trans this.2 (trace_ge is _ this.1 x hx), ih _ this.1⟩

theorem init_inv (p0 : Int) (progs : List (List Int)) : Inv (initCS p0 (progs.map prog)) := by
  refine Or.inl ⟨rfl, fun i => ?_⟩
  unfold initCS Idle
  simp only
  by_cases hi : i < progs.length
  · refine ⟨progs[i], ?_⟩
    rw [List.getD_eq_getElem?_getD, List.getElem?_map, List.getElem?_eq_getElem hi]
    rfl
  · refine ⟨[], ?_⟩
    rw [List.getD_eq_getElem?_getD, List.getElem?_eq_none (by simpa using hi)]
    rfl

theorem locked_trace_monotone (p0 : Int) (progs : List (List Int)) (sched : List Nat) :
    (trace (initCS p0 (progs.map fun vs => (vs.map lockedSetPhaseI).flatten)) sched).Pairwise (· ≤ ·) :=
  trace_pairwise sched _ (init_inv p0 progs)

end ZChain.Round.Conc
