import ZChain.Model.Round
/-! Concurrent phase model (C37): with `setPhase` as a load/compare-and-swap loop no atomic step of any thread lowers
the phase, whatever the threads' programs are, as long as they contain no explicit `reset` (and not the historical
`storeIfGt`). Core-only. -/
namespace ZChain.Round.Conc

/-- an instruction that cannot lower the phase: everything but `ResetPhase` and the pre-8870ba0 store -/
def Instr.safe : Instr → Bool
  | .reset _ => false
  | .storeIfGt _ => false
  | _ => true

/-- every thread's remaining program consists of lock / unlock / load / cas -/
def Safe (s : CS) : Prop := ∀ i, ∀ ins ∈ (s.thr i).rem, ins.safe = true

theorem upd_same (f : Nat → Thread) (i : Nat) (t : Thread) : upd f i t i = t := by simp [upd]
theorem upd_other (f : Nat → Thread) (i j : Nat) (t : Thread) (h : j ≠ i) : upd f i t j = f j := by simp [upd, h]

/-- a thread's program is replaced by `new`, all of whose instructions are safe -/
theorem safe_upd {s : CS} (hs : Safe s) (i : Nat) (t : Thread) (ht : ∀ ins ∈ t.rem, ins.safe = true)
    (ph : Int) (m : Bool) : Safe { phase := ph, mutex := m, thr := upd s.thr i t } := by
  intro j ins hins
  by_cases hj : j = i
  · subst hj; simp only [upd_same] at hins; exact ht ins hins
  · simp only [upd_other _ _ _ _ hj] at hins; exact hs j ins hins

/-- **one atomic step**: programs stay safe, and the phase does not go down. The only step that writes the phase
is a successful `cas v`, which requires `v > reg` and `phase = reg` at that very moment, i.e. `v > phase`. -/
theorem cstep_safe (s : CS) (i : Nat) (hs : Safe s) : Safe (cstep s i) ∧ s.phase ≤ (cstep s i).phase := by
  have hi := hs i
  unfold cstep
  simp only
  cases hrem : (s.thr i).rem with
  | nil => exact ⟨hs, Int.le_refl _⟩
  | cons ins rest =>
    rw [hrem] at hi
    have hrest : ∀ x ∈ rest, x.safe = true := fun x hx => hi x (List.mem_cons_of_mem _ hx)
    have hhead : ins.safe = true := hi ins List.mem_cons_self
    cases ins with
    | lock =>
      simp only
      split
      · exact ⟨hs, Int.le_refl _⟩
      · exact ⟨safe_upd hs i _ hrest _ _, Int.le_refl _⟩
    | unlock => exact ⟨safe_upd hs i _ hrest _ _, Int.le_refl _⟩
    | load => exact ⟨safe_upd hs i _ hrest _ _, Int.le_refl _⟩
    | cas v =>
      simp only
      split
      · exact ⟨safe_upd hs i _ hrest _ _, Int.le_refl _⟩
      · split
        · rename_i h1 h2
          exact ⟨safe_upd hs i _ hrest _ _, by simp only; omega⟩
        · refine ⟨safe_upd hs i _ ?_ _ _, Int.le_refl _⟩
          intro x hx
          simp only [List.mem_cons] at hx
          rcases hx with rfl | rfl | hx
          · rfl
          · rfl
          · exact hrest x hx
    | storeIfGt v => simp [Instr.safe] at hhead
    | reset v => simp [Instr.safe] at hhead

theorem trace_ge (sched : List Nat) : ∀ (s : CS), Safe s → ∀ x ∈ trace s sched, s.phase ≤ x := by
  induction sched with
  | nil => intro s _ x hx; simp [trace] at hx; omega
  | cons i is ih =>
    intro s hs x hx
    simp only [trace, List.mem_cons] at hx
    rcases hx with rfl | hx
    · exact Int.le_refl _
    · have := cstep_safe s i hs
      exact Int.le_trans this.2 (ih _ this.1 x hx)

theorem trace_pairwise (sched : List Nat) : ∀ (s : CS), Safe s → (trace s sched).Pairwise (· ≤ ·) := by
  induction sched with
  | nil => intro s _; simp [trace]
  | cons i is ih =>
    intro s hs
    have := cstep_safe s i hs
    simp only [trace, List.pairwise_cons]
    exact ⟨fun x hx => Int.le_trans this.2 (trace_ge is _ this.1 x hx), ih _ this.1⟩

theorem init_safe (p0 : Int) (progs : List (List Instr)) (h : ∀ p ∈ progs, ∀ ins ∈ p, ins.safe = true) :
    Safe (initCS p0 progs) := by
  intro i ins hins
  unfold initCS at hins
  simp only at hins
  by_cases hi : i < progs.length
  · rw [List.getD_eq_getElem?_getD, List.getElem?_eq_getElem hi] at hins
    exact h _ (List.getElem_mem hi) ins hins
  · rw [List.getD_eq_getElem?_getD, List.getElem?_eq_none (by simpa using hi)] at hins
    simp at hins

/-- a call of the round's phase-raising operations: the exported unlocked `SetPhase(v)`, or `setPhase(v)` under
`r.mutex` (as in `AddNotarizedBlock`, `AddVRFShare`) -/
inductive Call where
  | setPhase (v : Int)
  | lockedSetPhase (v : Int)
deriving DecidableEq, Repr

def Call.instrs : Call → List Instr
  | .setPhase v => setPhaseI v
  | .lockedSetPhase v => lockedSetPhaseI v

def prog (cs : List Call) : List Instr := (cs.map Call.instrs).flatten

theorem prog_safe (cs : List Call) : ∀ ins ∈ prog cs, ins.safe = true := by
  intro ins hins
  unfold prog at hins
  simp only [List.mem_flatten, List.mem_map] at hins
  obtain ⟨l, ⟨c, _, rfl⟩, hl⟩ := hins
  cases c <;> simp [Call.instrs, setPhaseI, lockedSetPhaseI] at hl <;> rcases hl with rfl | rfl | rfl | rfl <;> rfl

/-- a failed compare-and-swap means some other thread changed the phase since this thread's load: the retry loop
only spins when the phase really moved -/
theorem cas_retries_only_when_moved (s : CS) (i : Nat) (v : Int) (rest : List Instr)
    (h : (s.thr i).rem = .cas v :: rest) (hretry : ((cstep s i).thr i).rem = .load :: .cas v :: rest) :
    s.phase ≠ (s.thr i).reg ∧ (s.thr i).reg < v := by
  unfold cstep at hretry
  simp only [h] at hretry
  by_cases h1 : v ≤ (s.thr i).reg
  · simp only [h1, if_true, upd_same] at hretry
    have := congrArg List.length hretry; simp at this; omega
  · by_cases h2 : s.phase = (s.thr i).reg
    · simp only [h1, h2, if_true, if_false, upd_same] at hretry
      have := congrArg List.length hretry; simp at this; omega
    · exact ⟨h2, by omega⟩

end ZChain.Round.Conc
