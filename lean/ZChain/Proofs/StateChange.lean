import ZChain.Model.StateChange
/-!
Helper lemmas for C28: the result of `MemoryNodeDB.ComputeRoot` does not depend on the order in which Go
enumerates the node map, and what `computeProperties` guarantees about an accepted change set.
-/
namespace ZChain.StateChange

section order
variable (reach : Hash → Hash → Bool)

/-- once the root candidate is `r`, nothing replaces it -/
theorem fold_from_root (ns : List Node) (r : Node)
    (hall : ∀ y ∈ ns, y.hash ≠ r.hash → reach r.hash y.hash = true)
    (hasym : ∀ a b, reach a b = true → reach b a = false)
    (hdist : ∀ x ∈ ns, x.hash = r.hash → x = r) :
    ∀ rest : List Node, (∀ n ∈ rest, n ∈ ns) → rest.foldl (rootStep reach) (some r) = some r := by
  intro rest
  induction rest with
  | nil => intro _; rfl
  | cons n tl ih =>
    intro hsub
    simp only [List.foldl_cons]
    have hn := hsub n (by simp)
    have hstep : rootStep reach (some r) n = some r := by
      simp only [rootStep]
      by_cases hl : n.leaf
      · simp [hl]
      · simp only [hl, Bool.false_eq_true, if_false]
        by_cases he : n.hash = r.hash
        · have : n = r := hdist n hn he
          subst this
          have hrr : reach n.hash n.hash = false := by
            cases h : reach n.hash n.hash with
            | false => rfl
            | true => have := hasym _ _ h; rw [h] at this; cases this
          simp [hrr]
        · simp [hall n hn he]
    rw [hstep]
    exact ih (fun m hm => hsub m (by simp [hm]))

/-- **ComputeRoot does not depend on Go's map order**: if some node `r` of the set reaches every other node (that
is what `validate` demands of the result), reachability is acyclic and hashes identify nodes, then the loop
ends with `r` for EVERY enumeration order of the set. -/
theorem computeRoot_order_independent (ns : List Node) (r : Node) (hr : r ∈ ns)
    (hall : ∀ y ∈ ns, y.hash ≠ r.hash → reach r.hash y.hash = true)
    (hasym : ∀ a b, reach a b = true → reach b a = false)
    (hdist : ∀ x ∈ ns, ∀ y ∈ ns, x.hash = y.hash → x = y)
    (hleaf : r.leaf = true → ∀ y ∈ ns, y = r)
    (order : List Node) (hperm : order.Perm ns) :
    computeRootWith reach order = some r := by
  unfold computeRootWith
  have hsub : ∀ n ∈ order, n ∈ ns := fun n hn => hperm.mem_iff.mp hn
  have hrin : r ∈ order := hperm.mem_iff.mpr hr
  -- generalise over the accumulator: none, or a node of the set other than r, while r is still to come
  suffices h : ∀ (rest : List Node) (acc : Option Node), (∀ n ∈ rest, n ∈ ns) → r ∈ rest →
      (acc = none ∨ ∃ x, acc = some x ∧ x ∈ ns ∧ x ≠ r) → rest.foldl (rootStep reach) acc = some r from
    h order none hsub hrin (Or.inl rfl)
  intro rest
  induction rest with
  | nil => intro _ _ h; simp at h
  | cons n tl ih =>
    intro acc hsub hrin hacc
    simp only [List.foldl_cons]
    have hn := hsub n (by simp)
    have hsubtl : ∀ m ∈ tl, m ∈ ns := fun m hm => hsub m (by simp [hm])
    by_cases hnr : n = r
    · subst hnr
      have hroot : rootStep reach acc n = some n := by
        rcases hacc with h | ⟨x, hx, hxin, hxne⟩
        · rw [h]; rfl
        · rw [hx]
          simp only [rootStep]
          have hnl : n.leaf = false := by
            cases hl : n.leaf with
            | false => rfl
            | true => exact absurd (hleaf hl x hxin) hxne
          have hxh : x.hash ≠ n.hash := fun e => hxne (hdist x hxin n hn e)
          have h1 : reach n.hash x.hash = true := hall x hxin hxh
          have h2 : reach x.hash n.hash = false := hasym _ _ h1
          simp [hnl, h1, h2]
      rw [hroot]
      exact fold_from_root reach ns n hall hasym (fun x hx he => hdist x hx n hn he) tl hsubtl
    · have hrtl : r ∈ tl := by
        rcases List.mem_cons.mp hrin with h | h
        · exact absurd h.symm hnr
        · exact h
      apply ih _ hsubtl hrtl
      right
      rcases hacc with h | ⟨x, hx, hxin, hxne⟩
      · rw [h]; exact ⟨n, rfl, hn, hnr⟩
      · rw [hx]
        simp only [rootStep]
        split
        · exact ⟨x, rfl, hxin, hxne⟩
        · split
          · exact ⟨x, rfl, hxin, hxne⟩
          · split
            · exact ⟨n, rfl, hn, hnr⟩
            · exact ⟨x, rfl, hxin, hxne⟩

end order

/-! ### what an accepted change set looks like -/

theorem distinctHashes_inj : ∀ (ns : List Node), distinctHashes ns = true →
    ∀ x ∈ ns, ∀ y ∈ ns, x.hash = y.hash → x = y := by
  intro ns
  induction ns with
  | nil => intro _ x hx; simp at hx
  | cons n rest ih =>
    intro hd x hx y hy he
    simp only [distinctHashes, Bool.and_eq_true, Bool.not_eq_true', List.any_eq_false] at hd
    have hnot : ∀ m ∈ rest, m.hash ≠ n.hash := by
      intro m hm hmn
      have := hd.1 m hm
      simp [hmn] at this
    rcases List.mem_cons.mp hx with rfl | hx'
    · rcases List.mem_cons.mp hy with rfl | hy'
      · rfl
      · exact absurd he.symm (hnot y hy')
    · rcases List.mem_cons.mp hy with rfl | hy'
      · exact absurd he (hnot x hx')
      · exact ih hd.2 x hx' y hy' he

/-- an accepted change set: its root carries the declared hash, is one of its nodes, and every node of the set is
the root or reachable from it through nodes of the set — no node outside the declared tree is accepted -/
theorem computeProperties_some (cs : ChangeSet) (r : Node) (h : computeProperties cs = some r) :
    r.hash = cs.root ∧ distinctHashes cs.nodes = true ∧ cs.nodes ≠ [] ∧
    (∀ n ∈ cs.nodes, n.hash = r.hash ∨ reachable cs.nodes cs.nodes.length r.hash n.hash = true) := by
  unfold computeProperties at h
  split at h
  · cases h
  · rename_i hne
    split at h
    · cases h
    · rename_i hd
      split at h
      · cases h
      · rename_i r' _
        split at h
        · rename_i hv
          injection h with h; subst h
          simp only [Bool.and_eq_true, beq_iff_eq] at hv
          refine ⟨hv.2, by simpa using hd, by intro e; simp [e] at hne, ?_⟩
          intro n hn
          have := hv.1
          simp only [validate, List.all_eq_true, Bool.or_eq_true, beq_iff_eq] at this
          exact this n hn
        · cases h

end ZChain.StateChange
