import ZChain.Proofs.PartitionsTable
/-!
C25, implementation → table. The *view* of a model state `s : S` is the table
`(size, Last.Loc, Pv s, location nodes)`, where `Pv s i` is the effective content of partition `i`
(`Last`, else the loaded copy, else the persisted node). `CI s` is the coherence between the in-memory object
and the store (what makes lazy loading, the `Changed` flags and the location cache sound). Every primitive of
the model keeps `CI` and acts on the view as the corresponding table operation.
-/
namespace ZChain.Partitions

/-- effective content of partition `i`: `Last`, else the loaded copy, else the persisted node -/
def Pv (s : S) (i : Nat) : List Item :=
  if i = s.m.last.loc then s.m.last.items
  else match s.m.parts.get i with
    | some p => p.items
    | none => match s.st.parts.get i with
      | some v => v.2
      | none => []

/-- coherence of the in-memory object with the store -/
structure CI (s : S) : Prop where
  lastkey : s.m.last.key = s.m.last.loc
  /-- a loaded partition sits below `Last`, is keyed by its index, and if not `Changed` equals its node -/
  loaded : ∀ i p, s.m.parts.get i = some p →
    i < s.m.last.loc ∧ p.key = i ∧ p.loc = i ∧ (p.changed = false → s.st.parts.get i = some (i, p.items))
  /-- every partition below `Last` has a node (with `Loc` = its index) -/
  store : ∀ i, i < s.m.last.loc → ∃ items, s.st.parts.get i = some (i, items)
  /-- the location cache only holds what the location nodes say -/
  cache : ∀ id i, s.m.locs.get id = some i → s.st.locs.get id = some i

/-- `t` is the view of `s` -/
structure Rel (s : S) (t : T) : Prop where
  size : t.size = s.m.size
  L : t.L = s.m.last.loc
  P : ∀ i, i ≤ t.L → t.P i = Pv s i
  loc : ∀ id, t.loc id = s.st.locs.get id

/-- the view itself -/
def tbl (s : S) : T := ⟨s.m.size, s.m.last.loc, Pv s, fun id => s.st.locs.get id⟩

theorem rel_tbl (s : S) : Rel s (tbl s) := ⟨rfl, rfl, fun _ _ => rfl, fun _ => rfl⟩

theorem Rel.last {s : S} {t : T} (h : Rel s t) : t.P t.L = s.m.last.items := by
  rw [h.P _ (Nat.le_refl _), h.L]; simp [Pv]

/-! ### primitives -/

theorem getItemPartIndex_eq {s : S} {t : T} (hci : CI s) (hrel : Rel s t) (id : Nat) :
    getItemPartIndex s id = t.loc id := by
  unfold getItemPartIndex
  rw [hrel.loc]
  cases h : s.m.locs.get id with
  | none => rfl
  | some l => exact (hci.cache id l h).symm

/-- a reference obtained from `getPartition s i` -/
def RefOK (s : S) (r : Ref) (i : Nat) : Prop :=
  (r = .last ∧ i = s.m.last.loc) ∨ (r = .at i ∧ i < s.m.last.loc ∧ ∃ p, s.m.parts.get i = some p)

theorem getPartition_ok {s : S} {t : T} {i : Nat} (hci : CI s) (hrel : Rel s t) (hi : i ≤ t.L) :
    ∃ s1 r, getPartition s i = (s1, .ok r) ∧ CI s1 ∧ Rel s1 t ∧ RefOK s1 r i ∧ (readRef s1 r).items = t.P i := by
  have hL := hrel.L
  unfold getPartition
  by_cases h1 : i = s.m.last.loc
  · refine ⟨s, .last, by simp [h1], hci, hrel, Or.inl ⟨rfl, h1⟩, ?_⟩
    rw [hrel.P i hi]; simp [readRef, Pv, h1]
  · have hlt : i < s.m.last.loc := by omega
    have hng : ¬ i > s.m.last.loc := by omega
    simp only [hng, h1, if_false]
    cases hm : s.m.parts.get i with
    | some p =>
      refine ⟨s, .at i, rfl, hci, hrel, Or.inr ⟨rfl, hlt, p, hm⟩, ?_⟩
      rw [hrel.P i hi]; simp [readRef, Pv, h1, hm]
    | none =>
      obtain ⟨items, hst⟩ := hci.store i hlt
      simp only [hst]
      refine ⟨_, .at i, rfl, ?_, ?_, ?_, ?_⟩
      · constructor
        · exact hci.lastkey
        · intro j p hj
          simp only [KV.get_set] at hj
          split at hj
          · subst_vars; simp at hj; subst hj; simp [hlt, hst]
          · exact hci.loaded j p hj
        · exact hci.store
        · exact hci.cache
      · constructor
        · exact hrel.size
        · exact hrel.L
        · intro j hj
          rw [hrel.P j hj]
          simp only [Pv, KV.get_set]
          grind
        · exact hrel.loc
      · exact Or.inr ⟨rfl, hlt, ⟨i, i, items, false⟩, by simp [KV.get_set]⟩
      · rw [hrel.P i hi]; simp [readRef, Pv, h1, hm, hst, KV.get_set]

/-- changing the items of `Last` (any `Changed` flag) -/
theorem setLast_ok {s : S} {t : T} (hci : CI s) (hrel : Rel s t) (new : List Item) (c : Bool) :
    CI { s with m := { s.m with last := { s.m.last with items := new, changed := c } } } ∧
    Rel { s with m := { s.m with last := { s.m.last with items := new, changed := c } } } (t.setP t.L new) := by
  constructor
  · exact ⟨hci.lastkey, hci.loaded, hci.store, hci.cache⟩
  · constructor
    · exact hrel.size
    · exact hrel.L
    · intro j hj
      have := hrel.P j hj
      have hL := hrel.L
      simp only [T.setP, upd_apply, Pv] at this ⊢
      grind
    · exact hrel.loc

/-- changing the items of a loaded partition, setting `Changed` -/
theorem setPart_ok {s : S} {t : T} (hci : CI s) (hrel : Rel s t) {i : Nat} {p : Part}
    (hp : s.m.parts.get i = some p) (new : List Item) :
    CI { s with m := { s.m with parts := s.m.parts.set i { p with items := new, changed := true } } } ∧
    Rel { s with m := { s.m with parts := s.m.parts.set i { p with items := new, changed := true } } }
      (t.setP i new) := by
  obtain ⟨hlt, hkey, hloc, _⟩ := hci.loaded i p hp
  constructor
  · refine ⟨hci.lastkey, ?_, hci.store, hci.cache⟩
    intro j q hj
    simp only [KV.get_set] at hj
    split at hj
    · subst_vars; simp at hj; subst hj; simp [hlt, hloc]
    · exact hci.loaded j q hj
  · constructor
    · exact hrel.size
    · exact hrel.L
    · intro j hj
      have := hrel.P j hj
      have hL := hrel.L
      simp only [T.setP, upd_apply, Pv, KV.get_set] at this ⊢
      grind
    · exact hrel.loc

theorem saveItemLoc_ok {s : S} {t : T} (hci : CI s) (hrel : Rel s t) (id i : Nat) :
    CI (saveItemLoc s id i) ∧ Rel (saveItemLoc s id i) (t.setLoc id i) := by
  constructor
  · refine ⟨hci.lastkey, hci.loaded, hci.store, ?_⟩
    intro a j h
    simp only [saveItemLoc, KV.get_set] at h ⊢
    have := hci.cache a j
    grind
  · refine ⟨hrel.size, hrel.L, hrel.P, ?_⟩
    intro a
    simp only [saveItemLoc, T.setLoc, upd_apply, KV.get_set, hrel.loc]
    grind

theorem removeItemLoc_ok {s : S} {t : T} (hci : CI s) (hrel : Rel s t) {id l : Nat} (hl : t.loc id = some l) :
    ∃ s', removeItemLoc s id = (s', .ok ()) ∧ CI s' ∧ Rel s' (t.delLoc id) := by
  rw [hrel.loc] at hl
  unfold removeItemLoc
  simp only [hl]
  refine ⟨_, rfl, ?_, ?_⟩
  · refine ⟨hci.lastkey, hci.loaded, hci.store, ?_⟩
    intro a j h
    simp only [KV.get_del] at h ⊢
    have := hci.cache a j
    grind
  · refine ⟨hrel.size, hrel.L, hrel.P, ?_⟩
    intro a
    simp only [T.delLoc, upd_apply, KV.get_del, hrel.loc]
    grind

theorem foldl_set_get (items : List Item) (idx : Nat) (c : KV Nat) (a : Nat) :
    (items.foldl (fun c it => c.set it.id idx) c).get a =
      match findItem items a with
      | some _ => some idx
      | none => c.get a := by
  induction items generalizing c with
  | nil => simp [findItem]
  | cons x r ih =>
    simp only [List.foldl_cons, ih, findItem, KV.get_set]
    grind

theorem loadLocations_ok {s : S} {t : T} (hci : CI s) (hrel : Rel s t) (idx : Nat)
    (hc : ∀ p, s.m.parts.get idx = some p → ∀ x ∈ p.items, s.st.locs.get x.id = some idx) :
    CI (loadLocations s idx) ∧ Rel (loadLocations s idx) t := by
  unfold loadLocations
  split
  · exact ⟨hci, hrel⟩
  · cases hp : s.m.parts.get idx with
    | none => exact ⟨hci, hrel⟩
    | some p =>
      simp only
      refine ⟨⟨hci.lastkey, hci.loaded, hci.store, ?_⟩, ⟨hrel.size, hrel.L, hrel.P, hrel.loc⟩⟩
      intro a j h
      simp only [foldl_set_get] at h
      cases hf : findItem p.items a with
      | none => rw [hf] at h; exact hci.cache a j h
      | some x =>
        rw [hf] at h
        obtain ⟨hx, hxa⟩ := findItem_some hf
        simp at h; subst h; subst hxa
        exact hc p hp x hx



theorem foldl_saveItemLoc (items : List Item) (l : Nat) (s : S) :
    items.foldl (fun acc it => saveItemLoc acc it.id l) s =
      ⟨{ s.st with locs := items.foldl (fun c it => c.set it.id l) s.st.locs },
       { s.m with locs := items.foldl (fun c it => c.set it.id l) s.m.locs }⟩ := by
  induction items generalizing s with
  | nil => rfl
  | cons x r ih => rw [List.foldl_cons, ih]; simp only [saveItemLoc, List.foldl_cons]

theorem pack_ok {s : S} {t : T} (hci : CI s) (hrel : Rel s t) :
    CI (pack s) ∧ Rel (pack s) t.pack := by
  have hk := hci.lastkey
  have hlast := hrel.last
  unfold pack
  simp only [foldl_saveItemLoc]
  constructor
  · constructor
    · rfl
    · intro j p hj
      simp only [KV.get_set] at hj ⊢
      by_cases hjl : s.m.last.loc = j
      · simp only [hjl, if_true, Option.some.injEq] at hj
        subst hj
        simp [hk, hjl]
      · simp only [hjl, if_false] at hj
        obtain ⟨h1, h2, h3, h4⟩ := hci.loaded j p hj
        refine ⟨by omega, h2, h3, ?_⟩
        intro hc
        rw [hk]; simp only [hjl, if_false]; exact h4 hc
    · intro i hi
      simp only [KV.get_set] at hi ⊢
      rw [hk]
      by_cases hil : s.m.last.loc = i
      · simp [hil]
      · simp only [hil, if_false]; exact hci.store i (by omega)
    · intro a j h
      simp only [foldl_set_get] at h ⊢
      split at h
      · exact h
      · exact hci.cache a j h
  · constructor
    · exact hrel.size
    · simp [T.pack, hrel.L]
    · intro j hj
      simp only [T.pack, upd_apply] at hj ⊢
      have hL := hrel.L
      by_cases hj1 : j = t.L + 1
      · simp [hj1, Pv, hL]
      · simp only [hj1, if_false]
        rw [hrel.P j (by omega)]
        simp only [Pv, KV.get_set, hk]
        grind
    · intro a
      have hlast' : t.P s.m.last.loc = s.m.last.items := by rw [← hrel.L]; exact hlast
      simp only [T.pack, foldl_set_get, hrel.loc, hrel.L, hlast']
      cases findItem s.m.last.items a <;> rfl



theorem foldl_del_get (items : List Item) (c : KV Nat) (a : Nat) :
    (items.foldl (fun c it => c.del it.id) c).get a =
      match findItem items a with
      | some _ => none
      | none => c.get a := by
  induction items generalizing c with
  | nil => simp [findItem]
  | cons x r ih =>
    simp only [List.foldl_cons, ih, findItem, KV.get_del]
    grind

theorem removeItemLocs_ok (items : List Item) (s : S) (hnd : (items.map (·.id)).Nodup)
    (hall : ∀ x ∈ items, ∃ l, s.st.locs.get x.id = some l) :
    removeItemLocs items s =
      (⟨{ s.st with locs := items.foldl (fun c it => c.del it.id) s.st.locs },
        { s.m with locs := items.foldl (fun c it => c.del it.id) s.m.locs }⟩, .ok ()) := by
  induction items generalizing s with
  | nil => rfl
  | cons x r ih =>
    obtain ⟨l, hl⟩ := hall x (by simp)
    simp only [List.map_cons, List.nodup_cons, List.mem_map, not_exists, not_and] at hnd
    simp only [removeItemLocs, removeItemLoc, hl]
    rw [ih _ hnd.2]
    · simp only [List.foldl_cons]
    · intro y hy
      obtain ⟨l', hl'⟩ := hall y (by simp [hy])
      refine ⟨l', ?_⟩
      simp only [KV.get_del]
      have : x.id ≠ y.id := fun h => hnd.1 y hy h.symm
      simp [this, hl']

theorem loaded_items {s : S} {t : T} (hrel : Rel s t) {i : Nat} {p : Part} (hi : i < t.L)
    (hp : s.m.parts.get i = some p) : p.items = t.P i := by
  rw [hrel.P i (by omega)]
  have := hrel.L
  simp [Pv, show i ≠ s.m.last.loc by omega, hp]

theorem RefOK.at' {s : S} {r : Ref} {i : Nat} (h : RefOK s r i) (hi : i < s.m.last.loc) :
    r = .at i ∧ ∃ p, s.m.parts.get i = some p ∧ readRef s r = p := by
  rcases h with ⟨_, h2⟩ | ⟨h1, _, p, hp⟩
  · omega
  · exact ⟨h1, p, hp, by rw [h1]; simp [readRef, hp]⟩

theorem loadLastFromPrev_ok {s : S} {t : T} (hci : CI s) (hrel : Rel s t)
    (hnd : t.L ≠ 0 → ((t.P (t.L - 1)).map (·.id)).Nodup)
    (hall : t.L ≠ 0 → ∀ x ∈ t.P (t.L - 1), ∃ l, t.loc x.id = some l) :
    ∃ s', loadLastFromPrev s = (s', .ok ()) ∧ CI s' ∧ Rel s' t.loadLastFromPrev := by
  have hL := hrel.L
  unfold loadLastFromPrev T.loadLastFromPrev
  by_cases h0 : t.L = 0
  · simp only [show s.m.last.loc = 0 by omega, h0, if_true]
    exact ⟨s, rfl, hci, hrel⟩
  · simp only [show s.m.last.loc ≠ 0 by omega, h0, if_false]
    obtain ⟨s1, r, hg, hci1, hrel1, hr, hitems⟩ := getPartition_ok hci hrel (i := s.m.last.loc - 1) (by omega)
    rw [hg]
    simp only
    have hL1 := hrel1.L
    obtain ⟨hr1, prev, hp, hrp⟩ := hr.at' (by omega)
    rw [hrp]
    rw [hrp] at hitems
    obtain ⟨_, hkey, hloc, _⟩ := hci1.loaded _ _ hp
    have hLL : s.m.last.loc - 1 = t.L - 1 := by omega
    rw [hLL] at hitems hkey hloc hp
    rw [removeItemLocs_ok]
    · simp only
      obtain ⟨pitems, hst⟩ := hci1.store (t.L - 1) (by omega)
      simp only [hkey, hst, hloc]
      refine ⟨_, rfl, ?_, ?_⟩
      · constructor
        · simp [hkey, hloc]
        · intro j q hj
          simp only [KV.get_del] at hj ⊢
          split at hj
          · simp at hj
          · rename_i hne
            obtain ⟨h1, h2, h3, h4⟩ := hci1.loaded j q hj
            refine ⟨by simp only [hloc]; omega, h2, h3, ?_⟩
            intro hc; simp only [hne, if_false]; exact h4 hc
        · intro i hi
          simp only [hloc] at hi
          simp only [KV.get_del, show t.L - 1 ≠ i by omega, if_false]
          exact hci1.store i (by omega)
        · intro a j h
          simp only [foldl_del_get] at h ⊢
          split at h
          · simp at h
          · exact hci1.cache a j h
      · constructor
        · exact hrel1.size
        · simp [hloc]
        · intro j hj
          simp only at hj ⊢
          rw [hrel1.P j (by omega)]
          simp only [Pv, hloc, KV.get_del]
          by_cases hj1 : j = t.L - 1
          · simp [hj1, show t.L - 1 ≠ s1.m.last.loc by omega, hp]
          · simp [hj1, show j ≠ s1.m.last.loc by omega, show t.L - 1 ≠ j by omega]
        · intro a
          simp only [foldl_del_get, hitems, hrel1.loc]
          cases findItem (t.P (t.L - 1)) a <;> rfl
    · rw [hitems]; exact hnd h0
    · intro x hx
      simp only at hx ⊢
      rw [hitems] at hx
      obtain ⟨l, hl⟩ := hall h0 x hx
      exact ⟨l, by rw [← hrel1.loc]; exact hl⟩



theorem addX_ok {s : S} {t : T} (hci : CI s) (hrel : Rel s t) (it : Item) :
    CI (addX s it).1 ∧ Rel (addX s it).1 (t.addX it).1 ∧ (addX s it).2 = (t.addX it).2 := by
  unfold addX T.addX
  rw [getItemPartIndex_eq hci hrel]
  cases hl : t.loc it.id with
  | some l => exact ⟨hci, hrel, rfl⟩
  | none =>
    simp only
    unfold addCore
    rw [← hrel.last]
    cases hf : findItem (t.P t.L) it.id with
    | some x => exact ⟨hci, hrel, rfl⟩
    | none =>
      simp only
      rw [hrel.size]
      by_cases hp : (t.P t.L).length = s.m.size
      · simp only [hp, if_true]
        obtain ⟨hci1, hrel1⟩ := pack_ok hci hrel
        have hl1 : (pack s).m.last.items = [] := by simp [pack, foldl_saveItemLoc]
        rw [hl1]
        simp only [findItem]
        have := setLast_ok hci1 hrel1 ((pack s).m.last.items ++ [it]) true
        rw [hl1] at this
        have he : t.pack.P t.pack.L = [] := by rw [hrel1.last, hl1]
        rw [he]
        exact ⟨this.1, this.2, by rw [hrel1.L]⟩
      · simp only [hp, if_false]
        rw [← hrel.last, hf]
        simp only
        have := setLast_ok hci hrel (s.m.last.items ++ [it]) true
        rw [← hrel.last] at this
        exact ⟨this.1, this.2, by rw [hrel.L]⟩

theorem get_ok {s : S} {t : T} (hci : CI s) (hrel : Rel s t) (hw : WFA t) (id : Nat) :
    CI (get s id).1 ∧ Rel (get s id).1 t ∧ (get s id).2 = t.get id := by
  unfold get T.get
  rw [← hrel.last]
  cases hf : findItem (t.P t.L) id with
  | some x => exact ⟨hci, hrel, by rw [hrel.L]⟩
  | none =>
    simp only
    rw [getItemPartIndex_eq hci hrel]
    cases hl : t.loc id with
    | none => exact ⟨hci, hrel, rfl⟩
    | some l =>
      simp only
      obtain ⟨hlt, _⟩ := hw.loc_sound id l hl
      obtain ⟨s1, r, hg, hci1, hrel1, hr, hitems⟩ := getPartition_ok hci hrel (i := l) (by omega)
      rw [hg]
      simp only [hitems]
      cases hf2 : findItem (t.P l) id with
      | none => exact ⟨hci1, hrel1, rfl⟩
      | some x =>
        simp only
        have := loadLocations_ok hci1 hrel1 l (by
          intro p hp y hy
          rw [loaded_items hrel1 hlt hp] at hy
          rw [← hrel1.loc]
          exact hw.loc_complete l hlt y hy)
        exact ⟨this.1, this.2, trivial⟩

theorem exist_ok {s : S} {t : T} (hci : CI s) (hrel : Rel s t) (id : Nat) : exist s id = t.exist id := by
  unfold exist T.exist
  rw [← hrel.last, getItemPartIndex_eq hci hrel]
  cases findItem (t.P t.L) id <;> rfl

theorem size_ok {s : S} {t : T} (hrel : Rel s t) : size s = t.sizeOf := by
  unfold size T.sizeOf
  rw [← hrel.last, hrel.L, hrel.size]



/-- writing new items through a reference (sets `Changed`) -/
theorem writeItems_ok {s : S} {t : T} (hci : CI s) (hrel : Rel s t) {r : Ref} {i : Nat} (hr : RefOK s r i)
    (new : List Item) :
    CI (writeRef s r { readRef s r with items := new, changed := true }) ∧
    Rel (writeRef s r { readRef s r with items := new, changed := true }) (t.setP i new) := by
  rcases hr with ⟨h1, h2⟩ | ⟨h1, h2, p, hp⟩
  · subst h1
    have := setLast_ok hci hrel new true
    rw [h2, ← hrel.L]
    exact this
  · subst h1
    have := setPart_ok hci hrel hp new
    simp only [writeRef, readRef, hp, Option.getD_some]
    exact this

theorem updateItem_ok {s : S} {t : T} (hci : CI s) (hrel : Rel s t) (hw : WFA t) (it : Item) :
    CI (updateItem s it).1 ∧ Rel (updateItem s it).1 (t.updateItem it).1 ∧
      (updateItem s it).2 = (t.updateItem it).2 := by
  unfold updateItem T.updateItem
  rw [← hrel.last]
  cases hf : findItem (t.P t.L) it.id with
  | some x =>
    simp only [partUpdate, readRef]
    rw [← hrel.last, hf]
    simp only
    have := writeItems_ok hci hrel (r := .last) (i := t.L) (Or.inl ⟨rfl, hrel.L⟩)
      (replaceData (t.P t.L) it.id it.data)
    simp only [readRef] at this
    exact ⟨this.1, this.2, by first | trivial | rfl⟩
  | none =>
    simp only
    rw [getItemPartIndex_eq hci hrel]
    cases hl : t.loc it.id with
    | none => exact ⟨hci, hrel, rfl⟩
    | some l =>
      simp only
      obtain ⟨hlt, y, hy, hyid⟩ := hw.loc_sound it.id l hl
      obtain ⟨s1, r, hg, hci1, hrel1, hr, hitems⟩ := getPartition_ok hci hrel (i := l) (by omega)
      rw [hg]
      simp only [partUpdate, hitems]
      cases hf2 : findItem (t.P l) it.id with
      | none => exact ⟨hci1, hrel1, rfl⟩
      | some x =>
        simp only
        obtain ⟨hci2, hrel2⟩ := writeItems_ok hci1 hrel1 hr (replaceData (t.P l) it.id it.data)
        have hw2 := (hw.setP_replace it.data (by omega : l ≤ t.L) ⟨y, hy, hyid⟩).1
        have := loadLocations_ok hci2 hrel2 l (by
          intro p hp z hz
          rw [loaded_items hrel2 (by simpa [T.setP] using hlt) hp] at hz
          rw [← hrel2.loc]
          exact hw2.loc_complete l (by simpa [T.setP] using hlt) z hz)
        exact ⟨this.1, this.2, by first | trivial | rfl⟩

theorem update_ok {s : S} {t : T} (hci : CI s) (hrel : Rel s t) (hw : WFA t) (id : Nat) (f : Nat → Option Nat) :
    CI (update s id f).1 ∧ Rel (update s id f).1 (t.update id f).1 ∧
      (update s id f).2 = (t.update id f).2 := by
  unfold update T.update
  rw [← hrel.last]
  cases hf : findItem (t.P t.L) id with
  | some x =>
    simp only
    cases hfx : f x.data with
    | none => exact ⟨hci, hrel, rfl⟩
    | some d =>
      simp only
      have := setLast_ok hci hrel (replaceData s.m.last.items id d) s.m.last.changed
      rw [← hrel.last] at this
      exact ⟨this.1, this.2, by rw [hrel.L]⟩
  | none =>
    simp only
    rw [getItemPartIndex_eq hci hrel]
    cases hl : t.loc id with
    | none => exact ⟨hci, hrel, rfl⟩
    | some l =>
      simp only
      obtain ⟨hlt, y, hy, hyid⟩ := hw.loc_sound id l hl
      obtain ⟨s1, r, hg, hci1, hrel1, hr, hitems⟩ := getPartition_ok hci hrel (i := l) (by omega)
      rw [hg]
      simp only [hitems]
      cases hf2 : findItem (t.P l) id with
      | none => exact ⟨hci1, hrel1, rfl⟩
      | some x =>
        simp only
        cases hfx : f x.data with
        | none => exact ⟨hci1, hrel1, rfl⟩
        | some d =>
          simp only
          obtain ⟨hci2, hrel2⟩ := writeItems_ok hci1 hrel1 hr (replaceData (t.P l) id d)
          have hw2 := (hw.setP_replace d (by omega : l ≤ t.L) ⟨y, hy, hyid⟩).1
          have := loadLocations_ok hci2 hrel2 l (by
            intro p hp z hz
            rw [loaded_items hrel2 (by simpa [T.setP] using hlt) hp] at hz
            rw [← hrel2.loc]
            exact hw2.loc_complete l (by simpa [T.setP] using hlt) z hz)
          exact ⟨this.1, this.2, by first | trivial | rfl⟩



theorem removeFromLast_ok {s : S} {t : T} (hci : CI s) (hrel : Rel s t) (hw : WFA t) (k : Nat) :
    ∃ s', removeFromLast s k = (s', .ok ()) ∧ CI s' ∧ Rel s' (t.removeFromLast k) := by
  unfold removeFromLast T.removeFromLast
  obtain ⟨hci1, hrel1⟩ := setLast_ok hci hrel (swapRemove s.m.last.items k) s.m.last.changed
  rw [← hrel.last] at hci1 hrel1
  simp only
  rw [← hrel.last]
  have hl1 := hrel1.last
  simp only at hl1
  by_cases hpos : (swapRemove (t.P t.L) k).length > 0
  · rw [if_pos hpos, if_pos (by rw [hl1]; exact hpos)]
    exact ⟨_, rfl, hci1, hrel1⟩
  · rw [if_neg hpos, if_neg (by rw [hl1]; exact hpos)]
    apply loadLastFromPrev_ok hci1 hrel1
    · intro h0
      have : t.L - 1 ≠ t.L := by simp only [T.setP] at h0; omega
      simp only [T.setP, upd_apply, this, if_false]
      exact hw.nodup _ (by omega)
    · intro h0 x hx
      have h0' : t.L ≠ 0 := by simpa [T.setP] using h0
      have : t.L - 1 ≠ t.L := by omega
      simp only [T.setP, upd_apply, this, if_false] at hx ⊢
      exact ⟨_, hw.loc_complete _ (by omega) x hx⟩



/-- proof-side names for the two in-place writes (keeps the intermediate states readable) -/
def setLastItems (s : S) (new : List Item) (c : Bool) : S :=
  { s with m := { s.m with last := { s.m.last with items := new, changed := c } } }

def setPartItems (s : S) (i : Nat) (p : Part) (new : List Item) : S :=
  { s with m := { s.m with parts := s.m.parts.set i { p with items := new, changed := true } } }

theorem setLastItems_ok {s : S} {t : T} (hci : CI s) (hrel : Rel s t) (new : List Item) (c : Bool) :
    CI (setLastItems s new c) ∧ Rel (setLastItems s new c) (t.setP t.L new) := setLast_ok hci hrel new c

theorem setPartItems_ok {s : S} {t : T} (hci : CI s) (hrel : Rel s t) {i : Nat} {p : Part}
    (hp : s.m.parts.get i = some p) (new : List Item) :
    CI (setPartItems s i p new) ∧ Rel (setPartItems s i p new) (t.setP i new) := setPart_ok hci hrel hp new

/-- the common tail of both removal paths: drop `Last` if it became empty -/
theorem finish_ok {s : S} {t : T} (hci : CI s) (hrel : Rel s t)
    (hnd : t.L ≠ 0 → ((t.P (t.L - 1)).map (·.id)).Nodup)
    (hall : t.L ≠ 0 → ∀ x ∈ t.P (t.L - 1), ∃ l, t.loc x.id = some l) :
    ∃ s', (if s.m.last.items.length > 0 then (s, Except.ok ()) else loadLastFromPrev s) = (s', Except.ok ()) ∧
      CI s' ∧ Rel s' (if (t.P t.L).length > 0 then t else t.loadLastFromPrev) := by
  rw [hrel.last]
  split
  · exact ⟨s, rfl, hci, hrel⟩
  · exact loadLastFromPrev_ok hci hrel hnd hall

theorem removeItem_ok {s : S} {t : T} (hci : CI s) (hrel : Rel s t) (hw : WFA t) {id i : Nat}
    (hl : t.loc id = some i) (hnl : findItem (t.P t.L) id = none) :
    ∃ s', removeItem s id i = (s', .ok ()) ∧ CI s' ∧ Rel s' (t.removeItem id i) := by
  obtain ⟨hlt, y, hy, hyid⟩ := hw.loc_sound id i hl
  have hL := hrel.L
  unfold removeItem T.removeItem
  obtain ⟨s1, r, hg, hci1, hrel1, hr, hitems⟩ := getPartition_ok hci hrel (i := i) (by omega)
  rw [hg]
  simp only
  obtain ⟨hr1, p, hp, hrp⟩ := hr.at' (by rw [← hrel1.L]; exact hlt)
  subst hr1
  rw [hrp] at hitems ⊢
  rw [hitems]
  have hfull := hw.full i hlt
  have hsz := hw.size_pos
  rw [if_neg (by omega)]
  cases hk : findIdx (t.P i) id with
  | none => exact absurd hyid (findIdx_none.mp hk y hy)
  | some k =>
    simp only
    have hL1 := hrel1.L
    have hne1 : i ≠ s1.m.last.loc := by omega
    have hlast1 : s1.m.last.items = t.P t.L := hrel1.last.symm
    simp only [writeRef, hne1, if_false, hlast1]
    have hne : t.P t.L ≠ [] := hw.last_ne (by omega)
    cases htl : (t.P t.L).getLast? with
    | none => simp at htl; exact absurd htl hne
    | some tl =>
      simp only
      have htlB : tl ∈ t.P t.L := by rw [eq_dropLast_append htl]; simp
      obtain ⟨hkl, hkid⟩ := findIdx_some hk
      have hdup : findItem (swapRemove (t.P i) k) tl.id = none := by
        rw [findItem_none]
        intro z hz hzid
        have hz' := ((mem_swapRemove hkl hkid (hw.nodup i (by omega)) z).mp hz).1
        have := hw.disj i t.L (by omega) (Nat.le_refl _) z hz' tl htlB hzid
        omega
      rw [hdup]
      simp only
      -- the same steps, on the view
      obtain ⟨hci2, hrel2⟩ := setPartItems_ok hci1 hrel1 hp (swapRemove (t.P i) k)
      obtain ⟨hci3, hrel3⟩ := setLastItems_ok hci2 hrel2 (t.P t.L).dropLast true
      obtain ⟨hci4, hrel4⟩ := setPartItems_ok hci3 hrel3
        (p := { p with items := swapRemove (t.P i) k, changed := true })
        (i := i) (by simp [setLastItems, setPartItems, KV.get_set]) (swapRemove (t.P i) k ++ [tl])
      obtain ⟨hci5, hrel5⟩ := saveItemLoc_ok hci4 hrel4 tl.id i
      have hl5 := hrel5.last
      -- preconditions of `loadLastFromPrev` on the view, from the table-level analysis of this step
      obtain ⟨hwe, _⟩ := hw.removeItem_core hlt hk htl hnl
      apply finish_ok hci5 hrel5
      · intro h0
        exact hwe.nodup _ (by simp only [T.delLoc, T.setLoc, T.setP] at h0 ⊢; omega)
      · intro h0 x hx
        have h0' : t.L ≠ 0 := by simpa [T.setLoc, T.setP] using h0
        have := hwe.loc_complete (t.L - 1) (by simp only [T.delLoc, T.setLoc, T.setP]; omega) x hx
        simp only [T.delLoc, upd_apply] at this
        split at this
        · simp at this
        · exact ⟨_, this⟩



theorem remove_ok {s : S} {t : T} (hci : CI s) (hrel : Rel s t) (hw : WFA t) (id : Nat) :
    CI (remove s id).1 ∧ Rel (remove s id).1 (t.remove id).1 ∧ (remove s id).2 = (t.remove id).2 := by
  unfold remove T.remove
  rw [← hrel.last]
  cases hk : findIdx (t.P t.L) id with
  | some k =>
    simp only
    obtain ⟨s', hs', hci', hrel'⟩ := removeFromLast_ok hci hrel hw k
    rw [hs']
    exact ⟨hci', hrel', rfl⟩
  | none =>
    simp only
    rw [getItemPartIndex_eq hci hrel]
    cases hl : t.loc id with
    | none => exact ⟨hci, hrel, rfl⟩
    | some i =>
      simp only
      have hnl := findIdx_findItem.mp hk
      obtain ⟨s1, hs1, hci1, hrel1⟩ := removeItem_ok hci hrel hw hl hnl
      rw [hs1]
      simp only
      -- the table after the whole removal is well formed (table-level theorem)
      obtain ⟨hlt, y, hy, hyid⟩ := hw.loc_sound id i hl
      have hmem : t.Mem y := ⟨i, by omega, hy⟩
      have hspec := hw.remove_of_mem hmem
      rw [hyid] at hspec
      have hrm : (t.remove id).1 = (t.removeItem id i).delLoc id := by
        simp [T.remove, hk, hl]
      rw [hrm] at hspec
      obtain ⟨_, hw', hmem'⟩ := hspec
      -- loadLocations
      have h2 := loadLocations_ok hci1 hrel1 i (by
        intro p hp z hz
        obtain ⟨hil, _⟩ := hci1.loaded i p hp
        have hil' : i < (t.removeItem id i).L := by rw [hrel1.L]; exact hil
        rw [loaded_items hrel1 hil' hp] at hz
        rw [← hrel1.loc]
        have := hw'.loc_complete i (by simpa [T.delLoc] using hil') z (by simpa [T.delLoc] using hz)
        simp only [T.delLoc, upd_apply] at this
        split at this
        · simp at this
        · exact this)
      -- removeItemLoc
      have hl1 := hw.removeItem_loc_id hl hnl
      obtain ⟨s3, hs3, hci3, hrel3⟩ := removeItemLoc_ok h2.1 h2.2 hl1
      rw [hs3]
      exact ⟨hci3, hrel3, rfl⟩



theorem visitPart_none (i : Nat) (items : List Item) : visitPart i none items = items.map fun x => (i, x) := by
  induction items with
  | nil => rfl
  | cons x r ih => simp [visitPart, ih]

theorem forEachAux_ok (stop : Option Nat) {t : T} :
    ∀ (n i : Nat) (s : S) (acc : List (Nat × Item)), CI s → Rel s t → i + n = t.L + 1 →
      ∃ s', forEachAux stop n i s acc =
          (s', .ok (acc ++ (List.range' i n).flatMap fun j => visitPart j stop (t.P j))) ∧ CI s' ∧ Rel s' t := by
  intro n
  induction n with
  | zero => intro i s acc hci hrel _; exact ⟨s, by simp [forEachAux], hci, hrel⟩
  | succ n ih =>
    intro i s acc hci hrel hin
    obtain ⟨s1, r, hg, hci1, hrel1, hr, hitems⟩ := getPartition_ok hci hrel (i := i) (by omega)
    simp only [forEachAux, forEachPart, hg, hitems]
    obtain ⟨s', hs', hci', hrel'⟩ := ih (i + 1) s1 (acc ++ visitPart i stop (t.P i)) hci1 hrel1 (by omega)
    refine ⟨s', ?_, hci', hrel'⟩
    rw [hs', List.range'_succ]
    simp [List.append_assoc]

theorem forEach_ok {s : S} {t : T} (hci : CI s) (hrel : Rel s t) :
    ∃ s', forEach s none = (s', .ok t.visits) ∧ CI s' ∧ Rel s' t := by
  unfold forEach
  obtain ⟨s', hs', hci', hrel'⟩ := forEachAux_ok none (s.m.last.loc + 1) 0 s [] hci hrel (by rw [hrel.L]; omega)
  refine ⟨s', ?_, hci', hrel'⟩
  rw [hs']
  simp only [List.nil_append, T.visits, hrel.L, List.range_eq_range', visitPart_none]

/-! ### Save and reload -/

/-- everything the object holds is in the store: a fresh object read from the store has the same view -/
structure Saved (s : S) : Prop where
  hdr : s.st.hdr = some ⟨s.m.size, s.m.last.loc, s.m.last.items⟩
  parts : ∀ i p, s.m.parts.get i = some p → s.st.parts.get i = some (i, p.items)

theorem saveParts_get (m : KV Part) (hkey : ∀ k p, m.get k = some p → p.key = k) :
    ∀ (ks : List Nat) (st : KV (Nat × List Item)) (k : Nat),
      (saveParts m ks st).get k =
        match m.get k with
        | some p => if k ∈ ks ∧ p.changed = true then some (p.loc, p.items) else st.get k
        | none => st.get k := by
  intro ks
  induction ks with
  | nil => intro st k; simp [saveParts]; cases m.get k <;> rfl
  | cons a r ih =>
    intro st k
    simp only [saveParts]
    cases ha : m.get a with
    | none =>
      simp only
      rw [ih]
      cases hk : m.get k with
      | none => rfl
      | some p =>
        simp only [List.mem_cons]
        have : k ≠ a := fun h => by rw [h, ha] at hk; simp at hk
        simp [this]
    | some q =>
      simp only
      rw [ih]
      have hq := hkey a q ha
      cases hk : m.get k with
      | none =>
        simp only
        split
        · rw [KV.get_set, hq]
          have : a ≠ k := fun h => by rw [← h, ha] at hk; simp at hk
          simp [this]
        · rfl
      | some p =>
        simp only [List.mem_cons]
        by_cases hka : k = a
        · subst hka
          rw [ha] at hk; simp at hk; subst hk
          by_cases hc : q.changed = true
          · simp [hc, KV.get_set, hq]
          · simp [hc]
        · simp only [hka, false_or]
          split
          · rfl
          · split
            · rw [KV.get_set, hq]; simp [Ne.symm hka]
            · rfl

theorem save_ok {s : S} {t : T} (hci : CI s) (hrel : Rel s t) :
    CI (save s) ∧ Rel (save s) t ∧ Saved (save s) := by
  have hget : ∀ k, (save s).st.parts.get k =
      match s.m.parts.get k with
      | some p => if p.changed = true then some (p.loc, p.items) else s.st.parts.get k
      | none => s.st.parts.get k := by
    intro k
    simp only [save]
    rw [saveParts_get _ (fun k p h => (hci.loaded k p h).2.1)]
    cases hk : s.m.parts.get k with
    | none => rfl
    | some p =>
      have : k ∈ s.m.parts.keys := (KV.mem_keys _ _).mpr ⟨p, hk⟩
      simp [this]
  have hget' : ∀ k p, s.m.parts.get k = some p → (save s).st.parts.get k = some (k, p.items) := by
    intro k p hk
    rw [hget, hk]
    obtain ⟨_, _, hloc, hun⟩ := hci.loaded k p hk
    by_cases hc : p.changed = true
    · simp [hc, hloc]
    · simp only [hc, if_false]; exact hun (by simpa using hc)
  refine ⟨⟨hci.lastkey, ?_, ?_, hci.cache⟩, ⟨hrel.size, hrel.L, ?_, hrel.loc⟩, ⟨rfl, hget'⟩⟩
  · intro i p hp
    obtain ⟨h1, h2, h3, _⟩ := hci.loaded i p hp
    exact ⟨h1, h2, h3, fun _ => hget' i p hp⟩
  · intro i hi
    cases hk : s.m.parts.get i with
    | none => rw [hget, hk]; exact hci.store i hi
    | some p => exact ⟨_, hget' i p hk⟩
  · intro i hi
    rw [hrel.P i hi]
    show Pv s i = Pv (save s) i
    unfold Pv
    show _ = if i = s.m.last.loc then s.m.last.items else
      match s.m.parts.get i with
      | some p => p.items
      | none => match (save s).st.parts.get i with
        | some v => v.2
        | none => []
    cases hk : s.m.parts.get i with
    | some p => rfl
    | none =>
      simp only [hget, hk]
      try (split <;> first | rfl | (cases s.st.parts.get i <;> rfl))

theorem reload_ok {s : S} {t : T} (hci : CI s) (hrel : Rel s t) (hs : Saved s) :
    CI (reload s) ∧ Rel (reload s) t ∧ Saved (reload s) := by
  unfold reload
  rw [hs.hdr]
  simp only [memOfHdr]
  refine ⟨⟨rfl, ?_, hci.store, ?_⟩, ⟨hrel.size, hrel.L, ?_, hrel.loc⟩, ⟨hs.hdr, ?_⟩⟩
  · intro i p hp; simp at hp
  · intro a j h; simp at h
  · intro i hi
    rw [hrel.P i hi]
    unfold Pv
    simp only [KV.get_nil]
    split
    · rfl
    · cases hk : s.m.parts.get i with
      | none => rfl
      | some p => simp only [hs.parts i p hk]
  · intro i p hp; simp at hp



theorem randLoop_ok {t : T} :
    ∀ (fuel : Nat) (s : S) (req pi ii : Nat) (acc : List Item), CI s → Rel s t →
      ∃ s', randLoop fuel s req pi ii acc = (s', t.randLoop fuel req pi ii acc) ∧ CI s' ∧ Rel s' t := by
  intro fuel
  induction fuel with
  | zero => intro s req pi ii acc hci hrel; exact ⟨s, rfl, hci, hrel⟩
  | succ fuel ih =>
    intro s req pi ii acc hci hrel
    unfold randLoop T.randLoop
    by_cases h0 : req = 0
    · simp only [h0, if_true]; exact ⟨s, rfl, hci, hrel⟩
    · simp only [h0, if_false]
      by_cases hpi : pi > t.L
      · have : getPartition s pi = (s, .error .overflow) := by
          unfold getPartition; rw [if_pos (by rw [← hrel.L]; exact hpi)]
        simp only [this, hpi, if_true]
        exact ⟨s, rfl, hci, hrel⟩
      · obtain ⟨s1, r, hg, hci1, hrel1, hr, hitems⟩ := getPartition_ok hci hrel (i := pi) (by omega)
        simp only [hg, hpi, if_false, hitems, ← hrel1.L]
        split
        · cases hir : itemRange (t.P pi) ii (t.P pi).length with
          | error e => exact ⟨s1, rfl, hci1, hrel1⟩
          | ok res => exact ih s1 _ _ _ _ hci1 hrel1
        · cases hir : itemRange (t.P pi) ii (ii + req) with
          | error e => exact ⟨s1, rfl, hci1, hrel1⟩
          | ok res => exact ⟨s1, rfl, hci1, hrel1⟩

theorem getRandomItems_ok {s : S} {t : T} (hci : CI s) (hrel : Rel s t) (e : Nat) :
    ∃ s', getRandomItems s e = (s', t.getRandomItems e) ∧ CI s' ∧ Rel s' t := by
  unfold getRandomItems T.getRandomItems randFuel
  rw [← hrel.last, ← hrel.L, ← hrel.size]
  split
  · exact ⟨s, rfl, hci, hrel⟩
  · simp only
    split
    · exact ⟨s, rfl, hci, hrel⟩
    · exact randLoop_ok _ s _ _ _ _ hci hrel

theorem totalElements_ok {s : S} {t : T} (hrel : Rel s t) (hw : WFA t) : totalElements s = t.items.length := by
  unfold totalElements
  rw [hw.length_items, ← hrel.last, hrel.L, hrel.size]



theorem repairItems_noop (loc : Nat) : ∀ (items : List Item) (s : S),
    (∀ x ∈ items, ∃ l, s.st.locs.get x.id = some l) → repairItems loc items s = s := by
  intro items
  induction items with
  | nil => intro s _; rfl
  | cons x r ih =>
    intro s h
    obtain ⟨l, hl⟩ := h x (by simp)
    simp only [repairItems, hl]
    exact ih s (fun y hy => h y (by simp [hy]))

theorem repairAux_ok {t : T} (hw : WFA t) :
    ∀ (n i : Nat) (s : S), CI s → Rel s t → i + n = t.L →
      ∃ s', repairAux n i s = (s', .ok ()) ∧ CI s' ∧ Rel s' t ∧ s'.st = s.st := by
  intro n
  induction n with
  | zero => intro i s hci hrel _; exact ⟨s, rfl, hci, hrel, rfl⟩
  | succ n ih =>
    intro i s hci hrel hin
    obtain ⟨s1, r, hg, hci1, hrel1, hr, hitems⟩ := getPartition_ok hci hrel (i := i) (by omega)
    have hst : s1.st = s.st := by
      unfold getPartition at hg
      split at hg
      · simp at hg
      · split at hg
        · simp at hg; rw [← hg.1]
        · split at hg
          · simp at hg; rw [← hg.1]
          · split at hg
            · simp at hg
            · simp at hg; rw [← hg.1]
    simp only [repairAux, hg]
    rw [repairItems_noop]
    · obtain ⟨s', hs', hci', hrel', hst'⟩ := ih (i + 1) s1 hci1 hrel1 (by omega)
      exact ⟨s', hs', hci', hrel', by rw [hst', hst]⟩
    · intro x hx
      rw [hitems] at hx
      exact ⟨i, by rw [← hrel1.loc]; exact hw.loc_complete i (by omega) x hx⟩

/-- `RepairPartitionLoc` changes nothing in the store of a well-formed state (it only loads partitions) -/
theorem repair_ok {s : S} {t : T} (hci : CI s) (hrel : Rel s t) (hw : WFA t) :
    ∃ s', repairPartitionLoc s = (s', .ok ()) ∧ CI s' ∧ Rel s' t ∧ s'.st = s.st := by
  unfold repairPartitionLoc
  exact repairAux_ok hw _ 0 s hci hrel (by rw [hrel.L]; omega)

end ZChain.Partitions
