import ZChain.Model.Events
/-!
Helper lemmas for C20 (`Model/Events.lean`): association lists as finite maps, `withUniqueEventOverwrite`
as "last event of every index", `withEventMerge` on distinct indices, summed fields.
-/
namespace ZChain.Events

variable {α : Type}

def keys (m : List (String × α)) : List String := m.map (·.1)

@[simp] theorem keys_nil : keys ([] : List (String × α)) = [] := rfl
@[simp] theorem keys_cons (p : String × α) (m : List (String × α)) : keys (p :: m) = p.1 :: keys m := rfl
@[simp] theorem keys_append (a b : List (String × α)) : keys (a ++ b) = keys a ++ keys b := by
  simp [keys]

theorem lookup_upsert (m : List (String × α)) (k k' : String) (v : α) :
    lookup (upsert m k v) k' = if k = k' then some v else lookup m k' := by
  induction m with
  | nil => simp [upsert, lookup]
  | cons p t ih =>
    obtain ⟨a, b⟩ := p
    simp only [upsert]
    by_cases h : a = k
    · subst h
      simp only [if_true, lookup]
      by_cases h2 : a = k' <;> simp [h2]
    · simp only [h, if_false, lookup, ih]
      by_cases h2 : a = k'
      · subst h2
        simp
        intro h3; exact absurd h3.symm h
      · simp [h2]

theorem lookup_eq_none_iff (m : List (String × α)) (k : String) : lookup m k = none ↔ k ∉ keys m := by
  induction m with
  | nil => simp [lookup]
  | cons p t ih =>
    obtain ⟨a, b⟩ := p
    simp only [lookup, keys_cons, List.mem_cons, not_or]
    by_cases h : a = k
    · subst h; simp
    · simp only [h, if_false, ih]
      constructor
      · intro h2; exact ⟨fun h3 => h h3.symm, h2⟩
      · intro h2; exact h2.2

theorem lookup_append_of_not_mem (a b : List (String × α)) (k : String) (h : k ∉ keys a) :
    lookup (a ++ b) k = lookup b k := by
  induction a with
  | nil => rfl
  | cons p t ih =>
    obtain ⟨x, y⟩ := p
    simp only [keys_cons, List.mem_cons, not_or] at h
    have hx : ¬ x = k := fun e => h.1 e.symm
    simp [lookup, hx, ih h.2]

theorem upsert_of_not_mem (m : List (String × α)) (k : String) (v : α) (h : k ∉ keys m) :
    upsert m k v = m ++ [(k, v)] := by
  induction m with
  | nil => rfl
  | cons p t ih =>
    obtain ⟨a, b⟩ := p
    simp only [keys_cons, List.mem_cons, not_or] at h
    have : ¬ a = k := fun e => h.1 e.symm
    simp [upsert, this, ih h.2]

theorem keys_upsert_of_mem (m : List (String × α)) (k : String) (v : α) (h : k ∈ keys m) :
    keys (upsert m k v) = keys m := by
  induction m with
  | nil => simp at h
  | cons p t ih =>
    obtain ⟨a, b⟩ := p
    simp only [upsert]
    by_cases h1 : a = k
    · simp [h1]
    · simp only [h1, if_false, keys_cons]
      simp only [keys_cons, List.mem_cons] at h
      rcases h with h | h
      · exact absurd h.symm h1
      · rw [ih h]

theorem length_upsert_of_mem (m : List (String × α)) (k : String) (v : α) (h : k ∈ keys m) :
    (upsert m k v).length = m.length := by
  have := congrArg List.length (keys_upsert_of_mem m k v h)
  simpa [keys] using this

theorem mem_keys_upsert (m : List (String × α)) (k k' : String) (v : α) :
    k' ∈ keys (upsert m k v) ↔ k' = k ∨ k' ∈ keys m := by
  by_cases h : k ∈ keys m
  · rw [keys_upsert_of_mem m k v h]
    constructor
    · intro h1; exact Or.inr h1
    · rintro (h1 | h1)
      · subst h1; exact h
      · exact h1
  · rw [upsert_of_not_mem m k v h]
    simp only [keys_append, keys_cons, keys_nil, List.mem_append, List.mem_singleton]
    constructor
    · rintro (h1 | h1)
      · exact Or.inr h1
      · exact Or.inl h1
    · rintro (h1 | h1)
      · exact Or.inr h1
      · exact Or.inl h1

theorem nodup_keys_upsert (m : List (String × α)) (k : String) (v : α) (h : (keys m).Nodup) :
    (keys (upsert m k v)).Nodup := by
  by_cases hk : k ∈ keys m
  · rw [keys_upsert_of_mem m k v hk]; exact h
  · rw [upsert_of_not_mem m k v hk]
    simp only [keys_append, keys_cons, keys_nil]
    rw [List.nodup_append]
    refine ⟨h, by simp, ?_⟩
    intro a ha b hb
    simp only [List.mem_singleton] at hb
    subst hb
    intro e; subst e; exact hk ha

/-- with distinct keys, membership of a pair is `lookup`. -/
theorem mem_iff_lookup (m : List (String × α)) (h : (keys m).Nodup) (k : String) (v : α) :
    (k, v) ∈ m ↔ lookup m k = some v := by
  induction m with
  | nil => simp [lookup]
  | cons p t ih =>
    obtain ⟨a, b⟩ := p
    simp only [keys_cons, List.nodup_cons] at h
    simp only [List.mem_cons, Prod.mk.injEq, lookup]
    by_cases h1 : a = k
    · subst h1
      simp only [if_true, Option.some.injEq]
      constructor
      · rintro (⟨-, h2⟩ | h2)
        · exact h2.symm
        · exfalso; apply h.1
          exact List.mem_map.mpr ⟨(a, v), h2, rfl⟩
      · intro h2; exact Or.inl (by simp [h2])
    · simp only [h1, if_false]
      rw [← ih h.2]
      constructor
      · rintro (⟨h2, -⟩ | h2)
        · exact absurd h2.symm h1
        · exact h2
      · intro h2; exact Or.inr h2

/-! ### `withUniqueEventOverwrite` = the last event of every index -/

/-- the last event of `evs` whose index is `k` -/
def lastWith (evs : List Event) (k : String) : Option Event :=
  match evs with
  | [] => none
  | e :: es =>
    match lastWith es k with
    | some x => some x
    | none => if e.index = k then some e else none

def overwriteFold (acc : List (String × Event)) (evs : List Event) : List (String × Event) :=
  evs.foldl (fun m e => upsert m e.index e) acc

theorem overwriteMap_eq (evs : List Event) : overwriteMap evs = overwriteFold [] evs := rfl

theorem overwriteFold_lookup (evs : List Event) (acc : List (String × Event)) (k : String) :
    lookup (overwriteFold acc evs) k =
      match lastWith evs k with
      | some e => some e
      | none => lookup acc k := by
  induction evs generalizing acc with
  | nil => simp [overwriteFold, lastWith]
  | cons e es ih =>
    have : overwriteFold acc (e :: es) = overwriteFold (upsert acc e.index e) es := rfl
    rw [this, ih, lastWith]
    cases h : lastWith es k with
    | some x => rfl
    | none =>
      simp only [lookup_upsert]
      by_cases h2 : e.index = k <;> simp [h2]

theorem overwriteFold_nodup (evs : List Event) (acc : List (String × Event)) (h : (keys acc).Nodup) :
    (keys (overwriteFold acc evs)).Nodup := by
  induction evs generalizing acc with
  | nil => exact h
  | cons e es ih => exact ih _ (nodup_keys_upsert acc e.index e h)

theorem overwriteFold_mem_keys (evs : List Event) (acc : List (String × Event)) (k : String) :
    k ∈ keys (overwriteFold acc evs) ↔ k ∈ keys acc ∨ k ∈ evs.map (·.index) := by
  induction evs generalizing acc with
  | nil => simp [overwriteFold]
  | cons e es ih =>
    have : overwriteFold acc (e :: es) = overwriteFold (upsert acc e.index e) es := rfl
    rw [this, ih, mem_keys_upsert]
    simp only [List.map_cons, List.mem_cons]
    constructor
    · rintro ((h | h) | h)
      · exact Or.inr (Or.inl h)
      · exact Or.inl h
      · exact Or.inr (Or.inr h)
    · rintro (h | h | h)
      · exact Or.inl (Or.inr h)
      · exact Or.inl (Or.inl h)
      · exact Or.inr h

/-- distinct indices, none of them present yet: the fold just appends. -/
theorem overwriteFold_nodup_append (evs : List Event) (acc : List (String × Event))
    (hn : (evs.map (·.index)).Nodup) (hd : ∀ e ∈ evs, e.index ∉ keys acc) :
    overwriteFold acc evs = acc ++ evs.map (fun e => (e.index, e)) := by
  induction evs generalizing acc with
  | nil => simp [overwriteFold]
  | cons e es ih =>
    have : overwriteFold acc (e :: es) = overwriteFold (upsert acc e.index e) es := rfl
    rw [this, upsert_of_not_mem acc e.index e (hd e (List.mem_cons_self ..))]
    simp only [List.map_cons, List.nodup_cons] at hn
    rw [ih _ hn.2]
    · simp
    · intro x hx
      simp only [keys_append, keys_cons, keys_nil, List.mem_append, List.mem_singleton, not_or]
      refine ⟨hd x (List.mem_cons_of_mem _ hx), ?_⟩
      intro heq
      apply hn.1
      rw [← heq]
      exact List.mem_map.mpr ⟨x, hx, rfl⟩

theorem overwriteFold_length_le (evs : List Event) (acc : List (String × Event)) :
    (overwriteFold acc evs).length ≤ acc.length + evs.length := by
  induction evs generalizing acc with
  | nil => simp [overwriteFold]
  | cons e es ih =>
    have : overwriteFold acc (e :: es) = overwriteFold (upsert acc e.index e) es := rfl
    rw [this]
    have h1 := ih (upsert acc e.index e)
    have h2 : (upsert acc e.index e).length ≤ acc.length + 1 := by
      by_cases hk : e.index ∈ keys acc
      · rw [length_upsert_of_mem _ _ _ hk]; omega
      · rw [upsert_of_not_mem _ _ _ hk]; simp
    simp only [List.length_cons]; omega

/-- an index that is already present, or that occurs twice, costs an entry. -/
theorem overwriteFold_length_lt (evs : List Event) (acc : List (String × Event))
    (h : (∃ e ∈ evs, e.index ∈ keys acc) ∨ ¬ (evs.map (·.index)).Nodup) :
    (overwriteFold acc evs).length < acc.length + evs.length := by
  induction evs generalizing acc with
  | nil => simp at h
  | cons e es ih =>
    have hstep : overwriteFold acc (e :: es) = overwriteFold (upsert acc e.index e) es := rfl
    rw [hstep]
    by_cases hk : e.index ∈ keys acc
    · have := overwriteFold_length_le es (upsert acc e.index e)
      rw [length_upsert_of_mem _ _ _ hk] at this
      simp only [List.length_cons]; omega
    · have hlen : (upsert acc e.index e).length = acc.length + 1 := by
        rw [upsert_of_not_mem _ _ _ hk]; simp
      have : (∃ x ∈ es, x.index ∈ keys (upsert acc e.index e)) ∨ ¬ (es.map (·.index)).Nodup := by
        rcases h with ⟨x, hx, hxk⟩ | h
        · simp only [List.mem_cons] at hx
          rcases hx with hx | hx
          · subst hx; exact absurd hxk hk
          · exact Or.inl ⟨x, hx, (mem_keys_upsert _ _ _ _).mpr (Or.inr hxk)⟩
        · simp only [List.map_cons, List.nodup_cons] at h
          by_cases hm : e.index ∈ es.map (·.index)
          · obtain ⟨x, hx, hxe⟩ := List.mem_map.mp hm
            exact Or.inl ⟨x, hx, (mem_keys_upsert _ _ _ _).mpr (Or.inl hxe)⟩
          · exact Or.inr (fun hn => h ⟨hm, hn⟩)
      have := ih _ this
      simp only [List.length_cons]; omega

/-! ### `withEventMerge` -/

def eventMergeFold (f : MergeFn) (acc : Except Err (List (String × Event))) (evs : List Event) :
    Except Err (List (String × Event)) :=
  evs.foldl (eventMergeStep f) acc

theorem eventMergeMap_eq (f : MergeFn) (evs : List Event) : eventMergeMap f evs = eventMergeFold f (.ok []) evs := rfl

theorem eventMergeFold_error (f : MergeFn) (x : Err) (evs : List Event) :
    eventMergeFold f (.error x) evs = .error x := by
  induction evs with
  | nil => rfl
  | cons e es ih => exact ih

/-- distinct indices, none present yet: nothing is merged, the events pass unchanged (in the model's order). -/
theorem eventMergeFold_nodup_append (f : MergeFn) (evs : List Event) (acc : List (String × Event))
    (hn : (evs.map (·.index)).Nodup) (hd : ∀ e ∈ evs, e.index ∉ keys acc) :
    eventMergeFold f (.ok acc) evs = .ok (acc ++ evs.map (fun e => (e.index, e))) := by
  induction evs generalizing acc with
  | nil => simp [eventMergeFold]
  | cons e es ih =>
    have hnone : lookup acc e.index = none := (lookup_eq_none_iff _ _).mpr (hd e (List.mem_cons_self ..))
    have : eventMergeFold f (.ok acc) (e :: es) = eventMergeFold f (.ok (acc ++ [(e.index, e)])) es := by
      show List.foldl _ (eventMergeStep f (.ok acc) e) es = _
      simp [eventMergeStep, hnone, eventMergeFold]
    rw [this]
    simp only [List.map_cons, List.nodup_cons] at hn
    rw [ih _ hn.2]
    · simp
    · intro x hx
      simp only [keys_append, keys_cons, keys_nil, List.mem_append, List.mem_singleton, not_or]
      refine ⟨hd x (List.mem_cons_of_mem _ hx), ?_⟩
      intro heq
      apply hn.1
      rw [← heq]
      exact List.mem_map.mpr ⟨x, hx, rfl⟩

theorem eventMerge_nodup_id (f : MergeFn) (evs : List Event) (hn : (evs.map (·.index)).Nodup) :
    eventMerge f evs = .ok evs := by
  unfold eventMerge
  rw [eventMergeMap_eq, eventMergeFold_nodup_append f evs [] hn (by simp)]
  simp [List.map_map, Function.comp_def]

theorem uniqueOverwrite_nodup_id (evs : List Event) (hn : (evs.map (·.index)).Nodup) :
    uniqueOverwrite evs = evs := by
  unfold uniqueOverwrite
  rw [overwriteMap_eq, overwriteFold_nodup_append evs [] hn (by simp)]
  simp [List.map_map, Function.comp_def]

/-! ### summed fields -/

theorem getField_setField_same (it : Item) (f : String) (v : Val) (h : getField it f ≠ none) :
    getField (setField it f v) f = some v := by
  induction it with
  | nil => simp [getField, lookup] at h
  | cons p t ih =>
    obtain ⟨k, w⟩ := p
    simp only [setField]
    by_cases hk : k = f
    · simp [hk, getField, lookup]
    · simp only [hk, if_false, getField, lookup]
      apply ih
      simpa [getField, lookup, hk] using h

theorem getField_setField_other (it : Item) (f g : String) (v : Val) (h : f ≠ g) :
    getField (setField it f v) g = getField it g := by
  induction it with
  | nil => rfl
  | cons p t ih =>
    obtain ⟨k, w⟩ := p
    simp only [setField]
    by_cases hk : k = f
    · subst hk
      simp [getField, lookup, h]
    · simp only [hk, if_false, getField, lookup]
      by_cases hg : k = g
      · simp [hg]
      · simp only [hg, if_false]; exact ih

theorem sumField_other (x y : Item) (s F : String) (h : s ≠ F) :
    getField (sumField x y s) F = getField x F := by
  unfold sumField
  split
  · exact getField_setField_other _ _ _ _ h
  · rfl

theorem sumField_same (x y : Item) (F : String) (a b : Nat)
    (hx : getField x F = some (.num a)) (hy : getField y F = some (.num b)) :
    getField (sumField x y F) F = some (.num ((a + b) % U64)) := by
  unfold sumField
  rw [hx, hy]
  exact getField_setField_same _ _ _ (by rw [hx]; simp)

theorem sums_fold (sums : List String) (x y : Item) (F : String) (a b : Nat) (hn : sums.Nodup)
    (hx : getField x F = some (.num a)) (hy : getField y F = some (.num b)) :
    getField (sums.foldl (fun acc s => sumField acc y s) x) F =
      some (.num (if F ∈ sums then (a + b) % U64 else a)) := by
  induction sums generalizing x a with
  | nil => simpa using hx
  | cons s rest ih =>
    simp only [List.foldl_cons, List.nodup_cons] at hn ⊢
    by_cases hs : s = F
    · subst hs
      have h1 := sumField_same x y s a b hx hy
      rw [ih (sumField x y s) ((a + b) % U64) hn.2 h1]
      simp [hn.1]
    · have h1 : getField (sumField x y s) F = some (.num a) := by rw [sumField_other x y s F hs]; exact hx
      rw [ih (sumField x y s) a hn.2 h1]
      have : (F ∈ s :: rest) ↔ F ∈ rest := by
        simp only [List.mem_cons]
        constructor
        · rintro (h | h)
          · exact absurd h.symm hs
          · exact h
        · exact Or.inr
      simp [this]

theorem sumMapField_num (x y : Item) (m F : String) (a : Nat) (hx : getField x F = some (.num a)) :
    getField (sumMapField x y m) F = some (.num a) := by
  unfold sumMapField
  by_cases hm : m = F
  · subst hm
    rw [hx]
    exact hx
  · split
    · rw [getField_setField_other _ _ _ _ hm]; exact hx
    · exact hx

theorem maps_fold (maps : List String) (x y : Item) (F : String) (a : Nat) (hx : getField x F = some (.num a)) :
    getField (maps.foldl (fun acc m => sumMapField acc y m) x) F = some (.num a) := by
  induction maps generalizing x with
  | nil => exact hx
  | cons m rest ih => exact ih _ (sumMapField_num x y m F a hx)

/-- the merge function of a `.fields` merger, on one numeric field. -/
theorem mergeData_fields_num (sums maps : List String) (x y : Item) (F : String) (a b : Nat) (hn : sums.Nodup)
    (hx : getField x F = some (.num a)) (hy : getField y F = some (.num b)) :
    ∃ z, mergeData (.fields sums maps) [x] [y] = [z] ∧
      getField z F = some (.num (if F ∈ sums then (a + b) % U64 else a)) :=
  ⟨_, rfl, maps_fold maps _ y F _ (sums_fold sums x y F a b hn hx hy)⟩

/-! ### `withEventMerge` with a `.fields` function keeps the total of every summed field (mod 2^64) -/

/-- the event is what a contract emits for a `.fields` merger: Data is `T` or `*T` and the struct has the numeric field `F` -/
def WFnum (F : String) (e : Event) : Prop :=
  (e.dk = .val ∨ e.dk = .ptr) ∧ ∃ x n, e.items = [x] ∧ getField x F = some (.num n)

def numOf (F : String) (e : Event) : Nat :=
  match e.items with
  | [x] => numField x F
  | _ => 0

def total (F : String) (m : List (String × Event)) : Nat := (m.map (fun p => numOf F p.2)).sum

theorem total_append (F : String) (a b : List (String × Event)) : total F (a ++ b) = total F a + total F b := by
  simp [total]

theorem total_upsert_present (F : String) (m : List (String × Event)) (k : String) (ee e' : Event)
    (h : lookup m k = some ee) : total F (upsert m k e') + numOf F ee = total F m + numOf F e' := by
  induction m with
  | nil => simp [lookup] at h
  | cons p t ih =>
    obtain ⟨a, b⟩ := p
    simp only [lookup] at h
    simp only [upsert]
    by_cases hk : a = k
    · simp only [hk, if_true, Option.some.injEq] at h ⊢
      subst h
      simp only [total, List.map_cons, List.sum_cons]
      omega
    · simp only [hk, if_false] at h ⊢
      have := ih h
      simp only [total, List.map_cons, List.sum_cons] at this ⊢
      omega

theorem mem_upsert (m : List (String × α)) (k : String) (v : α) (p : String × α) (h : p ∈ upsert m k v) :
    p ∈ m ∨ p.2 = v := by
  induction m with
  | nil => simp [upsert] at h; exact Or.inr (by rw [h])
  | cons q t ih =>
    obtain ⟨a, b⟩ := q
    simp only [upsert] at h
    by_cases hk : a = k
    · simp only [hk, if_true, List.mem_cons] at h
      rcases h with h | h
      · exact Or.inr (by rw [h])
      · exact Or.inl (List.mem_cons_of_mem _ h)
    · simp only [hk, if_false, List.mem_cons] at h
      rcases h with h | h
      · exact Or.inl (by rw [h]; exact List.mem_cons_self ..)
      · rcases ih h with h | h
        · exact Or.inl (List.mem_cons_of_mem _ h)
        · exact Or.inr h

theorem lookup_mem (m : List (String × α)) (k : String) (v : α) (h : lookup m k = some v) : ∃ k', (k', v) ∈ m := by
  induction m with
  | nil => simp [lookup] at h
  | cons q t ih =>
    obtain ⟨a, b⟩ := q
    simp only [lookup] at h
    by_cases hk : a = k
    · simp only [hk, if_true, Option.some.injEq] at h
      exact ⟨a, by rw [h]; exact List.mem_cons_self ..⟩
    · simp only [hk, if_false] at h
      obtain ⟨k', hk'⟩ := ih h
      exact ⟨k', List.mem_cons_of_mem _ hk'⟩

theorem numOf_of_wf (F : String) (e : Event) (x : Item) (n : Nat) (h1 : e.items = [x])
    (h2 : getField x F = some (.num n)) : numOf F e = n := by
  simp [numOf, h1, numField, h2]

/-- one step of `withEventMerge` on well-typed events: no error, well-typedness kept, total kept mod 2^64. -/
theorem eventMergeStep_sum (sums maps : List String) (F : String) (hF : F ∈ sums) (hn : sums.Nodup)
    (acc : List (String × Event)) (e : Event)
    (hacc : ∀ p ∈ acc, WFnum F p.2) (he : WFnum F e) :
    ∃ out, eventMergeStep (.fields sums maps) (.ok acc) e = .ok out ∧ (∀ p ∈ out, WFnum F p.2) ∧
      total F out % U64 = (total F acc + numOf F e) % U64 := by
  unfold eventMergeStep
  simp only
  cases hl : lookup acc e.index with
  | none =>
    refine ⟨_, rfl, ?_, ?_⟩
    · intro p hp
      simp only [List.mem_append, List.mem_singleton] at hp
      rcases hp with hp | hp
      · exact hacc p hp
      · rw [hp]; exact he
    · rw [total_append]; simp [total]
  | some ee =>
    obtain ⟨k', hk'⟩ := lookup_mem acc e.index ee hl
    have hee : WFnum F ee := hacc _ hk'
    obtain ⟨hdk1, x, a, hx1, hx2⟩ := hee
    obtain ⟨hdk2, y, b, hy1, hy2⟩ := he
    have f1 : fromEventT (.fields sums maps) ee = .ok ee.items := by
      unfold fromEventT; rcases hdk1 with h | h <;> simp [h]
    have f2 : fromEventT (.fields sums maps) e = .ok e.items := by
      unfold fromEventT; rcases hdk2 with h | h <;> simp [h]
    simp only [f1, f2]
    obtain ⟨z, hz1, hz2⟩ := mergeData_fields_num sums maps x y F a b hn hx2 hy2
    simp only [hF, if_true] at hz2
    refine ⟨_, rfl, ?_, ?_⟩
    · intro p hp
      rcases mem_upsert _ _ _ _ hp with hp | hp
      · exact hacc p hp
      · rw [hp]
        exact ⟨hdk1, z, _, by simp only [hx1, hy1, hz1], hz2⟩
    · have hnew : numOf F { ee with items := mergeData (.fields sums maps) ee.items e.items } = (a + b) % U64 :=
        numOf_of_wf F _ z _ (by simp only [hx1, hy1, hz1]) hz2
      have hold : numOf F ee = a := numOf_of_wf F ee x a hx1 hx2
      have hev : numOf F e = b := numOf_of_wf F e y b hy1 hy2
      have := total_upsert_present F acc e.index ee { ee with items := mergeData (.fields sums maps) ee.items e.items } hl
      rw [hnew, hold] at this
      rw [hev]
      simp only [U64] at this ⊢
      omega

theorem eventMergeFold_sum (sums maps : List String) (F : String) (hF : F ∈ sums) (hn : sums.Nodup)
    (evs : List Event) (acc : List (String × Event))
    (hacc : ∀ p ∈ acc, WFnum F p.2) (hevs : ∀ e ∈ evs, WFnum F e) :
    ∃ out, eventMergeFold (.fields sums maps) (.ok acc) evs = .ok out ∧ (∀ p ∈ out, WFnum F p.2) ∧
      total F out % U64 = (total F acc + (evs.map (numOf F)).sum) % U64 := by
  induction evs generalizing acc with
  | nil => exact ⟨acc, rfl, hacc, by simp⟩
  | cons e es ih =>
    obtain ⟨acc', h1, h2, h3⟩ := eventMergeStep_sum sums maps F hF hn acc e hacc (hevs e (List.mem_cons_self ..))
    obtain ⟨out, h4, h5, h6⟩ := ih acc' h2 (fun x hx => hevs x (List.mem_cons_of_mem _ hx))
    refine ⟨out, ?_, h5, ?_⟩
    · show List.foldl _ (eventMergeStep _ (.ok acc) e) es = _
      rw [h1]; exact h4
    · simp only [List.map_cons, List.sum_cons]
      simp only [U64] at h3 h6 ⊢
      omega

/-! ### from `mergeEvents` down to the one merger that owns a tag -/

theorem mergeOne_tag (m : Merger) (evs : List Event) (x : Merged) (h : mergeOne m evs = .ok (some x)) : x.tag = m.tag := by
  unfold mergeOne at h
  split at h
  · simp at h
  · split at h
    · simp at h
    · split at h
      · simp at h
      · simp only [Except.ok.injEq, Option.some.injEq] at h
        rw [← h]

theorem mergeOne_nil (m : Merger) : mergeOne m [] = .ok none := rfl

theorem bucket_claimed (t : Table) (claimed : List Nat) (tag : Nat) (evs : List Event) (h : tag ∈ claimed) :
    bucket t claimed tag evs = [] := by
  simp [bucket, h]

theorem bucket_unclaimed (t : Table) (claimed : List Nat) (tag : Nat) (evs : List Event) (h : tag ∉ claimed) :
    bucket t claimed tag evs = evs.filter (fun e => routed t e && e.tag = tag) := by
  simp [bucket, h]

/-- a tag that an earlier merger claimed contributes nothing further. -/
theorem mergeAll_claimed (t : Table) (evs : List Event) (ms : List Merger) (claimed : List Nat) (tag : Nat)
    (out : List Merged) (hc : tag ∈ claimed) (h : mergeAll t evs ms claimed = .ok out) :
    out.filter (fun x => x.tag = tag) = [] := by
  induction ms generalizing claimed out with
  | nil => simp [mergeAll] at h; subst h; rfl
  | cons m rest ih =>
    unfold mergeAll at h
    split at h
    · simp at h
    · rename_i r hr
      split at h
      · simp at h
      · rename_i rs hrs
        simp only [Except.ok.injEq] at h
        have hrest := ih (m.tag :: claimed) rs (List.mem_cons_of_mem _ hc) hrs
        subst h
        cases r with
        | none => exact hrest
        | some x =>
          have hx := mergeOne_tag m _ x hr
          by_cases hm : m.tag = tag
          · rw [hm, bucket_claimed t claimed tag evs hc, mergeOne_nil] at hr
            simp at hr
          · simp only [List.filter_cons]
            have : ¬ x.tag = tag := by rw [hx]; exact hm
            simp [this, hrest]

/-- the payloads delivered under `tag` are exactly what the FIRST merger for that tag produces from the routed events of that tag. -/
theorem mergeAll_delivered (t : Table) (evs : List Event) (ms : List Merger) (claimed : List Nat) (tag : Nat)
    (out : List Merged) (m : Merger) (hc : tag ∉ claimed) (hf : ms.find? (fun x => x.tag = tag) = some m)
    (h : mergeAll t evs ms claimed = .ok out) :
    ∃ r, mergeOne m (evs.filter (fun e => routed t e && e.tag = tag)) = .ok r ∧
      (out.filter (fun x => x.tag = tag)).flatMap (·.items) = (match r with | none => [] | some x => x.items) := by
  induction ms generalizing claimed out with
  | nil => simp at hf
  | cons m0 rest ih =>
    unfold mergeAll at h
    split at h
    · simp at h
    · rename_i r hr
      split at h
      · simp at h
      · rename_i rs hrs
        simp only [Except.ok.injEq] at h
        subst h
        by_cases hm : m0.tag = tag
        · have : m = m0 := by
            simp only [List.find?_cons, hm, decide_true] at hf
            exact (Option.some.inj hf).symm
          subst this
          rw [hm, bucket_unclaimed t claimed tag evs hc] at hr
          refine ⟨r, hr, ?_⟩
          have hrest := mergeAll_claimed t evs rest (m.tag :: claimed) tag rs (by rw [hm]; exact List.mem_cons_self ..) hrs
          cases r with
          | none => simp [hrest]
          | some x =>
            have hx := mergeOne_tag m _ x hr
            rw [hm] at hx
            simp [List.filter_cons, hx, hrest]
        · have hf' : rest.find? (fun x => x.tag = tag) = some m := by
            simpa [List.find?_cons, hm] using hf
          have hc' : tag ∉ m0.tag :: claimed := by
            simp only [List.mem_cons, not_or]
            exact ⟨fun e => hm e.symm, hc⟩
          obtain ⟨r', h1, h2⟩ := ih (m0.tag :: claimed) rs hc' hf' hrs
          refine ⟨r', h1, ?_⟩
          cases r with
          | none => exact h2
          | some x =>
            have hx := mergeOne_tag m0 _ x hr
            have : ¬ x.tag = tag := by rw [hx]; exact hm
            simp only [List.filter_cons, this, decide_false]
            exact h2

theorem flatten_ok (evs : List Event) (its : List Item) (h : flatten evs = .ok its) :
    its = evs.flatMap (·.items) := by
  induction evs generalizing its with
  | nil => simp [flatten] at h; subst h; rfl
  | cons e es ih =>
    unfold flatten at h
    split at h
    · simp at h
    · rename_i xs hxs
      split at h
      · simp at h
      · rename_i ys hys
        simp only [Except.ok.injEq] at h
        have hx : xs = e.items := by
          unfold flattenOne at hxs
          split at hxs <;> simp at hxs <;> exact hxs.symm
        rw [← h, hx, ih ys hys]
        simp



/-! ### the table stand-in: list order decides what a row holds after the block -/

theorem applyRow_other (tbl : List (String × Nat)) (op : RowOp) (k : String) (h : op.key ≠ k) :
    lookup (applyRow tbl op) k = lookup tbl k := by
  cases op with
  | insert k' v => simp only [RowOp.key] at h; simp [applyRow, lookup_upsert, h]
  | update k' v =>
    simp only [RowOp.key] at h
    simp only [applyRow]
    split
    · simp [lookup_upsert, h]
    · rfl
  | add k' v =>
    simp only [RowOp.key] at h
    simp only [applyRow]
    split
    · simp [lookup_upsert, h]
    · rfl

theorem applyRows_untouched (ops : List RowOp) (tbl : List (String × Nat)) (k : String)
    (h : ∀ op ∈ ops, op.key ≠ k) : lookup (applyRows tbl ops) k = lookup tbl k := by
  induction ops generalizing tbl with
  | nil => rfl
  | cons op rest ih =>
    simp only [applyRows, List.foldl_cons]
    have := ih (applyRow tbl op) (fun o ho => h o (List.mem_cons_of_mem _ ho))
    simp only [applyRows] at this
    rw [this, applyRow_other tbl op k (h op (List.mem_cons_self ..))]

theorem applyRows_append (tbl : List (String × Nat)) (a b : List RowOp) :
    applyRows tbl (a ++ b) = applyRows (applyRows tbl a) b := by
  simp [applyRows, List.foldl_append]


end ZChain.Events
