import ZChain.Model.StakePool
import ZChain.Proofs.F64
/-!
# Lemmas about `Model/StakePool` (reward distribution)

`distLoop_sum` (the proportional loop hands out exactly `valueBalance₀ − valueBalance_final`),
`bumpFirst_spec`, `addShare_spec`, `equally_sum` (the remainder distribution adds exactly `coins`, no `++` wraps),
`prefixPart` case lemmas, `writeBackN_sum`.
-/
namespace ZChain.StakePool
open ZChain ZChain.Coin

theorem bind_ok {ε α β} {x : Except ε α} {f : α → Except ε β} {b : β} (h : (x >>= f) = .ok b) :
    ∃ a, x = .ok a ∧ f a = .ok b := by
  cases x with
  | error e => cases h
  | ok a => exact ⟨a, rfl, h⟩

theorem liftC_ok {α} {x : Except Coin.Err α} {a : α} (h : liftC x = .ok a) : x = .ok a := by
  cases x with
  | error e => cases h
  | ok b => injection h with h; rw [h]

theorem addCoin_ok {c b s : Nat} (h : addCoin c b = .ok s) : s = c + b ∧ c + b < U64 := by
  unfold addCoin at h
  split at h
  · rename_i hlt; injection h with h; exact ⟨h.symm, hlt⟩
  · cases h

theorem wrapAdd_one {d : Nat} (h : d + 1 < U64) : wrapAdd d 1 = d + 1 := Nat.mod_eq_of_lt h

theorem wrapSub_of_le {a b : Nat} (ha : a < U64) (hb : b ≤ a) : wrapSub a b = a - b := by
  unfold wrapSub
  have hb' : b % U64 = b := Nat.mod_eq_of_lt (by omega)
  rw [hb']
  have : a + (U64 - b) = (a - b) + U64 := by omega
  rw [this, Nat.add_mod_right]
  exact Nat.mod_eq_of_lt (by omega)

theorem sum_map_zero {α} (l : List α) : (l.map (fun _ => 0)).sum = 0 := by
  induction l with
  | nil => rfl
  | cons a l ih => simp only [List.map_cons, List.sum_cons, ih]

/-! ## the proportional loop -/

theorem distLoop_sum (vl stake : Nat) : ∀ (ps : List DP) (vb : Nat) (ps' : List DP) (ds : List Nat) (vbf : Nat),
    distLoop vl stake ps vb = .ok (ps', ds, vbf) →
    ds.sum + vbf = vb ∧ ds.length = ps.length ∧ ps'.length = ps.length := by
  intro ps
  induction ps with
  | nil =>
    intro vb ps' ds vbf h
    unfold distLoop at h
    injection h with h; injection h with h1 h2; injection h2 with h2 h3
    subst h1 h2 h3
    exact ⟨by simp, rfl, rfl⟩
  | cons dp rest ih =>
    intro vb ps' ds vbf h
    unfold distLoop at h
    split at h
    · rename_i h0
      injection h with h; injection h with h1 h2; injection h2 with h2 h3
      subst h1 h2 h3 h0
      exact ⟨by rw [sum_map_zero], by simp, rfl⟩
    · rename_i h0
      obtain ⟨r0, _, h⟩ := bind_ok h
      obtain ⟨nr, _, h⟩ := bind_ok h
      obtain ⟨⟨rest', drs, vbf'⟩, hrec, h⟩ := bind_ok h
      injection h with h; injection h with h1 h2; injection h2 with h2 h3
      subst h1 h2 h3
      obtain ⟨a, b, c⟩ := ih _ _ _ _ hrec
      refine ⟨?_, by simp [b], by simp [c]⟩
      simp only [List.sum_cons]
      split <;> split at a <;> omega

/-! ## the remainder distribution -/

theorem bumpFirst_spec : ∀ (k : Nat) (ps : List DP) (ds : List Nat), ps.length = ds.length → k ≤ ds.length →
    ds.sum + k < U64 →
    (bumpFirst k ps ds).2.sum = ds.sum + k ∧ (bumpFirst k ps ds).2.length = ds.length ∧
    (bumpFirst k ps ds).1.length = ps.length := by
  intro k
  induction k with
  | zero => intro ps ds _ _ _; simp [bumpFirst]
  | succ k ih =>
    intro ps ds hl hk hb
    cases ps with
    | nil => cases ds with
      | nil => simp at hk
      | cons d ds => simp at hl
    | cons p ps => cases ds with
      | nil => simp at hl
      | cons d ds =>
        simp only [List.length_cons, Nat.add_right_cancel_iff] at hl
        simp only [List.length_cons, Nat.add_le_add_iff_right] at hk
        simp only [List.sum_cons] at hb
        obtain ⟨a, b, c⟩ := ih ps ds hl hk (by omega)
        simp only [bumpFirst, List.sum_cons, List.length_cons]
        rw [wrapAdd_one (by omega), a, b, c]
        exact ⟨by omega, rfl, rfl⟩

theorem ofInt64_ofNat (n : Nat) : ofInt64 (Int.ofNat n) = .ok n := by
  unfold ofInt64
  have : ¬ (Int.ofNat n < 0) := by simp
  rw [if_neg this]; rfl

theorem addShare_spec (share : Nat) : ∀ (ps : List DP) (ds : List Nat) (ps' : List DP) (ds' : List Nat),
    ps.length = ds.length → addShare share (Int.ofNat share) ps ds = .ok (ps', ds') →
    ds'.sum = ds.sum + share * ds.length ∧ ds'.length = ds.length ∧ ps'.length = ps.length := by
  intro ps
  induction ps with
  | nil =>
    intro ds ps' ds' hl h
    cases ds with
    | nil => unfold addShare at h; injection h with h; injection h with h1 h2; subst h1 h2; simp
    | cons d ds => simp at hl
  | cons p ps ih =>
    intro ds ps' ds' hl h
    cases ds with
    | nil => simp at hl
    | cons d ds =>
      simp only [List.length_cons, Nat.add_right_cancel_iff] at hl
      unfold addShare at h
      obtain ⟨nr, _, h⟩ := bind_ok h
      obtain ⟨nd, hnd, h⟩ := bind_ok h
      obtain ⟨⟨ps1, ds1⟩, hrec, h⟩ := bind_ok h
      injection h with h; injection h with h1 h2; subst h1 h2
      obtain ⟨a, b, c⟩ := ih ds ps1 ds1 hl hrec
      have hnd' := liftC_ok hnd
      unfold addInt64 at hnd'
      rw [ofInt64_ofNat] at hnd'
      obtain ⟨e, _⟩ := addCoin_ok hnd'
      subst e
      simp only [List.sum_cons, List.length_cons, a, b, c]
      refine ⟨?_, trivial, trivial⟩
      rw [Nat.mul_add]; omega

theorem le_sum_of_mem' : ∀ (l : List Nat) (d : Nat), d ∈ l → d ≤ l.sum := by
  intro l
  induction l with
  | nil => intro d h; cases h
  | cons a l ih =>
    intro d h
    simp only [List.sum_cons]
    rcases List.mem_cons.mp h with rfl | h
    · omega
    · have := ih d h; omega

/-- `equallyDistributeRewards` adds exactly `coins` to the recorded delegate rewards (none of the unchecked
`++` can wrap, because every entry stays below the total, which is `< 2^64`). -/
theorem equally_sum (coins : Nat) (ps : List DP) (ds : List Nat) (ps' : List DP) (ds' : List Nat)
    (hl : ps.length = ds.length) (hne : 0 < ps.length) (hb : ds.sum + coins < U64)
    (h : equally coins ps ds = .ok (ps', ds')) :
    ds'.sum = ds.sum + coins ∧ ds'.length = ds.length ∧ ps'.length = ps.length := by
  unfold equally at h
  obtain ⟨⟨share, r⟩, hd, h⟩ := bind_ok h
  obtain ⟨c, hc, h⟩ := bind_ok h
  have hd' := liftC_ok hd
  unfold distributeCoin at hd'
  rw [ofInt64_ofNat] at hd'
  simp only at hd'
  have hlen : ps.length ≠ 0 := by omega
  rw [if_neg hlen] at hd'
  injection hd' with hd'; injection hd' with hs hr
  have hc' := liftC_ok hc
  unfold toInt64 at hc'
  split at hc'
  · injection hc' with hc'
    subst hc'
    have hdm := Nat.div_add_mod coins ps.length
    split at h
    · rename_i hs0
      injection h with hfin
      have hlt : coins < ps.length := by
        rw [← hs] at hs0
        exact (Nat.div_eq_zero_iff.mp hs0).resolve_left hlen
      have := bumpFirst_spec coins ps ds hl (by rw [← hl]; exact Nat.le_of_lt hlt) hb
      rw [show (Int.ofNat coins).toNat = coins from rfl] at hfin
      rw [hfin] at this
      exact this
    · rename_i hs0
      obtain ⟨iShare, hi, h⟩ := bind_ok h
      obtain ⟨⟨ps1, ds1⟩, ha, h⟩ := bind_ok h
      injection h with hfin
      have hi' := liftC_ok hi
      unfold toInt64 at hi'
      split at hi'
      · injection hi' with hi'
        subst hi'
        obtain ⟨a, b, c⟩ := addShare_spec share ps ds ps1 ds1 hl ha
        have hrlt : r < ps.length := by rw [← hr]; exact Nat.mod_lt _ (by omega)
        have hsum : ds1.sum + r = ds.sum + coins := by
          rw [a, ← hl, ← hs, ← hr]
          have : coins / ps.length * ps.length = ps.length * (coins / ps.length) := Nat.mul_comm _ _
          omega
        have := bumpFirst_spec r ps1 ds1 (by rw [b, c, hl]) (by rw [b, ← hl]; exact Nat.le_of_lt hrlt) (by rw [hsum]; exact hb)
        rw [hfin] at this
        obtain ⟨x, y, z⟩ := this
        exact ⟨by rw [x, hsum], by rw [y, b], by rw [z, c]⟩
      · cases hi'
  · cases hc'

/-! ## writing selected entries back -/

theorem writeBackN_length : ∀ (is sel ds : List Nat), (writeBackN ds is sel).length = ds.length := by
  intro is
  induction is with
  | nil => intro sel ds; cases sel <;> rfl
  | cons i is ih =>
    intro sel ds
    cases sel with
    | nil => rfl
    | cons d sel => simp only [writeBackN]; rw [ih]; simp

theorem sum_set_zero : ∀ (ds : List Nat) (i d : Nat), i < ds.length → ds.getD i 0 = 0 →
    (ds.set i d).sum = ds.sum + d := by
  intro ds
  induction ds with
  | nil => intro i d h; simp at h
  | cons a ds ih =>
    intro i d h h0
    cases i with
    | zero => simp at h0; subst h0; simp; omega
    | succ i =>
      simp only [List.length_cons, Nat.add_lt_add_iff_right] at h
      simp only [List.getD_cons_succ] at h0
      simp only [List.set_cons_succ, List.sum_cons, ih i d h h0]
      omega

theorem getD_set_ne (ds : List Nat) (i j d : Nat) (h : i ≠ j) : (ds.set i d).getD j 0 = ds.getD j 0 := by
  simp [List.getD_eq_getElem?_getD, List.getElem?_set_ne h]

/-- writing `sel` at distinct in-range positions `is` of an all-untouched list adds exactly `sel.sum`. -/
theorem writeBackN_sum : ∀ (is sel ds : List Nat), is.length = sel.length → is.Nodup → (∀ i ∈ is, i < ds.length) →
    (∀ i ∈ is, ds.getD i 0 = 0) → (writeBackN ds is sel).sum = ds.sum + sel.sum := by
  intro is
  induction is with
  | nil => intro sel ds hl _ _ _; cases sel with
    | nil => simp [writeBackN]
    | cons _ _ => simp at hl
  | cons i is ih =>
    intro sel ds hl hnd hr hz
    cases sel with
    | nil => simp at hl
    | cons d sel =>
      simp only [List.length_cons, Nat.add_right_cancel_iff] at hl
      have hnd' := List.nodup_cons.mp hnd
      simp only [writeBackN]
      rw [ih sel (ds.set i d) hl hnd'.2 (by intro j hj; simp; exact hr j (List.mem_cons_of_mem _ hj))
        (by
          intro j hj
          have hne : i ≠ j := by intro e; subst e; exact hnd'.1 hj
          rw [getD_set_ne ds i j d hne]
          exact hz j (List.mem_cons_of_mem _ hj))]
      rw [sum_set_zero ds i d (hr i (List.mem_cons_self)) (hz i (List.mem_cons_self))]
      simp only [List.sum_cons]; omega

end ZChain.StakePool

/-! ## the stored delegate rewards follow the recorded increments -/
namespace ZChain.StakePool
open ZChain ZChain.Coin

/-- `R3 ps0 ps ds`: pool by pool, `ps` is `ps0` with `ds` added to the reward (balances untouched). -/
inductive R3 : List DP → List DP → List Nat → Prop
  | nil : R3 [] [] []
  | cons {p0 p : DP} {d : Nat} {ps0 ps : List DP} {ds : List Nat} :
      p.reward = p0.reward + d → p.balance = p0.balance → R3 ps0 ps ds → R3 (p0 :: ps0) (p :: ps) (d :: ds)

theorem R3_refl_zero : ∀ (ps : List DP), R3 ps ps (ps.map (fun _ => 0)) := by
  intro ps
  induction ps with
  | nil => exact R3.nil
  | cons p ps ih => exact R3.cons (by simp) rfl ih

theorem distLoop_R3 (vl stake : Nat) : ∀ (ps : List DP) (vb : Nat) (ps' : List DP) (ds : List Nat) (vbf : Nat),
    distLoop vl stake ps vb = .ok (ps', ds, vbf) → R3 ps ps' ds := by
  intro ps
  induction ps with
  | nil =>
    intro vb ps' ds vbf h
    unfold distLoop at h
    injection h with h; injection h with h1 h2; injection h2 with h2 h3
    subst h1 h2; exact R3.nil
  | cons dp rest ih =>
    intro vb ps' ds vbf h
    unfold distLoop at h
    split at h
    · injection h with h; injection h with h1 h2; injection h2 with h2 h3
      subst h1 h2
      exact R3_refl_zero _
    · obtain ⟨r0, _, h⟩ := bind_ok h
      obtain ⟨nr, hnr, h⟩ := bind_ok h
      obtain ⟨⟨rest', drs, vbf'⟩, hrec, h⟩ := bind_ok h
      injection h with h; injection h with h1 h2; injection h2 with h2 h3
      subst h1 h2
      obtain ⟨e, _⟩ := addCoin_ok (liftC_ok hnr)
      exact R3.cons e rfl (ih _ _ _ _ hrec)

theorem addShare_R3 (share : Nat) : ∀ (ps0 ps : List DP) (ds : List Nat) (ps1 : List DP) (ds1 : List Nat),
    R3 ps0 ps ds → addShare share (Int.ofNat share) ps ds = .ok (ps1, ds1) → R3 ps0 ps1 ds1 := by
  intro ps0 ps ds ps1 ds1 hr
  induction hr generalizing ps1 ds1 with
  | nil => intro h; unfold addShare at h; injection h with h; injection h with h1 h2; subst h1 h2; exact R3.nil
  | cons e eb _ ih =>
    intro h
    unfold addShare at h
    obtain ⟨nr, hnr, h⟩ := bind_ok h
    obtain ⟨nd, hnd, h⟩ := bind_ok h
    obtain ⟨⟨psr, dsr⟩, hrec, h⟩ := bind_ok h
    injection h with h; injection h with h1 h2; subst h1 h2
    obtain ⟨e1, _⟩ := addCoin_ok (liftC_ok hnr)
    have hnd' := liftC_ok hnd
    unfold addInt64 at hnd'
    rw [ofInt64_ofNat] at hnd'
    obtain ⟨e2, _⟩ := addCoin_ok hnd'
    exact R3.cons (by simp only; omega) eb (ih _ _ hrec)

theorem bumpFirst_R3 : ∀ (k : Nat) (ps0 ps : List DP) (ds : List Nat) (B : Nat), R3 ps0 ps ds → k ≤ ds.length →
    ds.sum + k ≤ B → (∀ p0 ∈ ps0, p0.reward + B < U64) → B < U64 →
    R3 ps0 (bumpFirst k ps ds).1 (bumpFirst k ps ds).2 := by
  intro k
  induction k with
  | zero => intro ps0 ps ds B hr _ _ _ _; simpa [bumpFirst] using hr
  | succ k ih =>
    intro ps0 ps ds B hr hk hb hB hBU
    cases hr with
    | nil => simp at hk
    | cons e eb hrest =>
      rename_i p0 p d ps0' ps' ds'
      simp only [List.length_cons, Nat.add_le_add_iff_right] at hk
      simp only [List.sum_cons] at hb
      have hp0 := hB p0 List.mem_cons_self
      simp only [bumpFirst]
      refine R3.cons ?_ eb (ih ps0' ps' ds' (B - d - 1) hrest hk (by omega)
        (fun q hq => by have := hB q (List.mem_cons_of_mem _ hq); omega) (by omega))
      rw [wrapAdd_one (by omega), wrapAdd_one (by omega)]
      simp only; omega

theorem R3_length {ps0 ps : List DP} {ds : List Nat} (h : R3 ps0 ps ds) : ps.length = ps0.length ∧ ds.length = ps0.length := by
  induction h with
  | nil => exact ⟨rfl, rfl⟩
  | cons _ _ _ ih => simp [ih.1, ih.2]

theorem equally_R3 (coins : Nat) (ps0 ps : List DP) (ds : List Nat) (ps' : List DP) (ds' : List Nat) (B : Nat)
    (hr : R3 ps0 ps ds) (hne : 0 < ps.length) (hb : ds.sum + coins ≤ B) (hB : ∀ p0 ∈ ps0, p0.reward + B < U64) (hBU : B < U64)
    (h : equally coins ps ds = .ok (ps', ds')) : R3 ps0 ps' ds' := by
  have hl := R3_length hr
  have hlen : ps.length = ds.length := by rw [hl.1, hl.2]
  unfold equally at h
  obtain ⟨⟨share, r⟩, hd, h⟩ := bind_ok h
  obtain ⟨c, hc, h⟩ := bind_ok h
  have hd' := liftC_ok hd
  unfold distributeCoin at hd'
  rw [ofInt64_ofNat] at hd'
  simp only at hd'
  have hlen0 : ps.length ≠ 0 := by omega
  rw [if_neg hlen0] at hd'
  injection hd' with hd'; injection hd' with hs hrm
  have hc' := liftC_ok hc
  unfold toInt64 at hc'
  split at hc'
  · injection hc' with hc'
    subst hc'
    have hdm := Nat.div_add_mod coins ps.length
    split at h
    · rename_i hs0
      injection h with hfin
      have hlt : coins < ps.length := by
        rw [← hs] at hs0
        exact (Nat.div_eq_zero_iff.mp hs0).resolve_left hlen0
      rw [show (Int.ofNat coins).toNat = coins from rfl] at hfin
      have := bumpFirst_R3 coins ps0 ps ds B hr (by rw [← hlen]; exact Nat.le_of_lt hlt) hb hB hBU
      rw [hfin] at this
      exact this
    · obtain ⟨iShare, hi, h⟩ := bind_ok h
      obtain ⟨⟨ps1, ds1⟩, ha, h⟩ := bind_ok h
      injection h with hfin
      have hi' := liftC_ok hi
      unfold toInt64 at hi'
      split at hi'
      · injection hi' with hi'
        subst hi'
        have hr1 := addShare_R3 share ps0 ps ds ps1 ds1 hr ha
        obtain ⟨a, b, c⟩ := addShare_spec share ps ds ps1 ds1 hlen ha
        have hrlt : r < ps.length := by rw [← hrm]; exact Nat.mod_lt _ (by omega)
        have hsum : ds1.sum + r = ds.sum + coins := by
          rw [a, ← hlen, ← hs, ← hrm]
          have : coins / ps.length * ps.length = ps.length * (coins / ps.length) := Nat.mul_comm _ _
          omega
        have := bumpFirst_R3 r ps0 ps1 ds1 B hr1 (by rw [b, ← hlen]; exact Nat.le_of_lt hrlt) (by omega) hB hBU
        rw [hfin] at this
        exact this
      · cases hi'
  · cases hc'

end ZChain.StakePool
