import ZChain.Proofs.Zcn
import ZChain.Proofs.F64
/-!
Helper lemmas for the mint part of `Model/Zcn.lean`: the stages of `mint`, unique signatures,
`verifySigs` (strict and as coded), the threshold rounding.
-/
namespace ZChain.Zcn
open ZChain ZChain.Ledger ZChain.Alg

/-! ### stage decomposition -/

theorem mint_ok_stages (strict : Bool) (s : ZSt) (sender : Id) (p : MintIn) (h : Fr) (pick : Nat → Nat) (o : MintOut)
    (hm : mint strict s sender (some p) h pick = .ok o) :
    ∃ thr sigs uniq po, mintSigs s p = .ok (thr, sigs) ∧ mintChecks s sender p = .ok () ∧
      mintVerify strict s h thr sigs = .ok uniq ∧ mintPay s p.amount sigs pick = .ok po ∧
      o = { st := { s with minted := p.nonce :: s.minted, pools := po.pools }
            transfer := { src := zcnSC, dst := sender, amount := po.paid }
            share := po.share, paid := po.paid, rewarded := po.rewarded
            sigs := sigs, counted := uniq, threshold := thr } := by
  unfold mint at hm
  simp only at hm
  cases h1 : mintSigs s p with
  | error e => simp [h1] at hm
  | ok ts =>
    obtain ⟨thr, sigs⟩ := ts
    simp only [h1] at hm
    cases h2 : mintChecks s sender p with
    | error e => simp [h2] at hm
    | ok u =>
      simp only [h2] at hm
      cases h3 : mintVerify strict s h thr sigs with
      | error e => simp [h3] at hm
      | ok uniq =>
        simp only [h3] at hm
        cases h4 : mintPay s p.amount sigs pick with
        | error e => simp [h4] at hm
        | ok po =>
          simp only [h4, Except.ok.injEq] at hm
          exact ⟨thr, sigs, uniq, po, rfl, rfl, (by first | rfl | exact h3), (by first | rfl | exact h4), hm.symm⟩

theorem mint_none (strict : Bool) (s : ZSt) (sender : Id) (h : Fr) (pick : Nat → Nat) :
    mint strict s sender none h pick = .error .decode := rfl

theorem mintSigs_ok (s : ZSt) (p : MintIn) (thr : Int) (sigs : List Sig) (h : mintSigs s p = .ok (thr, sigs)) :
    p.sigs ≠ [] ∧ s.count ≠ 0 ∧ threshold s.cfg.percent s.count = some thr ∧ thr ≤ p.sigs.length ∧
    sigs = (if (p.sigs.length : Int) > s.count then p.sigs.take s.count.toNat else p.sigs) := by
  unfold mintSigs at h
  by_cases h1 : p.sigs.isEmpty
  · simp [h1] at h
  · by_cases h2 : s.count = 0
    · simp [h1, h2] at h
    · simp only [h1, h2, if_false, Bool.false_eq_true] at h
      cases ht : threshold s.cfg.percent s.count with
      | none => simp [ht] at h
      | some t =>
        simp only [ht] at h
        by_cases h3 : (p.sigs.length : Int) < t
        · simp [h3] at h
        · simp only [h3, if_false, Except.ok.injEq, Prod.mk.injEq] at h
          refine ⟨?_, h2, ?_, ?_, h.2.symm⟩
          · intro hn; rw [hn] at h1; simp at h1
          · rw [← h.1]
          · rw [← h.1]; omega

theorem mintSigs_sub (s : ZSt) (p : MintIn) (thr : Int) (sigs : List Sig) (h : mintSigs s p = .ok (thr, sigs)) :
    ∀ x ∈ sigs, x ∈ p.sigs := by
  obtain ⟨_, _, _, _, hs⟩ := mintSigs_ok s p thr sigs h
  intro x hx
  rw [hs] at hx
  split at hx
  · exact List.mem_of_mem_take hx
  · exact hx

theorem mintChecks_ok (s : ZSt) (sender : Id) (p : MintIn) (h : mintChecks s sender p = .ok ()) :
    p.receiver = sender ∧ s.cfg.minMint ≤ p.amount ∧ s.cfg.maxFee ≤ p.amount ∧ p.nonce ∉ s.minted := by
  unfold mintChecks at h
  by_cases h1 : p.receiver ≠ sender
  · simp [h1] at h
  · by_cases h2 : p.amount < s.cfg.minMint
    · simp [h1, h2] at h
    · by_cases h3 : p.amount < s.cfg.maxFee
      · simp [h1, h2, h3] at h
      · by_cases h4 : p.nonce ∈ s.minted
        · simp [h1, h2, h3, h4] at h
        · exact ⟨by simpa using h1, by omega, by omega, h4⟩

theorem mintVerify_ok (strict : Bool) (s : ZSt) (h : Fr) (thr : Int) (sigs uniq : List Sig)
    (hv : mintVerify strict s h thr sigs = .ok uniq) :
    uniq = uniqueSigs sigs ∧ verifySignatures strict s.auths h uniq = true ∧ thr ≤ uniq.length := by
  unfold mintVerify at hv
  simp only at hv
  by_cases h1 : verifySignatures strict s.auths h (uniqueSigs sigs)
  · simp only [h1, Bool.not_true, Bool.false_eq_true, if_false] at hv
    by_cases h2 : ((uniqueSigs sigs).length : Int) < thr
    · simp [h2] at hv
    · simp only [h2, if_false, Except.ok.injEq] at hv
      subst hv
      exact ⟨rfl, h1, by omega⟩
  · simp [h1] at hv

/-! ### unique signatures -/

theorem mem_putSorted (s : Sig) (acc : List Sig) (x : Sig) (hx : x ∈ putSorted s acc) : x = s ∨ x ∈ acc := by
  induction acc with
  | nil => simp [putSorted] at hx; exact Or.inl hx
  | cons y ys ih =>
    unfold putSorted at hx
    split at hx
    · rcases List.mem_cons.mp hx with h | h
      · exact Or.inl h
      · exact Or.inr (List.mem_cons_of_mem _ h)
    · split at hx
      · rcases List.mem_cons.mp hx with h | h
        · exact Or.inl h
        · exact Or.inr h
      · rcases List.mem_cons.mp hx with h | h
        · exact Or.inr (h ▸ List.mem_cons_self)
        · rcases ih h with h' | h'
          · exact Or.inl h'
          · exact Or.inr (List.mem_cons_of_mem _ h')

/-! order of ids -/

theorem idLt_irrefl (a : Option Nat) : idLt a a = false := by
  cases a <;> simp [idLt]

theorem idLt_trans {a b c : Option Nat} (h1 : idLt a b = true) (h2 : idLt b c = true) : idLt a c = true := by
  cases a <;> cases b <;> cases c <;> simp [idLt] at h1 h2 ⊢
  omega

theorem idLt_total {a b : Option Nat} (hne : a ≠ b) (h : idLt a b = false) : idLt b a = true := by
  cases a <;> cases b <;> simp [idLt] at hne h ⊢
  omega

/-- the accumulator of `getUniqueSignatures` is strictly sorted by id. -/
def IdsSorted (l : List Sig) : Prop := l.Pairwise (fun a b => idLt a.id b.id = true)

theorem putSorted_sorted (s : Sig) (acc : List Sig) (h : IdsSorted acc) : IdsSorted (putSorted s acc) := by
  induction acc with
  | nil => simp [putSorted, IdsSorted]
  | cons y ys ih =>
    have hy : ∀ z ∈ ys, idLt y.id z.id = true := (List.pairwise_cons.mp h).1
    have hys : IdsSorted ys := (List.pairwise_cons.mp h).2
    unfold putSorted
    by_cases h1 : y.id = s.id
    · simp only [h1, if_true]
      exact List.pairwise_cons.mpr ⟨fun z hz => by rw [← h1]; exact hy z hz, hys⟩
    · simp only [h1, if_false]
      by_cases h2 : idLt s.id y.id = true
      · simp only [h2, if_true]
        refine List.pairwise_cons.mpr ⟨?_, h⟩
        intro z hz
        rcases List.mem_cons.mp hz with hz | hz
        · rw [hz]; exact h2
        · exact idLt_trans h2 (hy z hz)
      · simp only [h2]
        refine List.pairwise_cons.mpr ⟨?_, ih hys⟩
        intro z hz
        rcases mem_putSorted s ys z hz with hz | hz
        · rw [hz]; exact idLt_total (fun e => h1 e.symm) (by simpa using h2)
        · exact hy z hz

theorem uniqueSigs_aux (l : List Sig) : ∀ acc, IdsSorted acc →
    IdsSorted (l.foldl (fun acc s => putSorted s acc) acc) ∧
    ∀ x ∈ l.foldl (fun acc s => putSorted s acc) acc, x ∈ l ∨ x ∈ acc := by
  induction l with
  | nil => intro acc h; exact ⟨h, fun x hx => Or.inr hx⟩
  | cons s rest ih =>
    intro acc h
    obtain ⟨h1, h2⟩ := ih (putSorted s acc) (putSorted_sorted s acc h)
    refine ⟨h1, ?_⟩
    intro x hx
    rcases h2 x hx with hx | hx
    · exact Or.inl (List.mem_cons_of_mem _ hx)
    · rcases mem_putSorted s acc x hx with hx | hx
      · exact Or.inl (hx ▸ List.mem_cons_self)
      · exact Or.inr hx

/-- every counted signature is one of the submitted ones. -/
theorem uniqueSigs_sub (l : List Sig) : ∀ x ∈ uniqueSigs l, x ∈ l := by
  intro x hx
  rcases (uniqueSigs_aux l [] List.Pairwise.nil).2 x hx with h | h
  · exact h
  · simp at h

/-- the counted signatures carry pairwise distinct ids. -/
theorem uniqueSigs_nodup (l : List Sig) : ((uniqueSigs l).map (·.id)).Nodup := by
  have h := (uniqueSigs_aux l [] List.Pairwise.nil).1
  unfold IdsSorted at h
  unfold List.Nodup
  rw [List.pairwise_map]
  refine h.imp ?_
  intro a b hab e
  rw [e, idLt_irrefl] at hab
  exact Bool.false_ne_true hab

/-! ### signature verification -/

/-- `sg` is a decodable signature, under the id of a registered authorizer, that verifies over `h` with the
key registered for that id. -/
def ValidSig (auths : List (Nat × Fr)) (h : Fr) (sg : Sig) : Prop :=
  ∃ k pk σ, sg.id = some k ∧ aGet auths k = some pk ∧ sg.sig = some σ ∧ verifyLib pk h σ = true

/-- `sg` is a decodable signature under a registered id that does NOT verify — the case in which
`errors.Wrap(nil, …)` makes `verifySignatures` return success. -/
def SilentInvalid (auths : List (Nat × Fr)) (h : Fr) (sg : Sig) : Prop :=
  ∃ k pk σ, sg.id = some k ∧ aGet auths k = some pk ∧ sg.sig = some σ ∧ verifyLib pk h σ = false

/-- the evidently intended check: success means every signature is valid. -/
theorem verifySigs_strict (auths : List (Nat × Fr)) (h : Fr) (l : List Sig)
    (hv : verifySigs true auths h l = true) : ∀ sg ∈ l, ValidSig auths h sg := by
  induction l with
  | nil => intro sg hsg; simp at hsg
  | cons s rest ih =>
    unfold verifySigs at hv
    cases hid : s.id with
    | none => simp [hid] at hv
    | some k =>
      simp only [hid] at hv
      cases hk : aGet auths k with
      | none => simp [hk] at hv
      | some pk =>
        simp only [hk] at hv
        cases hs : s.sig with
        | none => simp [hs] at hv
        | some σ =>
          simp only [hs] at hv
          by_cases hver : verifyLib pk h σ = true
          · simp only [hver, if_true] at hv
            intro sg hsg
            rcases List.mem_cons.mp hsg with e | e
            · subst e; exact ⟨k, pk, σ, hid, hk, hs, hver⟩
            · exact ih hv sg e
          · simp [hver] at hv

/-- the check **as coded**: success means a (possibly empty) run of valid signatures, and then either the
end of the list or a well-formed signature that does not verify — after which nothing is looked at. -/
theorem verifySigs_coded (auths : List (Nat × Fr)) (h : Fr) (l : List Sig)
    (hv : verifySigs false auths h l = true) :
    (∀ sg ∈ l, ValidSig auths h sg) ∨
    ∃ pre sg post, l = pre ++ sg :: post ∧ (∀ x ∈ pre, ValidSig auths h x) ∧ SilentInvalid auths h sg := by
  induction l with
  | nil => left; intro sg hsg; simp at hsg
  | cons s rest ih =>
    unfold verifySigs at hv
    cases hid : s.id with
    | none => simp [hid] at hv
    | some k =>
      simp only [hid] at hv
      cases hk : aGet auths k with
      | none => simp [hk] at hv
      | some pk =>
        simp only [hk] at hv
        cases hs : s.sig with
        | none => simp [hs] at hv
        | some σ =>
          simp only [hs] at hv
          by_cases hver : verifyLib pk h σ = true
          · simp only [hver, if_true] at hv
            have hvs : ValidSig auths h s := ⟨k, pk, σ, hid, hk, hs, hver⟩
            rcases ih hv with hall | ⟨pre, sg, post, hl, hpre, hsi⟩
            · left
              intro sg hsg
              rcases List.mem_cons.mp hsg with e | e
              · subst e; exact hvs
              · exact hall sg e
            · right
              refine ⟨s :: pre, sg, post, by rw [hl]; rfl, ?_, hsi⟩
              intro x hx
              rcases List.mem_cons.mp hx with e | e
              · subst e; exact hvs
              · exact hpre x e
          · right
            exact ⟨[], s, rest, rfl, by intro x hx; simp at hx, ⟨k, pk, σ, hid, hk, hs, by simpa using hver⟩⟩

/-- as coded, with no silently-invalid signature among those counted, everything counted is valid. -/
theorem verifySigs_coded_of_no_silent (auths : List (Nat × Fr)) (h : Fr) (l : List Sig)
    (hv : verifySigs false auths h l = true) (hns : ∀ sg ∈ l, ¬ SilentInvalid auths h sg) :
    ∀ sg ∈ l, ValidSig auths h sg := by
  rcases verifySigs_coded auths h l hv with hall | ⟨pre, sg, post, hl, _, hsi⟩
  · exact hall
  · exact absurd hsi (hns sg (by rw [hl]; simp))

/-- in both variants the first counted signature must be well-formed under a registered id. -/
theorem verifySigs_head (strict : Bool) (auths : List (Nat × Fr)) (h : Fr) (s : Sig) (rest : List Sig)
    (hv : verifySigs strict auths h (s :: rest) = true) :
    ∃ k pk σ, s.id = some k ∧ aGet auths k = some pk ∧ s.sig = some σ := by
  unfold verifySigs at hv
  cases hid : s.id with
  | none => simp [hid] at hv
  | some k =>
    simp only [hid] at hv
    cases hk : aGet auths k with
    | none => simp [hk] at hv
    | some pk =>
      simp only [hk] at hv
      cases hs : s.sig with
      | none => simp [hs] at hv
      | some σ => exact ⟨k, pk, σ, rfl, (by first | rfl | exact hk), rfl⟩

theorem verifySignatures_true (strict : Bool) (auths : List (Nat × Fr)) (h : Fr) (l : List Sig)
    (hv : verifySignatures strict auths h l = true) : l ≠ [] ∧ verifySigs strict auths h l = true := by
  unfold verifySignatures at hv
  by_cases he : l.isEmpty
  · simp [he] at hv
  · simp only [he, Bool.false_eq_true, if_false] at hv
    exact ⟨by intro e; rw [e] at he; simp at he, hv⟩

/-! ### the rounding of the threshold -/

/-- round-half-even is within half a unit of the exact quotient. -/
theorem rne_close (N D : Nat) (hD : 0 < D) :
    2 * (F64.rne N D * D - N) ≤ D ∧ 2 * (N - F64.rne N D * D) ≤ D := by
  have hdm : D * (N / D) + N % D = N := Nat.div_add_mod N D
  have hlt : N % D < D := Nat.mod_lt N hD
  unfold F64.rne
  simp only
  split
  · rename_i hc
    have e : (N / D + 1) * D = D * (N / D) + D := by rw [Nat.add_mul, Nat.one_mul, Nat.mul_comm]
    rw [e]
    rcases hc with hc | hc
    · constructor <;> omega
    · constructor <;> omega
  · rename_i hc
    have e : N / D * D = D * (N / D) := Nat.mul_comm _ _
    rw [e]
    have h1 : ¬ D < 2 * (N % D) := fun h => hc (Or.inl h)
    constructor <;> omega

/-! ### payout stage -/

theorem mem_insertId (i x : Option Nat) (l : List (Option Nat)) : x ∈ insertId i l ↔ x = i ∨ x ∈ l := by
  induction l with
  | nil => simp [insertId]
  | cons y ys ih =>
    unfold insertId
    split
    · simp only [List.mem_cons, ih]
      constructor
      · rintro (h | h | h)
        · exact Or.inr (Or.inl h)
        · exact Or.inl h
        · exact Or.inr (Or.inr h)
      · rintro (h | h | h)
        · exact Or.inr (Or.inl h)
        · exact Or.inl h
        · exact Or.inr (Or.inr h)
    · simp only [List.mem_cons]

theorem mem_sortIds (x : Option Nat) (l : List (Option Nat)) : x ∈ sortIds l ↔ x ∈ l := by
  induction l with
  | nil => simp [sortIds]
  | cons y ys ih =>
    show x ∈ insertId y (sortIds ys) ↔ _
    rw [mem_insertId, ih, List.mem_cons]

theorem length_insertId (i : Option Nat) (l : List (Option Nat)) : (insertId i l).length = l.length + 1 := by
  induction l with
  | nil => rfl
  | cons y ys ih =>
    unfold insertId
    split
    · simp [ih]
    · simp

theorem length_sortIds (l : List (Option Nat)) : (sortIds l).length = l.length := by
  induction l with
  | nil => rfl
  | cons y ys ih =>
    show (insertId y (sortIds ys)).length = _
    rw [length_insertId, ih]; rfl

/-- what a successful payout stage did. -/
theorem mintPay_ok (s : ZSt) (amount : Nat) (sigs : List Sig) (pick : Nat → Nat) (po : Payout)
    (h : mintPay s amount sigs pick = .ok po) :
    sigs ≠ [] ∧ po.share = s.cfg.maxFee / sigs.length ∧ po.paid + po.share = amount ∧
    (∃ sg ∈ sigs, sg.id = some po.rewarded) ∧
    ∃ ap sp' u, aGet s.pools po.rewarded = some ap ∧ StakePool.distributeRewards ap.sp po.share = .ok (sp', u) ∧
      po.pools = aSet s.pools po.rewarded { ap with sp := sp' } := by
  unfold mintPay at h
  cases hd : Coin.distributeCoin s.cfg.maxFee (sigs.length : Int) with
  | error e => simp [hd] at h
  | ok sr =>
    obtain ⟨share, rem⟩ := sr
    simp only [hd] at h
    cases hmn : Coin.minusCoin amount share with
    | error e => simp [hmn] at h
    | ok paid =>
      simp only [hmn] at h
      cases hp : (sortIds (sigs.map (·.id)))[pick sigs.length]? with
      | none => simp [hp] at h
      | some oid =>
        cases oid with
        | none => simp [hp] at h
        | some k =>
          simp only [hp] at h
          cases hk : aGet s.pools k with
          | none => simp [hk] at h
          | some ap =>
            simp only [hk] at h
            cases hr : StakePool.distributeRewards ap.sp share with
            | error e => simp [hr] at h
            | ok r =>
              obtain ⟨sp', u⟩ := r
              simp only [hr, Except.ok.injEq] at h
              subst h
              -- the fee share
              have hshare : sigs.length ≠ 0 ∧ share = s.cfg.maxFee / sigs.length := by
                unfold Coin.distributeCoin Coin.ofInt64 at hd
                have hnn : ¬ ((sigs.length : Int) < 0) := by omega
                simp only [hnn, if_false, Int.toNat_natCast] at hd
                by_cases h0 : sigs.length = 0
                · simp [h0] at hd
                · simp only [h0, if_false, Except.ok.injEq, Prod.mk.injEq] at hd
                  exact ⟨h0, hd.1.symm⟩
              have hpaid : paid + share = amount := by
                unfold Coin.minusCoin at hmn
                by_cases hlt : amount < share
                · simp [hlt] at hmn
                · simp only [hlt, if_false, Except.ok.injEq] at hmn
                  omega
              have hmem : some k ∈ sigs.map (·.id) := by
                rw [← mem_sortIds]
                exact List.mem_of_getElem? hp
              obtain ⟨sg, hsg, hid⟩ := List.mem_map.mp hmem
              refine ⟨?_, hshare.2, hpaid, ⟨sg, hsg, hid⟩, ap, sp', u, (by first | rfl | exact hk), (by first | rfl | exact hr), rfl⟩
              intro e; rw [e] at hshare; exact hshare.1 rfl

end ZChain.Zcn
