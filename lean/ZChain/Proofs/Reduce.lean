import ZChain.Model.Reduce
/-! Helper lemmas for C39 (`Model/Reduce`): the order `before`, the stable insertion sort, the coded
tie-range search and the pick loop. Core-only. -/
namespace ZChain.Reduce

/-! ### the order -/

theorem before_iff (a b : Node) :
    before a b = true ↔ (b.stake < a.stake ∨ (a.stake = b.stake ∧ a.id < b.id)) := by
  unfold before
  split
  · rename_i h; simp only [decide_eq_true_eq]; omega
  · rename_i h; simp only [decide_eq_true_eq]; omega

theorem before_false_iff (a b : Node) :
    before a b = false ↔ (a.stake < b.stake ∨ (a.stake = b.stake ∧ b.id ≤ a.id)) := by
  rw [← Bool.not_eq_true, before_iff]; omega

theorem before_irrefl (a : Node) : before a a = false := by
  rw [before_false_iff]; omega

theorem before_stake {a b : Node} (h : before a b = true) : b.stake ≤ a.stake := by
  rw [before_iff] at h; omega

theorem not_before_stake {a b : Node} (h : before b a = false) : b.stake ≤ a.stake := by
  rw [before_false_iff] at h; omega

theorem before_asymm {a b : Node} (h : before a b = true) : before b a = false := by
  rw [before_iff] at h; rw [before_false_iff]; omega

theorem before_trans {a b c : Node} (h1 : before a b = true) (h2 : before b c = true) : before a c = true := by
  rw [before_iff] at *; omega

/-- trichotomy: two nodes neither of which is strictly before the other are the same node. -/
theorem before_total {a b : Node} (h1 : before a b = false) (h2 : before b a = false) : a = b := by
  rw [before_false_iff] at *
  cases a; cases b; simp only [Node.mk.injEq] at *; omega

/-- non-strict order: `b` is not strictly before `a`. -/
def le (a b : Node) : Prop := before b a = false

theorem le_trans' {a b c : Node} (h1 : le a b) (h2 : le b c) : le a c := by
  unfold le at *
  rw [before_false_iff] at *; omega

def Sorted (l : List Node) : Prop := l.Pairwise le

def StakeSorted (l : List Node) : Prop := l.Pairwise (fun a b => b.stake ≤ a.stake)

theorem Sorted.stakeSorted {l : List Node} (h : Sorted l) : StakeSorted l :=
  List.Pairwise.imp (fun {a b} hab => not_before_stake hab) h

/-! ### the stable insertion sort -/

theorem insertBy_perm (x : Node) (l : List Node) : (insertBy x l).Perm (x :: l) := by
  induction l with
  | nil => exact List.Perm.refl _
  | cons y ys ih =>
    unfold insertBy
    split
    · exact (List.Perm.cons y ih).trans (List.Perm.swap x y ys)
    · exact List.Perm.refl _

theorem insertBy_sorted (x : Node) (l : List Node) (h : Sorted l) : Sorted (insertBy x l) := by
  induction l with
  | nil => exact List.pairwise_singleton _ _
  | cons y ys ih =>
    unfold insertBy
    have hy := List.pairwise_cons.mp h
    split
    · rename_i hb
      refine List.pairwise_cons.mpr ⟨?_, ih hy.2⟩
      intro z hz
      have := (insertBy_perm x ys).subset hz
      rcases List.mem_cons.mp this with rfl | hz'
      · exact before_asymm hb
      · exact hy.1 z hz'
    · rename_i hb
      have hb' : before y x = false := by simpa using hb
      refine List.pairwise_cons.mpr ⟨?_, h⟩
      intro z hz
      rcases List.mem_cons.mp hz with rfl | hz'
      · exact hb'
      · exact le_trans' (a := x) (b := y) (c := z) hb' (hy.1 z hz')

theorem isort_perm (l : List Node) : (isort l).Perm l := by
  induction l with
  | nil => exact List.Perm.refl _
  | cons x xs ih =>
    show (insertBy x (isort xs)).Perm (x :: xs)
    exact (insertBy_perm x _).trans (List.Perm.cons x ih)

theorem isort_sorted (l : List Node) : Sorted (isort l) := by
  induction l with
  | nil => exact List.Pairwise.nil
  | cons x xs ih => exact insertBy_sorted x _ ih

theorem isort_length (l : List Node) : (isort l).length = l.length := (isort_perm l).length_eq

theorem mem_isort {l : List Node} {a : Node} : a ∈ isort l ↔ a ∈ l := (isort_perm l).mem_iff

/-- the sorted arrangement of a multiset of nodes is unique: the result of the sort does not depend on
the order of its input (this is what makes `reduce` independent of Go's map iteration order). -/
theorem isort_eq_of_perm {l₁ l₂ : List Node} (h : l₁.Perm l₂) : isort l₁ = isort l₂ := by
  apply List.Perm.eq_of_pairwise (le := le)
  · intro a b _ _ h1 h2; exact before_total h2 h1
  · exact isort_sorted l₁
  · exact isort_sorted l₂
  · exact (isort_perm l₁).trans (h.trans (isort_perm l₂).symm)

/-! ### splitting a stake-sorted list at a threshold -/

def hiOf (t : Nat) (l : List Node) : List Node := l.filter fun a => decide (a.stake > t)
def eqOf (t : Nat) (l : List Node) : List Node := l.filter fun a => decide (a.stake = t)
def loOf (t : Nat) (l : List Node) : List Node := l.filter fun a => decide (a.stake < t)

theorem stakeSorted_split (t : Nat) (l : List Node) (h : StakeSorted l) :
    l = hiOf t l ++ eqOf t l ++ loOf t l := by
  induction l with
  | nil => rfl
  | cons a l ih =>
    have ha := List.pairwise_cons.mp h
    have ih' := ih ha.2
    unfold hiOf eqOf loOf at *
    rcases Nat.lt_trichotomy a.stake t with hlt | heq | hgt
    · -- everything after `a` is below t as well
      have h1 : l.filter (fun a => decide (a.stake > t)) = [] := by
        apply List.filter_eq_nil_iff.mpr; intro b hb; have := ha.1 b hb; simp; omega
      have h2 : l.filter (fun a => decide (a.stake = t)) = [] := by
        apply List.filter_eq_nil_iff.mpr; intro b hb; have := ha.1 b hb; simp; omega
      have h3 : l.filter (fun a => decide (a.stake < t)) = l := by
        apply List.filter_eq_self.mpr; intro b hb; have := ha.1 b hb; simp; omega
      have g1 : ¬ a.stake > t := by omega
      have g2 : ¬ a.stake = t := by omega
      simp [List.filter_cons, g1, g2, hlt, h1, h2, h3]
    · have h1 : l.filter (fun a => decide (a.stake > t)) = [] := by
        apply List.filter_eq_nil_iff.mpr; intro b hb; have := ha.1 b hb; simp; omega
      have e1 : (a :: l).filter (fun a => decide (a.stake > t)) = l.filter (fun a => decide (a.stake > t)) :=
        List.filter_cons_of_neg (by simp; omega)
      have e2 : (a :: l).filter (fun a => decide (a.stake = t)) = a :: l.filter (fun a => decide (a.stake = t)) :=
        List.filter_cons_of_pos (by simp; omega)
      have e3 : (a :: l).filter (fun a => decide (a.stake < t)) = l.filter (fun a => decide (a.stake < t)) :=
        List.filter_cons_of_neg (by simp; omega)
      rw [e1, e2, e3, h1]
      rw [h1] at ih'
      simp only [List.nil_append, List.cons_append] at *
      exact congrArg _ ih'
    · have e1 : (a :: l).filter (fun a => decide (a.stake > t)) = a :: l.filter (fun a => decide (a.stake > t)) :=
        List.filter_cons_of_pos (by simp; omega)
      have e2 : (a :: l).filter (fun a => decide (a.stake = t)) = l.filter (fun a => decide (a.stake = t)) :=
        List.filter_cons_of_neg (by simp; omega)
      have e3 : (a :: l).filter (fun a => decide (a.stake < t)) = l.filter (fun a => decide (a.stake < t)) :=
        List.filter_cons_of_neg (by simp; omega)
      rw [e1, e2, e3]
      simp only [List.cons_append]
      exact congrArg _ ih'

theorem mem_hiOf {t : Nat} {l : List Node} {a : Node} : a ∈ hiOf t l ↔ a ∈ l ∧ a.stake > t := by
  simp [hiOf]
theorem mem_eqOf {t : Nat} {l : List Node} {a : Node} : a ∈ eqOf t l ↔ a ∈ l ∧ a.stake = t := by
  simp [eqOf]
theorem mem_loOf {t : Nat} {l : List Node} {a : Node} : a ∈ loOf t l ↔ a ∈ l ∧ a.stake < t := by
  simp [loOf]

/-! ### the coded search for the tie range -/

theorem tieLoop_hi (t : Nat) (hi r : List Node) (i : Nat) (s : Option Nat) (e : Nat) (h : ∀ a ∈ hi, a.stake > t) :
    tieLoop t (hi ++ r) i s e = tieLoop t r (i + hi.length) s e := by
  induction hi generalizing i with
  | nil => simp
  | cons a hi ih =>
    have ha : a.stake > t := h a (List.mem_cons_self ..)
    have g1 : ¬ (s.isNone = true ∧ a.stake = t) := fun hh => by have := hh.2; omega
    have g2 : ¬ a.stake < t := by omega
    simp only [List.cons_append, tieLoop, g1, g2, ↓reduceIte, List.length_cons]
    rw [ih (i + 1) (fun b hb => h b (List.mem_cons_of_mem _ hb))]
    congr 1; omega

theorem tieLoop_eq_some (t : Nat) (eq r : List Node) (i k e : Nat) (h : ∀ a ∈ eq, a.stake = t) :
    tieLoop t (eq ++ r) i (some k) e = tieLoop t r (i + eq.length) (some k) e := by
  induction eq generalizing i with
  | nil => simp
  | cons a eq ih =>
    have ha : a.stake = t := h a (List.mem_cons_self ..)
    have g2 : ¬ a.stake < t := by omega
    simp only [List.cons_append, tieLoop, Option.isNone_some, Bool.false_eq_true, false_and, g2, ↓reduceIte,
      List.length_cons]
    rw [ih (i + 1) (fun b hb => h b (List.mem_cons_of_mem _ hb))]
    congr 1; omega

theorem tieLoop_lo (t : Nat) (lo : List Node) (i : Nat) (s : Option Nat) (e : Nat) (h : ∀ a ∈ lo, a.stake < t) :
    tieLoop t lo i s e = (s, if lo = [] then e else i) := by
  cases lo with
  | nil => simp [tieLoop]
  | cons a lo =>
    have ha : a.stake < t := h a (List.mem_cons_self ..)
    have g1 : ¬ (s.isNone = true ∧ a.stake = t) := fun hh => by have := hh.2; omega
    simp only [tieLoop, g1, ha, ↓reduceIte]
    simp

theorem tieLoop_spec (t : Nat) (hi eq lo : List Node)
    (hhi : ∀ a ∈ hi, a.stake > t) (heq : ∀ a ∈ eq, a.stake = t) (hlo : ∀ a ∈ lo, a.stake < t)
    (hne : eq ≠ []) :
    tieLoop t (hi ++ eq ++ lo) 0 none (hi ++ eq ++ lo).length
      = (some hi.length, hi.length + eq.length) := by
  rw [List.append_assoc, tieLoop_hi t hi _ 0 none _ hhi]
  cases eq with
  | nil => exact absurd rfl hne
  | cons a eq =>
    have ha : a.stake = t := heq a (List.mem_cons_self ..)
    have heq' : ∀ b ∈ eq, b.stake = t := fun b hb => heq b (List.mem_cons_of_mem _ hb)
    simp only [List.cons_append, tieLoop, ha, Option.isNone_none, and_self, ↓reduceIte, Nat.zero_add, List.length_cons]
    rw [tieLoop_eq_some t eq lo _ hi.length _ heq', tieLoop_lo t lo _ _ _ hlo]
    cases lo <;> simp <;> omega

/-! ### the pick loop -/

theorem pickLoop_eq (m : Nat) (tie : List Node) (js : List Nat) (sel : List Node) :
    pickLoop m tie js sel = sel ++ (js.take (m - sel.length)).map (fun j => tie.getD j default) := by
  induction js generalizing sel with
  | nil => simp [pickLoop]
  | cons j js ih =>
    unfold pickLoop
    rw [ih]
    by_cases h : sel.length < m
    · simp only [h, ↓reduceIte, List.length_append, List.length_cons, List.length_nil]
      have : m - sel.length = (m - (sel.length + (0 + 1))) + 1 := by omega
      rw [this, List.take_succ_cons]
      simp
    · simp only [h, ↓reduceIte]
      have : m - sel.length = 0 := by omega
      simp [this]

/-! ### structure of `reduceN` -/

theorem pmbSorted_perm (cs : List Node) (inPrev : Nat → Bool) :
    (pmbSorted cs inPrev).Perm (cs.filter fun n => inPrev n.id) := isort_perm _

theorem quotaNodes_length (cs : List Node) (inPrev : Nat → Bool) (q : Nat) :
    (quotaNodes cs inPrev q).length = quotaSize cs inPrev q := by
  unfold quotaNodes quotaSize
  rw [List.length_take]; omega

/-- quota ++ rest is a rearrangement of the candidates. -/
theorem quota_rest_perm (cs : List Node) (inPrev : Nat → Bool) (q : Nat) :
    (quotaNodes cs inPrev q ++ restSorted cs inPrev q).Perm cs := by
  unfold quotaNodes restSorted
  generalize quotaSize cs inPrev q = x
  have h1 := isort_perm ((cs.filter fun n => !inPrev n.id) ++ (pmbSorted cs inPrev).drop x)
  refine (List.Perm.append_left _ h1).trans ?_
  have h2 : ((pmbSorted cs inPrev).take x ++ ((cs.filter fun n => !inPrev n.id) ++ (pmbSorted cs inPrev).drop x)).Perm
      ((cs.filter fun n => !inPrev n.id) ++ ((pmbSorted cs inPrev).take x ++ (pmbSorted cs inPrev).drop x)) := by
    rw [← List.append_assoc, ← List.append_assoc]
    exact List.Perm.append_right _ List.perm_append_comm
  refine h2.trans ?_
  rw [List.take_append_drop]
  refine (List.Perm.append_left _ (pmbSorted_perm cs inPrev)).trans ?_
  refine List.perm_append_comm.trans ?_
  exact List.filter_append_perm (fun n => inPrev n.id) cs

theorem restSorted_sorted (cs : List Node) (inPrev : Nat → Bool) (q : Nat) : Sorted (restSorted cs inPrev q) :=
  isort_sorted _

theorem split_index (t : Nat) (hi eq lo : List Node)
    (hhi : ∀ a ∈ hi, a.stake > t) (hlo : ∀ a ∈ lo, a.stake < t)
    (k : Nat) (hk : k < (hi ++ eq ++ lo).length) (ht : ((hi ++ eq ++ lo).getD k default).stake = t) :
    hi.length ≤ k ∧ k < hi.length + eq.length := by
  rw [List.getD_eq_getElem?_getD] at ht
  constructor
  · apply Nat.le_of_not_lt; intro h
    rw [List.append_assoc, List.getElem?_append_left h, List.getElem?_eq_getElem h] at ht
    have := hhi _ (List.getElem_mem h)
    simp only [Option.getD_some] at ht; omega
  · apply Nat.lt_of_not_le; intro h
    have hl : (hi ++ eq).length ≤ k := by simp only [List.length_append]; omega
    have hk' : k - (hi ++ eq).length < lo.length := by
      simp only [List.length_append] at hk hl ⊢; omega
    rw [List.getElem?_append_right hl, List.getElem?_eq_getElem hk'] at ht
    have := hlo _ (List.getElem_mem hk')
    simp only [Option.getD_some] at ht; omega

theorem tieLoop_of_sorted (R : List Node) (hs : StakeSorted R) (t : Nat) (hne : eqOf t R ≠ []) :
    tieLoop t R 0 none R.length
      = (some (hiOf t R).length, (hiOf t R).length + (eqOf t R).length) := by
  have h := tieLoop_spec t (hiOf t R) (eqOf t R) (loOf t R)
    (fun a ha => (mem_hiOf.mp ha).2) (fun a ha => (mem_eqOf.mp ha).2) (fun a ha => (mem_loOf.mp ha).2) hne
  rw [← stakeSorted_split t R hs] at h
  exact h

/-- What `reduceN` returns in the tie branch (more rest candidates than free places `y = m - x > 0`), in
closed form. `R`, `x`, `m`, `t` are names for the model's intermediate values; the coded search finds the real
start of the tie range, the number of entries with more than the cut-off stake. -/
theorem reduceN_tie_branch (cs : List Node) (limit q : Nat) (inPrev : Nat → Bool) (perms : Nat → List Nat)
    (R : List Node) (hRdef : R = restSorted cs inPrev q)
    (x : Nat) (hxdef : x = quotaSize cs inPrev q)
    (m : Nat) (hmdef : m = min limit cs.length)
    (t : Nat) (htdef : t = (R.getD (m - x - 1) default).stake)
    (hx : x < m) (hR : m - x < R.length) :
    (reduceN cs limit q inPrev perms).selected =
      quotaNodes cs inPrev q ++ R.take (hiOf t R).length ++
        ((perms (eqOf t R).length).take (m - x - (hiOf t R).length)).map
          (fun j => ((R.drop (hiOf t R).length).take (eqOf t R).length).getD j default)
    ∧ (hiOf t R).length < m - x ∧ m - x ≤ (hiOf t R).length + (eqOf t R).length
    ∧ (hiOf t R).length + (eqOf t R).length ≤ R.length := by
  have hsorted : StakeSorted R := by rw [hRdef]; exact (restSorted_sorted cs inPrev q).stakeSorted
  have hsplit := stakeSorted_split t R hsorted
  have hyk : m - x - 1 < R.length := by omega
  have hidx := split_index t (hiOf t R) (eqOf t R) (loOf t R)
    (fun a ha => (mem_hiOf.mp ha).2) (fun a ha => (mem_loOf.mp ha).2) (m - x - 1)
    (by rw [← hsplit]; exact hyk) (by rw [← hsplit]; exact htdef.symm)
  have hne : eqOf t R ≠ [] := by
    intro h; rw [h] at hidx; simp at hidx; omega
  have hlen : (hiOf t R).length + (eqOf t R).length ≤ R.length := by
    have := congrArg List.length hsplit
    simp only [List.length_append] at this; omega
  have hloop := tieLoop_of_sorted R hsorted t hne
  generalize hnhi : (hiOf t R).length = nhi at *
  generalize hneq : (eqOf t R).length = neq at *
  refine ⟨?_, by omega, by omega, hlen⟩
  subst hRdef hxdef hmdef
  unfold reduceN
  have c1 : ¬ (quotaSize cs inPrev q ≤ min limit cs.length ∧
      (restSorted cs inPrev q).length ≤ min limit cs.length - quotaSize cs inPrev q) := by omega
  simp only [c1, hx, ↓reduceIte]
  rw [← htdef, hloop, pickLoop_eq]
  simp only [Option.getD_some]
  have he : nhi + neq - nhi = neq := by omega
  rw [he]
  have htl : ((List.drop nhi (restSorted cs inPrev q)).take neq).length = neq := by
    rw [List.length_take, List.length_drop]; omega
  simp only [htl, List.length_append, quotaNodes_length, List.length_take]
  have : min limit cs.length - (quotaSize cs inPrev q + min nhi (restSorted cs inPrev q).length)
      = min limit cs.length - quotaSize cs inPrev q - nhi := by
    have : min nhi (restSorted cs inPrev q).length = nhi := by omega
    rw [this]; omega
  rw [this]

theorem take_hi {t : Nat} {R : List Node} (hs : StakeSorted R) : R.take (hiOf t R).length = hiOf t R := by
  have h := stakeSorted_split t R hs
  generalize hiOf t R = A at *; generalize eqOf t R = B at *; generalize loOf t R = C at *
  subst h; rw [List.append_assoc]; exact List.take_left

theorem take_hi_eq {t : Nat} {R : List Node} (hs : StakeSorted R) :
    R.take ((hiOf t R).length + (eqOf t R).length) = hiOf t R ++ eqOf t R := by
  have h := stakeSorted_split t R hs
  generalize hiOf t R = A at *; generalize eqOf t R = B at *; generalize loOf t R = C at *
  subst h; rw [← List.length_append]; exact List.take_left

theorem drop_hi_take_eq {t : Nat} {R : List Node} (hs : StakeSorted R) :
    (R.drop (hiOf t R).length).take (eqOf t R).length = eqOf t R := by
  have h := stakeSorted_split t R hs
  generalize hiOf t R = A at *; generalize eqOf t R = B at *; generalize loOf t R = C at *
  subst h; rw [List.append_assoc, List.drop_left]; exact List.take_left

/-- the tie branch in terms of the three stake classes of the remaining candidates: everything above the cut-off
stake, then — among ALL candidates at the cut-off stake, in id order — those at the first positions of the permutation. -/
theorem reduceN_tie_closed (cs : List Node) (limit q : Nat) (inPrev : Nat → Bool) (perms : Nat → List Nat)
    (R : List Node) (hRdef : R = restSorted cs inPrev q)
    (x : Nat) (hxdef : x = quotaSize cs inPrev q)
    (m : Nat) (hmdef : m = min limit cs.length)
    (t : Nat) (htdef : t = (R.getD (m - x - 1) default).stake)
    (hx : x < m) (hR : m - x < R.length) :
    (reduceN cs limit q inPrev perms).selected =
      quotaNodes cs inPrev q ++ hiOf t R ++
        ((perms (eqOf t R).length).take (m - x - (hiOf t R).length)).map (fun j => (eqOf t R).getD j default)
    ∧ (hiOf t R).length < m - x ∧ m - x ≤ (hiOf t R).length + (eqOf t R).length := by
  obtain ⟨hsel, h1, h2, _⟩ := reduceN_tie_branch cs limit q inPrev perms R hRdef x hxdef m hmdef t htdef hx hR
  have hsorted : StakeSorted R := by rw [hRdef]; exact (restSorted_sorted cs inPrev q).stakeSorted
  rw [take_hi hsorted, drop_hi_take_eq hsorted] at hsel
  exact ⟨hsel, h1, h2⟩

theorem take_split (R : List Node) (s e : Nat) (h : s ≤ e) :
    R.take e = R.take s ++ (R.drop s).take (e - s) := by
  have : e = s + (e - s) := by omega
  conv => lhs; rw [this]
  exact List.take_add

/-! ### the picks of a valid permutation -/

theorem map_getD_range (l : List Node) : (List.range l.length).map (fun j => l.getD j default) = l := by
  apply List.ext_getElem?
  intro i
  by_cases h : i < l.length
  · simp [List.getElem?_range h, h, List.getD_eq_getElem?_getD]
  · have h' : l.length ≤ i := Nat.le_of_not_lt h
    simp [List.getElem?_eq_none, h']

/-- the picks made with a permutation of `0..len-1`: a rearrangement of the whole tie list, cut to `k`. -/
theorem picks_spec (tie : List Node) (p : List Nat) (hp : p.Perm (List.range tie.length)) (k : Nat) :
    ∃ full : List Node, full.Perm tie ∧ (p.take k).map (fun j => tie.getD j default) = full.take k := by
  refine ⟨p.map (fun j => tie.getD j default), ?_, List.map_take⟩
  have := hp.map (fun j => tie.getD j default)
  rw [map_getD_range] at this
  exact this

theorem picks_mem (tie : List Node) (p : List Nat) (hp : p.Perm (List.range tie.length)) (k : Nat) (a : Node)
    (ha : a ∈ (p.take k).map (fun j => tie.getD j default)) : a ∈ tie := by
  obtain ⟨full, hf, he⟩ := picks_spec tie p hp k
  rw [he] at ha
  exact hf.subset (List.mem_of_mem_take ha)

theorem picks_nodup (tie : List Node) (p : List Nat) (hp : p.Perm (List.range tie.length)) (k : Nat)
    (hn : tie.Nodup) : ((p.take k).map (fun j => tie.getD j default)).Nodup := by
  obtain ⟨full, hf, he⟩ := picks_spec tie p hp k
  rw [he]
  exact (List.take_sublist k full).nodup (hf.symm.nodup hn)

theorem picks_length (tie : List Node) (p : List Nat) (hp : p.Perm (List.range tie.length)) (k : Nat) :
    ((p.take k).map (fun j => tie.getD j default)).length = min k tie.length := by
  have := hp.length_eq
  simp only [List.length_range] at this
  simp [List.length_take, this]

end ZChain.Reduce
