import ZChain.Model.Genesis
import ZChain.Proofs.Ledger
namespace ZChain.Ledger

theorem applyWritesA_total (ws : List (Id × Nat)) : ∀ (a : Accts),
    (ws.map (·.1)).Nodup → (∀ i ∈ ws.map (·.1), (get a i).balance = 0) →
    total (applyWritesA a ws) = total a + (ws.map (·.2)).sum ∧
    (∀ j, j ∉ ws.map (·.1) → get (applyWritesA a ws) j = get a j) := by
  induction ws with
  | nil => intro a _ _; simp [applyWritesA]
  | cons w rest ih =>
    intro a hnd hz
    obtain ⟨i, v⟩ := w
    simp only [List.map_cons, List.nodup_cons] at hnd
    have hz0 : (get a i).balance = 0 := hz i (by simp)
    have hset := total_set a i ⟨v, 1⟩
    simp only at hset
    have hrest : ∀ k ∈ rest.map (·.1), (get (set a i ⟨v, 1⟩) k).balance = 0 := by
      intro k hk
      have hne : i ≠ k := fun e => hnd.1 (e ▸ hk)
      rw [get_set_ne _ _ _ _ hne]
      exact hz k (by simp [hk])
    obtain ⟨h1, h2⟩ := ih (set a i ⟨v, 1⟩) hnd.2 hrest
    refine ⟨?_, ?_⟩
    · show total (applyWritesA (set a i ⟨v, 1⟩) rest) = _
      rw [h1]; simp only [List.map_cons, List.sum_cons]; omega
    · intro j hj
      simp only [List.map_cons, List.mem_cons, not_or] at hj
      show get (applyWritesA (set a i ⟨v, 1⟩) rest) j = _
      rw [h2 j hj.2, get_set_ne _ _ _ _ (fun e => hj.1 e.symm)]

theorem genWrites_sum (sc : GenSC) (ws : List (Id × Nat)) (h : genWrites sc = some ws) :
    (ws.map (·.2)).sum = sc.tokens ∧ ws.map (·.1) = sc.clients.map (·.1) ++ [sc.id] := by
  unfold genWrites at h
  simp only at h
  split at h
  · simp at h
  · split at h
    · simp at h
    · injection h with h
      subst h
      simp only [List.map_append, List.sum_append, List.map_cons, List.map_nil, List.sum_cons, List.sum_nil]
      exact ⟨by omega, trivial⟩

theorem genesisGo_total (cfg : List GenSC) : ∀ (a : Accts) (tot : Nat) (a' : Accts) (tot' : Nat),
    genesisGo a tot cfg = some (a', tot') → (genIds cfg).Nodup → (∀ i ∈ genIds cfg, (get a i).balance = 0) →
    total a' + tot = total a + tot' := by
  induction cfg with
  | nil => intro a tot a' tot' h _ _; simp [genesisGo] at h; obtain ⟨rfl, rfl⟩ := h; rfl
  | cons sc rest ih =>
    intro a tot a' tot' h hnd hz
    unfold genesisGo at h
    split at h
    · simp at h
    · cases hw : genWrites sc with
      | none => simp [hw] at h
      | some ws =>
        simp only [hw] at h
        obtain ⟨hsum, hids⟩ := genWrites_sum sc ws hw
        have hgi : genIds (sc :: rest) = ws.map (·.1) ++ genIds rest := by
          simp [genIds, hids]
        rw [hgi] at hnd hz
        have hnd1 := (List.nodup_append.mp hnd)
        obtain ⟨h1, h2⟩ := applyWritesA_total ws a hnd1.1 (fun i hi => hz i (List.mem_append_left _ hi))
        have hz' : ∀ i ∈ genIds rest, (get (applyWritesA a ws) i).balance = 0 := by
          intro i hi
          have hni : i ∉ ws.map (·.1) := fun hc => (hnd1.2.2 i hc i hi) rfl
          rw [h2 i hni]; exact hz i (List.mem_append_right _ hi)
        have := ih (applyWritesA a ws) (tot + sc.tokens) a' tot' h hnd1.2.1 hz'
        omega

end ZChain.Ledger
