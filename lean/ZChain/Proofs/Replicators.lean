import ZChain.Model.Replicators
import ZChain.Proofs.NodePool
/-! Helper lemmas for C42 (core-only). -/
namespace ZChain.Replicators
open ZChain.NodePool

/-- descending by score. -/
def Desc (l : List Score) : Prop := l.Pairwise (fun a b => b.score ≤ a.score)

theorem le_scoreLess_iff (a b : Score) :
    Le scoreLess a b ↔ (b.score < a.score ∨ (a.score = b.score ∧ b.setIndex ≤ a.setIndex)) := by
  unfold Le scoreLess
  by_cases h : b.score = a.score
  · simp [h]
  · simp only [h, if_false, decide_eq_false_iff_not]
    omega

theorem scoreLess_asym (a b : Score) : scoreLess a b = true → scoreLess b a = false := by
  intro h
  have h1 : ¬ Le scoreLess b a := by unfold Le; rw [h]; simp
  rw [le_scoreLess_iff] at h1
  show Le scoreLess a b
  rw [le_scoreLess_iff]
  omega

theorem scoreLess_trans (a b c : Score) : Le scoreLess a b → Le scoreLess b c → Le scoreLess a c := by
  simp only [le_scoreLess_iff]; omega

/-- the scorer's sort yields a list descending by score. -/
theorem sorted_desc (l : List Score) : Desc (sortStable scoreLess l) := by
  have := sortStable_sorted scoreLess scoreLess_asym scoreLess_trans l
  apply List.Pairwise.imp _ this
  intro a b h
  rw [le_scoreLess_iff] at h
  omega

theorem scoreAll_nodes (hash : List Nat) : ∀ (pool : List Node) (i : Nat) (l : List Score),
    scoreAll hash pool i = some l → l.map (·.node) = pool ∧
      ∀ x ∈ l, scoreBytes x.node.idBytes hash = some x.score := by
  intro pool
  induction pool with
  | nil => intro i l h; simp [scoreAll] at h; subst h; simp
  | cons nd nds ih =>
    intro i l h
    unfold scoreAll at h
    cases hs : scoreBytes nd.idBytes hash with
    | none => simp [hs] at h
    | some s =>
      cases hr : scoreAll hash nds (i + 1) with
      | none => simp [hs, hr] at h
      | some rest =>
        simp only [hs, hr, Option.some.injEq] at h
        subst h
        obtain ⟨h1, h2⟩ := ih (i + 1) rest hr
        refine ⟨by simp [h1], ?_⟩
        intro x hx
        rcases List.mem_cons.mp hx with rfl | hx
        · exact hs
        · exact h2 x hx

/-- `scoreAll` is defined as soon as the hash is at least as long as every id. -/
theorem scoreBytes_some (id hash : List Nat) (h : id.length ≤ hash.length) : ∃ s, scoreBytes id hash = some s := by
  induction id generalizing hash with
  | nil => exact ⟨0, rfl⟩
  | cons b bs ih =>
    cases hash with
    | nil => simp at h
    | cons x xs =>
      obtain ⟨s, hs⟩ := ih xs (by simpa using h)
      exact ⟨popcount 8 (b ^^^ x) + s, by simp [scoreBytes, hs]⟩

theorem scoreAll_some (hash : List Nat) (pool : List Node) (i : Nat)
    (h : ∀ nd ∈ pool, nd.idBytes.length ≤ hash.length) : ∃ l, scoreAll hash pool i = some l := by
  induction pool generalizing i with
  | nil => exact ⟨[], rfl⟩
  | cons nd nds ih =>
    obtain ⟨s, hs⟩ := scoreBytes_some nd.idBytes hash (h nd (List.mem_cons_self ..))
    obtain ⟨r, hr⟩ := ih (i + 1) (fun x hx => h x (List.mem_cons_of_mem _ hx))
    exact ⟨⟨nd, s, i⟩ :: r, by simp [scoreAll, hs, hr]⟩

/-! ### the loops on a descending list -/

theorem topLoop_iff (m key : Nat) (sc : List Score) (hd : Desc sc) :
    topLoop m key sc = true ↔ ∃ x ∈ sc, x.node.key = key ∧ m ≤ x.score := by
  induction sc with
  | nil => simp [topLoop]
  | cons ns rest ih =>
    have hd' := List.pairwise_cons.mp hd
    unfold topLoop
    by_cases h1 : ns.score < m
    · simp only [h1, if_true, Bool.false_eq_true, false_iff]
      rintro ⟨x, hx, _, hxm⟩
      rcases List.mem_cons.mp hx with rfl | hx
      · omega
      · have := hd'.1 x hx; omega
    · simp only [h1, if_false]
      by_cases h2 : ns.node.key = key
      · simp only [h2, if_true, true_iff]
        exact ⟨ns, List.mem_cons_self .., h2, by omega⟩
      · simp only [h2, if_false]
        rw [ih hd'.2]
        constructor
        · rintro ⟨x, hx, h3, h4⟩; exact ⟨x, List.mem_cons_of_mem _ hx, h3, h4⟩
        · rintro ⟨x, hx, h3, h4⟩
          rcases List.mem_cons.mp hx with rfl | hx
          · exact absurd h3 h2
          · exact ⟨x, hx, h3, h4⟩

theorem topNodesLoop_spec (m key : Nat) (sc : List Score) (hd : Desc sc) :
    (topNodesLoop m key sc).2 = (sc.filter (fun x => decide (m ≤ x.score))).map (·.node) ∧
    (topNodesLoop m key sc).1 = topLoop m key sc := by
  induction sc with
  | nil => simp [topNodesLoop, topLoop]
  | cons ns rest ih =>
    have hd' := List.pairwise_cons.mp hd
    obtain ⟨ih1, ih2⟩ := ih hd'.2
    unfold topNodesLoop topLoop
    by_cases h1 : ns.score < m
    · simp only [h1, if_true]
      refine ⟨?_, by simp⟩
      have : (ns :: rest).filter (fun x => decide (m ≤ x.score)) = [] := by
        rw [List.filter_eq_nil_iff]
        intro x hx
        rcases List.mem_cons.mp hx with rfl | hx
        · simp; omega
        · have := hd'.1 x hx; simp; omega
      rw [this]; rfl
    · simp only [h1, if_false]
      have h1' : m ≤ ns.score := by omega
      constructor
      · simp only [List.filter_cons, h1', decide_true, if_true, List.map_cons]
        rw [ih1]
      · rw [ih2]
        by_cases h2 : ns.node.key = key
        · simp [h2]
        · simp [h2]

theorem mem_take_getElem {α : Type} {l : List α} {n : Nat} {x : α} (hx : x ∈ l.take n) :
    ∃ i, ∃ (h : i < l.length), i < n ∧ l[i] = x := by
  rcases List.mem_iff_getElem.mp hx with ⟨i, hi, rfl⟩
  have hi' : i < min n l.length := by simpa using hi
  exact ⟨i, by omega, by omega, by simp [List.getElem_take]⟩

theorem mem_drop_getElem {α : Type} {l : List α} {n : Nat} {x : α} (hx : x ∈ l.drop n) :
    ∃ i, ∃ (h : i < l.length), n ≤ i ∧ l[i] = x := by
  rcases List.mem_iff_getElem.mp hx with ⟨i, hi, rfl⟩
  have hi' : i < l.length - n := by simpa using hi
  exact ⟨n + i, by omega, by omega, by simp [List.getElem_drop]⟩

theorem filter_length_split {α : Type} (p : α → Bool) (l : List α) (n : Nat) :
    (l.filter p).length = ((l.take n).filter p).length + ((l.drop n).filter p).length := by
  rw [← List.length_append, ← List.filter_append, List.take_append_drop]

theorem desc_getElem {sc : List Score} (hd : Desc sc) {i j : Nat} (hij : i ≤ j) (hj : j < sc.length) :
    sc[j].score ≤ (sc[i]'(by omega)).score := by
  rcases Nat.lt_or_eq_of_le hij with h | h
  · exact (List.pairwise_iff_getElem.mp hd) i j (by omega) hj h
  · subst h; exact Nat.le_refl _

/-- the first `n` entries of a descending list all reach the score of entry `n-1`. -/
theorem filter_length_ge (sc : List Score) (hd : Desc sc) (n : Nat) (hn : 0 < n) (hl : n ≤ sc.length) :
    n ≤ (sc.filter (fun x => decide ((sc[n - 1]'(by omega)).score ≤ x.score))).length := by
  have hall : (sc.take n).filter (fun x => decide ((sc[n - 1]'(by omega)).score ≤ x.score)) = sc.take n := by
    rw [List.filter_eq_self]
    intro x hx
    obtain ⟨i, hi, hin, rfl⟩ := mem_take_getElem hx
    simp only [decide_eq_true_eq]
    exact desc_getElem hd (by omega) (by omega)
  have := filter_length_split (fun x => decide ((sc[n - 1]'(by omega)).score ≤ x.score)) sc n
  rw [this, hall, List.length_take]
  omega

/-- order-free description of the cut: a score `v` reaches the score of entry `n-1` of the descending list iff fewer
than `n` entries score strictly above `v`. -/
theorem reaches_iff_count (sc : List Score) (hd : Desc sc) (n : Nat) (hn : 0 < n) (hl : n ≤ sc.length) (v : Nat) :
    (sc[n - 1]'(by omega)).score ≤ v ↔ (sc.filter (fun y => decide (v < y.score))).length < n := by
  constructor
  · intro hv
    have hnil : (sc.drop (n - 1)).filter (fun y => decide (v < y.score)) = [] := by
      rw [List.filter_eq_nil_iff]
      intro x hx
      obtain ⟨i, hi, hin, rfl⟩ := mem_drop_getElem hx
      have := desc_getElem hd hin hi
      simp; omega
    have := filter_length_split (fun y => decide (v < y.score)) sc (n - 1)
    rw [this, hnil]
    have h1 := List.length_filter_le (fun y => decide (v < y.score)) (sc.take (n - 1))
    have h2 : (sc.take (n - 1)).length ≤ n - 1 := by rw [List.length_take]; omega
    simp only [List.length_nil]
    omega
  · intro hc
    apply Classical.byContradiction
    intro hv
    have hv' : v < (sc[n - 1]'(by omega)).score := by omega
    have hall : (sc.take n).filter (fun y => decide (v < y.score)) = sc.take n := by
      rw [List.filter_eq_self]
      intro x hx
      obtain ⟨i, hi, hin, rfl⟩ := mem_take_getElem hx
      have := desc_getElem hd (i := i) (j := n - 1) (by omega) (by omega)
      simp only [decide_eq_true_eq]; omega
    have := filter_length_split (fun y => decide (v < y.score)) sc n
    rw [this, hall, List.length_take] at hc
    omega

end ZChain.Replicators
