import ZChain.Model.FreeMarkers
/-! Lemmas about the free-storage marker book (core-only). The property theorems are in Props/C04.lean. -/
namespace ZChain.FreeMarkers

theorem find_put_eq (b : Book) (a : Assigner) : find (put b a) a.name = some a := by
  induction b with
  | nil => simp [put, find]
  | cons x rest ih =>
    unfold put
    by_cases h : x.name = a.name
    · simp [h, find]
    · simp [h, find, ih]

theorem find_put_ne (b : Book) (a : Assigner) (n : Nat) (h : a.name ≠ n) : find (put b a) n = find b n := by
  induction b with
  | nil => simp [put, find, h]
  | cons x rest ih =>
    unfold put
    by_cases hx : x.name = a.name
    · simp only [hx, if_true]
      unfold find
      have h1 : ¬ x.name = n := by rw [hx]; exact h
      simp [h, h1]
    · simp only [hx, if_false]
      unfold find
      by_cases hn : x.name = n
      · simp [hn]
      · simp [hn, ih]

theorem find_name (b : Book) (n : Nat) (a : Assigner) (h : find b n = some a) : a.name = n := by
  induction b with
  | nil => simp [find] at h
  | cons x rest ih =>
    unfold find at h
    by_cases hx : x.name = n
    · simp [hx] at h; rw [← h]; exact hx
    · simp [hx] at h; exact ih h

/-- updating a record that keeps (or extends) its nonce list keeps every redeemed nonce of every assigner. -/
theorem redeemedOf_put (b : Book) (a a' : Assigner) (n : Nat) (x : Int)
    (hf : find b a.name = some a) (hn : a'.name = a.name) (hsub : ∀ y ∈ a.nonces, y ∈ a'.nonces)
    (hx : x ∈ redeemedOf b n) : x ∈ redeemedOf (put b a') n := by
  unfold redeemedOf at hx ⊢
  by_cases h : a'.name = n
  · rw [← h, find_put_eq]
    rw [← h, hn, hf] at hx
    exact hsub x hx
  · rw [find_put_ne b a' n h]; exact hx

theorem register_keeps (b : Book) (o : Bool) (m k i t : Nat) (n : Nat) (x : Int)
    (hx : x ∈ redeemedOf b n) : x ∈ redeemedOf (register b o m k i t).1 n := by
  unfold register
  split
  · exact hx
  · split
    · exact hx
    · split
      · exact hx
      · cases hf : find b m with
        | some a =>
          simp only
          have hn := find_name b m a hf
          exact redeemedOf_put b a { a with key := k, individual := i, total := t } n x (by rw [hn]; exact hf) rfl (fun y hy => hy) hx
        | none =>
          simp only
          unfold redeemedOf at hx ⊢
          by_cases h : m = n
          · subst h; rw [hf] at hx; simp at hx
          · rw [find_put_ne b _ n (by simpa using h)]; exact hx

theorem redeem_keeps (b : Book) (m k : Nat) (i r : Bool) (c : Nat) (y : Int) (l : Bool) (n : Nat) (x : Int)
    (hx : x ∈ redeemedOf b n) : x ∈ redeemedOf (redeem b m k i r c y l).1 n := by
  unfold redeem
  split
  · exact hx
  · cases hf : find b m with
    | none => exact hx
    | some a =>
      simp only
      split
      · exact hx
      · split
        · exact hx
        · split
          · exact hx
          · split
            · exact hx
            · split
              · exact hx
              · have hn := find_name b m a hf
                exact redeemedOf_put b a { a with redeemed := a.redeemed + c, nonces := a.nonces ++ [y] } n x
                  (by rw [hn]; exact hf) rfl (fun z hz => List.mem_append_left _ hz) hx

theorem apply_keeps (b : Book) (o : Op) (n : Nat) (x : Int) (hx : x ∈ redeemedOf b n) :
    x ∈ redeemedOf (apply b o) n := by
  cases o with
  | reg o m k i t => exact register_keeps b o m k i t n x hx
  | red m k i r c y l => exact redeem_keeps b m k i r c y l n x hx

theorem run_keeps (ops : List Op) : ∀ (b : Book) (n : Nat) (x : Int), x ∈ redeemedOf b n → x ∈ redeemedOf (run b ops) n := by
  induction ops with
  | nil => intro b n x h; exact h
  | cons o rest ih => intro b n x h; exact ih (apply b o) n x (apply_keeps b o n x h)

/-- an accepted redemption appends its nonce to the assigner's record. -/
theorem redeem_accept (b : Book) (m k : Nat) (i r : Bool) (c : Nat) (y : Int) (l : Bool)
    (h : (redeem b m k i r c y l).2 = .accept) :
    ∃ a, find b m = some a ∧
      (redeem b m k i r c y l).1 = put b { a with redeemed := a.redeemed + c, nonces := a.nonces ++ [y] } := by
  unfold redeem at h ⊢
  by_cases hr : (!r) = true
  · simp [hr] at h
  · simp only [hr, ↓reduceIte] at h ⊢
    cases hf : find b m with
    | none => simp [hf] at h
    | some a =>
      simp only [hf] at h ⊢
      by_cases h1 : (!(decide (k = a.key) && i)) = true
      · simp [h1] at h
      · simp only [h1] at h ⊢
        by_cases h2 : a.redeemed + c > a.total
        · simp [h2] at h
        · simp only [h2, ↓reduceIte] at h ⊢
          by_cases h3 : c > a.individual
          · simp [h3] at h
          · simp only [h3, ↓reduceIte] at h ⊢
            cases h4 : a.nonces.contains y with
            | true => (try rw [h4] at h); simp at h
            | false =>
              (try rw [h4] at h)
              cases l with
              | false => simp at h
              | true => exact ⟨a, rfl, by simp⟩

/-- an accepted redemption records its nonce. -/
theorem accept_records (b : Book) (m k : Nat) (i r : Bool) (c : Nat) (y : Int) (l : Bool)
    (h : (redeem b m k i r c y l).2 = .accept) : y ∈ redeemedOf (redeem b m k i r c y l).1 m := by
  obtain ⟨a, hf, he⟩ := redeem_accept b m k i r c y l h
  rw [he]
  have hn := find_name b m a hf
  subst hn
  unfold redeemedOf
  have := find_put_eq b { a with redeemed := a.redeemed + c, nonces := a.nonces ++ [y] }
  simp only at this
  rw [this]
  simp

/-- a marker whose nonce is in the assigner's redeemed list is never accepted. -/
theorem used_nonce_refused (b : Book) (m k : Nat) (i r : Bool) (c : Nat) (y : Int) (l : Bool)
    (hy : y ∈ redeemedOf b m) : (redeem b m k i r c y l).2 ≠ .accept := by
  unfold redeem
  split
  · simp
  · cases hf : find b m with
    | none => simp
    | some a =>
      simp only
      unfold redeemedOf at hy
      rw [hf] at hy
      split
      · simp
      · split
        · simp
        · split
          · simp
          · split
            · simp
            · rename_i hc
              exact absurd (List.contains_iff_mem.mpr hy) (by simpa using hc)

theorem timesHonoured_used (ops : List Op) : ∀ (b : Book) (n : Nat) (x : Int), x ∈ redeemedOf b n →
    timesHonoured b n x ops = 0 := by
  induction ops with
  | nil => intro b n x _; rfl
  | cons o rest ih =>
    intro b n x hx
    unfold timesHonoured
    rw [ih (apply b o) n x (apply_keeps b o n x hx)]
    have : honours b n x o = false := by
      cases o with
      | reg _ _ _ _ _ => rfl
      | red m k i r c y l =>
        unfold honours
        by_cases hm : m = n
        · by_cases hyx : y = x
          · subst hm; subst hyx
            have := used_nonce_refused b m k i r c y l hx
            simp [this]
          · simp [hyx]
        · simp [hm]
    simp [this]

theorem timesHonoured_le_one (ops : List Op) : ∀ (b : Book) (n : Nat) (x : Int), timesHonoured b n x ops ≤ 1 := by
  induction ops with
  | nil => intro b n x; simp [timesHonoured]
  | cons o rest ih =>
    intro b n x
    unfold timesHonoured
    by_cases hh : honours b n x o = true
    · -- honoured now: the nonce is recorded, so never again
      cases o with
      | reg _ _ _ _ _ => simp [honours] at hh
      | red m k i r c y l =>
        unfold honours at hh
        simp only [Bool.and_eq_true, decide_eq_true_eq] at hh
        obtain ⟨⟨hm, hy⟩, hacc⟩ := hh
        subst hm; subst hy
        have hrec := accept_records b m k i r c y l hacc
        have h0 := timesHonoured_used rest (apply b (.red m k i r c y l)) m y hrec
        rw [h0]
        split <;> omega
    · have : honours b n x o = false := by simpa using hh
      simp only [this, Bool.false_eq_true, if_false]
      have := ih (apply b o) n x
      omega

end ZChain.FreeMarkers
