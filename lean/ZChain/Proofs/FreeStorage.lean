import ZChain.Model.FreeStorage
import ZChain.Proofs.Coin
/-!
Helper lemmas for C24 (`Props/C24.lean`): association lists, inversion of successful grants and registrations,
what each operation leaves alone.
-/
namespace ZChain.FreeStorage
open ZChain ZChain.Generated.C24

section AList
variable {κ α : Type} [DecidableEq κ]

theorem aGet_aSet_same (l : List (κ × α)) (k : κ) (v : α) : aGet (aSet l k v) k = some v := by
  induction l with
  | nil => simp [aSet, aGet]
  | cons x xs ih =>
    obtain ⟨k', w⟩ := x
    by_cases hk : k' = k
    · simp [aSet, aGet, hk]
    · simp [aSet, aGet, hk, ih]

theorem aGet_aSet_other (l : List (κ × α)) (k k' : κ) (v : α) (h : k' ≠ k) : aGet (aSet l k v) k' = aGet l k' := by
  induction l with
  | nil => simp [aSet, aGet]; intro h'; exact absurd h'.symm h
  | cons x xs ih =>
    obtain ⟨k0, w⟩ := x
    by_cases hk : k0 = k
    · subst hk
      have : ¬ k0 = k' := fun e => h e.symm
      simp [aSet, aGet, this]
    · by_cases hk' : k0 = k'
      · subst hk'
        simp [aSet, aGet, hk]
      · simp [aSet, aGet, hk, hk', ih]

end AList

/-- the signed message, as extracted: recipient, the amount at six decimals, the nonce, the blobber ids. -/
theorem markerMsg_eq {F : Type} (m : Marker F) :
    markerMsg m = (fmt6 m.amount.toF64).map
      (fun x => [(m.recipient : Int), x, m.nonce] ++ m.blobbers.map (fun b => Int.ofNat b)) := by
  have h : ∀ o : Option Int,
      (([(MField.Recipient, Verb.s), (.FreeTokens, .f), (.Nonce, .d), (.Blobbers, .s)].mapM
        (fun p => match p with
          | (MField.FreeTokens, Verb.f) => o.map (fun x => [x])
          | q => argVals m q)).map List.flatten) =
      o.map (fun x => [(m.recipient : Int), x, m.nonce] ++ m.blobbers.map (fun b => Int.ofNat b)) := by
    intro o
    cases o <;> simp [argVals]
  exact h (fmt6 m.amount.toF64)

theorem bind_ok {ε α β : Type} (x : Except ε α) (f : α → Except ε β) (b : β) :
    (x >>= f) = .ok b ↔ ∃ a, x = .ok a ∧ f a = .ok b := by
  cases x with
  | error e => simp [bind, Except.bind]
  | ok a => simp [bind, Except.bind]

theorem bind_unit_ok {ε β : Type} (x : Except ε Unit) (f : Unit → Except ε β) (b : β) :
    (x >>= f) = .ok b ↔ x = .ok () ∧ f () = .ok b := by
  cases x with
  | error e => simp [bind, Except.bind]
  | ok a => simp [bind, Except.bind]

theorem exists_unit' {p : Unit → Prop} : (∃ u, p u) ↔ p () := ⟨fun ⟨(), h⟩ => h, fun h => ⟨(), h⟩⟩

theorem need_ok (c : Bool) (e : Err) (u : Unit) : need c e = .ok u ↔ c = true := by
  cases c <;> simp [need]

theorem getOr_ok {α : Type} (o : Option α) (e : Err) (a : α) : getOr o e = .ok a ↔ o = some a := by
  cases o <;> simp [getOr]

theorem mapErr_ok {ε α : Type} (x : Except ε α) (e : Err) (a : α) : mapErr x e = .ok a ↔ x = .ok a := by
  cases x <;> simp [mapErr]

section
variable {F : Type} [Mul F] [Zero F] [DecidableEq F]

theorem validate_ok {cr : Crypto F} {a : Assigner} {m : Marker F} {value : Nat} (h : validate cr a m value = .ok ()) :
    verifySig cr a m = true ∧ a.redeemed + value ≤ a.totLimit ∧ a.redeemed + value < Coin.U64 ∧
      value ≤ a.indLimit ∧ m.nonce ∉ a.nonces := by
  unfold validate at h
  simp only [bind_ok, need_ok, exists_unit', mapErr_ok, Coin.addCoin_ok_iff, decide_eq_true_eq, Bool.not_eq_true',
    decide_eq_false_iff_not] at h
  obtain ⟨hs, nt, ⟨hnt, hlt⟩, htot, hind, hn⟩ := h
  subst hnt
  exact ⟨hs, htot, hlt, hind, hn⟩

/-- everything a successful grant went through. -/
structure GrantOk (cr : Crypto F) (bok : List Nat → Bool) (s : St) (sender : Nat) (m : Marker F) (s' : St) : Prop where
  recipient : sender = m.recipient
  ex : ∃ a coin readT writeT,
    aGet s.assigners m.assigner = some a ∧ parseZCN m.amount = .ok coin ∧ validate cr a m coin = .ok () ∧
    a.redeemed + coin < Coin.U64 ∧
    Coin.float64ToCoin (F64.mul (Coin.toFloat64 coin) s.cfg.readFraction) = .ok readT ∧
    readT ≤ coin ∧ writeT = coin - readT ∧ bok m.blobbers = true ∧
    (writeT = 0 ∨ (aGet s.wallets s.cfg.owner).isSome ∧ writeT ≤ (aGet s.wallets s.cfg.owner).getD 0) ∧
    s.cfg.allocCost ≤ writeT ∧ (aGet s.pools m.recipient).getD 0 + readT < Coin.U64 ∧
    s' = { s with
      assigners := aSet s.assigners m.assigner { a with redeemed := a.redeemed + coin, nonces := a.nonces ++ [m.nonce] }
      wallets := if writeT = 0 then s.wallets else aSet s.wallets s.cfg.owner ((aGet s.wallets s.cfg.owner).getD 0 - writeT)
      scWallet := s.scWallet + writeT
      pools := aSet s.pools m.recipient ((aGet s.pools m.recipient).getD 0 + readT)
      allocs := s.allocs ++ [(m.recipient, writeT)] }

theorem freeAlloc_inv {cr : Crypto F} {bok : List Nat → Bool} {s s' : St} {sender : Nat} {m : Marker F}
    (h : freeAlloc cr bok s sender m = .ok s') : GrantOk cr bok s sender m s' := by
  unfold freeAlloc at h
  simp only [bind_ok, need_ok, exists_unit', getOr_ok, mapErr_ok, Coin.addCoin_ok_iff, Coin.minusCoin_ok_iff,
    decide_eq_true_eq, pure, Except.pure, Except.ok.injEq] at h
  obtain ⟨hrec, a, ha, coin, hcoin, hval, nr, ⟨hnr, hnrlt⟩, readT, hread, writeT, ⟨hw, hwle⟩, hbok, hown, hcost, pool, ⟨hpool, hpoollt⟩, hs⟩ := h
  subst hnr; subst hw; subst hpool
  exact ⟨hrec, a, coin, readT, coin - readT, ha, hcoin, hval, hnrlt, hread, hwle, rfl, hbok, hown, hcost, hpoollt, hs.symm⟩

end

/-- the record a registration starts from: the stored one, or a fresh one. -/
def baseRecord (s : St) (name pk : Nat) : Assigner := (aGet s.assigners name).getD ⟨pk, 0, 0, 0, []⟩

/-- a successful registration. -/
theorem addAssigner_inv {s s' : St} {sender name pk : Nat} {ind tot : Dec} (h : addAssigner s sender name pk ind tot = .ok s') :
    sender = s.cfg.owner ∧ ∃ newTot newInd, limitCoin tot = .ok newTot ∧ newTot ≤ s.cfg.maxTot ∧
      limitCoin ind = .ok newInd ∧ newInd ≤ s.cfg.maxInd ∧
      s' = { s with assigners := aSet s.assigners name { baseRecord s name pk with pk := pk, totLimit := newTot, indLimit := newInd } } := by
  unfold addAssigner at h
  simp only [bind_ok, need_ok, exists_unit', mapErr_ok, decide_eq_true_eq, pure, Except.pure, Except.ok.injEq] at h
  obtain ⟨hs, nt, hnt, hmt, ni, hni, hmi, hst⟩ := h
  exact ⟨hs, nt, ni, hnt, hmt, hni, hmi, hst.symm⟩

section
variable {F : Type} [Mul F] [Zero F] [DecidableEq F]

theorem step_free_ok {cr : Crypto F} {bok : List Nat → Bool} {s s' : St} {sender : Nat} {m : Marker F}
    (h : freeAlloc cr bok s sender m = .ok s') : step cr bok s (.free sender m) = (s', true) := by simp [step, h]

theorem step_free_err {cr : Crypto F} {bok : List Nat → Bool} {s : St} {sender : Nat} {m : Marker F} {e : Err}
    (h : freeAlloc cr bok s sender m = .error e) : step cr bok s (.free sender m) = (s, false) := by simp [step, h]

theorem step_add_ok {cr : Crypto F} {bok : List Nat → Bool} {s s' : St} {sender name pk : Nat} {ind tot : Dec}
    (h : addAssigner s sender name pk ind tot = .ok s') : step cr bok s (.add sender name pk ind tot) = (s', true) := by
  simp [step, h]

theorem step_add_err {cr : Crypto F} {bok : List Nat → Bool} {s : St} {sender name pk : Nat} {ind tot : Dec} {e : Err}
    (h : addAssigner s sender name pk ind tot = .error e) : step cr bok s (.add sender name pk ind tot) = (s, false) := by
  simp [step, h]

end

/-- the redeemed nonces of an assigner (none registered: none). -/
def noncesOf (s : St) (k : Nat) : List Int := ((aGet s.assigners k).map (·.nonces)).getD []

/-- the redeemed total of an assigner. -/
def redeemedOf (s : St) (k : Nat) : Nat := ((aGet s.assigners k).map (·.redeemed)).getD 0

end ZChain.FreeStorage
