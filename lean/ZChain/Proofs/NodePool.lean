import ZChain.Model.NodePool
/-! Helper lemmas: the stable insertion sort, and the canonical form of a node pool (used by C42 and C35). Core-only. -/
namespace ZChain.NodePool

/-! ### sortStable: a sorted permutation of its input -/

theorem insertBy_perm {α : Type} (less : α → α → Bool) (x : α) (l : List α) :
    (insertBy less x l).Perm (x :: l) := by
  induction l with
  | nil => exact List.Perm.refl _
  | cons y ys ih =>
    unfold insertBy
    split
    · exact (List.Perm.cons y ih).trans (List.Perm.swap x y ys)
    · exact List.Perm.refl _

theorem sortStable_perm {α : Type} (less : α → α → Bool) (l : List α) : (sortStable less l).Perm l := by
  induction l with
  | nil => exact List.Perm.refl _
  | cons x xs ih =>
    show (insertBy less x (sortStable less xs)).Perm (x :: xs)
    exact (insertBy_perm less x _).trans (List.Perm.cons x ih)

theorem mem_sortStable {α : Type} (less : α → α → Bool) (l : List α) (x : α) :
    x ∈ sortStable less l ↔ x ∈ l := (sortStable_perm less l).mem_iff

theorem length_sortStable {α : Type} (less : α → α → Bool) (l : List α) :
    (sortStable less l).length = l.length := (sortStable_perm less l).length_eq

/-- `a` may stand before `b`. -/
def Le {α : Type} (less : α → α → Bool) (a b : α) : Prop := less b a = false

theorem insertBy_sorted {α : Type} (less : α → α → Bool)
    (hasym : ∀ a b, less a b = true → less b a = false)
    (htrans : ∀ a b c, Le less a b → Le less b c → Le less a c)
    (x : α) (l : List α) (hs : l.Pairwise (Le less)) : (insertBy less x l).Pairwise (Le less) := by
  induction l with
  | nil => simp [insertBy]
  | cons y ys ih =>
    have hs' := List.pairwise_cons.mp hs
    unfold insertBy
    split
    · rename_i hlt
      refine List.pairwise_cons.mpr ⟨?_, ih hs'.2⟩
      intro z hz
      rcases List.mem_cons.mp ((insertBy_perm less x ys).mem_iff.mp hz) with rfl | hz
      · exact hasym _ _ hlt
      · exact hs'.1 z hz
    · rename_i hnl
      have hxy : Le less x y := by simpa [Le] using hnl
      refine List.pairwise_cons.mpr ⟨?_, hs⟩
      intro z hz
      rcases List.mem_cons.mp hz with rfl | hz
      · exact hxy
      · exact htrans _ _ _ hxy (hs'.1 z hz)

theorem sortStable_sorted {α : Type} (less : α → α → Bool)
    (hasym : ∀ a b, less a b = true → less b a = false)
    (htrans : ∀ a b c, Le less a b → Le less b c → Le less a c)
    (l : List α) : (sortStable less l).Pairwise (Le less) := by
  induction l with
  | nil => exact List.Pairwise.nil
  | cons x xs ih => exact insertBy_sorted less hasym htrans x _ ih

/-- a list that is already sorted is left as it is. -/
theorem sortStable_of_sorted {α : Type} (less : α → α → Bool) (l : List α) (hs : l.Pairwise (Le less)) :
    sortStable less l = l := by
  induction l with
  | nil => rfl
  | cons x xs ih =>
    have hs' := List.pairwise_cons.mp hs
    show insertBy less x (sortStable less xs) = x :: xs
    rw [ih hs'.2]
    cases xs with
    | nil => rfl
    | cons y ys =>
      have : less y x = false := hs'.1 y (List.mem_cons_self ..)
      simp [insertBy, this]

/-! ### strictly ascending lists are determined by their members -/

theorem asc_ext {α : Type} (f : α → Nat) :
    ∀ (l1 l2 : List α), l1.Pairwise (fun a b => f a < f b) → l2.Pairwise (fun a b => f a < f b) →
      (∀ x, x ∈ l1 ↔ x ∈ l2) → l1 = l2 := by
  intro l1
  induction l1 with
  | nil =>
    intro l2 _ _ h
    cases l2 with
    | nil => rfl
    | cons b t => exact absurd ((h b).mpr (List.mem_cons_self ..)) (by simp)
  | cons a t1 ih =>
    intro l2 h1 h2 h
    cases l2 with
    | nil => exact absurd ((h a).mp (List.mem_cons_self ..)) (by simp)
    | cons b t2 =>
      have h1' := List.pairwise_cons.mp h1
      have h2' := List.pairwise_cons.mp h2
      have hab : a = b := by
        rcases List.mem_cons.mp ((h a).mp (List.mem_cons_self ..)) with e | ha
        · exact e
        · rcases List.mem_cons.mp ((h b).mpr (List.mem_cons_self ..)) with e | hb
          · exact e.symm
          · have := h1'.1 b hb; have := h2'.1 a ha; omega
      subst hab
      congr 1
      apply ih t2 h1'.2 h2'.2
      intro x
      constructor
      · intro hx
        rcases List.mem_cons.mp ((h x).mp (List.mem_cons_of_mem _ hx)) with e | hx2
        · subst e; have := h1'.1 x hx; omega
        · exact hx2
      · intro hx
        rcases List.mem_cons.mp ((h x).mpr (List.mem_cons_of_mem _ hx)) with e | hx1
        · subst e; have := h2'.1 x hx; omega
        · exact hx1

/-! ### AddNode -/

def KeyAsc (l : List Node) : Prop := l.Pairwise (fun a b => a.key < b.key)

theorem keyLess_asym (a b : Node) : keyLess a b = true → keyLess b a = false := by
  unfold keyLess; simp; omega

theorem keyLess_trans (a b c : Node) : Le keyLess a b → Le keyLess b c → Le keyLess a c := by
  unfold Le keyLess; simp; omega

theorem mem_replaceFirst_of_any (n : Node) (l : List Node) (hk : KeyAsc l)
    (h : l.any (fun x => x.key = n.key) = true) (x : Node) :
    x ∈ replaceFirst n l ↔ x = n ∨ (x ∈ l ∧ x.key ≠ n.key) := by
  induction l with
  | nil => simp at h
  | cons y ys ih =>
    have hk' := List.pairwise_cons.mp hk
    unfold replaceFirst
    by_cases hy : y.key = n.key
    · simp only [hy, if_true, List.mem_cons]
      constructor
      · rintro (h1 | h1)
        · exact Or.inl h1
        · refine Or.inr ⟨Or.inr h1, ?_⟩
          have := hk'.1 x h1; omega
      · rintro (h1 | ⟨h1 | h1, h2⟩)
        · exact Or.inl h1
        · subst h1; exact absurd hy h2
        · exact Or.inr h1
    · simp only [hy, if_false, List.mem_cons]
      have h' : ys.any (fun x => x.key = n.key) = true := by
        simp only [List.any_cons, hy, decide_false, Bool.false_or] at h; exact h
      rw [ih hk'.2 h']
      constructor
      · rintro (h1 | h1 | ⟨h1, h2⟩)
        · subst h1; exact Or.inr ⟨Or.inl rfl, hy⟩
        · exact Or.inl h1
        · exact Or.inr ⟨Or.inr h1, h2⟩
      · rintro (h1 | ⟨h1 | h1, h2⟩)
        · exact Or.inr (Or.inl h1)
        · exact Or.inl h1
        · exact Or.inr (Or.inr ⟨h1, h2⟩)

theorem replaceFirst_keys (n : Node) (l : List Node) :
    (replaceFirst n l).map (·.key) = l.map (·.key) := by
  induction l with
  | nil => rfl
  | cons y ys ih =>
    unfold replaceFirst
    by_cases hy : y.key = n.key
    · simp [hy]
    · simp only [hy, if_false, List.map_cons]; rw [ih]

theorem keyAsc_iff_map (l : List Node) : KeyAsc l ↔ (l.map (·.key)).Pairwise (· < ·) := by
  unfold KeyAsc; rw [List.pairwise_map]

/-- `AddNode` keeps the slice strictly ascending by key; its members are the old ones with another key, plus the
new node. -/
theorem addNode_spec (l : List Node) (n : Node) (hk : KeyAsc l) :
    KeyAsc (addNode l n) ∧ ∀ x, x ∈ addNode l n ↔ x = n ∨ (x ∈ l ∧ x.key ≠ n.key) := by
  unfold addNode
  simp only
  by_cases hany : l.any (fun x => x.key = n.key) = true
  · simp only [hany, if_true]
    have hasc : KeyAsc (replaceFirst n l) := by
      rw [keyAsc_iff_map, replaceFirst_keys, ← keyAsc_iff_map]; exact hk
    have hle : (replaceFirst n l).Pairwise (Le keyLess) := by
      apply List.Pairwise.imp _ hasc
      intro a b hab; unfold Le keyLess; simp; omega
    rw [sortStable_of_sorted _ _ hle]
    exact ⟨hasc, mem_replaceFirst_of_any n l hk hany⟩
  · simp only [hany]
    have hnone : ∀ x ∈ l, x.key ≠ n.key := by
      intro x hx hxe
      apply hany
      simp only [List.any_eq_true, decide_eq_true_eq]
      exact ⟨x, hx, hxe⟩
    have hmem : ∀ x, x ∈ sortStable keyLess (l ++ [n]) ↔ x = n ∨ (x ∈ l ∧ x.key ≠ n.key) := by
      intro x
      rw [mem_sortStable]
      simp only [List.mem_append, List.mem_singleton]
      constructor
      · rintro (h | h)
        · exact Or.inr ⟨h, hnone x h⟩
        · exact Or.inl h
      · rintro (h | h)
        · exact Or.inr h
        · exact Or.inl h.1
    refine ⟨?_, hmem⟩
    -- sorted by ≤ and the keys are pairwise different ⇒ strictly ascending
    have hs := sortStable_sorted keyLess keyLess_asym keyLess_trans (l ++ [n])
    have hnd : (l ++ [n]).Pairwise (fun a b => a.key ≠ b.key) := by
      rw [List.pairwise_append]
      refine ⟨List.Pairwise.imp (fun h => Nat.ne_of_lt h) hk, by simp, ?_⟩
      intro a ha b hb
      simp only [List.mem_singleton] at hb
      subst hb; exact hnone a ha
    have hnd' : (sortStable keyLess (l ++ [n])).Pairwise (fun a b => a.key ≠ b.key) :=
      (sortStable_perm keyLess (l ++ [n])).symm.pairwise hnd (fun h => fun e => h e.symm)
    unfold KeyAsc
    have := List.Pairwise.and hs hnd'
    apply List.Pairwise.imp _ this
    intro a b ⟨h1, h2⟩
    unfold Le keyLess at h1
    simp at h1
    omega

/-- inputs in which a key determines the node (its `idBytes`): the same node object data under the same id. -/
def WellFormed (l : List Node) : Prop := ∀ a ∈ l, ∀ b ∈ l, a.key = b.key → a = b

theorem poolOf_spec_aux (l : List Node) : ∀ (p : List Node), KeyAsc p → WellFormed (p ++ l) →
    KeyAsc (l.foldl addNode p) ∧ ∀ x, x ∈ l.foldl addNode p ↔ x ∈ p ∨ x ∈ l := by
  induction l with
  | nil => intro p hp _; simp; exact hp
  | cons n ns ih =>
    intro p hp hwf
    obtain ⟨h1, h2⟩ := addNode_spec p n hp
    have hwf' : WellFormed (addNode p n ++ ns) := by
      intro a ha b hb hab
      apply hwf a _ b _ hab
      · rcases List.mem_append.mp ha with ha | ha
        · rcases (h2 a).mp ha with rfl | ⟨ha, _⟩
          · simp
          · exact List.mem_append_left _ ha
        · exact List.mem_append_right _ (List.mem_cons_of_mem _ ha)
      · rcases List.mem_append.mp hb with hb | hb
        · rcases (h2 b).mp hb with rfl | ⟨hb, _⟩
          · simp
          · exact List.mem_append_left _ hb
        · exact List.mem_append_right _ (List.mem_cons_of_mem _ hb)
    obtain ⟨h3, h4⟩ := ih (addNode p n) h1 hwf'
    refine ⟨h3, ?_⟩
    intro x
    show x ∈ ns.foldl addNode (addNode p n) ↔ _
    rw [h4, h2]
    constructor
    · rintro ((h | ⟨h, _⟩) | h)
      · exact Or.inr (h ▸ List.mem_cons_self ..)
      · exact Or.inl h
      · exact Or.inr (List.mem_cons_of_mem _ h)
    · rintro (h | h)
      · by_cases hk : x.key = n.key
        · have : x = n := hwf x (List.mem_append_left _ h) n (by simp) hk
          exact Or.inl (Or.inl this)
        · exact Or.inl (Or.inr ⟨h, hk⟩)
      · rcases List.mem_cons.mp h with h | h
        · exact Or.inl (Or.inl h)
        · exact Or.inr h

/-- the pool built from any insertion sequence: strictly ascending by key, members = the inserted nodes. -/
theorem poolOf_spec (l : List Node) (hwf : WellFormed l) :
    KeyAsc (poolOf l) ∧ ∀ x, x ∈ poolOf l ↔ x ∈ l := by
  have := poolOf_spec_aux l [] List.Pairwise.nil (by simpa using hwf)
  exact ⟨this.1, fun x => by rw [poolOf, this.2]; simp⟩

/-- **positions_order_independent**: two insertion sequences with the same nodes (any order, any repetitions) build
the same `Nodes` slice — hence every node gets the same `SetIndex`. -/
theorem poolOf_order_independent (l1 l2 : List Node) (hwf : WellFormed l1) (h : ∀ x, x ∈ l1 ↔ x ∈ l2) :
    poolOf l1 = poolOf l2 := by
  have hwf2 : WellFormed l2 := fun a ha b hb => hwf a ((h a).mpr ha) b ((h b).mpr hb)
  obtain ⟨a1, m1⟩ := poolOf_spec l1 hwf
  obtain ⟨a2, m2⟩ := poolOf_spec l2 hwf2
  apply asc_ext (fun (n : Node) => n.key) _ _ a1 a2
  intro x; rw [m1, m2, h]

end ZChain.NodePool
