import ZChain.Model.Notarize
import Mathlib.Algebra.Field.Basic
import Mathlib.Tactic.Ring
/-! Helper lemmas for C31 about `Model/Notarize`. -/
namespace ZChain.Notarize
open ZChain.Alg ZChain.Agg
variable {F : Type} [Field F] [DecidableEq F]

/-- a ticket is valid for the message point `h` w.r.t. the miner pool `pool` of the round's magic block (`pool v` = the
key of miner `v`, `none` for anybody else): its verifier is a miner of that magic block and the signature is that
miner's signature on `h`. -/
def ValidT (pool : Nat → Option F) (h : F) (t : Ticket F) : Prop := ∃ pk, pool t.verifier = some pk ∧ t.sig = pk * h

omit [Field F] [DecidableEq F] in
theorem mergeFold_spec (P : Ticket F → Prop) (recv acc : List (Ticket F))
    (ha : ∀ t ∈ acc, P t) (hr : ∀ t ∈ recv, P t) :
    ∀ t ∈ recv.foldl (fun acc t => if acc.any (·.verifier == t.verifier) then acc else acc ++ [t]) acc, P t := by
  induction recv generalizing acc with
  | nil => simpa using ha
  | cons x xs ih =>
    simp only [List.foldl_cons]
    apply ih
    · split
      · exact ha
      · intro t ht
        rcases List.mem_append.mp ht with h | h
        · exact ha t h
        · rw [List.mem_singleton.mp h]; exact hr x List.mem_cons_self
    · intro t ht; exact hr t (List.mem_cons_of_mem _ ht)

omit [Field F] [DecidableEq F] in
theorem mergeFold_nodup (recv acc : List (Ticket F)) (ha : (acc.map (·.verifier)).Nodup) :
    ((recv.foldl (fun acc t => if acc.any (·.verifier == t.verifier) then acc else acc ++ [t]) acc).map
      (·.verifier)).Nodup := by
  induction recv generalizing acc with
  | nil => simpa using ha
  | cons x xs ih =>
    simp only [List.foldl_cons]
    apply ih
    by_cases hx : acc.any (·.verifier == x.verifier) = true
    · rw [if_pos hx]; exact ha
    · rw [if_neg hx]
      rw [List.map_append, List.nodup_append]
      refine ⟨ha, by simp, ?_⟩
      intro a haa b hb
      simp only [List.map_cons, List.map_nil, List.mem_singleton] at hb
      rw [hb]
      intro hab
      apply hx
      rw [List.any_eq_true]
      obtain ⟨t, ht, htv⟩ := List.mem_map.mp haa
      exact ⟨t, ht, by simp [htv, hab]⟩

omit [Field F] [DecidableEq F] in
theorem mergeFold_length (recv acc : List (Ticket F)) :
    acc.length ≤ (recv.foldl (fun acc t => if acc.any (·.verifier == t.verifier) then acc else acc ++ [t]) acc).length := by
  induction recv generalizing acc with
  | nil => simp
  | cons x xs ih =>
    simp only [List.foldl_cons]
    refine Nat.le_trans ?_ (ih _)
    split
    · exact Nat.le_refl _
    · simp

omit [Field F] [DecidableEq F] in
theorem mergeTickets_spec (P : Ticket F → Prop) (a r : List (Ticket F)) (ha : ∀ t ∈ a, P t) (hr : ∀ t ∈ r, P t) :
    ∀ t ∈ mergeTickets a r, P t := by
  unfold mergeTickets
  split
  · exact hr
  · split
    · exact ha
    · exact mergeFold_spec P r a ha hr

omit [Field F] [DecidableEq F] in
theorem mergeTickets_nodup (a r : List (Ticket F)) (ha : (a.map (·.verifier)).Nodup) (hr : (r.map (·.verifier)).Nodup) :
    ((mergeTickets a r).map (·.verifier)).Nodup := by
  unfold mergeTickets
  split
  · exact hr
  · split
    · exact ha
    · exact mergeFold_nodup r a ha

omit [Field F] [DecidableEq F] in
theorem mergeTickets_length (a r : List (Ticket F)) : a.length ≤ (mergeTickets a r).length := by
  unfold mergeTickets
  split
  · rename_i h; simp [List.isEmpty_iff.mp h]
  · split
    · exact Nat.le_refl _
    · exact mergeFold_length r a

/-- the single-ticket verification of `handleVerificationTicketMessage` is exact. -/
theorem verifyTickets_single (nd : Node F) (slot : Nat) (h : F) (t : Ticket F) :
    (verifyTickets nd slot h [t]).getD false = true ↔ ValidT (nd.pk? slot) h t := by
  unfold verifyTickets ValidT
  cases hp : nd.pk? slot t.verifier with
  | none => simp [hp]
  | some pk => simp [hp, aggSig, aggPair]

omit [Field F] [DecidableEq F] in
theorem hasDupNat_false (l : List Nat) (h : verifyNotarization.hasDupNat l = false) : l.Nodup := by
  induction l with
  | nil => exact List.nodup_nil
  | cons x xs ih =>
    simp only [verifyNotarization.hasDupNat, Bool.or_eq_false_iff] at h
    exact List.nodup_cons.mpr ⟨by simpa using h.1, ih h.2⟩

end ZChain.Notarize
