import ZChain.Model.Round
/-! Invariant of the concurrent finalizing-state model for the code as written: every test-and-store of
`finalizingState` happens inside one critical section of `r.mutex` (C37). Core-only. -/
namespace ZChain.Round.FinConc

/-- a thread's remaining program: a sequence of calls of the three methods -/
def prog (cs : List Call) : List Instr := (cs.map Call.instrs).flatten

theorem prog_nil : prog [] = [] := rfl
theorem prog_cons (c : Call) (cs : List Call) : prog (c :: cs) = c.instrs ++ prog cs := rfl

/-- outside any critical section -/
def Idle (t : Thread) : Prop := ∃ cs, t.rem = prog cs

/-- inside its critical section (after `lock`). Between a test and its store the register still tells the truth:
if it says "not finalized" the round is not finalized NOW, because nobody else can have stored meanwhile. -/
def InCS (fz : Bool) (t : Thread) : Prop :=
  ∃ cs, t.rem = .testFinalized :: .storeUnless NotFinalized :: .unlock :: prog cs ∨
    t.rem = .testFinalizedOrFinalizing :: .storeUnless Finalizing :: .unlock :: prog cs ∨
    (∃ v, t.rem = .storeUnless v :: .unlock :: prog cs ∧ (t.reg = false → fz = false)) ∨
    t.rem = .store Finalized :: .unlock :: prog cs ∨
    t.rem = .unlock :: prog cs

def Inv (s : CS) : Prop :=
  s.readers = 0 ∧
  ((s.mutex = false ∧ ∀ i, Idle (s.thr i)) ∨
   (s.mutex = true ∧ ∃ h, InCS s.isFinalized (s.thr h) ∧ ∀ j, j ≠ h → Idle (s.thr j)))

theorem upd_same (f : Nat → Thread) (i : Nat) (t : Thread) : upd f i t i = t := by simp [upd]
theorem upd_other (f : Nat → Thread) (i j : Nat) (t : Thread) (h : j ≠ i) : upd f i t j = f j := by simp [upd, h]

theorem others_idle {s : CS} {i : Nat} {t : Thread} (h : ∀ j, j ≠ i → Idle (s.thr j)) :
    ∀ j, j ≠ i → Idle (upd s.thr i t j) := by
  intro j hj; rw [upd_other _ _ _ _ hj]; exact h j hj

/-- one atomic step of any thread keeps the invariant, and a finalized round stays finalized -/
theorem cstep_inv (s : CS) (i : Nat) (hs : Inv s) :
    Inv (cstep s i) ∧ (s.isFinalized = true → (cstep s i).isFinalized = true) := by
  obtain ⟨hr, hs⟩ := hs
  rcases hs with ⟨hm, hidle⟩ | ⟨hm, h, hcs, hothers⟩
  · -- mutex free, everybody idle
    obtain ⟨cs, hcs⟩ := hidle i
    cases cs with
    | nil =>
      have : cstep s i = s := by simp only [cstep, hcs, prog_nil]
      rw [this]; exact ⟨⟨hr, Or.inl ⟨hm, hidle⟩⟩, id⟩
    | cons c cs =>
      cases c
      all_goals
        simp only [prog_cons, Call.instrs, List.cons_append, List.nil_append] at hcs
        refine ⟨⟨?_, Or.inr ⟨?_, i, ?_, ?_⟩⟩, ?_⟩
        · simp [cstep, hcs, hm, hr]
        · simp [cstep, hcs, hm, hr]
        · refine ⟨cs, ?_⟩
          simp [cstep, hcs, hm, hr, upd_same]
        · intro j hj
          simp only [cstep, hcs, hm, hr, Bool.false_or, bne_self_eq_false, Bool.false_eq_true, if_false]
          rw [upd_other _ _ _ _ hj]; exact hidle j
        · simp [cstep, hcs, hm, hr, CS.isFinalized]
  · -- mutex held by h
    by_cases hi : i = h
    · subst hi
      obtain ⟨cs, h1 | h2 | ⟨v, h3, hreg⟩ | h4 | h5⟩ := hcs
      · -- test isFinalized
        have hstep : cstep s i = { s with thr := upd s.thr i { rem := .storeUnless NotFinalized :: .unlock :: prog cs, reg := s.isFinalized } } := by
          simp only [cstep, h1]
        rw [hstep]
        refine ⟨⟨hr, Or.inr ⟨hm, i, ⟨cs, Or.inr (Or.inr (Or.inl ⟨NotFinalized, ?_, ?_⟩))⟩, others_idle hothers⟩⟩, id⟩
        · simp [upd_same]
        · simp only [upd_same]; intro h; exact h
      · -- test isFinalized || isFinalizing
        have hstep : cstep s i = { s with thr := upd s.thr i { rem := .storeUnless Finalizing :: .unlock :: prog cs, reg := s.isFinalized || s.fin == Finalizing } } := by
          simp only [cstep, h2]
        rw [hstep]
        refine ⟨⟨hr, Or.inr ⟨hm, i, ⟨cs, Or.inr (Or.inr (Or.inl ⟨Finalizing, ?_, ?_⟩))⟩, others_idle hothers⟩⟩, id⟩
        · simp [upd_same]
        · simp only [upd_same]
          intro h
          have : (s.isFinalized || s.fin == Finalizing) = false := h
          simp only [Bool.or_eq_false_iff] at this
          exact this.1
      · -- the conditional store: if the register says "not finalized", the round is not finalized now
        have hstep : cstep s i = { s with fin := (if (s.thr i).reg then s.fin else v), thr := upd s.thr i { s.thr i with rem := .unlock :: prog cs } } := by
          simp only [cstep, h3]
        rw [hstep]
        refine ⟨⟨hr, Or.inr ⟨hm, i, ⟨cs, Or.inr (Or.inr (Or.inr (Or.inr ?_)))⟩, others_idle hothers⟩⟩, ?_⟩
        · simp [upd_same]
        · intro hf
          cases hrg : (s.thr i).reg with
          | true => simpa [CS.isFinalized, hrg] using hf
          | false => rw [hreg hrg] at hf; cases hf
      · -- Finalize / SetFinalized
        have hstep : cstep s i = { s with fin := Finalized, thr := upd s.thr i { s.thr i with rem := .unlock :: prog cs } } := by
          simp only [cstep, h4]
        rw [hstep]
        refine ⟨⟨hr, Or.inr ⟨hm, i, ⟨cs, Or.inr (Or.inr (Or.inr (Or.inr ?_)))⟩, others_idle hothers⟩⟩, ?_⟩
        · simp [upd_same]
        · intro _; simp [CS.isFinalized]
      · -- unlock
        have hstep : cstep s i = { s with mutex := false, thr := upd s.thr i { s.thr i with rem := prog cs } } := by
          simp only [cstep, h5]
        rw [hstep]
        refine ⟨⟨hr, Or.inl ⟨rfl, ?_⟩⟩, id⟩
        intro j
        by_cases hj : j = i
        · subst hj; exact ⟨cs, by simp [upd_same]⟩
        · simp only [upd_other _ _ _ _ hj]; exact hothers j hj
    · -- another thread: idle, and its next instruction (if any) is `lock`, which blocks
      obtain ⟨cs, hcs'⟩ := hothers i hi
      have : cstep s i = s := by
        cases cs with
        | nil => simp only [cstep, hcs', prog_nil]
        | cons c cs => cases c <;> simp [cstep, hcs', prog_cons, Call.instrs, hm]
      rw [this]
      exact ⟨⟨hr, Or.inr ⟨hm, h, hcs, hothers⟩⟩, id⟩

theorem crun_inv (sched : List Nat) : ∀ (s : CS), Inv s → s.isFinalized = true →
    Inv (crun s sched) ∧ (crun s sched).isFinalized = true := by
  induction sched with
  | nil => intro s h hf; exact ⟨h, hf⟩
  | cons i is ih =>
    intro s h hf
    have := cstep_inv s i h
    exact ih _ this.1 (this.2 hf)

theorem crun_inv' (sched : List Nat) : ∀ (s : CS), Inv s → Inv (crun s sched) := by
  induction sched with
  | nil => intro s h; exact h
  | cons i is ih => intro s h; exact ih _ (cstep_inv s i h).1

theorem init_inv (fin : Nat) (number : Int) (progs : List (List Call)) : Inv (initCS fin number (progs.map prog)) := by
  refine ⟨rfl, Or.inl ⟨rfl, fun i => ?_⟩⟩
  unfold initCS Idle
  simp only
  by_cases hi : i < progs.length
  · refine ⟨progs[i], ?_⟩
    rw [List.getD_eq_getElem?_getD, List.getElem?_map, List.getElem?_eq_getElem hi]
    rfl
  · refine ⟨[], ?_⟩
    rw [List.getD_eq_getElem?_getD, List.getElem?_eq_none (by simpa using hi)]
    rfl

theorem crun_append (s : CS) (a b : List Nat) : crun s (a ++ b) = crun (crun s a) b := by
  simp [crun, List.foldl_append]

end ZChain.Round.FinConc
