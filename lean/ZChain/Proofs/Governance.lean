import ZChain.Model.Governance
/-! Helper lemmas for `Props/C48.lean` (association lists, the update loop, permutations). -/
namespace ZChain.Gov

/-! ### association lists -/

theorem SMap.find_filter_ne {α} (m : SMap α) (k k' : Str) (h : k ≠ k') :
    SMap.find (m.filter (fun p => p.1 ≠ k)) k' = SMap.find m k' := by
  induction m with
  | nil => rfl
  | cons p r ih =>
    obtain ⟨a, b⟩ := p
    by_cases hak : a = k
    · subst hak
      simp only [List.filter, ne_eq, not_true_eq_false, decide_false, SMap.find, h, if_false]
      exact ih
    · simp only [List.filter, ne_eq, hak, not_false_eq_true, decide_true, SMap.find]
      rw [ih]

theorem SMap.find_insert {α} (m : SMap α) (k k' : Str) (v : α) :
    (m.insert k v).find k' = if k = k' then some v else m.find k' := by
  unfold SMap.insert
  simp only [SMap.find]
  split
  · rfl
  · rename_i h
    exact SMap.find_filter_ne m k k' h

theorem SMap.find_insert_self {α} (m : SMap α) (k : Str) (v : α) : (m.insert k v).find k = some v := by
  rw [SMap.find_insert]; simp

theorem SMap.find_insert_ne {α} (m : SMap α) (k k' : Str) (v : α) (h : k ≠ k') :
    (m.insert k v).find k' = m.find k' := by
  rw [SMap.find_insert]; simp [h]

/-- observational equality of configurations -/
def Cfg.Equiv (a b : Cfg) : Prop := SMap.Equiv a.get b.get ∧ SMap.Equiv a.cost b.cost

theorem Cfg.Equiv.refl (a : Cfg) : Cfg.Equiv a a := ⟨fun _ => rfl, fun _ => rfl⟩

theorem Cfg.Equiv.symm {a b : Cfg} (h : Cfg.Equiv a b) : Cfg.Equiv b a :=
  ⟨fun k => (h.1 k).symm, fun k => (h.2 k).symm⟩

theorem Cfg.Equiv.trans {a b c : Cfg} (h : Cfg.Equiv a b) (h' : Cfg.Equiv b c) : Cfg.Equiv a c :=
  ⟨fun k => (h.1 k).trans (h'.1 k), fun k => (h.2 k).trans (h'.2 k)⟩

/-- the place a write goes to: (is it a cost entry?, name) -/
def Write.target : Write → Option (Bool × Str)
  | .field n _ => some (false, n)
  | .cost n _ => some (true, n)
  | .nothing => none

theorem Cfg.apply_equiv {a b : Cfg} (h : Cfg.Equiv a b) (w : Write) : Cfg.Equiv (a.apply w) (b.apply w) := by
  cases w with
  | field n v =>
    refine ⟨fun k => ?_, h.2⟩
    simp only [Cfg.apply, SMap.find_insert]
    split
    · rfl
    · exact h.1 k
  | cost n v =>
    refine ⟨h.1, fun k => ?_⟩
    simp only [Cfg.apply, SMap.find_insert]
    split
    · rfl
    · exact h.2 k
  | nothing => exact h

/-- two writes to different places commute (observationally) -/
theorem Cfg.apply_comm (c : Cfg) (w₁ w₂ : Write) (h : w₁.target ≠ w₂.target ∨ w₁.target = none) :
    Cfg.Equiv ((c.apply w₁).apply w₂) ((c.apply w₂).apply w₁) := by
  cases w₁ with
  | nothing => exact Cfg.Equiv.refl _
  | field n₁ v₁ =>
    cases w₂ with
    | nothing => exact Cfg.Equiv.refl _
    | cost n₂ v₂ => exact ⟨fun _ => rfl, fun _ => rfl⟩
    | field n₂ v₂ =>
      have hne : n₁ ≠ n₂ := by
        rcases h with h | h
        · intro e; apply h; simp [Write.target, e]
        · simp [Write.target] at h
      refine ⟨fun k => ?_, fun _ => rfl⟩
      simp only [Cfg.apply, SMap.find_insert]
      by_cases h1 : n₁ = k <;> by_cases h2 : n₂ = k <;> simp [h1, h2]
      exact absurd (h1.trans h2.symm) hne
  | cost n₁ v₁ =>
    cases w₂ with
    | nothing => exact Cfg.Equiv.refl _
    | field n₂ v₂ => exact ⟨fun _ => rfl, fun _ => rfl⟩
    | cost n₂ v₂ =>
      have hne : n₁ ≠ n₂ := by
        rcases h with h | h
        · intro e; apply h; simp [Write.target, e]
        · simp [Write.target] at h
      refine ⟨fun _ => rfl, fun k => ?_⟩
      simp only [Cfg.apply, SMap.find_insert]
      by_cases h1 : n₁ = k <;> by_cases h2 : n₂ = k <;> simp [h1, h2]
      exact absurd (h1.trans h2.symm) hne

/-! ### the update loop -/

/-- the writes of the accepted keys of an enumeration, in order -/
def writesOf (keyf : Str → Str → Except KeyErr Write) (o : SMap Str) : List Write :=
  o.filterMap fun p => match keyf p.1 p.2 with
    | .ok w => some w
    | .error _ => none

def applyWrites (c : Cfg) (ws : List Write) : Cfg := ws.foldl Cfg.apply c

def noStop : Str → Bool := fun _ => false

theorem badKeys_cons (keyf : Str → Str → Except KeyErr Write) (k v : Str) (r : SMap Str) :
    badKeys keyf ((k, v) :: r) =
      match keyf k v with
      | .error e => (k, e) :: badKeys keyf r
      | .ok _ => badKeys keyf r := by
  unfold badKeys
  simp only [List.filterMap_cons]
  cases keyf k v <;> rfl

theorem writesOf_cons (keyf : Str → Str → Except KeyErr Write) (k v : Str) (r : SMap Str) :
    writesOf keyf ((k, v) :: r) =
      match keyf k v with
      | .error _ => writesOf keyf r
      | .ok w => w :: writesOf keyf r := by
  unfold writesOf
  simp only [List.filterMap_cons]
  cases keyf k v <;> rfl

/-- the first error in iteration order is one of the offending keys (any `stops`) -/
theorem applyAll_error_mem (keyf : Str → Str → Except KeyErr Write) (stops : Str → Bool) :
    ∀ (o : SMap Str) (c : Cfg) (b : Str × KeyErr), applyAll keyf stops o c = .error b → b ∈ badKeys keyf o := by
  intro o
  induction o with
  | nil => intro c b h; simp [applyAll] at h
  | cons p r ih =>
    intro c b h
    obtain ⟨k, v⟩ := p
    rw [badKeys_cons]
    unfold applyAll at h
    cases hk : keyf k v with
    | error e =>
      simp only [hk] at h
      injection h with h
      simp [← h]
    | ok w =>
      simp only [hk] at h
      split at h
      · simp at h
      · exact ih _ _ h

/-- without loop-ending keys: the first offending key in order, else all writes applied in order -/
theorem applyAll_noStop (keyf : Str → Str → Except KeyErr Write) :
    ∀ (o : SMap Str) (c : Cfg), applyAll keyf noStop o c =
      match (badKeys keyf o).head? with
      | some b => .error b
      | none => .ok (applyWrites c (writesOf keyf o)) := by
  intro o
  induction o with
  | nil => intro c; rfl
  | cons p r ih =>
    intro c
    obtain ⟨k, v⟩ := p
    rw [badKeys_cons, writesOf_cons]
    unfold applyAll
    cases hk : keyf k v with
    | error e => simp
    | ok w =>
      simp only [noStop, Bool.false_eq_true, if_false]
      rw [ih]
      rfl

/-- a successful loop changes only fields that an accepted key of the enumeration writes -/
theorem applyAll_changed_field (keyf : Str → Str → Except KeyErr Write) (stops : Str → Bool) :
    ∀ (o : SMap Str) (c c' : Cfg) (name : Str), applyAll keyf stops o c = .ok c' →
      c'.get.find name ≠ c.get.find name →
      ∃ k v x, (k, v) ∈ o ∧ keyf k v = .ok (.field name x) := by
  intro o
  induction o with
  | nil => intro c c' name h hne; simp [applyAll] at h; subst h; exact absurd rfl hne
  | cons p r ih =>
    intro c c' name h hne
    obtain ⟨k, v⟩ := p
    unfold applyAll at h
    cases hk : keyf k v with
    | error e => simp [hk] at h
    | ok w =>
      simp only [hk] at h
      by_cases h1 : (c.apply w).get.find name = c.get.find name
      · -- the change happened later
        split at h
        · injection h with h; subst h; exact absurd h1 hne
        · obtain ⟨k', v', x, hm, hx⟩ := ih _ _ name h (by rw [h1]; exact hne)
          exact ⟨k', v', x, List.mem_cons_of_mem _ hm, hx⟩
      · -- this key wrote the field
        cases w with
        | field n x =>
          by_cases hn : n = name
          · subst hn; exact ⟨k, v, x, List.mem_cons_self, hk⟩
          · exfalso; apply h1; simp [Cfg.apply, SMap.find_insert_ne _ _ _ _ hn]
        | cost n x => exact absurd rfl h1
        | nothing => exact absurd rfl h1

/-- same for cost entries -/
theorem applyAll_changed_cost (keyf : Str → Str → Except KeyErr Write) (stops : Str → Bool) :
    ∀ (o : SMap Str) (c c' : Cfg) (name : Str), applyAll keyf stops o c = .ok c' →
      c'.cost.find name ≠ c.cost.find name →
      ∃ k v x, (k, v) ∈ o ∧ keyf k v = .ok (.cost name x) := by
  intro o
  induction o with
  | nil => intro c c' name h hne; simp [applyAll] at h; subst h; exact absurd rfl hne
  | cons p r ih =>
    intro c c' name h hne
    obtain ⟨k, v⟩ := p
    unfold applyAll at h
    cases hk : keyf k v with
    | error e => simp [hk] at h
    | ok w =>
      simp only [hk] at h
      by_cases h1 : (c.apply w).cost.find name = c.cost.find name
      · split at h
        · injection h with h; subst h; exact absurd h1 hne
        · obtain ⟨k', v', x, hm, hx⟩ := ih _ _ name h (by rw [h1]; exact hne)
          exact ⟨k', v', x, List.mem_cons_of_mem _ hm, hx⟩
      · cases w with
        | cost n x =>
          by_cases hn : n = name
          · subst hn; exact ⟨k, v, x, List.mem_cons_self, hk⟩
          · exfalso; apply h1; simp [Cfg.apply, SMap.find_insert_ne _ _ _ _ hn]
        | field n x => exact absurd rfl h1
        | nothing => exact absurd rfl h1

/-- every key the loop consumed before it ended was accepted; without loop-ending keys that is every key -/
theorem applyAll_ok_all_accepted (keyf : Str → Str → Except KeyErr Write) :
    ∀ (o : SMap Str) (c c' : Cfg), applyAll keyf noStop o c = .ok c' → badKeys keyf o = [] := by
  intro o c c' h
  rw [applyAll_noStop] at h
  cases hb : (badKeys keyf o).head? with
  | some b => simp [hb] at h
  | none => exact List.head?_eq_none_iff.mp hb

/-! ### permutations -/

/-- two writes do not collide -/
def Write.Indep (a b : Write) : Prop := a.target = none ∨ b.target = none ∨ a.target ≠ b.target

theorem Write.Indep.symm {a b : Write} (h : Write.Indep a b) : Write.Indep b a := by
  rcases h with h | h | h
  · exact Or.inr (Or.inl h)
  · exact Or.inl h
  · exact Or.inr (Or.inr (Ne.symm h))

theorem Cfg.apply_comm' (c : Cfg) (a b : Write) (h : Write.Indep a b) :
    Cfg.Equiv ((c.apply a).apply b) ((c.apply b).apply a) := by
  rcases h with h | h | h
  · exact Cfg.apply_comm c a b (Or.inr h)
  · exact (Cfg.apply_comm c b a (Or.inr h)).symm
  · exact Cfg.apply_comm c a b (Or.inl h)

theorem applyWrites_equiv {a b : Cfg} (h : Cfg.Equiv a b) (ws : List Write) :
    Cfg.Equiv (applyWrites a ws) (applyWrites b ws) := by
  induction ws generalizing a b with
  | nil => exact h
  | cons w r ih => exact ih (Cfg.apply_equiv h w)

/-- applying pairwise independent writes in any order gives observationally the same configuration -/
theorem applyWrites_perm {ws₁ ws₂ : List Write} (hp : ws₁.Perm ws₂) (hind : ws₁.Pairwise Write.Indep) (c : Cfg) :
    Cfg.Equiv (applyWrites c ws₁) (applyWrites c ws₂) := by
  induction hp generalizing c with
  | nil => exact Cfg.Equiv.refl _
  | cons x _ ih =>
    exact ih (List.pairwise_cons.mp hind).2 (c.apply x)
  | swap x y l =>
    have hxy : Write.Indep y x := (List.pairwise_cons.mp hind).1 x List.mem_cons_self
    exact applyWrites_equiv (Cfg.apply_comm' c y x hxy) l
  | trans h₁ _ ih₁ ih₂ =>
    have hind₂ := (h₁.pairwise_iff (fun h => Write.Indep.symm h)).mp hind
    exact (ih₁ hind c).trans (ih₂ hind₂ c)

theorem writesOf_perm (keyf : Str → Str → Except KeyErr Write) {o₁ o₂ : SMap Str} (h : o₁.Perm o₂) :
    (writesOf keyf o₁).Perm (writesOf keyf o₂) := h.filterMap _

theorem badKeys_perm (keyf : Str → Str → Except KeyErr Write) {o₁ o₂ : SMap Str} (h : o₁.Perm o₂) :
    (badKeys keyf o₁).Perm (badKeys keyf o₂) := h.filterMap _

/-! ### inversion of the entry points -/

variable (P : Parsers)

/-- what a successful `update` went through -/
theorem update_ok_inv {ct : Contract} {vld : Bool} {ord : MapOrder} {caller : Str} {m : SMap Str} {c c' : Cfg} {out : Bool}
    (h : update P ct vld ord caller (some m) c = (.ok out, c')) :
    c.owner = caller ∧ applyAll (ct.keyf P) ct.stops (ord m) c = .ok c' ∧ (vld = true → ct.validate c' = none) := by
  unfold update at h
  by_cases ho : c.owner ≠ caller
  · simp [ho] at h
  · simp only [ho, if_false] at h
    cases ha : applyAll (ct.keyf P) ct.stops (ord m) c with
    | error b => obtain ⟨k, e⟩ := b; simp [ha] at h
    | ok c'' =>
      simp only [ha] at h
      cases vld with
      | false =>
        simp only [Bool.false_eq_true, if_false] at h
        injection h with _ h2; subst h2
        exact ⟨Decidable.of_not_not ho, rfl, by simp⟩
      | true =>
        simp only [if_true] at h
        cases hv : ct.validate c'' with
        | some i => simp [hv] at h
        | none =>
          simp only [hv] at h
          injection h with _ h2; subst h2
          exact ⟨Decidable.of_not_not ho, rfl, fun _ => hv⟩

theorem update_key_inv {ct : Contract} {vld : Bool} {ord : MapOrder} {caller : Str} {m : SMap Str} {c c' : Cfg} {k : Str} {e : KeyErr}
    (h : update P ct vld ord caller (some m) c = (.key k e, c')) :
    applyAll (ct.keyf P) ct.stops (ord m) c = .error (k, e) := by
  unfold update at h
  by_cases ho : c.owner ≠ caller
  · simp [ho] at h
  · simp only [ho, if_false] at h
    cases ha : applyAll (ct.keyf P) ct.stops (ord m) c with
    | error b =>
      obtain ⟨k', e'⟩ := b
      simp only [ha] at h
      injection h with h1 _; injection h1 with h1 h2; subst h1; subst h2; rfl
    | ok c'' =>
      simp only [ha] at h
      cases vld with
      | false => simp at h
      | true =>
        simp only [if_true] at h
        cases hv : ct.validate c'' <;> simp [hv] at h

theorem updateGlobals_ok_inv {ord : MapOrder} {caller : Str} {m : SMap Str} {mc : Cfg} {g g' : Globals} {out : Bool}
    (h : updateGlobals P ord caller (some m) mc g = (.ok out, g')) :
    mc.owner = caller ∧ ∃ f, globalsAll P (ord m) g.fields = .ok f ∧ g' = { version := g.version + 1, fields := f } := by
  unfold updateGlobals at h
  by_cases ho : mc.owner ≠ caller
  · simp [ho] at h
  · simp only [ho, if_false] at h
    cases ha : globalsAll P (ord m) g.fields with
    | error b => obtain ⟨k, e⟩ := b; simp [ha] at h
    | ok f =>
      simp only [ha] at h
      injection h with _ h2
      exact ⟨Decidable.of_not_not ho, f, rfl, h2.symm⟩

theorem storageCommit_ok_inv {vl : Bool} {ord : MapOrder} {s s' : Storage} {out : Bool}
    (h : storageCommit P vl ord s = (.ok out, s')) :
    (s.staged = [] ∧ s' = s) ∨
    (s.staged ≠ [] ∧ ∃ c', applyAll (storageKey P) (fun _ => false) (ord s.staged) s.conf = .ok c' ∧
      s' = { s with conf := c' } ∧ (vl = true → Contract.validate .storage c' = none)) := by
  unfold storageCommit at h
  by_cases he : s.staged = []
  · simp [he] at h; exact Or.inl ⟨he, h.2.symm⟩
  · right
    have he' : s.staged.isEmpty = false := by cases hs : s.staged <;> simp_all
    simp only [he', Bool.false_eq_true, if_false] at h
    cases ha : applyAll (storageKey P) (fun _ => false) (ord s.staged) s.conf with
    | error b => obtain ⟨k, e⟩ := b; simp [ha] at h
    | ok c' =>
      simp only [ha] at h
      cases vl with
      | false =>
        simp only [Bool.false_eq_true, if_false] at h
        injection h with _ h2
        exact ⟨he, c', rfl, h2.symm, by simp⟩
      | true =>
        simp only [if_true] at h
        cases hv : Contract.validate .storage c' with
        | some i => simp [hv] at h
        | none =>
          simp only [hv] at h
          injection h with _ h2
          exact ⟨he, c', rfl, h2.symm, fun _ => hv⟩

theorem storageUpdate_ok_inv {sv vl : Bool} {ord : MapOrder} {caller : Str} {m : SMap Str} {s s' : Storage} {out : Bool}
    (hm : m ≠ []) (h : storageUpdate P sv vl ord caller (some m) s = (.ok out, s')) :
    s.conf.owner = caller ∧ ∃ c', applyAll (storageKey P) (fun _ => false) (ord (mergeStaged s.staged m)) s.conf = .ok c' ∧
      s'.staged = mergeStaged s.staged m ∧ s'.conf = (if sv then c' else s.conf) ∧
      (sv = true → vl = true → Contract.validate .storage c' = none) := by
  unfold storageUpdate at h
  by_cases ho : s.conf.owner ≠ caller
  · simp [ho] at h
  · have hme : m.isEmpty = false := by cases m <;> simp_all
    simp only [ho, if_false, hme, Bool.false_eq_true] at h
    cases ha : applyAll (storageKey P) (fun _ => false) (ord (mergeStaged s.staged m)) s.conf with
    | error b => obtain ⟨k, e⟩ := b; simp [ha] at h
    | ok c' =>
      simp only [ha] at h
      cases sv with
      | false =>
        simp only [Bool.false_eq_true, if_false] at h
        injection h with _ h2; subst h2
        exact ⟨Decidable.of_not_not ho, c', rfl, rfl, by simp, by simp⟩
      | true =>
        simp only [if_true] at h
        cases vl with
        | false =>
          simp only [Bool.false_eq_true, if_false] at h
          injection h with _ h2; subst h2
          exact ⟨Decidable.of_not_not ho, c', rfl, rfl, by simp, by simp⟩
        | true =>
          simp only [if_true] at h
          cases hv : Contract.validate .storage c' with
          | some i => simp [hv] at h
          | none =>
            simp only [hv] at h
            injection h with _ h2; subst h2
            exact ⟨Decidable.of_not_not ho, c', rfl, rfl, by simp, fun _ _ => hv⟩


end ZChain.Gov
