import ZChain.Model.OrderBuffer
/-! Helper lemmas for C46 (core-only). -/
namespace ZChain.OrderBuffer

def Sorted (l : List Item) : Prop := l.Pairwise (fun a b => a.round ≤ b.round)

theorem sorted_getD {l : List Item} (h : Sorted l) {i j : Nat} (hij : i ≤ j) (hj : j < l.length) :
    (l.getD i default).round ≤ (l.getD j default).round := by
  have hi : i < l.length := by omega
  rw [← List.getElem_eq_getD (h := hi), ← List.getElem_eq_getD (h := hj)]
  rcases Nat.lt_or_eq_of_le hij with hlt | heq
  · exact (List.pairwise_iff_getElem.mp h) i j hi hj hlt
  · subst heq; exact Int.le_refl _

theorem searchAux_spec (buf : List Item) (r : Int) (hs : Sorted buf) :
    ∀ (fuel left right : Nat), right - left < fuel → left ≤ right → right ≤ buf.length →
      (∀ i, i < left → (buf.getD i default).round ≤ r) →
      (∀ i, right ≤ i → i < buf.length → r < (buf.getD i default).round) →
      left ≤ searchAux buf r fuel left right ∧ searchAux buf r fuel left right ≤ right ∧
      (∀ i, i < searchAux buf r fuel left right → (buf.getD i default).round ≤ r) ∧
      (∀ i, searchAux buf r fuel left right ≤ i → i < buf.length → r < (buf.getD i default).round) := by
  intro fuel
  induction fuel with
  | zero => intro left right hf; omega
  | succ fuel ih =>
    intro left right hf hlr hrl hlo hhi
    unfold searchAux
    by_cases hlt : left < right
    · simp only [hlt, if_true]
      have hm : (left + right) / 2 < buf.length := by omega
      by_cases hle : (buf.getD ((left + right) / 2) default).round ≤ r
      · simp only [hle, if_true]
        have := ih ((left + right) / 2 + 1) right (by omega) (by omega) hrl
          (fun i hi => by
            have h1 : i ≤ (left + right) / 2 := by omega
            exact Int.le_trans (sorted_getD hs h1 hm) hle)
          hhi
        exact ⟨by omega, this.2.1, this.2.2.1, this.2.2.2⟩
      · simp only [hle, if_false]
        have := ih left ((left + right) / 2) (by omega) (by omega) (by omega) hlo
          (fun i hi hil => by
            have h1 := sorted_getD hs hi hil
            omega)
        exact ⟨this.1, by omega, this.2.2.1, this.2.2.2⟩
    · simp only [hlt, if_false]
      have : left = right := by omega
      subst this
      exact ⟨Nat.le_refl _, Nat.le_refl _, hlo, hhi⟩

/-- On a sorted buffer `search` is the upper bound of `r`. -/
theorem search_spec {buf : List Item} (hs : Sorted buf) (r : Int) :
    search buf r ≤ buf.length ∧
    (∀ i, i < search buf r → (buf.getD i default).round ≤ r) ∧
    (∀ i, search buf r ≤ i → i < buf.length → r < (buf.getD i default).round) := by
  have := searchAux_spec buf r hs (buf.length + 1) 0 buf.length (by omega) (Nat.zero_le _) (Nat.le_refl _)
    (fun i hi => by omega) (fun i hi hil => by omega)
  exact ⟨this.2.1, this.2.2.1, this.2.2.2⟩

theorem mem_take_getD {l : List Item} {p : Nat} {x : Item} (hx : x ∈ l.take p) :
    ∃ i, i < p ∧ i < l.length ∧ l.getD i default = x := by
  rcases List.mem_iff_getElem.mp hx with ⟨i, hi, rfl⟩
  have hi' : i < min p l.length := by simpa using hi
  refine ⟨i, by omega, by omega, ?_⟩
  rw [← List.getElem_eq_getD (h := by omega)]
  simp [List.getElem_take]

theorem mem_drop_getD {l : List Item} {p : Nat} {x : Item} (hx : x ∈ l.drop p) :
    ∃ i, p ≤ i ∧ i < l.length ∧ l.getD i default = x := by
  rcases List.mem_iff_getElem.mp hx with ⟨i, hi, rfl⟩
  have hi' : i < l.length - p := by simpa using hi
  refine ⟨p + i, by omega, by omega, ?_⟩
  rw [← List.getElem_eq_getD (h := by omega)]
  simp [List.getElem_drop]

theorem sorted_take {l : List Item} (h : Sorted l) (n : Nat) : Sorted (l.take n) :=
  List.Pairwise.sublist (List.take_sublist n l) h

theorem sorted_drop {l : List Item} (h : Sorted l) (n : Nat) : Sorted (l.drop n) :=
  List.Pairwise.sublist (List.drop_sublist n l) h

/-- inserting at the upper-bound position keeps the list sorted. -/
theorem insertAt_sorted {buf : List Item} (hs : Sorted buf) (r : Int) (d : Nat) :
    Sorted (insertAt buf (search buf r) ⟨r, d⟩) := by
  obtain ⟨_, hlo, hhi⟩ := search_spec hs r
  unfold insertAt Sorted
  rw [List.pairwise_append]
  refine ⟨sorted_take hs _, ?_, ?_⟩
  · rw [List.pairwise_cons]
    refine ⟨?_, sorted_drop hs _⟩
    intro y hy
    obtain ⟨i, hpi, hil, rfl⟩ := mem_drop_getD hy
    exact Int.le_of_lt (hhi i hpi hil)
  · intro x hx y hy
    obtain ⟨i, hip, hil, rfl⟩ := mem_take_getD hx
    rcases List.mem_cons.mp hy with rfl | hy
    · exact hlo i hip
    · obtain ⟨j, hpj, hjl, rfl⟩ := mem_drop_getD hy
      exact sorted_getD hs (by omega) hjl

theorem insertAt_length (buf : List Item) (p : Nat) (it : Item) (hp : p ≤ buf.length) :
    (insertAt buf p it).length = buf.length + 1 := by
  unfold insertAt; simp; omega

/-- a list split at `p` whose prefix satisfies `P` and whose suffix does not is split by `filter`. -/
theorem filter_split {l : List Item} {p : Nat} (P : Item → Bool)
    (h1 : ∀ x ∈ l.take p, P x = true) (h2 : ∀ x ∈ l.drop p, P x = false) :
    l.filter P = l.take p ∧ l.filter (fun x => !P x) = l.drop p := by
  have hl : l = l.take p ++ l.drop p := (List.take_append_drop p l).symm
  constructor
  · conv => lhs; rw [hl]
    rw [List.filter_append, List.filter_eq_self.mpr h1, List.filter_eq_nil_iff.mpr, List.append_nil]
    intro x hx; simp [h2 x hx]
  · conv => lhs; rw [hl]
    rw [List.filter_append, List.filter_eq_nil_iff.mpr, List.nil_append, List.filter_eq_self.mpr]
    · intro x hx; simp [h2 x hx]
    · intro x hx; simp [h1 x hx]

/-- On a sorted buffer the insertion point of `search` separates the rounds `≤ r` from the rounds `> r`. -/
theorem search_split {buf : List Item} (hs : Sorted buf) (r : Int) :
    buf.filter (fun x => decide (x.round ≤ r)) = buf.take (search buf r) ∧
    buf.filter (fun x => !decide (x.round ≤ r)) = buf.drop (search buf r) := by
  obtain ⟨_, hlo, hhi⟩ := search_spec hs r
  apply filter_split
  · intro x hx
    obtain ⟨i, hip, _, rfl⟩ := mem_take_getD hx
    exact decide_eq_true (hlo i hip)
  · intro x hx
    obtain ⟨i, hpi, hil, rfl⟩ := mem_drop_getD hx
    have := hhi i hpi hil
    exact decide_eq_false (by omega)

end ZChain.OrderBuffer
