import ZChain.Model.Provider
import ZChain.Proofs.Ledger
import ZChain.Proofs.F64
/-!
# Lemmas about `Model/Provider` (association lists, the frame relation of the kill / shut-down wrappers)
-/
namespace ZChain.Provider
open ZChain ZChain.Coin

/-! ## association lists -/

section kv
variable {κ α : Type} [DecidableEq κ]

theorem kvGet_kvSet_eq (m : List (κ × α)) (k : κ) (v : α) : kvGet (kvSet m k v) k = some v := by
  induction m with
  | nil => simp [kvSet, kvGet]
  | cons p rest ih =>
    obtain ⟨k', w⟩ := p
    unfold kvSet
    by_cases h : k' = k
    · simp [h, kvGet]
    · simp only [h, ↓reduceIte, kvGet]; exact ih

theorem kvGet_kvSet_ne (m : List (κ × α)) (k j : κ) (v : α) (h : j ≠ k) : kvGet (kvSet m k v) j = kvGet m j := by
  induction m with
  | nil => simp [kvSet, kvGet, Ne.symm h]
  | cons p rest ih =>
    obtain ⟨k', w⟩ := p
    unfold kvSet
    by_cases hk : k' = k
    · subst hk
      simp only [↓reduceIte, kvGet, Ne.symm h]
    · simp only [hk, ↓reduceIte, kvGet]
      by_cases hj : k' = j
      · simp [hj]
      · simp only [hj, ↓reduceIte]; exact ih

theorem kvGet_kvDel_eq (m : List (κ × α)) (k : κ) : kvGet (kvDel m k) k = none := by
  induction m with
  | nil => simp [kvDel, kvGet]
  | cons p rest ih =>
    obtain ⟨k', w⟩ := p
    unfold kvDel
    by_cases h : k' = k
    · simp only [h, ↓reduceIte]; exact ih
    · simp only [h, ↓reduceIte, kvGet]; exact ih

theorem kvGet_kvDel_ne (m : List (κ × α)) (k j : κ) (h : j ≠ k) : kvGet (kvDel m k) j = kvGet m j := by
  induction m with
  | nil => simp [kvDel, kvGet]
  | cons p rest ih =>
    obtain ⟨k', w⟩ := p
    unfold kvDel
    by_cases hk : k' = k
    · subst hk
      simp only [↓reduceIte, kvGet]
      rw [ih]
      simp [Ne.symm h]
    · simp only [hk, ↓reduceIte, kvGet]
      by_cases hj : k' = j
      · simp [hj]
      · simp only [hj, ↓reduceIte]; exact ih

/-- writing back the value that is already stored changes nothing. -/
theorem kvSet_self (m : List (κ × α)) (k : κ) (v : α) (h : kvGet m k = some v) : kvSet m k v = m := by
  induction m with
  | nil => simp [kvGet] at h
  | cons p rest ih =>
    obtain ⟨k', w⟩ := p
    unfold kvSet
    unfold kvGet at h
    by_cases hk : k' = k
    · simp only [hk, ↓reduceIte] at h ⊢
      injection h with h; rw [h]
    · simp only [hk, ↓reduceIte] at h ⊢
      rw [ih h]

end kv

/-! ## the frame relation -/

/-- `s'` agrees with `s` on every account, on every provider record except `i`'s and on every stake-pool record whose
key is not in `ks`; the validators partition can only lose `i`. No record outside `{prov i} ∪ ks` is created either:
a key that reads `none` in `s` reads `none` in `s'`. -/
structure Frame (s s' : State) (i : Id) (ks : List (Kind × Id)) : Prop where
  accts : s'.accts = s.accts
  order : s'.order = s.order
  provs : ∀ j, j ≠ i → kvGet s'.provs j = kvGet s.provs j
  sps   : ∀ kk, kk ∉ ks → kvGet s'.sps kk = kvGet s.sps kk
  vpart : s'.vpart = s.vpart ∨ s'.vpart = s.vpart.filter (· ≠ i)

theorem Frame.refl (s : State) (i : Id) (ks : List (Kind × Id)) : Frame s s i ks :=
  ⟨rfl, rfl, fun _ _ => rfl, fun _ _ => rfl, Or.inl rfl⟩

theorem Frame.mono {s s' : State} {i : Id} {ks ks' : List (Kind × Id)} (h : Frame s s' i ks)
    (hs : ∀ kk, kk ∈ ks → kk ∈ ks') : Frame s s' i ks' :=
  ⟨h.accts, h.order, h.provs, fun kk hk => h.sps kk (fun hm => hk (hs kk hm)), h.vpart⟩

theorem Frame.trans {s s' s'' : State} {i : Id} {ks : List (Kind × Id)} (h1 : Frame s s' i ks)
    (h2 : Frame s' s'' i ks) : Frame s s'' i ks := by
  refine ⟨h2.accts.trans h1.accts, h2.order.trans h1.order, fun j hj => (h2.provs j hj).trans (h1.provs j hj),
    fun kk hk => (h2.sps kk hk).trans (h1.sps kk hk), ?_⟩
  rcases h1.vpart with a | a <;> rcases h2.vpart with b | b
  · left; rw [b, a]
  · right; rw [b, a]
  · right; rw [b, a]
  · right; rw [b, a, List.filter_filter]; simp

theorem frame_putSP (s : State) (i : Id) (k : Kind) (j : Id) (sp : SP) (ks : List (Kind × Id)) (h : (k, j) ∈ ks) :
    Frame s (putSP s k j sp) i ks :=
  ⟨rfl, rfl, fun _ _ => rfl, fun kk hk => by
    unfold putSP; simp only
    exact kvGet_kvSet_ne _ _ _ _ (fun e => hk (e ▸ h)), Or.inl rfl⟩

theorem frame_delSP (s : State) (i : Id) (k : Kind) (j : Id) (ks : List (Kind × Id)) (h : (k, j) ∈ ks) :
    Frame s (delSP s k j) i ks :=
  ⟨rfl, rfl, fun _ _ => rfl, fun kk hk => by
    unfold delSP; simp only
    exact kvGet_kvDel_ne _ _ _ (fun e => hk (e ▸ h)), Or.inl rfl⟩

theorem frame_putProv (s : State) (i : Id) (p : Prov) (ks : List (Kind × Id)) : Frame s (putProv s i p) i ks :=
  ⟨rfl, rfl, fun j hj => by unfold putProv; simp only; exact kvGet_kvSet_ne _ _ _ _ hj, fun _ _ => rfl, Or.inl rfl⟩

theorem frame_delProv (s : State) (i : Id) (ks : List (Kind × Id)) : Frame s (delProv s i) i ks :=
  ⟨rfl, rfl, fun j hj => by unfold delProv; simp only; exact kvGet_kvDel_ne _ _ _ hj, fun _ _ => rfl, Or.inl rfl⟩

/-! ## reading back what was written -/

theorem getSP_putSP_eq (s : State) (k : Kind) (j : Id) (sp : SP) :
    kvGet (putSP s k j sp).sps (k, j) = some sp := by
  unfold putSP; simp only; exact kvGet_kvSet_eq _ _ _

theorem sps_putSP_ne (s : State) (k : Kind) (j : Id) (sp : SP) (kk : Kind × Id) (h : kk ≠ (k, j)) :
    kvGet (putSP s k j sp).sps kk = kvGet s.sps kk := by
  unfold putSP; simp only; exact kvGet_kvSet_ne _ _ _ _ h

theorem provs_putSP (s : State) (k : Kind) (j : Id) (sp : SP) : (putSP s k j sp).provs = s.provs := rfl
theorem sps_putProv (s : State) (j : Id) (p : Prov) : (putProv s j p).sps = s.sps := rfl
theorem sps_delProv (s : State) (j : Id) : (delProv s j).sps = s.sps := rfl
theorem provs_delSP (s : State) (k : Kind) (j : Id) : (delSP s k j).provs = s.provs := rfl

theorem getSP_eq (s : State) (k : Kind) (j : Id) : getSP s k j = kvGet s.sps (k, j) := rfl

/-! ## the loaders -/

theorem loadBlobber_ok {s : State} {r : Req} {L : Loaded} (h : loadBlobber s r = .ok L) :
    L.pid = r.reqId ∧ L.st = s ∧ kvGet s.provs r.reqId = some L.p ∧ L.p.kind = .blobber ∧
    kvGet s.sps (.blobber, r.reqId) = some L.sp := by
  unfold loadBlobber at h
  cases hp : kvGet s.provs r.reqId with
  | none => simp [hp] at h
  | some p =>
    simp only [hp] at h
    split at h
    · cases h
    · rename_i hk
      rw [getSP_eq] at h
      cases hs : kvGet s.sps (Kind.blobber, r.reqId) with
      | none => simp [hs] at h
      | some sp =>
        simp only [hs] at h
        injection h with h
        subst h
        exact ⟨rfl, rfl, rfl, by simpa using hk, rfl⟩

theorem loadValidator_ok {cfg : Cfg} {s : State} {r : Req} {L : Loaded} (h : loadValidator cfg s r = .ok L) :
    L.pid = r.reqId ∧ kvGet s.provs r.reqId = some L.p ∧ L.st.provs = s.provs ∧ L.st.sps = s.sps ∧
    L.st.accts = s.accts ∧ L.st.order = s.order ∧
    (L.st.vpart = s.vpart ∨ L.st.vpart = s.vpart.filter (· ≠ r.reqId)) ∧
    getSP s L.p.kind r.reqId = some L.sp := by
  unfold loadValidator at h
  cases hp : kvGet s.provs r.reqId with
  | none => simp [hp] at h
  | some p =>
    simp only [hp] at h
    split at h
    · cases h
    · by_cases hd : cfg.demeter = true
      · simp only [hd, ↓reduceIte] at h
        have hg : getSP { s with vpart := s.vpart.filter (· ≠ r.reqId) } p.kind r.reqId = getSP s p.kind r.reqId := rfl
        rw [hg] at h
        cases hs : getSP s p.kind r.reqId with
        | none => simp [hs] at h
        | some sp =>
          simp only [hs] at h
          injection h with h
          subst h
          exact ⟨rfl, rfl, rfl, rfl, rfl, rfl, Or.inr rfl, hs⟩
      · have hd' : cfg.demeter = false := by simpa using hd
        simp only [hd', Bool.false_eq_true, ↓reduceIte] at h
        cases hs : getSP s p.kind r.reqId with
        | none => simp [hs] at h
        | some sp =>
          simp only [hs] at h
          injection h with h
          subst h
          exact ⟨rfl, rfl, rfl, rfl, rfl, rfl, Or.inl rfl, hs⟩

/-! ## inversion of provider.Kill / provider.ShutDown -/

theorem provKill_done {load : State → Req → Except Err Loaded} {refresh : Option (State → Req → Except Err State)}
    {owner : Id} {slash : F64} {key : SaveKey} {s : State} {r : Req} {st : State} {pid : Id} {p : Prov} {sp : SP}
    (h : provKill load refresh owner slash key s r = .done st pid p sp) :
    ∃ L, load s r = .ok L ∧ owner = r.caller ∧ L.p.killed = false ∧ L.p.shutDown = false ∧
      spKill L.sp slash = .ok sp ∧ p = { L.p with killed := true } ∧ pid = L.pid ∧
      st = putSP L.st L.p.kind (key.eval r L.pid) sp := by
  unfold provKill at h
  cases hl : load s r with
  | error e => simp [hl] at h
  | ok L =>
    simp only [hl] at h
    split at h
    · cases h
    · rename_i ho
      split at h
      · cases refresh with
        | none => cases h
        | some f =>
          simp only at h
          cases hf : f L.st r <;> simp [hf] at h
      · rename_i hlive
        cases hk : spKill L.sp slash with
        | error e => simp [hk] at h
        | ok sp' =>
          simp only [hk] at h
          injection h with h1 h2 h3 h4
          subst h1 h2 h3 h4
          simp only [Bool.or_eq_true, not_or, Bool.not_eq_true] at hlive
          exact ⟨L, rfl, by simpa using ho, hlive.1, hlive.2, hk, rfl, rfl, rfl⟩

theorem provKill_already {load : State → Req → Except Err Loaded} {refresh : Option (State → Req → Except Err State)}
    {owner : Id} {slash : F64} {key : SaveKey} {s : State} {r : Req} {st : State}
    (h : provKill load refresh owner slash key s r = .already st) :
    ∃ L, load s r = .ok L ∧ owner = r.caller ∧ (L.p.killed = true ∨ L.p.shutDown = true) ∧
      ((refresh = none ∧ st = L.st) ∨ ∃ f, refresh = some f ∧ f L.st r = .ok st) := by
  unfold provKill at h
  cases hl : load s r with
  | error e => simp [hl] at h
  | ok L =>
    simp only [hl] at h
    split at h
    · cases h
    · rename_i ho
      split at h
      · rename_i hdead
        simp only [Bool.or_eq_true] at hdead
        cases refresh with
        | none =>
          simp only at h
          injection h with h
          exact ⟨L, rfl, by simpa using ho, hdead, Or.inl ⟨rfl, h.symm⟩⟩
        | some f =>
          simp only at h
          cases hf : f L.st r with
          | error e => simp [hf] at h
          | ok st' =>
            simp only [hf] at h
            injection h with h
            exact ⟨L, rfl, by simpa using ho, hdead, Or.inr ⟨f, rfl, by rw [hf, h]⟩⟩
      · cases hk : spKill L.sp slash <;> simp [hk] at h

theorem provShutDown_done {load : State → Req → Except Err Loaded} {refresh : Option (State → Req → Except Err State)}
    {owner : Id} {slash : F64} {key : SaveKey} {s : State} {r : Req} {st : State} {pid : Id} {p : Prov} {sp : SP}
    (h : provShutDown load refresh owner slash key s r = .done st pid p sp) :
    ∃ L, load s r = .ok L ∧ (owner = r.caller ∨ L.sp.wallet = some r.caller) ∧ L.p.killed = false ∧ L.p.shutDown = false ∧
      spKill L.sp slash = .ok sp ∧ p = { L.p with shutDown := true } ∧ pid = L.pid ∧
      st = putSP L.st L.p.kind (key.eval r L.pid) sp := by
  unfold provShutDown at h
  cases hl : load s r with
  | error e => simp [hl] at h
  | ok L =>
    simp only [hl] at h
    split at h
    · cases h
    · rename_i hau
      split at h
      · cases refresh with
        | none => cases h
        | some f =>
          simp only at h
          cases hf : f L.st r <;> simp [hf] at h
      · rename_i hlive
        cases hk : spKill L.sp slash with
        | error e => simp [hk] at h
        | ok sp' =>
          simp only [hk] at h
          injection h with h1 h2 h3 h4
          subst h1 h2 h3 h4
          simp only [Bool.or_eq_true, not_or, Bool.not_eq_true] at hlive
          exact ⟨L, rfl, Classical.not_not.mp hau, hlive.1, hlive.2, hk, rfl, rfl, rfl⟩

theorem provShutDown_already {load : State → Req → Except Err Loaded} {refresh : Option (State → Req → Except Err State)}
    {owner : Id} {slash : F64} {key : SaveKey} {s : State} {r : Req} {st : State}
    (h : provShutDown load refresh owner slash key s r = .already st) :
    ∃ L, load s r = .ok L ∧ (owner = r.caller ∨ L.sp.wallet = some r.caller) ∧
      (L.p.killed = true ∨ L.p.shutDown = true) ∧
      ((refresh = none ∧ st = L.st) ∨ ∃ f, refresh = some f ∧ f L.st r = .ok st) := by
  unfold provShutDown at h
  cases hl : load s r with
  | error e => simp [hl] at h
  | ok L =>
    simp only [hl] at h
    split at h
    · cases h
    · rename_i hau
      have hau' := Classical.not_not.mp hau
      split at h
      · rename_i hdead
        simp only [Bool.or_eq_true] at hdead
        cases refresh with
        | none =>
          simp only at h
          injection h with h
          exact ⟨L, rfl, hau', hdead, Or.inl ⟨rfl, h.symm⟩⟩
        | some f =>
          simp only at h
          cases hf : f L.st r with
          | error e => simp [hf] at h
          | ok st' =>
            simp only [hf] at h
            injection h with h
            exact ⟨L, rfl, hau', hdead, Or.inr ⟨f, rfl, by rw [hf, h]⟩⟩
      · cases hk : spKill L.sp slash <;> simp [hk] at h

/-! ## slashing -/

theorem slashPools_get {red : F64} : ∀ {ps ps' : List (Id × DP)}, slashPools red ps = .ok ps' →
    ∀ j d, kvGet ps j = some d → ∃ b, multFloat64 d.balance red = .ok b ∧ kvGet ps' j = some { d with balance := b } := by
  intro ps
  induction ps with
  | nil => intro ps' _ j d hd; simp [kvGet] at hd
  | cons p rest ih =>
    intro ps' h j d hd
    obtain ⟨i, x⟩ := p
    unfold slashPools at h
    cases hm : multFloat64 x.balance red with
    | error e => simp [hm] at h
    | ok b =>
      simp only [hm] at h
      cases hr : slashPools red rest with
      | error e => simp [hr] at h
      | ok rest' =>
        simp only [hr] at h
        injection h with h
        subst h
        unfold kvGet at hd ⊢
        by_cases hij : i = j
        · simp only [hij, ↓reduceIte] at hd ⊢
          injection hd with hd
          subst hd
          exact ⟨b, hm, rfl⟩
        · simp only [hij, ↓reduceIte] at hd ⊢
          exact ih hr j d hd

theorem slashPools_none {red : F64} : ∀ {ps ps' : List (Id × DP)}, slashPools red ps = .ok ps' →
    ∀ j, kvGet ps j = none → kvGet ps' j = none := by
  intro ps
  induction ps with
  | nil => intro ps' h j _; simp [slashPools] at h; subst h; rfl
  | cons p rest ih =>
    intro ps' h j hd
    obtain ⟨i, x⟩ := p
    unfold slashPools at h
    cases hm : multFloat64 x.balance red with
    | error e => simp [hm] at h
    | ok b =>
      simp only [hm] at h
      cases hr : slashPools red rest with
      | error e => simp [hr] at h
      | ok rest' =>
        simp only [hr] at h
        injection h with h
        subst h
        unfold kvGet at hd ⊢
        by_cases hij : i = j
        · simp [hij] at hd
        · simp only [hij, ↓reduceIte] at hd ⊢
          exact ih hr j hd

theorem slashPools_isEmpty {red : F64} {ps ps' : List (Id × DP)} (h : slashPools red ps = .ok ps') :
    ps'.isEmpty = ps.isEmpty := by
  cases ps with
  | nil => simp [slashPools] at h; subst h; rfl
  | cons p rest =>
    obtain ⟨i, x⟩ := p
    unfold slashPools at h
    cases hm : multFloat64 x.balance red with
    | error e => simp [hm] at h
    | ok b =>
      simp only [hm] at h
      cases hr : slashPools red rest with
      | error e => simp [hr] at h
      | ok rest' =>
        simp only [hr] at h
        injection h with h
        subst h
        rfl

/-- what `Kill` does to a pool: the dead flag, and every delegate balance multiplied once by `1 − slash` (truncated);
nothing else changes. -/
theorem spKill_spec {sp sp' : SP} {slash : F64} (h : spKill sp slash = .ok sp') :
    sp'.dead = true ∧ sp'.reward = sp.reward ∧ sp'.wallet = sp.wallet ∧ sp'.offers = sp.offers ∧
    sp'.maxDelegates = sp.maxDelegates ∧ sp'.minStake = sp.minStake ∧ sp'.ratio = sp.ratio ∧
    sp'.pools.isEmpty = sp.pools.isEmpty ∧
    ((F64.eq slash F64.zero = true ∧ sp'.pools = sp.pools) ∨
     (F64.eq slash F64.zero = false ∧ slashPools (reduction slash) sp.pools = .ok sp'.pools)) := by
  unfold spKill slashFraction at h
  split at h
  · rename_i hz
    injection h with h
    subst h
    exact ⟨rfl, rfl, rfl, rfl, rfl, rfl, rfl, rfl, Or.inl ⟨hz, rfl⟩⟩
  · rename_i hz
    split at h
    · cases h
    · simp only at h
      cases hs : slashPools (reduction slash) sp.pools with
      | error e => simp [hs] at h
      | ok ps =>
        simp only [hs] at h
        injection h with h
        subst h
        exact ⟨rfl, rfl, rfl, rfl, rfl, rfl, rfl, slashPools_isEmpty hs, Or.inr ⟨by simpa using hz, rfl⟩⟩

/-! ## frames of the wrappers -/

/-- what slashing and rewards are about in a pool: the delegate pools, the dead flag, the provider's reward. -/
def stakeView (sp : SP) : List (Id × DP) × Bool × Nat := (sp.pools, sp.dead, sp.reward)

theorem refreshBlobberOffers_ok {s st : State} {r : Req} (h : refreshBlobberOffers s r = .ok st) :
    ∃ sp, kvGet s.sps (.blobber, r.reqId) = some sp ∧ st = putSP s .blobber r.reqId { sp with offers := 0 } := by
  unfold refreshBlobberOffers at h
  rw [getSP_eq] at h
  cases hs : kvGet s.sps (Kind.blobber, r.reqId) with
  | none => simp [hs] at h
  | some sp =>
    simp only [hs] at h
    injection h with h
    exact ⟨sp, rfl, h.symm⟩

theorem refreshBlobberOffers_view {s st : State} {r : Req} (h : refreshBlobberOffers s r = .ok st) :
    st.provs = s.provs ∧ st.vpart = s.vpart ∧ st.accts = s.accts ∧
    ∀ kk, (kvGet st.sps kk).map stakeView = (kvGet s.sps kk).map stakeView := by
  obtain ⟨sp, hs, rfl⟩ := refreshBlobberOffers_ok h
  refine ⟨rfl, rfl, rfl, fun kk => ?_⟩
  by_cases hk : kk = (Kind.blobber, r.reqId)
  · subst hk
    rw [getSP_putSP_eq s .blobber r.reqId _, hs]
    rfl
  · rw [sps_putSP_ne s .blobber r.reqId _ kk hk]

theorem frame_finishStorage (st : State) (pid : Id) (p : Prov) (sp : SP) (flag : Bool) (ks : List (Kind × Id))
    (h : (p.kind, pid) ∈ ks) : Frame st (finishStorage st pid p sp flag) pid ks := by
  unfold finishStorage
  split
  · exact (frame_delProv st pid ks).trans (frame_delSP _ pid p.kind pid ks h)
  · exact frame_putProv st pid p ks

/-- the records a storage-contract kill / shut-down of the provider at `req.ID` may touch, for a given save key. -/
def touched (key : SaveKey) (s : State) (r : Req) : List (Kind × Id) :=
  match kvGet s.provs r.reqId with
  | some p => [(p.kind, key.eval r r.reqId), (p.kind, r.reqId)]
  | none => []

theorem mem_touched {key : SaveKey} {s : State} {r : Req} {p : Prov} (hp : kvGet s.provs r.reqId = some p) :
    (p.kind, key.eval r r.reqId) ∈ touched key s r ∧ (p.kind, r.reqId) ∈ touched key s r := by
  unfold touched; simp [hp]

theorem frame_of_loadValidator {cfg : Cfg} {s : State} {r : Req} {L : Loaded} (h : loadValidator cfg s r = .ok L)
    (ks : List (Kind × Id)) : Frame s L.st r.reqId ks := by
  obtain ⟨_, _, h3, h4, h5, h6, h7, _⟩ := loadValidator_ok h
  exact ⟨h5, h6, fun j _ => by rw [h3], fun kk _ => by rw [h4], h7⟩

theorem killBlobberK_frame {key : SaveKey} {cfg : Cfg} {s s' : State} {r : Req}
    (h : killBlobberK key cfg s r = .ok s') : Frame s s' r.reqId (touched key s r) := by
  unfold killBlobberK at h
  cases hr : provKill loadBlobber (some refreshBlobberOffers) cfg.owner cfg.killSlash key s r with
  | err e => simp [hr] at h
  | already st =>
    simp only [hr] at h
    injection h with h; subst h
    obtain ⟨L, hl, _, _, hre⟩ := provKill_already hr
    obtain ⟨hpid, hst, hp, hk, _⟩ := loadBlobber_ok hl
    rcases hre with ⟨hn, _⟩ | ⟨f, hf, hfr⟩
    · cases hn
    · injection hf with hf; subst hf
      rw [hst] at hfr
      obtain ⟨sp, _, rfl⟩ := refreshBlobberOffers_ok hfr
      exact frame_putSP s r.reqId .blobber r.reqId _ _ (hk ▸ (mem_touched hp).2)
  | done st pid p sp =>
    simp only [hr] at h
    injection h with h; subst h
    obtain ⟨L, hl, _, _, _, _, hp', hpid', hst'⟩ := provKill_done hr
    obtain ⟨hpid, hst, hp, hk, _⟩ := loadBlobber_ok hl
    subst hp' hpid' hst'
    rw [hst, hpid, hk]
    have hks : (Kind.blobber, key.eval r r.reqId) ∈ touched key s r := hk ▸ (mem_touched hp).1
    have hks2 : (Kind.blobber, r.reqId) ∈ touched key s r := hk ▸ (mem_touched hp).2
    exact (frame_putSP s r.reqId .blobber _ sp _ hks).trans
      (frame_finishStorage _ r.reqId _ sp true _ (by simpa [hk] using hks2))

theorem shutdownBlobberK_frame {key : SaveKey} {cfg : Cfg} {s s' : State} {r : Req}
    (h : shutdownBlobberK key cfg s r = .ok s') : Frame s s' r.reqId (touched key s r) := by
  unfold shutdownBlobberK at h
  cases hr : provShutDown loadBlobber (some refreshBlobberOffers) cfg.owner (halfSlash cfg) key s r with
  | err e => simp [hr] at h
  | already st =>
    simp only [hr] at h
    injection h with h; subst h
    obtain ⟨L, hl, _, _, hre⟩ := provShutDown_already hr
    obtain ⟨hpid, hst, hp, hk, _⟩ := loadBlobber_ok hl
    rcases hre with ⟨hn, _⟩ | ⟨f, hf, hfr⟩
    · cases hn
    · injection hf with hf; subst hf
      rw [hst] at hfr
      obtain ⟨sp, _, rfl⟩ := refreshBlobberOffers_ok hfr
      exact frame_putSP s r.reqId .blobber r.reqId _ _ (hk ▸ (mem_touched hp).2)
  | done st pid p sp =>
    simp only [hr] at h
    injection h with h; subst h
    obtain ⟨L, hl, _, _, _, _, hp', hpid', hst'⟩ := provShutDown_done hr
    obtain ⟨hpid, hst, hp, hk, _⟩ := loadBlobber_ok hl
    subst hp' hpid' hst'
    rw [hst, hpid, hk]
    have hks : (Kind.blobber, key.eval r r.reqId) ∈ touched key s r := hk ▸ (mem_touched hp).1
    have hks2 : (Kind.blobber, r.reqId) ∈ touched key s r := hk ▸ (mem_touched hp).2
    exact (frame_putSP s r.reqId .blobber _ sp _ hks).trans
      (frame_finishStorage _ r.reqId _ sp true _ (by simpa [hk] using hks2))

theorem killValidatorK_frame {key : SaveKey} {cfg : Cfg} {s s' : State} {r : Req}
    (h : killValidatorK key cfg s r = .ok s') : Frame s s' r.reqId (touched key s r) := by
  unfold killValidatorK at h
  cases hr : provKill (loadValidator cfg) none cfg.owner cfg.killSlash key s r with
  | err e => simp [hr] at h
  | already st => simp [hr] at h
  | done st pid p sp =>
    simp only [hr] at h
    split at h
    · cases h
    · injection h with h; subst h
      obtain ⟨L, hl, _, _, _, _, hp', hpid', hst'⟩ := provKill_done hr
      obtain ⟨hpid, hp, _⟩ := loadValidator_ok hl
      subst hp' hpid' hst'
      rw [hpid]
      have hks : (L.p.kind, key.eval r r.reqId) ∈ touched key s r := (mem_touched hp).1
      have hks2 : (L.p.kind, r.reqId) ∈ touched key s r := (mem_touched hp).2
      exact ((frame_of_loadValidator hl _).trans (frame_putSP L.st r.reqId L.p.kind _ sp _ hks)).trans
        (frame_finishStorage _ r.reqId _ sp false _ hks2)

theorem shutdownValidatorK_frame {key : SaveKey} {cfg : Cfg} {s s' : State} {r : Req}
    (h : shutdownValidatorK key cfg s r = .ok s') : Frame s s' r.reqId (touched key s r) := by
  unfold shutdownValidatorK at h
  cases hr : provShutDown (loadValidator cfg) (some refreshBlobberOffers) cfg.owner (halfSlash cfg) key s r with
  | err e => simp [hr] at h
  | already st => simp [hr] at h
  | done st pid p sp =>
    simp only [hr] at h
    split at h
    · cases h
    · injection h with h; subst h
      obtain ⟨L, hl, _, _, _, _, hp', hpid', hst'⟩ := provShutDown_done hr
      obtain ⟨hpid, hp, _⟩ := loadValidator_ok hl
      subst hp' hpid' hst'
      rw [hpid]
      have hks : (L.p.kind, key.eval r r.reqId) ∈ touched key s r := (mem_touched hp).1
      have hks2 : (L.p.kind, r.reqId) ∈ touched key s r := (mem_touched hp).2
      exact ((frame_of_loadValidator hl _).trans (frame_putSP L.st r.reqId L.p.kind _ sp _ hks)).trans
        (frame_finishStorage _ r.reqId _ sp false _ hks2)

theorem killMinerNode_frame {k : Kind} {cfg : Cfg} {s s' : State} {r : Req} {key : SaveKey}
    (h : killMinerNode k cfg s r = .ok s') : Frame s s' r.reqId (touched key s r) := by
  unfold killMinerNode at h
  split at h
  · cases h
  · cases hp : kvGet s.provs r.reqId with
    | none => simp [hp] at h
    | some p =>
      simp only [hp] at h
      split at h
      · cases h
      · rename_i hk
        cases hs : kvGet s.sps (k, r.reqId) with
        | none => simp [hs] at h
        | some sp =>
          simp only [hs] at h
          split at h
          · cases h
          · injection h with h; subst h
            have hk' : p.kind = k := by simpa using hk
            have hks2 : (k, r.reqId) ∈ touched key s r := hk' ▸ (mem_touched hp).2
            exact (frame_putProv s r.reqId _ _).trans (frame_putSP _ r.reqId k r.reqId _ _ hks2)

/-! ## a flagged provider: only the already-branch is left -/

theorem live_flagged_absurd {p q : Prov} (he : some q = some p) (h1 : q.killed = false) (h2 : q.shutDown = false)
    (hf : p.killed = true ∨ p.shutDown = true) : False := by
  injection he with he; subst he
  rcases hf with h | h
  · rw [h1] at h; cases h
  · rw [h2] at h; cases h

/-- what stays fixed when the already-branch ran. -/
def SameStake (s s' : State) : Prop :=
  s'.provs = s.provs ∧ s'.vpart = s.vpart ∧ s'.accts = s.accts ∧
  ∀ kk, (kvGet s'.sps kk).map stakeView = (kvGet s.sps kk).map stakeView

theorem SameStake.refl (s : State) : SameStake s s := ⟨rfl, rfl, rfl, fun _ => rfl⟩

theorem killBlobberK_flagged {key : SaveKey} {cfg : Cfg} {s s' : State} {r : Req} {p : Prov}
    (hp : kvGet s.provs r.reqId = some p) (hf : p.killed = true ∨ p.shutDown = true)
    (h : killBlobberK key cfg s r = .ok s') : SameStake s s' := by
  unfold killBlobberK at h
  cases hr : provKill loadBlobber (some refreshBlobberOffers) cfg.owner cfg.killSlash key s r with
  | err e => simp [hr] at h
  | already st =>
    simp only [hr] at h
    injection h with h; subst h
    obtain ⟨L, hl, _, _, hre⟩ := provKill_already hr
    obtain ⟨_, hst, _, _, _⟩ := loadBlobber_ok hl
    rcases hre with ⟨hn, _⟩ | ⟨f, hf', hfr⟩
    · cases hn
    · injection hf' with hf'; subst hf'
      rw [hst] at hfr
      exact refreshBlobberOffers_view hfr
  | done st pid q sp =>
    obtain ⟨L, hl, _, h1, h2, _⟩ := provKill_done hr
    obtain ⟨_, _, hp', _, _⟩ := loadBlobber_ok hl
    exact (live_flagged_absurd (hp'.symm.trans hp) h1 h2 hf).elim

theorem shutdownBlobberK_flagged {key : SaveKey} {cfg : Cfg} {s s' : State} {r : Req} {p : Prov}
    (hp : kvGet s.provs r.reqId = some p) (hf : p.killed = true ∨ p.shutDown = true)
    (h : shutdownBlobberK key cfg s r = .ok s') : SameStake s s' := by
  unfold shutdownBlobberK at h
  cases hr : provShutDown loadBlobber (some refreshBlobberOffers) cfg.owner (halfSlash cfg) key s r with
  | err e => simp [hr] at h
  | already st =>
    simp only [hr] at h
    injection h with h; subst h
    obtain ⟨L, hl, _, _, hre⟩ := provShutDown_already hr
    obtain ⟨_, hst, _, _, _⟩ := loadBlobber_ok hl
    rcases hre with ⟨hn, _⟩ | ⟨f, hf', hfr⟩
    · cases hn
    · injection hf' with hf'; subst hf'
      rw [hst] at hfr
      exact refreshBlobberOffers_view hfr
  | done st pid q sp =>
    obtain ⟨L, hl, _, h1, h2, _⟩ := provShutDown_done hr
    obtain ⟨_, _, hp', _, _⟩ := loadBlobber_ok hl
    exact (live_flagged_absurd (hp'.symm.trans hp) h1 h2 hf).elim

theorem killValidatorK_flagged {key : SaveKey} {cfg : Cfg} {s s' : State} {r : Req} {p : Prov}
    (hp : kvGet s.provs r.reqId = some p) (hf : p.killed = true ∨ p.shutDown = true)
    (h : killValidatorK key cfg s r = .ok s') : False := by
  unfold killValidatorK at h
  cases hr : provKill (loadValidator cfg) none cfg.owner cfg.killSlash key s r with
  | err e => simp [hr] at h
  | already st => simp [hr] at h
  | done st pid q sp =>
    obtain ⟨L, hl, _, h1, h2, _⟩ := provKill_done hr
    obtain ⟨_, hp', _⟩ := loadValidator_ok hl
    exact live_flagged_absurd (hp'.symm.trans hp) h1 h2 hf

theorem shutdownValidatorK_flagged {key : SaveKey} {cfg : Cfg} {s s' : State} {r : Req} {p : Prov}
    (hp : kvGet s.provs r.reqId = some p) (hf : p.killed = true ∨ p.shutDown = true)
    (h : shutdownValidatorK key cfg s r = .ok s') : False := by
  unfold shutdownValidatorK at h
  cases hr : provShutDown (loadValidator cfg) (some refreshBlobberOffers) cfg.owner (halfSlash cfg) key s r with
  | err e => simp [hr] at h
  | already st => simp [hr] at h
  | done st pid q sp =>
    obtain ⟨L, hl, _, h1, h2, _⟩ := provShutDown_done hr
    obtain ⟨_, hp', _⟩ := loadValidator_ok hl
    exact live_flagged_absurd (hp'.symm.trans hp) h1 h2 hf

/-! ## unauthorised callers -/

theorem provKill_unauth {load : State → Req → Except Err Loaded} {refresh : Option (State → Req → Except Err State)}
    {owner : Id} {slash : F64} {key : SaveKey} {s : State} {r : Req} (h : owner ≠ r.caller) :
    ∃ e, provKill load refresh owner slash key s r = .err e := by
  unfold provKill
  cases load s r with
  | error e => exact ⟨e, rfl⟩
  | ok L => exact ⟨.unauthorized, by simp [h]⟩

/-- `provider.ShutDown` by a caller who is neither the owner nor the loaded pool's delegate wallet: always an error —
whatever state the provider is in (the authorisation precedes the already-shut-down branch). -/
theorem provShutDown_unauth {load : State → Req → Except Err Loaded} {refresh : Option (State → Req → Except Err State)}
    {owner : Id} {slash : F64} {key : SaveKey} {s : State} {r : Req} (h : owner ≠ r.caller)
    (hw : ∀ L, load s r = .ok L → L.sp.wallet ≠ some r.caller) :
    ∃ e, provShutDown load refresh owner slash key s r = .err e := by
  unfold provShutDown
  cases hl : load s r with
  | error e => exact ⟨e, rfl⟩
  | ok L =>
    refine ⟨.unauthorized, ?_⟩
    have h1 := hw L hl
    simp only [h, h1, or_self, not_false_eq_true, ↓reduceIte]

/-! ## slashing never adds stake -/

theorem lt_fin_false_zero (m E : Nat) : F64.lt (.fin false m E) F64.zero = false := by
  simp [F64.lt, F64.zero, F64.sval]

theorem roundDiv_false_lt_zero (N D : Nat) : F64.lt (F64.roundDiv false N D) F64.zero = false := by
  unfold F64.roundDiv
  simp only
  split <;> split <;> first | rfl | exact lt_fin_false_zero _ _

/-- `MultFloat64(c, r)` for a finite factor `0 ≤ r ≤ 1` and `c < 2^53` is defined and does not exceed `c`. -/
theorem multFloat64_le (c : Nat) (hc : c < 2 ^ 53) (m E : Nat) (hr : m * 2 ^ E ≤ 2 ^ 1074) :
    ∃ n, multFloat64 c (.fin false m E) = .ok n ∧ n ≤ c := by
  obtain ⟨n, hn, hle⟩ := F64.toNatTrunc_mul_le c hc m E hr
  refine ⟨n, ?_, hle⟩
  have hb : F64.lt (F64.mul (F64.ofNat c) (.fin false m E)) F64.zero = false := by
    unfold F64.ofNat
    generalize hx : F64.roundDiv false (c * 2 ^ 1074) 1 = x
    have hxs : F64.lt x F64.zero = false := by rw [← hx]; exact roundDiv_false_lt_zero _ _
    cases x with
    | nan => rfl
    | inf s =>
      cases s
      · simp only [F64.mul]; split <;> rfl
      · simp [F64.lt, F64.zero] at hxs
    | fin s mx Ex =>
      cases s
      · simp only [F64.mul, bne_self_eq_false]; exact roundDiv_false_lt_zero _ _
      · exfalso
        unfold F64.roundDiv at hx
        simp only at hx
        split at hx <;> split at hx <;> cases hx
  unfold multFloat64 float64ToCoin
  rw [lt_fin_false_zero]
  simp only [Bool.false_eq_true, ↓reduceIte, hb, hn]

end ZChain.Provider
