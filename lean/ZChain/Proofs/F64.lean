import ZChain.Base.Coin
import Mathlib.Tactic.Linarith
import Mathlib.Tactic.Ring
/-!
# Lemmas about `Base/F64` (the exact binary64 model) and `Base/Coin`

* `rne_mono`, `roundDiv_mono` — round-to-nearest-even is monotone (on exact rationals `N/D`);
* `roundDiv_repr` — representable values are fixed points of rounding;
* `ofNat_exact` — `float64(n)` is exact for `n < 2^53`;
* `mul_comm`;
* `toNatTrunc_mul_le` — `uint64(float64(c) * r) ≤ c` for `r ≤ 1`, `c < 2^53`;
* `toNatTrunc_mul_gt_witness` — and NOT for `c = 2^53 + 3`, `r = 1.0`.
-/
set_option linter.constructorNameAsVariable false

namespace ZChain.F64

/-! ## `bitlen` -/

theorem p2 (k : Nat) : 0 < 2 ^ k := Nat.pow_pos (by decide)

theorem bitlen_le_iff (n k : Nat) : bitlen n ≤ k ↔ n < 2 ^ k := by
  unfold bitlen
  split
  · subst_vars; simp
  · rename_i h
    rw [← Nat.log2_lt h]; omega

theorem lt_bitlen_iff (n k : Nat) : k < bitlen n ↔ 2 ^ k ≤ n := by
  have := bitlen_le_iff n k
  omega

theorem bitlen_mono {a b : Nat} (h : a ≤ b) : bitlen a ≤ bitlen b := by
  rw [bitlen_le_iff]
  have : b < 2 ^ bitlen b := (bitlen_le_iff b _).mp (Nat.le_refl _)
  omega

theorem lt_two_pow_bitlen (n : Nat) : n < 2 ^ bitlen n := (bitlen_le_iff n _).mp (Nat.le_refl _)

theorem bitlen_mul_two_pow (n k : Nat) (hn : 0 < n) : bitlen (n * 2 ^ k) = bitlen n + k := by
  apply Nat.le_antisymm
  · rw [bitlen_le_iff, Nat.pow_add]
    exact Nat.mul_lt_mul_of_lt_of_le (lt_two_pow_bitlen n) (Nat.le_refl _) (p2 _)
  · have h1 : 0 < bitlen n := by
      rw [lt_bitlen_iff]; simp only [Nat.pow_zero]; exact hn
    have h2 : 2 ^ (bitlen n - 1) ≤ n := by
      rw [← lt_bitlen_iff]; omega
    have : bitlen n + k - 1 < bitlen (n * 2 ^ k) := by
      rw [lt_bitlen_iff]
      have : bitlen n + k - 1 = (bitlen n - 1) + k := by omega
      rw [this, Nat.pow_add]
      exact Nat.mul_le_mul_right _ h2
    omega

/-! ## `rne` -/

theorem div_le_rne (N D : Nat) : N / D ≤ rne N D := by
  unfold rne; simp only; split <;> omega

theorem rne_le_succ (N D : Nat) : rne N D ≤ N / D + 1 := by
  unfold rne; simp only; split <;> omega

theorem rne_mul_self (k D : Nat) (hD : 0 < D) : rne (k * D) D = k := by
  unfold rne
  simp only [Nat.mul_mod_left, Nat.mul_div_cancel _ hD]
  rw [if_neg]; omega

theorem div_le_div_of_cross {N1 D1 N2 D2 : Nat} (h1 : 0 < D1) (h2 : 0 < D2) (h : N1 * D2 ≤ N2 * D1) :
    N1 / D1 ≤ N2 / D2 := by
  rw [Nat.le_div_iff_mul_le h2]
  have a : N1 / D1 * D1 ≤ N1 := Nat.div_mul_le_self _ _
  have b : N1 / D1 * D2 * D1 ≤ N2 * D1 := by
    calc N1 / D1 * D2 * D1 = N1 / D1 * D1 * D2 := by ring
      _ ≤ N1 * D2 := Nat.mul_le_mul_right _ a
      _ ≤ N2 * D1 := h
  exact Nat.le_of_mul_le_mul_right b h1

/-- round-half-even is monotone on non-negative rationals. -/
theorem rne_mono {N1 D1 N2 D2 : Nat} (h1 : 0 < D1) (h2 : 0 < D2) (h : N1 * D2 ≤ N2 * D1) :
    rne N1 D1 ≤ rne N2 D2 := by
  have hq := div_le_div_of_cross h1 h2 h
  rcases Nat.lt_or_eq_of_le hq with hlt | heq
  · calc rne N1 D1 ≤ N1 / D1 + 1 := rne_le_succ _ _
      _ ≤ N2 / D2 := hlt
      _ ≤ rne N2 D2 := div_le_rne _ _
  · -- same integer part: compare the remainders
    have e1 := Nat.div_add_mod N1 D1
    have e2 := Nat.div_add_mod N2 D2
    have hr : N1 % D1 * D2 ≤ N2 % D2 * D1 := by
      have : (D1 * (N1 / D1) + N1 % D1) * D2 ≤ (D2 * (N2 / D2) + N2 % D2) * D1 := by rw [e1, e2]; exact h
      rw [heq] at this
      nlinarith
    unfold rne
    simp only
    rw [heq]
    by_cases up1 : D1 < 2 * (N1 % D1) ∨ (2 * (N1 % D1) = D1 ∧ N2 / D2 % 2 = 1)
    · have up2 : D2 < 2 * (N2 % D2) ∨ (2 * (N2 % D2) = D2 ∧ N2 / D2 % 2 = 1) := by
        rcases up1 with hgt | ⟨htie, hodd⟩
        · left
          have : D1 * D2 < 2 * (N2 % D2) * D1 := by nlinarith
          have : D2 * D1 < 2 * (N2 % D2) * D1 := by rw [Nat.mul_comm D2 D1]; exact this
          exact Nat.lt_of_mul_lt_mul_right this
        · have : D2 * D1 ≤ 2 * (N2 % D2) * D1 := by nlinarith
          have : D2 ≤ 2 * (N2 % D2) := Nat.le_of_mul_le_mul_right this h1
          rcases Nat.lt_or_eq_of_le this with a | a
          · left; exact a
          · right; exact ⟨a.symm, hodd⟩
      rw [if_pos up1, if_pos up2]
    · rw [if_neg up1]; split <;> omega

theorem rne_le_of_lt {N D k : Nat} (hD : 0 < D) (h : N < k * D) : rne N D ≤ k := by
  have : N / D < k := (Nat.div_lt_iff_lt_mul hD).mpr h
  have := rne_le_succ N D
  omega

theorem le_rne_of_le {N D k : Nat} (hD : 0 < D) (h : k * D ≤ N) : k ≤ rne N D := by
  have : k ≤ N / D := (Nat.le_div_iff_mul_le hD).mpr h
  have := div_le_rne N D
  omega

/-! ## `roundDiv`: bounds on the raw mantissa -/

/-- the exponent chosen by `roundDiv`. -/
def expOf (N D : Nat) : Nat := bitlen (N / D) - 53
/-- the raw (pre-normalisation) mantissa chosen by `roundDiv`. -/
def mantOf (N D : Nat) : Nat := rne N (D * 2 ^ expOf N D)

/-- final mantissa / exponent after the normalisation step. -/
def finM (N D : Nat) : Nat := if mantOf N D = 2 ^ 53 then 2 ^ 52 else mantOf N D
def finE (N D : Nat) : Nat := if mantOf N D = 2 ^ 53 then expOf N D + 1 else expOf N D

theorem roundDiv_eq (s : Bool) (N D : Nat) :
    roundDiv s N D = if 2045 < finE N D then .inf s else .fin s (finM N D) (finE N D) := rfl

theorem mantOf_le (N D : Nat) (hD : 0 < D) : mantOf N D ≤ 2 ^ 53 := by
  unfold mantOf
  apply rne_le_of_lt (Nat.mul_pos hD (p2 _))
  -- N / D < 2^(expOf + 53)
  have h1 : N / D < 2 ^ (expOf N D + 53) := by
    rw [← bitlen_le_iff]; unfold expOf; omega
  have h2 : N < 2 ^ (expOf N D + 53) * D := (Nat.div_lt_iff_lt_mul hD).mp h1
  calc N < 2 ^ (expOf N D + 53) * D := h2
    _ = 2 ^ 53 * (D * 2 ^ expOf N D) := by rw [Nat.pow_add]; ring

theorem le_mantOf (N D : Nat) (hD : 0 < D) (hE : 0 < expOf N D) : 2 ^ 52 ≤ mantOf N D := by
  unfold mantOf
  apply le_rne_of_le (Nat.mul_pos hD (p2 _))
  have h1 : 2 ^ (expOf N D + 52) ≤ N / D := by
    rw [← lt_bitlen_iff]; unfold expOf at *; omega
  have h2 : 2 ^ (expOf N D + 52) * D ≤ N := (Nat.le_div_iff_mul_le hD).mp h1
  calc 2 ^ 52 * (D * 2 ^ expOf N D) = 2 ^ (expOf N D + 52) * D := by rw [Nat.pow_add]; ring
    _ ≤ N := h2

/-- `roundDiv` always returns a canonical value. -/
theorem roundDiv_canon (s : Bool) (N D : Nat) (hD : 0 < D) : Canon (roundDiv s N D) := by
  rw [roundDiv_eq]
  have hle := mantOf_le N D hD
  by_cases hE : 2045 < finE N D
  · rw [if_pos hE]; trivial
  · rw [if_neg hE]
    show (finM N D < 2 ^ 52 ∧ finE N D = 0) ∨ (2 ^ 52 ≤ finM N D ∧ finM N D < 2 ^ 53 ∧ finE N D ≤ 2045)
    unfold finM finE at *
    by_cases hm : mantOf N D = 2 ^ 53
    · simp only [hm, if_true] at hE ⊢
      right; refine ⟨Nat.le_refl _, by decide, by omega⟩
    · simp only [hm, if_false] at hE ⊢
      by_cases h0 : expOf N D = 0
      · by_cases hlt : mantOf N D < 2 ^ 52
        · left; exact ⟨hlt, h0⟩
        · right; omega
      · right
        have := le_mantOf N D hD (by omega)
        omega

/-! ## the order on (non-negative) results -/

/-- `a ≤ b` for results of `roundDiv false`: by exact magnitude; `+∞` is the top. -/
def leNN : F64 → F64 → Prop
  | .fin _ m1 E1, .fin _ m2 E2 => m1 * 2 ^ E1 ≤ m2 * 2 ^ E2
  | .fin _ _ _, .inf _ => True
  | .inf _, .inf _ => True
  | _, _ => False

/-- the normalisation step keeps the magnitude. -/
theorem norm_mag (N D : Nat) : finM N D * 2 ^ finE N D = mantOf N D * 2 ^ expOf N D := by
  unfold finM finE
  split
  · rename_i h; rw [h, Nat.pow_succ]; ring
  · rfl

/-- **rounding is monotone**: if `N1/D1 ≤ N2/D2` (cross-multiplied) then the rounded doubles are ordered. -/
theorem roundDiv_mono {N1 D1 N2 D2 : Nat} (h1 : 0 < D1) (h2 : 0 < D2) (h : N1 * D2 ≤ N2 * D1) :
    leNN (roundDiv false N1 D1) (roundDiv false N2 D2) := by
  have hq := div_le_div_of_cross h1 h2 h
  have hE : expOf N1 D1 ≤ expOf N2 D2 := by
    unfold expOf; have := bitlen_mono hq; omega
  have hm1 := mantOf_le N1 D1 h1
  have hm2 := mantOf_le N2 D2 h2
  -- magnitudes and final exponents are ordered
  have key : mantOf N1 D1 * 2 ^ expOf N1 D1 ≤ mantOf N2 D2 * 2 ^ expOf N2 D2 ∧
      finE N1 D1 ≤ finE N2 D2 := by
    unfold finE
    rcases Nat.lt_or_eq_of_le hE with hlt | heq
    · have hlow := le_mantOf N2 D2 h2 (by omega)
      constructor
      · calc mantOf N1 D1 * 2 ^ expOf N1 D1 ≤ 2 ^ 53 * 2 ^ expOf N1 D1 := Nat.mul_le_mul_right _ hm1
          _ = 2 ^ 52 * 2 ^ (expOf N1 D1 + 1) := by rw [Nat.pow_succ]; ring
          _ ≤ 2 ^ 52 * 2 ^ expOf N2 D2 := Nat.mul_le_mul_left _ (Nat.pow_le_pow_right (by decide) hlt)
          _ ≤ mantOf N2 D2 * 2 ^ expOf N2 D2 := Nat.mul_le_mul_right _ hlow
      · split <;> split <;> omega
    · have hmm : mantOf N1 D1 ≤ mantOf N2 D2 := by
        unfold mantOf
        rw [heq]
        apply rne_mono (Nat.mul_pos h1 (p2 _)) (Nat.mul_pos h2 (p2 _))
        calc N1 * (D2 * 2 ^ expOf N2 D2) = N1 * D2 * 2 ^ expOf N2 D2 := by ring
          _ ≤ N2 * D1 * 2 ^ expOf N2 D2 := Nat.mul_le_mul_right _ h
          _ = N2 * (D1 * 2 ^ expOf N2 D2) := by ring
      constructor
      · rw [heq]; exact Nat.mul_le_mul_right _ hmm
      · split <;> split <;> omega
  rw [roundDiv_eq, roundDiv_eq]
  obtain ⟨kmag, kexp⟩ := key
  by_cases i2 : 2045 < finE N2 D2
  · rw [if_pos i2]; split <;> trivial
  · have i1 : ¬ 2045 < finE N1 D1 := by omega
    rw [if_neg i1, if_neg i2]
    show _ * 2 ^ _ ≤ _ * 2 ^ _
    rw [norm_mag, norm_mag]; exact kmag

/-! ## representable values are fixed points -/

/-- if the exact value `N/D` equals the canonical double `(m, E)` then `roundDiv` returns it. -/
theorem roundDiv_repr (s : Bool) {N D m E : Nat} (hD : 0 < D) (hc : Canon (.fin s m E)) (hN : N = m * 2 ^ E * D) :
    roundDiv s N D = .fin s m E := by
  have hq : N / D = m * 2 ^ E := by rw [hN]; exact Nat.mul_div_cancel _ hD
  have hexp : expOf N D = E := by
    unfold expOf; rw [hq]
    unfold Canon at hc
    rcases hc with ⟨hm, hE⟩ | ⟨hlo, hhi, _⟩
    · subst hE
      have : bitlen (m * 2 ^ 0) ≤ 52 := by rw [bitlen_le_iff]; simpa using hm
      omega
    · have hpos : 0 < m := by have : 0 < 2 ^ 52 := by decide
                              omega
      rw [bitlen_mul_two_pow m E hpos]
      have a : bitlen m ≤ 53 := (bitlen_le_iff m 53).mpr hhi
      have b : 52 < bitlen m := (lt_bitlen_iff m 52).mpr hlo
      omega
  have hmant : mantOf N D = m := by
    unfold mantOf; rw [hexp, hN]
    have : m * 2 ^ E * D = m * (D * 2 ^ E) := by ring
    rw [this]
    exact rne_mul_self _ _ (Nat.mul_pos hD (p2 _))
  unfold Canon at hc
  have hlt : m ≠ 2 ^ 53 := by omega
  have hE : ¬ 2045 < E := by omega
  have fm : finM N D = m := by unfold finM; rw [hmant, if_neg hlt]
  have fe : finE N D = E := by unfold finE; rw [hmant, if_neg hlt, hexp]
  rw [roundDiv_eq, fm, fe, if_neg hE]

/-! ## `ofNat` is exact below 2^53 -/

/-- the canonical double of a natural `n < 2^53`, explicitly. -/
theorem ofNat_eq (n : Nat) (hn : n < 2 ^ 53) (h0 : 0 < n) :
    ofNat n = .fin false (n * 2 ^ (53 - bitlen n)) (1021 + bitlen n) := by
  unfold ofNat
  have hb : bitlen n ≤ 53 := (bitlen_le_iff n 53).mpr hn
  have hb0 : 0 < bitlen n := by rw [lt_bitlen_iff]; simp only [Nat.pow_zero]; exact h0
  apply roundDiv_repr false Nat.one_pos
  · unfold Canon
    right
    refine ⟨?_, ?_, by omega⟩
    · have h2 : 2 ^ (bitlen n - 1) ≤ n := by rw [← lt_bitlen_iff]; omega
      calc 2 ^ 52 = 2 ^ (bitlen n - 1) * 2 ^ (53 - bitlen n) := by
            rw [← Nat.pow_add]; congr 1; omega
        _ ≤ n * 2 ^ (53 - bitlen n) := Nat.mul_le_mul_right _ h2
    · calc n * 2 ^ (53 - bitlen n) < 2 ^ bitlen n * 2 ^ (53 - bitlen n) :=
            Nat.mul_lt_mul_of_lt_of_le (lt_two_pow_bitlen n) (Nat.le_refl _) (p2 _)
        _ = 2 ^ 53 := by rw [← Nat.pow_add]; congr 1; omega
  · have : (1074 : Nat) = (53 - bitlen n) + (1021 + bitlen n) := by omega
    rw [Nat.mul_one, Nat.mul_assoc, ← Nat.pow_add, ← this]

theorem ofNat_zero : ofNat 0 = zero := by
  unfold ofNat zero
  exact roundDiv_repr false Nat.one_pos (by unfold Canon; left; exact ⟨by decide, rfl⟩) (by simp only [Nat.zero_mul])

/-- **`float64(n)` is exact for `n < 2^53`**: finite, non-negative, magnitude exactly `n` (in units of `2^-1074`). -/
theorem ofNat_exact (n : Nat) (hn : n < 2 ^ 53) :
    ∃ m E, ofNat n = .fin false m E ∧ m * 2 ^ E = n * 2 ^ 1074 ∧ Canon (.fin false m E) := by
  rcases Nat.eq_zero_or_pos n with h0 | h0
  · subst h0; exact ⟨0, 0, ofNat_zero, by simp only [Nat.zero_mul], by unfold Canon; left; exact ⟨by decide, rfl⟩⟩
  · refine ⟨_, _, ofNat_eq n hn h0, ?_, ?_⟩
    · have hb : bitlen n ≤ 53 := (bitlen_le_iff n 53).mpr hn
      have : (1074 : Nat) = (53 - bitlen n) + (1021 + bitlen n) := by omega
      rw [Nat.mul_assoc, ← Nat.pow_add, ← this]
    · have h := roundDiv_canon false (n * 2 ^ 1074) 1 Nat.one_pos
      have e := ofNat_eq n hn h0
      unfold ofNat at e
      rw [e] at h
      exact h

/-- … hence converting back gives `n`. -/
theorem toNatTrunc_ofNat (n : Nat) (hn : n < 2 ^ 53) : toNatTrunc (ofNat n) = some n := by
  obtain ⟨m, E, h, hmag, _⟩ := ofNat_exact n hn
  rw [h]
  unfold toNatTrunc
  simp only [hmag, Nat.mul_div_cancel _ (p2 1074)]
  have : n < 2 ^ 64 := Nat.lt_of_lt_of_le hn (Nat.pow_le_pow_right (by decide) (by decide))
  simp only [Bool.false_eq_true, if_false]
  rw [if_pos this]

/-! ## multiplication -/

theorem bne_comm' (s t : Bool) : (s != t) = (t != s) := by cases s <;> cases t <;> rfl

theorem mul_comm (a b : F64) : mul a b = mul b a := by
  cases a with
  | nan => cases b <;> rfl
  | inf s => cases b with
    | nan => rfl
    | inf t => simp only [mul, bne_comm' s t]
    | fin t m E => simp only [mul, bne_comm' s t]
  | fin s m1 E1 => cases b with
    | nan => rfl
    | inf t => simp only [mul, bne_comm' s t]
    | fin t m2 E2 => simp only [mul, bne_comm' s t, Nat.mul_comm m1 m2, Nat.add_comm E1 E2]

/-- **`uint64(float64(c) * r) ≤ c`** for a finite non-negative factor `r ≤ 1` and `c < 2^53`
(the conversion is defined, and its value does not exceed `c`). -/
theorem toNatTrunc_mul_le (c : Nat) (hc : c < 2 ^ 53) (m E : Nat) (hr : m * 2 ^ E ≤ 2 ^ 1074) :
    ∃ n, toNatTrunc (mul (ofNat c) (.fin false m E)) = some n ∧ n ≤ c := by
  obtain ⟨mc, Ec, hof, hmag, hcan⟩ := ofNat_exact c hc
  rw [hof]
  -- the exact product is c·r ≤ c, so by monotonicity the rounded product is ≤ round(c) = c
  have hmono := roundDiv_mono (N1 := mc * m * 2 ^ (Ec + E)) (D1 := 2 ^ 1074) (N2 := mc * 2 ^ Ec) (D2 := 1)
    (p2 _) Nat.one_pos (by
      calc mc * m * 2 ^ (Ec + E) * 1 = (mc * 2 ^ Ec) * (m * 2 ^ E) := by rw [Nat.pow_add]; ring
        _ ≤ (mc * 2 ^ Ec) * 2 ^ 1074 := Nat.mul_le_mul_left _ hr)
  rw [roundDiv_repr false Nat.one_pos hcan (Nat.mul_one _).symm] at hmono
  show ∃ n, toNatTrunc (roundDiv (false != false) (mc * m * 2 ^ (Ec + E)) (2 ^ 1074)) = some n ∧ n ≤ c
  simp only [bne_self_eq_false]
  rw [roundDiv_eq] at hmono ⊢
  by_cases hinf : 2045 < finE (mc * m * 2 ^ (Ec + E)) (2 ^ 1074)
  · rw [if_pos hinf] at hmono; exact absurd hmono (by simp [leNN])
  · rw [if_neg hinf] at hmono ⊢
    have hle : finM (mc * m * 2 ^ (Ec + E)) (2 ^ 1074) * 2 ^ finE (mc * m * 2 ^ (Ec + E)) (2 ^ 1074) ≤ mc * 2 ^ Ec := hmono
    generalize finM (mc * m * 2 ^ (Ec + E)) (2 ^ 1074) = mp at hle ⊢
    generalize finE (mc * m * 2 ^ (Ec + E)) (2 ^ 1074) = Ep at hle ⊢
    have hq : mp * 2 ^ Ep / 2 ^ 1074 ≤ c := by
      rw [hmag] at hle
      calc mp * 2 ^ Ep / 2 ^ 1074 ≤ c * 2 ^ 1074 / 2 ^ 1074 := Nat.div_le_div_right hle
        _ = c := Nat.mul_div_cancel _ (p2 _)
    have hc64 : c < 2 ^ 64 := Nat.lt_of_lt_of_le hc (Nat.pow_le_pow_right (by decide) (by decide))
    unfold toNatTrunc
    simp only [Bool.false_eq_true, if_false]
    have : mp * 2 ^ Ep / 2 ^ 1074 < 2 ^ 64 := Nat.lt_of_le_of_lt hq hc64
    rw [if_pos this]
    exact ⟨_, rfl, hq⟩

/-- **negation witness**: for `c = 2^53 + 3` and `r = 1.0` the conversion yields `2^53 + 4 > c`
(`float64(2^53+3)` is a tie and rounds to the even neighbour `2^53+4`). -/
theorem toNatTrunc_mul_gt_witness :
    toNatTrunc (mul (ofNat (2 ^ 53 + 3)) one) = some (2 ^ 53 + 4) := by decide +kernel

theorem ofNat_inexact_witness : toNatTrunc (ofNat (2 ^ 53 + 1)) = some (2 ^ 53) := by decide +kernel

end ZChain.F64
