import ZChain.Model.Ledger
/-! Helper lemmas about the engine model (core-only). Property theorems are in Props/C01…C05. -/
namespace ZChain.Ledger

/-! ### association-list facts -/

theorem get_set_eq (a : Accts) (i : Id) (v : Acct) : get (set a i v) i = v := by
  induction a with
  | nil => simp [set, get]
  | cons p rest ih =>
    obtain ⟨k, w⟩ := p
    unfold set
    by_cases h : k = i
    · simp [h, get]
    · simp [h, get, ih]

theorem get_set_ne (a : Accts) (i j : Id) (v : Acct) (h : i ≠ j) : get (set a i v) j = get a j := by
  induction a with
  | nil => simp [set, get, h]
  | cons p rest ih =>
    obtain ⟨k, w⟩ := p
    unfold set
    by_cases hk : k = i
    · subst hk; simp [get, h]
    · simp only [hk, if_false]
      unfold get
      by_cases hj : k = j
      · simp [hj]
      · simp [hj, ih]

theorem total_set (a : Accts) (i : Id) (v : Acct) :
    total (set a i v) + (get a i).balance = total a + v.balance := by
  induction a with
  | nil => simp [set, get, total, Acct.zero]
  | cons p rest ih =>
    obtain ⟨k, w⟩ := p
    unfold set get
    by_cases h : k = i
    · simp only [h, if_true, total, List.map_cons, List.sum_cons]; omega
    · simp only [h, if_false]
      simp only [total, List.map_cons, List.sum_cons] at ih ⊢
      omega

theorem get_le_total (a : Accts) (i : Id) : (get a i).balance ≤ total a := by
  induction a with
  | nil => simp [get, total, Acct.zero]
  | cons p rest ih =>
    obtain ⟨k, w⟩ := p
    unfold get
    by_cases h : k = i
    · simp only [h, if_true, total, List.map_cons, List.sum_cons]; omega
    · simp only [h, if_false]
      simp only [total, List.map_cons, List.sum_cons] at ih ⊢
      omega

theorem mem_set (a : Accts) (i : Id) (v : Acct) (p : Id × Acct) (h : p ∈ set a i v) :
    p ∈ a ∨ p = (i, v) := by
  induction a with
  | nil => simp [set] at h; exact Or.inr h
  | cons q rest ih =>
    obtain ⟨k, w⟩ := q
    unfold set at h
    by_cases hk : k = i
    · simp only [hk, if_true, List.mem_cons] at h
      rcases h with h | h
      · exact Or.inr h
      · exact Or.inl (List.mem_cons_of_mem _ h)
    · simp only [hk, if_false, List.mem_cons] at h
      rcases h with h | h
      · exact Or.inl (by rw [h]; exact List.mem_cons_self)
      · rcases ih h with h' | h'
        · exact Or.inl (List.mem_cons_of_mem _ h')
        · exact Or.inr h'

theorem get_mem_or_zero (a : Accts) (i : Id) : (i, get a i) ∈ a ∨ get a i = Acct.zero := by
  induction a with
  | nil => exact Or.inr rfl
  | cons q rest ih =>
    obtain ⟨k, w⟩ := q
    unfold get
    by_cases hk : k = i
    · simp [hk]
    · simp only [hk, if_false]
      rcases ih with h | h
      · exact Or.inl (List.mem_cons_of_mem _ h)
      · exact Or.inr h

/-! ### one transfer -/

/-- exact effect of a successful transfer on every account. -/
theorem transferCore0_get (a a' : Accts) (t : Transfer) (h : transferCore0 a t = .ok a') (i : Id) :
    get a' i =
      if t.amount = 0 then get a i
      else if i = t.dst then { get a i with balance := (get a i).balance + t.amount }
      else if i = t.src then { get a i with balance := (get a i).balance - t.amount }
      else get a i := by
  unfold transferCore0 at h
  by_cases h0 : t.amount = 0
  · simp only [h0, if_true] at h ⊢
    injection h with h; rw [← h]
  · simp only [h0, if_false] at h ⊢
    by_cases hsd : t.src = t.dst
    · simp [hsd] at h
    · simp only [hsd, if_false] at h
      by_cases hins : (get a t.src).balance < t.amount
      · simp [hins] at h
      · simp only [hins, if_false] at h
        by_cases hov : (get a t.dst).balance + t.amount ≥ u64
        · simp [hov] at h
        · simp only [hov, if_false] at h
          injection h with h
          subst h
          by_cases hid : i = t.dst
          · subst hid; simp only [if_true]; rw [get_set_eq]
          · simp only [hid, if_false]
            rw [get_set_ne _ _ _ _ (Ne.symm hid)]
            by_cases his : i = t.src
            · subst his; simp only [if_true]; rw [get_set_eq]
            · simp only [his, if_false]; rw [get_set_ne _ _ _ _ (Ne.symm his)]

theorem transferCore0_ok_cond (a a' : Accts) (t : Transfer) (h : transferCore0 a t = .ok a') :
    t.amount = 0 ∨ (t.src ≠ t.dst ∧ t.amount ≤ (get a t.src).balance ∧ (get a t.dst).balance + t.amount < u64) := by
  unfold transferCore0 at h
  by_cases h0 : t.amount = 0
  · exact Or.inl h0
  · right
    simp only [h0, if_false] at h
    by_cases hsd : t.src = t.dst
    · simp [hsd] at h
    · simp only [hsd, if_false] at h
      by_cases hins : (get a t.src).balance < t.amount
      · simp [hins] at h
      · simp only [hins, if_false] at h
        by_cases hov : (get a t.dst).balance + t.amount ≥ u64
        · simp [hov] at h
        · exact ⟨hsd, by omega, by omega⟩

theorem transferCore0_total (a a' : Accts) (t : Transfer) (h : transferCore0 a t = .ok a') : total a' = total a := by
  unfold transferCore0 at h
  by_cases h0 : t.amount = 0
  · simp only [h0, if_true] at h; injection h with h; rw [← h]
  · simp only [h0, if_false] at h
    by_cases hsd : t.src = t.dst
    · simp [hsd] at h
    · simp only [hsd, if_false] at h
      by_cases hins : (get a t.src).balance < t.amount
      · simp [hins] at h
      · simp only [hins, if_false] at h
        by_cases hov : (get a t.dst).balance + t.amount ≥ u64
        · simp [hov] at h
        · simp only [hov, if_false] at h
          injection h with h
          subst h
          have h1 := total_set a t.src { get a t.src with balance := (get a t.src).balance - t.amount }
          have h2 := total_set (set a t.src { get a t.src with balance := (get a t.src).balance - t.amount }) t.dst
            { get a t.dst with balance := (get a t.dst).balance + t.amount }
          rw [get_set_ne _ _ _ _ hsd] at h2
          have h3 := get_le_total a t.src
          simp only at h1 h2
          omega


theorem transfer_core (a a' : Accts) (t : Transfer) (h : transfer a t = .ok a') :
    transferCore0 a t = .ok a' ∧ (t.amount = 0 ∨ t.dstCanon = true) ∧
    (get a t.src).balance + (if t.dstReadable then (get a t.dst).balance else 0) < u64 := by
  unfold transfer at h
  by_cases hs : (get a t.src).balance + (if t.dstReadable then (get a t.dst).balance else 0) ≥ u64
  · simp [hs] at h
  · simp only [hs, if_false] at h
    unfold transferCore at h
    by_cases hc : t.amount ≠ 0 ∧ t.dstCanon = false
    · simp [hc] at h
    · simp only [hc, if_false] at h
      refine ⟨h, ?_, by omega⟩
      by_cases h0 : t.amount = 0
      · exact Or.inl h0
      · right; cases hd : t.dstCanon
        · exact absurd ⟨h0, hd⟩ hc
        · rfl

theorem transfer_get (a a' : Accts) (t : Transfer) (h : transfer a t = .ok a') (i : Id) :
    get a' i =
      if t.amount = 0 then get a i
      else if i = t.dst then { get a i with balance := (get a i).balance + t.amount }
      else if i = t.src then { get a i with balance := (get a i).balance - t.amount }
      else get a i := transferCore0_get a a' t (transfer_core a a' t h).1 i

theorem transfer_ok_cond (a a' : Accts) (t : Transfer) (h : transfer a t = .ok a') :
    t.amount = 0 ∨ (t.src ≠ t.dst ∧ t.amount ≤ (get a t.src).balance ∧ (get a t.dst).balance + t.amount < u64) :=
  transferCore0_ok_cond a a' t (transfer_core a a' t h).1

theorem transfer_total (a a' : Accts) (t : Transfer) (h : transfer a t = .ok a') : total a' = total a :=
  transferCore0_total a a' t (transfer_core a a' t h).1

/-! ### transfer queues -/

theorem applyTransfers_total (q : List Transfer) : ∀ (a a' : Accts), applyTransfers a q = .ok a' → total a' = total a := by
  induction q with
  | nil => intro a a' h; simp [applyTransfers] at h; rw [h]
  | cons t ts ih =>
    intro a a' h
    unfold applyTransfers at h
    cases ht : transfer a t with
    | error e => simp [ht] at h
    | ok a1 =>
      simp only [ht] at h
      rw [ih a1 a' h, transfer_total a a1 t ht]

theorem applyTransfers_nonce (q : List Transfer) : ∀ (a a' : Accts), applyTransfers a q = .ok a' →
    ∀ i, (get a' i).nonce = (get a i).nonce := by
  induction q with
  | nil => intro a a' h i; simp [applyTransfers] at h; rw [h]
  | cons t ts ih =>
    intro a a' h i
    unfold applyTransfers at h
    cases ht : transfer a t with
    | error e => simp [ht] at h
    | ok a1 =>
      simp only [ht] at h
      rw [ih a1 a' h i, transfer_get a a1 t ht i]
      split
      · rfl
      · split
        · rfl
        · split <;> rfl

/-- tokens leaving / entering account `i` through a queue. -/
def outflow (q : List Transfer) (i : Id) : Nat := ((q.filter (fun t => t.src = i)).map (·.amount)).sum
def inflow (q : List Transfer) (i : Id) : Nat := ((q.filter (fun t => t.dst = i)).map (·.amount)).sum

theorem outflow_cons (t : Transfer) (q : List Transfer) (i : Id) :
    outflow (t :: q) i = (if t.src = i then t.amount else 0) + outflow q i := by
  unfold outflow; by_cases h : t.src = i <;> simp [h]

theorem inflow_cons (t : Transfer) (q : List Transfer) (i : Id) :
    inflow (t :: q) i = (if t.dst = i then t.amount else 0) + inflow q i := by
  unfold inflow; by_cases h : t.dst = i <;> simp [h]

theorem outflow_append (p q : List Transfer) (i : Id) : outflow (p ++ q) i = outflow p i + outflow q i := by
  unfold outflow; simp [List.filter_append]

theorem inflow_append (p q : List Transfer) (i : Id) : inflow (p ++ q) i = inflow p i + inflow q i := by
  unfold inflow; simp [List.filter_append]

/-- exact accounting of a successfully applied queue, per account. -/
theorem applyTransfers_flow (q : List Transfer) : ∀ (a a' : Accts), applyTransfers a q = .ok a' →
    ∀ i, (get a' i).balance + outflow q i = (get a i).balance + inflow q i := by
  induction q with
  | nil => intro a a' h i; simp [applyTransfers] at h; rw [h]; simp [outflow, inflow]
  | cons t ts ih =>
    intro a a' h i
    unfold applyTransfers at h
    cases ht : transfer a t with
    | error e => simp [ht] at h
    | ok a1 =>
      simp only [ht] at h
      have h1 := ih a1 a' h i
      have h2 := transfer_get a a1 t ht i
      have hc := transfer_ok_cond a a1 t ht
      rw [outflow_cons, inflow_cons]
      by_cases h0 : t.amount = 0
      · simp only [h0, if_true] at h2
        rw [h2] at h1
        simp only [h0]; split <;> split <;> omega
      · simp only [h0, if_false] at h2
        rcases hc with hc | ⟨hsd, hle, _⟩
        · exact absurd hc h0
        · by_cases hid : i = t.dst
          · subst hid
            simp only [if_true] at h2
            have : ¬ t.src = t.dst := hsd
            simp only [this, if_false, if_true]
            rw [h2] at h1; simp only at h1; omega
          · simp only [hid, if_false] at h2
            have hid' : ¬ t.dst = i := fun h => hid h.symm
            by_cases his : i = t.src
            · subst his
              simp only [if_true] at h2
              simp only [hid', if_false, if_true]
              rw [h2] at h1; simp only at h1; omega
            · simp only [his, if_false] at h2
              have his' : ¬ t.src = i := fun h => his h.symm
              simp only [hid', his', if_false]
              rw [h2] at h1; omega

def InRange (a : Accts) : Prop := ∀ p ∈ a, p.2.balance < u64

theorem get_inRange (a : Accts) (h : InRange a) (i : Id) : (get a i).balance < u64 := by
  rcases get_mem_or_zero a i with hm | hz
  · exact h _ hm
  · rw [hz]; simp [Acct.zero, u64]

theorem set_inRange (a : Accts) (h : InRange a) (i : Id) (v : Acct) (hv : v.balance < u64) : InRange (set a i v) := by
  intro p hp
  rcases mem_set a i v p hp with h1 | h1
  · exact h p h1
  · rw [h1]; exact hv

theorem transfer_inRange (a a' : Accts) (t : Transfer) (hr : InRange a) (h : transfer a t = .ok a') : InRange a' := by
  have h := (transfer_core a a' t h).1
  unfold transferCore0 at h
  by_cases h0 : t.amount = 0
  · simp only [h0, if_true] at h; injection h with h; rw [← h]; exact hr
  · simp only [h0, if_false] at h
    by_cases hsd : t.src = t.dst
    · simp [hsd] at h
    · simp only [hsd, if_false] at h
      by_cases hins : (get a t.src).balance < t.amount
      · simp [hins] at h
      · simp only [hins, if_false] at h
        by_cases hov : (get a t.dst).balance + t.amount ≥ u64
        · simp [hov] at h
        · simp only [hov, if_false] at h
          injection h with h
          subst h
          apply set_inRange
          · apply set_inRange _ hr
            have := get_inRange a hr t.src
            simp only; omega
          · simp only; omega

theorem applyTransfers_inRange (q : List Transfer) : ∀ (a a' : Accts), InRange a → applyTransfers a q = .ok a' → InRange a' := by
  induction q with
  | nil => intro a a' hr h; simp [applyTransfers] at h; rw [← h]; exact hr
  | cons t ts ih =>
    intro a a' hr h
    unfold applyTransfers at h
    cases ht : transfer a t with
    | error e => simp [ht] at h
    | ok a1 =>
      simp only [ht] at h
      exact ih a1 a' (transfer_inRange a a1 t hr ht) h

/-! ### settle: fee, queue, nonce -/

def feeQueue (feeOn : Bool) (t : Txn) (transfers signed : List Transfer) : List Transfer :=
  (if feeOn then transfers ++ [⟨t.sender, minerSC, t.fee, true, false⟩] else transfers) ++ signed

theorem settle_some (feeOn : Bool) (a a' : Accts) (t : Txn) (tr sg : List Transfer)
    (h : settle feeOn a t tr sg = some a') :
    ∃ a1, applyTransfers a (feeQueue feeOn t tr sg) = .ok a1 ∧
      a' = set a1 t.sender { get a1 t.sender with nonce := (get a1 t.sender).nonce + 1 } := by
  unfold settle at h
  simp only at h
  unfold feeQueue
  cases hq : applyTransfers a ((if feeOn then tr ++ [⟨t.sender, minerSC, t.fee, true, false⟩] else tr) ++ sg) with
  | error e => simp [hq] at h
  | ok a1 =>
    simp only [hq] at h
    injection h with h
    exact ⟨a1, rfl, h.symm⟩

theorem settle_total (feeOn : Bool) (a a' : Accts) (t : Txn) (tr sg : List Transfer)
    (h : settle feeOn a t tr sg = some a') : total a' = total a := by
  obtain ⟨a1, h1, h2⟩ := settle_some feeOn a a' t tr sg h
  have := total_set a1 t.sender { get a1 t.sender with nonce := (get a1 t.sender).nonce + 1 }
  rw [h2, ← applyTransfers_total _ a a1 h1]
  simp only at this ⊢
  omega

theorem settle_inRange (feeOn : Bool) (a a' : Accts) (t : Txn) (tr sg : List Transfer) (hr : InRange a)
    (h : settle feeOn a t tr sg = some a') : InRange a' := by
  obtain ⟨a1, h1, h2⟩ := settle_some feeOn a a' t tr sg h
  have hr1 := applyTransfers_inRange _ a a1 hr h1
  rw [h2]
  exact set_inRange a1 hr1 _ _ (get_inRange a1 hr1 t.sender)

theorem settle_get (feeOn : Bool) (a a' : Accts) (t : Txn) (tr sg : List Transfer)
    (h : settle feeOn a t tr sg = some a') (i : Id) :
    (get a' i).balance + outflow (feeQueue feeOn t tr sg) i = (get a i).balance + inflow (feeQueue feeOn t tr sg) i ∧
    (get a' i).nonce = (get a i).nonce + (if i = t.sender then 1 else 0) := by
  obtain ⟨a1, h1, h2⟩ := settle_some feeOn a a' t tr sg h
  have hf := applyTransfers_flow _ a a1 h1 i
  have hn := applyTransfers_nonce _ a a1 h1 i
  rw [h2]
  by_cases hi : i = t.sender
  · subst hi; rw [get_set_eq]; simp only [if_true]; exact ⟨hf, by rw [hn]⟩
  · rw [get_set_ne _ _ _ _ (Ne.symm hi)]; simp only [hi, if_false]; exact ⟨hf, by rw [hn]; omega⟩

end ZChain.Ledger
