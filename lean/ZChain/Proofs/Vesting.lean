import ZChain.Model.Vesting
import ZChain.Proofs.F64
/-!
# Lemmas about `Model/Vesting`

F64 facts used by vesting (`x * 1.0 = x`, `p/f ≤ 1` for `0 ≤ p ≤ f`), `MultFloat64(l, r) ≤ l` and `MultFloat64(l, 1.0) = l`
below `2^53`, the single `unlock` step, the trigger loop (invariant + success), `needOf`.
-/
set_option linter.constructorNameAsVariable false

namespace ZChain.F64

theorem one_canon : Canon one := by
  show (2 ^ 52 < 2 ^ 52 ∧ 1022 = 0) ∨ (2 ^ 52 ≤ 2 ^ 52 ∧ 2 ^ 52 < 2 ^ 53 ∧ 1022 ≤ 2045)
  omega

theorem pow1074 : (2 : Nat) ^ 1074 = 2 ^ 52 * 2 ^ 1022 := by rw [← Nat.pow_add]

theorem one_mag : ∃ m E, one = .fin false m E ∧ m * 2 ^ E ≤ 2 ^ 1074 := by
  refine ⟨2 ^ 52, 1022, rfl, ?_⟩
  rw [pow1074]

/-- `x * 1.0 = x` for every canonical finite `x`. -/
theorem mul_one_fin (s : Bool) (m E : Nat) (hc : Canon (.fin s m E)) : mul (.fin s m E) one = .fin s m E := by
  have hs : (s != false) = s := by cases s <;> rfl
  simp only [mul, one, hs]
  apply roundDiv_repr s (p2 _) hc
  rw [pow1074, Nat.pow_add]
  simp only [Nat.mul_assoc, Nat.mul_comm, Nat.mul_left_comm]

theorem ofInt_nonneg (i : Int) (h : 0 ≤ i) : ofInt i = ofNat i.toNat := by
  unfold ofInt ofNat
  have h1 : decide (i < 0) = false := decide_eq_false (by omega)
  have h2 : i.natAbs = i.toNat := by omega
  rw [h1, h2]

/-- `float64(p)/float64(f) ≤ 1.0` (finite, non-negative) for naturals `p ≤ f`, `0 < f < 2^53`. -/
theorem div_ofNat_le_one (p f : Nat) (hp : p ≤ f) (hf0 : 0 < f) (hf : f < 2 ^ 53) :
    ∃ m E, div (ofNat p) (ofNat f) = .fin false m E ∧ m * 2 ^ E ≤ 2 ^ 1074 := by
  obtain ⟨mp, Ep, hop, hmp, _⟩ := ofNat_exact p (by omega)
  obtain ⟨mf, Ef, hof, hmf, _⟩ := ofNat_exact f hf
  rw [hop, hof]
  have hmf0 : mf ≠ 0 := by
    intro h0; rw [h0, Nat.zero_mul] at hmf
    have : 0 < f * 2 ^ 1074 := Nat.mul_pos hf0 (p2 _)
    omega
  show ∃ m E, (if mf = 0 then _ else roundDiv (false != false) (mp * 2 ^ Ep * 2 ^ 1074) (mf * 2 ^ Ef)) = _ ∧ _
  rw [if_neg hmf0]
  simp only [bne_self_eq_false]
  have hD : 0 < mf * 2 ^ Ef := by rw [hmf]; exact Nat.mul_pos hf0 (p2 _)
  have hmono := roundDiv_mono (N1 := mp * 2 ^ Ep * 2 ^ 1074) (D1 := mf * 2 ^ Ef) (N2 := 2 ^ 1074) (D2 := 1) hD Nat.one_pos (by
    rw [hmp, hmf, Nat.mul_one]
    calc p * 2 ^ 1074 * 2 ^ 1074 ≤ f * 2 ^ 1074 * 2 ^ 1074 := Nat.mul_le_mul_right _ (Nat.mul_le_mul_right _ hp)
      _ = 2 ^ 1074 * (f * 2 ^ 1074) := Nat.mul_comm _ _)
  have hone : roundDiv false (2 ^ 1074) 1 = .fin false (2 ^ 52) 1022 :=
    roundDiv_repr false Nat.one_pos one_canon (Eq.trans pow1074 (Nat.mul_one _).symm)
  rw [hone, roundDiv_eq] at hmono
  rw [roundDiv_eq]
  split
  · rename_i hinf; rw [if_pos hinf] at hmono; exact absurd hmono (by simp [leNN])
  · rename_i hinf; rw [if_neg hinf] at hmono
    refine ⟨_, _, rfl, ?_⟩
    have : finM (mp * 2 ^ Ep * 2 ^ 1074) (mf * 2 ^ Ef) * 2 ^ finE (mp * 2 ^ Ep * 2 ^ 1074) (mf * 2 ^ Ef) ≤ 2 ^ 52 * 2 ^ 1022 := hmono
    exact Nat.le_trans this (Nat.le_of_eq pow1074.symm)

theorem lt_roundDiv_zero (N D : Nat) : lt (roundDiv false N D) zero = false := by
  rw [roundDiv_eq]
  split
  · rfl
  · simp only [lt, sval, zero, Bool.false_eq_true, if_false]
    simp

/-! ### rounding error bounds -/


theorem half_ulp_bound (X Y N : Nat) (hu : 2 * X ≤ 2 * N + Y) (hY : Y * 2 ^ 52 ≤ N) : X * 2 ^ 53 ≤ N * (2 ^ 53 + 1) := by
  calc X * 2 ^ 53 = (2 * X) * 2 ^ 52 := by rw [show (2:Nat) ^ 53 = 2 * 2 ^ 52 by decide]; ring
    _ ≤ (2 * N + Y) * 2 ^ 52 := Nat.mul_le_mul_right _ hu
    _ = N * 2 ^ 53 + Y * 2 ^ 52 := by rw [show (2:Nat) ^ 53 = 2 * 2 ^ 52 by decide]; ring
    _ ≤ N * 2 ^ 53 + N := Nat.add_le_add_left hY _
    _ = N * (2 ^ 53 + 1) := by ring

/-- two roundings of relative error `2^-53` cannot lift a product of at most `2^51` over the next integer. -/
theorem two_roundings_floor (X Y : Nat) (h : Y * 2 ^ 106 ≤ X * ((2 ^ 53 + 1) * (2 ^ 53 + 1))) (hX : X ≤ 2 ^ 51) : Y ≤ X := by
  by_contra hc
  have hY : X + 1 ≤ Y := by omega
  have h1 : (X + 1) * 2 ^ 106 ≤ X * ((2 ^ 53 + 1) * (2 ^ 53 + 1)) := Nat.le_trans (Nat.mul_le_mul_right _ hY) h
  have e : ((2:Nat) ^ 53 + 1) * (2 ^ 53 + 1) = 2 ^ 106 + (2 ^ 54 + 1) := by decide
  rw [e, Nat.add_mul, Nat.mul_add, Nat.one_mul] at h1
  have h2 : 2 ^ 106 ≤ X * (2 ^ 54 + 1) := by omega
  have h3 : X * (2 ^ 54 + 1) ≤ 2 ^ 51 * (2 ^ 54 + 1) := Nat.mul_le_mul_right _ hX
  have h4 : (2:Nat) ^ 51 * (2 ^ 54 + 1) < 2 ^ 106 := by decide
  omega

/-- round-half-even is at most half a unit above the exact quotient. -/
theorem rne_upper (N D : Nat) : 2 * (rne N D * D) ≤ 2 * N + D := by
  have e := Nat.div_add_mod N D
  unfold rne
  simp only
  split
  · rename_i h
    have hD : D ≤ 2 * (N % D) := by rcases h with h | ⟨h, _⟩ <;> omega
    have : (N / D + 1) * D = D * (N / D) + D := by rw [Nat.add_mul, Nat.one_mul, Nat.mul_comm]
    rw [this]; omega
  · have : N / D * D = D * (N / D) := Nat.mul_comm _ _
    rw [this]; omega

/-- relative error bound of the rounding function in the normal range: the rounded value is at most
`(1 + 2^-53)` times the exact quotient. -/
theorem roundDiv_upper (N D : Nat) (hD : 0 < D) (h53 : 2 ^ 53 ≤ N / D) :
    (finM N D * 2 ^ finE N D) * D * 2 ^ 53 ≤ N * (2 ^ 53 + 1) ∧ 2 ^ 53 ≤ finM N D * 2 ^ finE N D := by
  rw [norm_mag]
  have hb : 53 < bitlen (N / D) := (lt_bitlen_iff _ _).mpr h53
  have he : 0 < expOf N D := by unfold expOf; omega
  have h1 : 2 ^ (expOf N D + 52) ≤ N / D := by rw [← lt_bitlen_iff]; unfold expOf; omega
  have h2 : 2 ^ (expOf N D + 52) * D ≤ N := (Nat.le_div_iff_mul_le hD).mp h1
  have hu := rne_upper N (D * 2 ^ expOf N D)
  have hlow := le_mantOf N D hD he
  unfold mantOf at hlow ⊢
  generalize rne N (D * 2 ^ expOf N D) = mant at hu hlow ⊢
  have hY : D * 2 ^ expOf N D * 2 ^ 52 ≤ N := by
    calc D * 2 ^ expOf N D * 2 ^ 52 = 2 ^ (expOf N D + 52) * D := by rw [Nat.pow_add]; ring
      _ ≤ N := h2
  constructor
  · have hX : mant * 2 ^ expOf N D * D = mant * (D * 2 ^ expOf N D) := by ring
    rw [hX]
    exact half_ulp_bound _ _ _ hu hY
  · calc 2 ^ 53 = 2 ^ 52 * 2 ^ 1 := by decide
      _ ≤ mant * 2 ^ expOf N D := Nat.mul_le_mul hlow (Nat.pow_le_pow_right (by decide) he)


end ZChain.F64

namespace ZChain.Coin
open ZChain

theorem lt_fin_false_zero (m E : Nat) : F64.lt (.fin false m E) F64.zero = false := by
  simp only [F64.lt, F64.sval, F64.zero, Bool.false_eq_true, if_false]
  simp

/-- `MultFloat64(l, r) ≤ l` and is defined, for `l < 2^53` and a finite `0 ≤ r ≤ 1`. -/
theorem multFloat64_le (l m E : Nat) (hl : l < 2 ^ 53) (hr : m * 2 ^ E ≤ 2 ^ 1074) :
    ∃ a, multFloat64 l (.fin false m E) = .ok a ∧ a ≤ l := by
  obtain ⟨n, hn, hnle⟩ := F64.toNatTrunc_mul_le l hl m E hr
  refine ⟨n, ?_, hnle⟩
  unfold multFloat64
  rw [lt_fin_false_zero]
  have hb : F64.lt (F64.mul (F64.ofNat l) (.fin false m E)) F64.zero = false := by
    obtain ⟨mc, Ec, hof, _, _⟩ := F64.ofNat_exact l hl
    rw [hof]
    exact F64.lt_roundDiv_zero _ _
  simp only [hb, Bool.false_eq_true, if_false]
  unfold float64ToCoin
  rw [hb, hn]
  rfl

/-- `MultFloat64(l, 1.0) = l` for `l < 2^53`. -/
theorem multFloat64_one (l : Nat) (hl : l < 2 ^ 53) : multFloat64 l F64.one = .ok l := by
  obtain ⟨mc, Ec, hof, _, hcan⟩ := F64.ofNat_exact l hl
  have hmul : F64.mul (F64.ofNat l) F64.one = F64.ofNat l := by rw [hof]; exact F64.mul_one_fin false mc Ec hcan
  unfold multFloat64
  have h1 : F64.lt F64.one F64.zero = false := lt_fin_false_zero _ _
  rw [h1, hmul]
  have hb : F64.lt (F64.ofNat l) F64.zero = false := by rw [hof]; exact lt_fin_false_zero _ _
  simp only [hb, Bool.false_eq_true, if_false]
  unfold float64ToCoin
  rw [hb, F64.toNatTrunc_ofNat l hl]
  rfl

theorem toNatTrunc_fin_false (m E : Nat) (h : m * 2 ^ E / 2 ^ 1074 < 2 ^ 64) :
    F64.toNatTrunc (.fin false m E) = some (m * 2 ^ E / 2 ^ 1074) := by
  unfold F64.toNatTrunc
  simp only [Bool.false_eq_true, if_false]
  rw [if_pos h]

theorem multFloat64_of (l : Nat) (r x : F64) (n : Nat) (hr0 : F64.lt r F64.zero = false) (hx : F64.mul (F64.ofNat l) r = x)
    (hx0 : F64.lt x F64.zero = false) (hn : F64.toNatTrunc x = some n) : multFloat64 l r = .ok n := by
  unfold multFloat64
  rw [hr0, hx]
  simp only [hx0, Bool.false_eq_true, if_false]
  unfold float64ToCoin
  rw [hx0, hn]
  rfl

theorem div_le_of_le_mul' (x c U : Nat) (h : x ≤ c * U) : x / U ≤ c := by
  apply Nat.div_le_of_le_mul
  rw [Nat.mul_comm]; exact h


/-- the value of `MultFloat64(l, r)` for `l < 2^63`, finite `0 ≤ r ≤ 1`: defined, and the truncated rounded product. -/
theorem multFloat64_val (l m E : Nat) (hl : l < 2 ^ 63) (hr : m * 2 ^ E ≤ 2 ^ 1074) :
    ∃ ml El, F64.ofNat l = .fin false ml El ∧ F64.Canon (.fin false ml El) ∧
      ¬ 2045 < F64.finE (ml * m * 2 ^ (El + E)) (2 ^ 1074) ∧
      multFloat64 l (.fin false m E) =
        .ok (F64.finM (ml * m * 2 ^ (El + E)) (2 ^ 1074) * 2 ^ F64.finE (ml * m * 2 ^ (El + E)) (2 ^ 1074) / 2 ^ 1074) := by
  -- float64(l) is finite, canonical, and at most 2^63
  have hcan63 : F64.Canon (.fin false (2 ^ 52) 1085) := by
    show (2 ^ 52 < 2 ^ 52 ∧ 1085 = 0) ∨ (2 ^ 52 ≤ 2 ^ 52 ∧ 2 ^ 52 < 2 ^ 53 ∧ 1085 ≤ 2045); omega
  have h63 : (2 : Nat) ^ 63 * 2 ^ 1074 = 2 ^ 52 * 2 ^ 1085 := by rw [← Nat.pow_add, ← Nat.pow_add]
  have hX := F64.roundDiv_mono (N1 := l * 2 ^ 1074) (D1 := 1) (N2 := 2 ^ 63 * 2 ^ 1074) (D2 := 1) Nat.one_pos Nat.one_pos
    (by rw [Nat.mul_one, Nat.mul_one]; exact Nat.mul_le_mul_right _ (Nat.le_of_lt hl))
  have e63 : F64.roundDiv false (2 ^ 63 * 2 ^ 1074) 1 = .fin false (2 ^ 52) 1085 :=
    F64.roundDiv_repr false Nat.one_pos hcan63 (Eq.trans h63 (Nat.mul_one _).symm)
  rw [e63] at hX
  have hXc := F64.roundDiv_canon false (l * 2 ^ 1074) 1 Nat.one_pos
  rw [F64.roundDiv_eq] at hX hXc
  by_cases hinf : 2045 < F64.finE (l * 2 ^ 1074) 1
  · rw [if_pos hinf] at hX; exact absurd hX (by simp [F64.leNN])
  · rw [if_neg hinf] at hX hXc
    have hof : F64.ofNat l = .fin false (F64.finM (l * 2 ^ 1074) 1) (F64.finE (l * 2 ^ 1074) 1) := by
      unfold F64.ofNat; rw [F64.roundDiv_eq, if_neg hinf]
    generalize F64.finM (l * 2 ^ 1074) 1 = ml at hX hXc hof
    generalize F64.finE (l * 2 ^ 1074) 1 = El at hX hXc hof
    have hmag : ml * 2 ^ El ≤ 2 ^ 52 * 2 ^ 1085 := hX
    -- the product is at most float64(l)
    have hP := F64.roundDiv_mono (N1 := ml * m * 2 ^ (El + E)) (D1 := 2 ^ 1074) (N2 := ml * 2 ^ El) (D2 := 1)
      (F64.p2 _) Nat.one_pos (by
        calc ml * m * 2 ^ (El + E) * 1 = (ml * 2 ^ El) * (m * 2 ^ E) := by rw [Nat.pow_add]; ring
          _ ≤ (ml * 2 ^ El) * 2 ^ 1074 := Nat.mul_le_mul_left _ hr)
    have eX : F64.roundDiv false (ml * 2 ^ El) 1 = .fin false ml El := F64.roundDiv_repr false Nat.one_pos hXc (Nat.mul_one _).symm
    rw [eX, F64.roundDiv_eq] at hP
    by_cases hinf2 : 2045 < F64.finE (ml * m * 2 ^ (El + E)) (2 ^ 1074)
    · rw [if_pos hinf2] at hP; exact absurd hP (by simp [F64.leNN])
    · rw [if_neg hinf2] at hP
      refine ⟨ml, El, hof, hXc, hinf2, ?_⟩
      have hmulEq : F64.mul (F64.ofNat l) (.fin false m E) =
          .fin false (F64.finM (ml * m * 2 ^ (El + E)) (2 ^ 1074)) (F64.finE (ml * m * 2 ^ (El + E)) (2 ^ 1074)) := by
        rw [hof]
        simp only [F64.mul, bne_self_eq_false]
        rw [F64.roundDiv_eq, if_neg hinf2]
      have hle : F64.finM (ml * m * 2 ^ (El + E)) (2 ^ 1074) * 2 ^ F64.finE (ml * m * 2 ^ (El + E)) (2 ^ 1074) ≤ ml * 2 ^ El := hP
      generalize F64.finM (ml * m * 2 ^ (El + E)) (2 ^ 1074) = mp at hle hmulEq
      generalize F64.finE (ml * m * 2 ^ (El + E)) (2 ^ 1074) = Ep at hle hmulEq
      have hle2 : mp * 2 ^ Ep ≤ 2 ^ 63 * 2 ^ 1074 := Nat.le_trans hle (Nat.le_trans hmag (Nat.le_of_eq h63.symm))
      have hq : mp * 2 ^ Ep / 2 ^ 1074 ≤ 2 ^ 63 := div_le_of_le_mul' _ _ _ hle2
      have hq64 : mp * 2 ^ Ep / 2 ^ 1074 < 2 ^ 64 := Nat.lt_of_le_of_lt hq (by decide)
      exact multFloat64_of l _ _ _ (lt_fin_false_zero _ _) hmulEq (lt_fin_false_zero _ _) (toNatTrunc_fin_false mp Ep hq64)


/-- **the float step is the exact floor** when the product is small: for `0 < p ≤ f < 2^53`, `l < 2^53`, `l·p ≤ 2^51`,
`MultFloat64(l, float64(p)/float64(f)) = a` implies `a·f ≤ l·p` (two roundings of relative error `2^-53` cannot cross
the next integer, which is at least `1/f` away). -/
theorem multFloat64_floor (l p f a : Nat) (hp : 0 < p) (hpf : p ≤ f) (hf : f < 2 ^ 53) (hl0 : 0 < l) (hl : l < 2 ^ 53)
    (hlp : l * p ≤ 2 ^ 51) (h : multFloat64 l (F64.div (F64.ofNat p) (F64.ofNat f)) = .ok a) : a * f ≤ l * p := by
  obtain ⟨mp, Ep, hop, hmp, _⟩ := F64.ofNat_exact p (by omega)
  obtain ⟨mf, Ef, hof, hmf, _⟩ := F64.ofNat_exact f hf
  have hU : (0 : Nat) < 2 ^ 1074 := F64.p2 _
  have hU106 : (2 : Nat) ^ 106 ≤ 2 ^ 1074 := Nat.pow_le_pow_right (by decide) (by decide)
  have hmf0 : mf ≠ 0 := by
    intro h0; rw [h0, Nat.zero_mul] at hmf
    have : 0 < f * 2 ^ 1074 := Nat.mul_pos (by omega) hU
    omega
  have hD1 : 0 < mf * 2 ^ Ef := by rw [hmf]; exact Nat.mul_pos (by omega) hU
  have hdiv : F64.div (F64.ofNat p) (F64.ofNat f) = F64.roundDiv false (mp * 2 ^ Ep * 2 ^ 1074) (mf * 2 ^ Ef) := by
    rw [hop, hof]; simp only [F64.div, if_neg hmf0, bne_self_eq_false]
  obtain ⟨mr, Er, hr1, hr2⟩ := F64.div_ofNat_le_one p f hpf (by omega) hf
  rw [hdiv, F64.roundDiv_eq] at hr1
  by_cases hinf : 2045 < F64.finE (mp * 2 ^ Ep * 2 ^ 1074) (mf * 2 ^ Ef)
  · rw [if_pos hinf] at hr1; cases hr1
  · rw [if_neg hinf] at hr1
    injection hr1 with _ hm hE
    -- the ratio: relative error 2^-53
    have h53a : 2 ^ 53 ≤ mp * 2 ^ Ep * 2 ^ 1074 / (mf * 2 ^ Ef) := by
      rw [Nat.le_div_iff_mul_le hD1, hmp, hmf]
      calc 2 ^ 53 * (f * 2 ^ 1074) = (2 ^ 53 * f) * 2 ^ 1074 := by ring
        _ ≤ (p * 2 ^ 1074) * 2 ^ 1074 := Nat.mul_le_mul_right _ (by
            calc 2 ^ 53 * f ≤ 2 ^ 53 * 2 ^ 53 := Nat.mul_le_mul_left _ (Nat.le_of_lt hf)
              _ = 2 ^ 106 := by decide
              _ ≤ 2 ^ 1074 := hU106
              _ ≤ p * 2 ^ 1074 := Nat.le_mul_of_pos_left _ hp)
    obtain ⟨hR1, hR2⟩ := F64.roundDiv_upper _ _ hD1 h53a
    rw [hm, hE, hmp, hmf] at hR1
    rw [hm, hE] at hR2
    -- R·f·2^53 ≤ p·U·(2^53+1)
    have hRf : mr * 2 ^ Er * f * 2 ^ 53 ≤ p * 2 ^ 1074 * (2 ^ 53 + 1) := by
      have : (mr * 2 ^ Er * f * 2 ^ 53) * 2 ^ 1074 ≤ (p * 2 ^ 1074 * (2 ^ 53 + 1)) * 2 ^ 1074 := by
        calc (mr * 2 ^ Er * f * 2 ^ 53) * 2 ^ 1074 = mr * 2 ^ Er * (f * 2 ^ 1074) * 2 ^ 53 := by ring
          _ ≤ p * 2 ^ 1074 * 2 ^ 1074 * (2 ^ 53 + 1) := hR1
          _ = (p * 2 ^ 1074 * (2 ^ 53 + 1)) * 2 ^ 1074 := by ring
      exact Nat.le_of_mul_le_mul_right this hU
    -- the product
    rw [hdiv, F64.roundDiv_eq, if_neg hinf, hm, hE] at h
    obtain ⟨ml, El, hol, _, hinf2, hval⟩ := multFloat64_val l mr Er (Nat.lt_trans hl (by decide)) hr2
    obtain ⟨ml', El', hol', hml', _⟩ := F64.ofNat_exact l hl
    have hinj := F64.fin.inj (hol.symm.trans hol')
    obtain ⟨_, e1, e2⟩ := hinj
    subst e1 e2
    have h := Except.ok.inj (hval.symm.trans h)
    have hN2 : ml * mr * 2 ^ (El + Er) = l * 2 ^ 1074 * (mr * 2 ^ Er) := by rw [← hml', Nat.pow_add]; ring
    have h53b : 2 ^ 53 ≤ ml * mr * 2 ^ (El + Er) / 2 ^ 1074 := by
      rw [Nat.le_div_iff_mul_le hU, hN2]
      rcases Nat.eq_zero_or_pos l with h0 | h0
      · omega
      · calc 2 ^ 53 * 2 ^ 1074 ≤ (mr * 2 ^ Er) * 2 ^ 1074 := Nat.mul_le_mul_right _ hR2
          _ ≤ l * (mr * 2 ^ Er) * 2 ^ 1074 := Nat.mul_le_mul_right _ (Nat.le_mul_of_pos_left _ h0)
          _ = l * 2 ^ 1074 * (mr * 2 ^ Er) := by ring
    obtain ⟨hP1, _⟩ := F64.roundDiv_upper _ _ hU h53b
    generalize F64.finM (ml * mr * 2 ^ (El + Er)) (2 ^ 1074) * 2 ^ F64.finE (ml * mr * 2 ^ (El + Er)) (2 ^ 1074) = P at hP1 h
    rw [hN2] at hP1
    -- P·2^53 ≤ l·R·(2^53+1)
    have hPl : P * 2 ^ 53 ≤ l * (mr * 2 ^ Er) * (2 ^ 53 + 1) := by
      have : (P * 2 ^ 53) * 2 ^ 1074 ≤ (l * (mr * 2 ^ Er) * (2 ^ 53 + 1)) * 2 ^ 1074 := by
        calc (P * 2 ^ 53) * 2 ^ 1074 = P * 2 ^ 1074 * 2 ^ 53 := by ring
          _ ≤ l * 2 ^ 1074 * (mr * 2 ^ Er) * (2 ^ 53 + 1) := hP1
          _ = (l * (mr * 2 ^ Er) * (2 ^ 53 + 1)) * 2 ^ 1074 := by ring
      exact Nat.le_of_mul_le_mul_right this hU
    have haP : a * 2 ^ 1074 ≤ P := by rw [← h]; exact Nat.div_mul_le_self _ _
    -- chain
    apply F64.two_roundings_floor (l * p) (a * f) _ hlp
    have c1 : (a * f * 2 ^ 106) * 2 ^ 1074 ≤ (l * p * ((2 ^ 53 + 1) * (2 ^ 53 + 1))) * 2 ^ 1074 := by
      calc (a * f * 2 ^ 106) * 2 ^ 1074 = (a * 2 ^ 1074) * 2 ^ 53 * (f * 2 ^ 53) := by rw [show (2:Nat) ^ 106 = 2 ^ 53 * 2 ^ 53 by decide]; ring
        _ ≤ P * 2 ^ 53 * (f * 2 ^ 53) := Nat.mul_le_mul_right _ (Nat.mul_le_mul_right _ haP)
        _ ≤ (l * (mr * 2 ^ Er) * (2 ^ 53 + 1)) * (f * 2 ^ 53) := Nat.mul_le_mul_right _ hPl
        _ = l * (2 ^ 53 + 1) * (mr * 2 ^ Er * f * 2 ^ 53) := by ring
        _ ≤ l * (2 ^ 53 + 1) * (p * 2 ^ 1074 * (2 ^ 53 + 1)) := Nat.mul_le_mul_left _ hRf
        _ = (l * p * ((2 ^ 53 + 1) * (2 ^ 53 + 1))) * 2 ^ 1074 := by ring
    exact Nat.le_of_mul_le_mul_right c1 hU

/-- a zero ratio pays nothing. -/
theorem multFloat64_ratio_zero (l f a : Nat) (hf0 : 0 < f) (hf : f < 2 ^ 53) (hl : l < 2 ^ 63)
    (h : multFloat64 l (F64.div (F64.ofNat 0) (F64.ofNat f)) = .ok a) : a = 0 := by
  obtain ⟨mf, Ef, hof, hmf, _⟩ := F64.ofNat_exact f hf
  have hU : (0 : Nat) < 2 ^ 1074 := F64.p2 _
  have hmf0 : mf ≠ 0 := by
    intro h0; rw [h0, Nat.zero_mul] at hmf
    have : 0 < f * 2 ^ 1074 := Nat.mul_pos hf0 hU
    omega
  have hz : F64.Canon (.fin false 0 0) := by
    show (0 < 2 ^ 52 ∧ 0 = 0) ∨ (2 ^ 52 ≤ 0 ∧ 0 < 2 ^ 53 ∧ 0 ≤ 2045); omega
  have hdiv : F64.div (F64.ofNat 0) (F64.ofNat f) = .fin false 0 0 := by
    rw [F64.ofNat_zero, hof]
    simp only [F64.div, F64.zero, if_neg hmf0, bne_self_eq_false]
    exact F64.roundDiv_repr false (Nat.mul_pos (Nat.pos_of_ne_zero hmf0) (F64.p2 _)) hz (by simp only [Nat.zero_mul])
  rw [hdiv] at h
  obtain ⟨ml, El, _, _, _, hval⟩ := multFloat64_val l 0 0 hl (by simp only [Nat.zero_mul]; exact Nat.zero_le _)
  have h := Except.ok.inj (hval.symm.trans h)
  have hN : ml * 0 * 2 ^ (El + 0) = 0 := by simp only [Nat.mul_zero, Nat.zero_mul]
  rw [hN] at h
  have hz2 : F64.roundDiv false 0 (2 ^ 1074) = .fin false 0 0 := F64.roundDiv_repr false hU hz (by simp only [Nat.zero_mul])
  rw [F64.roundDiv_eq] at hz2
  split at hz2
  · cases hz2
  · have hinj := F64.fin.inj hz2
    rw [hinj.2.1, hinj.2.2] at h
    simp only [Nat.zero_mul, Nat.zero_div] at h
    exact h.symm


/-- `MultFloat64(l, r)` is DEFINED (no error, no out-of-range conversion) for every `l < 2^63` and finite `0 ≤ r ≤ 1`
(its value may exceed `l` by rounding when `l ≥ 2^53`: that is what the cap in `unlock` is for). -/
theorem multFloat64_defined (l m E : Nat) (hl : l < 2 ^ 63) (hr : m * 2 ^ E ≤ 2 ^ 1074) :
    ∃ a, multFloat64 l (.fin false m E) = .ok a := by
  obtain ⟨_, _, _, _, _, h⟩ := multFloat64_val l m E hl hr
  exact ⟨_, h⟩

end ZChain.Coin

namespace ZChain.Vesting
open ZChain ZChain.Coin

theorem bind_ok {ε α β} {x : Except ε α} {f : α → Except ε β} {b : β} (h : (x >>= f) = .ok b) :
    ∃ a, x = .ok a ∧ f a = .ok b := by
  cases x with
  | error e => cases h
  | ok a => exact ⟨a, rfl, h⟩

theorem wrapSub_of_le' {a b : Nat} (ha : a < U64) (hb : b ≤ a) : wrapSub a b = a - b := by
  unfold wrapSub
  have hb' : b % U64 = b := Nat.mod_eq_of_lt (by omega)
  rw [hb']
  have : a + (U64 - b) = (a - b) + U64 := by omega
  rw [this, Nat.add_mod_right]
  exact Nat.mod_eq_of_lt (by omega)

/-- a destination in good standing at time `now` (clipped) of a pool ending at `end_`. -/
structure Good (d : Dest) (now end_ : Int) : Prop where
  vested_le : d.vested ≤ d.amount
  small     : d.amount < 2 ^ 63      -- amounts are bounded by the token supply (4·10^18 < 2^62)
  move_le   : d.move ≤ now
  now_le    : now ≤ end_
  span      : end_ - d.move < 2 ^ 53

/-- the unvested remainder as a natural number. -/
def leftN (d : Dest) : Nat := d.amount - d.vested

def needN (ds : List Dest) : Nat := (ds.map leftN).sum

theorem left_ok {d : Dest} (h : d.vested ≤ d.amount) : left d = .ok (leftN d) := by
  unfold left minusCoin leftN
  rw [if_neg (by omega)]; rfl

/-- the ratio of a destination in good standing is a finite double in `[0, 1]`. -/
theorem ratio_le_one {d : Dest} {now end_ : Int} (g : Good d now end_) :
    ∃ m E, ratioOf d now end_ = .fin false m E ∧ m * 2 ^ E ≤ 2 ^ 1074 := by
  unfold ratioOf
  split
  · exact F64.one_mag
  · rename_i hne
    have h1 := g.move_le; have h2 := g.now_le; have h3 := g.span
    rw [F64.ofInt_nonneg _ (by omega), F64.ofInt_nonneg _ (by omega)]
    apply F64.div_ofNat_le_one
    · omega
    · omega
    · have : ((end_ - d.move).toNat : Int) < 2 ^ 53 := by rw [Int.toNat_of_nonneg (by omega)]; exact h3
      exact_mod_cast this

/-- **one unlock step** of a destination in good standing (any amount): it succeeds, pays at most what is left (the cap),
keeps `Vested ≤ Amount`, never lowers `Vested`; and at the end pays exactly the rest when that is below `2^53`
(above, `float64(left)` may round DOWN and leave a remainder of less than one ulp for the next call). -/
theorem unlockDest_spec {d : Dest} {now end_ : Int} (g : Good d now end_) :
    ∃ d' a, unlockDest d now end_ = .ok (d', a) ∧ a ≤ leftN d ∧ d'.vested = d.vested + a ∧
      d'.amount = d.amount ∧ d'.id = d.id ∧ d'.move ≤ now ∧ d.move ≤ d'.move ∧
      (now = end_ → leftN d < 2 ^ 53 → a = leftN d) ∧ (0 < a → d'.move = now) := by
  obtain ⟨m, E, hr, hle⟩ := ratio_le_one g
  have hl : leftN d < 2 ^ 63 := by unfold leftN; have := g.small; omega
  obtain ⟨a0, ha0⟩ := multFloat64_defined (leftN d) m E hl hle
  have hend : now = end_ → leftN d < 2 ^ 53 → (if leftN d < a0 then leftN d else a0) = leftN d := by
    intro he hs
    have : ratioOf d now end_ = F64.one := by unfold ratioOf; rw [if_pos he]
    rw [this] at hr
    rw [← hr, multFloat64_one _ hs] at ha0
    injection ha0 with ha0; rw [← ha0]; simp
  have hv := g.vested_le
  have hsm := g.small
  have hale : (if leftN d < a0 then leftN d else a0) ≤ leftN d := by split <;> omega
  generalize hA : (if leftN d < a0 then leftN d else a0) = a at hend hale
  have hadd : addCoin d.vested a = .ok (d.vested + a) := by
    unfold addCoin
    have : d.vested + a < U64 := by
      have : d.vested + a ≤ d.amount := by unfold leftN at hale; omega
      have : d.amount < U64 := Nat.lt_trans hsm (by decide)
      omega
    rw [if_pos this]
  by_cases hpos : 0 < a
  · refine ⟨{ d with last := now, move := now, vested := d.vested + a }, a, ?_, hale, rfl, rfl, rfl, Int.le_refl _, g.move_le, hend, fun _ => rfl⟩
    simp only [unlockDest, left_ok hv, bind, Except.bind, hr, ha0, liftC, hA, moveDest, if_pos hpos, hadd]
  · refine ⟨{ d with last := now }, a, ?_, hale, by simp; omega, rfl, rfl, g.move_le, Int.le_refl _, hend, fun h => absurd h hpos⟩
    simp only [unlockDest, left_ok hv, bind, Except.bind, hr, ha0, liftC, hA, moveDest, if_neg hpos]

def sumT (ts : Transfers) : Nat := (ts.map (·.2)).sum

/-- **the trigger loop** on destinations in good standing backed by the balance: it succeeds; afterwards every
destination still has `Vested ≤ Amount`, `Vested` did not decrease, the balance still backs the remainders, and
balance + transfers is conserved. At the end (`now = end`) every remainder below `2^53` is vested completely. -/
theorem triggerLoop_spec (now end_ : Int) : ∀ (ds : List Dest) (bal : Nat),
    (∀ d ∈ ds, Good d now end_) → needN ds ≤ bal →
    ∃ ds' bal' ts, triggerLoop now end_ ds bal = .ok (ds', bal', ts) ∧
      List.Forall₂ (fun d d' => d'.id = d.id ∧ d'.amount = d.amount ∧ d.vested ≤ d'.vested ∧ d'.vested ≤ d'.amount ∧
        d'.move ≤ now ∧ d.move ≤ d'.move ∧ (now = end_ → leftN d < 2 ^ 53 → d'.vested = d'.amount)) ds ds' ∧
      needN ds' ≤ bal' ∧ bal' + sumT ts = bal ∧ needN ds' + sumT ts = needN ds ∧
      (∀ t ∈ ts, ∃ d ∈ ds, t.1 = d.id) := by
  intro ds
  induction ds with
  | nil =>
    intro bal _ _
    exact ⟨[], bal, [], rfl, List.Forall₂.nil, by simp [needN], by simp [sumT], by simp [sumT, needN], by simp⟩
  | cons d rest ih =>
    intro bal hg hn
    have gd := hg d (List.mem_cons_self)
    obtain ⟨d', a, hu, hale, hv, ham, hid, hmv, hmv2, hend, _⟩ := unlockDest_spec gd
    have hneed : needN (d :: rest) = leftN d + needN rest := by simp [needN]
    have hl' : leftN d' = leftN d - a := by unfold leftN; rw [hv, ham]; omega
    have hgv := gd.vested_le
    have hfor : d'.id = d.id ∧ d'.amount = d.amount ∧ d.vested ≤ d'.vested ∧ d'.vested ≤ d'.amount ∧ d'.move ≤ now ∧ d.move ≤ d'.move ∧
        (now = end_ → leftN d < 2 ^ 53 → d'.vested = d'.amount) := by
      refine ⟨hid, ham, by omega, by unfold leftN at hale; omega, hmv, hmv2, ?_⟩
      intro he hs; have := hend he hs; unfold leftN at this; omega
    have hc' : ∀ ds', needN (d' :: ds') = leftN d' + needN ds' := by intro ds'; simp [needN]
    rw [hneed] at hn
    by_cases h0 : a = 0
    · obtain ⟨ds', bal', ts, hrec, hf, h1, h2, h3, h4⟩ := ih bal (fun x hx => hg x (List.mem_cons_of_mem _ hx)) (by omega)
      refine ⟨d' :: ds', bal', ts, ?_, List.Forall₂.cons hfor hf, ?_, h2, ?_, ?_⟩
      · unfold triggerLoop
        simp only [hu, bind, Except.bind, h0, if_true, hrec]
      · rw [hc']; omega
      · rw [hc', hneed]; omega
      · intro t ht; obtain ⟨x, hx, e⟩ := h4 t ht; exact ⟨x, List.mem_cons_of_mem _ hx, e⟩
    · have hdr : drainPool bal a = .ok (bal - a) := by
        unfold drainPool; rw [if_neg (by omega)]
      obtain ⟨ds', bal', ts, hrec, hf, h1, h2, h3, h4⟩ := ih (bal - a) (fun x hx => hg x (List.mem_cons_of_mem _ hx)) (by omega)
      have hst : sumT ((d.id, a) :: ts) = a + sumT ts := by simp [sumT]
      refine ⟨d' :: ds', bal', (d.id, a) :: ts, ?_, List.Forall₂.cons hfor hf, ?_, ?_, ?_, ?_⟩
      · unfold triggerLoop
        simp only [hu, bind, Except.bind, h0, if_false, hdr, hrec]
      · rw [hc']; omega
      · rw [hst]; omega
      · rw [hc', hst, hneed]; omega
      · intro t ht
        rcases List.mem_cons.mp ht with rfl | ht
        · exact ⟨d, List.mem_cons_self, rfl⟩
        · obtain ⟨x, hx, e⟩ := h4 t ht; exact ⟨x, List.mem_cons_of_mem _ hx, e⟩

/-- `needOf` (the checked sum of `excess`) equals `needN` when every `Vested ≤ Amount` and nothing overflows. -/
theorem needOf_ok : ∀ (ds : List Dest) (acc : Nat), (∀ d ∈ ds, d.vested ≤ d.amount) → acc + needN ds < U64 →
    needOf ds acc = .ok (acc + needN ds) := by
  intro ds
  induction ds with
  | nil => intro acc _ _; simp [needOf, needN]
  | cons d rest ih =>
    intro acc hv hb
    have hneed : needN (d :: rest) = leftN d + needN rest := by simp [needN]
    rw [hneed] at hb
    unfold needOf
    rw [left_ok (hv d List.mem_cons_self)]
    have : addCoin acc (leftN d) = .ok (acc + leftN d) := by
      unfold addCoin; rw [if_pos (by omega)]
    simp only [bind, Except.bind, liftC, this]
    rw [ih (acc + leftN d) (fun x hx => hv x (List.mem_cons_of_mem _ hx)) (by omega), hneed]
    congr 1; omega

/-! ## the linear schedule -/

theorem liftC_ok' {α} {x : Except Coin.Err α} {a : α} (h : liftC x = .ok a) : x = .ok a := by
  cases x with
  | error e => cases h
  | ok b => injection h with h; rw [h]

/-- the linear-schedule arithmetic of one step (integers): if a destination is on schedule at its last move `m`
(`V·(e−s) ≤ A·(m−s)`) and the step at `t` pays `a` with `a·(e−m) ≤ (A−V)·(t−m)` (and `a ≤ A−V`), it is on schedule at `t`. -/
theorem sched_step (V A a s m t e : Int) (_hV : 0 ≤ V) (_hVA : V ≤ A) (_ha0 : 0 ≤ a) (haL : a ≤ A - V)
    (hsm : s ≤ m) (hmt : m ≤ t) (hte : t ≤ e)
    (h1 : V * (e - s) ≤ A * (m - s)) (h2 : a * (e - m) ≤ (A - V) * (t - m)) :
    (V + a) * (e - s) ≤ A * (t - s) := by
  rcases Int.lt_or_le t e with hlt | hge
  · have hF : 0 < e - m := by omega
    have hS : 0 ≤ e - s := by omega
    have k1 := Int.mul_le_mul_of_nonneg_right h2 hS
    have k2 := Int.mul_le_mul_of_nonneg_right h1 (show 0 ≤ e - t by omega)
    have key : (V + a) * (e - s) * (e - m) ≤ A * (t - s) * (e - m) := by nlinarith
    exact Int.le_of_mul_le_mul_right key hF
  · have ht : t = e := by omega
    subst ht
    have hS : 0 ≤ t - s := by omega
    have : V + a ≤ A := by omega
    exact Int.mul_le_mul_of_nonneg_right this hS

/-- **the schedule inequality of one unlock step**: in the exact-float domain (`left · (end − Move) ≤ 2^51`) the amount a
step pays satisfies `a · (end − Move) ≤ left · (now − Move)` — it is at most the floor of the linear share. -/
theorem unlockDest_sched {d d' : Dest} {now end_ : Int} {a : Nat} (g : Good d now end_)
    (hsmall : leftN d * (end_ - d.move).toNat ≤ 2 ^ 51) (h : unlockDest d now end_ = .ok (d', a)) :
    (a : Int) * (end_ - d.move) ≤ (leftN d : Int) * (now - d.move) ∧ a ≤ leftN d := by
  have hv := g.vested_le
  unfold unlockDest at h
  rw [left_ok hv] at h
  obtain ⟨l, hl, h⟩ := bind_ok h
  have hl' : l = leftN d := by injection hl with hl; exact hl.symm
  subst hl'
  obtain ⟨a0, ha0, h⟩ := bind_ok h
  obtain ⟨d'', _, h⟩ := bind_ok h
  have hcap : a = (if leftN d < a0 then leftN d else a0) := by
    injection h with h; injection h with _ h2; exact h2.symm
  have hale : a ≤ leftN d := by rw [hcap]; split <;> omega
  have hle0 : a ≤ a0 := by rw [hcap]; split <;> omega
  refine ⟨?_, hale⟩
  have hm := g.move_le; have hn := g.now_le; have hsp := g.span
  by_cases he : now = end_
  · subst he
    exact Int.mul_le_mul_of_nonneg_right (by exact_mod_cast hale) (by omega)
  · have hf : 0 < end_ - d.move := by omega
    have ha0' := liftC_ok' ha0
    unfold ratioOf at ha0'
    rw [if_neg he, F64.ofInt_nonneg _ (by omega), F64.ofInt_nonneg _ (by omega)] at ha0'
    have hfN : (end_ - d.move).toNat < 2 ^ 53 := by
      have : ((end_ - d.move).toNat : Int) < 2 ^ 53 := by rw [Int.toNat_of_nonneg (by omega)]; exact hsp
      exact_mod_cast this
    have hpf : (now - d.move).toNat ≤ (end_ - d.move).toNat := by omega
    have key : a0 * (end_ - d.move).toNat ≤ leftN d * (now - d.move).toNat ∨ a = 0 := by
      rcases Nat.eq_zero_or_pos (now - d.move).toNat with hp0 | hp0
      · left
        rw [hp0] at ha0' ⊢
        have := multFloat64_ratio_zero (leftN d) _ a0 (by omega) hfN (by unfold leftN; have := g.small; omega) ha0'
        rw [this]; simp
      · rcases Nat.eq_zero_or_pos (leftN d) with hl0 | hl0
        · right; omega
        · left
          have hl53 : leftN d < 2 ^ 53 := by
            have : leftN d * 1 ≤ leftN d * (end_ - d.move).toNat := Nat.mul_le_mul_left _ (by omega)
            have : (2:Nat) ^ 51 < 2 ^ 53 := by decide
            omega
          exact multFloat64_floor (leftN d) _ _ a0 hp0 hpf hfN hl0 hl53
            (Nat.le_trans (Nat.mul_le_mul_left _ hpf) hsmall) ha0'
    rcases key with key | key
    · have k' : a * (end_ - d.move).toNat ≤ leftN d * (now - d.move).toNat :=
        Nat.le_trans (Nat.mul_le_mul_right _ hle0) key
      have e1 : ((end_ - d.move).toNat : Int) = end_ - d.move := Int.toNat_of_nonneg (by omega)
      have e2 : ((now - d.move).toNat : Int) = now - d.move := Int.toNat_of_nonneg (by omega)
      rw [← e1, ← e2]
      exact_mod_cast k'
    · rw [key]
      simp only [Nat.cast_zero, zero_mul]
      exact Int.mul_nonneg (by omega) (by omega)


end ZChain.Vesting
