import ZChain.Model.RoundBlocks
import ZChain.Proofs.NodePool
/-! Helper lemmas for C35 (core-only). -/
namespace ZChain.RoundBlocks
open ZChain.NodePool

/-! ### the heap: only tickets ever change -/

theorem heapGet_setTickets (h : List (Nat × Blk)) (o o' : Nat) (tk : List Nat) :
    heapGet (heapSetTickets h o tk) o' =
      (heapGet h o').map (fun b => if o' = o then { b with tickets := tk } else b) := by
  induction h with
  | nil => rfl
  | cons p t ih =>
    obtain ⟨k, b⟩ := p
    unfold heapSetTickets at ih ⊢
    simp only [List.map_cons]
    by_cases hk : k = o
    · subst hk
      simp only [if_true, heapGet]
      by_cases hko : k = o'
      · subst hko; simp
      · simp only [hko, if_false]; exact ih
    · simp only [hk, if_false, heapGet]
      by_cases hko : k = o'
      · subst hko; simp [hk]
      · simp only [hko, if_false]; exact ih

/-- hash and rank of an object. -/
def hr (s : St) (o : Nat) : Nat × Int := ((obj s o).hash, (obj s o).rank)

theorem hr_setTickets (s : St) (h' : List (Nat × Blk)) (o : Nat) (tk : List Nat) (o' : Nat)
    (hh : h' = heapSetTickets s.heap o tk) : hr { s with heap := h' } o' = hr s o' := by
  subst hh
  unfold hr obj
  simp only
  rw [heapGet_setTickets]
  cases heapGet s.heap o' with
  | none => rfl
  | some b => by_cases h : o' = o <;> simp [h]

/-! ### the scan of AddNotarizedBlock -/

def RanksDistinct (s : St) (l : List Nat) : Prop := l.Pairwise (fun a b => (obj s a).rank ≠ (obj s b).rank)

theorem scanN_dup_mem (s : St) (o : Nat) : ∀ (l : List Nat) (i : Nat) (f : Option Nat) (p : Nat) (f' : Option Nat),
    scanN s o l i f = (some p, f') → p ∈ l ∧ (obj s p).hash = (obj s o).hash := by
  intro l
  induction l with
  | nil => intro i f p f' h; simp [scanN] at h
  | cons q qs ih =>
    intro i f p f' h
    unfold scanN at h
    by_cases hq : (obj s q).hash = (obj s o).hash
    · simp only [hq, if_true, Prod.mk.injEq, Option.some.injEq] at h
      obtain ⟨rfl, _⟩ := h
      exact ⟨List.mem_cons_self .., hq⟩
    · simp only [hq, if_false] at h
      obtain ⟨h1, h2⟩ := ih _ _ _ _ h
      exact ⟨List.mem_cons_of_mem _ h1, h2⟩

theorem scanN_none (s : St) (o : Nat) : ∀ (l : List Nat) (i : Nat) (f f' : Option Nat),
    scanN s o l i f = (none, f') → RanksDistinct s l →
      (∀ p ∈ l, (obj s p).hash ≠ (obj s o).hash) ∧
      ((∀ p ∈ l, (obj s p).rank ≠ (obj s o).rank) → f' = f) ∧
      (∀ k (hk : k < l.length), (obj s l[k]).rank = (obj s o).rank → f' = some (i + k)) := by
  intro l
  induction l with
  | nil => intro i f f' h _; simp [scanN] at h; subst h; simp
  | cons q qs ih =>
    intro i f f' h hd
    have hd' := List.pairwise_cons.mp hd
    unfold scanN at h
    by_cases hq : (obj s q).hash = (obj s o).hash
    · simp [hq] at h
    · simp only [hq, if_false] at h
      obtain ⟨h1, h2, h3⟩ := ih _ _ _ h hd'.2
      refine ⟨?_, ?_, ?_⟩
      · intro p hp
        rcases List.mem_cons.mp hp with rfl | hp
        · exact hq
        · exact h1 p hp
      · intro hall
        have hqr : (obj s q).rank ≠ (obj s o).rank := hall q (List.mem_cons_self ..)
        rw [h2 (fun p hp => hall p (List.mem_cons_of_mem _ hp))]
        simp [hqr]
      · intro k hk hr
        cases k with
        | zero =>
          simp only [List.getElem_cons_zero] at hr
          have : ∀ p ∈ qs, (obj s p).rank ≠ (obj s o).rank := by
            intro p hp; rw [← hr]; exact fun e => hd'.1 p hp e.symm
          rw [h2 this]; simp [hr]
        | succ k =>
          simp only [List.getElem_cons_succ] at hr
          have := h3 k (by simpa using hk) hr
          rw [this]; congr 1; omega

/-! ### weight order on the domain -/

theorem weightKey_dom {r : Int} (h0 : 0 ≤ r) (h1 : r ≤ 1074) : weightKey r = r.toNat := by
  unfold weightKey
  by_cases hz : r ≤ 0
  · have : r = 0 := by omega
    subst this; rfl
  · have : ¬ r ≥ 1075 := by omega
    simp [hz, this]

/-! ### sorting by a natural-number key -/

theorem sortStable_sorted_key {α : Type} (f : α → Nat) (l : List α) :
    (sortStable (fun a b => decide (f a < f b)) l).Pairwise (fun a b => f a ≤ f b) := by
  have := sortStable_sorted (fun a b => decide (f a < f b))
    (by intro a b h; simp only [decide_eq_true_eq] at h; simp only [decide_eq_false_iff_not]; omega)
    (by intro a b c h1 h2; unfold Le at *; simp only [decide_eq_false_iff_not] at *; omega) l
  apply List.Pairwise.imp _ this
  intro a b h; unfold Le at h; simp only [decide_eq_false_iff_not] at h; omega

end ZChain.RoundBlocks
