import ZChain.Model.StateCache
import ZChain.Proofs.Partitions
namespace ZChain.StateCache
open ZChain.Partitions (KV)
open ZChain.Partitions

/-- keys of an association list are distinct (every map of the model is built with `KV.set`) -/
def NodupKeys {β : Type} (m : KV β) : Prop := (m.map (·.1)).Nodup

theorem nodupKeys_nil {β : Type} : NodupKeys ([] : KV β) := by simp [NodupKeys]

theorem nodupKeys_del {β : Type} (m : KV β) (k : Nat) (h : NodupKeys m) : NodupKeys (KV.del m k) := by
  unfold NodupKeys KV.del at *
  exact List.Nodup.sublist ((List.filter_sublist).map _) h

theorem not_mem_keys_del {β : Type} (m : KV β) (k : Nat) : k ∉ (KV.del m k).map (·.1) := by
  simp only [KV.del, List.mem_map, List.mem_filter, not_exists, not_and]
  rintro ⟨a, b⟩ ⟨_, h2⟩ h3
  simp at h2 h3
  exact h2 h3

theorem nodupKeys_set {β : Type} (m : KV β) (k : Nat) (v : β) (h : NodupKeys m) : NodupKeys (KV.set m k v) := by
  unfold KV.set NodupKeys
  simp only [List.map_cons, List.nodup_cons]
  exact ⟨not_mem_keys_del m k, nodupKeys_del m k h⟩

theorem get_eq_none_of_not_mem {β : Type} (m : KV β) (k : Nat) (h : k ∉ m.map (·.1)) : KV.get m k = none := by
  induction m with
  | nil => rfl
  | cons p r ih =>
    obtain ⟨a, b⟩ := p
    simp only [List.map_cons, List.mem_cons, not_or] at h
    rw [KV.get_cons, if_neg (Ne.symm h.1)]
    exact ih h.2

/-- folding `set` over a map with distinct keys -/
theorem foldl_set_get {β γ : Type} (f : β → γ) (l : KV β) (hl : NodupKeys l) (b0 : KV γ) (k : Nat) :
    KV.get (l.foldl (fun b kv => KV.set b kv.1 (f kv.2)) b0) k =
      match KV.get l k with
      | some e => some (f e)
      | none => KV.get b0 k := by
  induction l generalizing b0 with
  | nil => rfl
  | cons p r ih =>
    obtain ⟨k1, e1⟩ := p
    simp only [NodupKeys, List.map_cons, List.nodup_cons] at hl
    simp only [List.foldl_cons]
    rw [ih hl.2, KV.get_cons]
    by_cases hk : k1 = k
    · subst hk
      rw [get_eq_none_of_not_mem r k1 hl.1]
      simp [KV.get_set]
    · simp only [hk, if_false, KV.get_set]

/-- a cache node says what the trie holds -/
def Agrees : VNode → Option Nat → Prop
  | .val v, x => x = some v
  | .deleted, x => x = none

/-- `Clone` and `CopyFrom` reproduce the value -/
structure Faithful (cfg : Cfg) : Prop where
  clone : ∀ v, cfg.clone v = v
  copyFrom : ∀ v, cfg.copyFrom v = v

/-- a cache layer `c` over a lower view `lo` describes the trie `hi`: an entry says what `hi` holds, no entry
means `hi` and `lo` agree on the key -/
def Layer (c : KV VNode) (hi lo : KV Nat) : Prop :=
  ∀ k, match KV.get c k with
    | some e => Agrees e (KV.get hi k)
    | none => KV.get hi k = KV.get lo k

/-- the state cache over the computed blocks `tries` (variant that keeps entries: `keep = true`):
every entry is right for its block, and a block that changed a key (w.r.t. its parent) has an entry for it -/
structure ScInv (sc : SCache) (tries : KV (KV Nat)) : Prop where
  sound : ∀ k m b e, KV.get sc.cache k = some m → KV.get m b = some e →
    ∃ T, KV.get tries b = some T ∧ Agrees e (KV.get T k)
  link : ∀ b p, KV.get sc.hashes b = some p → ∃ Tb Tp, KV.get tries b = some Tb ∧ KV.get tries p = some Tp ∧
    ∀ k, KV.get Tb k ≠ KV.get Tp k → ∃ m e, KV.get sc.cache k = some m ∧ KV.get m b = some e

theorem scWalk_keep {cfg : Cfg} (hf : Faithful cfg) (hk : cfg.keep = true) {tries : KV (KV Nat)}
    {key old : Nat} {T : KV Nat} (hT : KV.get tries old = some T) :
    ∀ (fuel count b : Nat) (sc : SCache) (bvs : KV VNode) (Tb : KV Nat), ScInv sc tries →
      KV.get sc.cache key = some bvs → KV.get tries b = some Tb → KV.get Tb key = KV.get T key →
      KV.get bvs b = none →
      ScInv (scWalk cfg sc bvs key old fuel count b).1 tries ∧
        ∀ v, (scWalk cfg sc bvs key old fuel count b).2 = .hit v → KV.get T key = some v := by
  intro fuel
  induction fuel with
  | zero => intro count b sc bvs Tb hinv _ _ _ _; exact ⟨hinv, by simp [scWalk]⟩
  | succ fuel ih =>
    intro count b sc bvs Tb hinv hbvs hTb heq hnone
    unfold scWalk
    cases hh : KV.get sc.hashes b with
    | none => exact ⟨hinv, by simp⟩
    | some p =>
      simp only
      obtain ⟨Tb', Tp, h1, h2, h3⟩ := hinv.link b p hh
      rw [hTb] at h1; cases h1
      have hsame : KV.get Tb key = KV.get Tp key := by
        rcases Classical.em (KV.get Tb key = KV.get Tp key) with h | h
        · exact h
        · obtain ⟨m, e, hm, he⟩ := h3 key h
          rw [hbvs] at hm; cases hm
          rw [hnone] at he; cases he
      cases hp : KV.get bvs p with
      | none =>
        simp only
        split
        · exact ⟨hinv, by simp⟩
        · exact ih (count + 1) p sc bvs Tp hinv hbvs h2 (by rw [← hsame, heq]) hp
      | some v =>
        simp only [hk, if_true]
        obtain ⟨Tp', hTp', hag⟩ := hinv.sound key bvs p v hbvs hp
        rw [h2] at hTp'; cases hTp'
        have hagT : Agrees v (KV.get T key) := by rw [← heq, hsame]; exact hag
        have hinv' : ScInv { sc with cache := KV.set sc.cache key (KV.set bvs old v) } tries := by
          constructor
          · intro k m b' e hm he
            simp only [KV.get_set] at hm
            by_cases hkk : key = k
            · subst hkk
              simp only [if_true, Option.some.injEq] at hm
              subst hm
              simp only [KV.get_set] at he
              by_cases hob : old = b'
              · subst hob
                simp only [if_true, Option.some.injEq] at he
                subst he
                exact ⟨T, hT, hagT⟩
              · simp only [hob, if_false] at he
                exact hinv.sound key bvs b' e hbvs he
            · simp only [hkk, if_false] at hm
              exact hinv.sound k m b' e hm he
          · intro b' p' hb'
            obtain ⟨X, Y, x1, x2, x3⟩ := hinv.link b' p' hb'
            refine ⟨X, Y, x1, x2, ?_⟩
            intro k hne
            obtain ⟨m, e, hm, he⟩ := x3 k hne
            simp only [KV.get_set]
            by_cases hkk : key = k
            · subst hkk
              rw [hbvs] at hm; cases hm
              simp only [if_true]
              by_cases hob : old = b'
              · exact ⟨_, v, rfl, by simp [KV.get_set, hob]⟩
              · exact ⟨_, e, rfl, by simp [KV.get_set, hob, he]⟩
            · simp only [hkk, if_false]
              exact ⟨m, e, hm, he⟩
        cases v with
        | deleted => exact ⟨hinv', by simp⟩
        | val d =>
          refine ⟨hinv', ?_⟩
          intro v hv
          simp only [Hit.hit.injEq] at hv
          rw [hf.clone] at hv
          subst hv
          exact hagT

theorem scGet_keep {cfg : Cfg} (hf : Faithful cfg) (hk : cfg.keep = true) {tries : KV (KV Nat)} {sc : SCache}
    (hinv : ScInv sc tries) {key bh : Nat} {T : KV Nat} (hT : KV.get tries bh = some T) :
    ScInv (scGet cfg sc key bh).1 tries ∧ ∀ v, (scGet cfg sc key bh).2 = .hit v → KV.get T key = some v := by
  unfold scGet
  cases hb : KV.get sc.cache key with
  | none => exact ⟨hinv, by simp⟩
  | some bvs =>
    simp only
    cases he : KV.get bvs bh with
    | none => exact scWalk_keep hf hk hT _ _ _ sc bvs T hinv hb hT rfl he
    | some e =>
      obtain ⟨T', hT', hag⟩ := hinv.sound key bvs bh e hb he
      rw [hT] at hT'; cases hT'
      cases e with
      | deleted => exact ⟨hinv, by simp⟩
      | val d =>
        refine ⟨hinv, ?_⟩
        intro v hv
        simp only [Hit.hit.injEq] at hv
        rw [hf.clone] at hv; subst hv
        exact hag

theorem cl_id {cfg : Cfg} (hf : Faithful cfg) (e : VNode) : clNode cfg e = e := by
  cases e <;> simp [clNode, hf.clone]

theorem tcCommit_get (cfg : Cfg) (tc bc : KV VNode) (hn : NodupKeys tc) (k : Nat) :
    KV.get (tcCommit cfg tc bc) k =
      match KV.get tc k with
      | some e => some (clNode cfg e)
      | none => KV.get bc k := by
  unfold tcCommit
  rw [foldl_set_get (clNode cfg) tc hn bc k]
  cases KV.get tc k <;> rfl

theorem nodupKeys_foldl_set {β γ : Type} (g : Nat × β → γ) (l : KV β) (b0 : KV γ) (h : NodupKeys b0) :
    NodupKeys (l.foldl (fun b kv => KV.set b kv.1 (g kv)) b0) := by
  induction l generalizing b0 with
  | nil => exact h
  | cons p r ih => exact ih _ (nodupKeys_set _ _ _ h)

theorem nodupKeys_tcCommit (cfg : Cfg) (tc bc : KV VNode) (h : NodupKeys bc) : NodupKeys (tcCommit cfg tc bc) := by
  unfold tcCommit
  exact nodupKeys_foldl_set _ tc bc h

theorem scCommit_fold_get (cfg : Cfg) (hash : Nat) (bc : KV VNode) (hn : NodupKeys bc) (c0 : KV (KV VNode)) (k : Nat) :
    KV.get (bc.foldl (fun (c : KV (KV VNode)) (kv : Nat × VNode) =>
      let bvs : KV VNode := (KV.get c kv.1).getD []
      KV.set c kv.1 (KV.set bvs hash (clNode cfg kv.2))) c0) k =
      match KV.get bc k with
      | some e => some (KV.set ((KV.get c0 k).getD []) hash (clNode cfg e))
      | none => KV.get c0 k := by
  induction bc generalizing c0 with
  | nil => rfl
  | cons p r ih =>
    obtain ⟨k1, e1⟩ := p
    simp only [NodupKeys, List.map_cons, List.nodup_cons] at hn
    simp only [List.foldl_cons]
    rw [ih hn.2, KV.get_cons]
    by_cases hk : k1 = k
    · subst hk
      rw [get_eq_none_of_not_mem r k1 hn.1]
      simp only [KV.get_set, if_true]
    · simp only [hk, if_false, KV.get_set]

theorem scCommit_get (cfg : Cfg) (sc : SCache) (bc : KV VNode) (hash prev : Nat)
    (hfresh : KV.get sc.hashes hash = none) (hn : NodupKeys bc) :
    (scCommit cfg sc bc hash prev).hashes = KV.set sc.hashes hash prev ∧
    ∀ k, KV.get (scCommit cfg sc bc hash prev).cache k =
      match KV.get bc k with
      | some e => some (KV.set ((KV.get sc.cache k).getD []) hash (clNode cfg e))
      | none => KV.get sc.cache k := by
  unfold scCommit
  rw [hfresh]
  exact ⟨rfl, fun k => scCommit_fold_get cfg hash bc hn sc.cache k⟩

/-! ### the transaction and block layers -/

theorem Layer.set_val {c : KV VNode} {hi lo : KV Nat} (h : Layer c hi lo) {k v : Nat}
    (hv : KV.get hi k = some v) : Layer (KV.set c k (.val v)) hi lo := by
  intro k'
  have := h k'
  simp only [KV.get_set]
  by_cases hk : k = k'
  · subst hk; simp [Agrees, hv]
  · simpa [hk] using this

theorem Layer.ins {c : KV VNode} {hi lo : KV Nat} (h : Layer c hi lo) (k v : Nat) :
    Layer (KV.set c k (.val v)) (KV.set hi k v) lo := by
  intro k'
  have := h k'
  simp only [KV.get_set]
  by_cases hk : k = k'
  · subst hk; simp [Agrees]
  · simpa [hk] using this

theorem Layer.del {c : KV VNode} {hi lo : KV Nat} (h : Layer c hi lo) (k : Nat) :
    Layer (KV.set c k .deleted) (KV.del hi k) lo := by
  intro k'
  have := h k'
  simp only [KV.get_set, KV.get_del]
  by_cases hk : k = k'
  · subst hk; simp [Agrees]
  · simpa [hk] using this

theorem Layer.refl (t : KV Nat) : Layer [] t t := by intro k; simp

theorem Layer.commit {cfg : Cfg} (hf : Faithful cfg) {tc bc : KV VNode} {tt et pt : KV Nat}
    (h1 : Layer tc tt et) (h2 : Layer bc et pt) (hn : NodupKeys tc) : Layer (tcCommit cfg tc bc) tt pt := by
  intro k
  have a := h1 k
  have b := h2 k
  rw [tcCommit_get cfg tc bc hn]
  cases htc : KV.get tc k with
  | some e => simp only [htc, cl_id hf] at a ⊢; exact a
  | none =>
    simp only [htc] at a ⊢
    cases hbc : KV.get bc k with
    | some e => simp only [hbc] at b ⊢; rw [a]; exact b
    | none => simp only [hbc] at b ⊢; rw [a]; exact b

/-- the answer a correct read gives -/
def ansOf : Option Nat → Ans
  | some v => .val v
  | none => .absent

/-- `GetTrieNode` through the transaction and block layers over a sound base lookup -/
theorem read_layers {cfg : Cfg} (hf : Faithful cfg) {tc bc : KV VNode} {tt et pt : KV Nat}
    (h1 : Layer tc tt et) (h2 : Layer bc et pt) (sc : SCache) (prev k : Nat)
    (hbase : ∀ v, (scGet cfg sc k prev).2 = .hit v → KV.get pt k = some v) :
    (∀ v, (tcGet cfg sc tc bc prev k).2 = .hit v → KV.get tt k = some v) ∧
    ((tcGet cfg sc tc bc prev k).1 = sc ∨ (tcGet cfg sc tc bc prev k).1 = (scGet cfg sc k prev).1) := by
  have a := h1 k
  have b := h2 k
  unfold tcGet
  cases htc : KV.get tc k with
  | some e =>
    simp only [htc] at a
    cases e with
    | val d => simp only [Agrees] at a; simp [hf.clone, a]
    | deleted => simp
  | none =>
    simp only [htc] at a
    simp only
    unfold bcGet
    cases hbc : KV.get bc k with
    | some e =>
      simp only [hbc] at b
      cases e with
      | val d => simp only [Agrees] at b; simp [hf.clone, a, b]
      | deleted => simp
    | none =>
      simp only [hbc] at b
      simp only
      refine ⟨?_, by simp⟩
      intro v hv
      rw [a, b]; exact hbase v hv

theorem getTrieNode_ok {cfg : Cfg} (hf : Faithful cfg) {tc : KV VNode} {tt et : KV Nat} (h1 : Layer tc tt et)
    (look : SCache × Hit) (k : Nat) (hl : ∀ v, look.2 = .hit v → KV.get tt k = some v) :
    (getTrieNode cfg look tc tt k).1 = look.1 ∧ Layer (getTrieNode cfg look tc tt k).2.1 tt et ∧
      (getTrieNode cfg look tc tt k).2.2 = ansOf (KV.get tt k) ∧
      (NodupKeys tc → NodupKeys (getTrieNode cfg look tc tt k).2.1) := by
  obtain ⟨sc, hit⟩ := look
  unfold getTrieNode
  cases hit with
  | hit cv =>
    have := hl cv rfl
    simp [hf.copyFrom, this, ansOf, h1]
  | miss =>
    simp only
    cases ht : KV.get tt k with
    | none => simp [ansOf, h1]
    | some v =>
      simp only [hf.clone, ansOf]
      exact ⟨trivial, h1.set_val ht, trivial, fun h => nodupKeys_set _ _ _ h⟩

/-- what a read must answer: exactly the trie's content; a bare cache hit must be the trie's value -/
def ReadOK (w : World) (op : Op) (a : Ans) : Prop :=
  match op, refRead w op with
  | .get _, some r => a = ansOf r
  | .getn _, some r => a = ansOf r
  | .getr _, some r => a = ansOf r
  | .query _ _, some r => a = ansOf r
  | .probe _, some r => ∀ v, a = .val v → r = some v
  | _, _ => True

/-- the invariant of worlds whose state cache keeps its entries (`keep = true`): any tree of blocks -/
structure TreeInv (w : World) : Prop where
  sc : ScInv w.sc w.tries
  linked : ∀ b T, KV.get w.tries b = some T → b = 0 ∨ ∃ p, KV.get w.sc.hashes b = some p
  exec : ∀ e, w.cur = some e → e.hash ≠ 0 ∧ ∃ Tp, KV.get w.tries e.prev = some Tp ∧ Layer e.bc e.trie Tp ∧
    NodupKeys e.bc ∧ ∀ t, e.txn = some t → Layer t.tc t.trie e.trie ∧ NodupKeys t.tc

theorem scCommit_keep {cfg : Cfg} (hf : Faithful cfg) {sc : SCache} {tries : KV (KV Nat)} (hinv : ScInv sc tries)
    {bc : KV VNode} {h p : Nat} {Th Tp : KV Nat} (hfresh : KV.get sc.hashes h = none)
    (hfreshT : KV.get tries h = none) (hTp : KV.get tries p = some Tp) (hl : Layer bc Th Tp) (hn : NodupKeys bc) :
    ScInv (scCommit cfg sc bc h p) (KV.set tries h Th) := by
  obtain ⟨hh, hc⟩ := scCommit_get cfg sc bc h p hfresh hn
  have hph : p ≠ h := fun e => by rw [e, hfreshT] at hTp; cases hTp
  constructor
  · intro k m b e hm he
    rw [hc k] at hm
    cases hbc : KV.get bc k with
    | none =>
      rw [hbc] at hm
      obtain ⟨T, hT, hag⟩ := hinv.sound k m b e hm he
      have hbh : b ≠ h := fun e' => by rw [e', hfreshT] at hT; cases hT
      exact ⟨T, by rw [KV.get_set, if_neg (Ne.symm hbh)]; exact hT, hag⟩
    | some e0 =>
      rw [hbc] at hm
      simp only [Option.some.injEq] at hm
      subst hm
      rw [KV.get_set] at he
      by_cases hbh : h = b
      · subst hbh
        simp only [if_true, Option.some.injEq] at he
        subst he
        refine ⟨Th, by simp [KV.get_set], ?_⟩
        have := hl k
        rw [hbc] at this
        rw [cl_id hf]; exact this
      · simp only [hbh, if_false] at he
        cases hold : KV.get sc.cache k with
        | none => rw [hold] at he; simp at he
        | some m0 =>
          rw [hold] at he
          simp only [Option.getD_some] at he
          obtain ⟨T, hT, hag⟩ := hinv.sound k m0 b e hold he
          exact ⟨T, by rw [KV.get_set, if_neg hbh]; exact hT, hag⟩
  · intro b q hb
    rw [hh, KV.get_set] at hb
    by_cases hbh : h = b
    · subst hbh
      simp only [if_true, Option.some.injEq] at hb
      subst hb
      refine ⟨Th, Tp, by simp [KV.get_set], by rw [KV.get_set, if_neg (Ne.symm hph)]; exact hTp, ?_⟩
      intro k hne
      have := hl k
      cases hbc : KV.get bc k with
      | none => rw [hbc] at this; exact absurd this hne
      | some e0 =>
        rw [hc k, hbc]
        exact ⟨_, clNode cfg e0, rfl, by simp [KV.get_set]⟩
    · simp only [hbh, if_false] at hb
      obtain ⟨Tb, Tq, h1, h2, h3⟩ := hinv.link b q hb
      have hqh : q ≠ h := fun e' => by rw [e', hfreshT] at h2; cases h2
      refine ⟨Tb, Tq, by rw [KV.get_set, if_neg hbh]; exact h1, by rw [KV.get_set, if_neg (Ne.symm hqh)]; exact h2, ?_⟩
      intro k hne
      obtain ⟨m, e, hm, he⟩ := h3 k hne
      rw [hc k]
      cases hbc : KV.get bc k with
      | none => exact ⟨m, e, hm, he⟩
      | some e0 =>
        simp only
        rw [hm]
        exact ⟨_, e, rfl, by simp [KV.get_set, hbh, he]⟩


theorem scWalk_hashes (cfg : Cfg) (sc : SCache) (bvs : KV VNode) (key old : Nat) :
    ∀ fuel count b, (scWalk cfg sc bvs key old fuel count b).1.hashes = sc.hashes := by
  intro fuel
  induction fuel with
  | zero => intro _ _; rfl
  | succ fuel ih =>
    intro count b
    unfold scWalk
    cases KV.get sc.hashes b with
    | none => rfl
    | some p =>
      simp only
      cases KV.get bvs p with
      | none => simp only; split; rfl; exact ih _ _
      | some v => cases v <;> rfl

theorem scGet_hashes (cfg : Cfg) (sc : SCache) (key bh : Nat) : (scGet cfg sc key bh).1.hashes = sc.hashes := by
  unfold scGet
  cases KV.get sc.cache key with
  | none => rfl
  | some bvs =>
    simp only
    cases KV.get bvs bh with
    | none => exact scWalk_hashes _ _ _ _ _ _ _ _
    | some e => cases e <;> rfl

theorem step_get_eq (cfg : Cfg) (w : World) (e : Exec) (t : Txn) (k : Nat) (hc : w.cur = some e) (ht : e.txn = some t) :
    step cfg w (.get k) =
      ({ w with sc := (getTrieNode cfg (tcGet cfg w.sc t.tc e.bc e.prev k) t.tc t.trie k).1,
                cur := some { e with txn := some { t with
                  tc := (getTrieNode cfg (tcGet cfg w.sc t.tc e.bc e.prev k) t.tc t.trie k).2.1 } } },
       (getTrieNode cfg (tcGet cfg w.sc t.tc e.bc e.prev k) t.tc t.trie k).2.2) := by
  simp only [step, hc, ht]

theorem step_getr_eq (cfg : Cfg) (w : World) (e : Exec) (t : Txn) (k : Nat) (hc : w.cur = some e) (ht : e.txn = some t) :
    step cfg w (.getr k) =
      ({ w with sc := (getTrieNode cfg ((tcGet cfg w.sc t.tc e.bc e.prev k).1, .miss) t.tc t.trie k).1,
                cur := some { e with txn := some { t with
                  tc := (getTrieNode cfg ((tcGet cfg w.sc t.tc e.bc e.prev k).1, .miss) t.tc t.trie k).2.1 } } },
       (getTrieNode cfg ((tcGet cfg w.sc t.tc e.bc e.prev k).1, .miss) t.tc t.trie k).2.2) := by
  simp only [step, hc, ht]

theorem step_getn_eq (cfg : Cfg) (w : World) (e : Exec) (t : Txn) (k : Nat) (hc : w.cur = some e) (ht : e.txn = some t) :
    step cfg w (.getn k) =
      ({ w with sc := (tcGet cfg w.sc t.tc e.bc e.prev k).1 }, ansOf (KV.get t.trie k)) := by
  simp only [step, hc, ht]
  cases KV.get t.trie k <;> rfl

theorem step_tree {cfg : Cfg} (hf : Faithful cfg) (hk : cfg.keep = true) {w : World} (h : TreeInv w) (op : Op)
    (hop : ∀ x p, op = .begin_ x p → x ≠ 0) :
    TreeInv (step cfg w op).1 ∧ ReadOK w op (step cfg w op).2 := by
  cases op with
  | begin_ x p =>
    refine ⟨?_, by simp [ReadOK]⟩
    simp only [step]
    cases hc : w.cur with
    | some e => exact h
    | none =>
      cases hp : KV.get w.tries p with
      | none => exact h
      | some t =>
        simp only
        refine ⟨h.sc, h.linked, ?_⟩
        intro e he
        simp only [Option.some.injEq] at he
        subst he
        exact ⟨hop x p rfl, t, hp, Layer.refl t, nodupKeys_nil, by intro t' ht'; simp at ht'⟩
  | tx =>
    refine ⟨?_, by simp [ReadOK]⟩
    simp only [step]
    cases hc : w.cur with
    | none => exact h
    | some e =>
      simp only
      cases ht : e.txn with
      | some t => exact h
      | none =>
        simp only
        obtain ⟨h0, Tp, hTp, hl, hn, _⟩ := h.exec e hc
        refine ⟨h.sc, h.linked, ?_⟩
        intro e' he'
        simp only [Option.some.injEq] at he'
        subst he'
        refine ⟨h0, Tp, hTp, hl, hn, ?_⟩
        intro t' ht'
        simp only [Option.some.injEq] at ht'
        subst ht'
        exact ⟨Layer.refl _, nodupKeys_nil⟩
  | get k =>
    cases hc : w.cur with
    | none => simp [step, hc, ReadOK, refRead]; exact h
    | some e =>
      cases ht : e.txn with
      | none => simp [step, hc, ht, ReadOK, refRead]; exact h
      | some t =>
        obtain ⟨h0, Tp, hTp, hl, hn, hx⟩ := h.exec e hc
        obtain ⟨hlt, hnt⟩ := hx t ht
        obtain ⟨hsc', hbase⟩ := scGet_keep hf hk h.sc (key := k) hTp
        obtain ⟨hhit, hsc⟩ := read_layers hf hlt hl w.sc e.prev k hbase
        obtain ⟨g1, g2, g3, g4⟩ := getTrieNode_ok hf hlt (tcGet cfg w.sc t.tc e.bc e.prev k) k hhit
        rw [step_get_eq cfg w e t k hc ht]
        have hhs : (tcGet cfg w.sc t.tc e.bc e.prev k).1.hashes = w.sc.hashes := by
          rcases hsc with hs | hs <;> rw [hs]
          exact scGet_hashes _ _ _ _
        refine ⟨⟨?_, ?_, ?_⟩, ?_⟩
        · simp only [g1]
          rcases hsc with hs | hs <;> rw [hs]
          · exact h.sc
          · exact hsc'
        · intro b T hb
          simp only [g1, hhs]
          exact h.linked b T hb
        · intro e' he'
          simp only [Option.some.injEq] at he'
          subst he'
          refine ⟨h0, Tp, hTp, hl, hn, ?_⟩
          intro t' ht'
          simp only [Option.some.injEq] at ht'
          subst ht'
          exact ⟨g2, g4 hnt⟩
        · simp only [ReadOK, refRead, hc, ht, g3]
  | probe k =>
    cases hc : w.cur with
    | none => simp [step, hc, ReadOK, refRead]; exact h
    | some e =>
      cases ht : e.txn with
      | none => simp [step, hc, ht, ReadOK, refRead]; exact h
      | some t =>
        obtain ⟨h0, Tp, hTp, hl, hn, hx⟩ := h.exec e hc
        obtain ⟨hlt, hnt⟩ := hx t ht
        obtain ⟨hsc', hbase⟩ := scGet_keep hf hk h.sc (key := k) hTp
        obtain ⟨hhit, hsc⟩ := read_layers hf hlt hl w.sc e.prev k hbase
        simp only [step, hc, ht, ReadOK, refRead]
        cases hg : tcGet cfg w.sc t.tc e.bc e.prev k with
        | mk sc' hit =>
          rw [hg] at hhit hsc
          have hinv' : ScInv sc' w.tries := by
            rcases hsc with hs | hs
            · simp only at hs; rw [hs]; exact h.sc
            · simp only at hs; rw [hs]; exact hsc'
          have hhs : sc'.hashes = w.sc.hashes := by
            rcases hsc with hs | hs
            · simp only at hs; rw [hs]
            · simp only at hs; rw [hs]; exact scGet_hashes _ _ _ _
          have hlk : ∀ b T, KV.get w.tries b = some T → b = 0 ∨ ∃ p, KV.get sc'.hashes b = some p := by
            rw [hhs]; exact h.linked
          cases hit with
          | hit v =>
            simp only
            refine ⟨⟨hinv', hlk, fun e' he' => ?_⟩, ?_⟩
            · simp only [Option.some.injEq] at he'; subst he'
              exact h.exec e hc
            · intro v' hv'; simp only [Ans.val.injEq] at hv'; subst hv'; exact hhit v rfl
          | miss =>
            simp only
            refine ⟨⟨hinv', hlk, fun e' he' => ?_⟩, by simp⟩
            simp only [Option.some.injEq] at he'; subst he'
            exact h.exec e hc
  | insfail k =>
    refine ⟨?_, by simp [ReadOK]⟩
    simp only [step]
    cases hc : w.cur with
    | none => exact h
    | some e =>
      simp only
      cases ht : e.txn <;> exact h
  | getn k =>
    cases hc : w.cur with
    | none => simp [step, hc, ReadOK, refRead]; exact h
    | some e =>
      cases ht : e.txn with
      | none => simp [step, hc, ht, ReadOK, refRead]; exact h
      | some t =>
        obtain ⟨h0, Tp, hTp, hl, hn, hx⟩ := h.exec e hc
        obtain ⟨hlt, hnt⟩ := hx t ht
        obtain ⟨hsc', hbase⟩ := scGet_keep hf hk h.sc (key := k) hTp
        obtain ⟨_, hsc⟩ := read_layers hf hlt hl w.sc e.prev k hbase
        have hinv' : ScInv (tcGet cfg w.sc t.tc e.bc e.prev k).1 w.tries := by
          rcases hsc with hs | hs <;> rw [hs]
          · exact h.sc
          · exact hsc'
        have hhs : (tcGet cfg w.sc t.tc e.bc e.prev k).1.hashes = w.sc.hashes := by
          rcases hsc with hs | hs <;> rw [hs]
          exact scGet_hashes _ _ _ _
        have hlk : ∀ b T, KV.get w.tries b = some T → b = 0 ∨ ∃ p, KV.get (tcGet cfg w.sc t.tc e.bc e.prev k).1.hashes b = some p := by
          rw [hhs]; exact h.linked
        rw [step_getn_eq cfg w e t k hc ht]
        refine ⟨⟨hinv', hlk, fun e' he' => ?_⟩, ?_⟩
        · simp only at he'; rw [hc] at he'; simp only [Option.some.injEq] at he'; subst he'
          exact h.exec e hc
        · simp only [ReadOK, refRead, hc, ht]
  | getr k =>
    cases hc : w.cur with
    | none => simp [step, hc, ReadOK, refRead]; exact h
    | some e =>
      cases ht : e.txn with
      | none => simp [step, hc, ht, ReadOK, refRead]; exact h
      | some t =>
        obtain ⟨h0, Tp, hTp, hl, hn, hx⟩ := h.exec e hc
        obtain ⟨hlt, hnt⟩ := hx t ht
        obtain ⟨hsc', hbase⟩ := scGet_keep hf hk h.sc (key := k) hTp
        obtain ⟨_, hsc⟩ := read_layers hf hlt hl w.sc e.prev k hbase
        have hinv' : ScInv (tcGet cfg w.sc t.tc e.bc e.prev k).1 w.tries := by
          rcases hsc with hs | hs <;> rw [hs]
          · exact h.sc
          · exact hsc'
        have hhs : (tcGet cfg w.sc t.tc e.bc e.prev k).1.hashes = w.sc.hashes := by
          rcases hsc with hs | hs <;> rw [hs]
          exact scGet_hashes _ _ _ _
        have hlk : ∀ b T, KV.get w.tries b = some T → b = 0 ∨ ∃ p, KV.get (tcGet cfg w.sc t.tc e.bc e.prev k).1.hashes b = some p := by
          rw [hhs]; exact h.linked
        obtain ⟨g1, g2, g3, g4⟩ := getTrieNode_ok hf hlt ((tcGet cfg w.sc t.tc e.bc e.prev k).1, Hit.miss) k
          (by intro v hv; cases hv)
        rw [step_getr_eq cfg w e t k hc ht]
        refine ⟨⟨by simp only [g1]; exact hinv', by simp only [g1]; exact hlk, fun e' he' => ?_⟩, ?_⟩
        · simp only [Option.some.injEq] at he'
          subst he'
          refine ⟨h0, Tp, hTp, hl, hn, ?_⟩
          intro t' ht'
          simp only [Option.some.injEq] at ht'
          subst ht'
          exact ⟨g2, g4 hnt⟩
        · simp only [ReadOK, refRead, hc, ht, g3]
  | ins k v =>
    refine ⟨?_, by simp [ReadOK]⟩
    simp only [step]
    cases hc : w.cur with
    | none => exact h
    | some e =>
      simp only
      cases ht : e.txn with
      | none => exact h
      | some t =>
        simp only
        obtain ⟨h0, Tp, hTp, hl, hn, hx⟩ := h.exec e hc
        obtain ⟨hlt, hnt⟩ := hx t ht
        refine ⟨h.sc, h.linked, ?_⟩
        intro e' he'
        simp only [Option.some.injEq] at he'
        subst he'
        refine ⟨h0, Tp, hTp, hl, hn, ?_⟩
        intro t' ht'
        simp only [Option.some.injEq] at ht'
        subst ht'
        simp only [hf.clone]
        exact ⟨hlt.ins k v, nodupKeys_set _ _ _ hnt⟩
  | del k =>
    refine ⟨?_, by simp [ReadOK]⟩
    simp only [step]
    cases hc : w.cur with
    | none => exact h
    | some e =>
      simp only
      cases ht : e.txn with
      | none => exact h
      | some t =>
        simp only
        cases hg : KV.get t.trie k with
        | none => exact h
        | some _ =>
          simp only
          obtain ⟨h0, Tp, hTp, hl, hn, hx⟩ := h.exec e hc
          obtain ⟨hlt, hnt⟩ := hx t ht
          refine ⟨h.sc, h.linked, ?_⟩
          intro e' he'
          simp only [Option.some.injEq] at he'
          subst he'
          refine ⟨h0, Tp, hTp, hl, hn, ?_⟩
          intro t' ht'
          simp only [Option.some.injEq] at ht'
          subst ht'
          exact ⟨hlt.del k, nodupKeys_set _ _ _ hnt⟩
  | commit =>
    refine ⟨?_, by simp [ReadOK]⟩
    simp only [step]
    cases hc : w.cur with
    | none => exact h
    | some e =>
      simp only
      cases ht : e.txn with
      | none => exact h
      | some t =>
        simp only
        obtain ⟨h0, Tp, hTp, hl, hn, hx⟩ := h.exec e hc
        obtain ⟨hlt, hnt⟩ := hx t ht
        refine ⟨h.sc, h.linked, ?_⟩
        intro e' he'
        simp only [Option.some.injEq] at he'
        subst he'
        exact ⟨h0, Tp, hTp, Layer.commit hf hlt hl hnt, nodupKeys_tcCommit cfg _ _ hn, by intro t' ht'; simp at ht'⟩
  | discard =>
    refine ⟨?_, by simp [ReadOK]⟩
    simp only [step]
    cases hc : w.cur with
    | none => exact h
    | some e =>
      simp only
      cases ht : e.txn with
      | none => exact h
      | some t =>
        simp only
        obtain ⟨h0, Tp, hTp, hl, hn, hx⟩ := h.exec e hc
        refine ⟨h.sc, h.linked, ?_⟩
        intro e' he'
        simp only [Option.some.injEq] at he'
        subst he'
        exact ⟨h0, Tp, hTp, hl, hn, by intro t' ht'; simp at ht'⟩
  | bcommit =>
    refine ⟨?_, by simp [ReadOK]⟩
    simp only [step]
    cases hc : w.cur with
    | none => exact h
    | some e =>
      simp only
      cases ht : e.txn with
      | some t => exact h
      | none =>
        simp only
        obtain ⟨h0, Tp, hTp, hl, hn, _⟩ := h.exec e hc
        cases hth : KV.get w.tries e.hash with
        | some T =>
          -- the state of this hash is already computed: nothing changes
          simp only
          rcases h.linked e.hash T hth with hz | ⟨p, hp⟩
          · exact absurd hz h0
          · have : scCommit cfg w.sc e.bc e.hash e.prev = w.sc := by simp [scCommit, hp]
            rw [this]
            exact ⟨h.sc, h.linked, by intro e' he'; simp at he'⟩
        | none =>
          simp only
          have hfresh : KV.get w.sc.hashes e.hash = none := by
            cases hh : KV.get w.sc.hashes e.hash with
            | none => rfl
            | some p =>
              obtain ⟨Tb, _, hTb, _, _⟩ := h.sc.link e.hash p hh
              rw [hth] at hTb; cases hTb
          refine ⟨scCommit_keep hf h.sc hfresh hth hTp hl hn, ?_, by intro e' he'; simp at he'⟩
          intro b T hb
          rw [KV.get_set] at hb
          rw [(scCommit_get cfg w.sc e.bc e.hash e.prev hfresh hn).1]
          by_cases hbh : e.hash = b
          · exact Or.inr ⟨e.prev, by simp [KV.get_set, hbh]⟩
          · simp only [hbh, if_false] at hb
            rcases h.linked b T hb with hz | ⟨p, hp⟩
            · exact Or.inl hz
            · exact Or.inr ⟨p, by rw [KV.get_set, if_neg hbh]; exact hp⟩
  | babort =>
    refine ⟨?_, by simp [ReadOK]⟩
    simp only [step]
    cases hc : w.cur with
    | none => exact h
    | some e => exact ⟨h.sc, h.linked, by intro e' he'; simp at he'⟩
  | query x k =>
    cases hx : KV.get w.tries x with
    | none => simp [step, hx, ReadOK, refRead]; exact h
    | some T =>
      obtain ⟨hsc', hbase⟩ := scGet_keep hf hk h.sc (key := k) hx
      obtain ⟨g1, _, g3, _⟩ := getTrieNode_ok hf (Layer.refl T) (scGet cfg w.sc k x) k hbase
      have heq : step cfg w (.query x k) =
          ({ w with sc := (getTrieNode cfg (scGet cfg w.sc k x) [] T k).1 },
           (getTrieNode cfg (scGet cfg w.sc k x) [] T k).2.2) := by simp only [step, hx]
      rw [heq]
      refine ⟨⟨by simp only [g1]; exact hsc', ?_, fun e he => h.exec e he⟩, ?_⟩
      · intro b T' hb
        simp only [g1, scGet_hashes]
        exact h.linked b T' hb
      simp only [ReadOK, refRead, hx, Option.map_some, g3]

/-! ### the state cache as coded (`keep = false`), on one chain of blocks read at its tip -/

/-- blocks reached from the tip through blocks that have no entry for the key -/
inductive Clear (m : KV VNode) (hashes : KV Nat) (tip : Nat) : Nat → Prop
  | tip : Clear m hashes tip tip
  | step {c b : Nat} : Clear m hashes tip c → KV.get m c = none → KV.get hashes c = some b → Clear m hashes tip b

theorem Clear.tip_only {m : KV VNode} {hashes : KV Nat} {tip b : Nat} {e : VNode} (he : KV.get m tip = some e)
    (h : Clear m hashes tip b) : b = tip := by
  induction h with
  | tip => rfl
  | step hc hn _ ih => subst ih; rw [he] at hn; cases hn

/-- for every key, the first entry met walking back from the tip is right for its block, and the key has the
same value from there up to the tip. (Entries further back may be anything: they are never reached from the tip.) -/
structure ScLin (sc : SCache) (tries : KV (KV Nat)) (tip : Nat) : Prop where
  clear : ∀ key m b, KV.get sc.cache key = some m → Clear m sc.hashes tip b →
    ∃ Tb Tt, KV.get tries b = some Tb ∧ KV.get tries tip = some Tt ∧ KV.get Tb key = KV.get Tt key ∧
      ∀ e, KV.get m b = some e → Agrees e (KV.get Tb key)
  ent : ∀ key m b e, KV.get sc.cache key = some m → KV.get m b = some e → ∃ T, KV.get tries b = some T
  hsh : ∀ b p, KV.get sc.hashes b = some p → ∃ T, KV.get tries b = some T

theorem scWalk_lin {cfg : Cfg} (hf : Faithful cfg) {tries : KV (KV Nat)} {key tip : Nat} {Tt : KV Nat}
    (hT : KV.get tries tip = some Tt) :
    ∀ (fuel count b : Nat) (sc : SCache) (bvs : KV VNode), ScLin sc tries tip →
      KV.get sc.cache key = some bvs → Clear bvs sc.hashes tip b → KV.get bvs b = none →
      ScLin (scWalk cfg sc bvs key tip fuel count b).1 tries tip ∧
        ∀ v, (scWalk cfg sc bvs key tip fuel count b).2 = .hit v → KV.get Tt key = some v := by
  intro fuel
  induction fuel with
  | zero => intro count b sc bvs hinv _ _ _; exact ⟨hinv, by simp [scWalk]⟩
  | succ fuel ih =>
    intro count b sc bvs hinv hbvs hcl hnone
    unfold scWalk
    cases hh : KV.get sc.hashes b with
    | none => exact ⟨hinv, by simp⟩
    | some p =>
      simp only
      have hclp : Clear bvs sc.hashes tip p := Clear.step hcl hnone hh
      cases hp : KV.get bvs p with
      | none =>
        simp only
        split
        · exact ⟨hinv, by simp⟩
        · exact ih (count + 1) p sc bvs hinv hbvs hclp hp
      | some v =>
        simp only
        obtain ⟨Tp, Tt', h1, h2, h3, h4⟩ := hinv.clear key bvs p hbvs hclp
        rw [hT] at h2; cases h2
        have hagT : Agrees v (KV.get Tt key) := by rw [← h3]; exact h4 v hp
        have hm' : ∀ (m' : KV VNode), KV.get m' tip = some v →
            (∀ b e, KV.get m' b = some e → b = tip ∨ KV.get bvs b = some e) →
            ScLin { sc with cache := KV.set sc.cache key m' } tries tip := by
          intro m' hm't hm'o
          constructor
          · intro key' m'' b' hm'' hcl'
            simp only [KV.get_set] at hm''
            by_cases hkk : key = key'
            · subst hkk
              simp only [if_true, Option.some.injEq] at hm''
              subst hm''
              have := Clear.tip_only hm't hcl'
              subst this
              refine ⟨Tt, Tt, hT, hT, rfl, ?_⟩
              intro e he
              rw [hm't] at he; cases he
              exact hagT
            · simp only [hkk, if_false] at hm''
              exact hinv.clear key' m'' b' hm'' hcl'
          · intro key' m'' b' e hm'' he
            simp only [KV.get_set] at hm''
            by_cases hkk : key = key'
            · subst hkk
              simp only [if_true, Option.some.injEq] at hm''
              subst hm''
              rcases hm'o b' e he with rfl | hold
              · exact ⟨Tt, hT⟩
              · exact hinv.ent key bvs b' e hbvs hold
            · simp only [hkk, if_false] at hm''
              exact hinv.ent key' m'' b' e hm'' he
          · exact hinv.hsh
        have hinv' : ScLin { sc with cache := KV.set sc.cache key (if cfg.keep = true then KV.set bvs tip v else KV.set ([] : KV VNode) tip v) } tries tip := by
          apply hm'
          · split <;> simp [KV.get_set]
          · intro b' e he
            split at he
            · rw [KV.get_set] at he
              by_cases hb : tip = b'
              · exact Or.inl hb.symm
              · simp only [hb, if_false] at he; exact Or.inr he
            · rw [KV.get_set] at he
              by_cases hb : tip = b'
              · exact Or.inl hb.symm
              · simp [hb] at he
        cases v with
        | deleted => exact ⟨hinv', by simp⟩
        | val d =>
          refine ⟨hinv', ?_⟩
          intro v hv
          simp only [Hit.hit.injEq] at hv
          rw [hf.clone] at hv
          subst hv
          exact hagT

theorem scGet_lin {cfg : Cfg} (hf : Faithful cfg) {tries : KV (KV Nat)} {sc : SCache} {tip : Nat}
    (hinv : ScLin sc tries tip) {key : Nat} {Tt : KV Nat} (hT : KV.get tries tip = some Tt) :
    ScLin (scGet cfg sc key tip).1 tries tip ∧ ∀ v, (scGet cfg sc key tip).2 = .hit v → KV.get Tt key = some v := by
  unfold scGet
  cases hb : KV.get sc.cache key with
  | none => exact ⟨hinv, by simp⟩
  | some bvs =>
    simp only
    cases he : KV.get bvs tip with
    | none => exact scWalk_lin hf hT _ _ _ sc bvs hinv hb Clear.tip he
    | some e =>
      obtain ⟨Tb, Tt', h1, h2, _, h4⟩ := hinv.clear key bvs tip hb Clear.tip
      rw [hT] at h1; cases h1
      have hag := h4 e he
      cases e with
      | deleted => exact ⟨hinv, by simp⟩
      | val d =>
        refine ⟨hinv, ?_⟩
        intro v hv
        simp only [Hit.hit.injEq] at hv
        rw [hf.clone] at hv; subst hv
        exact hag

theorem Clear.extend {m : KV VNode} {hashes : KV Nat} {tip h b : Nat}
    (hc : Clear m (KV.set hashes h tip) h b) : b = h ∨ Clear m hashes tip b := by
  induction hc with
  | tip => exact Or.inl rfl
  | @step c b' _ hn hh ih =>
    rw [KV.get_set] at hh
    by_cases hch : h = c
    · simp only [hch, if_true, Option.some.injEq] at hh
      subst hh
      exact Or.inr Clear.tip
    · simp only [hch, if_false] at hh
      rcases ih with rfl | hold
      · exact absurd rfl hch
      · exact Or.inr (Clear.step hold hn hh)

theorem scCommit_lin {cfg : Cfg} (hf : Faithful cfg) {sc : SCache} {tries : KV (KV Nat)} {tip : Nat}
    (hinv : ScLin sc tries tip) {bc : KV VNode} {h : Nat} {Th Tt : KV Nat}
    (hfreshT : KV.get tries h = none) (hTt : KV.get tries tip = some Tt) (hl : Layer bc Th Tt) (hn : NodupKeys bc) :
    ScLin (scCommit cfg sc bc h tip) (KV.set tries h Th) h := by
  have hfresh : KV.get sc.hashes h = none := by
    cases hh : KV.get sc.hashes h with
    | none => rfl
    | some p => obtain ⟨T, hT⟩ := hinv.hsh h p hh; rw [hfreshT] at hT; cases hT
  obtain ⟨hh, hc⟩ := scCommit_get cfg sc bc h tip hfresh hn
  have hold : ∀ b T, KV.get tries b = some T → KV.get (KV.set tries h Th) b = some T := by
    intro b T hb
    have : h ≠ b := fun e => by rw [← e, hfreshT] at hb; cases hb
    rw [KV.get_set, if_neg this]; exact hb
  have hnew : KV.get (KV.set tries h Th) h = some Th := by simp [KV.get_set]
  constructor
  · intro key m' b hm' hcl
    rw [hc key] at hm'
    rw [hh] at hcl
    cases hbc : KV.get bc key with
    | some e0 =>
      rw [hbc] at hm'
      simp only [Option.some.injEq] at hm'
      subst hm'
      have hget : KV.get (KV.set ((KV.get sc.cache key).getD []) h (clNode cfg e0)) h = some (clNode cfg e0) := by
        simp [KV.get_set]
      have := Clear.tip_only hget hcl
      subst this
      refine ⟨Th, Th, hnew, hnew, rfl, ?_⟩
      intro e he
      rw [hget] at he; cases he
      have := hl key
      rw [hbc] at this
      rw [cl_id hf]; exact this
    | none =>
      rw [hbc] at hm'
      have hlk := hl key
      rw [hbc] at hlk
      rcases Clear.extend hcl with rfl | hclo
      · refine ⟨Th, Th, hnew, hnew, rfl, ?_⟩
        intro e he
        obtain ⟨T, hT⟩ := hinv.ent key m' b e hm' he
        rw [hfreshT] at hT; cases hT
      · obtain ⟨Tb, Tt', h1, h2, h3, h4⟩ := hinv.clear key m' b hm' hclo
        rw [hTt] at h2; cases h2
        exact ⟨Tb, Th, hold b Tb h1, hnew, by rw [h3, hlk], h4⟩
  · intro key m' b e hm' he
    rw [hc key] at hm'
    cases hbc : KV.get bc key with
    | some e0 =>
      rw [hbc] at hm'
      simp only [Option.some.injEq] at hm'
      subst hm'
      rw [KV.get_set] at he
      by_cases hb : h = b
      · subst hb; exact ⟨Th, hnew⟩
      · simp only [hb, if_false] at he
        cases hold' : KV.get sc.cache key with
        | none => rw [hold'] at he; simp at he
        | some m0 =>
          rw [hold'] at he
          simp only [Option.getD_some] at he
          obtain ⟨T, hT⟩ := hinv.ent key m0 b e hold' he
          exact ⟨T, hold b T hT⟩
    | none =>
      rw [hbc] at hm'
      obtain ⟨T, hT⟩ := hinv.ent key m' b e hm' he
      exact ⟨T, hold b T hT⟩
  · intro b p hb
    rw [hh, KV.get_set] at hb
    by_cases hbh : h = b
    · subst hbh; exact ⟨Th, hnew⟩
    · simp only [hbh, if_false] at hb
      obtain ⟨T, hT⟩ := hinv.hsh b p hb
      exact ⟨T, hold b T hT⟩


/-- worlds with one chain of computed blocks whose last one is `tip` -/
structure LinInv (w : World) (tip : Nat) : Prop where
  sc : ScLin w.sc w.tries tip
  exec : ∀ e, w.cur = some e → e.prev = tip ∧ KV.get w.tries e.hash = none ∧
    ∃ Tp, KV.get w.tries tip = some Tp ∧ Layer e.bc e.trie Tp ∧ NodupKeys e.bc ∧
      ∀ t, e.txn = some t → Layer t.tc t.trie e.trie ∧ NodupKeys t.tc
  tipT : ∃ Tt, KV.get w.tries tip = some Tt

/-- the histories of the partial theorem: a block is begun on the tip with a fresh hash, queries read at the tip -/
def LinOK (w : World) (tip : Nat) : Op → Prop
  | .begin_ x p => p = tip ∧ KV.get w.tries x = none
  | .query x _ => x = tip
  | _ => True

/-- the tip after an operation -/
def nextTip (w : World) (tip : Nat) : Op → Nat
  | .bcommit => match w.cur with
    | some e => match e.txn with
      | none => e.hash
      | some _ => tip
    | none => tip
  | _ => tip

theorem step_lin {cfg : Cfg} (hf : Faithful cfg) {w : World} {tip : Nat} (h : LinInv w tip) (op : Op)
    (hop : LinOK w tip op) :
    LinInv (step cfg w op).1 (nextTip w tip op) ∧ ReadOK w op (step cfg w op).2 := by
  cases op with
  | begin_ x p =>
    refine ⟨?_, by simp [ReadOK]⟩
    obtain ⟨hp, hx⟩ := hop
    subst hp
    simp only [step, nextTip]
    cases hc : w.cur with
    | some e => exact h
    | none =>
      obtain ⟨Tt, hTt⟩ := h.tipT
      rw [hTt]
      simp only
      refine ⟨h.sc, ?_, h.tipT⟩
      intro e he
      simp only [Option.some.injEq] at he
      subst he
      exact ⟨rfl, hx, Tt, hTt, Layer.refl Tt, nodupKeys_nil, by intro t' ht'; simp at ht'⟩
  | tx =>
    refine ⟨?_, by simp [ReadOK]⟩
    simp only [step, nextTip]
    cases hc : w.cur with
    | none => exact h
    | some e =>
      simp only
      cases ht : e.txn with
      | some t => exact h
      | none =>
        simp only
        obtain ⟨h0, h1, Tp, hTp, hl, hn, _⟩ := h.exec e hc
        refine ⟨h.sc, ?_, h.tipT⟩
        intro e' he'
        simp only [Option.some.injEq] at he'
        subst he'
        refine ⟨h0, h1, Tp, hTp, hl, hn, ?_⟩
        intro t' ht'
        simp only [Option.some.injEq] at ht'
        subst ht'
        exact ⟨Layer.refl _, nodupKeys_nil⟩
  | get k =>
    simp only [nextTip]
    cases hc : w.cur with
    | none => simp [step, hc, ReadOK, refRead]; exact h
    | some e =>
      cases ht : e.txn with
      | none => simp [step, hc, ht, ReadOK, refRead]; exact h
      | some t =>
        obtain ⟨h0, h1, Tp, hTp, hl, hn, hx⟩ := h.exec e hc
        obtain ⟨hlt, hnt⟩ := hx t ht
        obtain ⟨hsc0, hbase0⟩ := scGet_lin hf h.sc (key := k) hTp
        have hsc' : ScLin (scGet cfg w.sc k e.prev).1 w.tries tip := by rw [h0]; exact hsc0
        have hbase : ∀ v, (scGet cfg w.sc k e.prev).2 = .hit v → KV.get Tp k = some v := by rw [h0]; exact hbase0
        obtain ⟨hhit, hsc⟩ := read_layers hf hlt hl w.sc e.prev k hbase
        obtain ⟨g1, g2, g3, g4⟩ := getTrieNode_ok hf hlt (tcGet cfg w.sc t.tc e.bc e.prev k) k hhit
        rw [step_get_eq cfg w e t k hc ht]
        refine ⟨⟨?_, ?_, h.tipT⟩, ?_⟩
        · simp only [g1]
          rcases hsc with hs | hs <;> rw [hs]
          · exact h.sc
          · exact hsc'
        · intro e' he'
          simp only [Option.some.injEq] at he'
          subst he'
          refine ⟨h0, h1, Tp, hTp, hl, hn, ?_⟩
          intro t' ht'
          simp only [Option.some.injEq] at ht'
          subst ht'
          exact ⟨g2, g4 hnt⟩
        · simp only [ReadOK, refRead, hc, ht, g3]
  | probe k =>
    simp only [nextTip]
    cases hc : w.cur with
    | none => simp [step, hc, ReadOK, refRead]; exact h
    | some e =>
      cases ht : e.txn with
      | none => simp [step, hc, ht, ReadOK, refRead]; exact h
      | some t =>
        obtain ⟨h0, h1, Tp, hTp, hl, hn, hx⟩ := h.exec e hc
        obtain ⟨hlt, hnt⟩ := hx t ht
        obtain ⟨hsc0, hbase0⟩ := scGet_lin hf h.sc (key := k) hTp
        have hsc' : ScLin (scGet cfg w.sc k e.prev).1 w.tries tip := by rw [h0]; exact hsc0
        have hbase : ∀ v, (scGet cfg w.sc k e.prev).2 = .hit v → KV.get Tp k = some v := by rw [h0]; exact hbase0
        obtain ⟨hhit, hsc⟩ := read_layers hf hlt hl w.sc e.prev k hbase
        simp only [step, hc, ht, ReadOK, refRead]
        cases hg : tcGet cfg w.sc t.tc e.bc e.prev k with
        | mk sc' hit =>
          rw [hg] at hhit hsc
          have hinv' : ScLin sc' w.tries tip := by
            rcases hsc with hs | hs
            · simp only at hs; rw [hs]; exact h.sc
            · simp only at hs; rw [hs]; exact hsc'
          cases hit with
          | hit v =>
            simp only
            refine ⟨⟨hinv', fun e' he' => ?_, h.tipT⟩, ?_⟩
            · simp only [Option.some.injEq] at he'; subst he'
              exact h.exec e hc
            · intro v' hv'; simp only [Ans.val.injEq] at hv'; subst hv'; exact hhit v rfl
          | miss =>
            simp only
            refine ⟨⟨hinv', fun e' he' => ?_, h.tipT⟩, by simp⟩
            simp only [Option.some.injEq] at he'; subst he'
            exact h.exec e hc
  | insfail k =>
    refine ⟨?_, by simp [ReadOK]⟩
    simp only [step, nextTip]
    cases hc : w.cur with
    | none => exact h
    | some e =>
      simp only
      cases ht : e.txn <;> exact h
  | getn k =>
    simp only [nextTip]
    cases hc : w.cur with
    | none => simp [step, hc, ReadOK, refRead]; exact h
    | some e =>
      cases ht : e.txn with
      | none => simp [step, hc, ht, ReadOK, refRead]; exact h
      | some t =>
        obtain ⟨h0, h1, Tp, hTp, hl, hn, hx⟩ := h.exec e hc
        obtain ⟨hlt, hnt⟩ := hx t ht
        obtain ⟨hsc0, hbase0⟩ := scGet_lin hf h.sc (key := k) hTp
        have hsc' : ScLin (scGet cfg w.sc k e.prev).1 w.tries tip := by rw [h0]; exact hsc0
        have hbase : ∀ v, (scGet cfg w.sc k e.prev).2 = .hit v → KV.get Tp k = some v := by rw [h0]; exact hbase0
        obtain ⟨_, hsc⟩ := read_layers hf hlt hl w.sc e.prev k hbase
        have hinv' : ScLin (tcGet cfg w.sc t.tc e.bc e.prev k).1 w.tries tip := by
          rcases hsc with hs | hs <;> rw [hs]
          · exact h.sc
          · exact hsc'
        rw [step_getn_eq cfg w e t k hc ht]
        refine ⟨⟨hinv', fun e' he' => ?_, h.tipT⟩, ?_⟩
        · simp only at he'; rw [hc] at he'; simp only [Option.some.injEq] at he'; subst he'
          exact h.exec e hc
        · simp only [ReadOK, refRead, hc, ht]
  | getr k =>
    simp only [nextTip]
    cases hc : w.cur with
    | none => simp [step, hc, ReadOK, refRead]; exact h
    | some e =>
      cases ht : e.txn with
      | none => simp [step, hc, ht, ReadOK, refRead]; exact h
      | some t =>
        obtain ⟨h0, h1, Tp, hTp, hl, hn, hx⟩ := h.exec e hc
        obtain ⟨hlt, hnt⟩ := hx t ht
        obtain ⟨hsc0, hbase0⟩ := scGet_lin hf h.sc (key := k) hTp
        have hsc' : ScLin (scGet cfg w.sc k e.prev).1 w.tries tip := by rw [h0]; exact hsc0
        have hbase : ∀ v, (scGet cfg w.sc k e.prev).2 = .hit v → KV.get Tp k = some v := by rw [h0]; exact hbase0
        obtain ⟨_, hsc⟩ := read_layers hf hlt hl w.sc e.prev k hbase
        have hinv' : ScLin (tcGet cfg w.sc t.tc e.bc e.prev k).1 w.tries tip := by
          rcases hsc with hs | hs <;> rw [hs]
          · exact h.sc
          · exact hsc'
        obtain ⟨g1, g2, g3, g4⟩ := getTrieNode_ok hf hlt ((tcGet cfg w.sc t.tc e.bc e.prev k).1, Hit.miss) k
          (by intro v hv; cases hv)
        rw [step_getr_eq cfg w e t k hc ht]
        refine ⟨⟨by simp only [g1]; exact hinv', fun e' he' => ?_, h.tipT⟩, ?_⟩
        · simp only [Option.some.injEq] at he'
          subst he'
          refine ⟨h0, h1, Tp, hTp, hl, hn, ?_⟩
          intro t' ht'
          simp only [Option.some.injEq] at ht'
          subst ht'
          exact ⟨g2, g4 hnt⟩
        · simp only [ReadOK, refRead, hc, ht, g3]
  | ins k v =>
    refine ⟨?_, by simp [ReadOK]⟩
    simp only [step, nextTip]
    cases hc : w.cur with
    | none => exact h
    | some e =>
      simp only
      cases ht : e.txn with
      | none => exact h
      | some t =>
        simp only
        obtain ⟨h0, h1, Tp, hTp, hl, hn, hx⟩ := h.exec e hc
        obtain ⟨hlt, hnt⟩ := hx t ht
        refine ⟨h.sc, ?_, h.tipT⟩
        intro e' he'
        simp only [Option.some.injEq] at he'
        subst he'
        refine ⟨h0, h1, Tp, hTp, hl, hn, ?_⟩
        intro t' ht'
        simp only [Option.some.injEq] at ht'
        subst ht'
        simp only [hf.clone]
        exact ⟨hlt.ins k v, nodupKeys_set _ _ _ hnt⟩
  | del k =>
    refine ⟨?_, by simp [ReadOK]⟩
    simp only [step, nextTip]
    cases hc : w.cur with
    | none => exact h
    | some e =>
      simp only
      cases ht : e.txn with
      | none => exact h
      | some t =>
        simp only
        cases hg : KV.get t.trie k with
        | none => exact h
        | some _ =>
          simp only
          obtain ⟨h0, h1, Tp, hTp, hl, hn, hx⟩ := h.exec e hc
          obtain ⟨hlt, hnt⟩ := hx t ht
          refine ⟨h.sc, ?_, h.tipT⟩
          intro e' he'
          simp only [Option.some.injEq] at he'
          subst he'
          refine ⟨h0, h1, Tp, hTp, hl, hn, ?_⟩
          intro t' ht'
          simp only [Option.some.injEq] at ht'
          subst ht'
          exact ⟨hlt.del k, nodupKeys_set _ _ _ hnt⟩
  | commit =>
    refine ⟨?_, by simp [ReadOK]⟩
    simp only [step, nextTip]
    cases hc : w.cur with
    | none => exact h
    | some e =>
      simp only
      cases ht : e.txn with
      | none => exact h
      | some t =>
        simp only
        obtain ⟨h0, h1, Tp, hTp, hl, hn, hx⟩ := h.exec e hc
        obtain ⟨hlt, hnt⟩ := hx t ht
        refine ⟨h.sc, ?_, h.tipT⟩
        intro e' he'
        simp only [Option.some.injEq] at he'
        subst he'
        exact ⟨h0, h1, Tp, hTp, Layer.commit hf hlt hl hnt, nodupKeys_tcCommit cfg _ _ hn,
          by intro t' ht'; simp at ht'⟩
  | discard =>
    refine ⟨?_, by simp [ReadOK]⟩
    simp only [step, nextTip]
    cases hc : w.cur with
    | none => exact h
    | some e =>
      simp only
      cases ht : e.txn with
      | none => exact h
      | some t =>
        simp only
        obtain ⟨h0, h1, Tp, hTp, hl, hn, hx⟩ := h.exec e hc
        refine ⟨h.sc, ?_, h.tipT⟩
        intro e' he'
        simp only [Option.some.injEq] at he'
        subst he'
        exact ⟨h0, h1, Tp, hTp, hl, hn, by intro t' ht'; simp at ht'⟩
  | bcommit =>
    refine ⟨?_, by simp [ReadOK]⟩
    simp only [step, nextTip]
    cases hc : w.cur with
    | none => exact h
    | some e =>
      simp only
      cases ht : e.txn with
      | some t => exact h
      | none =>
        simp only
        obtain ⟨h0, h1, Tp, hTp, hl, hn, _⟩ := h.exec e hc
        rw [h1]
        simp only
        rw [h0]
        exact ⟨scCommit_lin hf h.sc h1 hTp hl hn, by intro e' he'; simp at he', ⟨e.trie, by simp [KV.get_set]⟩⟩
  | babort =>
    refine ⟨?_, by simp [ReadOK]⟩
    simp only [step, nextTip]
    cases hc : w.cur with
    | none => exact h
    | some e => exact ⟨h.sc, by intro e' he'; simp at he', h.tipT⟩
  | query x k =>
    simp only [nextTip]
    have hx : x = tip := hop
    subst hx
    obtain ⟨T, hT⟩ := h.tipT
    obtain ⟨hsc', hbase⟩ := scGet_lin hf h.sc (key := k) hT
    obtain ⟨g1, _, g3, _⟩ := getTrieNode_ok hf (Layer.refl T) (scGet cfg w.sc k x) k hbase
    have heq : step cfg w (.query x k) =
        ({ w with sc := (getTrieNode cfg (scGet cfg w.sc k x) [] T k).1 },
         (getTrieNode cfg (scGet cfg w.sc k x) [] T k).2.2) := by simp only [step, hT]
    rw [heq]
    refine ⟨⟨by simp only [g1]; exact hsc', fun e he => h.exec e he, h.tipT⟩, ?_⟩
    simp only [ReadOK, refRead, hT, Option.map_some, g3]

/-! ### a failed transaction leaves no trace -/

/-- `sc'` has the same block links as `sc` and every node it holds for a key was already held for that key -/
def SubNodes (sc' sc : SCache) : Prop :=
  sc'.hashes = sc.hashes ∧ ∀ key m' b e, KV.get sc'.cache key = some m' → KV.get m' b = some e →
    ∃ m b0, KV.get sc.cache key = some m ∧ KV.get m b0 = some e

theorem SubNodes.refl (sc : SCache) : SubNodes sc sc := ⟨rfl, fun _ m' b e h1 h2 => ⟨m', b, h1, h2⟩⟩

theorem SubNodes.trans {a b c : SCache} (h1 : SubNodes a b) (h2 : SubNodes b c) : SubNodes a c := by
  refine ⟨h1.1.trans h2.1, ?_⟩
  intro key m' x e hm he
  obtain ⟨m, b0, hm2, he2⟩ := h1.2 key m' x e hm he
  exact h2.2 key m b0 e hm2 he2

theorem scWalk_sub (cfg : Cfg) (sc : SCache) (bvs : KV VNode) (key old : Nat) (hb : KV.get sc.cache key = some bvs) :
    ∀ fuel count b, SubNodes (scWalk cfg sc bvs key old fuel count b).1 sc := by
  intro fuel
  induction fuel with
  | zero => intro _ _; exact SubNodes.refl sc
  | succ fuel ih =>
    intro count b
    unfold scWalk
    cases KV.get sc.hashes b with
    | none => exact SubNodes.refl sc
    | some p =>
      simp only
      cases hp : KV.get bvs p with
      | none => simp only; split; exact SubNodes.refl sc; exact ih _ _
      | some v =>
        have hsub : SubNodes { sc with cache := KV.set sc.cache key (if cfg.keep = true then KV.set bvs old v else KV.set ([] : KV VNode) old v) } sc := by
          refine ⟨rfl, ?_⟩
          intro key' m' b' e hm he
          simp only [KV.get_set] at hm
          by_cases hk : key = key'
          · subst hk
            simp only [if_true, Option.some.injEq] at hm
            subst hm
            split at he
            · rw [KV.get_set] at he
              by_cases hob : old = b'
              · simp only [hob, if_true, Option.some.injEq] at he; subst he; exact ⟨bvs, p, hb, hp⟩
              · simp only [hob, if_false] at he; exact ⟨bvs, b', hb, he⟩
            · rw [KV.get_set] at he
              by_cases hob : old = b'
              · simp only [hob, if_true, Option.some.injEq] at he; subst he; exact ⟨bvs, p, hb, hp⟩
              · simp [hob] at he
          · simp only [hk, if_false] at hm
            exact ⟨m', b', hm, he⟩
        cases v <;> exact hsub

theorem scGet_sub (cfg : Cfg) (sc : SCache) (key bh : Nat) : SubNodes (scGet cfg sc key bh).1 sc := by
  unfold scGet
  cases hb : KV.get sc.cache key with
  | none => exact SubNodes.refl sc
  | some bvs =>
    simp only
    cases KV.get bvs bh with
    | none => exact scWalk_sub cfg sc bvs key bh hb _ _ _
    | some e => cases e <;> exact SubNodes.refl sc

theorem tcGet_sub (cfg : Cfg) (sc : SCache) (tc bc : KV VNode) (prev k : Nat) :
    SubNodes (tcGet cfg sc tc bc prev k).1 sc := by
  unfold tcGet
  cases KV.get tc k with
  | some e => cases e <;> exact SubNodes.refl sc
  | none =>
    simp only
    unfold bcGet
    cases KV.get bc k with
    | some e => cases e <;> exact SubNodes.refl sc
    | none => exact scGet_sub cfg sc k prev

/-- the operations of a transaction -/
def TxnOp : Op → Prop
  | .get _ | .probe _ | .ins _ _ | .del _ | .insfail _ | .getn _ | .getr _ => True
  | _ => False

theorem txnOp_step (cfg : Cfg) (w : World) (e : Exec) (t : Txn) (hc : w.cur = some e) (ht : e.txn = some t)
    (op : Op) (hop : TxnOp op) :
    ∃ t', (step cfg w op).1.cur = some { e with txn := some t' } ∧ (step cfg w op).1.tries = w.tries ∧
      SubNodes (step cfg w op).1.sc w.sc := by
  have he : e = { e with txn := some t } := by cases e; simp_all
  cases op with
  | get k =>
    rw [step_get_eq cfg w e t k hc ht]
    refine ⟨_, rfl, rfl, ?_⟩
    simp only
    have : (getTrieNode cfg (tcGet cfg w.sc t.tc e.bc e.prev k) t.tc t.trie k).1 = (tcGet cfg w.sc t.tc e.bc e.prev k).1 := by
      unfold getTrieNode
      cases tcGet cfg w.sc t.tc e.bc e.prev k with
      | mk sc' hit =>
        cases hit with
        | hit v => rfl
        | miss => simp only; cases KV.get t.trie k <;> rfl
    rw [this]
    exact tcGet_sub _ _ _ _ _ _
  | probe k =>
    simp only [step, hc, ht]
    cases hg : tcGet cfg w.sc t.tc e.bc e.prev k with
    | mk sc' hit =>
      have := tcGet_sub cfg w.sc t.tc e.bc e.prev k
      rw [hg] at this
      cases hit <;> exact ⟨t, by simp only; first | exact congrArg some he | exact hc.trans (congrArg some he), rfl, this⟩
  | ins k v =>
    simp only [step, hc, ht]
    exact ⟨_, rfl, by first | rfl | trivial, SubNodes.refl _⟩
  | del k =>
    simp only [step, hc, ht]
    cases KV.get t.trie k with
    | none => exact ⟨t, by simp only; first | exact congrArg some he | exact hc.trans (congrArg some he), by first | rfl | trivial, SubNodes.refl _⟩
    | some _ => exact ⟨_, rfl, by first | rfl | trivial, SubNodes.refl _⟩
  | insfail k =>
    simp only [step, hc, ht]
    exact ⟨t, congrArg some he, trivial, SubNodes.refl _⟩
  | getn k =>
    rw [step_getn_eq cfg w e t k hc ht]
    exact ⟨t, by simp only; exact hc.trans (congrArg some he), rfl, tcGet_sub _ _ _ _ _ _⟩
  | getr k =>
    rw [step_getr_eq cfg w e t k hc ht]
    refine ⟨_, rfl, rfl, ?_⟩
    simp only
    have : (getTrieNode cfg ((tcGet cfg w.sc t.tc e.bc e.prev k).1, Hit.miss) t.tc t.trie k).1 = (tcGet cfg w.sc t.tc e.bc e.prev k).1 := by
      unfold getTrieNode
      simp only
      cases KV.get t.trie k <;> rfl
    rw [this]
    exact tcGet_sub _ _ _ _ _ _
  | _ => exact absurd hop (by simp [TxnOp])

theorem txnOps_run (cfg : Cfg) (e : Exec) (ops : List Op) (hops : ∀ op ∈ ops, TxnOp op) :
    ∀ (w : World) (t : Txn), w.cur = some { e with txn := some t } →
      ∃ t', (run cfg w ops).cur = some { e with txn := some t' } ∧ (run cfg w ops).tries = w.tries ∧
        SubNodes (run cfg w ops).sc w.sc := by
  induction ops with
  | nil => intro w t hc; exact ⟨t, hc, rfl, SubNodes.refl _⟩
  | cons op ops ih =>
    intro w t hc
    obtain ⟨t1, h1, h2, h3⟩ := txnOp_step cfg w { e with txn := some t } t hc rfl op (hops op (by simp))
    obtain ⟨t2, i1, i2, i3⟩ := ih (fun o ho => hops o (by simp [ho])) (step cfg w op).1 t1 h1
    exact ⟨t2, i1, by show (run cfg (step cfg w op).1 ops).tries = _; rw [i2, h2], i3.trans h3⟩

/-- **failed_txn_leaves_no_trace**: begin a transaction, do anything inside it, drop it: the block execution (its
block cache and its trie) and the computed blocks are exactly as before, and the state cache holds no node it
did not hold before (reads may only have re-filed existing nodes). -/
theorem failed_txn_no_trace (cfg : Cfg) (w : World) (e : Exec) (hc : w.cur = some e) (ht : e.txn = none)
    (ops : List Op) (hops : ∀ op ∈ ops, TxnOp op) :
    (step cfg (run cfg (step cfg w .tx).1 ops) .discard).1.cur = some e ∧
    (step cfg (run cfg (step cfg w .tx).1 ops) .discard).1.tries = w.tries ∧
    SubNodes (step cfg (run cfg (step cfg w .tx).1 ops) .discard).1.sc w.sc := by
  have htx : (step cfg w .tx).1 = { w with cur := some { e with txn := some { trie := e.trie } } } := by
    simp only [step, hc, ht]
  obtain ⟨t', h1, h2, h3⟩ := txnOps_run cfg e ops hops (step cfg w .tx).1 { trie := e.trie } (by rw [htx])
  generalize run cfg (step cfg w .tx).1 ops = w1 at h1 h2 h3
  have hd : (step cfg w1 .discard).1 = { w1 with cur := some { e with txn := none } } := by
    simp only [step, h1]
  rw [hd]
  refine ⟨?_, ?_, ?_⟩
  · simp only
    cases e
    simp_all
  · simp only; rw [h2, htx]
  · simp only
    have : (step cfg w .tx).1.sc = w.sc := by rw [htx]
    rw [← this]; exact h3

end ZChain.StateCache
