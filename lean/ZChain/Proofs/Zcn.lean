import ZChain.Model.Zcn
import ZChain.Props.C02
/-!
Helper lemmas for the bridge-contract model (`Model/Zcn.lean`): association lists, the engine wrapper
`settleCall` (what each of the three statuses means), flows of the burn / mint settlement queues.
-/
namespace ZChain.Zcn
open ZChain ZChain.Ledger

/-! ### association lists -/

theorem aGet_aSet_eq {α : Type} (l : List (Nat × α)) (a : Nat) (v : α) : aGet (aSet l a v) a = some v := by
  induction l with
  | nil => simp [aSet, aGet]
  | cons p rest ih =>
    obtain ⟨k, w⟩ := p
    by_cases hk : k = a
    · simp [aSet, aGet, hk]
    · simp [aSet, aGet, hk, ih]

theorem aGet_aSet_ne {α : Type} (l : List (Nat × α)) (a b : Nat) (v : α) (h : a ≠ b) :
    aGet (aSet l a v) b = aGet l b := by
  induction l with
  | nil => simp [aSet, aGet, h]
  | cons p rest ih =>
    obtain ⟨k, w⟩ := p
    by_cases hk : k = a
    · subst hk; simp [aSet, aGet, h]
    · by_cases hb : k = b
      · subst hb; simp [aSet, aGet, hk]
      · simp [aSet, aGet, hk, hb, ih]

theorem aGet_aDel_eq {α : Type} (l : List (Nat × α)) (a : Nat) : aGet (aDel l a) a = none := by
  induction l with
  | nil => rfl
  | cons p rest ih =>
    obtain ⟨k, w⟩ := p
    by_cases hk : k = a
    · simp [aDel, hk, ih]
    · simp [aDel, aGet, hk, ih]

theorem aGet_aDel_ne {α : Type} (l : List (Nat × α)) (a b : Nat) (h : a ≠ b) : aGet (aDel l a) b = aGet l b := by
  induction l with
  | nil => rfl
  | cons p rest ih =>
    obtain ⟨k, w⟩ := p
    by_cases hk : k = a
    · subst hk; simp [aDel, aGet, h, ih]
    · by_cases hb : k = b
      · subst hb; simp [aDel, aGet, hk]
      · simp [aDel, aGet, hk, hb, ih]

theorem unGet_aSet_eq (u : Users) (a : Nat) (v : Int) : unGet (aSet u a v) a = v := by
  simp [unGet, aGet_aSet_eq]

theorem unGet_aSet_ne (u : Users) (a b : Nat) (v : Int) (h : a ≠ b) : unGet (aSet u a v) b = unGet u b := by
  simp [unGet, aGet_aSet_ne _ _ _ _ h]

/-! ### the engine wrapper -/

theorem step_sc_ok (feeOn : Bool) (a : Accts) (c : Call) (q : List Transfer) :
    Ledger.step feeOn ⟨a, []⟩ c.txn (.ok [] q []) =
      if c.value > maxTokenSupply then (⟨a, []⟩, .rejected)
      else if (get a c.sender).nonce + 1 ≠ c.nonce then (⟨a, []⟩, .rejected)
      else match settle feeOn a c.txn q [] with
        | none => (⟨a, []⟩, .rejected)
        | some a' => (⟨a', []⟩, .success) := by
  unfold Ledger.step
  simp only [Call.txn, applyWrites]
  rfl

theorem step_sc_chg (feeOn : Bool) (a : Accts) (c : Call) :
    Ledger.step feeOn ⟨a, []⟩ c.txn (.chargeable [] [] []) =
      if c.value > maxTokenSupply then (⟨a, []⟩, .rejected)
      else if (get a c.sender).nonce + 1 ≠ c.nonce then (⟨a, []⟩, .rejected)
      else match settle feeOn a c.txn [] [] with
        | none => (⟨a, []⟩, .rejected)
        | some a' => (⟨a', []⟩, .failed) := by
  unfold Ledger.step
  simp only [Call.txn]
  rfl

/-- the engine's own acceptance conditions for a call. -/
def Admissible (s : ZSt) (c : Call) : Prop :=
  c.value ≤ maxTokenSupply ∧ (get s.accts c.sender).nonce + 1 = c.nonce

theorem settleCall_some (feeOn : Bool) (s : ZSt) (c : Call) (s' : ZSt) (q : List Transfer) :
    settleCall feeOn s c (some (s', q)) =
      if c.value > maxTokenSupply then (s, .rejected)
      else if (get s.accts c.sender).nonce + 1 ≠ c.nonce then (s, .rejected)
      else match settle feeOn s.accts c.txn q [] with
        | none => (s, .rejected)
        | some a' => ({ s' with accts := a' }, .success) := by
  simp only [settleCall]
  rw [step_sc_ok]
  by_cases h1 : c.value > maxTokenSupply
  · simp [h1]
  · by_cases h2 : (get s.accts c.sender).nonce + 1 ≠ c.nonce
    · simp [h1, h2]
    · cases hs : settle feeOn s.accts c.txn q [] with
      | none => simp [h1, h2]
      | some a' => simp [h1, h2]

theorem settleCall_none (feeOn : Bool) (s : ZSt) (c : Call) :
    settleCall feeOn s c none =
      if c.value > maxTokenSupply then (s, .rejected)
      else if (get s.accts c.sender).nonce + 1 ≠ c.nonce then (s, .rejected)
      else match settle feeOn s.accts c.txn [] [] with
        | none => (s, .rejected)
        | some a' => ({ s with accts := a' }, .failed) := by
  simp only [settleCall]
  rw [step_sc_chg]
  by_cases h1 : c.value > maxTokenSupply
  · simp [h1]
  · by_cases h2 : (get s.accts c.sender).nonce + 1 ≠ c.nonce
    · simp [h1, h2]
    · cases hs : settle feeOn s.accts c.txn [] [] with
      | none => simp [h1, h2]
      | some a' => simp [h1, h2]

/-- **success** means: the contract succeeded, the engine admitted the transaction and could settle the
queued transfers plus the fee; the new state is the contract's with the settled accounts. -/
theorem settleCall_success (feeOn : Bool) (s : ZSt) (c : Call) (r : Option (ZSt × List Transfer))
    (h : (settleCall feeOn s c r).2 = .success) :
    ∃ s' q a', r = some (s', q) ∧ Admissible s c ∧ settle feeOn s.accts c.txn q [] = some a' ∧
      (settleCall feeOn s c r).1 = { s' with accts := a' } := by
  cases r with
  | none =>
    exfalso
    rw [settleCall_none] at h
    by_cases h1 : c.value > maxTokenSupply
    · simp [h1] at h
    · by_cases h2 : (get s.accts c.sender).nonce + 1 ≠ c.nonce
      · simp [h1, h2] at h
      · cases hs : settle feeOn s.accts c.txn [] [] <;> simp [h1, h2, hs] at h
  | some p =>
    obtain ⟨s', q⟩ := p
    rw [settleCall_some] at h
    by_cases h1 : c.value > maxTokenSupply
    · simp [h1] at h
    · by_cases h2 : (get s.accts c.sender).nonce + 1 ≠ c.nonce
      · simp [h1, h2] at h
      · cases hs : settle feeOn s.accts c.txn q [] with
        | none => simp [h1, h2, hs] at h
        | some a' =>
          refine ⟨s', q, a', rfl, ⟨by omega, by simpa using h2⟩, (by first | exact hs | rfl), ?_⟩
          rw [settleCall_some]; simp [h1, h2, hs]

/-- **failed** means: the contract returned an error and only fee and nonce were settled. -/
theorem settleCall_failed (feeOn : Bool) (s : ZSt) (c : Call) (r : Option (ZSt × List Transfer))
    (h : (settleCall feeOn s c r).2 = .failed) :
    ∃ a', r = none ∧ Admissible s c ∧ settle feeOn s.accts c.txn [] [] = some a' ∧
      (settleCall feeOn s c r).1 = { s with accts := a' } := by
  cases r with
  | some p =>
    exfalso
    obtain ⟨s', q⟩ := p
    rw [settleCall_some] at h
    by_cases h1 : c.value > maxTokenSupply
    · simp [h1] at h
    · by_cases h2 : (get s.accts c.sender).nonce + 1 ≠ c.nonce
      · simp [h1, h2] at h
      · cases hs : settle feeOn s.accts c.txn q [] <;> simp [h1, h2, hs] at h
  | none =>
    rw [settleCall_none] at h
    by_cases h1 : c.value > maxTokenSupply
    · simp [h1] at h
    · by_cases h2 : (get s.accts c.sender).nonce + 1 ≠ c.nonce
      · simp [h1, h2] at h
      · cases hs : settle feeOn s.accts c.txn [] [] with
        | none => simp [h1, h2, hs] at h
        | some a' =>
          refine ⟨a', rfl, ⟨by omega, by simpa using h2⟩, (by first | exact hs | rfl), ?_⟩
          rw [settleCall_none]; simp [h1, h2, hs]

/-- **rejected** means: nothing at all changed. -/
theorem settleCall_rejected (feeOn : Bool) (s : ZSt) (c : Call) (r : Option (ZSt × List Transfer))
    (h : (settleCall feeOn s c r).2 = .rejected) : (settleCall feeOn s c r).1 = s := by
  cases r with
  | none =>
    rw [settleCall_none] at h ⊢
    by_cases h1 : c.value > maxTokenSupply
    · simp [h1]
    · by_cases h2 : (get s.accts c.sender).nonce + 1 ≠ c.nonce
      · simp [h1, h2]
      · cases hs : settle feeOn s.accts c.txn [] [] with
        | none => simp [h1, h2]
        | some a' => simp [h1, h2, hs] at h
  | some p =>
    obtain ⟨s', q⟩ := p
    rw [settleCall_some] at h ⊢
    by_cases h1 : c.value > maxTokenSupply
    · simp [h1]
    · by_cases h2 : (get s.accts c.sender).nonce + 1 ≠ c.nonce
      · simp [h1, h2]
      · cases hs : settle feeOn s.accts c.txn q [] with
        | none => simp [h1, h2]
        | some a' => simp [h1, h2, hs] at h

/-- anything but success leaves the whole contract state as it was (only accounts may have moved: fee). -/
theorem settleCall_not_success (feeOn : Bool) (s : ZSt) (c : Call) (r : Option (ZSt × List Transfer))
    (h : (settleCall feeOn s c r).2 ≠ .success) : ∃ a', (settleCall feeOn s c r).1 = { s with accts := a' } := by
  cases hst : (settleCall feeOn s c r).2 with
  | success => exact absurd hst h
  | rejected => exact ⟨s.accts, settleCall_rejected feeOn s c r hst⟩
  | failed =>
    obtain ⟨a', _, _, _, h'⟩ := settleCall_failed feeOn s c r hst
    exact ⟨a', h'⟩

/-- a component of the contract state that the contract result leaves alone is left alone by the call. -/
theorem settleCall_field {β : Type} (f : ZSt → β) (hf : ∀ (x : ZSt) (a : Accts), f { x with accts := a } = f x)
    (feeOn : Bool) (s : ZSt) (c : Call) (r : Option (ZSt × List Transfer))
    (hr : ∀ s' q, r = some (s', q) → f s' = f s) : f (settleCall feeOn s c r).1 = f s := by
  cases hst : (settleCall feeOn s c r).2 with
  | rejected => rw [settleCall_rejected feeOn s c r hst]
  | failed =>
    obtain ⟨a', _, _, _, h⟩ := settleCall_failed feeOn s c r hst
    rw [h, hf]
  | success =>
    obtain ⟨s', q, a', hr', _, _, h⟩ := settleCall_success feeOn s c r hst
    rw [h, hf]; exact hr s' q hr'

/-- a call whose contract part failed never reports success, and a call whose contract part succeeded
never reports `failed`. -/
theorem settleCall_none_ne_success (feeOn : Bool) (s : ZSt) (c : Call) :
    (settleCall feeOn s c none).2 ≠ .success := by
  intro h
  obtain ⟨_, _, _, hr, _⟩ := settleCall_success feeOn s c none h
  cases hr

theorem settleCall_some_ne_failed (feeOn : Bool) (s : ZSt) (c : Call) (p : ZSt × List Transfer) :
    (settleCall feeOn s c (some p)).2 ≠ .failed := by
  intro h
  obtain ⟨_, hr, _⟩ := settleCall_failed feeOn s c (some p) h
  cases hr

/-! ### flows -/

theorem feeQueue_single (feeOn : Bool) (t : Txn) (x : Transfer) (i : Id) :
    outflow (feeQueue feeOn t [x] []) i = (if x.src = i then x.amount else 0) + (if i = t.sender then feeOf feeOn t else 0) ∧
    inflow (feeQueue feeOn t [x] []) i = (if x.dst = i then x.amount else 0) + (if i = minerSC then feeOf feeOn t else 0) := by
  have h := feeQueue_nil feeOn t i
  unfold feeQueue at h ⊢
  cases feeOn
  · simp only [Bool.false_eq_true, if_false, List.append_nil] at h ⊢
    constructor
    · rw [outflow_cons, h.1]
    · rw [inflow_cons, h.2]
  · simp only [if_true, List.append_nil, List.nil_append, List.cons_append] at h ⊢
    constructor
    · rw [outflow_cons, h.1]
    · rw [inflow_cons, h.2]

/-- a failing call: fee and nonce only (C02 `chargeable_only_fee_nonce`, restated on `settle`). -/
theorem settle_nil_get (feeOn : Bool) (a a' : Accts) (t : Txn) (h : settle feeOn a t [] [] = some a') (i : Id) :
    (get a' i).balance + (if i = t.sender then feeOf feeOn t else 0) =
      (get a i).balance + (if i = minerSC then feeOf feeOn t else 0) ∧
    (get a' i).nonce = (get a i).nonce + (if i = t.sender then 1 else 0) := by
  have := settle_get feeOn a a' t [] [] h i
  rw [(feeQueue_nil feeOn t i).1, (feeQueue_nil feeOn t i).2] at this
  exact this

theorem settle_single_get (feeOn : Bool) (a a' : Accts) (t : Txn) (x : Transfer) (h : settle feeOn a t [x] [] = some a') (i : Id) :
    (get a' i).balance + ((if x.src = i then x.amount else 0) + (if i = t.sender then feeOf feeOn t else 0)) =
      (get a i).balance + ((if x.dst = i then x.amount else 0) + (if i = minerSC then feeOf feeOn t else 0)) ∧
    (get a' i).nonce = (get a i).nonce + (if i = t.sender then 1 else 0) := by
  have := settle_get feeOn a a' t [x] [] h i
  rw [(feeQueue_single feeOn t x i).1, (feeQueue_single feeOn t x i).2] at this
  exact this

end ZChain.Zcn
