import ZChain.Model.ReadMarker
/-!
Helper lemmas for C15 (`Props/C15.lean`): association lists, the inversion of a successful `commit`,
what the other operations leave alone.
-/
namespace ZChain.ReadMarker
open ZChain ZChain.Generated.C15

/-! ## association lists -/

section AList
variable {κ α : Type} [DecidableEq κ]

theorem aGet_aSet_same (l : List (κ × α)) (k : κ) (v : α) : aGet (aSet l k v) k = some v := by
  induction l with
  | nil => simp [aSet, aGet]
  | cons x xs ih =>
    obtain ⟨k', w⟩ := x
    by_cases hk : k' = k
    · simp [aSet, aGet, hk]
    · simp [aSet, aGet, hk, ih]

theorem aGet_aSet_other (l : List (κ × α)) (k k' : κ) (v : α) (h : k' ≠ k) : aGet (aSet l k v) k' = aGet l k' := by
  induction l with
  | nil => simp [aSet, aGet]; intro h'; exact absurd h'.symm h
  | cons x xs ih =>
    obtain ⟨k0, w⟩ := x
    by_cases hk : k0 = k
    · subst hk
      have : ¬ k0 = k' := fun e => h e.symm
      simp [aSet, aGet, this]
    · by_cases hk' : k0 = k'
      · simp [aSet, aGet, hk, hk']
      · simp [aSet, aGet, hk, hk', ih]

end AList

/-! ## the signed message and the key, as extracted -/

theorem hashData_eq {F : Type} (m : Marker F) :
    hashData m = some [(m.alloc : Int), m.blobber, m.client, m.pk, m.owner, m.ctr, m.ts] := rfl

theorem keyOf_eq {F : Type} (m : Marker F) : keyOf m = some [(m.blobber : Int), m.client, m.alloc] := rfl

/-! ## inversion of a successful redemption -/

section
variable {F : Type} [Mul F] [Zero F] [DecidableEq F]

/-- everything a successful `commit` went through. -/
structure CommitOk (cr : Crypto F) (s : St F) (m : Marker F) (s' : St F) (v : Nat) : Prop where
  clientId : verifyClientID cr m = true
  verified : verify cr m (aGet s.last [(m.blobber : Int), m.client, m.alloc]) = .ok ()
  ex : ∃ al d sp sp' rr,
    aGet s.allocs m.alloc = some al ∧ al.start ≤ m.ts ∧ m.ts ≤ al.expiration ∧
    al.bas.find? (fun d => d.blobber = m.blobber) = some d ∧ aGet s.sps m.blobber = some sp ∧
    chargeOf d.price (m.ctr - s.lastCtr [(m.blobber : Int), m.client, m.alloc]) = some v ∧ v ≤ s.pool m.client ∧
    distribute sp v = .ok sp' ∧ Coin.addCoin d.readReward v = .ok rr ∧
    s' = { s with
            pools := aSet s.pools m.client (s.pool m.client - v)
            sps := aSet s.sps m.blobber sp'
            allocs := aSet s.allocs m.alloc
              { al with numReads := al.numReads + 1,
                        bas := setBA al.bas { d with readReward := rr, numReads := d.numReads + 1 } }
            last := aSet s.last [(m.blobber : Int), m.client, m.alloc] m }

theorem commit_inv {cr : Crypto F} {s s' : St F} {m : Marker F} {v : Nat}
    (h : commit cr s m = .ok (s', v)) : CommitOk cr s m s' v := by
  unfold commit at h
  split at h
  · cases h
  · rename_i hcid
    rw [keyOf_eq] at h
    simp only at h
    split at h
    · cases h
    · rename_i hver
      split at h
      · cases h
      · rename_i al hal
        split at h
        · cases h
        · rename_i hstart
          split at h
          · cases h
          · rename_i hexp
            split at h
            · cases h
            · rename_i d hd
              split at h
              · cases h
              · rename_i sp hsp
                split at h
                · cases h
                · rename_i value hval
                  split at h
                  · cases h
                  · rename_i hbal
                    split at h
                    · cases h
                    · rename_i sp' hdist
                      split at h
                      · cases h
                      · rename_i rr hrr
                        injection h with h
                        injection h with h1 h2
                        subst h2
                        refine ⟨by simpa using hcid, ?_, al, d, sp, sp', rr, hal, by omega, by omega, hd, hsp, hval, by omega, hdist, hrr, h1.symm⟩
                        cases hv : verify cr m (aGet s.last [(m.blobber : Int), m.client, m.alloc]) with
                        | error e => rw [hv] at hver; exact absurd rfl (hver e)
                        | ok u => rfl

end

end ZChain.ReadMarker
