import ZChain.Model.ReadMarker
/-!
Helper lemmas for C15 (`Props/C15.lean`): association lists, the inversion of a successful `commit`,
what the other operations leave alone.
-/
namespace ZChain.ReadMarker
open ZChain ZChain.Generated.C15

/-! ## association lists -/

section AList
variable {κ α : Type} [DecidableEq κ]

theorem aGet_aSet_same (l : List (κ × α)) (k : κ) (v : α) : aGet (aSet l k v) k = some v := by
  induction l with
  | nil => simp [aSet, aGet]
  | cons x xs ih =>
    obtain ⟨k', w⟩ := x
    by_cases hk : k' = k
    · simp [aSet, aGet, hk]
    · simp [aSet, aGet, hk, ih]

theorem aGet_aSet_other (l : List (κ × α)) (k k' : κ) (v : α) (h : k' ≠ k) : aGet (aSet l k v) k' = aGet l k' := by
  induction l with
  | nil => simp [aSet, aGet]; intro h'; exact absurd h'.symm h
  | cons x xs ih =>
    obtain ⟨k0, w⟩ := x
    by_cases hk : k0 = k
    · subst hk
      have : ¬ k0 = k' := fun e => h e.symm
      simp [aSet, aGet, this]
    · by_cases hk' : k0 = k'
      · subst hk'
        simp [aSet, aGet, hk]
      · simp [aSet, aGet, hk, hk', ih]

end AList

/-! ## the signed message and the key, as extracted -/

theorem hashData_eq {F : Type} (m : Marker F) :
    hashData m = some [(m.alloc : Int), m.blobber, m.client, m.pk, m.owner, m.ctr, m.ts] := rfl

theorem keyOf_eq {F : Type} (m : Marker F) : keyOf m = some [(m.blobber : Int), m.client, m.alloc] := rfl

/-! ## inversion of a successful redemption -/

section
variable {F : Type} [Mul F] [Zero F] [DecidableEq F]

/-- everything a successful `commit` went through. -/
structure CommitOk (cr : Crypto F) (s : St F) (m : Marker F) (s' : St F) (v : Nat) : Prop where
  clientId : verifyClientID cr m = true
  verified : verify cr m (aGet s.last [(m.blobber : Int), m.client, m.alloc]) = .ok ()
  ex : ∃ al d sp sp' rr,
    aGet s.allocs m.alloc = some al ∧ al.start ≤ m.ts ∧ m.ts ≤ al.expiration ∧
    al.bas.find? (fun d => d.blobber = m.blobber) = some d ∧ aGet s.sps m.blobber = some sp ∧
    chargeOf d.price (m.ctr - s.lastCtr [(m.blobber : Int), m.client, m.alloc]) = some v ∧ v ≤ s.pool m.client ∧
    distribute sp v = .ok sp' ∧ Coin.addCoin d.readReward v = .ok rr ∧
    s' = { s with
            pools := aSet s.pools m.client (s.pool m.client - v)
            sps := aSet s.sps m.blobber sp'
            allocs := aSet s.allocs m.alloc
              { al with numReads := al.numReads + 1,
                        bas := setBA al.bas { d with readReward := rr, numReads := d.numReads + 1 } }
            last := aSet s.last [(m.blobber : Int), m.client, m.alloc] m }

theorem bind_ok {ε α β : Type} (x : Except ε α) (f : α → Except ε β) (b : β) :
    (x >>= f) = .ok b ↔ ∃ a, x = .ok a ∧ f a = .ok b := by
  cases x with
  | error e => simp [bind, Except.bind]
  | ok a => simp [bind, Except.bind]

theorem need_ok (c : Bool) (e : Err) (u : Unit) : need c e = .ok u ↔ c = true := by
  cases c <;> simp [need]

theorem getOr_ok {α : Type} (o : Option α) (e : Err) (a : α) : getOr o e = .ok a ↔ o = some a := by
  cases o <;> simp [getOr]

theorem mapErr_ok {ε α : Type} (x : Except ε α) (e : Err) (a : α) : mapErr x e = .ok a ↔ x = .ok a := by
  cases x <;> simp [mapErr]

theorem commit_inv {cr : Crypto F} {s s' : St F} {m : Marker F} {v : Nat}
    (h : commit cr s m = .ok (s', v)) : CommitOk cr s m s' v := by
  unfold commit at h
  simp only [bind_ok, need_ok, getOr_ok, mapErr_ok, keyOf_eq, Option.some.injEq, pure, Except.pure,
    Except.ok.injEq, Prod.mk.injEq, decide_eq_true_eq, exists_and_left, exists_eq_left'] at h
  obtain ⟨hcid, _, u, hver, al, hal, hstart, hexp, _, _, d, hd, sp, hsp, value, hval, hbal, _, sp', hdist, rr, hrr, hs, hv⟩ := h
  subst hv
  exact ⟨hcid, hver, al, d, sp, sp', rr, hal, hstart, hexp, hd, hsp, hval, hbal, hdist, hrr, hs.symm⟩

end

end ZChain.ReadMarker
