import ZChain.Model.ReadMarker
/-!
Helper lemmas for C15 (`Props/C15.lean`): association lists, the inversion of a successful `commit`,
what the other operations leave alone.
-/
namespace ZChain.ReadMarker
open ZChain ZChain.Generated.C15

/-! ## association lists -/

section AList
variable {κ α : Type} [DecidableEq κ]

theorem aGet_aSet_same (l : List (κ × α)) (k : κ) (v : α) : aGet (aSet l k v) k = some v := by
  induction l with
  | nil => simp [aSet, aGet]
  | cons x xs ih =>
    obtain ⟨k', w⟩ := x
    by_cases hk : k' = k
    · simp [aSet, aGet, hk]
    · simp [aSet, aGet, hk, ih]

theorem aGet_aSet_other (l : List (κ × α)) (k k' : κ) (v : α) (h : k' ≠ k) : aGet (aSet l k v) k' = aGet l k' := by
  induction l with
  | nil => simp [aSet, aGet]; intro h'; exact absurd h'.symm h
  | cons x xs ih =>
    obtain ⟨k0, w⟩ := x
    by_cases hk : k0 = k
    · subst hk
      have : ¬ k0 = k' := fun e => h e.symm
      simp [aSet, aGet, this]
    · by_cases hk' : k0 = k'
      · subst hk'
        simp [aSet, aGet, hk]
      · simp [aSet, aGet, hk, hk', ih]

end AList

/-! ## the signed message and the key, as extracted -/

theorem hashData_eq {F : Type} (m : Marker F) :
    hashData m = some [(m.alloc : Int), m.blobber, m.client, m.pk, m.owner, m.ctr, m.ts] := rfl

theorem keyOf_eq {F : Type} (m : Marker F) : keyOf m = some [(m.blobber : Int), m.client, m.alloc] := rfl

/-- the storage key of a marker (the list `keyOf` computes from the extracted `keyFields`). -/
abbrev keyM {F : Type} (m : Marker F) : Key := [(m.blobber : Int), m.client, m.alloc]


/-- the accepted redemptions of one key, in order, form a chain of counter increments starting at `c0`, each
charged the price of its own increment. -/
def Chain (c0 : Int) : List Entry → Int → Prop
  | [], c => c = c0
  | e :: es, c => e.fromCtr = c0 ∧ e.fromCtr ≤ e.toCtr ∧ chargeOf e.price (e.toCtr - e.fromCtr) = some e.value ∧
      Chain e.toCtr es c

def total (es : List Entry) : Nat := (es.map (·.value)).sum


/-- a chain never goes down. -/
theorem Chain.le {c0 c : Int} {es : List Entry} (h : Chain c0 es c) : c0 ≤ c := by
  induction es generalizing c0 with
  | nil => simp [Chain] at h; omega
  | cons e es ih =>
    obtain ⟨h1, h2, _, h4⟩ := h
    have := ih h4
    omega


/-! ## inversion of a successful redemption -/

section
variable {F : Type} [Mul F] [Zero F] [DecidableEq F]

theorem bind_ok {ε α β : Type} (x : Except ε α) (f : α → Except ε β) (b : β) :
    (x >>= f) = .ok b ↔ ∃ a, x = .ok a ∧ f a = .ok b := by
  cases x with
  | error e => simp [bind, Except.bind]
  | ok a => simp [bind, Except.bind]

theorem need_ok (c : Bool) (e : Err) (u : Unit) : need c e = .ok u ↔ c = true := by
  cases c <;> simp [need]

theorem getOr_ok {α : Type} (o : Option α) (e : Err) (a : α) : getOr o e = .ok a ↔ o = some a := by
  cases o <;> simp [getOr]

theorem mapErr_ok {ε α : Type} (x : Except ε α) (e : Err) (a : α) : mapErr x e = .ok a ↔ x = .ok a := by
  cases x <;> simp [mapErr]

theorem bind_unit_ok {ε β : Type} (x : Except ε Unit) (f : Unit → Except ε β) (b : β) :
    (x >>= f) = .ok b ↔ x = .ok () ∧ f () = .ok b := by
  cases x with
  | error e => simp [bind, Except.bind]
  | ok a => simp [bind, Except.bind]

theorem verify_ok {cr : Crypto F} {m : Marker F} {prev : Option (Marker F)} (h : verify cr m prev = .ok ()) :
    0 < m.ctr ∧ m.blobber ≠ 0 ∧ m.client ≠ 0 ∧ m.ts ≠ 0 ∧
    (∀ p, prev = some p → m.client = p.client ∧ m.blobber = p.blobber ∧ p.ctr ≤ m.ctr) ∧ verifySig cr m = true := by
  unfold verify at h
  simp only [bind_unit_ok, need_ok, Bool.not_eq_true', decide_eq_false_iff_not, not_or] at h
  obtain ⟨⟨h1, h2, h3, h4⟩, hp, hs⟩ := h
  refine ⟨by omega, h2, h3, h4, ?_, hs⟩
  intro p hpe
  subst hpe
  simp only [prevBad, ne_eq, decide_eq_false_iff_not, not_or, Decidable.not_not, Int.not_lt] at hp
  exact hp

/-- everything a successful `commit` went through. -/
structure CommitOk (cr : Crypto F) (s : St F) (m : Marker F) (s' : St F) (v : Nat) : Prop where
  clientId : verifyClientID cr m = true
  verified : verify cr m (aGet s.last [(m.blobber : Int), m.client, m.alloc]) = .ok ()
  ex : ∃ al d sp sp' rr,
    aGet s.allocs m.alloc = some al ∧ al.start ≤ m.ts ∧ m.ts ≤ al.expiration ∧
    al.bas.find? (fun d => d.blobber = m.blobber) = some d ∧ aGet s.sps m.blobber = some sp ∧
    (0 ≤ m.ctr - s.lastCtr [(m.blobber : Int), m.client, m.alloc] ∧ m.ctr - s.lastCtr [(m.blobber : Int), m.client, m.alloc] ≤ maxDelta) ∧
    chargeOf d.price (m.ctr - s.lastCtr [(m.blobber : Int), m.client, m.alloc]) = some v ∧ v ≤ s.pool m.client ∧
    distribute sp v = .ok sp' ∧ Coin.addCoin d.readReward v = .ok rr ∧
    s' = { s with
            pools := aSet s.pools m.client (s.pool m.client - v)
            sps := aSet s.sps m.blobber sp'
            allocs := aSet s.allocs m.alloc
              { al with numReads := al.numReads + 1,
                        bas := setBA al.bas { d with readReward := rr, numReads := d.numReads + 1 } }
            last := aSet s.last [(m.blobber : Int), m.client, m.alloc] m }

theorem commit_inv {cr : Crypto F} {s s' : St F} {m : Marker F} {v : Nat}
    (h : commit cr s m = .ok (s', v)) : CommitOk cr s m s' v := by
  unfold commit at h
  simp only [bind_ok, need_ok, getOr_ok, mapErr_ok, keyOf_eq, Option.some.injEq, pure, Except.pure,
    Except.ok.injEq, Prod.mk.injEq, decide_eq_true_eq, exists_and_left, exists_eq_left'] at h
  obtain ⟨hcid, _, u, hver, al, hal, hstart, hexp, _, _, d, hd, sp, hsp, hrange, _, value, hval, hbal, _, sp', hdist, rr, hrr, hs, hv⟩ := h
  subst hv
  exact ⟨hcid, hver, al, d, sp, sp', rr, hal, hstart, hexp, hd, hsp, hrange, hval, hbal, hdist, hrr, hs.symm⟩

theorem commit_ctr_le {cr : Crypto F} {s s' : St F} {m : Marker F} {v : Nat}
    (h : commit cr s m = .ok (s', v)) : s.lastCtr (keyM m) ≤ m.ctr ∧ 0 < m.ctr := by
  obtain ⟨_, hver, _⟩ := commit_inv h
  obtain ⟨hpos, _, _, _, hprev, _⟩ := verify_ok hver
  refine ⟨?_, hpos⟩
  unfold St.lastCtr
  cases hl : aGet s.last (keyM m) with
  | none => simp; omega
  | some p => simp; exact (hprev p hl).2.2


omit [Mul F] [Zero F] [DecidableEq F] in
theorem lock_last {s s' : St F} {a t v : Nat} (h : lock s a t v = .ok s') : s'.last = s.last := by
  unfold lock at h
  split at h; · cases h
  split at h; · cases h
  split at h; · cases h
  split at h; · cases h
  split at h
  · cases h
  · injection h with h; subst h; rfl

omit [Mul F] [Zero F] [DecidableEq F] in
theorem unlock_last {s s' : St F} {a b : Nat} (h : unlock s a = .ok (s', b)) : s'.last = s.last := by
  unfold unlock at h
  split at h; · cases h
  split at h
  · cases h
  · injection h with h; injection h with h1 h2; subst h1; rfl


theorem step_commit_ok {cr : Crypto F} {s s' : St F} {m : Marker F} {v : Nat} (h : commit cr s m = .ok (s', v)) :
    step cr s (.commit m) =
      (s', some ⟨[(m.blobber : Int), m.client, m.alloc], m.client, priceFor s m, s.lastCtr [(m.blobber : Int), m.client, m.alloc], m.ctr, v⟩) := by
  simp [step, h, keyOf_eq]

theorem step_commit_err {cr : Crypto F} {s : St F} {m : Marker F} {e : Err} (h : commit cr s m = .error e) :
    step cr s (.commit m) = (s, none) := by
  simp [step, h]

theorem step_lock_ok {cr : Crypto F} {s s' : St F} {a t v : Nat} (h : lock s a t v = .ok s') :
    step cr s (.lock a t v) = (s', none) := by simp [step, h]

theorem step_lock_err {cr : Crypto F} {s : St F} {a t v : Nat} {e : LockErr} (h : lock s a t v = .error e) :
    step cr s (.lock a t v) = (s, none) := by simp [step, h]

theorem step_unlock_ok {cr : Crypto F} {s s' : St F} {a b : Nat} (h : unlock s a = .ok (s', b)) :
    step cr s (.unlock a) = (s', none) := by simp [step, h]

theorem step_unlock_err {cr : Crypto F} {s : St F} {a : Nat} {e : LockErr} (h : unlock s a = .error e) :
    step cr s (.unlock a) = (s, none) := by simp [step, h]

end

end ZChain.ReadMarker
