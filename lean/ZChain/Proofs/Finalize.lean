import ZChain.Model.Finalize
/-! Helper lemmas for C36 (core-only): the ancestor relation of a block store, what one turn of the parent
loop computes, and the two inductions over the climb. -/
namespace ZChain.Finalize

/-- `a` is the `k`-th ancestor of `b` (`k = 0`: `a = b`) following `PrevBlock` through the store -/
def Anc (c : Chain) : Nat → Blk → Blk → Prop
  | 0, b, a => a = b
  | k + 1, b, a => ∃ p, c.parent? b = some p ∧ Anc c k p a

/-- ancestors are unique -/
theorem Anc.det {c : Chain} : ∀ {k : Nat} {b a a' : Blk}, Anc c k b a → Anc c k b a' → a = a'
  | 0, _, _, _, h, h' => by simp only [Anc] at h h'; rw [h, h']
  | k + 1, _, _, _, ⟨p, hp, h⟩, ⟨p', hp', h'⟩ => by
    rw [hp] at hp'; cases hp'; exact Anc.det h h'

theorem Anc.trans {c : Chain} : ∀ {i j : Nat} {b m a : Blk}, Anc c i b m → Anc c j m a → Anc c (i + j) b a
  | 0, j, _, _, _, h, h' => by simp only [Anc] at h; subst h; simpa using h'
  | i + 1, j, _, _, _, ⟨p, hp, h⟩, h' => by
    have : i + 1 + j = (i + j) + 1 := by omega
    rw [this]; exact ⟨p, hp, Anc.trans h h'⟩

/-- splitting a longer path at an intermediate point -/
theorem Anc.split {c : Chain} : ∀ {i j : Nat} {b m a : Blk}, Anc c i b m → Anc c (i + j) b a → Anc c j m a
  | 0, j, _, _, _, h, h' => by simp only [Anc] at h; subst h; simpa using h'
  | i + 1, j, _, _, _, ⟨p, hp, h⟩, h' => by
    have : i + 1 + j = (i + j) + 1 := by omega
    rw [this] at h'
    obtain ⟨p', hp', h''⟩ := h'
    rw [hp] at hp'; cases hp'
    exact Anc.split h h''

/-- the store answers a lookup with a block of that hash -/
theorem block?_hash {c : Chain} {h : Nat} {b : Blk} (hb : c.block? h = some b) : b.hash = h := by
  unfold Chain.block? at hb
  have := List.find?_some hb
  simpa using this

theorem parent?_hash {c : Chain} {b p : Blk} (h : c.parent? b = some p) : p.hash = b.prev := block?_hash h

/-- every element is what the store holds under its hash -/
def Stored (c : Chain) (l : List Blk) : Prop := ∀ x ∈ l, c.block? x.hash = some x

theorem parent?_stored {c : Chain} {b p : Blk} (h : c.parent? b = some p) : c.block? p.hash = some p := by
  rw [parent?_hash h]; exact h

/-- one turn of the parent loop: the result extends `acc`, holds a parent for every block, holds nothing else -/
theorem parentsAux_spec (c : Chain) : ∀ (nbs acc ps : List Blk), Stored c acc → parentsAux c nbs acc = some ps →
    Stored c ps ∧ (∀ x ∈ acc, x ∈ ps) ∧ (∀ b ∈ nbs, ∃ p ∈ ps, c.parent? b = some p) ∧
    (∀ x ∈ ps, x ∈ acc ∨ ∃ b ∈ nbs, c.parent? b = some x)
  | [], acc, ps, hacc, h => by
    simp only [parentsAux, Option.some.injEq] at h; subst h
    exact ⟨hacc, fun x hx => hx, fun b hb => by simp at hb, fun x hx => Or.inl hx⟩
  | b :: bs, acc, ps, hacc, h => by
    unfold parentsAux at h
    cases hp : c.parent? b with
    | none => simp [hp] at h
    | some p =>
      simp only [hp] at h
      by_cases hin : acc.any (fun x => x.hash == b.prev) = true
      · simp only [hin, if_true] at h
        obtain ⟨h1, h2, h3, h4⟩ := parentsAux_spec c bs acc ps hacc h
        refine ⟨h1, h2, ?_, ?_⟩
        · intro b' hb'
          rcases List.mem_cons.mp hb' with rfl | hb'
          · -- the parent is already collected: same hash, hence the same stored block
            obtain ⟨x, hx, hxh⟩ := List.any_eq_true.mp hin
            have hxh' : x.hash = b'.prev := by simpa using hxh
            have : c.block? x.hash = some x := hacc x hx
            rw [hxh'] at this
            have hpx : p = x := by
              have h5 : c.parent? b' = some x := this
              rw [hp] at h5; cases h5; rfl
            exact ⟨x, h2 x hx, by rw [hp, hpx]⟩
          · exact h3 b' hb'
        · intro x hx
          rcases h4 x hx with h5 | ⟨b', hb', h5⟩
          · exact Or.inl h5
          · exact Or.inr ⟨b', List.mem_cons_of_mem _ hb', h5⟩
      · simp only [hin, Bool.false_eq_true, if_false] at h
        have hacc' : Stored c (acc ++ [p]) := by
          intro x hx
          rcases List.mem_append.mp hx with hx | hx
          · exact hacc x hx
          · simp only [List.mem_singleton] at hx; subst hx; exact parent?_stored hp
        obtain ⟨h1, h2, h3, h4⟩ := parentsAux_spec c bs (acc ++ [p]) ps hacc' h
        refine ⟨h1, fun x hx => h2 x (List.mem_append_left _ hx), ?_, ?_⟩
        · intro b' hb'
          rcases List.mem_cons.mp hb' with rfl | hb'
          · exact ⟨p, h2 p (by simp), hp⟩
          · exact h3 b' hb'
        · intro x hx
          rcases h4 x hx with h5 | ⟨b', hb', h5⟩
          · rcases List.mem_append.mp h5 with h6 | h6
            · exact Or.inl h6
            · simp only [List.mem_singleton] at h6; subst h6
              exact Or.inr ⟨b, List.mem_cons_self, hp⟩
          · exact Or.inr ⟨b', List.mem_cons_of_mem _ hb', h5⟩

theorem parents_spec (c : Chain) (nbs ps : List Blk) (h : parents c nbs = some ps) :
    Stored c ps ∧ (∀ b ∈ nbs, ∃ p ∈ ps, c.parent? b = some p) ∧ (∀ x ∈ ps, ∃ b ∈ nbs, c.parent? b = some x) := by
  obtain ⟨h1, _, h3, h4⟩ := parentsAux_spec c nbs [] ps (fun x hx => by simp at hx) h
  refine ⟨h1, h3, fun x hx => ?_⟩
  rcases h4 x hx with h5 | h5
  · simp at h5
  · exact h5

theorem parents_ne_nil (c : Chain) (nbs ps : List Blk) (h : parents c nbs = some ps) (hne : nbs ≠ []) : ps ≠ [] := by
  obtain ⟨_, h2, _⟩ := parents_spec c nbs ps h
  obtain ⟨b, hb⟩ := List.exists_mem_of_ne_nil nbs hne
  obtain ⟨p, hp, _⟩ := h2 b hb
  exact List.ne_nil_of_mem hp

/-- when every block of the set has the same parent `a`, one turn yields exactly `[a]` -/
theorem parentsAux_same (c : Chain) (a : Blk) : ∀ (nbs acc : List Blk), (∀ b ∈ nbs, c.parent? b = some a) →
    (acc = [] ∨ acc = [a]) → parentsAux c nbs acc = some (if nbs = [] then acc else [a])
  | [], acc, _, _ => by simp [parentsAux]
  | b :: bs, acc, h, hacc => by
    have hp : c.parent? b = some a := h b List.mem_cons_self
    have hh : a.hash = b.prev := parent?_hash hp
    unfold parentsAux
    simp only [hp]
    have hrest := fun acc' (h' : acc' = [] ∨ acc' = [a]) =>
      parentsAux_same c a bs acc' (fun b' hb' => h b' (List.mem_cons_of_mem _ hb')) h'
    rcases hacc with rfl | rfl
    · simp only [List.any_nil, Bool.false_eq_true, if_false, List.nil_append]
      rw [hrest [a] (Or.inr rfl)]
      simp
    · have : ([a].any fun x => x.hash == b.prev) = true := by simp [hh]
      simp only [this, if_true]
      rw [hrest [a] (Or.inr rfl)]
      simp

theorem parents_same (c : Chain) (a : Blk) (nbs : List Blk) (hne : nbs ≠ [])
    (h : ∀ b ∈ nbs, c.parent? b = some a) : parents c nbs = some [a] := by
  unfold parents
  rw [parentsAux_same c a nbs [] h (Or.inl rfl)]
  simp [hne]

/-- **soundness of the climb**: the block found is the `k`-th ancestor of every block of the set, for one `k ≥ 1` -/
theorem climb_common (c : Chain) : ∀ (fuel : Nat) (nbs : List Blk) (fb : Blk), climb c fuel nbs = .found fb →
    ∃ k, ∀ b ∈ nbs, Anc c (k + 1) b fb
  | 0, _, _, h => by simp [climb] at h
  | fuel + 1, nbs, fb, h => by
    unfold climb at h
    cases hps : parents c nbs with
    | none => simp [hps] at h
    | some ps =>
      simp only [hps] at h
      obtain ⟨_, h2, _⟩ := parents_spec c nbs ps hps
      have one : ∀ p, ps = [p] → fb = p → ∃ k, ∀ b ∈ nbs, Anc c (k + 1) b fb := by
        intro p hp hfb
        refine ⟨0, fun b hb => ?_⟩
        obtain ⟨p', hp', hpar⟩ := h2 b hb
        rw [hp] at hp'; simp only [List.mem_singleton] at hp'; subst hp'
        exact ⟨p', hpar, hfb⟩
      have more : climb c fuel ps = .found fb → ∃ k, ∀ b ∈ nbs, Anc c (k + 1) b fb := by
        intro h'
        obtain ⟨k, hk⟩ := climb_common c fuel ps fb h'
        refine ⟨k + 1, fun b hb => ?_⟩
        obtain ⟨p, hp, hpar⟩ := h2 b hb
        exact ⟨p, hpar, hk p hp⟩
      match ps, h with
      | [], h => exact more h
      | [p], h => simp only [Climb.found.injEq] at h; exact one p rfl h.symm
      | _ :: _ :: _, h => exact more h

/-- **the climb stops at the first level where the set is a single block**: any block `a` that is the
`(j+1)`-th ancestor of every block of the set is an ancestor-or-equal of the block found -/
theorem climb_deepest (c : Chain) : ∀ (fuel : Nat) (nbs : List Blk) (fb : Blk) (j : Nat) (a : Blk),
    climb c fuel nbs = .found fb → nbs ≠ [] → (∀ b ∈ nbs, Anc c (j + 1) b a) → ∃ i, Anc c i fb a
  | 0, _, _, _, _, h, _, _ => by simp [climb] at h
  | fuel + 1, nbs, fb, j, a, h, hne, hall => by
    unfold climb at h
    cases hps : parents c nbs with
    | none => simp [hps] at h
    | some ps =>
      simp only [hps] at h
      obtain ⟨_, h2, h3⟩ := parents_spec c nbs ps hps
      have hpsne := parents_ne_nil c nbs ps hps hne
      -- every block of the next level has `a` as its `j`-th ancestor
      have hnext : ∀ y ∈ ps, Anc c j y a := by
        intro y hy
        obtain ⟨b, hb, hpar⟩ := h3 y hy
        obtain ⟨p, hp, hanc⟩ := hall b hb
        rw [hpar] at hp; cases hp; exact hanc
      match ps, h, hpsne, hnext with
      | [p], h, _, hnext =>
        simp only [Climb.found.injEq] at h; subst h
        exact ⟨j, hnext p (by simp)⟩
      | [], _, hpsne, _ => exact absurd rfl hpsne
      | p :: q :: rest, h, hpsne, hnext =>
        cases j with
        | zero =>
          -- all parents equal `a`: the level would have been the single block `a`
          have hsame : ∀ b ∈ nbs, c.parent? b = some a := by
            intro b hb
            obtain ⟨p', hp', hanc⟩ := hall b hb
            simp only [Anc] at hanc; subst hanc; exact hp'
          have := parents_same c a nbs hne hsame
          rw [hps] at this
          simp at this
        | succ j' =>
          exact climb_deepest c fuel (p :: q :: rest) fb j' a h hpsne hnext

/-! ### rounds -/

theorem foldl_max_le (l : List Blk) : ∀ (m B : Nat), l.foldl (fun m b => max m b.round) m ≤ B ↔ m ≤ B ∧ ∀ x ∈ l, x.round ≤ B := by
  induction l with
  | nil => intro m B; simp
  | cons y ys ih =>
    intro m B
    simp only [List.foldl_cons, ih, List.mem_cons, forall_eq_or_imp]
    constructor
    · rintro ⟨h1, h2⟩; exact ⟨by omega, by omega, h2⟩
    · rintro ⟨h1, h2, h3⟩; exact ⟨by omega, h3⟩

theorem le_maxRound {l : List Blk} {x : Blk} (hx : x ∈ l) : x.round ≤ maxRound l :=
  ((foldl_max_le l 0 (maxRound l)).mp (Nat.le_refl _)).2 x hx

theorem maxRound_lt {l : List Blk} {B : Nat} (hne : l ≠ []) (h : ∀ x ∈ l, x.round < B) : maxRound l < B := by
  obtain ⟨x, hx⟩ := List.exists_mem_of_ne_nil l hne
  have hB : 0 < B := by have := h x hx; omega
  have : maxRound l ≤ B - 1 := (foldl_max_le l 0 (B - 1)).mpr ⟨by omega, fun y hy => by have := h y hy; omega⟩
  omega

/-- parents lie in strictly earlier rounds -/
def WF (c : Chain) : Prop := ∀ b p, c.parent? b = some p → p.round < b.round

/-- parents lie in the round immediately before (block/entity.go:342, miner/protocol_round.go:775) -/
def Level (c : Chain) : Prop := ∀ b p, c.parent? b = some p → p.round + 1 = b.round

theorem Level.wf {c : Chain} (h : Level c) : WF c := fun b p hp => by have := h b p hp; omega

theorem Anc.round_level {c : Chain} (hl : Level c) : ∀ {k : Nat} {b a : Blk}, Anc c k b a → a.round + k = b.round
  | 0, _, _, h => by simp only [Anc] at h; subst h; rfl
  | k + 1, _, _, ⟨p, hp, h⟩ => by
    have h1 := Anc.round_level hl h
    have h2 := hl _ p hp
    omega

theorem Anc.round_wf {c : Chain} (hw : WF c) : ∀ {k : Nat} {b a : Blk}, Anc c k b a → a.round + k ≤ b.round
  | 0, _, _, h => by simp only [Anc] at h; subst h; exact Nat.le_refl _
  | k + 1, _, _, ⟨p, hp, h⟩ => by
    have h1 := Anc.round_wf hw h
    have h2 := hw _ p hp
    omega

/-- **termination**: on a store whose parents lie in earlier rounds the climb never uses up `maxRound + 1` fuel -/
theorem climb_total (c : Chain) (hw : WF c) : ∀ (fuel : Nat) (nbs : List Blk), nbs ≠ [] → maxRound nbs < fuel →
    climb c fuel nbs ≠ .outOfFuel
  | 0, _, _, h => by omega
  | fuel + 1, nbs, hne, hf => by
    unfold climb
    cases hps : parents c nbs with
    | none => simp
    | some ps =>
      simp only
      obtain ⟨_, _, h3⟩ := parents_spec c nbs ps hps
      have hpsne := parents_ne_nil c nbs ps hps hne
      have hlt : maxRound ps < maxRound nbs := by
        apply maxRound_lt hpsne
        intro x hx
        obtain ⟨b, hb, hpar⟩ := h3 x hx
        have := hw b x hpar
        have := le_maxRound hb
        omega
      match ps, hpsne, hlt with
      | [p], _, _ => simp
      | [], hpsne, _ => exact absurd rfl hpsne
      | p :: q :: rest, hpsne, hlt => exact climb_total c hw fuel (p :: q :: rest) hpsne (by omega)

/-- the first loop: what it finds is the notarized set of the latest round in `(lfbr, r]` that has any, and all round
objects above it exist and are empty -/
theorem findNotarized_spec (c : Chain) (lfbr : Nat) : ∀ (fuel rn : Nat) (nbs : List Blk) (found : Nat),
    rn < fuel → findNotarized c lfbr fuel rn = (nbs, found) → nbs ≠ [] →
    lfbr < found ∧ found ≤ rn ∧ c.round? found = some nbs ∧ ∀ m, found < m → m ≤ rn → c.round? m = some []
  | 0, _, _, _, hf, _, _ => by omega
  | fuel + 1, rn, nbs, found, hf, h, hne => by
    unfold findNotarized at h
    by_cases hle : rn ≤ lfbr
    · simp only [hle, if_true, Prod.mk.injEq] at h; exact absurd h.1.symm hne
    · simp only [hle, if_false] at h
      cases hr : c.round? rn with
      | none => simp only [hr, Prod.mk.injEq] at h; exact absurd h.1.symm hne
      | some l =>
        simp only [hr] at h
        by_cases hl : l ≠ []
        · simp only [hl, ne_eq, not_false_eq_true, if_true, Prod.mk.injEq] at h
          obtain ⟨rfl, rfl⟩ := h
          exact ⟨by omega, Nat.le_refl _, hr, fun m h1 h2 => by omega⟩
        · have hl' : l = [] := by simpa using hl
          subst hl'
          simp only [ne_eq, not_true_eq_false, if_false] at h
          cases rn with
          | zero => simp only [Prod.mk.injEq] at h; exact absurd h.1.symm hne
          | succ rn' =>
            simp only at h
            obtain ⟨h1, h2, h3, h4⟩ := findNotarized_spec c lfbr fuel rn' nbs found (by omega) h hne
            refine ⟨h1, by omega, h3, fun m hm1 hm2 => ?_⟩
            by_cases hm : m = rn' + 1
            · subst hm; exact hr
            · exact h4 m hm1 (by omega)

end ZChain.Finalize
