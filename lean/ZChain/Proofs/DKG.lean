import ZChain.Proofs.Alg
import ZChain.Model.DKG
/-! Helper lemmas for C34/C33 about `Model/DKG` over a field. -/
namespace ZChain.DKG
open ZChain.Alg
variable {F : Type} [Field F] [DecidableEq F]

omit [Field F] [DecidableEq F] in
theorem map_pubKey (l : List F) : l.map pubKey = l := by
  induction l with
  | nil => rfl
  | cons a l ih => simp [pubKey, ih]

/-- coefficient-wise sum of polynomials with `t` coefficients each. -/
def sumPolys (t : Nat) (ps : List (List F)) : List F :=
  ps.foldr (fun p acc => List.zipWith (· + ·) p acc) (List.replicate t 0)

omit [DecidableEq F] in
theorem sumPolys_length (t : Nat) (ps : List (List F)) (h : ∀ p ∈ ps, p.length = t) :
    (sumPolys t ps).length = t := by
  induction ps with
  | nil => simp [sumPolys]
  | cons p ps ih =>
    have h1 := h p (List.mem_cons_self)
    have h2 := ih (fun q hq => h q (List.mem_cons_of_mem _ hq))
    simp only [sumPolys, List.foldr_cons, List.length_zipWith] at h2 ⊢
    rw [h2, h1]; simp

omit [DecidableEq F] in
theorem polyEval_replicate_zero (t : Nat) (x : F) : polyEval (List.replicate t (0 : F)) x = 0 := by
  induction t with
  | zero => rfl
  | succ t ih => simp [List.replicate_succ, polyEval_cons, ih]

omit [DecidableEq F] in
/-- `Σⱼ fⱼ(x)` is the evaluation of the summed polynomial. -/
theorem polyEval_sumPolys (t : Nat) (ps : List (List F)) (h : ∀ p ∈ ps, p.length = t) (x : F) :
    polyEval (sumPolys t ps) x = (ps.map (fun p => polyEval p x)).sum := by
  induction ps with
  | nil => simp [sumPolys, polyEval_replicate_zero]
  | cons p ps ih =>
    have h1 := h p (List.mem_cons_self)
    have hl := sumPolys_length t ps (fun q hq => h q (List.mem_cons_of_mem _ hq))
    have h2 := ih (fun q hq => h q (List.mem_cons_of_mem _ hq))
    simp only [List.map_cons, List.sum_cons]
    rw [← h2]
    show polyEval (List.zipWith (· + ·) p (sumPolys t ps)) x = _
    rw [polyEval_zipWith_add _ _ (by rw [h1, hl])]

omit [DecidableEq F] in
theorem headD_sumPolys (t : Nat) (ps : List (List F)) (h : ∀ p ∈ ps, p.length = t) :
    (sumPolys t ps).headD 0 = (ps.map (fun p => p.headD 0)).sum := by
  have := polyEval_sumPolys t ps h 0
  rw [polyEval_zero] at this
  rw [this]
  congr 1
  apply List.map_congr_left
  intro p _
  exact polyEval_zero p

/-! association lists -/
omit [Field F] in
theorem get?_append_of_not_mem (m : List (F × F)) (k v : F) (h : k ∉ m.map Prod.fst) :
    get? m k = none ∧ put m k v = m ++ [(k, v)] := by
  have hany : m.any (fun e => e.1 == k) = false := by
    rw [Bool.eq_false_iff]
    intro hc
    rw [List.any_eq_true] at hc
    obtain ⟨e, he, hek⟩ := hc
    exact h (List.mem_map.mpr ⟨e, he, by simpa using hek⟩)
  constructor
  · unfold get?
    have : m.find? (fun e => e.1 == k) = none := by
      rw [List.find?_eq_none]
      intro e he hek
      exact h (List.mem_map.mpr ⟨e, he, by simpa using hek⟩)
    rw [this]; rfl
  · unfold put; rw [hany]; simp

omit [Field F] in
theorem get?_of_mem_nodup (m : List (F × F)) (hn : (m.map Prod.fst).Nodup) (k v : F) (h : (k, v) ∈ m) :
    get? m k = some v := by
  induction m with
  | nil => cases h
  | cons e m ih =>
    rw [List.map_cons, List.nodup_cons] at hn
    unfold get?
    rw [List.find?_cons]
    rcases List.mem_cons.mp h with rfl | hm
    · simp
    · have hne : (e.1 == k) = false := by
        rw [beq_eq_false_iff_ne]
        intro hek
        exact hn.1 (List.mem_map.mpr ⟨(k, v), hm, hek.symm⟩)
      rw [hne]
      exact ih hn.2 hm

end ZChain.DKG
