import ZChain.Model.MagicBlocks
/-! Helper lemmas for C40 (core-only). -/
namespace ZChain.MagicBlocks

/-- strictly ascending (hence duplicate-free). -/
def Asc (l : List Int) : Prop := l.Pairwise (· < ·)

/-! ### the Go map -/

theorem mapGet_filter (p : Int → Bool) (k : Int) (m : List (Int × Ent)) :
    mapGet k (m.filter (fun x => p x.1)) = if p k then mapGet k m else none := by
  induction m with
  | nil => simp [mapGet]
  | cons x m ih =>
    obtain ⟨k', v⟩ := x
    by_cases hp : p k' = true
    · simp only [List.filter_cons, hp, if_true, mapGet]
      by_cases hk : k' = k
      · subst hk; simp [hp]
      · simp only [hk, if_false]; exact ih
    · have hp' : p k' = false := by simpa using hp
      simp only [List.filter_cons, hp', mapGet, Bool.false_eq_true, if_false]
      by_cases hk : k' = k
      · subst hk; simp only [if_true]; rw [ih]; simp [hp']
      · simp only [hk, if_false]; exact ih

theorem mapGet_del (k k' : Int) (m : List (Int × Ent)) :
    mapGet k (mapDel k' m) = if k = k' then none else mapGet k m := by
  unfold mapDel
  have := mapGet_filter (fun x => decide (x ≠ k')) k m
  simp only [decide_not] at this ⊢
  rw [this]
  by_cases h : k = k' <;> simp [h]

theorem mapGet_put (k k' : Int) (v : Ent) (m : List (Int × Ent)) :
    mapGet k (mapPut k' v m) = if k = k' then some v else mapGet k m := by
  unfold mapPut
  simp only [mapGet]
  by_cases h : k' = k
  · subst h; simp
  · have h' : ¬ k = k' := fun e => h e.symm
    simp only [h, h', if_false]
    rw [mapGet_del]; simp [h']

theorem mapGet_delAll (ks : List Int) (k : Int) (m : List (Int × Ent)) :
    mapGet k (delAll ks m) = if k ∈ ks then none else mapGet k m := by
  unfold delAll
  induction ks generalizing m with
  | nil => simp
  | cons a ks ih =>
    simp only [List.foldl_cons]
    rw [ih, mapGet_del]
    by_cases h1 : k ∈ ks
    · simp [h1]
    · by_cases h2 : k = a
      · subst h2; simp
      · simp [h1, h2]

/-! ### the scans -/

/-- On an ascending slice, when nothing is `≤ r` below the head … the scan keeps `found`. -/
theorem scan_none {l : List Int} {r f : Int} (h : ∀ x ∈ l, r < x) (hs : Asc l) : scan l r f = f := by
  cases l with
  | nil => rfl
  | cons x xs =>
    have : ¬ r ≥ x := by have := h x (List.mem_cons_self ..); omega
    simp [scan, this]

/-- On an ascending slice the scan returns the greatest element `≤ r`. -/
theorem scan_floor {l : List Int} (hs : Asc l) {r x : Int} (hx : x ∈ l) (hxr : x ≤ r)
    (hmax : ∀ y ∈ l, y ≤ r → y ≤ x) (f : Int) : scan l r f = x := by
  induction l generalizing f with
  | nil => cases hx
  | cons a l ih =>
    have hs' := List.pairwise_cons.mp hs
    rcases List.mem_cons.mp hx with rfl | hx'
    · -- x is the head: everything behind is > x, and (by maximality) > r
      have hge : r ≥ x := by omega
      simp only [scan, hge, if_true]
      apply scan_none _ hs'.2
      intro y hy
      have h1 := hs'.1 y hy
      by_cases hyr : y ≤ r
      · have := hmax y (List.mem_cons_of_mem _ hy) hyr; omega
      · omega
    · have hax := hs'.1 x hx'
      have hge : r ≥ a := by omega
      simp only [scan, hge, if_true]
      exact ih hs'.2 hx' (fun y hy => hmax y (List.mem_cons_of_mem _ hy)) a

theorem scanIdx_none {l : List Int} {r i f : Int} (h : ∀ x ∈ l, r < x) : scanIdx l r i f = f := by
  cases l with
  | nil => rfl
  | cons x xs =>
    have : ¬ r ≥ x := by have := h x (List.mem_cons_self ..); omega
    simp [scanIdx, this]

/-- `scanIdx` returns the position of the greatest element `≤ r` (offset by the start index `i`). -/
theorem scanIdx_floor {l : List Int} (hs : Asc l) {r x : Int} (hx : x ∈ l) (hxr : x ≤ r)
    (hmax : ∀ y ∈ l, y ≤ r → y ≤ x) (i f : Int) :
    ∃ n : Nat, l[n]? = some x ∧ scanIdx l r i f = i + n := by
  induction l generalizing i f with
  | nil => cases hx
  | cons a l ih =>
    have hs' := List.pairwise_cons.mp hs
    rcases List.mem_cons.mp hx with rfl | hx'
    · have hge : r ≥ x := by omega
      refine ⟨0, by simp, ?_⟩
      simp only [scanIdx, hge, if_true]
      rw [scanIdx_none]
      · simp
      · intro y hy
        have h1 := hs'.1 y hy
        by_cases hyr : y ≤ r
        · have := hmax y (List.mem_cons_of_mem _ hy) hyr; omega
        · omega
    · have hax := hs'.1 x hx'
      have hge : r ≥ a := by omega
      obtain ⟨n, hn, he⟩ := ih hs'.2 hx' (fun y hy => hmax y (List.mem_cons_of_mem _ hy)) (i + 1) i
      refine ⟨n + 1, by simpa using hn, ?_⟩
      simp only [scanIdx, hge, if_true]
      rw [he]; omega

/-- a finite set with an element `≤ r` has a greatest such element. -/
theorem exists_floor (l : List Int) (r : Int) (h : ∃ x ∈ l, x ≤ r) :
    ∃ x ∈ l, x ≤ r ∧ ∀ y ∈ l, y ≤ r → y ≤ x := by
  induction l with
  | nil => obtain ⟨x, hx, _⟩ := h; cases hx
  | cons a l ih =>
    by_cases hl : ∃ x ∈ l, x ≤ r
    · obtain ⟨x, hx, hxr, hm⟩ := ih hl
      by_cases hax : a ≤ r ∧ x < a
      · refine ⟨a, List.mem_cons_self .., hax.1, ?_⟩
        intro y hy hyr
        rcases List.mem_cons.mp hy with rfl | hy
        · exact Int.le_refl _
        · have := hm y hy hyr; omega
      · refine ⟨x, List.mem_cons_of_mem _ hx, hxr, ?_⟩
        intro y hy hyr
        rcases List.mem_cons.mp hy with rfl | hy
        · omega
        · exact hm y hy hyr
    · obtain ⟨x, hx, hxr⟩ := h
      rcases List.mem_cons.mp hx with rfl | hx
      · refine ⟨x, List.mem_cons_self .., hxr, ?_⟩
        intro y hy hyr
        rcases List.mem_cons.mp hy with rfl | hy
        · exact Int.le_refl _
        · exact absurd ⟨y, hy, hyr⟩ hl
      · exact absurd ⟨x, hx, hxr⟩ hl

/-! ### putToSlice -/

def Desc (l : List Int) : Prop := l.Pairwise (· > ·)

theorem mem_putRev (l : List Int) (r y : Int) : y ∈ putRev l r ↔ y = r ∨ y ∈ l := by
  induction l with
  | nil => simp [putRev]
  | cons x xs ih =>
    unfold putRev
    split
    · simp
    · simp only [List.mem_cons, ih]
      constructor
      · rintro (h | h | h) <;> simp [h]
      · rintro (h | h | h) <;> simp [h]

theorem putRev_desc {l : List Int} (hs : Desc l) {r : Int} (hr : r ∉ l) : Desc (putRev l r) := by
  induction l with
  | nil => simp [putRev, Desc]
  | cons x xs ih =>
    have hs' := List.pairwise_cons.mp hs
    unfold putRev
    split
    · rename_i hlt
      refine List.pairwise_cons.mpr ⟨?_, hs⟩
      intro y hy
      rcases List.mem_cons.mp hy with rfl | hy
      · exact hlt
      · have := hs'.1 y hy; show r > y; omega
    · rename_i hge
      have hne : r ≠ x := fun e => hr (e ▸ List.mem_cons_self ..)
      have hr' : r ∉ xs := fun h => hr (List.mem_cons_of_mem _ h)
      refine List.pairwise_cons.mpr ⟨?_, ih hs'.2 hr'⟩
      intro y hy
      rcases (mem_putRev xs r y).mp hy with rfl | hy
      · show x > y; omega
      · exact hs'.1 y hy

theorem mem_putToSlice (l : List Int) (r y : Int) : y ∈ putToSlice l r ↔ y = r ∨ y ∈ l := by
  unfold putToSlice; simp [mem_putRev]

theorem putToSlice_asc {l : List Int} (hs : Asc l) {r : Int} (hr : r ∉ l) : Asc (putToSlice l r) := by
  unfold putToSlice Asc
  rw [List.pairwise_reverse]
  have hd : Desc l.reverse := by
    unfold Desc; rw [List.pairwise_reverse]; exact hs
  have := putRev_desc hd (r := r) (by simpa using hr)
  exact this

/-! ### the collecting loop of Prune -/

theorem splitAt_some_of_mem {p : Int} {l : List Int} (h : p ∈ l) : ∃ a b, splitAt p l = some (a, b) := by
  induction l with
  | nil => cases h
  | cons x xs ih =>
    unfold splitAt
    by_cases hx : p = x
    · simp [hx]
    · simp only [hx, if_false]
      rcases List.mem_cons.mp h with h | h
      · exact absurd h hx
      · obtain ⟨a, b, hab⟩ := ih h
        rw [hab]; exact ⟨_, _, rfl⟩

/-- on an ascending slice the loop collects exactly the elements `≤ p` and leaves those `> p`. -/
theorem splitAt_spec {p : Int} {l a b : List Int} (hs : Asc l) (h : splitAt p l = some (a, b)) :
    l = a ++ b ∧ p ∈ a ∧ (∀ x ∈ a, x ≤ p) ∧ (∀ x ∈ b, p < x) := by
  induction l generalizing a b with
  | nil => simp [splitAt] at h
  | cons x xs ih =>
    have hs' := List.pairwise_cons.mp hs
    unfold splitAt at h
    by_cases hx : p = x
    · simp only [hx, if_true, Option.some.injEq, Prod.mk.injEq] at h
      obtain ⟨rfl, rfl⟩ := h
      subst hx
      refine ⟨rfl, by simp, by simp, ?_⟩
      intro y hy; exact hs'.1 y hy
    · simp only [hx, if_false] at h
      cases hsp : splitAt p xs with
      | none => simp [hsp] at h
      | some ab =>
        obtain ⟨a', b'⟩ := ab
        simp only [hsp, Option.some.injEq, Prod.mk.injEq] at h
        obtain ⟨rfl, rfl⟩ := h
        obtain ⟨h1, h2, h3, h4⟩ := ih hs'.2 hsp
        refine ⟨by rw [h1]; simp, List.mem_cons_of_mem _ h2, ?_, h4⟩
        intro y hy
        rcases List.mem_cons.mp hy with rfl | hy
        · have hp : p ∈ xs := by rw [h1]; exact List.mem_append_left _ h2
          have := hs'.1 p hp; omega
        · exact h3 y hy

/-! ### the last element of the slice (`Prune` resets `max` to it) -/

theorem lastOr_mem (d : Int) (l : List Int) : (l = [] ∧ lastOr d l = d) ∨ lastOr d l ∈ l := by
  induction l generalizing d with
  | nil => exact Or.inl ⟨rfl, rfl⟩
  | cons x t ih =>
    right
    show lastOr x t ∈ x :: t
    rcases ih x with ⟨_, h⟩ | h
    · rw [h]; exact List.mem_cons_self ..
    · exact List.mem_cons_of_mem _ h

theorem le_lastOr {l : List Int} (hs : Asc l) (d : Int) : ∀ y ∈ l, y ≤ lastOr d l := by
  induction l generalizing d with
  | nil => intro y hy; cases hy
  | cons x t ih =>
    have hs' := List.pairwise_cons.mp hs
    intro y hy
    show y ≤ lastOr x t
    rcases List.mem_cons.mp hy with rfl | hy
    · rcases lastOr_mem y t with ⟨_, h⟩ | h
      · rw [h]; exact Int.le_refl _
      · exact Int.le_of_lt (hs'.1 _ h)
    · exact ih hs'.2 x y hy

end ZChain.MagicBlocks
