import ZChain.Model.Det
/-! Shape lemmas for C06: what a loop over a Go map computes does not depend on the enumeration order when its body
has shape S1 (keyed writes / sets), S2 (commutative accumulation) or S3 (collect, then sort). The enumeration the
runtime picks is an arbitrary permutation of the map's entries (`List.Perm`). -/
namespace ZChain.Det

variable {α β κ ν σ ε : Type}

/-! ### the general fold lemma -/

/-- folding over a permutation gives the same result when any two *elements of the list* commute (`R` relates the
elements that may be swapped, e.g. "have different keys"). -/
theorem foldl_perm_of_pairwise {α β : Type} (f : β → α → β) (R : α → α → Prop) (hsymm : ∀ {x y}, R x y → R y x)
    (hcomm : ∀ b x y, R x y → f (f b x) y = f (f b y) x) {l₁ l₂ : List α} (hp : l₁.Perm l₂)
    (hR : l₁.Pairwise R) (b : β) : l₁.foldl f b = l₂.foldl f b := by
  induction hp generalizing b with
  | nil => rfl
  | cons x _ ih => exact ih (List.pairwise_cons.mp hR).2 (f b x)
  | swap x y l =>
    have hxy : R y x := (List.pairwise_cons.mp hR).1 x List.mem_cons_self
    simp only [List.foldl_cons]
    rw [hcomm b y x hxy]
  | trans h₁ _ ih₁ ih₂ =>
    have hR₂ := (h₁.pairwise_iff (fun h => hsymm h)).mp hR
    exact (ih₁ hR b).trans (ih₂ hR₂ b)

/-- **S2**: a right-commutative step (every commutative-associative accumulation is one) -/
theorem fold_perm_invariant {α β : Type} (f : β → α → β) (hcomm : ∀ b x y, f (f b x) y = f (f b y) x)
    {l₁ l₂ : List α} (hp : l₁.Perm l₂) (b : β) : l₁.foldl f b = l₂.foldl f b :=
  foldl_perm_of_pairwise f (fun _ _ => True) (fun _ => trivial) (fun b x y _ => hcomm b x y) hp
    (List.pairwise_of_forall (fun _ _ => trivial)) b

/-! ### S2 instances: the accumulations the translator accepts -/

theorem s2_nat_add (g : α → Nat) {l₁ l₂ : List α} (hp : l₁.Perm l₂) (b : Nat) :
    l₁.foldl (fun s x => s + g x) b = l₂.foldl (fun s x => s + g x) b :=
  fold_perm_invariant _ (fun b x y => by show b + g x + g y = b + g y + g x; omega) hp b

theorem s2_int_add (g : α → Int) {l₁ l₂ : List α} (hp : l₁.Perm l₂) (b : Int) :
    l₁.foldl (fun s x => s + g x) b = l₂.foldl (fun s x => s + g x) b :=
  fold_perm_invariant _ (fun b x y => by show b + g x + g y = b + g y + g x; omega) hp b

/-- Go's `+=` on a fixed-width integer wraps: addition modulo `2^w` -/
theorem s2_wrapping_add (w : Nat) (g : α → Nat) {l₁ l₂ : List α} (hp : l₁.Perm l₂) (b : Nat) :
    l₁.foldl (fun s x => (s + g x) % 2 ^ w) b = l₂.foldl (fun s x => (s + g x) % 2 ^ w) b :=
  fold_perm_invariant _ (fun b x y => by
    show ((b + g x) % 2 ^ w + g y) % 2 ^ w = ((b + g y) % 2 ^ w + g x) % 2 ^ w
    rw [Nat.add_mod, Nat.mod_mod, ← Nat.add_mod, Nat.add_mod ((b + g y) % 2 ^ w), Nat.mod_mod, ← Nat.add_mod]
    congr 1; omega) hp b

theorem s2_or (g : α → Bool) {l₁ l₂ : List α} (hp : l₁.Perm l₂) (b : Bool) :
    l₁.foldl (fun s x => s || g x) b = l₂.foldl (fun s x => s || g x) b :=
  fold_perm_invariant _ (fun b x y => by show ((b || g x) || g y) = ((b || g y) || g x); cases b <;> cases g x <;> cases g y <;> rfl) hp b

theorem s2_and (g : α → Bool) {l₁ l₂ : List α} (hp : l₁.Perm l₂) (b : Bool) :
    l₁.foldl (fun s x => s && g x) b = l₂.foldl (fun s x => s && g x) b :=
  fold_perm_invariant _ (fun b x y => by show ((b && g x) && g y) = ((b && g y) && g x); cases b <;> cases g x <;> cases g y <;> rfl) hp b

theorem s2_max (g : α → Nat) {l₁ l₂ : List α} (hp : l₁.Perm l₂) (b : Nat) :
    l₁.foldl (fun s x => max s (g x)) b = l₂.foldl (fun s x => max s (g x)) b :=
  fold_perm_invariant _ (fun b x y => by show max (max b (g x)) (g y) = max (max b (g y)) (g x); omega) hp b

theorem s2_min (g : α → Nat) {l₁ l₂ : List α} (hp : l₁.Perm l₂) (b : Nat) :
    l₁.foldl (fun s x => min s (g x)) b = l₂.foldl (fun s x => min s (g x)) b :=
  fold_perm_invariant _ (fun b x y => by show min (min b (g x)) (g y) = min (min b (g y)) (g x); omega) hp b


theorem s2_checked_add (bound : Nat) (g : α → Nat) {l₁ l₂ : List α} (hp : l₁.Perm l₂) (b : Option Nat) :
    l₁.foldl (fun s x => checkedAdd bound s (g x)) b = l₂.foldl (fun s x => checkedAdd bound s (g x)) b :=
  fold_perm_invariant _ (fun b x y => by
    show checkedAdd bound (checkedAdd bound b (g x)) (g y) = checkedAdd bound (checkedAdd bound b (g y)) (g x)
    cases b with
    | none => rfl
    | some a =>
      simp only [checkedAdd]
      by_cases h1 : a + g x ≤ bound <;> by_cases h2 : a + g y ≤ bound <;> simp only [h1, h2, if_true, if_false]
      · by_cases h3 : a + g x + g y ≤ bound
        · have : a + g y + g x ≤ bound := by omega
          simp only [h3, this, if_true]; congr 1; omega
        · have : ¬ a + g y + g x ≤ bound := by omega
          simp only [h3, this, if_false]
      · have : ¬ a + g x + g y ≤ bound := by omega
        simp only [this, if_false]
      · have : ¬ a + g y + g x ≤ bound := by omega
        simp only [this, if_false]) hp b


theorem existsLoop_eq_any (p : α → Bool) (l : List α) : existsLoop p l = l.any p := by
  induction l with
  | nil => rfl
  | cons x r ih => simp only [existsLoop, List.any_cons, ih]; cases p x <;> rfl

theorem s2_exists (p : α → Bool) {l₁ l₂ : List α} (hp : l₁.Perm l₂) : existsLoop p l₁ = existsLoop p l₂ := by
  rw [existsLoop_eq_any, existsLoop_eq_any]
  exact Bool.eq_iff_iff.mpr (by simp only [List.any_eq_true]; exact ⟨fun ⟨x, hx, h⟩ => ⟨x, hp.mem_iff.mp hx, h⟩, fun ⟨x, hx, h⟩ => ⟨x, hp.mem_iff.mpr hx, h⟩⟩)

/-! ### S1: writes keyed by the iteration key, sets, deletions -/


/-- `for k, v := range src { dst[k] = g(k, v) }`: the entries of a map have pairwise different keys -/
theorem s1_keyed_writes [DecidableEq κ] (g : κ → σ → ν) {l₁ l₂ : List (κ × σ)} (hp : l₁.Perm l₂)
    (hkeys : l₁.Pairwise (fun a b => a.1 ≠ b.1)) (dst : GMap κ ν) :
    l₁.foldl (fun m e => m.set e.1 (g e.1 e.2)) dst = l₂.foldl (fun m e => m.set e.1 (g e.1 e.2)) dst :=
  foldl_perm_of_pairwise _ (fun a b => a.1 ≠ b.1) (fun h => Ne.symm h) (fun m x y hxy => by
    funext k
    simp only [GMap.set]
    by_cases h1 : k = y.1 <;> by_cases h2 : k = x.1 <;> simp [h1, h2]
    · exact absurd (h2.symm.trans h1) hxy
    · intro h; exact absurd h.symm hxy
    · intro h; exact absurd h hxy) hp hkeys dst

/-- `for k := range src { delete(dst, k) }` (also: deleting collected keys one by one, `removeExpiredChallenges`) -/
theorem s1_deletes [DecidableEq κ] {l₁ l₂ : List κ} (hp : l₁.Perm l₂) (dst : GMap κ ν) :
    l₁.foldl (fun m k => m.del k) dst = l₂.foldl (fun m k => m.del k) dst :=
  fold_perm_invariant _ (fun m x y => by
    funext k
    simp only [GMap.del]
    by_cases h1 : k = y <;> by_cases h2 : k = x <;> simp [h1, h2]) hp dst

/-- `for _, v := range src { set[e(v)] = true }`: building a set (different entries may hit the same element) -/
theorem s1_set_build [DecidableEq κ] (e : α → κ) {l₁ l₂ : List α} (hp : l₁.Perm l₂) (s : GMap κ Unit) :
    l₁.foldl (fun m x => m.set (e x) ()) s = l₂.foldl (fun m x => m.set (e x) ()) s :=
  fold_perm_invariant _ (fun m x y => by
    funext k
    simp only [GMap.set]
    by_cases h1 : k = e y <;> by_cases h2 : k = e x <;> simp [h1, h2]) hp s

/-! ### S3: collect, then sort -/

/-- sorting the collected keys removes the dependence on the order of collection (keys are pairwise different and
totally ordered, so there is exactly one sorted arrangement) -/
theorem s3_sort_of_perm (le : α → α → Bool) (htrans : ∀ a b c, le a b = true → le b c = true → le a c = true)
    (htotal : ∀ a b, (le a b || le b a) = true) (hanti : ∀ a b, le a b = true → le b a = true → a = b)
    {l₁ l₂ : List α} (hp : l₁.Perm l₂) : l₁.mergeSort le = l₂.mergeSort le := by
  have s₁ := List.pairwise_mergeSort (le := le) (fun a b c => htrans a b c) htotal l₁
  have s₂ := List.pairwise_mergeSort (le := le) (fun a b c => htrans a b c) htotal l₂
  have p : (l₁.mergeSort le).Perm (l₂.mergeSort le) := (List.mergeSort_perm l₁ le).trans (hp.trans (List.mergeSort_perm l₂ le).symm)
  exact List.Perm.eq_of_pairwise (le := fun a b => le a b = true) (fun a b _ _ hab hba => hanti a b hab hba) s₁ s₂ p

/-! ### S4 sub-shapes -/

/-- error-first loop: *whether* it fails does not depend on the enumeration … -/
theorem firstError_isSome_perm (check : α → Option ε) {l₁ l₂ : List α} (hp : l₁.Perm l₂) :
    (firstError check l₁).isSome = (firstError check l₂).isSome := by
  have h : ∀ l : List α, (firstError check l).isSome = l.any (fun x => (check x).isSome) := by
    intro l
    induction l with
    | nil => rfl
    | cons x r ih =>
      simp only [firstError, List.any_cons]
      cases check x with
      | some e => rfl
      | none => simpa using ih
  rw [h, h]
  exact Bool.eq_iff_iff.mpr (by simp only [List.any_eq_true]; exact ⟨fun ⟨x, hx, h⟩ => ⟨x, hp.mem_iff.mp hx, h⟩, fun ⟨x, hx, h⟩ => ⟨x, hp.mem_iff.mpr hx, h⟩⟩)

/-- … the reported error is the error of some element … -/
theorem firstError_mem (check : α → Option ε) (l : List α) (e : ε) (h : firstError check l = some e) :
    ∃ x ∈ l, check x = some e := by
  induction l with
  | nil => simp [firstError] at h
  | cons x r ih =>
    unfold firstError at h
    cases hx : check x with
    | some e' => simp only [hx] at h; exact ⟨x, List.mem_cons_self, by rw [hx, h]⟩
    | none =>
      simp only [hx] at h
      obtain ⟨y, hy, hc⟩ := ih h
      exact ⟨y, List.mem_cons_of_mem _ hy, hc⟩

/-- … and with at most one offending element it is the same error in every enumeration. -/
theorem firstError_perm_of_unique (check : α → Option ε) {l₁ l₂ : List α} (hp : l₁.Perm l₂)
    (huniq : ∀ x ∈ l₁, ∀ y ∈ l₁, (check x).isSome → (check y).isSome → check x = check y) :
    firstError check l₁ = firstError check l₂ := by
  cases h₁ : firstError check l₁ with
  | none =>
    have := firstError_isSome_perm check hp
    rw [h₁] at this
    cases h₂ : firstError check l₂ with
    | none => rfl
    | some e => rw [h₂] at this; simp at this
  | some e₁ =>
    have := firstError_isSome_perm check hp
    rw [h₁] at this
    cases h₂ : firstError check l₂ with
    | none => rw [h₂] at this; simp at this
    | some e₂ =>
      obtain ⟨x, hx, cx⟩ := firstError_mem check l₁ e₁ h₁
      obtain ⟨y, hy, cy⟩ := firstError_mem check l₂ e₂ h₂
      have := huniq x hx y (hp.mem_iff.mpr hy) (by simp [cx]) (by simp [cy])
      rw [cx, cy] at this
      exact this

/-- emit-per-element loop: the emitted events are the same *multiset* in every enumeration (the list itself is not) -/
theorem emitAll_perm (mk : α → β) {l₁ l₂ : List α} (hp : l₁.Perm l₂) : (emitAll mk l₁).Perm (emitAll mk l₂) :=
  hp.map mk

/-! ### goroutine results: `GetItemsByIDs` -/

theorem minNotPresent_perm {ι : Type} {a₁ a₂ : List (Arrival ι)} (hp : a₁.Perm a₂) : minNotPresent a₁ = minNotPresent a₂ := by
  induction hp with
  | nil => rfl
  | cons x _ ih => cases x <;> simp only [minNotPresent, ih]
  | swap x y l =>
    cases x <;> cases y <;> simp only [minNotPresent]
    rename_i i j
    cases minNotPresent l with
    | none => simp only [Nat.min_comm]
    | some k => simp only; congr 1; omega
  | trans _ _ ih₁ ih₂ => exact ih₁.trans ih₂

theorem placeItems_perm {ι : Type} {a₁ a₂ : List (Arrival ι)} (hp : a₁.Perm a₂)
    (hidx : a₁.Pairwise (fun x y => x.idx ≠ y.idx)) : placeItems a₁ = placeItems a₂ := by
  unfold placeItems
  exact foldl_perm_of_pairwise _ (fun x y => x.idx ≠ y.idx) (fun h => Ne.symm h) (fun m x y hxy => by
    cases x <;> cases y <;> simp only
    rename_i i v j w
    funext k
    simp only [GMap.set]
    have hij : i ≠ j := hxy
    by_cases h1 : k = j <;> by_cases h2 : k = i <;> simp [h1, h2]
    · exact absurd (h2.symm.trans h1) hij
    · intro h; exact absurd h.symm hij
    · intro h; exact absurd h hij) hp hidx _

/-! ### goroutine per ticket, result picked by an in-order scan -/

theorem findSome?_congr' {α β : Type} {f g : α → Option β} : ∀ (l : List α), (∀ x ∈ l, f x = g x) → l.findSome? f = l.findSome? g
  | [], _ => rfl
  | x :: r, h => by
    simp only [List.findSome?_cons]
    rw [h x List.mem_cons_self, findSome?_congr' r (fun y hy => h y (List.mem_cons_of_mem _ hy))]

theorem runWorkers_apply (check : Nat → Option ε) (π : List Nat) (i : Nat) :
    runWorkers check π i = if i ∈ π ∧ (check i).isSome then check i else none := by
  unfold runWorkers
  have h : ∀ (π : List Nat) (m : GMap Nat ε),
      (π.foldl (workerStep check) m) i =
        if i ∈ π ∧ (check i).isSome then check i else m i := by
    intro π
    induction π with
    | nil => intro m; simp
    | cons j r ih =>
      intro m
      simp only [List.foldl_cons, List.mem_cons]
      rw [ih]
      by_cases hr : i ∈ r ∧ (check i).isSome
      · simp [hr]
      · simp only [hr, if_false]
        by_cases hij : i = j
        · subst hij
          cases hc : check i with
          | none => simp [workerStep, hc]
          | some e => simp [workerStep, hc, GMap.set]
        · have : ¬ ((i = j ∨ i ∈ r) ∧ (check i).isSome = true) := by
            intro h'; exact hr ⟨h'.1.resolve_left hij, h'.2⟩
          simp only [this, if_false]
          cases hj : check j with
          | none => simp [workerStep, hj]
          | some e => simp [workerStep, hj, GMap.set, hij]
  exact h π _

/-- the `errors` slice — hence everything computed from it — does not depend on the order in which the workers complete -/
theorem runWorkers_perm (check : Nat → Option ε) {π₁ π₂ : List Nat} (hp : π₁.Perm π₂) :
    runWorkers check π₁ = runWorkers check π₂ := by
  funext i
  rw [runWorkers_apply, runWorkers_apply]
  have : (i ∈ π₁) = (i ∈ π₂) := propext hp.mem_iff
  simp only [this]

end ZChain.Det
