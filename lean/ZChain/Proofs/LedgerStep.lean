import ZChain.Proofs.Ledger
/-! `step` factored as "plan, then settle": `plan` is what the transaction hands to the settlement
phase (queued transfers, signed transfers, surviving writes, status) or `none` when it is rejected
before settlement. `step_eq` proves the transcription in `Model/Ledger.lean` equal to this form. -/
namespace ZChain.Ledger

structure Plan where
  transfers : List Transfer
  signed : List Transfer
  writes : List Write
  status : Status

def plan (s : St) (t : Txn) (r : CResult) : Option Plan :=
  if t.value > maxTokenSupply then none
  else if (get s.accts t.sender).nonce + 1 ≠ t.nonce then none
  else
    match t.typ with
    | .invalid => none
    | .data => some ⟨[], [], [], .success⟩
    | .send =>
      if !present s.accts t.sender then none
      else if (get s.accts t.sender).balance < addWrap t.fee t.value then none
      else if !t.toValid then none
      else some ⟨[⟨t.sender, t.to, t.value, t.toCanon, t.toSameLeaf⟩], [], [], .success⟩
    | .sc =>
      match r with
      | .internal => none
      | .chargeable _ _ _ => some ⟨[], [], [], .failed⟩
      | .ok ws tr sg => some ⟨tr, sg, ws, .success⟩

def finish (feeOn : Bool) (s : St) (t : Txn) : Option Plan → St × Status
  | none => (s, .rejected)
  | some p =>
    match settle feeOn s.accts t p.transfers p.signed with
    | none => (s, .rejected)
    | some a => ({ accts := a, store := applyWrites s.store p.writes }, p.status)

theorem step_eq (feeOn : Bool) (s : St) (t : Txn) (r : CResult) :
    step feeOn s t r = finish feeOn s t (plan s t r) := by
  unfold step plan
  by_cases h1 : t.value > maxTokenSupply
  · simp [h1, finish]
  · simp only [h1, if_false]
    by_cases h2 : (get s.accts t.sender).nonce + 1 ≠ t.nonce
    · simp [h2, finish]
    · simp only [h2, if_false]
      cases t.typ with
      | invalid => simp [finish]
      | data =>
        simp only [finish, applyWrites]
        cases settle feeOn s.accts t [] [] <;> rfl
      | send =>
        simp only
        by_cases h0 : present s.accts t.sender
        · simp only [h0, Bool.not_true, Bool.false_eq_true, if_false]
          by_cases h3 : (get s.accts t.sender).balance < addWrap t.fee t.value
          · simp [h3, finish]
          · simp only [h3, if_false]
            by_cases h4 : t.toValid
            · simp only [h4, Bool.not_true, Bool.false_eq_true, if_false, finish, applyWrites]
              cases settle feeOn s.accts t [⟨t.sender, t.to, t.value, t.toCanon, t.toSameLeaf⟩] [] <;> rfl
            · simp [h4, finish]
        · simp [h0, finish]
      | sc =>
        cases r with
        | internal => simp [finish]
        | chargeable w a b =>
          simp only [finish, applyWrites]
          cases settle feeOn s.accts t [] [] <;> rfl
        | ok ws tr sg =>
          simp only [finish]
          cases settle feeOn s.accts t tr sg <;> rfl

/-- a transaction that is not rejected went through `settle` with its plan. -/
theorem step_applied (feeOn : Bool) (s : St) (t : Txn) (r : CResult)
    (h : (step feeOn s t r).2 ≠ .rejected) :
    ∃ p a, plan s t r = some p ∧ settle feeOn s.accts t p.transfers p.signed = some a ∧
      step feeOn s t r = ({ accts := a, store := applyWrites s.store p.writes }, p.status) := by
  rw [step_eq] at h ⊢
  cases hp : plan s t r with
  | none => simp [hp, finish] at h
  | some p =>
    simp only [hp, finish] at h ⊢
    cases hs : settle feeOn s.accts t p.transfers p.signed with
    | none => simp [hs] at h
    | some a => exact ⟨p, a, rfl, hs, rfl⟩

/-- a rejected transaction changes nothing at all. -/
theorem step_rejected (feeOn : Bool) (s : St) (t : Txn) (r : CResult)
    (h : (step feeOn s t r).2 = .rejected) (hp : ∀ p, plan s t r = some p → p.status ≠ .rejected) :
    (step feeOn s t r).1 = s := by
  rw [step_eq] at h ⊢
  cases hpl : plan s t r with
  | none => simp [finish]
  | some p =>
    simp only [hpl, finish] at h ⊢
    cases hs : settle feeOn s.accts t p.transfers p.signed with
    | none => rfl
    | some a => simp only [hs] at h; exact absurd h (hp p hpl)

theorem plan_status_ne_rejected (s : St) (t : Txn) (r : CResult) (p : Plan) (h : plan s t r = some p) :
    p.status ≠ .rejected := by
  unfold plan at h
  split at h
  · simp at h
  · split at h
    · simp at h
    · split at h
      · simp at h
      · injection h with h; rw [← h]; simp
      · split at h
        · simp at h
        · split at h
          · simp at h
          · split at h
            · simp at h
            · injection h with h; rw [← h]; simp
      · split at h
        · simp at h
        · injection h with h; rw [← h]; simp
        · injection h with h; rw [← h]; simp

theorem plan_nonce (s : St) (t : Txn) (r : CResult) (p : Plan) (h : plan s t r = some p) :
    (get s.accts t.sender).nonce + 1 = t.nonce ∧ t.value ≤ maxTokenSupply := by
  unfold plan at h
  by_cases h1 : t.value > maxTokenSupply
  · simp [h1] at h
  · by_cases h2 : (get s.accts t.sender).nonce + 1 ≠ t.nonce
    · simp [h1, h2] at h
    · exact ⟨by simpa using h2, by omega⟩

theorem applyWrites_append (s : Store) (a b : List Write) :
    applyWrites s (a ++ b) = applyWrites (applyWrites s a) b := by
  induction a generalizing s with
  | nil => rfl
  | cons w ws ih => cases w <;> simp [applyWrites, ih]

theorem opt_cases {α : Type} (o : Option α) : o = none ∨ ∃ a, o = some a := by
  cases o
  · exact Or.inl rfl
  · exact Or.inr ⟨_, rfl⟩

end ZChain.Ledger
