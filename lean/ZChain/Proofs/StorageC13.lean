import ZChain.Proofs.Storage
/-!
Helper lemmas for C13 (blobber `Allocated` and stake pool `TotalOffers` against the open allocations):
sums of a per-blobber-allocation measure (`size` or `offer`) over an allocation's entries and over all allocation
slots, and how every operation of the model moves both sides of the two equalities.
-/
namespace ZChain.Storage

attribute [local irreducible] offer

/-! ## sums -/

/-- sum of `m d` over the entries of blobber `i` -/
def baSum (m : BA → Nat) (i : Nat) : List BA → Nat
  | [] => 0
  | d :: ds => (if d.blobber = i then m d else 0) + baSum m i ds

def sumTo (f : Nat → Nat) : Nat → Nat
  | 0 => 0
  | n + 1 => sumTo f n + f n

def allocSum (m : BA → Nat) (i : Nat) : Option Alloc → Nat
  | some a => baSum m i a.bas
  | none => 0

/-- total of `m` for blobber `i` over the allocation slots `0 … n-1` -/
def totalF (m : BA → Nat) (allocs : Map Alloc) (n i : Nat) : Nat := sumTo (fun k => allocSum m i (allocs k)) n

def total (m : BA → Nat) (s : State) (i : Nat) : Nat := totalF m s.allocs s.nallocs i

theorem sumTo_congr {f g : Nat → Nat} {n : Nat} (h : ∀ k, k < n → f k = g k) : sumTo f n = sumTo g n := by
  induction n with
  | zero => rfl
  | succ n ih =>
    simp only [sumTo]
    rw [ih (fun k hk => h k (by omega)), h n (by omega)]

theorem sumTo_update {f g : Nat → Nat} {n k : Nat} (hk : k < n) (h : ∀ x, x ≠ k → g x = f x) :
    sumTo g n + f k = sumTo f n + g k := by
  induction n with
  | zero => omega
  | succ n ih =>
    simp only [sumTo]
    by_cases hkn : k = n
    · subst hkn
      have : sumTo g k = sumTo f k := sumTo_congr (fun x hx => h x (by omega))
      omega
    · have := ih (by omega)
      rw [h n (fun e => hkn e.symm)]
      omega

theorem totalF_set {m : BA → Nat} {allocs : Map Alloc} {n k i : Nat} (hk : k < n) (oa : Option Alloc) :
    totalF m (allocs.set k oa) n i + allocSum m i (allocs k) = totalF m allocs n i + allocSum m i oa := by
  unfold totalF
  have := sumTo_update (f := fun x => allocSum m i (allocs x)) (g := fun x => allocSum m i ((allocs.set k oa) x)) hk
    (fun x hx => by simp only [Map.set_other _ _ hx])
  simp only [Map.set_same] at this
  exact this

/-- allocation slots at or above `nallocs` are empty -/
def WF (s : State) : Prop := ∀ k, s.nallocs ≤ k → s.allocs k = none

theorem WF.lt {s : State} (w : WF s) {k : Nat} {a : Alloc} (h : s.allocs k = some a) : k < s.nallocs := by
  by_cases hk : k < s.nallocs
  · exact hk
  · rw [w k (by omega)] at h; cases h

theorem totalF_new {m : BA → Nat} {allocs : Map Alloc} {n i : Nat} (a : Alloc) :
    totalF m (allocs.set n (some a)) (n + 1) i = totalF m allocs n i + baSum m i a.bas := by
  unfold totalF
  simp only [sumTo, Map.set_same, allocSum]
  congr 1
  exact sumTo_congr (fun k hk => by rw [Map.set_other _ _ (by omega)])

theorem baSum_append (m : BA → Nat) (i : Nat) (l : List BA) (d : BA) :
    baSum m i (l ++ [d]) = baSum m i l + (if d.blobber = i then m d else 0) := by
  induction l with
  | nil => simp [baSum]
  | cons x xs ih => simp only [List.cons_append, baSum, ih]; omega

theorem findBA_blobber {bas : List BA} {r : Nat} {d : BA} (h : findBA bas r = some d) : d.blobber = r := by
  induction bas with
  | nil => simp [findBA] at h
  | cons x xs ih =>
    simp only [findBA] at h
    split at h
    · rename_i hx; cases h; exact hx
    · exact ih h

theorem baSum_setBA {m : BA → Nat} {i r : Nat} {bas : List BA} {d d' : BA} (h : findBA bas r = some d) :
    baSum m i (setBA bas r d') + (if d.blobber = i then m d else 0) = baSum m i bas + (if d'.blobber = i then m d' else 0) := by
  induction bas with
  | nil => simp [findBA] at h
  | cons x xs ih =>
    simp only [findBA] at h
    simp only [setBA]
    split at h
    · rename_i heq
      cases h
      simp only [heq, if_true, baSum]; omega
    · rename_i hne
      simp only [hne, if_false, baSum]
      have := ih h
      omega

/-- replacing an entry by one of the same blobber with the same measure does not change the sum -/
theorem baSum_setBA_same {m : BA → Nat} {i r : Nat} {bas : List BA} {d d' : BA} (h : findBA bas r = some d)
    (hb : d'.blobber = d.blobber) (hm : m d' = m d) : baSum m i (setBA bas r d') = baSum m i bas := by
  have := baSum_setBA (m := m) (i := i) (d' := d') h
  rw [hb, hm] at this
  omega

theorem findBA_le_baSum {m : BA → Nat} {bas : List BA} {r : Nat} {d : BA} (h : findBA bas r = some d) :
    m d ≤ baSum m r bas := by
  induction bas with
  | nil => simp [findBA] at h
  | cons x xs ih =>
    simp only [findBA] at h
    split at h
    · rename_i hx; cases h; simp only [baSum, hx, if_true]; omega
    · have := ih h; simp only [baSum]; omega

theorem mem_le_baSum {m : BA → Nat} {bas : List BA} {d : BA} (h : d ∈ bas) : m d ≤ baSum m d.blobber bas := by
  induction bas with
  | nil => cases h
  | cons x xs ih =>
    simp only [baSum]
    cases h with
    | head => simp
    | tail _ h' => have := ih h'; omega

theorem allocSum_le_total {m : BA → Nat} {s : State} (w : WF s) {k i : Nat} {a : Alloc} (h : s.allocs k = some a) :
    baSum m i a.bas ≤ total m s i := by
  have hk := w.lt h
  unfold total totalF
  have : ∀ n, k < n → allocSum m i (s.allocs k) ≤ sumTo (fun x => allocSum m i (s.allocs x)) n := by
    intro n
    induction n with
    | zero => intro h0; omega
    | succ n ih =>
      intro hlt
      simp only [sumTo]
      by_cases hkn : k = n
      · subst hkn; omega
      · have := ih (by omega); omega
  have := this _ hk
  rw [h] at this
  exact this


/-! ## the two equalities -/

/-- `Allocated` of every registered blobber is the sum of its sizes over the open allocations; an unregistered
blobber serves no open allocation -/
def InvAlloc (s : State) : Prop :=
  (∀ i b, s.blobbers i = some b → b.allocated = (total BA.size s i : Int)) ∧ (∀ i, s.blobbers i = none → total BA.size s i = 0)

/-- `TotalOffers` of every blobber stake pool is the sum of its offers over the open allocations -/
def InvOffers (s : State) : Prop :=
  (∀ i sp, s.sps i = some sp → sp.offers = total BA.offer s i) ∧ (∀ i, s.sps i = none → total BA.offer s i = 0)

def Inv13 (s : State) : Prop := WF s ∧ InvAlloc s ∧ InvOffers s

/-- nothing relevant to C13 changes: allocations, and every blobber's `allocated` / stake pool's `offers` -/
def Frame13 (s s' : State) : Prop :=
  s'.allocs = s.allocs ∧ s'.nallocs = s.nallocs ∧
  (∀ i, (s'.blobbers i).map (·.allocated) = (s.blobbers i).map (·.allocated)) ∧
  (∀ i, (s'.sps i).map (·.offers) = (s.sps i).map (·.offers))

theorem Frame13.refl (s : State) : Frame13 s s := ⟨rfl, rfl, fun _ => rfl, fun _ => rfl⟩

theorem Frame13.trans {a b c : State} (h1 : Frame13 a b) (h2 : Frame13 b c) : Frame13 a c :=
  ⟨h2.1.trans h1.1, h2.2.1.trans h1.2.1, fun i => (h2.2.2.1 i).trans (h1.2.2.1 i), fun i => (h2.2.2.2 i).trans (h1.2.2.2 i)⟩

theorem total_frame {m : BA → Nat} {s s' : State} (ha : s'.allocs = s.allocs) (hn : s'.nallocs = s.nallocs) (i : Nat) :
    total m s' i = total m s i := by
  unfold total; rw [ha, hn]

theorem inv13_frame {s s' : State} (f : Frame13 s s') (h : Inv13 s) : Inv13 s' := by
  obtain ⟨ha, hn, hb, ho⟩ := f
  obtain ⟨w, ⟨a1, a2⟩, ⟨o1, o2⟩⟩ := h
  refine ⟨?_, ⟨?_, ?_⟩, ⟨?_, ?_⟩⟩
  · intro k hk; rw [ha]; exact w k (by omega)
  · intro i b' hb'
    rw [total_frame ha hn]
    have := hb i
    rw [hb'] at this
    cases hs : s.blobbers i with
    | none => rw [hs] at this; simp at this
    | some b =>
      rw [hs] at this
      simp only [Option.map_some, Option.some.injEq] at this
      rw [this]; exact a1 i b hs
  · intro i hb'
    rw [total_frame ha hn]
    have := hb i
    rw [hb'] at this
    cases hs : s.blobbers i with
    | none => exact a2 i hs
    | some b => rw [hs] at this; simp at this
  · intro i sp' hsp'
    rw [total_frame ha hn]
    have := ho i
    rw [hsp'] at this
    cases hs : s.sps i with
    | none => rw [hs] at this; simp at this
    | some sp =>
      rw [hs] at this
      simp only [Option.map_some, Option.some.injEq] at this
      rw [this]; exact o1 i sp hs
  · intro i hsp'
    rw [total_frame ha hn]
    have := ho i
    rw [hsp'] at this
    cases hs : s.sps i with
    | none => exact o2 i hs
    | some sp => rw [hs] at this; simp at this

/-- closes `Frame13 s {s with …}` goals where maps are updated at one key with an entry keeping the relevant field -/
macro "frame13_close" : tactic =>
  `(tactic| (refine ⟨rfl, rfl, fun x => ?_, fun x => ?_⟩ <;>
             (first | rfl | (simp only [Map.set]; split <;> simp_all))))

theorem payIn_eq {s s' : State} {j v : Nat} (h : payIn s j v = .ok s') :
    s' = { s with clients := setFn s.clients j (s.clients j - v), wallet := s.wallet + v } := by
  unfold payIn at h; ok_branches h; rfl

theorem payOut_eq {s s' : State} {j v : Nat} (h : payOut s j v = .ok s') :
    s' = { s with clients := setFn s.clients j (s.clients j + v), wallet := s.wallet - v } := by
  unfold payOut at h; ok_branches h; rfl

/-- make the result of `payIn`/`payOut` hypotheses explicit -/
macro "subst_pay" : tactic =>
  `(tactic| (try (have e := payIn_eq ‹payIn _ _ _ = Except.ok _›; subst e)
             try (have e := payOut_eq ‹payOut _ _ _ = Except.ok _›; subst e)))

theorem payIn_frame13 {s s' : State} {j v : Nat} (h : payIn s j v = .ok s') : Frame13 s s' := by
  rw [payIn_eq h]; exact ⟨rfl, rfl, fun _ => rfl, fun _ => rfl⟩

theorem payOut_frame13 {s s' : State} {j v : Nat} (h : payOut s j v = .ok s') : Frame13 s s' := by
  rw [payOut_eq h]; exact ⟨rfl, rfl, fun _ => rfl, fun _ => rfl⟩

theorem addValidator_frame13 {s s' : State} {i : Nat} (h : addValidator s i = .ok s') : Frame13 s s' := by
  unfold addValidator at h; ok_branches h; exact Frame13.refl _

theorem stake_frame13 {s s' : State} {v : Bool} {i j amt : Nat} (h : stake s v i j amt = .ok s') : Frame13 s s' := by
  unfold stake at h; ok_branches h <;> subst_pay <;> frame13_close

theorem unstake_frame13 {s s' : State} {v : Bool} {i j amt rew : Nat} (h : unstake s v i j amt rew = .ok s') : Frame13 s s' := by
  unfold unstake at h; ok_branches h <;> subst_pay <;> frame13_close

theorem collect_frame13 {s s' : State} {v : Bool} {i j rew : Nat} (h : collect s v i j rew = .ok s') : Frame13 s s' := by
  unfold collect at h; ok_branches h <;> subst_pay <;> frame13_close

theorem updBlobber_frame13 {s s' : State} {i : Nat} {c p : Option Nat} (h : updBlobber s i c p = .ok s') : Frame13 s s' := by
  unfold updBlobber at h; ok_branches h; frame13_close

theorem killValidator_frame13 {s s' : State} {i n : Nat} {d : Bool} (h : killValidator s i n d = .ok s') : Frame13 s s' := by
  unfold killValidator at h; ok_branches h <;> frame13_close

theorem rpLock_frame13 {s s' : State} {j v : Nat} (h : rpLock s j v = .ok s') : Frame13 s s' := by
  unfold rpLock at h; ok_branches h; subst_pay; frame13_close

theorem rpUnlock_frame13 {s s' : State} {j v : Nat} (h : rpUnlock s j v = .ok s') : Frame13 s s' := by
  unfold rpUnlock at h; ok_branches h; subst_pay; frame13_close

theorem readRedeem_frame13 {s s' : State} {k i j p : Nat} (h : readRedeem s k i j p = .ok s') : Frame13 s s' := by
  unfold readRedeem at h; ok_branches h
  rename_i sp hsp _
  refine ⟨rfl, rfl, fun _ => rfl, fun x => ?_⟩
  show ((s.sps.set i _) x).map (·.offers) = _
  by_cases hx : x = i
  · subst hx; rw [Map.set_same, hsp]; rfl
  · rw [Map.set_other _ _ hx]


/-! ## the generic step: both sides of each equality move by the same amount -/

theorem inv13_delta {s s' : State} (w' : WF s')
    (hA : ∀ i, ∃ p q : Nat, total BA.size s' i + q = total BA.size s i + p ∧
        (s'.blobbers i).map (·.allocated) = (s.blobbers i).map (fun b => b.allocated + (p : Int) - (q : Int)) ∧
        (s.blobbers i = none → p = 0 ∧ q = 0))
    (hO : ∀ i, ∃ p q : Nat, total BA.offer s' i + q = total BA.offer s i + p ∧
        (s'.sps i).map (fun sp => sp.offers + q) = (s.sps i).map (fun sp => sp.offers + p) ∧
        (s.sps i = none → p = 0 ∧ q = 0))
    (h : Inv13 s) : Inv13 s' := by
  obtain ⟨_, ⟨a1, a2⟩, ⟨o1, o2⟩⟩ := h
  refine ⟨w', ⟨?_, ?_⟩, ⟨?_, ?_⟩⟩
  · intro i b' hb'
    obtain ⟨p, q, ht, hv, _⟩ := hA i
    rw [hb'] at hv
    cases hs : s.blobbers i with
    | none => rw [hs] at hv; simp at hv
    | some b =>
      rw [hs] at hv
      simp only [Option.map_some, Option.some.injEq] at hv
      have := a1 i b hs
      omega
  · intro i hb'
    obtain ⟨p, q, ht, hv, hz⟩ := hA i
    rw [hb'] at hv
    cases hs : s.blobbers i with
    | none =>
      have := a2 i hs
      have := hz hs
      omega
    | some b => rw [hs] at hv; simp at hv
  · intro i sp' hsp'
    obtain ⟨p, q, ht, hv, _⟩ := hO i
    rw [hsp'] at hv
    cases hs : s.sps i with
    | none => rw [hs] at hv; simp at hv
    | some sp =>
      rw [hs] at hv
      simp only [Option.map_some, Option.some.injEq] at hv
      have := o1 i sp hs
      omega
  · intro i hsp'
    obtain ⟨p, q, ht, hv, hz⟩ := hO i
    rw [hsp'] at hv
    cases hs : s.sps i with
    | none =>
      have := o2 i hs
      have := hz hs
      omega
    | some sp => rw [hs] at hv; simp at hv

/-- WF is kept by anything that leaves `nallocs` and writes only existing slots -/
theorem wf_set {s s' : State} (w : WF s) {k : Nat} {oa : Option Alloc} (hk : k < s.nallocs)
    (ha : s'.allocs = s.allocs.set k oa) (hn : s'.nallocs = s.nallocs) : WF s' := by
  intro x hx
  rw [ha, Map.set_other _ _ (by omega)]
  exact w x (by omega)

theorem total_set {m : BA → Nat} {s s' : State} {k : Nat} (hk : k < s.nallocs) {oa : Option Alloc}
    (ha : s'.allocs = s.allocs.set k oa) (hn : s'.nallocs = s.nallocs) (i : Nat) :
    total m s' i + allocSum m i (s.allocs k) = total m s i + allocSum m i oa := by
  unfold total; rw [ha, hn]; exact totalF_set hk oa

/-- the allocation node is rewritten without changing any size, price or blobber id; blobbers' `allocated` and stake
pools' `offers` untouched -/
theorem inv13_setAlloc_same {s s' : State} {k : Nat} {a a' : Alloc} (h : Inv13 s)
    (h0 : s.allocs k = some a) (ha : s'.allocs = s.allocs.set k (some a')) (hn : s'.nallocs = s.nallocs)
    (hs : ∀ (m : BA → Nat) i, (m = BA.size ∨ m = BA.offer) → baSum m i a'.bas = baSum m i a.bas)
    (hb : ∀ i, (s'.blobbers i).map (·.allocated) = (s.blobbers i).map (·.allocated))
    (ho : ∀ i, (s'.sps i).map (·.offers) = (s.sps i).map (·.offers)) : Inv13 s' := by
  have hk := h.1.lt h0
  refine inv13_delta (wf_set h.1 hk ha hn) (fun i => ⟨0, 0, ?_, ?_, fun _ => ⟨rfl, rfl⟩⟩) (fun i => ⟨0, 0, ?_, ?_, fun _ => ⟨rfl, rfl⟩⟩) h
  · have := total_set (m := BA.size) hk ha hn i
    rw [h0] at this; simp only [allocSum] at this
    rw [hs BA.size i (Or.inl rfl)] at this; omega
  · rw [hb i]; congr 1; funext b; omega
  · have := total_set (m := BA.offer) hk ha hn i
    rw [h0] at this; simp only [allocSum] at this
    rw [hs BA.offer i (Or.inr rfl)] at this; omega
  · simp only [Nat.add_zero]; rw [ho i]


/-! ## operations that rewrite one allocation without touching sizes, prices or membership -/

/-- closes `∀ i, (maps.set j (some x) i).map f = (maps i).map f` goals (entry rewritten with the same field) -/
macro "view_close" : tactic =>
  `(tactic| (intro x; first | rfl | (simp only [Map.set]; split <;> simp_all)))

theorem wpLock_inv13 {s s' : State} {k j v : Nat} (h : wpLock s k j v = .ok s') (hi : Inv13 s) : Inv13 s' := by
  unfold wpLock at h
  split at h
  · cases h
  · rename_i a ha
    ok_branches h; subst_pay
    exact inv13_setAlloc_same (a := a) hi ha rfl rfl (fun _ _ _ => rfl) (fun _ => rfl) (fun _ => rfl)

theorem updLock_inv13 {s s' : State} {k j v : Nat} (h : updLock s k j v = .ok s') (hi : Inv13 s) : Inv13 s' := by
  unfold updLock at h
  split at h
  · cases h
  · rename_i a ha
    ok_branches h; subst_pay
    exact inv13_setAlloc_same (a := a) hi ha rfl rfl (fun _ _ _ => rfl) (fun _ => rfl) (fun _ => rfl)

theorem commit_inv13 {s s' : State} {k i : Nat} {size : Int} {move : Nat} (h : commit s k i size move = .ok s')
    (hi : Inv13 s) : Inv13 s' := by
  unfold commit at h
  split at h
  · cases h
  · rename_i a ha
    split at h
    · rename_i cp b d hcp hb hd
      have same : ∀ (d' : BA), d'.blobber = d.blobber → d'.size = d.size → d'.price = d.price →
          ∀ (m : BA → Nat) x, (m = BA.size ∨ m = BA.offer) → baSum m x (setBA a.bas i d') = baSum m x a.bas := by
        intro d' h1 h2 h3 m x hm
        apply baSum_setBA_same hd h1
        rcases hm with rfl | rfl
        · exact h2
        · simp only [BA.offer, h2, h3]
      ok_branches h
      · exact inv13_setAlloc_same (a := a) hi ha rfl rfl (same _ rfl rfl rfl) (by view_close) (fun _ => rfl)
      · exact inv13_setAlloc_same (a := a) hi ha rfl rfl (same _ rfl rfl rfl) (by view_close) (fun _ => rfl)
      · exact inv13_setAlloc_same (a := a) hi ha rfl rfl (same _ rfl rfl rfl) (fun _ => rfl) (fun _ => rfl)
    · cases h

theorem respPass_inv13 {s s' : State} {k i D m V dp : Nat} {cr : List (Nat × Nat)}
    (h : respPass s k i D m V dp cr = .ok s') (hi : Inv13 s) : Inv13 s' := by
  unfold respPass at h
  split at h
  · cases h
  · rename_i a ha
    split at h
    · rename_i cp sp d hcp hsp hd
      ok_branches h
      refine inv13_setAlloc_same (a := a) hi ha rfl rfl ?_ (fun _ => rfl) (by view_close)
      intro mm x hm
      refine baSum_setBA_same (d' := { d with cv := d.cv - D }) hd rfl ?_
      rcases hm with rfl | rfl
      · rfl
      · rfl
    · cases h


/-! ## list phases: assignAll, extendAll, closeBlobbers -/

/-- number of entries of blobber `i` -/
def cnt (i : Nat) : List BA → Nat
  | [] => 0
  | d :: ds => (if d.blobber = i then 1 else 0) + cnt i ds

theorem baSum_of_cnt_zero {m : BA → Nat} {i : Nat} {l : List BA} (h : cnt i l = 0) : baSum m i l = 0 := by
  induction l with
  | nil => rfl
  | cons d ds ih =>
    simp only [cnt] at h
    simp only [baSum]
    split
    · rename_i hd; simp [hd] at h
    · rename_i hd; simp only [hd, if_false, Nat.zero_add] at h; simp [ih h]

theorem map_set_view {α β : Type} (m : Map α) (j : Nat) (v : α) (f : α → β) (x : Nat) :
    ((m.set j (some v)) x).map f = if x = j then some (f v) else (m x).map f := by
  simp only [Map.set]; split <;> rfl


theorem assign_effect {bs : Nat} {s s' : State} {j : Nat} {ba : BA} (h : assign bs s j = .ok (s', ba)) :
    s'.allocs = s.allocs ∧ s'.nallocs = s.nallocs ∧ ba.blobber = j ∧ ba.size = bs ∧
    (∃ b, s.blobbers j = some b ∧ ba.price = b.price ∧ b.allocated + (bs : Int) ≤ (b.cap : Int) ∧ b.dead = false ∧
      s'.blobbers = s.blobbers.set j (some { b with allocated := b.allocated + bs })) ∧
    (∃ sp, s.sps j = some sp ∧ s'.sps = s.sps.set j (some { sp with offers := sp.offers + ba.offer })) := by
  unfold assign at h
  split at h
  · rename_i b sp hb hsp
    ok_branches h
    rename_i hd hc
    refine ⟨rfl, rfl, rfl, rfl, ⟨b, hb, rfl, by omega, by simpa using hd, rfl⟩, ⟨sp, hsp, rfl⟩⟩
  · cases h

theorem assignAll_effect {bs : Nat} {l : List Nat} : ∀ {s s' : State} {bas : List BA},
    assignAll bs s l = .ok (s', bas) →
    s'.allocs = s.allocs ∧ s'.nallocs = s.nallocs ∧
    (∀ i, (s'.blobbers i).map (·.allocated) = (s.blobbers i).map (fun b => b.allocated + ((baSum BA.size i bas : Nat) : Int))) ∧
    (∀ i, (s'.sps i).map (·.offers) = (s.sps i).map (fun sp => sp.offers + baSum BA.offer i bas)) ∧
    (∀ i, s.blobbers i = none → cnt i bas = 0) ∧ (∀ i, s.sps i = none → cnt i bas = 0) := by
  induction l with
  | nil =>
    intro s s' bas h
    simp only [assignAll] at h; cases h
    refine ⟨rfl, rfl, fun i => ?_, fun i => ?_, fun _ _ => rfl, fun _ _ => rfl⟩
    · simp only [baSum]; cases s.blobbers i <;> simp
    · simp only [baSum]; cases s.sps i <;> simp
  | cons j js ih =>
    intro s s' bas h
    simp only [assignAll] at h
    split at h
    · cases h
    · rename_i s1 ba h1
      split at h
      · cases h
      · rename_i s2 bas2 h2
        cases h
        obtain ⟨e1, e2, ej, ebs, ⟨b, hb, _, _, _, eb⟩, ⟨sp, hsp, esp⟩⟩ := assign_effect h1
        obtain ⟨f1, f2, fb, fo, fn1, fn2⟩ := ih h2
        refine ⟨f1.trans e1, f2.trans e2, fun i => ?_, fun i => ?_, fun i hn => ?_, fun i hn => ?_⟩
        · rw [fb i, eb]
          by_cases hi : i = j
          · subst hi
            simp only [Map.set_same, hb, Option.map_some, baSum, ej, if_true, ebs]
            congr 1; omega
          · have hji : ¬ ba.blobber = i := by rw [ej]; exact fun e => hi e.symm
            simp only [Map.set_other _ _ hi, baSum, hji, if_false, Nat.zero_add]
        · rw [fo i, esp]
          by_cases hi : i = j
          · subst hi
            simp only [Map.set_same, hsp, Option.map_some, baSum, ej, if_true]
            congr 1; omega
          · have hji : ¬ ba.blobber = i := by rw [ej]; exact fun e => hi e.symm
            simp only [Map.set_other _ _ hi, baSum, hji, if_false, Nat.zero_add]
        · have hij : ¬ i = j := by intro e; subst e; rw [hb] at hn; cases hn
          have hji : ¬ ba.blobber = i := by rw [ej]; exact fun e => hij e.symm
          simp only [cnt, hji, if_false, Nat.zero_add]
          apply fn1; rw [eb, Map.set_other _ _ hij]; exact hn
        · have hij : ¬ i = j := by intro e; subst e; rw [hsp] at hn; cases hn
          have hji : ¬ ba.blobber = i := by rw [ej]; exact fun e => hij e.symm
          simp only [cnt, hji, if_false, Nat.zero_add]
          apply fn2; rw [esp, Map.set_other _ _ hij]; exact hn

theorem newAlloc_inv13 {s s' : State} {j data size value : Nat} {chosen : List Nat}
    (h : newAlloc s j data size value chosen = .ok s') (hi : Inv13 s) : Inv13 s' := by
  unfold newAlloc at h
  split at h
  · cases h
  · split at h
    · cases h
    · rename_i s1 bas h1
      split at h
      · cases h
      · rename_i s2 h2
        cases h
        have e := payIn_eq h2; subst e
        obtain ⟨f1, f2, fb, fo, fn1, fn2⟩ := assignAll_effect h1
        have w := hi.1
        have tot : ∀ (m : BA → Nat) i, total m
            { s1 with clients := setFn s1.clients j (s1.clients j - value), wallet := s1.wallet + value,
                      nallocs := s1.nallocs + 1,
                      allocs := s1.allocs.set s1.nallocs (some ⟨j, s.now + TU, value, 0, 0, size, data, bas⟩),
                      cps := s1.cps.set s1.nallocs (some 0) } i = total m s i + baSum m i bas := by
          intro m i
          unfold total
          simp only
          rw [totalF_new, f1, f2]
        refine inv13_delta ?_ (fun i => ⟨baSum BA.size i bas, 0, ?_, ?_, fun hn => ⟨baSum_of_cnt_zero (fn1 i hn), rfl⟩⟩)
          (fun i => ⟨baSum BA.offer i bas, 0, ?_, ?_, fun hn => ⟨baSum_of_cnt_zero (fn2 i hn), rfl⟩⟩) hi
        · intro k hk
          simp only at hk ⊢
          rw [Map.set_other _ _ (by omega), f1]
          exact w k (by omega)
        · rw [tot]; omega
        · simp only; rw [fb i]; congr 1; funext b; omega
        · rw [tot]; omega
        · simp only [Nat.add_zero]; rw [fo i]

theorem addBlobber_inv13 {s s' : State} {i c p : Nat} (h : addBlobber s i c p = .ok s') (hi : Inv13 s) : Inv13 s' := by
  unfold addBlobber at h
  split at h
  · rename_i hb hsp
    cases h
    obtain ⟨w, ⟨a1, a2⟩, ⟨o1, o2⟩⟩ := hi
    refine ⟨w, ⟨?_, ?_⟩, ⟨?_, ?_⟩⟩
    · intro x b' hb'
      simp only at hb'
      show b'.allocated = ((total BA.size s x : Nat) : Int)
      by_cases hx : x = i
      · subst hx
        rw [Map.set_same] at hb'; cases hb'
        simp [a2 x hb]
      · rw [Map.set_other _ _ hx] at hb'; exact a1 x b' hb'
    · intro x hb'
      simp only at hb'
      show total BA.size s x = 0
      by_cases hx : x = i
      · subst hx; rw [Map.set_same] at hb'; cases hb'
      · rw [Map.set_other _ _ hx] at hb'; exact a2 x hb'
    · intro x sp' hsp'
      simp only at hsp'
      show sp'.offers = total BA.offer s x
      by_cases hx : x = i
      · subst hx
        rw [Map.set_same] at hsp'; cases hsp'
        simp [o2 x hsp]
      · rw [Map.set_other _ _ hx] at hsp'; exact o1 x sp' hsp'
    · intro x hsp'
      simp only at hsp'
      show total BA.offer s x = 0
      by_cases hx : x = i
      · subst hx; rw [Map.set_same] at hsp'; cases hsp'
      · rw [Map.set_other _ _ hx] at hsp'; exact o2 x hsp'
  · cases h

/-- first kill / shutdown of a live blobber that is not deleted: only flags and stake change -/
theorem killBlobber_frame13 {s s' : State} {i n : Nat} (h : killBlobber s i n false = .ok s') (hl : isDead s i = false) :
    Frame13 s s' := by
  unfold killBlobber at h
  split at h
  · rename_i b sp hb hsp
    have hd : ¬ b.dead = true := by simpa [isDead, hb] using hl
    rw [if_neg hd] at h
    ok_branches h
    all_goals (try contradiction)
    refine ⟨rfl, rfl, fun x => ?_, fun x => ?_⟩
    · simp only [map_set_view]; split
      · rename_i hx; subst hx; simp [hb]
      · rfl
    · simp only [map_set_view]; split
      · rename_i hx; subst hx; simp [hsp]
      · rfl
  · cases h

theorem shutBlobber_frame13 {s s' : State} {i n : Nat} (h : shutBlobber s i n false = .ok s') (hl : isDead s i = false) :
    Frame13 s s' := by
  unfold shutBlobber at h
  split at h
  · rename_i b sp hb hsp
    have hd : ¬ b.dead = true := by simpa [isDead, hb] using hl
    rw [if_neg hd] at h
    ok_branches h
    all_goals (try contradiction)
    refine ⟨rfl, rfl, fun x => ?_, fun x => ?_⟩
    · simp only [map_set_view]; split
      · rename_i hx; subst hx; simp [hb]
      · rfl
    · simp only [map_set_view]; split
      · rename_i hx; subst hx; simp [hsp]
      · rfl
  · cases h

/-- one allocation slot is rewritten; for every blobber both sides of each equality move by the same amount -/
theorem inv13_set_delta {s s' : State} {k : Nat} {oa' : Option Alloc} (hk : k < s.nallocs)
    (hal : s'.allocs = s.allocs.set k oa') (hn : s'.nallocs = s.nallocs)
    (hA : ∀ i, ∃ p q : Nat, allocSum BA.size i oa' + q = allocSum BA.size i (s.allocs k) + p ∧
        (s'.blobbers i).map (·.allocated) = (s.blobbers i).map (fun b => b.allocated + (p : Int) - (q : Int)) ∧
        (s.blobbers i = none → p = 0 ∧ q = 0))
    (hO : ∀ i, ∃ p q : Nat, allocSum BA.offer i oa' + q = allocSum BA.offer i (s.allocs k) + p ∧
        (s'.sps i).map (fun sp => sp.offers + q) = (s.sps i).map (fun sp => sp.offers + p) ∧
        (s.sps i = none → p = 0 ∧ q = 0))
    (h : Inv13 s) : Inv13 s' := by
  refine inv13_delta (wf_set h.1 hk hal hn) (fun i => ?_) (fun i => ?_) h
  · obtain ⟨p, q, e, v, z⟩ := hA i
    have := total_set (m := BA.size) hk hal hn i
    exact ⟨p, q, by omega, v, z⟩
  · obtain ⟨p, q, e, v, z⟩ := hO i
    have := total_set (m := BA.offer) hk hal hn i
    exact ⟨p, q, by omega, v, z⟩

/-- views of a map updated at one key -/
theorem view_set_same {α β : Type} (m : Map α) (j : Nat) (v : α) (f : α → β) : ((m.set j (some v)) j).map f = some (f v) := by
  rw [Map.set_same]; rfl

theorem view_set_other {α β : Type} (m : Map α) {j x : Nat} (v : Option α) (f : α → β) (h : x ≠ j) :
    ((m.set j v) x).map f = (m x).map f := by
  rw [Map.set_other _ _ h]

theorem map_id_int (o : Option Blobber) : o.map (fun b => b.allocated + ((0 : Nat) : Int) - ((0 : Nat) : Int)) = o.map (·.allocated) := by
  cases o <;> simp

/-- add one blobber allocation to allocation `k` (changeBlobbers without removal) -/
theorem inv13_add_core {s s' : State} {k ai : Nat} {a a' : Alloc} {ba : BA} {nb nb' : Blobber} {spa spa' : SP}
    (h : Inv13 s) (ha : s.allocs k = some a) (hal : s'.allocs = s.allocs.set k (some a')) (hn : s'.nallocs = s.nallocs)
    (hbas : a'.bas = a.bas ++ [ba]) (hba : ba.blobber = ai)
    (hnb : s.blobbers ai = some nb) (hbl : s'.blobbers = s.blobbers.set ai (some nb')) (hnb' : nb'.allocated = nb.allocated + ba.size)
    (hspa : s.sps ai = some spa) (hsp : s'.sps = s.sps.set ai (some spa')) (hspa' : spa'.offers = spa.offers + ba.offer) :
    Inv13 s' := by
  have hk := h.1.lt ha
  refine inv13_set_delta hk hal hn (fun i => ?_) (fun i => ?_) h
  · by_cases hx : i = ai
    · subst hx
      refine ⟨ba.size, 0, ?_, ?_, fun hn => by rw [hnb] at hn; cases hn⟩
      · rw [ha]; simp only [allocSum, hbas, baSum_append, hba, if_true]; omega
      · rw [hbl, view_set_same, hnb]; simp only [Option.map_some] <;> (congr 1 <;> omega)
    · refine ⟨0, 0, ?_, ?_, fun _ => ⟨rfl, rfl⟩⟩
      · have : ¬ ba.blobber = i := by rw [hba]; exact fun e => hx e.symm
        rw [ha]; simp only [allocSum, hbas, baSum_append, this, if_false]
      · rw [hbl, view_set_other _ _ _ hx, map_id_int]
  · by_cases hx : i = ai
    · subst hx
      refine ⟨ba.offer, 0, ?_, ?_, fun hn => by rw [hspa] at hn; cases hn⟩
      · rw [ha]; simp only [allocSum, hbas, baSum_append, hba, if_true]; omega
      · rw [hsp, view_set_same, hspa]; simp only [Option.map_some] <;> (congr 1 <;> omega)
    · refine ⟨0, 0, ?_, ?_, fun _ => ⟨rfl, rfl⟩⟩
      · have : ¬ ba.blobber = i := by rw [hba]; exact fun e => hx e.symm
        rw [ha]; simp only [allocSum, hbas, baSum_append, this, if_false]
      · rw [hsp, view_set_other _ _ _ hx]

theorem updAdd_inv13 {s s' : State} {k ai : Nat} (h : updAdd s k ai = .ok s') (hi : Inv13 s) : Inv13 s' := by
  unfold updAdd at h
  split at h
  · rename_i a nb spa ha hnb hspa
    ok_branches h
    exact inv13_add_core hi ha rfl rfl rfl rfl hnb rfl rfl hspa rfl rfl
  · cases h

/-- replace the blobber allocation of a live blobber `ri` by one of blobber `ai` -/
theorem inv13_replace_core {s s' : State} {k ai ri : Nat} {a a' : Alloc} {d ba : BA} {nb nb' rb rb' : Blobber} {spa spa' spr spr' : SP}
    (h : Inv13 s) (ha : s.allocs k = some a) (hal : s'.allocs = s.allocs.set k (some a')) (hn : s'.nallocs = s.nallocs)
    (hd : findBA a.bas ri = some d) (hbas : a'.bas = setBA a.bas ri ba) (hba : ba.blobber = ai) (hne : ai ≠ ri)
    (hnb : s.blobbers ai = some nb) (hrb : s.blobbers ri = some rb)
    (hbl : s'.blobbers = (s.blobbers.set ri (some rb')).set ai (some nb'))
    (hnb' : nb'.allocated = nb.allocated + ba.size) (hrb' : rb'.allocated = rb.allocated - d.size)
    (hspa : s.sps ai = some spa) (hspr : s.sps ri = some spr)
    (hsp : s'.sps = (s.sps.set ri (some spr')).set ai (some spa'))
    (hspa' : spa'.offers = spa.offers + ba.offer) (hspr' : spr'.offers + d.offer = spr.offers) :
    Inv13 s' := by
  have hk := h.1.lt ha
  have hdb := findBA_blobber hd
  have key := fun (m : BA → Nat) i => baSum_setBA (m := m) (i := i) (d' := ba) hd
  refine inv13_set_delta hk hal hn (fun i => ?_) (fun i => ?_) h
  · by_cases hx : i = ai
    · subst hx
      refine ⟨ba.size, 0, ?_, ?_, fun hn => by rw [hnb] at hn; cases hn⟩
      · have := key BA.size i
        have h1 : ¬ d.blobber = i := by rw [hdb]; exact fun e => hne e.symm
        rw [ha]; simp only [allocSum, hbas]
        simp only [h1, hba, if_true, if_false] at this; omega
      · rw [hbl, view_set_same, hnb]; simp only [Option.map_some] <;> (congr 1 <;> omega)
    · by_cases hy : i = ri
      · subst hy
        refine ⟨0, d.size, ?_, ?_, fun hn => by rw [hrb] at hn; cases hn⟩
        · have := key BA.size i
          have h1 : ¬ ba.blobber = i := by rw [hba]; exact hne
          rw [ha]; simp only [allocSum, hbas]
          simp only [h1, hdb, if_true, if_false] at this; omega
        · rw [hbl, view_set_other _ _ _ hx, view_set_same, hrb]; simp only [Option.map_some] <;> (congr 1 <;> omega)
      · refine ⟨0, 0, ?_, ?_, fun _ => ⟨rfl, rfl⟩⟩
        · have := key BA.size i
          have h1 : ¬ ba.blobber = i := by rw [hba]; exact fun e => hx e.symm
          have h2 : ¬ d.blobber = i := by rw [hdb]; exact fun e => hy e.symm
          rw [ha]; simp only [allocSum, hbas]
          simp only [h1, h2, if_false] at this; omega
        · rw [hbl, view_set_other _ _ _ hx, view_set_other _ _ _ hy, map_id_int]
  · by_cases hx : i = ai
    · subst hx
      refine ⟨ba.offer, 0, ?_, ?_, fun hn => by rw [hspa] at hn; cases hn⟩
      · have := key BA.offer i
        have h1 : ¬ d.blobber = i := by rw [hdb]; exact fun e => hne e.symm
        rw [ha]; simp only [allocSum, hbas]
        simp only [h1, hba, if_true, if_false] at this; omega
      · rw [hsp, view_set_same, hspa]; simp only [Option.map_some] <;> (congr 1 <;> omega)
    · by_cases hy : i = ri
      · subst hy
        refine ⟨0, d.offer, ?_, ?_, fun hn => by rw [hspr] at hn; cases hn⟩
        · have := key BA.offer i
          have h1 : ¬ ba.blobber = i := by rw [hba]; exact hne
          rw [ha]; simp only [allocSum, hbas]
          simp only [h1, hdb, if_true, if_false] at this; omega
        · rw [hsp, view_set_other _ _ _ hx, view_set_same, hspr]; simp only [Option.map_some] <;> (congr 1 <;> omega)
      · refine ⟨0, 0, ?_, ?_, fun _ => ⟨rfl, rfl⟩⟩
        · have := key BA.offer i
          have h1 : ¬ ba.blobber = i := by rw [hba]; exact fun e => hx e.symm
          have h2 : ¬ d.blobber = i := by rw [hdb]; exact fun e => hy e.symm
          rw [ha]; simp only [allocSum, hbas]
          simp only [h1, h2, if_false] at this; omega
        · rw [hsp, view_set_other _ _ _ hx, view_set_other _ _ _ hy]

theorem updReplaceAlive_inv13 {s s' : State} {k ai ri rw cc dp : Nat}
    (h : updReplaceAlive s k ai ri rw cc dp = .ok s') (hi : Inv13 s) : Inv13 s' := by
  unfold updReplaceAlive at h
  split at h
  · rename_i a cp nb spa rb spr ha hcp hnb hspa hrb hspr
    split at h
    · cases h
    · rename_i d hd
      ok_branches h
      rename_i _ hne _ hoff _ _
      have hne' : ai ≠ ri := fun e => hne (Or.inl e)
      refine inv13_replace_core (d := d) hi ha rfl rfl hd rfl rfl hne' hnb hrb rfl rfl rfl hspa hspr rfl rfl ?_
      simp only; omega
  · cases h

theorem closeBlobbers_effect : ∀ {l : List BA} {per : List (Nat × Nat)} {s s' : State},
    closeBlobbers s l per = some s' →
    s'.allocs = s.allocs ∧ s'.nallocs = s.nallocs ∧
    (∀ i, (s'.blobbers i).map (·.allocated) = (s.blobbers i).map (fun b => b.allocated - ((baSum BA.size i l : Nat) : Int))) ∧
    (∀ i, (s'.sps i).map (fun sp => sp.offers + baSum BA.offer i l) = (s.sps i).map (·.offers)) ∧
    (∀ i, s.blobbers i = none → cnt i l = 0) ∧ (∀ i, s.sps i = none → cnt i l = 0) := by
  intro l
  induction l with
  | nil =>
    intro per s s' h
    cases per with
    | nil =>
      simp only [closeBlobbers] at h; cases h
      refine ⟨rfl, rfl, fun i => ?_, fun i => ?_, fun _ _ => rfl, fun _ _ => rfl⟩
      · cases s.blobbers i <;> simp [baSum]
      · cases s.sps i <;> simp [baSum]
    | cons p ps => simp [closeBlobbers] at h
  | cons d ds ih =>
    intro per s s' h
    cases per with
    | nil => simp [closeBlobbers] at h
    | cons p ps =>
      obtain ⟨dp, cr⟩ := p
      simp only [closeBlobbers] at h
      split at h
      · rename_i b sp hb hsp
        split at h
        · cases h
        · rename_i hg
          split at h
          · cases h
          · obtain ⟨e1, e2, eb, eo, en1, en2⟩ := ih h
            have hoff : d.offer ≤ sp.offers := by omega
            refine ⟨e1, e2, fun i => ?_, fun i => ?_, fun i hn => ?_, fun i hn => ?_⟩
            · rw [eb i]
              by_cases hi : i = d.blobber
              · subst hi
                rw [view_set_same, hb]
                simp only [Option.map_some, baSum, if_true]
                congr 1; omega
              · have hdi : ¬ d.blobber = i := fun e => hi e.symm
                rw [view_set_other _ _ _ hi]
                simp only [baSum, hdi, if_false, Nat.zero_add]
            · have := eo i
              by_cases hi : i = d.blobber
              · subst hi
                rw [view_set_same] at this
                rw [hsp]
                cases hs' : s'.sps d.blobber with
                | none => rw [hs'] at this; cases this
                | some sp' =>
                  rw [hs'] at this
                  simp only [Option.map_some, Option.some.injEq, baSum, if_true] at this ⊢
                  omega
              · have hdi : ¬ d.blobber = i := fun e => hi e.symm
                rw [view_set_other _ _ _ hi] at this
                simp only [baSum, hdi, if_false, Nat.zero_add]
                exact this
            · have hij : ¬ i = d.blobber := by intro e; subst e; rw [hb] at hn; cases hn
              have hdi : ¬ d.blobber = i := fun e => hij e.symm
              simp only [cnt, hdi, if_false, Nat.zero_add]
              apply en1; simp only [Map.set_other _ _ hij]; exact hn
            · have hij : ¬ i = d.blobber := by intro e; subst e; rw [hsp] at hn; cases hn
              have hdi : ¬ d.blobber = i := fun e => hij e.symm
              simp only [cnt, hdi, if_false, Nat.zero_add]
              apply en2; simp only [Map.set_other _ _ hij]; exact hn
      · cases h

theorem close_inv13 {s s' : State} {fin : Bool} {k : Nat} {c : Caller} {X : Nat} {per : List (Nat × Nat)}
    {rates : List (Nat × Nat × Nat)} (h : close s fin k c X per rates = .ok s') (hi : Inv13 s) : Inv13 s' := by
  unfold close at h
  split at h
  · cases h
  · rename_i a ha
    have hk := hi.1.lt ha
    simp only at h
    repeat' (split at h)
    all_goals (first | (cases h; done) | skip)
    all_goals
      cases h
      subst_pay
      obtain ⟨e1, e2, eb, eo, en1, en2⟩ := closeBlobbers_effect ‹closeBlobbers _ _ _ = some _›
      refine inv13_set_delta (oa' := none) hk (by simp only; rw [e1]) (by simp only; exact e2) (fun i => ?_) (fun i => ?_) hi
      · refine ⟨0, baSum BA.size i a.bas, ?_, ?_, fun hn => ⟨rfl, baSum_of_cnt_zero (en1 i hn)⟩⟩
        · rw [ha]; simp only [allocSum]; omega
        · simp only; rw [eb i]; congr 1; funext b; omega
      · refine ⟨0, baSum BA.offer i a.bas, ?_, ?_, fun hn => ⟨rfl, baSum_of_cnt_zero (en2 i hn)⟩⟩
        · rw [ha]; simp only [allocSum]; omega
        · simp only [Nat.add_zero]; exact eo i

theorem extendOne_effect {s s' : State} {g : Bool} {diff ns : Nat} {d d' : BA}
    (h : extendOne s g diff ns d = .ok (s', d')) :
    s'.allocs = s.allocs ∧ s'.nallocs = s.nallocs ∧ d'.blobber = d.blobber ∧ d'.size = ns ∧
    ∃ b sp, s.blobbers d.blobber = some b ∧ s.sps d.blobber = some sp ∧
      s'.blobbers = s.blobbers.set d.blobber (some { b with allocated := if g then b.allocated + diff else b.allocated }) ∧
      s'.sps = s.sps.set d.blobber (some { sp with offers := sp.offers + d'.offer - d.offer }) ∧
      d.offer ≤ sp.offers + d'.offer ∧ (g = true → b.allocated + (diff : Int) ≤ (b.cap : Int) ∧ b.dead = false) := by
  unfold extendOne at h
  split at h
  · rename_i b sp hb hsp
    split at h
    · cases h
    · split at h
      · cases h
      · rename_i hg
        dsimp only at h
        split at h
        · cases h
        · rename_i ho
          cases h
          refine ⟨rfl, rfl, rfl, rfl, b, sp, hb, hsp, rfl, rfl, by omega, fun hgt => ?_⟩
          subst hgt
          simp only [Bool.true_and, Bool.or_eq_true, decide_eq_true_eq, not_or, Bool.not_eq_true] at hg
          exact ⟨by omega, hg.1⟩
  · cases h

theorem extendAll_effect {g : Bool} {diff ns : Nat} {l : List BA} : ∀ {s s' : State} {l' : List BA},
    extendAll g diff ns s l = .ok (s', l') →
    s'.allocs = s.allocs ∧ s'.nallocs = s.nallocs ∧
    (∀ i, (s'.blobbers i).map (·.allocated) = (s.blobbers i).map (fun b => b.allocated + (((if g then diff else 0) * cnt i l : Nat) : Int))) ∧
    (∀ i, (s'.sps i).map (fun sp => sp.offers + baSum BA.offer i l) = (s.sps i).map (fun sp => sp.offers + baSum BA.offer i l')) ∧
    (∀ i, baSum BA.size i l' = ns * cnt i l) ∧
    (∀ i, s.blobbers i = none → cnt i l = 0) ∧ (∀ i, s.sps i = none → cnt i l = 0) ∧ (∀ i, cnt i l' = cnt i l) := by
  induction l with
  | nil =>
    intro s s' l' h
    simp only [extendAll] at h; cases h
    refine ⟨rfl, rfl, fun i => ?_, fun i => rfl, fun i => by simp [baSum, cnt], fun _ _ => rfl, fun _ _ => rfl, fun _ => rfl⟩
    cases s.blobbers i <;> simp [cnt]
  | cons d ds ih =>
    intro s s' l' h
    simp only [extendAll] at h
    split at h
    · cases h
    · rename_i s1 d1 h1
      split at h
      · cases h
      · rename_i s2 ds2 h2
        cases h
        obtain ⟨e1, e2, edb, esz, b, sp, hb, hsp, ebl, esp, hoff, _⟩ := extendOne_effect h1
        obtain ⟨f1, f2, fb, fo, fs, fn1, fn2, fc⟩ := ih h2
        refine ⟨f1.trans e1, f2.trans e2, fun i => ?_, fun i => ?_, fun i => ?_, fun i hn => ?_, fun i hn => ?_, fun i => ?_⟩
        · rw [fb i, ebl]
          by_cases hi : i = d.blobber
          · subst hi
            rw [view_set_same, hb]
            simp only [Option.map_some, cnt, if_true]
            congr 1
            cases g <;> simp only [if_true, if_false, Bool.false_eq_true, Nat.zero_mul, Nat.mul_add, Nat.mul_one] <;> omega
          · have hdi : ¬ d.blobber = i := fun e => hi e.symm
            rw [view_set_other _ _ _ hi]
            simp only [cnt, hdi, if_false, Nat.zero_add]
        · have := fo i
          rw [esp] at this
          by_cases hi : i = d.blobber
          · subst hi
            rw [view_set_same] at this
            rw [hsp]
            cases hs' : s'.sps d.blobber with
            | none => rw [hs'] at this; cases this
            | some sp' =>
              rw [hs'] at this
              simp only [Option.map_some, Option.some.injEq, baSum, if_true, edb] at this ⊢
              omega
          · have hdi : ¬ d.blobber = i := fun e => hi e.symm
            have hdi1 : ¬ d1.blobber = i := by rw [edb]; exact hdi
            rw [view_set_other _ _ _ hi] at this
            simp only [baSum, hdi, hdi1, if_false, Nat.zero_add]
            exact this
        · simp only [baSum, cnt, edb, esz, fs i]
          split <;> simp [Nat.mul_add]
        · have hij : ¬ i = d.blobber := by intro e; subst e; rw [hb] at hn; cases hn
          have hdi : ¬ d.blobber = i := fun e => hij e.symm
          simp only [cnt, hdi, if_false, Nat.zero_add]
          apply fn1; rw [ebl, Map.set_other _ _ hij]; exact hn
        · have hij : ¬ i = d.blobber := by intro e; subst e; rw [hsp] at hn; cases hn
          have hdi : ¬ d.blobber = i := fun e => hij e.symm
          simp only [cnt, hdi, if_false, Nat.zero_add]
          apply fn2; rw [esp, Map.set_other _ _ hij]; exact hn
        · simp only [cnt, edb, fc i]

/-- `adjustChallengePool` changes challenge values only -/
theorem adjust_measures {m : BA → Nat} (hm : ∀ (d : BA) (c : Nat), m { d with cv := c } = m d) {bas : List BA} :
    ∀ {xs : List Int} {wp cp mtc mb : Nat} {bas' : List BA} {wp' cp' mtc' mb' : Nat},
    adjust bas xs wp cp mtc mb = some (bas', wp', cp', mtc', mb') → ∀ i, baSum m i bas' = baSum m i bas := by
  induction bas with
  | nil =>
    intro xs wp cp mtc mb bas' wp' cp' mtc' mb' h i
    cases xs with
    | nil => simp only [adjust] at h; cases h; rfl
    | cons x xs => simp [adjust] at h
  | cons d ds ih =>
    intro xs wp cp mtc mb bas' wp' cp' mtc' mb' h i
    cases xs with
    | nil => simp [adjust] at h
    | cons x xs =>
      simp only [adjust] at h
      split at h
      · split at h
        · cases h
        · split at h
          · cases h
          · rename_i _ _ ds' _ _ _ _ hrec
            cases h
            simp only [baSum, hm, ih hrec i]
      · split at h
        · cases h
        · split at h
          · cases h
          · rename_i _ _ ds' _ _ _ _ hrec
            cases h
            simp only [baSum, hm, ih hrec i]

/-- all blobber allocations of the list have the size of the first one -/
def Uniform (l : List BA) : Prop := ∀ d0 ds, l = d0 :: ds → ∀ d, d ∈ l → d.size = d0.size

theorem baSum_size_uniform {l : List BA} {z : Nat} (h : ∀ d, d ∈ l → d.size = z) (i : Nat) : baSum BA.size i l = z * cnt i l := by
  induction l with
  | nil => simp [baSum, cnt]
  | cons d ds ih =>
    have hd := h d (List.mem_cons_self ..)
    have := ih (fun x hx => h x (List.mem_cons_of_mem _ hx))
    simp only [baSum, cnt, this, hd]
    split <;> simp [Nat.mul_add]

theorem bsize_zero {data : Nat} (h : data ≠ 0) : bsize 0 data = 0 := by
  unfold bsize
  apply Nat.div_eq_of_lt
  omega

theorem updExtend_inv13 {s s' : State} {k size : Nat} {ds : List Int}
    (h : updExtend s k size ds = .ok s') (hi : Inv13 s)
    (hu : ∀ a, s.allocs k = some a → Uniform a.bas) : Inv13 s' := by
  unfold updExtend at h
  split at h
  · rename_i a cp ha hcp
    have hk := hi.1.lt ha
    have hua := hu a ha
    split at h
    · cases h
    · rename_i d0 dtail hbas
      split at h
      · cases h
      · rename_i hdata
        dsimp only at h
        split at h
        · cases h
        · rename_i s1 bas1 h1
          split at h
          · cases h
          · rename_i bas2 wp' cp' mtc' mb' h2
            cases h
            obtain ⟨f1, f2, fb, fo, fs, fn1, fn2, fc⟩ := extendAll_effect h1
            have msz := adjust_measures (m := BA.size) (fun _ _ => rfl) h2
            have mof := adjust_measures (m := BA.offer) (fun _ _ => rfl) h2
            have huni : ∀ i, baSum BA.size i a.bas = d0.size * cnt i a.bas :=
              baSum_size_uniform (fun d hd => hua d0 dtail hbas d hd)
            have hdiff : (if decide (size > 0) = true then bsize size a.data else 0) = bsize size a.data := by
              by_cases hs : size > 0
              · simp [hs]
              · have : size = 0 := by omega
                subst this; simp [bsize_zero hdata]
            refine inv13_set_delta hk (by simp only; rw [f1]) (by simp only; exact f2) (fun i => ?_) (fun i => ?_) hi
            · refine ⟨bsize size a.data * cnt i a.bas, 0, ?_, ?_, fun hn => by rw [fn1 i hn]; exact ⟨Nat.mul_zero _, rfl⟩⟩
              · rw [ha]; simp only [allocSum]
                rw [msz i, fs i, huni i, Nat.add_mul]; omega
              · simp only; rw [fb i, hdiff]; congr 1; funext b; omega
            · refine ⟨baSum BA.offer i bas2, baSum BA.offer i a.bas, ?_, ?_, fun hn => ?_⟩
              · rw [ha]; simp only [allocSum]; omega
              · simp only; rw [mof i]; exact fo i
              · have hz := fn2 i hn
                exact ⟨by rw [mof i]; exact baSum_of_cnt_zero (by rw [fc i]; exact hz), baSum_of_cnt_zero hz⟩
  · cases h

theorem closeBlobbers_frame14 : ∀ {l : List BA} {per : List (Nat × Nat)} {s s' : State},
    closeBlobbers s l per = some s' →
    s'.wallet = s.wallet ∧ s'.clients = s.clients ∧ s'.now = s.now ∧ s'.allocs = s.allocs ∧ s'.cps = s.cps ∧
    s'.vsps = s.vsps ∧ s'.rps = s.rps := by
  intro l
  induction l with
  | nil =>
    intro per s s' h
    cases per with
    | nil => simp only [closeBlobbers] at h; cases h; exact ⟨rfl, rfl, rfl, rfl, rfl, rfl, rfl⟩
    | cons p ps => simp [closeBlobbers] at h
  | cons d ds ih =>
    intro per s s' h
    cases per with
    | nil => simp [closeBlobbers] at h
    | cons p ps =>
      obtain ⟨dp, cr⟩ := p
      simp only [closeBlobbers] at h
      split at h
      · split at h
        · cases h
        · split at h
          · cases h
          · obtain ⟨a1, a2, a3, a4, a5, a6, a7⟩ := ih h
            exact ⟨a1, a2, a3, a4, a5, a6, a7⟩
      · cases h


end ZChain.Storage
