import ZChain.Model.Storage
/-!
Helper lemmas for the storage properties (C09, C12, C13, C14): finite-map updates, sums over blobber allocations,
"frame" lemmas (what an operation leaves untouched), and the per-operation invariant steps of C12.
-/
namespace ZChain.Storage

attribute [local irreducible] offer

/-! ## maps -/

theorem Map.set_same {α : Type} (m : Map α) (k : Nat) (v : Option α) : (m.set k v) k = v := by
  simp [Map.set]

theorem Map.set_other {α : Type} (m : Map α) {k k' : Nat} (v : Option α) (h : k' ≠ k) : (m.set k v) k' = m k' := by
  simp [Map.set, h]

/-- split every `match`/`if` of hypothesis `h`, drop the branches that end in an error, substitute the successful ones -/
macro "ok_branches" h:ident : tactic =>
  `(tactic| (repeat' (first | (split at $h:ident) | (dsimp only at $h:ident))
             all_goals (first | (cases $h:ident; done) | skip)
             all_goals (cases $h:ident)))

/-! ## sums over blobber allocations -/

theorem sumCv_setBA {bas : List BA} {i : Nat} {d d' : BA} (h : findBA bas i = some d) :
    sumCv (setBA bas i d') + d.cv = sumCv bas + d'.cv := by
  induction bas with
  | nil => simp [findBA] at h
  | cons x xs ih =>
    simp only [findBA] at h
    simp only [setBA]
    split at h
    · rename_i heq
      cases h
      simp only [heq, if_true, sumCv]; omega
    · rename_i hne
      simp only [hne, if_false, sumCv]
      have := ih h
      omega

theorem sumCv_append (l : List BA) (d : BA) : sumCv (l ++ [d]) = sumCv l + d.cv := by
  induction l with
  | nil => simp [sumCv]
  | cons x xs ih => simp [sumCv, ih]; omega

theorem findBA_cv_le {bas : List BA} {i : Nat} {d : BA} (h : findBA bas i = some d) : d.cv ≤ sumCv bas := by
  induction bas with
  | nil => simp [findBA] at h
  | cons x xs ih =>
    simp only [findBA] at h
    split at h
    · cases h; simp [sumCv]
    · have := ih h; simp only [sumCv]; omega

/-! ## frames: allocations and challenge pools untouched -/

def Frame (s s' : State) : Prop := s'.allocs = s.allocs ∧ s'.cps = s.cps

theorem Frame.refl (s : State) : Frame s s := ⟨rfl, rfl⟩
theorem Frame.trans {a b c : State} (h1 : Frame a b) (h2 : Frame b c) : Frame a c :=
  ⟨h2.1.trans h1.1, h2.2.trans h1.2⟩

theorem payIn_frame {s s' : State} {j v : Nat} (h : payIn s j v = .ok s') : Frame s s' := by
  unfold payIn at h; ok_branches h; exact ⟨rfl, rfl⟩

theorem payOut_frame {s s' : State} {j v : Nat} (h : payOut s j v = .ok s') : Frame s s' := by
  unfold payOut at h; ok_branches h; exact ⟨rfl, rfl⟩

theorem addBlobber_frame {s s' : State} {i c p : Nat} (h : addBlobber s i c p = .ok s') : Frame s s' := by
  unfold addBlobber at h; ok_branches h; exact ⟨rfl, rfl⟩

theorem addValidator_frame {s s' : State} {i : Nat} (h : addValidator s i = .ok s') : Frame s s' := by
  unfold addValidator at h; ok_branches h; exact ⟨rfl, rfl⟩

theorem stake_frame {s s' : State} {v : Bool} {i j amt : Nat} (h : stake s v i j amt = .ok s') : Frame s s' := by
  unfold stake at h; ok_branches h
  all_goals (have hp := payIn_frame ‹payIn _ _ _ = Except.ok _›; exact ⟨hp.1, hp.2⟩)

theorem unstake_frame {s s' : State} {v : Bool} {i j amt rew : Nat} (h : unstake s v i j amt rew = .ok s') : Frame s s' := by
  unfold unstake at h; ok_branches h
  all_goals (have hp := payOut_frame ‹payOut _ _ _ = Except.ok _›; exact ⟨hp.1, hp.2⟩)

theorem collect_frame {s s' : State} {v : Bool} {i j rew : Nat} (h : collect s v i j rew = .ok s') : Frame s s' := by
  unfold collect at h; ok_branches h
  all_goals (have hp := payOut_frame ‹payOut _ _ _ = Except.ok _›; exact ⟨hp.1, hp.2⟩)

theorem updBlobber_frame {s s' : State} {i : Nat} {c p : Option Nat} (h : updBlobber s i c p = .ok s') : Frame s s' := by
  unfold updBlobber at h; ok_branches h; exact ⟨rfl, rfl⟩

theorem killBlobber_frame {s s' : State} {i n : Nat} {d : Bool} (h : killBlobber s i n d = .ok s') : Frame s s' := by
  unfold killBlobber at h; ok_branches h <;> exact ⟨rfl, rfl⟩

theorem shutBlobber_frame {s s' : State} {i n : Nat} {d : Bool} (h : shutBlobber s i n d = .ok s') : Frame s s' := by
  unfold shutBlobber at h; ok_branches h <;> exact ⟨rfl, rfl⟩

theorem killValidator_frame {s s' : State} {i n : Nat} {d : Bool} (h : killValidator s i n d = .ok s') : Frame s s' := by
  unfold killValidator at h; ok_branches h <;> exact ⟨rfl, rfl⟩

theorem rpLock_frame {s s' : State} {j v : Nat} (h : rpLock s j v = .ok s') : Frame s s' := by
  unfold rpLock at h; ok_branches h
  have hp := payIn_frame ‹payIn _ _ _ = Except.ok _›; exact ⟨hp.1, hp.2⟩

theorem rpUnlock_frame {s s' : State} {j v : Nat} (h : rpUnlock s j v = .ok s') : Frame s s' := by
  unfold rpUnlock at h; ok_branches h
  have hp := payOut_frame ‹payOut _ _ _ = Except.ok _›; exact ⟨hp.1, hp.2⟩

theorem readRedeem_frame {s s' : State} {k i j p : Nat} (h : readRedeem s k i j p = .ok s') : Frame s s' := by
  unfold readRedeem at h; ok_branches h; exact ⟨rfl, rfl⟩

theorem assign_frame {bs : Nat} {s s' : State} {i : Nat} {ba : BA} (h : assign bs s i = .ok (s', ba)) :
    Frame s s' ∧ ba.cv = 0 := by
  unfold assign at h; ok_branches h; exact ⟨⟨rfl, rfl⟩, rfl⟩

theorem assignAll_frame {bs : Nat} {l : List Nat} : ∀ {s s' : State} {bas : List BA},
    assignAll bs s l = .ok (s', bas) → Frame s s' ∧ sumCv bas = 0 := by
  induction l with
  | nil => intro s s' bas h; simp only [assignAll] at h; cases h; exact ⟨Frame.refl _, rfl⟩
  | cons i is ih =>
    intro s s' bas h
    simp only [assignAll] at h
    split at h
    · cases h
    · rename_i s1 ba h1
      split at h
      · cases h
      · rename_i s2 bas2 h2
        cases h
        have f1 := assign_frame h1
        have f2 := ih h2
        exact ⟨f1.1.trans f2.1, by simp [sumCv, f1.2, f2.2]⟩

theorem extendOne_frame {s s' : State} {g : Bool} {diff ns : Nat} {d d' : BA}
    (h : extendOne s g diff ns d = .ok (s', d')) : Frame s s' ∧ d'.cv = d.cv := by
  unfold extendOne at h; ok_branches h <;> exact ⟨⟨rfl, rfl⟩, rfl⟩

theorem extendAll_frame {g : Bool} {diff ns : Nat} {l : List BA} : ∀ {s s' : State} {l' : List BA},
    extendAll g diff ns s l = .ok (s', l') → Frame s s' ∧ sumCv l' = sumCv l ∧ l'.map (·.cv) = l.map (·.cv) := by
  induction l with
  | nil => intro s s' l' h; simp only [extendAll] at h; cases h; exact ⟨Frame.refl _, rfl, rfl⟩
  | cons d ds ih =>
    intro s s' l' h
    simp only [extendAll] at h
    split at h
    · cases h
    · rename_i s1 d1 h1
      split at h
      · cases h
      · rename_i s2 ds2 h2
        cases h
        have f1 := extendOne_frame h1
        have f2 := ih h2
        exact ⟨f1.1.trans f2.1, by simp [sumCv, f1.2, f2.2.1], by simp [f1.2, f2.2.2]⟩

/-- no per-blobber decrement of `adjustChallengePool` exceeds the blobber's challenge value and no increment passes
2^64 (no `uint64` wrap in either direction) -/
def noWrapCv : List Nat → List Int → Bool
  | [], _ => true
  | _, [] => true
  | c :: cs, x :: xs => (if x ≥ 0 then decide (c + x.toNat < 2 ^ 64) else decide ((-x).toNat ≤ c)) && noWrapCv cs xs

def noWrap (bas : List BA) (xs : List Int) : Bool := noWrapCv (bas.map (·.cv)) xs

theorem adjust_pools {bas : List BA} : ∀ {xs : List Int} {wp cp mtc mb : Nat} {bas' : List BA} {wp' cp' mtc' mb' : Nat},
    adjust bas xs wp cp mtc mb = some (bas', wp', cp', mtc', mb') → wp' + cp' = wp + cp := by
  induction bas with
  | nil =>
    intro xs wp cp mtc mb bas' wp' cp' mtc' mb' h
    cases xs with
    | nil => simp only [adjust] at h; cases h; rfl
    | cons x xs => simp [adjust] at h
  | cons d ds ih =>
    intro xs wp cp mtc mb bas' wp' cp' mtc' mb' h
    cases xs with
    | nil => simp [adjust] at h
    | cons x xs =>
      simp only [adjust] at h
      split at h
      · split at h
        · cases h
        · split at h
          · cases h
          · rename_i hwp _ ds' wp1 cp1 mtc1 mb1 hrec
            cases h
            have := ih hrec
            omega
      · split at h
        · cases h
        · split at h
          · cases h
          · rename_i hc _ ds' wp1 cp1 mtc1 mb1 hrec
            cases h
            have := ih hrec
            omega

theorem adjust_cv {bas : List BA} : ∀ {xs : List Int} {wp cp mtc mb : Nat} {bas' : List BA} {wp' cp' mtc' mb' : Nat},
    adjust bas xs wp cp mtc mb = some (bas', wp', cp', mtc', mb') → noWrap bas xs = true →
    cp' + sumCv bas = cp + sumCv bas' := by
  induction bas with
  | nil =>
    intro xs wp cp mtc mb bas' wp' cp' mtc' mb' h _
    cases xs with
    | nil => simp only [adjust] at h; cases h; simp [sumCv]
    | cons x xs => simp [adjust] at h
  | cons d ds ih =>
    intro xs wp cp mtc mb bas' wp' cp' mtc' mb' h hnw
    cases xs with
    | nil => simp [adjust] at h
    | cons x xs =>
      simp only [noWrap, List.map_cons, noWrapCv, Bool.and_eq_true] at hnw
      simp only [adjust] at h
      split at h
      · rename_i hpos
        split at h
        · cases h
        · split at h
          · cases h
          · rename_i hwp _ ds' wp1 cp1 mtc1 mb1 hrec
            cases h
            have := ih hrec hnw.2
            have hlt : d.cv + x.toNat < 2 ^ 64 := by
              have h1 := hnw.1; rw [if_pos hpos] at h1; exact of_decide_eq_true h1
            simp only [sumCv, wrapAdd, hlt, if_true]
            omega
      · rename_i hneg
        split at h
        · cases h
        · split at h
          · cases h
          · rename_i hc _ ds' wp1 cp1 mtc1 mb1 hrec
            cases h
            have := ih hrec hnw.2
            have hle : (-x).toNat ≤ d.cv := by
              have h1 := hnw.1; rw [if_neg hneg] at h1; exact of_decide_eq_true h1
            simp only [sumCv, wrapSub, hle, if_true]
            omega

theorem closeBlobbers_frame : ∀ {l : List BA} {per : List (Nat × Nat)} {s s' : State},
    closeBlobbers s l per = some s' → Frame s s' := by
  intro l
  induction l with
  | nil =>
    intro per s s' h
    cases per with
    | nil => simp only [closeBlobbers] at h; cases h; exact Frame.refl _
    | cons p ps => simp [closeBlobbers] at h
  | cons d ds ih =>
    intro per s s' h
    cases per with
    | nil => simp [closeBlobbers] at h
    | cons p ps =>
      obtain ⟨dp, cr⟩ := p
      simp only [closeBlobbers] at h
      split at h
      · split at h
        · cases h
        · split at h
          · cases h
          · have := ih h
            exact ⟨this.1, this.2⟩
      · cases h

/-! ## C12: per-operation steps of `cp = Σ cv` -/

/-- for every open allocation the stored challenge pool equals the sum of its blobbers' challenge values -/
def Inv12 (s : State) : Prop := ∀ k a, s.allocs k = some a → s.cps k = some (sumCv a.bas)

theorem inv12_frame {s s' : State} (f : Frame s s') (hi : Inv12 s) : Inv12 s' := by
  intro k a h; rw [f.1] at h; rw [f.2]; exact hi k a h

theorem inv12_set {s s' : State} {k : Nat} {a' : Alloc} {c' : Nat}
    (ha : s'.allocs = s.allocs.set k (some a')) (hc : s'.cps = s.cps.set k (some c'))
    (hs : c' = sumCv a'.bas) (hi : Inv12 s) : Inv12 s' := by
  intro k' a h
  rw [ha] at h; rw [hc]
  by_cases hk : k' = k
  · subst hk
    simp only [Map.set_same] at h ⊢
    cases h; rw [hs]
  · simp only [Map.set_other _ _ hk] at h ⊢
    exact hi k' a h

/-- the allocation node is rewritten with the same blobber values, the challenge pool node is not written -/
theorem inv12_setAlloc {s s' : State} {k : Nat} {a a' : Alloc}
    (h0 : s.allocs k = some a) (ha : s'.allocs = s.allocs.set k (some a')) (hc : s'.cps = s.cps)
    (hs : sumCv a'.bas = sumCv a.bas) (hi : Inv12 s) : Inv12 s' := by
  intro k' x h
  rw [ha] at h; rw [hc]
  by_cases hk : k' = k
  · subst hk
    simp only [Map.set_same] at h
    cases h; rw [hs]; exact hi _ a h0
  · simp only [Map.set_other _ _ hk] at h
    exact hi k' x h

theorem inv12_del {s s' : State} {k : Nat}
    (ha : s'.allocs = s.allocs.set k none) (hc : s'.cps = s.cps.set k none) (hi : Inv12 s) : Inv12 s' := by
  intro k' a h
  rw [ha] at h; rw [hc]
  by_cases hk : k' = k
  · subst hk; simp [Map.set_same] at h
  · simp only [Map.set_other _ _ hk] at h ⊢
    exact hi k' a h

theorem newAlloc_inv12 {s s' : State} {j data size value : Nat} {chosen : List Nat}
    (h : newAlloc s j data size value chosen = .ok s') (hi : Inv12 s) : Inv12 s' := by
  unfold newAlloc at h
  split at h
  · cases h
  · split at h
    · cases h
    · rename_i s1 bas h1
      split at h
      · cases h
      · rename_i s2 h2
        cases h
        have f1 := assignAll_frame h1
        have f2 := payIn_frame h2
        have hi2 : Inv12 s2 := inv12_frame (f1.1.trans f2) hi
        exact inv12_set rfl rfl (by simp [f1.2]) hi2

theorem wpLock_inv12 {s s' : State} {k j v : Nat} (h : wpLock s k j v = .ok s') (hi : Inv12 s) : Inv12 s' := by
  unfold wpLock at h
  split at h
  · cases h
  · rename_i a ha
    split at h
    · cases h
    · rename_i s1 h1
      cases h
      have f := payIn_frame h1
      have hi1 := inv12_frame f hi
      exact inv12_setAlloc (a := a) (by rw [f.1]; exact ha) rfl rfl rfl hi1

theorem updLock_inv12 {s s' : State} {k j v : Nat} (h : updLock s k j v = .ok s') (hi : Inv12 s) : Inv12 s' := by
  unfold updLock at h
  split at h
  · cases h
  · rename_i a ha
    split at h
    · cases h
    · rename_i s1 h1
      cases h
      have f := payIn_frame h1
      have hi1 := inv12_frame f hi
      exact inv12_setAlloc (a := a) (by rw [f.1]; exact ha) rfl rfl rfl hi1

theorem commit_inv12 {s s' : State} {k i : Nat} {size : Int} {move : Nat} (h : commit s k i size move = .ok s')
    (hi : Inv12 s) : Inv12 s' := by
  unfold commit at h
  split at h
  · cases h
  · rename_i a ha
    split at h
    · rename_i cp b d hcp hb hd
      have hcp' := hi k a ha
      rw [hcp] at hcp'
      cases hcp'
      have key := fun d' => sumCv_setBA (d' := d') hd
      split at h
      · cases h
      · split at h
        · cases h
        · split at h
          · split at h
            · cases h
            · cases h
              refine inv12_set rfl rfl ?_ hi
              have := key { d with cv := d.cv + move, used := ((d.used:Int) + size).toNat }
              simp only at this ⊢; omega
          · split at h
            · split at h
              · cases h
              · cases h
                refine inv12_set rfl rfl ?_ hi
                have := key { d with cv := d.cv - move, used := ((d.used:Int) + size).toNat }
                simp only at this ⊢; omega
            · split at h
              · cases h
              · cases h
                refine inv12_setAlloc ha rfl rfl ?_ hi
                have := key { d with used := ((d.used:Int) + size).toNat }
                simp only at this ⊢; omega
    · cases h

theorem respPass_inv12 {s s' : State} {k i D m V dp : Nat} {cr : List (Nat × Nat)}
    (h : respPass s k i D m V dp cr = .ok s') (hv : s.nvr0 = false ∨ V = 0) (hi : Inv12 s) : Inv12 s' := by
  have hvd : valDebit s.nvr0 D V = D := by
    unfold valDebit; rcases hv with h0 | h0
    · simp [h0]
    · subst h0; simp
  unfold respPass at h
  split at h
  · cases h
  · rename_i a ha
    split at h
    · rename_i cp sp d hcp hsp hd
      have hcp' := hi k a ha
      rw [hcp] at hcp'
      cases hcp'
      split at h
      · cases h
      · rename_i hg
        split at h
        · cases h
        · cases h
          refine inv12_set rfl rfl ?_ hi
          have := sumCv_setBA (d' := { d with cv := d.cv - D }) hd
          simp only [hvd] at this ⊢; omega
    · cases h

theorem updAdd_inv12 {s s' : State} {k ai : Nat} (h : updAdd s k ai = .ok s') (hi : Inv12 s) : Inv12 s' := by
  unfold updAdd at h
  split at h
  · rename_i a nb spa ha hnb hspa
    ok_branches h
    exact inv12_setAlloc ha rfl rfl (by simp [sumCv_append]) hi
  · cases h

theorem updReplaceAlive_inv12 {s s' : State} {k ai ri rw cc dp : Nat}
    (h : updReplaceAlive s k ai ri rw cc dp = .ok s') (hi : Inv12 s) : Inv12 s' := by
  unfold updReplaceAlive at h
  split at h
  · rename_i a cp nb spa rb spr ha hcp _ _ _ _
    have hcp' := hi k a ha
    rw [hcp] at hcp'
    cases hcp'
    split at h
    · cases h
    · rename_i d hd
      ok_branches h
      refine inv12_set rfl rfl ?_ hi
      have := sumCv_setBA (d' := ⟨ai, bsize a.size a.data, nb.price, 0, 0⟩) hd
      have hle := findBA_cv_le hd
      simp only at this ⊢; omega
  · cases h

theorem updExtend_inv12 {s s' : State} {k size : Nat} {ds : List Int}
    (h : updExtend s k size ds = .ok s') (hnw : ∀ a, s.allocs k = some a → noWrap a.bas ds = true) (hi : Inv12 s) :
    Inv12 s' := by
  unfold updExtend at h
  split at h
  · rename_i a cp ha hcp
    have hcp' := hi k a ha
    rw [hcp] at hcp'
    cases hcp'
    split at h
    · cases h
    · split at h
      · cases h
      · dsimp only at h
        split at h
        · cases h
        · rename_i s1 bas1 h1
          split at h
          · cases h
          · rename_i bas2 wp' cp' mtc' mb' h2
            cases h
            have f1 := extendAll_frame h1
            have a2 := adjust_cv h2 (by have := hnw a ha; unfold noWrap at this ⊢; rw [f1.2.2]; exact this)
            have hi1 := inv12_frame f1.1 hi
            refine inv12_set rfl rfl ?_ hi1
            simp only
            omega
  · cases h

theorem close_inv12 {s s' : State} {fin : Bool} {k : Nat} {c : Caller} {X : Nat} {per : List (Nat × Nat)}
    {rates : List (Nat × Nat × Nat)} (h : close s fin k c X per rates = .ok s') (hi : Inv12 s) : Inv12 s' := by
  unfold close at h
  split at h
  · cases h
  · rename_i a ha
    simp only at h
    repeat' (split at h)
    all_goals (first | (cases h; done) | skip)
    all_goals
      cases h
      have f1 := closeBlobbers_frame ‹closeBlobbers _ _ _ = some _›
      have f2 := payOut_frame ‹payOut _ _ _ = Except.ok _›
      exact inv12_del rfl rfl (inv12_frame (f1.trans f2) hi)

/-- `close` removes both nodes of the allocation -/
theorem close_removes {s s' : State} {fin : Bool} {k : Nat} {c : Caller} {X : Nat} {per : List (Nat × Nat)}
    {rates : List (Nat × Nat × Nat)} (h : close s fin k c X per rates = .ok s') : s'.allocs k = none ∧ s'.cps k = none := by
  unfold close at h
  split at h
  · cases h
  · simp only at h
    repeat' (split at h)
    all_goals (first | (cases h; done) | skip)
    all_goals
      cases h
      exact ⟨Map.set_same _ _ _, Map.set_same _ _ _⟩


/-! ## the phases of `update` -/

/-- the state an update's extend phase starts from, and whether the extend phase runs -/
def preExtend (s : State) (k : Nat) (caller : Caller) (value size : Nat) (ext : Bool) (add rem : Option Nat)
    (rw cc dp : Nat) : Except Err (State × Bool) :=
  match s.allocs k with
  | none => .error (.fail "absent")
  | some a =>
    match caller with
    | .client j =>
      if a.exp < s.now then .error (.fail "expired") else
      let ext := ext || decide (size > 0)
      if j ≠ a.owner then
        if !ext then .error (.fail "unauthorised") else
        match updLock s k j value with
        | .error e => .error e
        | .ok s1 => .ok (s1, true)
      else
        match updLock s k j value with
        | .error e => .error e
        | .ok s1 =>
          match updBlobbers s1 k add rem rw cc dp with
          | .error e => .error e
          | .ok s2 => .ok (s2, ext)
    | _ => .error (.fail "unauthorised")

theorem update_eq (s : State) (k : Nat) (c : Caller) (value size : Nat) (ext : Bool) (add rem : Option Nat)
    (rw cc dp : Nat) (ds : List Int) :
    update s k c value size ext add rem rw cc dp ds =
      match preExtend s k c value size ext add rem rw cc dp with
      | .error e => .error e
      | .ok (s2, true) => updExtend s2 k size ds
      | .ok (s2, false) => .ok s2 := by
  unfold update preExtend
  cases h1 : s.allocs k with
  | none => rfl
  | some a =>
    dsimp only
    cases c with
    | client j =>
      dsimp only
      by_cases he : a.exp < s.now
      · simp only [he, if_true]
      · simp only [he, if_false]
        by_cases hj : j = a.owner
        · subst hj
          simp only [ne_eq, not_true_eq_false, if_false]
          cases h2 : updLock s k a.owner value with
          | error e => rfl
          | ok s1 =>
            dsimp only
            cases h3 : updBlobbers s1 k add rem rw cc dp with
            | error e => rfl
            | ok s2 =>
              dsimp only
              cases (ext || decide (size > 0)) <;> rfl
        · have hj' : j ≠ a.owner := hj
          simp only [ne_eq, hj, not_false_eq_true, if_true]
          cases hx : (ext || decide (size > 0)) with
          | false => rfl
          | true =>
            simp only [Bool.not_true, Bool.false_eq_true, if_false]
            cases h2 : updLock s k j value with
            | error e => rfl
            | ok s1 => rfl
    | blobber i => rfl
    | other => rfl


/-- the result of an admissible step, for scripted witnesses -/
def after (s : State) (op : Op) : State :=
  match step s op with
  | .ok s' => s'
  | .error _ => s

def stepOk (s : State) (op : Op) : Bool :=
  match step s op with
  | .ok _ => true
  | .error _ => false

theorem stepRel_after {s : State} {op : Op} (h : stepOk s op = true) : stepRel s op (after s op) := by
  unfold stepRel after
  unfold stepOk at h
  cases hr : step s op with
  | ok s' => rfl
  | error e => rw [hr] at h; cases h


end ZChain.Storage
