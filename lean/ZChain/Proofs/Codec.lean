import ZChain.Model.Codec
/-!
Helper lemmas for C08 (`Model/Codec.lean`): every reader undoes its writer on any continuation, the struct loop
rebuilds the field list, sorted maps are rebuilt by sorted insertion.
-/
namespace ZChain.Codec

/-! ### bytes -/

theorem takeN_append (a r : Bytes) : takeN a.length (a ++ r) = some (a, r) := by
  induction a with
  | nil => simp [takeN]
  | cons x xs ih => simp [takeN, ih]

theorem be_length (w n : Nat) : (be w n).length = w := by
  induction w with
  | zero => rfl
  | succ k ih => simp [be, ih]

theorem takeN_be (w n : Nat) (r : Bytes) : takeN w (be w n ++ r) = some (be w n, r) := by
  have := takeN_append (be w n) r
  rwa [be_length] at this

theorem ofBe_be1 (n : Nat) (h : n < 256) : ofBe (be 1 n) = n := by
  simp [be, ofBe]; omega
theorem ofBe_be2 (n : Nat) (h : n < 65536) : ofBe (be 2 n) = n := by
  simp [be, ofBe]; omega
theorem ofBe_be4 (n : Nat) (h : n < 4294967296) : ofBe (be 4 n) = n := by
  simp [be, ofBe]; omega
theorem ofBe_be8 (n : Nat) (h : n < 18446744073709551616) : ofBe (be 8 n) = n := by
  simp [be, ofBe]; omega

/-! ### unsigned integers, headers -/

theorem decUint_encUint (n : Nat) (h : n < 18446744073709551616) (r : Bytes) :
    decUint (encUint n ++ r) = some (n, r) := by
  unfold encUint
  split
  · rename_i h1; simp [decUint, h1]
  · split
    · rename_i h1 h2
      have : ¬ (204 ≤ 127) := by omega
      simp [decUint, takeN, ofBe]
    · split
      · rename_i h1 h2 h3
        simp [decUint, takeN_be, ofBe_be2 n (by omega)]
      · split
        · rename_i h1 h2 h3 h4
          simp [decUint, takeN_be, ofBe_be4 n (by omega)]
        · simp [decUint, takeN_be, ofBe_be8 n h]

theorem decArrHdr_enc (n : Nat) (h : n < 4294967296) (r : Bytes) : decArrHdr (encArrHdr n ++ r) = some (n, r) := by
  unfold encArrHdr
  split
  · rename_i h1
    have h2 : 144 ≤ 144 + n ∧ 144 + n ≤ 159 := by omega
    simp [decArrHdr, h2]
  · split
    · simp [decArrHdr, takeN_be, ofBe_be2 n (by omega)]
    · simp [decArrHdr, takeN_be, ofBe_be4 n h]

theorem decMapHdr_enc (n : Nat) (h : n < 4294967296) (r : Bytes) : decMapHdr (encMapHdr n ++ r) = some (n, r) := by
  unfold encMapHdr
  split
  · rename_i h1
    have h2 : 128 ≤ 128 + n ∧ 128 + n ≤ 143 := by omega
    simp [decMapHdr, h2]
  · split
    · simp [decMapHdr, takeN_be, ofBe_be2 n (by omega)]
    · simp [decMapHdr, takeN_be, ofBe_be4 n h]

theorem decStr_encStr (s : Bytes) (h : s.length < 4294967296) (r : Bytes) : decStr (encStr s ++ r) = some (s, r) := by
  unfold encStr encStrHdr
  split
  · rename_i h1
    have h2 : 160 ≤ 160 + s.length ∧ 160 + s.length ≤ 191 := by omega
    simp [decStr, h2, takeN_append]
  · split
    · rename_i h1 h2
      simp [decStr, takeN, ofBe, takeN_append]
    · split
      · rename_i h1 h2 h3
        simp [decStr, List.append_assoc, takeN_be, ofBe_be2 s.length (by omega), takeN_append]
      · simp [decStr, List.append_assoc, takeN_be, ofBe_be4 s.length h, takeN_append]

theorem decBin_enc (s : Bytes) (h : s.length < 4294967296) (r : Bytes) :
    decBin (encBinHdr s.length ++ s ++ r) = some (s, r) := by
  unfold encBinHdr
  split
  · simp [decBin, takeN, ofBe, takeN_append]
  · split
    · rename_i h1 h2
      simp [decBin, List.append_assoc, takeN_be, ofBe_be2 s.length (by omega), takeN_append]
    · simp [decBin, List.append_assoc, takeN_be, ofBe_be4 s.length h, takeN_append]

/-! ### signed integers -/

theorem twos1 (i : Int) : twos 1 i = (i % 256).toNat := by simp [twos]
theorem twos2 (i : Int) : twos 2 i = (i % 65536).toNat := by simp [twos]
theorem twos4 (i : Int) : twos 4 i = (i % 4294967296).toNat := by simp [twos]
theorem twos8 (i : Int) : twos 8 i = (i % 18446744073709551616).toNat := by simp [twos]
theorem untwos1 (n : Nat) : untwos 1 n = if n < 128 then (n : Int) else (n : Int) - 256 := by simp [untwos]
theorem untwos2 (n : Nat) : untwos 2 n = if n < 32768 then (n : Int) else (n : Int) - 65536 := by simp [untwos]
theorem untwos4 (n : Nat) : untwos 4 n = if n < 2147483648 then (n : Int) else (n : Int) - 4294967296 := by simp [untwos]
theorem untwos8 (n : Nat) : untwos 8 n = if n < 9223372036854775808 then (n : Int) else (n : Int) - 18446744073709551616 := by
  simp [untwos]

theorem untwos_twos1 (i : Int) (h1 : -128 ≤ i) (h2 : i ≤ 127) : untwos 1 (twos 1 i) = i := by
  rw [twos1, untwos1]; split <;> omega
theorem untwos_twos2 (i : Int) (h1 : -32768 ≤ i) (h2 : i ≤ 32767) : untwos 2 (twos 2 i) = i := by
  rw [twos2, untwos2]; split <;> omega
theorem untwos_twos4 (i : Int) (h1 : -2147483648 ≤ i) (h2 : i ≤ 2147483647) : untwos 4 (twos 4 i) = i := by
  rw [twos4, untwos4]; split <;> omega
theorem untwos_twos8 (i : Int) (h1 : -9223372036854775808 ≤ i) (h2 : i ≤ 9223372036854775807) : untwos 8 (twos 8 i) = i := by
  rw [twos8, untwos8]; split <;> omega

theorem twos2_lt (i : Int) : twos 2 i < 65536 := by rw [twos2]; omega
theorem twos4_lt (i : Int) : twos 4 i < 4294967296 := by rw [twos4]; omega
theorem twos8_lt (i : Int) : twos 8 i < 18446744073709551616 := by rw [twos8]; omega

theorem decInt_encInt (i : Int) (h1 : -9223372036854775808 ≤ i) (h2 : i ≤ 9223372036854775807) (r : Bytes) :
    decInt (encInt i ++ r) = some (i, r) := by
  unfold encInt
  split
  · rename_i hp
    split
    · rename_i h
      have hb : i.toNat ≤ 127 := by omega
      have hc : (i.toNat : Int) = i := by omega
      simp [decInt, hb, hc]
    · split
      · rename_i ha hb
        have e : untwos 2 i.toNat = i := by rw [untwos2]; split <;> omega
        simp [decInt, takeN_be, ofBe_be2 i.toNat (by omega), e]
      · split
        · rename_i ha hb hc
          have e : untwos 4 i.toNat = i := by rw [untwos4]; split <;> omega
          simp [decInt, takeN_be, ofBe_be4 i.toNat (by omega), e]
        · rename_i ha hb hc
          have e : untwos 8 i.toNat = i := by rw [untwos8]; split <;> omega
          simp [decInt, takeN_be, ofBe_be8 i.toNat (by omega), e]
  · rename_i hn
    split
    · rename_i h
      have hb1 : ¬ (twos 1 i ≤ 127) := by rw [twos1]; omega
      have hb2 : 224 ≤ twos 1 i := by rw [twos1]; omega
      simp [decInt, hb1, hb2, untwos_twos1 i (by omega) (by omega)]
    · split
      · rename_i ha hb
        simp [decInt, takeN, ofBe, untwos_twos1 i (by omega) (by omega)]
      · split
        · rename_i ha hb hc
          simp [decInt, takeN_be, ofBe_be2 _ (twos2_lt i), untwos_twos2 i (by omega) (by omega)]
        · split
          · rename_i ha hb hc hd
            simp [decInt, takeN_be, ofBe_be4 _ (twos4_lt i), untwos_twos4 i (by omega) (by omega)]
          · simp [decInt, takeN_be, ofBe_be8 _ (twos8_lt i), untwos_twos8 i h1 (by omega)]




/-! ### field lists -/

def Fields.get? : Fields → Nat → Option (Bytes × Ty)
  | .nil, _ => none
  | .cons n t _, 0 => some (n, t)
  | .cons _ _ r, i + 1 => Fields.get? r i

def Fields.names : Fields → List Bytes
  | .nil => []
  | .cons n _ r => n :: Fields.names r

def Fields.allKept (keep : List Bytes) : Fields → Bool
  | .nil => true
  | .cons n _ r => keep.contains n && Fields.allKept keep r

/-- the `version` key, where present, is a string field (the translator checks it for every registered version) -/
def versionIsStr : Fields → Bool
  | .nil => true
  | .cons n t fs => (if n = kVersion then (match t with | .str => true | _ => false) else true) && versionIsStr fs

mutual
/-- schemas on which decoding is the exact inverse of encoding: keys of every struct pairwise distinct (and short
enough to be encoded), no hand-written decoder that drops a field, and every entity wrapper has pairwise distinct
version strings and struct alternatives whose `version` key is a string. -/
def good : Ty → Bool
  | .arr e => good e
  | .farr _ e => good e
  | .map e => good e
  | .ptr e => good e
  | .struct fs => decide (Fields.names fs).Nodup && goodFields fs
  | .pstruct keep fs => Fields.allKept keep fs && decide (Fields.names fs).Nodup && goodFields fs
  | .union alts => decide (Fields.names alts).Nodup && goodAlts alts
  | _ => true
def goodFields : Fields → Bool
  | .nil => true
  | .cons n t r => decide (n.length < 4294967296) && good t && goodFields r
def goodAlts : Fields → Bool
  | .nil => true
  | .cons _ t r => (match t with | .struct fs => versionIsStr fs | _ => false) && good t && goodAlts r
end

theorem goodAlts_at : (alts : Fields) → (i : Nat) → (t : Ty) → goodAlts alts = true → alts.tyAt i = some t →
    ∃ fs, t = .struct fs ∧ versionIsStr fs = true ∧ good t = true
  | .nil, _, _, _, h => by simp [Fields.tyAt] at h
  | .cons n t0 r, 0, t, hg, h => by
    simp only [Fields.tyAt, Option.some.injEq] at h
    subst h
    simp only [goodAlts, Bool.and_eq_true] at hg
    cases t0 <;> simp at hg
    rename_i fs
    exact ⟨fs, rfl, hg.1.1, hg.1.2⟩
  | .cons n t0 r, j + 1, t, hg, h => by
    simp only [Fields.tyAt] at h
    simp only [goodAlts, Bool.and_eq_true] at hg
    exact goodAlts_at r j t hg.2 h

theorem Fields.get?_of_at : (fs : Fields) → (i : Nat) → (n : Bytes) → (t : Ty) → fs.nameAt i = some n → fs.tyAt i = some t →
    fs.get? i = some (n, t)
  | .nil, _, _, _, h, _ => by simp [Fields.nameAt] at h
  | .cons n0 t0 r, 0, n, t, h1, h2 => by
    simp only [Fields.nameAt, Fields.tyAt, Option.some.injEq] at h1 h2
    simp [Fields.get?, h1, h2]
  | .cons n0 t0 r, j + 1, n, t, h1, h2 => by
    simp only [Fields.nameAt, Fields.tyAt] at h1 h2
    simp [Fields.get?, Fields.get?_of_at r j n t h1 h2]

theorem Fields.get?_mem_names : (fs : Fields) → (i : Nat) → (n : Bytes) → (t : Ty) → fs.get? i = some (n, t) →
    n ∈ fs.names
  | .nil, _, _, _, h => by simp [Fields.get?] at h
  | .cons n0 t0 r, 0, n, t, h => by
    simp only [Fields.get?, Option.some.injEq, Prod.mk.injEq] at h
    simp [Fields.names, h.1]
  | .cons n0 t0 r, j + 1, n, t, h => by
    simp only [Fields.get?] at h
    simp [Fields.names, Fields.get?_mem_names r j n t h]

theorem decField_get : (fs : Fields) → fs.names.Nodup → (i : Nat) → (n : Bytes) → (t : Ty) →
    fs.get? i = some (n, t) → decField fs (n) = some (i, dec t)
  | .nil, _, _, _, _, h => by simp [Fields.get?] at h
  | .cons n0 t0 r, hn, 0, n, t, h => by
    simp only [Fields.get?, Option.some.injEq, Prod.mk.injEq] at h
    obtain ⟨h1, h2⟩ := h
    subst h1; subst h2
    simp [decField]
  | .cons n0 t0 r, hn, j + 1, n, t, h => by
    simp only [Fields.names, List.nodup_cons] at hn
    simp only [Fields.get?] at h
    have hm := Fields.get?_mem_names r j n t h
    have hne : ¬ n0 = n := by
      intro e; rw [e] at hn; exact hn.1 hm
    simp [decField, hne, decField_get r hn.2 j n t h]

/-! ### the accumulator of the struct loop -/

def mix : Nat → Vals → Vals → Vals
  | 0, _, zs => zs
  | k + 1, .cons v vs, .cons _ zs => .cons v (mix k vs zs)
  | _ + 1, _, _ => .nil

theorem mix_set (k : Nat) (vs zs : Vals) (v : Val) (hg : vs.get k = some v) (hk : k < zs.length) :
    (mix k vs zs).set k v = mix (k + 1) vs zs := by
  induction k generalizing vs zs with
  | zero =>
    cases vs with
    | nil => simp [Vals.get] at hg
    | cons x xs =>
      cases zs with
      | nil => simp [Vals.length] at hk
      | cons z zs' =>
        simp only [Vals.get, Option.some.injEq] at hg
        subst hg
        simp [mix, Vals.set]
  | succ j ih =>
    cases vs with
    | nil => simp [Vals.get] at hg
    | cons x xs =>
      cases zs with
      | nil => simp [Vals.length] at hk
      | cons z zs' =>
        simp only [Vals.get] at hg
        simp only [Vals.length] at hk
        simp only [mix, Vals.set]
        rw [ih xs zs' hg (by omega)]

theorem mix_full : (vs zs : Vals) → vs.length = zs.length → mix vs.length vs zs = vs
  | .nil, .nil, _ => rfl
  | .nil, .cons _ _, h => by simp [Vals.length] at h
  | .cons _ _, .nil, h => by simp [Vals.length] at h
  | .cons x xs, .cons z zs', h => by
    simp only [Vals.length] at h
    simp only [Vals.length, mix]
    rw [mix_full xs zs' (by omega)]

theorem zeroFields_length : (fs : Fields) → (zeroFields fs).length = fs.length
  | .nil => rfl
  | .cons n t r => by simp [zeroFields, Vals.length, Fields.length, zeroFields_length r]

theorem wtFields_length : (fs : Fields) → (vs : Vals) → wtFields fs vs = true → vs.length = fs.length
  | .nil, .nil, _ => rfl
  | .nil, .cons _ _, h => by simp [wtFields] at h
  | .cons _ _ _, .nil, h => by simp [wtFields] at h
  | .cons n t r, .cons v vs', h => by
    simp only [wtFields, Bool.and_eq_true] at h
    simp [Vals.length, Fields.length, wtFields_length r vs' h.2]

/-! ### sorted maps -/

def KVs.append : KVs → KVs → KVs
  | .nil, b => b
  | .cons k v r, b => .cons k v (KVs.append r b)

def KVs.keys : KVs → List Bytes
  | .nil => []
  | .cons k _ r => k :: KVs.keys r

theorem KVs.append_nil : (a : KVs) → a.append .nil = a
  | .nil => rfl
  | .cons k v r => by simp [KVs.append, KVs.append_nil r]

theorem KVs.append_assoc : (a b c : KVs) → (a.append b).append c = a.append (b.append c)
  | .nil, _, _ => rfl
  | .cons k v r, b, c => by simp [KVs.append, KVs.append_assoc r b c]

theorem KVs.keys_append : (a b : KVs) → (a.append b).keys = a.keys ++ b.keys
  | .nil, _ => rfl
  | .cons k v r, b => by simp [KVs.append, KVs.keys, KVs.keys_append r b]

theorem KVs.insert_above : (acc : KVs) → (k : Bytes) → (v : Val) → (∀ k' ∈ acc.keys, k' < k) →
    acc.insert k v = acc.append (.cons k v .nil)
  | .nil, _, _, _ => rfl
  | .cons k0 v0 r, k, v, h => by
    have h0 : k0 < k := h k0 (by simp [KVs.keys])
    have h1 : ¬ k = k0 := by intro e; subst e; exact List.lt_irrefl _ h0
    have h2 : ¬ k < k0 := List.lt_asymm h0
    simp only [KVs.insert, h1, h2, if_false, KVs.append]
    rw [KVs.insert_above r k v (fun k' hk' => h k' (by simp [KVs.keys, hk']))]



def HeadOk (bs : Bytes) : Prop := ∃ b tl, bs = b :: tl ∧ b ≠ 192

theorem headOk_append (a r : Bytes) (h : HeadOk a) : HeadOk (a ++ r) := by
  obtain ⟨b, tl, h1, h2⟩ := h
  exact ⟨b, tl ++ r, by simp [h1], h2⟩

theorem encInt_head (i : Int) : HeadOk (encInt i) := by
  unfold encInt
  split
  · split
    · rename_i h1 h2; exact ⟨_, _, rfl, by omega⟩
    · split
      · exact ⟨_, _, rfl, by decide⟩
      · split <;> exact ⟨_, _, rfl, by decide⟩
  · split
    · rename_i h1 h2; exact ⟨_, _, rfl, by rw [twos1]; omega⟩
    · split
      · exact ⟨_, _, rfl, by decide⟩
      · split
        · exact ⟨_, _, rfl, by decide⟩
        · split <;> exact ⟨_, _, rfl, by decide⟩

theorem encUint_head (n : Nat) : HeadOk (encUint n) := by
  unfold encUint
  split
  · rename_i h; exact ⟨_, _, rfl, by omega⟩
  · split
    · exact ⟨_, _, rfl, by decide⟩
    · split
      · exact ⟨_, _, rfl, by decide⟩
      · split <;> exact ⟨_, _, rfl, by decide⟩

theorem encStrHdr_head (n : Nat) : HeadOk (encStrHdr n) := by
  unfold encStrHdr
  split
  · rename_i h; exact ⟨_, _, rfl, by omega⟩
  · split
    · exact ⟨_, _, rfl, by decide⟩
    · split <;> exact ⟨_, _, rfl, by decide⟩

theorem encBinHdr_head (n : Nat) : HeadOk (encBinHdr n) := by
  unfold encBinHdr
  split
  · exact ⟨_, _, rfl, by decide⟩
  · split <;> exact ⟨_, _, rfl, by decide⟩

theorem encArrHdr_head (n : Nat) : HeadOk (encArrHdr n) := by
  unfold encArrHdr
  split
  · rename_i h; exact ⟨_, _, rfl, by omega⟩
  · split <;> exact ⟨_, _, rfl, by decide⟩

theorem encMapHdr_head (n : Nat) : HeadOk (encMapHdr n) := by
  unfold encMapHdr
  split
  · rename_i h; exact ⟨_, _, rfl, by omega⟩
  · split <;> exact ⟨_, _, rfl, by decide⟩

/-- the encoding of a well-typed value never starts with the nil byte, except for a nil pointer -/
theorem enc_head (v : Val) (t : Ty) (h : wt t v = true) (hg : good t = true) (hn : isNilByte t v = false) : HeadOk (enc t v) := by
  cases v with
  | int i => cases t <;> simp [wt] at h; simp only [enc]; exact encInt_head i
  | uint n => cases t <;> simp [wt] at h; simp only [enc]; exact encUint_head n
  | bool b => cases t <;> simp [wt] at h; simp only [enc]; cases b <;> exact ⟨_, _, rfl, by decide⟩
  | str s => cases t <;> simp [wt] at h; simp only [enc, encStr]; exact headOk_append _ _ (encStrHdr_head _)
  | bin s => cases t <;> simp [wt] at h; simp only [enc]; exact headOk_append _ _ (encBinHdr_head _)
  | f64 b => cases t <;> simp [wt] at h; simp only [enc]; exact ⟨_, _, rfl, by decide⟩
  | f32 b => cases t <;> simp [wt] at h; simp only [enc]; exact ⟨_, _, rfl, by decide⟩
  | time s ns => cases t <;> simp [wt] at h; simp only [enc]; exact ⟨_, _, rfl, by decide⟩
  | arr vs =>
    cases t <;> simp [wt] at h
    · simp only [enc]; exact headOk_append _ _ (encArrHdr_head _)
    · simp only [enc]; exact headOk_append _ _ (encArrHdr_head _)
    · simp only [enc]; exact headOk_append _ _ (encMapHdr_head _)
    · simp only [enc]; exact headOk_append _ _ (encMapHdr_head _)
  | map kvs => cases t <;> simp [wt] at h; simp only [enc]; exact headOk_append _ _ (encMapHdr_head _)
  | null => cases t <;> simp [wt] at h; simp [isNilByte] at hn
  | some v' =>
    cases t <;> simp [wt] at h
    rename_i e
    simp only [enc]
    exact enc_head v' e h.1 (by simpa [good] using hg) h.2
  | alt i v' =>
    cases t <;> simp [wt] at h
    rename_i alts
    cases hnm : alts.nameAt i with
    | none => simp [hnm] at h
    | some n =>
      cases hty : alts.tyAt i with
      | none => simp [hnm, hty] at h
      | some t' =>
        simp only [hnm, hty, Bool.and_eq_true] at h
        obtain ⟨_, hvo⟩ := h
        cases t' <;> simp [versionOk] at hvo
        cases v' <;> simp [versionOk] at hvo
        simp only [enc, hty]
        exact headOk_append _ _ (encMapHdr_head _)


/-! ### `msgp.Skip` steps exactly over an encoded value -/

mutual
/-- number of MessagePack objects in the encoding of a value -/
def objs : Ty → Val → Nat
  | .arr e, .arr vs => 1 + objsList e vs
  | .farr _ e, .arr vs => 1 + objsList e vs
  | .map e, .map kvs => 1 + objsKVs e kvs
  | .ptr e, .some v => objs e v
  | .struct fs, .arr vs => 1 + objsFields fs vs
  | .pstruct _ fs, .arr vs => 1 + objsFields fs vs
  | .union alts, .alt i v =>
    match alts.tyAt i with
    | some t => objs t v
    | none => 0
  | _, _ => 1
termination_by structural _ v => v
def objsList : Ty → Vals → Nat
  | _, .nil => 0
  | e, .cons v r => objs e v + objsList e r
termination_by structural _ vs => vs
def objsKVs : Ty → KVs → Nat
  | _, .nil => 0
  | e, .cons _ v r => 1 + objs e v + objsKVs e r
termination_by structural _ kvs => kvs
def objsFields : Fields → Vals → Nat
  | .cons _ t rest, .cons v r => 1 + objs t v + objsFields rest r
  | _, _ => 0
termination_by structural _ vs => vs
end

theorem skipN_zero (f : Nat) (bs : Bytes) : skipN f 0 bs = some bs := by
  cases f <;> rfl

/-- one step over an object whose size and follow-up count `sizeOf1` reports -/
theorem skipN_step (E body : Bytes) (more f p : Nat) (h : sizeOf1 (E ++ body) = some (E.length, more)) :
    skipN (f + 1) (p + 1) (E ++ body) = skipN f (p + more) body := by
  simp only [skipN, h, takeN_append]

theorem sizeOf1_encUint (n : Nat) (h : n < 18446744073709551616) (r : Bytes) :
    sizeOf1 (encUint n ++ r) = some ((encUint n).length, 0) := by
  unfold encUint
  split
  · rename_i h1; simp [sizeOf1, h1]
  · split
    · simp [sizeOf1, takeN]
    · split
      · simp [sizeOf1, be_length]
      · split
        · simp [sizeOf1, be_length]
        · simp [sizeOf1, be_length]

theorem sizeOf1_encInt (i : Int) (r : Bytes) : sizeOf1 (encInt i ++ r) = some ((encInt i).length, 0) := by
  unfold encInt
  split
  · split
    · rename_i h1 h2
      have : i.toNat ≤ 127 := by omega
      simp [sizeOf1, this]
    · split
      · simp [sizeOf1, be_length]
      · split
        · simp [sizeOf1, be_length]
        · simp [sizeOf1, be_length]
  · split
    · rename_i h1 h2
      have a1 : ¬ twos 1 i ≤ 127 := by rw [twos1]; omega
      have a2 : ¬ twos 1 i ≤ 143 := by rw [twos1]; omega
      have a3 : ¬ twos 1 i ≤ 159 := by rw [twos1]; omega
      have a4 : ¬ twos 1 i ≤ 191 := by rw [twos1]; omega
      have a5 : 224 ≤ twos 1 i := by rw [twos1]; omega
      simp [sizeOf1, a1, a2, a3, a4, a5]
    · split
      · simp [sizeOf1]
      · split
        · simp [sizeOf1, be_length]
        · split
          · simp [sizeOf1, be_length]
          · simp [sizeOf1, be_length]

theorem sizeOf1_encStr (s : Bytes) (h : s.length < 4294967296) (r : Bytes) :
    sizeOf1 (encStr s ++ r) = some ((encStr s).length, 0) := by
  unfold encStr encStrHdr
  split
  · rename_i h1
    have a1 : ¬ 160 + s.length ≤ 127 := by omega
    have a2 : ¬ 160 + s.length ≤ 143 := by omega
    have a3 : ¬ 160 + s.length ≤ 159 := by omega
    have a4 : 160 + s.length ≤ 191 := by omega
    simp [sizeOf1, a1, a2, a3, a4]; omega
  · split
    · simp [sizeOf1, takeN, ofBe]; omega
    · split
      · rename_i h1 h2 h3
        simp [sizeOf1, List.append_assoc, takeN_be, ofBe_be2 s.length (by omega), be_length]; omega
      · simp [sizeOf1, List.append_assoc, takeN_be, ofBe_be4 s.length h, be_length]; omega

theorem sizeOf1_encBin (s : Bytes) (h : s.length < 4294967296) (r : Bytes) :
    sizeOf1 (encBinHdr s.length ++ s ++ r) = some ((encBinHdr s.length ++ s).length, 0) := by
  unfold encBinHdr
  split
  · simp [sizeOf1, takeN, ofBe]; omega
  · split
    · rename_i h1 h2
      simp [sizeOf1, List.append_assoc, takeN_be, ofBe_be2 s.length (by omega), be_length]; omega
    · simp [sizeOf1, List.append_assoc, takeN_be, ofBe_be4 s.length h, be_length]; omega

theorem sizeOf1_arrHdr (n : Nat) (h : n < 4294967296) (r : Bytes) :
    sizeOf1 (encArrHdr n ++ r) = some ((encArrHdr n).length, n) := by
  unfold encArrHdr
  split
  · rename_i h1
    have a1 : ¬ 144 + n ≤ 127 := by omega
    have a2 : ¬ 144 + n ≤ 143 := by omega
    have a3 : 144 + n ≤ 159 := by omega
    simp [sizeOf1, a1, a2, a3]
  · split
    · simp [sizeOf1, takeN_be, ofBe_be2 n (by omega), be_length]
    · simp [sizeOf1, takeN_be, ofBe_be4 n h, be_length]

theorem sizeOf1_mapHdr (n : Nat) (h : n < 4294967296) (r : Bytes) :
    sizeOf1 (encMapHdr n ++ r) = some ((encMapHdr n).length, 2 * n) := by
  unfold encMapHdr
  split
  · rename_i h1
    have a1 : ¬ 128 + n ≤ 127 := by omega
    have a2 : 128 + n ≤ 143 := by omega
    simp [sizeOf1, a1, a2]
  · split
    · simp [sizeOf1, takeN_be, ofBe_be2 n (by omega), be_length]
    · simp [sizeOf1, takeN_be, ofBe_be4 n h, be_length]


theorem skipN_scalar (E rest : Bytes) (f p : Nat) (h : sizeOf1 (E ++ rest) = some (E.length, 0)) :
    skipN (f + 1) (p + 1) (E ++ rest) = skipN f p rest := by
  have := skipN_step E rest 0 f p h
  simpa using this

mutual
theorem skip_enc (v : Val) (t : Ty) (f p : Nat) (rest : Bytes) (h : wt t v = true) :
    skipN (f + objs t v) (p + 1) (enc t v ++ rest) = skipN f p rest := by
  cases v with
  | int i => cases t <;> simp [wt] at h; simp only [enc, objs]; exact skipN_scalar _ _ _ _ (sizeOf1_encInt i rest)
  | uint n => cases t <;> simp [wt] at h; simp only [enc, objs]; exact skipN_scalar _ _ _ _ (sizeOf1_encUint n h rest)
  | bool b =>
    cases t <;> simp [wt] at h
    simp only [enc, objs]
    cases b <;> exact skipN_scalar _ _ _ _ (by simp [sizeOf1])
  | str s => cases t <;> simp [wt] at h; simp only [enc, objs]; exact skipN_scalar _ _ _ _ (sizeOf1_encStr s h rest)
  | bin s => cases t <;> simp [wt] at h; simp only [enc, objs]; exact skipN_scalar _ _ _ _ (sizeOf1_encBin s h rest)
  | f64 b =>
    cases t <;> simp [wt] at h
    simp only [enc, objs]
    exact skipN_scalar _ _ _ _ (by simp [sizeOf1, be_length])
  | f32 b =>
    cases t <;> simp [wt] at h
    simp only [enc, objs]
    exact skipN_scalar _ _ _ _ (by simp [sizeOf1, be_length])
  | time s ns =>
    cases t <;> simp [wt] at h
    simp only [enc, objs]
    exact skipN_scalar _ _ _ _ (by simp [sizeOf1, takeN, ofBe, be_length])
  | arr vs =>
    cases t <;> simp [wt] at h
    · rename_i e
      simp only [enc, objs, List.append_assoc]
      rw [show f + (1 + objsList e vs) = (f + objsList e vs) + 1 by omega,
        skipN_step _ _ vs.length _ _ (sizeOf1_arrHdr _ h.1 _)]
      exact skip_encList vs e f p rest h.2
    · rename_i n e
      simp only [enc, objs, List.append_assoc]
      rw [show f + (1 + objsList e vs) = (f + objsList e vs) + 1 by omega,
        skipN_step _ _ n _ _ (sizeOf1_arrHdr _ h.1.2 _)]
      rw [← h.1.1]
      exact skip_encList vs e f p rest h.2
    · rename_i fs
      simp only [enc, objs, List.append_assoc]
      rw [show f + (1 + objsFields fs vs) = (f + objsFields fs vs) + 1 by omega,
        skipN_step _ _ (2 * fs.length) _ _ (sizeOf1_mapHdr _ h.1 _)]
      exact skip_encFields vs fs f p rest h.2
    · rename_i keep fs
      simp only [enc, objs, List.append_assoc]
      rw [show f + (1 + objsFields fs vs) = (f + objsFields fs vs) + 1 by omega,
        skipN_step _ _ (2 * fs.length) _ _ (sizeOf1_mapHdr _ h.1 _)]
      exact skip_encFields vs fs f p rest h.2
  | map kvs =>
    cases t <;> simp [wt] at h
    rename_i e
    simp only [enc, objs, List.append_assoc]
    rw [show f + (1 + objsKVs e kvs) = (f + objsKVs e kvs) + 1 by omega,
      skipN_step _ _ (2 * kvs.length) _ _ (sizeOf1_mapHdr _ h.1.1 _)]
    exact skip_encKVs kvs e f p rest h.2
  | null =>
    cases t <;> simp [wt] at h
    simp only [enc, objs]
    exact skipN_scalar _ _ _ _ (by simp [sizeOf1])
  | some v' =>
    cases t <;> simp [wt] at h
    rename_i e
    simp only [enc, objs]
    exact skip_enc v' e f p rest h.1
  | alt i v' =>
    cases t <;> simp [wt] at h
    rename_i alts
    cases hty : alts.tyAt i with
    | none => cases hnm : alts.nameAt i <;> simp [hnm, hty] at h
    | some t' =>
      cases hnm : alts.nameAt i with
      | none => simp [hnm, hty] at h
      | some n =>
        simp only [hnm, hty, Bool.and_eq_true] at h
        simp only [enc, objs, hty]
        exact skip_enc v' t' f p rest h.1
termination_by sizeOf v

theorem skip_encList (vs : Vals) (e : Ty) (f p : Nat) (rest : Bytes) (h : wtList e vs = true) :
    skipN (f + objsList e vs) (p + vs.length) (encList e vs ++ rest) = skipN f p rest := by
  cases vs with
  | nil => simp [encList, objsList, Vals.length]
  | cons v r =>
    simp only [wtList, Bool.and_eq_true] at h
    simp only [encList, objsList, Vals.length, List.append_assoc]
    rw [show f + (objs e v + objsList e r) = (f + objsList e r) + objs e v by omega,
      show p + (r.length + 1) = (p + r.length) + 1 by omega, skip_enc v e _ _ _ h.1]
    exact skip_encList r e f p rest h.2
termination_by sizeOf vs

theorem skip_encKVs (kvs : KVs) (e : Ty) (f p : Nat) (rest : Bytes) (h : wtKVs e kvs = true) :
    skipN (f + objsKVs e kvs) (p + 2 * kvs.length) (encKVs e kvs ++ rest) = skipN f p rest := by
  cases kvs with
  | nil => simp [encKVs, objsKVs, KVs.length]
  | cons k v r =>
    simp only [wtKVs, Bool.and_eq_true, decide_eq_true_eq] at h
    simp only [encKVs, objsKVs, KVs.length, List.append_assoc]
    rw [show f + (1 + objs e v + objsKVs e r) = (f + objsKVs e r + objs e v) + 1 by omega,
      show p + 2 * (r.length + 1) = (p + 2 * r.length + 1) + 1 by omega,
      skipN_scalar _ _ _ _ (sizeOf1_encStr k h.1.1 _), skip_enc v e _ _ _ h.1.2]
    exact skip_encKVs r e f p rest h.2
termination_by sizeOf kvs

theorem skip_encFields (vs : Vals) (fs : Fields) (f p : Nat) (rest : Bytes) (h : wtFields fs vs = true) :
    skipN (f + objsFields fs vs) (p + 2 * fs.length) (encFields fs vs ++ rest) = skipN f p rest := by
  cases fs with
  | nil =>
    cases vs with
    | nil => simp [encFields, objsFields, Fields.length]
    | cons v r => simp [wtFields] at h
  | cons n t fs' =>
    cases vs with
    | nil => simp [wtFields] at h
    | cons v vs' =>
      simp only [wtFields, Bool.and_eq_true, decide_eq_true_eq] at h
      simp only [encFields, objsFields, Fields.length, List.append_assoc]
      rw [show f + (1 + objs t v + objsFields fs' vs') = (f + objsFields fs' vs' + objs t v) + 1 by omega,
        show p + 2 * (fs'.length + 1) = (p + 2 * fs'.length + 1) + 1 by omega,
        skipN_scalar _ _ _ _ (sizeOf1_encStr n h.1.1 _), skip_enc v t _ _ _ h.1.2]
      exact skip_encFields vs' fs' f p rest h.2
termination_by sizeOf vs
end


/-! ### every object takes at least one byte, so the fuel of `skip` suffices -/

theorem headOk_length (bs : Bytes) (h : HeadOk bs) : 1 ≤ bs.length := by
  obtain ⟨b, tl, h1, _⟩ := h
  simp [h1]

theorem encStr_length_pos (s : Bytes) : 1 ≤ (encStr s).length := by
  have := headOk_length _ (encStrHdr_head s.length)
  simp only [encStr, List.length_append]; omega

mutual
theorem objs_le (v : Val) (t : Ty) (h : wt t v = true) : objs t v ≤ (enc t v).length := by
  cases v with
  | int i => cases t <;> simp [wt] at h; simp only [enc, objs]; exact headOk_length _ (encInt_head i)
  | uint n => cases t <;> simp [wt] at h; simp only [enc, objs]; exact headOk_length _ (encUint_head n)
  | bool b => cases t <;> simp [wt] at h; simp [enc, objs]
  | str s => cases t <;> simp [wt] at h; simp only [enc, objs]; exact encStr_length_pos s
  | bin s =>
    cases t <;> simp [wt] at h
    simp only [enc, objs, List.length_append]
    have := headOk_length _ (encBinHdr_head s.length); omega
  | f64 b => cases t <;> simp [wt] at h; simp [enc, objs]
  | f32 b => cases t <;> simp [wt] at h; simp [enc, objs]
  | time s ns => cases t <;> simp [wt] at h; simp [enc, objs]
  | arr vs =>
    cases t <;> simp [wt] at h
    · rename_i e
      simp only [enc, objs, List.length_append]
      have := headOk_length _ (encArrHdr_head vs.length); have := objsList_le vs e h.2; omega
    · rename_i n e
      simp only [enc, objs, List.length_append]
      have := headOk_length _ (encArrHdr_head n); have := objsList_le vs e h.2; omega
    · rename_i fs
      simp only [enc, objs, List.length_append]
      have := headOk_length _ (encMapHdr_head fs.length); have := objsFields_le vs fs h.2; omega
    · rename_i keep fs
      simp only [enc, objs, List.length_append]
      have := headOk_length _ (encMapHdr_head fs.length); have := objsFields_le vs fs h.2; omega
  | map kvs =>
    cases t <;> simp [wt] at h
    rename_i e
    simp only [enc, objs, List.length_append]
    have := headOk_length _ (encMapHdr_head kvs.length); have := objsKVs_le kvs e h.2; omega
  | null => cases t <;> simp [wt] at h; simp [enc, objs]
  | some v' =>
    cases t <;> simp [wt] at h
    rename_i e
    simp only [enc, objs]
    exact objs_le v' e h.1
  | alt i v' =>
    cases t <;> simp [wt] at h
    rename_i alts
    cases hty : alts.tyAt i with
    | none => cases hnm : alts.nameAt i <;> simp [hnm, hty] at h
    | some t' =>
      cases hnm : alts.nameAt i with
      | none => simp [hnm, hty] at h
      | some n =>
        simp only [hnm, hty, Bool.and_eq_true] at h
        simp only [enc, objs, hty]
        exact objs_le v' t' h.1
termination_by sizeOf v

theorem objsList_le (vs : Vals) (e : Ty) (h : wtList e vs = true) : objsList e vs ≤ (encList e vs).length := by
  cases vs with
  | nil => simp [objsList]
  | cons v r =>
    simp only [wtList, Bool.and_eq_true] at h
    simp only [encList, objsList, List.length_append]
    have := objs_le v e h.1; have := objsList_le r e h.2; omega
termination_by sizeOf vs

theorem objsKVs_le (kvs : KVs) (e : Ty) (h : wtKVs e kvs = true) : objsKVs e kvs ≤ (encKVs e kvs).length := by
  cases kvs with
  | nil => simp [objsKVs]
  | cons k v r =>
    simp only [wtKVs, Bool.and_eq_true] at h
    simp only [encKVs, objsKVs, List.length_append]
    have := encStr_length_pos k; have := objs_le v e h.1.2; have := objsKVs_le r e h.2; omega
termination_by sizeOf kvs

theorem objsFields_le (vs : Vals) (fs : Fields) (h : wtFields fs vs = true) : objsFields fs vs ≤ (encFields fs vs).length := by
  cases fs with
  | nil => cases vs <;> simp [objsFields]
  | cons n t fs' =>
    cases vs with
    | nil => simp [objsFields]
    | cons v vs' =>
      simp only [wtFields, Bool.and_eq_true] at h
      simp only [encFields, objsFields, List.length_append]
      have := encStr_length_pos n; have := objs_le v t h.1.2; have := objsFields_le vs' fs' h.2; omega
termination_by sizeOf vs
end

/-- **`msgp.Skip` on an encoded value** returns exactly what follows it. -/
theorem skip_enc_ok (v : Val) (t : Ty) (rest : Bytes) (h : wt t v = true) : skip (enc t v ++ rest) = some rest := by
  unfold skip
  have hb := objs_le v t h
  have hf : (enc t v ++ rest).length + 1 = ((enc t v ++ rest).length + 1 - objs t v) + objs t v := by
    simp only [List.length_append]; omega
  rw [hf, show (1 : Nat) = 0 + 1 from rfl, skip_enc v t _ 0 rest h, skipN_zero]

/-! ### the version peek of an entity wrapper -/

theorem peekLoop_enc : (fs : Fields) → (vs : Vals) → (acc rest : Bytes) → wtFields fs vs = true → versionIsStr fs = true →
    peekVersionLoop fs.length acc (encFields fs vs ++ rest) = some (versionOf fs vs acc)
  | .nil, .nil, acc, rest, _, _ => by simp [Fields.length, peekVersionLoop, versionOf]
  | .nil, .cons _ _, _, _, h, _ => by simp [wtFields] at h
  | .cons _ _ _, .nil, _, _, h, _ => by simp [wtFields] at h
  | .cons n t fs, .cons v vs, acc, rest, h, hv => by
    simp only [wtFields, Bool.and_eq_true, decide_eq_true_eq] at h
    simp only [versionIsStr, Bool.and_eq_true] at hv
    simp only [Fields.length, encFields, peekVersionLoop, List.append_assoc]
    rw [decStr_encStr n h.1.1]
    simp only
    by_cases hk : n = kVersion
    · simp only [hk, if_true] at hv ⊢
      cases t <;> simp at hv
      cases v <;> simp [wt] at h
      rename_i s
      simp only [enc, versionOf, hk, if_true]
      rw [decStr_encStr s h.1.2]
      simp only
      exact peekLoop_enc fs vs s rest h.2 hv
    · simp only [hk, if_false]
      rw [skip_enc_ok v t _ h.1.2]
      simp only [versionOf, hk, if_false]
      exact peekLoop_enc fs vs acc rest h.2 hv.2

theorem peekVersion_enc (fs : Fields) (vs : Vals) (rest : Bytes) (h : wt (.struct fs) (.arr vs) = true)
    (hv : versionIsStr fs = true) : peekVersion (enc (.struct fs) (.arr vs) ++ rest) = some (versionOf fs vs []) := by
  simp only [wt, Bool.and_eq_true, decide_eq_true_eq] at h
  simp only [enc, peekVersion, List.append_assoc]
  rw [decMapHdr_enc _ h.1]
  simp only
  exact peekLoop_enc fs vs [] rest h.2 hv


/-! ### entity wrappers -/


theorem Fields.tyAt_of_get? : (fs : Fields) → (i : Nat) → (n : Bytes) → (t : Ty) → fs.get? i = some (n, t) → fs.tyAt i = some t
  | .nil, _, _, _, h => by simp [Fields.get?] at h
  | .cons n0 t0 r, 0, n, t, h => by
    simp only [Fields.get?, Option.some.injEq, Prod.mk.injEq] at h
    simp [Fields.tyAt, h.2]
  | .cons n0 t0 r, j + 1, n, t, h => by
    simp only [Fields.get?] at h
    simp [Fields.tyAt, Fields.tyAt_of_get? r j n t h]

/-- with distinct version strings, the version string selects its own alternative -/
theorem decAlt_get : (alts : Fields) → alts.names.Nodup → (i : Nat) → (n : Bytes) → (t : Ty) → (bs : Bytes) →
    alts.get? i = some (n, t) → decAlt alts n bs = (dec t bs).map fun (v, r) => (.alt i v, r)
  | .nil, _, _, _, _, _, h => by simp [Fields.get?] at h
  | .cons n0 t0 r, hn, 0, n, t, bs, h => by
    simp only [Fields.get?, Option.some.injEq, Prod.mk.injEq] at h
    obtain ⟨h1, h2⟩ := h
    subst h1; subst h2
    simp [decAlt]
  | .cons n0 t0 r, hn, j + 1, n, t, bs, h => by
    simp only [Fields.names, List.nodup_cons] at hn
    simp only [Fields.get?] at h
    have hm := Fields.get?_mem_names r j n t h
    have hne : ¬ n0 = n := by
      intro e; rw [e] at hn; exact hn.1 hm
    simp only [decAlt, hne, if_false]
    rw [decAlt_get r hn.2 j n t bs h]
    cases dec t bs with
    | none => rfl
    | some p => rfl


/-! ### decoding undoes encoding -/


theorem good_struct (fs : Fields) (h : good (.struct fs) = true) : fs.names.Nodup ∧ goodFields fs = true := by
  simpa [good] using h

theorem ptr_nonnil (e : Ty) (bs rest : Bytes) (h : HeadOk bs) :
    dec (.ptr e) (bs ++ rest) = (dec e (bs ++ rest)).map fun (v, r) => (.some v, r) := by
  obtain ⟨b, tl, h1, h2⟩ := h
  subst h1
  simp only [List.cons_append, dec]
  split
  · rename_i heq
    simp only [List.cons.injEq] at heq
    exact absurd heq.1 h2
  · rfl

theorem keepOnly_all (keep : List Bytes) : (fs : Fields) → (vs zs : Vals) → Fields.allKept keep fs = true →
    vs.length = fs.length → zs.length = fs.length → keepOnly keep fs vs zs = vs
  | .nil, .nil, _, _, _, _ => by cases ‹Vals› <;> simp [keepOnly]
  | .nil, .cons _ _, _, _, h, _ => by simp [Vals.length, Fields.length] at h
  | .cons _ _ _, .nil, _, _, h, _ => by simp [Vals.length, Fields.length] at h
  | .cons _ _ _, .cons _ _, .nil, _, _, h => by simp [Vals.length, Fields.length] at h
  | .cons n t r, .cons v vs, .cons z zs, hk, h1, h2 => by
    simp only [Fields.allKept, Bool.and_eq_true] at hk
    simp only [Vals.length, Fields.length] at h1 h2
    simp only [keepOnly, hk.1, if_true]
    rw [keepOnly_all keep r vs zs hk.2 (by omega) (by omega)]

mutual
theorem dec_enc (v : Val) (t : Ty) (rest : Bytes) (h : wt t v = true) (hg : good t = true) :
    dec t (enc t v ++ rest) = some (v, rest) := by
  cases v with
  | int i =>
    cases t <;> simp [wt] at h
    simp only [enc, dec]; rw [decInt_encInt i h.1 h.2]; rfl
  | uint n =>
    cases t <;> simp [wt] at h
    simp only [enc, dec]; rw [decUint_encUint n h]; rfl
  | bool b =>
    cases t <;> simp [wt] at h
    cases b <;> simp [enc, dec, decBool]
  | str s =>
    cases t <;> simp [wt] at h
    simp only [enc, dec]; rw [decStr_encStr s h]; rfl
  | bin s =>
    cases t <;> simp [wt] at h
    simp only [enc, dec]; rw [decBin_enc s h]; rfl
  | f64 b =>
    cases t <;> simp [wt] at h
    simp only [enc, dec, List.cons_append]
    rw [takeN_be]; simp [ofBe_be8 b h]
  | f32 b =>
    cases t <;> simp [wt] at h
    simp only [enc, dec, List.cons_append]
    rw [takeN_be]; simp [ofBe_be4 b h]
  | time s ns =>
    cases t <;> simp [wt] at h
    simp only [enc, dec, List.cons_append, List.append_assoc, List.nil_append]
    rw [takeN_be]
    simp only [Option.bind_some]
    rw [takeN_be]
    simp [ofBe_be8 _ (twos8_lt s), ofBe_be4 ns h.2.2, untwos_twos8 s h.1 h.2.1]
  | arr vs =>
    cases t <;> simp [wt] at h
    · rename_i e
      simp only [enc, dec, List.append_assoc]
      rw [decArrHdr_enc _ h.1]
      simp only
      rw [decList_enc vs e rest h.2 (by simpa [good] using hg)]; rfl
    · rename_i n e
      simp only [enc, dec, List.append_assoc]
      rw [decArrHdr_enc _ h.1.2]
      simp only [if_true]
      have := decList_enc vs e rest h.2 (by simpa [good] using hg)
      rw [h.1.1] at this
      rw [this]; rfl
    · rename_i fs
      obtain ⟨hn, hgf⟩ := good_struct fs hg
      have hl := wtFields_length fs vs h.2
      simp only [enc, dec, List.append_assoc]
      rw [decMapHdr_enc _ h.1]
      simp only
      have := loop_enc vs fs fs vs (zeroFields fs) 0 rest h.2 hgf
        (fun j n t hj => by rw [Nat.zero_add]; exact decField_get fs hn j n t hj)
        (fun j => by rw [Nat.zero_add])
        (by rw [zeroFields_length]; omega)
      simp only [mix, Nat.zero_add] at this
      rw [this]
      have hm := mix_full vs (zeroFields fs) (by rw [zeroFields_length, hl])
      rw [hl] at hm
      rw [hm]; rfl
    · rename_i keep fs
      have hg' : Fields.allKept keep fs = true ∧ fs.names.Nodup ∧ goodFields fs = true := by
        simpa [good, and_assoc] using hg
      obtain ⟨hk, hn, hgf⟩ := hg'
      have hl := wtFields_length fs vs h.2
      simp only [enc, dec, List.append_assoc]
      rw [decMapHdr_enc _ h.1]
      simp only
      have := loop_enc vs fs fs vs (zeroFields fs) 0 rest h.2 hgf
        (fun j n t hj => by rw [Nat.zero_add]; exact decField_get fs hn j n t hj)
        (fun j => by rw [Nat.zero_add])
        (by rw [zeroFields_length]; omega)
      simp only [mix, Nat.zero_add] at this
      rw [this]
      have hm := mix_full vs (zeroFields fs) (by rw [zeroFields_length, hl])
      rw [hl] at hm
      rw [hm]
      simp only [Option.map_some]
      rw [keepOnly_all keep fs vs (zeroFields fs) hk (by rw [hl]) (by rw [zeroFields_length])]
  | map kvs =>
    cases t <;> simp [wt] at h
    rename_i e
    simp only [enc, dec, List.append_assoc]
    rw [decMapHdr_enc _ h.1.1]
    simp only
    have := decKVs_enc kvs e rest .nil none h.2 h.1.2 (by simpa [good] using hg) (by simp [KVs.keys])
    rw [this]; rfl
  | null =>
    cases t <;> simp [wt] at h
    simp [enc, dec]
  | some v' =>
    cases t <;> simp [wt] at h
    rename_i e
    have hge : good e = true := by simpa [good] using hg
    simp only [enc]
    rw [ptr_nonnil e _ rest (enc_head v' e h.1 hge h.2), dec_enc v' e rest h.1 hge]; rfl
  | alt i v' =>
    cases t <;> simp [wt] at h
    rename_i alts
    cases hnm : alts.nameAt i with
    | none => simp [hnm] at h
    | some n =>
      cases hty : alts.tyAt i with
      | none => simp [hnm, hty] at h
      | some t' =>
        simp only [hnm, hty, Bool.and_eq_true] at h
        obtain ⟨hw', hvo⟩ := h
        have hg' : (Fields.names alts).Nodup ∧ goodAlts alts = true := by simpa [good] using hg
        have hget : alts.get? i = some (n, t') := Fields.get?_of_at alts i n t' hnm hty
        obtain ⟨fs, hfs, hvs, hgt⟩ := goodAlts_at alts i t' hg'.2 hty
        subst hfs
        cases v' <;> simp [versionOk] at hvo
        rename_i vs
        have e1 : enc (.union alts) (.alt i (.arr vs)) = enc (.struct fs) (.arr vs) := by simp [enc, hty]
        rw [e1]
        simp only [dec]
        rw [peekVersion_enc fs vs rest hw' hvs]
        simp only [hvo]
        rw [decAlt_get alts hg'.1 i n (.struct fs) _ hget, dec_enc (.arr vs) (.struct fs) rest hw' hgt]
        rfl
termination_by sizeOf v

theorem decList_enc (vs : Vals) (e : Ty) (rest : Bytes) (h : wtList e vs = true) (hg : good e = true) :
    decList (dec e) vs.length (encList e vs ++ rest) = some (vs, rest) := by
  cases vs with
  | nil => simp [encList, Vals.length, decList]
  | cons v r =>
    simp only [wtList, Bool.and_eq_true] at h
    simp only [encList, Vals.length, decList, List.append_assoc]
    rw [dec_enc v e _ h.1 hg]
    simp only
    rw [decList_enc r e rest h.2 hg]
termination_by sizeOf vs

theorem decKVs_enc (kvs : KVs) (e : Ty) (rest : Bytes) (acc : KVs) (lo : Option Bytes)
    (h : wtKVs e kvs = true) (hs : kvs.keysAbove lo = true) (hg : good e = true)
    (hacc : ∀ k' ∈ acc.keys, ∃ l, lo = some l ∧ (k' = l ∨ k' < l)) :
    decKVs (dec e) kvs.length acc (encKVs e kvs ++ rest) = some (acc.append kvs, rest) := by
  cases kvs with
  | nil => simp [encKVs, KVs.length, decKVs, KVs.append_nil]
  | cons k v r =>
    simp only [wtKVs, Bool.and_eq_true, decide_eq_true_eq] at h
    simp only [KVs.keysAbove, Bool.and_eq_true] at hs
    simp only [encKVs, KVs.length, decKVs, List.append_assoc]
    rw [decStr_encStr k h.1.1]
    simp only
    rw [dec_enc v e _ h.1.2 hg]
    simp only
    have hbelow : ∀ k' ∈ acc.keys, k' < k := by
      intro k' hk'
      obtain ⟨l, hl, hle⟩ := hacc k' hk'
      have hlk : l < k := by
        have := hs.1
        rw [hl] at this
        simpa using this
      rcases hle with hle | hle
      · rw [hle]; exact hlk
      · exact List.lt_trans hle hlk
    rw [KVs.insert_above acc k v hbelow]
    rw [decKVs_enc r e rest (acc.append (.cons k v .nil)) (some k) h.2 hs.2 hg (by
      intro k' hk'
      rw [KVs.keys_append] at hk'
      simp only [KVs.keys, List.mem_append, List.mem_singleton] at hk'
      rcases hk' with hk' | hk'
      · exact ⟨k, rfl, Or.inr (hbelow k' hk')⟩
      · exact ⟨k, rfl, Or.inl hk'⟩)]
    rw [KVs.append_assoc]; rfl
termination_by sizeOf kvs

theorem loop_enc (vs : Vals) (suf fsAll : Fields) (vsAll zs : Vals) (k : Nat) (rest : Bytes)
    (hw : wtFields suf vs = true) (hg : goodFields suf = true)
    (H1 : ∀ j n t, suf.get? j = some (n, t) → decField fsAll (n) = some (k + j, dec t))
    (H2 : ∀ j, vsAll.get (k + j) = vs.get j)
    (hlen : k + suf.length ≤ zs.length) :
    structLoop (decField fsAll) suf.length (mix k vsAll zs) (encFields suf vs ++ rest) =
      some (mix (k + suf.length) vsAll zs, rest) := by
  cases suf with
  | nil =>
    cases vs with
    | nil => simp [encFields, Fields.length, structLoop]
    | cons v r => simp [wtFields] at hw
  | cons n t suf' =>
    cases vs with
    | nil => simp [wtFields] at hw
    | cons v vs' =>
      simp only [wtFields, Bool.and_eq_true] at hw
      simp only [goodFields, Bool.and_eq_true, decide_eq_true_eq] at hg
      simp only [Fields.length] at hlen
      simp only [encFields, Fields.length, structLoop, List.append_assoc]
      rw [decStr_encStr _ hg.1.1]
      simp only
      have h1 := H1 0 n t (by simp [Fields.get?])
      rw [Nat.add_zero] at h1
      rw [h1]
      simp only
      rw [dec_enc v t _ hw.1.2 hg.1.2]
      simp only
      have h2 := H2 0
      simp only [Nat.add_zero, Vals.get] at h2
      rw [mix_set k vsAll zs v h2 (by omega)]
      have := loop_enc vs' suf' fsAll vsAll zs (k + 1) rest hw.2 hg.2
        (fun j n' t' hj => by
          have := H1 (j + 1) n' t' (by simpa [Fields.get?] using hj)
          rw [show k + 1 + j = k + (j + 1) by omega]; exact this)
        (fun j => by
          have := H2 (j + 1)
          simp only [Vals.get] at this
          rw [show k + 1 + j = k + (j + 1) by omega]; exact this)
        (by omega)
      rw [this, show k + 1 + suf'.length = k + (suf'.length + 1) by omega]
termination_by sizeOf vs
end



/-! ### the fixed layout of State -/

theorem le_length (w n : Nat) : (le w n).length = w := by
  induction w generalizing n with
  | zero => rfl
  | succ k ih => simp [le, ih]

theorem takeN_le (w n : Nat) (r : Bytes) : takeN w (le w n ++ r) = some (le w n, r) := by
  have := takeN_append (le w n) r
  rwa [le_length] at this

theorem ofLe_le8 (n : Nat) (h : n < 18446744073709551616) : ofLe (le 8 n) = n := by
  simp [le, ofLe]; omega

/-! ### Vals.get / Vals.set -/

theorem Vals.get_set : (vs : Vals) → (i j : Nat) → (v : Val) →
    (vs.set i v).get j = if i = j ∧ i < vs.length then some v else vs.get j
  | .nil, i, j, v => by simp [Vals.set, Vals.get, Vals.length]
  | .cons x r, 0, 0, v => by simp [Vals.set, Vals.get, Vals.length]
  | .cons x r, 0, j + 1, v => by simp [Vals.set, Vals.get]
  | .cons x r, i + 1, 0, v => by simp [Vals.set, Vals.get]
  | .cons x r, i + 1, j + 1, v => by
    simp only [Vals.set, Vals.get, Vals.length]
    rw [Vals.get_set r i j v]
    simp

theorem Vals.length_set : (vs : Vals) → (i : Nat) → (v : Val) → (vs.set i v).length = vs.length
  | .nil, _, _ => rfl
  | .cons x r, 0, v => rfl
  | .cons x r, i + 1, v => by simp [Vals.set, Vals.length, Vals.length_set r i v]

theorem Fields.index_lt : (fs : Fields) → (n : Bytes) → (i : Nat) → fs.index n = some i → i < fs.length
  | .nil, _, _, h => by simp [Fields.index] at h
  | .cons n0 t r, n, i, h => by
    simp only [Fields.index] at h
    split at h
    · simp only [Option.some.injEq] at h; subst h; simp [Fields.length]
    · cases hr : r.index n with
      | none => simp [hr] at h
      | some j =>
        simp only [hr, Option.map_some, Option.some.injEq] at h
        subst h
        have := Fields.index_lt r n j hr
        simp [Fields.length]; omega

/-- two keys with the same position are the same key -/
theorem Fields.index_inj : (fs : Fields) → (a b : Bytes) → (i : Nat) → fs.index a = some i → fs.index b = some i → a = b
  | .nil, _, _, _, h, _ => by simp [Fields.index] at h
  | .cons n0 t r, a, b, i, ha, hb => by
    simp only [Fields.index] at ha hb
    by_cases h1 : n0 = a
    · by_cases h2 : n0 = b
      · rw [← h1, ← h2]
      · simp only [h1, if_true, Option.some.injEq] at ha
        simp only [h2, if_false] at hb
        cases hr : r.index b with
        | none => simp [hr] at hb
        | some j => simp [hr] at hb; omega
    · by_cases h2 : n0 = b
      · simp only [h2, if_true, Option.some.injEq] at hb
        simp only [h1, if_false] at ha
        cases hr : r.index a with
        | none => simp [hr] at ha
        | some j => simp [hr] at ha; omega
      · simp only [h1, h2, if_false] at ha hb
        cases hra : r.index a with
        | none => simp [hra] at ha
        | some ja =>
          cases hrb : r.index b with
          | none => simp [hrb] at hb
          | some jb =>
            simp only [hra, hrb, Option.map_some, Option.some.injEq] at ha hb
            exact Fields.index_inj r a b ja hra (by rw [hrb]; congr 1; omega)

/-! ### migration -/

def migStep (fromFs toFs : Fields) (old : Vals) (acc : Vals) (name : Bytes) : Vals :=
  match fieldOf fromFs old name, toFs.index name with
  | some v, some i => acc.set i v
  | _, _ => acc

theorem migStep_length (fromFs toFs : Fields) (old acc : Vals) (c : Bytes) :
    (migStep fromFs toFs old acc c).length = acc.length := by
  unfold migStep
  split
  · exact Vals.length_set _ _ _
  · rfl

theorem migStep_keeps (fromFs toFs : Fields) (old acc : Vals) (c name : Bytes) (v : Val) (j : Nat)
    (hfrom : fieldOf fromFs old name = some v) (hto : toFs.index name = some j)
    (hacc : acc.get j = some v) : (migStep fromFs toFs old acc c).get j = some v := by
  unfold migStep
  split
  · rename_i w i hw hi
    rw [Vals.get_set]
    split
    · rename_i hij
      have : c = name := Fields.index_inj toFs c name j (by rw [hi, hij.1]) hto
      subst this
      rw [hfrom] at hw
      exact hw.symm
    · exact hacc
  · exact hacc

theorem migFold_keeps (fromFs toFs : Fields) (old : Vals) (cs : List Bytes) (acc : Vals) (name : Bytes) (v : Val) (j : Nat)
    (hfrom : fieldOf fromFs old name = some v) (hto : toFs.index name = some j)
    (hacc : acc.get j = some v) : (cs.foldl (migStep fromFs toFs old) acc).get j = some v := by
  induction cs generalizing acc with
  | nil => exact hacc
  | cons c cs ih => exact ih _ (migStep_keeps fromFs toFs old acc c name v j hfrom hto hacc)

theorem migFold_sets (fromFs toFs : Fields) (old : Vals) (cs : List Bytes) (acc : Vals) (name : Bytes) (v : Val) (j : Nat)
    (hfrom : fieldOf fromFs old name = some v) (hto : toFs.index name = some j)
    (hlen : acc.length = toFs.length) (hmem : name ∈ cs) :
    (cs.foldl (migStep fromFs toFs old) acc).get j = some v := by
  induction cs generalizing acc with
  | nil => simp at hmem
  | cons c cs ih =>
    simp only [List.foldl_cons]
    by_cases hc : c = name
    · subst hc
      apply migFold_keeps fromFs toFs old cs _ c v j hfrom hto
      unfold migStep
      rw [hfrom, hto]
      simp only
      rw [Vals.get_set]
      have := Fields.index_lt toFs c j hto
      simp [hlen, this]
    · have : name ∈ cs := by
        simp only [List.mem_cons] at hmem
        rcases hmem with h | h
        · exact absurd h.symm hc
        · exact h
      exact ih _ (by rw [migStep_length, hlen]) this

theorem migrate_eq (fromFs toFs : Fields) (copied : List Bytes) (ver : Bytes) (old : Vals) :
    migrate fromFs toFs copied ver old =
      (match toFs.index kVersion with
       | some i => (copied.foldl (migStep fromFs toFs old) (zeroFields toFs)).set i (.str ver)
       | none => copied.foldl (migStep fromFs toFs old) (zeroFields toFs)) := rfl



end ZChain.Codec
