import ZChain.Proofs.StorageC13
/-!
Helper lemmas for C09 (liabilities of the storage contract against its wallet): sums of a value over a finite map
prefix, how point updates move them, and the list phases (`assignAll`, `extendAll`, `closeBlobbers`,
`creditValidators`).
-/
namespace ZChain.Storage

attribute [local irreducible] offer

def sumMap {α : Type} (f : Option α → Nat) (m : Map α) (n : Nat) : Nat := sumTo (fun i => f (m i)) n

theorem sumMap_le {α : Type} (f : Option α → Nat) (m : Map α) {k n : Nat} (hk : k < n) : f (m k) ≤ sumMap f m n := by
  unfold sumMap
  induction n with
  | zero => omega
  | succ n ih =>
    simp only [sumTo]
    by_cases h : k = n
    · subst h; omega
    · have := ih (by omega); omega

theorem sumMap_set {α : Type} (f : Option α → Nat) (m : Map α) {k n : Nat} (v : Option α) (hk : k < n) :
    sumMap f (m.set k v) n = sumMap f m n - f (m k) + f v := by
  unfold sumMap
  have := sumTo_update (f := fun i => f (m i)) (g := fun i => f ((m.set k v) i)) hk
    (fun x hx => by simp only [Map.set_other _ _ hx])
  simp only [Map.set_same] at this
  have hle := sumMap_le f m hk
  unfold sumMap at hle
  omega

theorem sumMap_push {α : Type} (f : Option α → Nat) (m : Map α) (n : Nat) (v : Option α) :
    sumMap f (m.set n v) (n + 1) = sumMap f m n + f v := by
  unfold sumMap
  simp only [sumTo, Map.set_same]
  congr 1
  exact sumTo_congr (fun k hk => by rw [Map.set_other _ _ (by omega)])

theorem sumMap_congr {α : Type} (f : Option α → Nat) {m m' : Map α} {n : Nat} (h : ∀ i, f (m' i) = f (m i)) :
    sumMap f m' n = sumMap f m n := by
  unfold sumMap; exact sumTo_congr (fun k _ => h k)

def wpOf : Option Alloc → Nat
  | some a => a.wp
  | none => 0

def natOf : Option Nat → Nat
  | some c => c
  | none => 0

/-- what a stake pool owes: delegate balances and unpaid rewards (incl. service charge) -/
def spVal : Option SP → Nat
  | some sp => sp.stake + sp.rewards
  | none => 0

/-- liabilities recorded by the contract: write pools, challenge pools, blobber and validator stake pools, read pools -/
def L (N : Nat) (s : State) : Nat :=
  sumMap wpOf s.allocs s.nallocs + sumMap natOf s.cps s.nallocs + sumMap spVal s.sps N + sumMap spVal s.vsps N + sumMap natOf s.rps N

/-- provider and read-pool indices stay below `N` -/
def Bounded (N : Nat) (s : State) : Prop := ∀ i, N ≤ i → s.sps i = none ∧ s.vsps i = none ∧ s.rps i = none

/-- allocation and challenge pool slots at or above `nallocs` are empty -/
def WF9 (s : State) : Prop := ∀ k, s.nallocs ≤ k → s.allocs k = none ∧ s.cps k = none

/-- the liabilities did not grow by more than the wallet did -/
def Backed (N : Nat) (s s' : State) : Prop := L N s' + s.wallet ≤ L N s + s'.wallet

theorem Bounded.sps_lt {N : Nat} {s : State} (b : Bounded N s) {i : Nat} {sp : SP} (h : s.sps i = some sp) : i < N := by
  by_cases hi : i < N
  · exact hi
  · rw [(b i (by omega)).1] at h; cases h

theorem Bounded.vsps_lt {N : Nat} {s : State} (b : Bounded N s) {i : Nat} {sp : SP} (h : s.vsps i = some sp) : i < N := by
  by_cases hi : i < N
  · exact hi
  · rw [(b i (by omega)).2.1] at h; cases h

theorem Bounded.rps_lt {N : Nat} {s : State} (b : Bounded N s) {i : Nat} {v : Nat} (h : s.rps i = some v) : i < N := by
  by_cases hi : i < N
  · exact hi
  · rw [(b i (by omega)).2.2] at h; cases h

theorem WF9.alloc_lt {s : State} (w : WF9 s) {k : Nat} {a : Alloc} (h : s.allocs k = some a) : k < s.nallocs := by
  by_cases hk : k < s.nallocs
  · exact hk
  · rw [(w k (by omega)).1] at h; cases h

/-- `creditValidators`: the validators' pools gain exactly the credited amounts -/
theorem creditValidators_sum {N : Nat} : ∀ {cr : List (Nat × Nat)} {vs vs' : Map SP},
    (∀ i, N ≤ i → vs i = none) → creditValidators vs cr = some vs' →
    sumMap spVal vs' N = sumMap spVal vs N + sumCredits cr ∧ (∀ i, N ≤ i → vs' i = none) := by
  intro cr
  induction cr with
  | nil => intro vs vs' hb h; simp only [creditValidators] at h; cases h; exact ⟨by simp [sumCredits], hb⟩
  | cons p ps ih =>
    intro vs vs' hb h
    obtain ⟨v, c⟩ := p
    simp only [creditValidators] at h
    split at h
    · cases h
    · rename_i sp hsp
      have hv : v < N := by
        by_cases hv : v < N
        · exact hv
        · rw [hb v (by omega)] at hsp; cases hsp
      have hb1 : ∀ i, N ≤ i → (vs.set v (some { sp with rewards := sp.rewards + c })) i = none := by
        intro i hi; rw [Map.set_other _ _ (by omega)]; exact hb i hi
      obtain ⟨e, hb'⟩ := ih hb1 h
      refine ⟨?_, hb'⟩
      rw [e, sumMap_set _ _ _ hv]
      have := sumMap_le spVal vs hv
      simp only [hsp, spVal, sumCredits] at this ⊢
      omega

/-- `closeBlobbers`: stake pools lose the slashed amounts and gain the credited ones -/
def sumDp : List (Nat × Nat) → Nat
  | [] => 0
  | (dp, _) :: rest => dp + sumDp rest

theorem closeBlobbers_sum {N : Nat} : ∀ {l : List BA} {per : List (Nat × Nat)} {s s' : State},
    (∀ i, N ≤ i → s.sps i = none) → closeBlobbers s l per = some s' →
    sumMap spVal s'.sps N + sumDp per = sumMap spVal s.sps N + sumCr per := by
  intro l
  induction l with
  | nil =>
    intro per s s' hb h
    cases per with
    | nil => simp only [closeBlobbers] at h; cases h; simp [sumDp, sumCr]
    | cons p ps => simp [closeBlobbers] at h
  | cons d ds ih =>
    intro per s s' hb h
    cases per with
    | nil => simp [closeBlobbers] at h
    | cons p ps =>
      obtain ⟨dp, cr⟩ := p
      simp only [closeBlobbers] at h
      split at h
      · rename_i b sp hb0 hsp
        split at h
        · cases h
        · rename_i hg
          split at h
          · cases h
          · have hi : d.blobber < N := by
              by_cases hi : d.blobber < N
              · exact hi
              · rw [hb _ (by omega)] at hsp; cases hsp
            have := ih (s := _) (fun i hi' => by simp only; rw [Map.set_other _ _ (by omega)]; exact hb i hi') h
            simp only at this
            rw [sumMap_set _ _ _ hi] at this
            have hle := sumMap_le spVal s.sps hi
            simp only [hsp, spVal, sumDp, sumCr] at this hle ⊢
            omega
      · cases h

/-- phases that touch only `offers` / `allocated` leave every stake pool's value alone -/
theorem assignAll_spVal {bs : Nat} {l : List Nat} : ∀ {s s' : State} {bas : List BA},
    assignAll bs s l = .ok (s', bas) → (∀ i, spVal (s'.sps i) = spVal (s.sps i)) ∧ s'.vsps = s.vsps ∧ s'.rps = s.rps ∧
      s'.wallet = s.wallet ∧ s'.cps = s.cps ∧ s'.clients = s.clients := by
  induction l with
  | nil => intro s s' bas h; simp only [assignAll] at h; cases h; exact ⟨fun _ => rfl, rfl, rfl, rfl, rfl, rfl⟩
  | cons j js ih =>
    intro s s' bas h
    simp only [assignAll] at h
    split at h
    · cases h
    · rename_i s1 ba h1
      split at h
      · cases h
      · rename_i s2 bas2 h2
        cases h
        obtain ⟨g1, g2, g3, g4, g5, g6⟩ := ih h2
        unfold assign at h1
        split at h1
        · rename_i b sp hb hsp
          ok_branches h1
          refine ⟨fun i => ?_, g2, g3, g4, g5, g6⟩
          rw [g1 i]
          simp only [Map.set]; split
          · rename_i hx; subst hx; simp [spVal, hsp]
          · rfl
        · cases h1

theorem extendAll_spVal {g : Bool} {diff ns : Nat} {l : List BA} : ∀ {s s' : State} {l' : List BA},
    extendAll g diff ns s l = .ok (s', l') → (∀ i, spVal (s'.sps i) = spVal (s.sps i)) ∧ s'.vsps = s.vsps ∧ s'.rps = s.rps ∧
      s'.wallet = s.wallet ∧ s'.cps = s.cps ∧ s'.clients = s.clients := by
  induction l with
  | nil => intro s s' l' h; simp only [extendAll] at h; cases h; exact ⟨fun _ => rfl, rfl, rfl, rfl, rfl, rfl⟩
  | cons d ds ih =>
    intro s s' l' h
    simp only [extendAll] at h
    split at h
    · cases h
    · rename_i s1 d1 h1
      split at h
      · cases h
      · rename_i s2 ds2 h2
        cases h
        obtain ⟨g1, g2, g3, g4, g5, g6⟩ := ih h2
        obtain ⟨_, _, _, _, b, sp, hb, hsp, ebl, esp, _, _⟩ := extendOne_effect h1
        have e : s1.vsps = s.vsps ∧ s1.rps = s.rps ∧ s1.wallet = s.wallet ∧ s1.cps = s.cps ∧ s1.clients = s.clients := by
          unfold extendOne at h1
          split at h1
          · ok_branches h1 <;> exact ⟨rfl, rfl, rfl, rfl, rfl⟩
          · cases h1
        refine ⟨fun i => ?_, g2.trans e.1, g3.trans e.2.1, g4.trans e.2.2.1, g5.trans e.2.2.2.1, g6.trans e.2.2.2.2⟩
        rw [g1 i, esp]
        simp only [Map.set]; split
        · rename_i hx; subst hx; simp [spVal, hsp]
        · rfl

def Good (N : Nat) (s : State) : Prop := Bounded N s ∧ WF9 s

theorem Backed.trans {N : Nat} {a b c : State} (h1 : Backed N a b) (h2 : Backed N b c) : Backed N a c := by
  unfold Backed at *; omega

theorem Backed.refl (N : Nat) (s : State) : Backed N s s := by unfold Backed; omega

/-- closes `Bounded N s'` when `s'` is `s` with maps updated at indices below `N` -/
macro "bounded_close" hb:ident : tactic =>
  `(tactic| (intro x hx; (try simp only [] at hx); have hbx := $hb x hx
             refine ⟨?_, ?_, ?_⟩ <;> simp only [] <;>
               (first
                 | exact hbx.1 | exact hbx.2.1 | exact hbx.2.2
                 | (rw [Map.set_other _ _ (by omega)]; first | exact hbx.1 | exact hbx.2.1 | exact hbx.2.2)
                 | (rw [Map.set_other _ _ (by omega), Map.set_other _ _ (by omega)]; first | exact hbx.1 | exact hbx.2.1 | exact hbx.2.2))))

/-- closes `WF9 s'` when allocations and pools are updated at one slot below `nallocs` -/
macro "wf9_close" hw:ident : tactic =>
  `(tactic| (intro x hx; (try simp only [] at hx); have hwx := $hw x hx
             refine ⟨?_, ?_⟩ <;> simp only [] <;>
               (first
                 | exact hwx.1 | exact hwx.2
                 | (rw [Map.set_other _ _ (by omega)]; first | exact hwx.1 | exact hwx.2))))

theorem stake_backed {N : Nat} {s s' : State} {v : Bool} {i j amt : Nat} (h : stake s v i j amt = .ok s')
    (g : Good N s) : Backed N s s' ∧ Good N s' := by
  obtain ⟨hb, hw⟩ := g
  unfold stake at h
  ok_branches h <;> subst_pay
  · have hsp := ‹s.vsps i = some _›
    have hi := hb.vsps_lt hsp
    refine ⟨?_, by bounded_close hb, by wf9_close hw⟩
    unfold Backed L; simp only []
    rw [sumMap_set _ _ _ hi]
    have := sumMap_le spVal s.vsps hi
    simp only [hsp, spVal] at this ⊢; omega
  · have hsp := ‹s.sps i = some _›
    have hi := hb.sps_lt hsp
    refine ⟨?_, by bounded_close hb, by wf9_close hw⟩
    unfold Backed L; simp only []
    rw [sumMap_set _ _ _ hi]
    have := sumMap_le spVal s.sps hi
    simp only [hsp, spVal] at this ⊢; omega

theorem payOut_le {s s' : State} {j v : Nat} (h : payOut s j v = .ok s') : v ≤ s.wallet := by
  unfold payOut at h; split at h
  · cases h
  · omega

theorem addBlobber_backed {N : Nat} {s s' : State} {i c p : Nat} (h : addBlobber s i c p = .ok s') (hi : i < N)
    (g : Good N s) : Backed N s s' ∧ Good N s' := by
  obtain ⟨hb, hw⟩ := g
  unfold addBlobber at h
  split at h
  · have hsp := ‹s.sps i = none›
    cases h
    refine ⟨?_, by bounded_close hb, by wf9_close hw⟩
    unfold Backed L; simp only []
    rw [sumMap_set _ _ _ hi]
    simp only [hsp, spVal]; omega
  · cases h

theorem addValidator_backed {N : Nat} {s s' : State} {i : Nat} (h : addValidator s i = .ok s') (hi : i < N)
    (g : Good N s) : Backed N s s' ∧ Good N s' := by
  obtain ⟨hb, hw⟩ := g
  unfold addValidator at h
  split at h
  · cases h
  · have hsp := ‹s.vsps i = none›
    cases h
    refine ⟨?_, by bounded_close hb, by wf9_close hw⟩
    unfold Backed L; simp only []
    rw [sumMap_set _ _ _ hi]
    simp only [hsp, spVal]; omega

theorem unstake_backed {N : Nat} {s s' : State} {v : Bool} {i j amt rew : Nat} (h : unstake s v i j amt rew = .ok s')
    (g : Good N s) : Backed N s s' ∧ Good N s' := by
  obtain ⟨hb, hw⟩ := g
  unfold unstake at h
  ok_branches h <;> subst_pay
  · have hsp := ‹s.vsps i = some _›
    have hi := hb.vsps_lt hsp
    have hwal := payOut_le ‹payOut _ _ _ = Except.ok _›
    refine ⟨?_, by bounded_close hb, by wf9_close hw⟩
    unfold Backed L; simp only []
    rw [sumMap_set _ _ _ hi]
    have := sumMap_le spVal s.vsps hi
    simp only [hsp, spVal] at this ⊢; omega
  · have hsp := ‹s.sps i = some _›
    have hi := hb.sps_lt hsp
    have hwal := payOut_le ‹payOut _ _ _ = Except.ok _›
    refine ⟨?_, by bounded_close hb, by wf9_close hw⟩
    unfold Backed L; simp only []
    rw [sumMap_set _ _ _ hi]
    have := sumMap_le spVal s.sps hi
    simp only [hsp, spVal] at this ⊢; omega

theorem collect_backed {N : Nat} {s s' : State} {v : Bool} {i j rew : Nat} (h : collect s v i j rew = .ok s')
    (g : Good N s) : Backed N s s' ∧ Good N s' := by
  obtain ⟨hb, hw⟩ := g
  unfold collect at h
  ok_branches h <;> subst_pay
  · have hsp := ‹s.vsps i = some _›
    have hi := hb.vsps_lt hsp
    have hwal := payOut_le ‹payOut _ _ _ = Except.ok _›
    refine ⟨?_, by bounded_close hb, by wf9_close hw⟩
    unfold Backed L; simp only []
    rw [sumMap_set _ _ _ hi]
    have := sumMap_le spVal s.vsps hi
    simp only [hsp, spVal] at this ⊢; omega
  · have hsp := ‹s.sps i = some _›
    have hi := hb.sps_lt hsp
    have hwal := payOut_le ‹payOut _ _ _ = Except.ok _›
    refine ⟨?_, by bounded_close hb, by wf9_close hw⟩
    unfold Backed L; simp only []
    rw [sumMap_set _ _ _ hi]
    have := sumMap_le spVal s.sps hi
    simp only [hsp, spVal] at this ⊢; omega

theorem updBlobber_backed {N : Nat} {s s' : State} {i : Nat} {c p : Option Nat} (h : updBlobber s i c p = .ok s')
    (g : Good N s) : Backed N s s' ∧ Good N s' := by
  obtain ⟨hb, hw⟩ := g
  unfold updBlobber at h
  ok_branches h
  exact ⟨by unfold Backed L; simp only []; omega, by bounded_close hb, by wf9_close hw⟩

theorem killBlobber_backed {N : Nat} {s s' : State} {i n : Nat} {d : Bool} (h : killBlobber s i n d = .ok s')
    (g : Good N s) : Backed N s s' ∧ Good N s' := by
  obtain ⟨hb, hw⟩ := g
  unfold killBlobber at h
  split at h
  · have hsp := ‹s.sps i = some _›
    have hi := hb.sps_lt hsp
    have hle := sumMap_le spVal s.sps hi
    ok_branches h
    all_goals
      refine ⟨?_, by bounded_close hb, by wf9_close hw⟩
      unfold Backed L; simp only []
      rw [sumMap_set _ _ _ hi]
      simp only [hsp, spVal] at hle ⊢; omega
  · cases h

theorem shutBlobber_backed {N : Nat} {s s' : State} {i n : Nat} {d : Bool} (h : shutBlobber s i n d = .ok s')
    (g : Good N s) : Backed N s s' ∧ Good N s' := by
  obtain ⟨hb, hw⟩ := g
  unfold shutBlobber at h
  split at h
  · have hsp := ‹s.sps i = some _›
    have hi := hb.sps_lt hsp
    have hle := sumMap_le spVal s.sps hi
    ok_branches h
    all_goals
      refine ⟨?_, by bounded_close hb, by wf9_close hw⟩
      unfold Backed L; simp only []
      rw [sumMap_set _ _ _ hi]
      simp only [hsp, spVal] at hle ⊢; omega
  · cases h

theorem killValidator_backed {N : Nat} {s s' : State} {i n : Nat} {d : Bool} (h : killValidator s i n d = .ok s')
    (g : Good N s) : Backed N s s' ∧ Good N s' := by
  obtain ⟨hb, hw⟩ := g
  unfold killValidator at h
  split at h
  · have hsp := ‹s.vsps i = some _›
    have hi := hb.vsps_lt hsp
    have hle := sumMap_le spVal s.vsps hi
    ok_branches h
    all_goals
      refine ⟨?_, by bounded_close hb, by wf9_close hw⟩
      unfold Backed L; simp only []
      rw [sumMap_set _ _ _ hi]
      simp only [hsp, spVal] at hle ⊢; omega
  · cases h

theorem rpLock_backed {N : Nat} {s s' : State} {j v : Nat} (h : rpLock s j v = .ok s') (hj : j < N)
    (g : Good N s) : Backed N s s' ∧ Good N s' := by
  obtain ⟨hb, hw⟩ := g
  unfold rpLock at h
  ok_branches h; subst_pay
  refine ⟨?_, by bounded_close hb, by wf9_close hw⟩
  unfold Backed L; simp only []
  rw [sumMap_set _ _ _ hj]
  have := sumMap_le natOf s.rps hj
  cases hr : s.rps j <;> simp only [hr, natOf, Option.getD] at this ⊢ <;> omega

theorem rpUnlock_backed {N : Nat} {s s' : State} {j v : Nat} (h : rpUnlock s j v = .ok s')
    (g : Good N s) : Backed N s s' ∧ Good N s' := by
  obtain ⟨hb, hw⟩ := g
  unfold rpUnlock at h
  ok_branches h; subst_pay
  have hr := ‹s.rps j = some _›
  have hj := hb.rps_lt hr
  have hwal := payOut_le ‹payOut _ _ _ = Except.ok _›
  refine ⟨?_, by bounded_close hb, by wf9_close hw⟩
  unfold Backed L; simp only []
  rw [sumMap_set _ _ _ hj]
  have := sumMap_le natOf s.rps hj
  simp only [hr, natOf] at this ⊢
  rename_i hne; omega

theorem credit_le (sp : SP) (x : Nat) : credit sp x ≤ x := by unfold credit; split <;> omega

/-- `commit_blobber_read`: the read pool loses the price of the marker, the blobber's stake pool gains at most that -/
theorem readRedeem_backed {N : Nat} {s s' : State} {k i j p : Nat} (h : readRedeem s k i j p = .ok s') (hj : j < N)
    (g : Good N s) : Backed N s s' ∧ Good N s' := by
  obtain ⟨hb, hw⟩ := g
  unfold readRedeem at h
  ok_branches h
  rename_i sp hsp hlt
  have hi := hb.sps_lt hsp
  have h1 := sumMap_le spVal s.sps hi
  have h2 := sumMap_le natOf s.rps hj
  have hc := credit_le sp p
  refine ⟨?_, by bounded_close hb, by wf9_close hw⟩
  unfold Backed L; simp only []
  rw [sumMap_set spVal _ _ hi, sumMap_set natOf _ _ hj]
  cases hr : s.rps j <;> simp only [hr, hsp, natOf, spVal, Option.getD] at h1 h2 hlt ⊢ <;> omega

theorem map_eq_none' {α β : Type} {f : α → β} {o : Option α} (h : o.map f = none) : o = none := by
  cases o <;> simp at h ⊢

theorem newAlloc_backed {N : Nat} {s s' : State} {j data size value : Nat} {chosen : List Nat}
    (h : newAlloc s j data size value chosen = .ok s') (g : Good N s) : Backed N s s' ∧ Good N s' := by
  obtain ⟨hb, hw⟩ := g
  unfold newAlloc at h
  split at h
  · cases h
  · split at h
    · cases h
    · rename_i s1 bas h1
      split at h
      · cases h
      · rename_i s2 h2
        cases h
        have e := payIn_eq h2; subst e
        obtain ⟨f1, f2, _, fo, _⟩ := assignAll_effect h1
        obtain ⟨g1, g2, g3, g4, g5, _⟩ := assignAll_spVal h1
        have hsn : ∀ x, s.sps x = none → s1.sps x = none := by
          intro x hx; have := fo x; rw [hx] at this; exact map_eq_none' this
        refine ⟨?_, ?_, ?_⟩
        · unfold Backed L; simp only []
          rw [sumMap_push, sumMap_push, f1, f2, g2, g3, g4, g5, sumMap_congr spVal g1]
          simp only [wpOf, natOf]; omega
        · intro x hx
          have := hb x hx
          exact ⟨hsn x this.1, by simp only; rw [g2]; exact this.2.1, by simp only; rw [g3]; exact this.2.2⟩
        · intro x hx
          simp only at hx ⊢
          have := hw x (by omega)
          rw [Map.set_other _ _ (by omega), Map.set_other _ _ (by omega), f1, g5]
          exact this

theorem wpLock_backed {N : Nat} {s s' : State} {k j v : Nat} (h : wpLock s k j v = .ok s') (g : Good N s) :
    Backed N s s' ∧ Good N s' := by
  obtain ⟨hb, hw⟩ := g
  unfold wpLock at h
  split at h
  · cases h
  · rename_i a ha
    have hk := hw.alloc_lt ha
    ok_branches h; subst_pay
    refine ⟨?_, by bounded_close hb, by wf9_close hw⟩
    unfold Backed L; simp only []
    rw [sumMap_set _ _ _ hk]
    have := sumMap_le wpOf s.allocs hk
    simp only [ha, wpOf] at this ⊢; omega

theorem updLock_backed {N : Nat} {s s' : State} {k j v : Nat} (h : updLock s k j v = .ok s') (g : Good N s) :
    Backed N s s' ∧ Good N s' := by
  obtain ⟨hb, hw⟩ := g
  unfold updLock at h
  split at h
  · cases h
  · rename_i a ha
    have hk := hw.alloc_lt ha
    ok_branches h; subst_pay
    refine ⟨?_, by bounded_close hb, by wf9_close hw⟩
    unfold Backed L; simp only []
    rw [sumMap_set _ _ _ hk]
    have := sumMap_le wpOf s.allocs hk
    simp only [ha, wpOf] at this ⊢; omega

theorem commit_backed {N : Nat} {s s' : State} {k i : Nat} {size : Int} {move : Nat} (h : commit s k i size move = .ok s')
    (g : Good N s) : Backed N s s' ∧ Good N s' := by
  obtain ⟨hb, hw⟩ := g
  unfold commit at h
  split at h
  · cases h
  · rename_i a ha
    have hk := hw.alloc_lt ha
    have h1 := sumMap_le wpOf s.allocs hk
    have h2 := sumMap_le natOf s.cps hk
    split at h
    · have hcp := ‹s.cps k = some _›
      ok_branches h
      · refine ⟨?_, by bounded_close hb, by wf9_close hw⟩
        unfold Backed L; simp only []
        rw [sumMap_set wpOf _ _ hk, sumMap_set natOf _ _ hk]
        simp only [ha, hcp, wpOf, natOf] at h1 h2 ⊢; omega
      · refine ⟨?_, by bounded_close hb, by wf9_close hw⟩
        unfold Backed L; simp only []
        rw [sumMap_set wpOf _ _ hk, sumMap_set natOf _ _ hk]
        simp only [ha, hcp, wpOf, natOf] at h1 h2 ⊢; omega
      · refine ⟨?_, by bounded_close hb, by wf9_close hw⟩
        unfold Backed L; simp only []
        rw [sumMap_set wpOf _ _ hk]
        simp only [ha, wpOf] at h1 ⊢; omega
    · cases h

theorem respPass_backed {N : Nat} {s s' : State} {k i D m V dp : Nat} {cr : List (Nat × Nat)}
    (h : respPass s k i D m V dp cr = .ok s') (g : Good N s) : Backed N s s' ∧ Good N s' := by
  obtain ⟨hb, hw⟩ := g
  unfold respPass at h
  split at h
  · cases h
  · rename_i a ha
    have hk := hw.alloc_lt ha
    have h1 := sumMap_le wpOf s.allocs hk
    have h2 := sumMap_le natOf s.cps hk
    split at h
    · have hcp := ‹s.cps k = some _›
      have hsp := ‹s.sps i = some _›
      have hi := hb.sps_lt hsp
      have h3 := sumMap_le spVal s.sps hi
      split at h
      · cases h
      · rename_i hg
        split at h
        · cases h
        · rename_i vs hvs
          cases h
          obtain ⟨ev, hbv⟩ := creditValidators_sum (N := N) (fun x hx => (hb x hx).2.1) hvs
          refine ⟨?_, ?_, by wf9_close hw⟩
          · unfold Backed L; simp only []
            rw [sumMap_set wpOf _ _ hk, sumMap_set natOf _ _ hk, sumMap_set spVal _ _ hi, ev]
            have hc : ∀ (sp : SP) x, credit sp x ≤ x := by intro sp x; unfold credit; split <;> omega
            have hvd : valDebit s.nvr0 D V ≤ D ∧ D ≤ valDebit s.nvr0 D V + V ∧ D + valCredit s.nvr0 V ≤ valDebit s.nvr0 D V + V := by
              unfold valDebit valCredit; split <;> omega
            have := hc { offers := ‹SP›.offers, stake := ‹SP›.stake - dp, rewards := ‹SP›.rewards, dead := ‹SP›.dead } (D - m - V)
            simp only [ha, hcp, hsp, wpOf, natOf, spVal] at h1 h2 h3 ⊢
            omega
          · intro x hx
            have := hb x hx
            refine ⟨?_, hbv x hx, this.2.2⟩
            simp only; rw [Map.set_other _ _ (by omega)]; exact this.1
    · cases h

theorem sumMap_le2 {α : Type} (f : Option α → Nat) (m : Map α) {i j n : Nat} (hi : i < n) (hj : j < n) (hne : i ≠ j) :
    f (m i) + f (m j) ≤ sumMap f m n := by
  unfold sumMap
  induction n with
  | zero => omega
  | succ n ih =>
    simp only [sumTo]
    by_cases h1 : i = n
    · subst h1
      have := sumMap_le f m (k := j) (n := i) (by omega)
      unfold sumMap at this; omega
    · by_cases h2 : j = n
      · subst h2
        have := sumMap_le f m (k := i) (n := j) (by omega)
        unfold sumMap at this; omega
      · have := ih (by omega) (by omega); omega

theorem sumMap_set2 {α : Type} (f : Option α → Nat) (m : Map α) {i j n : Nat} (x y : Option α) (hi : i < n) (hj : j < n)
    (hne : i ≠ j) : sumMap f ((m.set i x).set j y) n = sumMap f m n - f (m i) - f (m j) + f x + f y := by
  rw [sumMap_set f _ y hj, Map.set_other _ _ (fun e => hne e.symm), sumMap_set f m x hi]
  have h0 := sumMap_le2 f m hi hj hne
  omega

theorem updAdd_backed {N : Nat} {s s' : State} {k ai : Nat} (h : updAdd s k ai = .ok s') (g : Good N s) :
    Backed N s s' ∧ Good N s' := by
  obtain ⟨hb, hw⟩ := g
  unfold updAdd at h
  split at h
  · have ha := ‹s.allocs k = some _›
    have hsp := ‹s.sps ai = some _›
    have hk := hw.alloc_lt ha
    have hi := hb.sps_lt hsp
    have h1 := sumMap_le wpOf s.allocs hk
    have h3 := sumMap_le spVal s.sps hi
    ok_branches h
    refine ⟨?_, by bounded_close hb, by wf9_close hw⟩
    unfold Backed L; simp only []
    rw [sumMap_set wpOf _ _ hk, sumMap_set spVal _ _ hi]
    simp only [ha, hsp, wpOf, spVal] at h1 h3 ⊢; omega
  · cases h

theorem updReplaceAlive_backed {N : Nat} {s s' : State} {k ai ri rw cc dp : Nat}
    (h : updReplaceAlive s k ai ri rw cc dp = .ok s') (g : Good N s) : Backed N s s' ∧ Good N s' := by
  obtain ⟨hb, hw⟩ := g
  unfold updReplaceAlive at h
  split at h
  · have ha := ‹s.allocs k = some _›
    have hcp := ‹s.cps k = some _›
    have hspa := ‹s.sps ai = some _›
    have hspr := ‹s.sps ri = some _›
    have hk := hw.alloc_lt ha
    have hia := hb.sps_lt hspa
    have hir := hb.sps_lt hspr
    have h1 := sumMap_le wpOf s.allocs hk
    have h2 := sumMap_le natOf s.cps hk
    split at h
    · cases h
    · ok_branches h
      rename_i _ hne _ _ _ _
      have hne' : ri ≠ ai := fun e => hne (Or.inl e.symm)
      have h3 := sumMap_le2 spVal s.sps hir hia hne'
      refine ⟨?_, by bounded_close hb, by wf9_close hw⟩
      unfold Backed L; simp only []
      rw [sumMap_set wpOf _ _ hk, sumMap_set natOf _ _ hk, sumMap_set2 spVal _ _ _ hir hia hne']
      have c1 := credit_le { offers := ‹SP›.offers - (‹BA›).offer, stake := ‹SP›.stake - dp, rewards := ‹SP›.rewards, dead := ‹SP›.dead } rw
      have c2 := credit_le { offers := ‹SP›.offers - (‹BA›).offer, stake := ‹SP›.stake - dp, rewards := ‹SP›.rewards, dead := ‹SP›.dead } cc
      simp only [ha, hcp, hspa, hspr, wpOf, natOf, spVal] at h1 h2 h3 ⊢
      omega
  · cases h

theorem updExtend_backed {N : Nat} {s s' : State} {k size : Nat} {ds : List Int}
    (h : updExtend s k size ds = .ok s') (g : Good N s) : Backed N s s' ∧ Good N s' := by
  obtain ⟨hb, hw⟩ := g
  unfold updExtend at h
  split at h
  · rename_i a cp ha hcp
    have hk := hw.alloc_lt ha
    have h1 := sumMap_le wpOf s.allocs hk
    have h2 := sumMap_le natOf s.cps hk
    split at h
    · cases h
    · split at h
      · cases h
      · dsimp only at h
        split at h
        · cases h
        · rename_i s1 bas1 hx
          split at h
          · cases h
          · rename_i bas2 wp' cp' mtc' mb' hadj
            cases h
            obtain ⟨f1, f2, _, fo, _⟩ := extendAll_effect hx
            obtain ⟨g1, g2, g3, g4, g5, _⟩ := extendAll_spVal hx
            have hsum := adjust_pools hadj
            have hsn : ∀ x, s.sps x = none → s1.sps x = none := by
              intro x hxn; have := fo x; rw [hxn] at this; exact map_eq_none' this
            refine ⟨?_, ?_, ?_⟩
            · unfold Backed L; simp only []
              rw [f1, f2, g2, g3, g4, g5, sumMap_congr spVal g1, sumMap_set wpOf _ _ hk, sumMap_set natOf _ _ hk]
              simp only [ha, hcp, wpOf, natOf] at h1 h2 ⊢; omega
            · intro x hx'
              have := hb x hx'
              exact ⟨hsn x this.1, by simp only; rw [g2]; exact this.2.1, by simp only; rw [g3]; exact this.2.2⟩
            · intro x hx'
              simp only at hx' ⊢
              rw [f2] at hx'
              have := hw x hx'
              rw [Map.set_other _ _ (by omega), Map.set_other _ _ (by omega), f1, g5]
              exact this
  · cases h

theorem close_backed {N : Nat} {s s' : State} {fin : Bool} {k : Nat} {c : Caller} {X : Nat} {per : List (Nat × Nat)}
    {rates : List (Nat × Nat × Nat)} (h : close s fin k c X per rates = .ok s') (g : Good N s) : Backed N s s' ∧ Good N s' := by
  obtain ⟨hb, hw⟩ := g
  unfold close at h
  split at h
  · cases h
  · rename_i a ha
    have hk := hw.alloc_lt ha
    have h1 := sumMap_le wpOf s.allocs hk
    have h2 := sumMap_le natOf s.cps hk
    dsimp only at h
    repeat' (split at h)
    all_goals (first | (cases h; done) | skip)
    cases h
    subst_pay
    have hcp := ‹s.cps k = some _›
    have hcb := ‹closeBlobbers _ _ _ = some _›
    have hamt := ‹¬ (a.wp + _ < X ∨ X < sumCr per)›
    have hwal := payOut_le ‹payOut _ _ _ = Except.ok _›
    obtain ⟨e1, e2, _, eo, _⟩ := closeBlobbers_effect hcb
    obtain ⟨fw, _, _, _, fc, fv, fr⟩ := closeBlobbers_frame14 hcb
    have hsum := closeBlobbers_sum (N := N) (fun x hx => (hb x hx).1) hcb
    have hsn : ∀ x, s.sps x = none → (‹State›).sps x = none := by
      intro x hxn; have := eo x; rw [hxn] at this; exact map_eq_none' this
    refine ⟨?_, ?_, ?_⟩
    · unfold Backed L; simp only []
      rw [e1, e2, fc, fv, fr, sumMap_set wpOf _ _ hk, sumMap_set natOf _ _ hk]
      rw [fw] at hwal
      simp only [ha, hcp, wpOf, natOf] at h1 h2 ⊢
      rw [fw]
      omega
    · intro x hx'
      have := hb x hx'
      exact ⟨hsn x this.1, by simp only; rw [fv]; exact this.2.1, by simp only; rw [fr]; exact this.2.2⟩
    · intro x hx'
      simp only at hx' ⊢
      rw [e2] at hx'
      have := hw x hx'
      by_cases hxk : x = k
      · subst hxk; rw [Map.set_same, Map.set_same]; exact ⟨rfl, rfl⟩
      · rw [Map.set_other _ _ hxk, Map.set_other _ _ hxk, e1, fc]; exact this

end ZChain.Storage
