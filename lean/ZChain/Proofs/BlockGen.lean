import ZChain.Model.BlockGen
import ZChain.Props.C03
/-! Lemmas about `Model/BlockGen.lean`: what `txnProcessor` can do to the block (nothing, or one engine step appended),
the invariant of the pool phase (`Inv`), the built-in phase (`Sub`), and their composition `generate_spec`. -/
namespace ZChain.BlockGen
open ZChain.Ledger

def two62 : Int := 4611686018427387904

theorem wrap64_add_wrap64 (a b : Int) : wrap64 (wrap64 a + b) = wrap64 (a + b) := by
  unfold wrap64 two63; omega

theorem wrap64_add_wrap64' (a b : Int) : wrap64 (a + wrap64 b) = wrap64 (a + b) := by
  unfold wrap64 two63; omega

theorem wrap64_id (a : Int) (h1 : -9223372036854775808 ≤ a) (h2 : a < 9223372036854775808) : wrap64 a = a := by
  unfold wrap64 two63; omega

theorem hasDup_false_of_nodup {α : Type} [DecidableEq α] : ∀ (l : List α), l.Nodup → hasDup l = false
  | [], _ => rfl
  | x :: xs, h => by
    rw [List.nodup_cons] at h
    simp only [hasDup, Bool.or_eq_false_iff]
    exact ⟨by simpa using h.1, hasDup_false_of_nodup xs h.2⟩

theorem not_present_get (a : Accts) (i : Id) (h : present a i = false) : get a i = Acct.zero := by
  induction a with
  | nil => rfl
  | cons x xs ih =>
    obtain ⟨k, v⟩ := x
    simp only [present, List.any_cons, Bool.or_eq_false_iff] at h
    have hk : k ≠ i := by simpa using h.1
    show (if k = i then v else get xs i) = Acct.zero
    rw [if_neg hk]
    exact ih (by simpa [present] using h.2)

/-! ### frames -/

theorem checkForCurrent_frame (g : GS) (p : PTxn) :
    (checkForCurrent g p).st = g.st ∧ (checkForCurrent g p).incl = g.incl ∧ (checkForCurrent g p).trace = g.trace ∧
    (checkForCurrent g p).cost = g.cost ∧ (checkForCurrent g p).byteSize = g.byteSize := by
  unfold checkForCurrent
  split
  · simp
  · split <;> simp

theorem classify_current (tol date : Int) (s : St) (p : PTxn) (n : Int) (h : classify tol date s p = (.current, n)) :
    lateAt tol date p = false := by
  unfold classify at h
  cases hl : lateAt tol date p
  · rfl
  · simp [hl] at h

/-- `txnProcessor` put `p` into the block: exactly one engine step was appended. -/
structure Accepted (cfg : Cfg) (date : Int) (g : GS) (p : PTxn) (g' : GS) : Prop where
  fresh : g.incl.any (fun e => e.key = Key.pool p.key) = false
  notLate : lateAt cfg.tol date p = false
  applied : (step cfg.feeOn g.st p.txn (p.res g.st)).2 ≠ Status.rejected
  st : g'.st = (step cfg.feeOn g.st p.txn (p.res g.st)).1
  incl : g'.incl = g.incl ++ [⟨Key.pool p.key, p, (step cfg.feeOn g.st p.txn (p.res g.st)).2⟩]
  trace : g'.trace = g.trace ++ [(step cfg.feeOn g.st p.txn (p.res g.st)).1]
  cost : g'.cost = g.cost

/-- block, state and running cost untouched. -/
structure Unchanged (g g' : GS) : Prop where
  st : g'.st = g.st
  incl : g'.incl = g.incl
  trace : g'.trace = g.trace
  cost : g'.cost = g.cost

theorem txnProcessor_spec (cfg : Cfg) (date : Int) (g : GS) (p : PTxn) :
    ((txnProcessor cfg date g p).2 = false ∧ Unchanged g (txnProcessor cfg date g p).1) ∨
    ((txnProcessor cfg date g p).2 = true ∧ Accepted cfg date g p (txnProcessor cfg date g p).1) := by
  unfold txnProcessor
  by_cases hany : g.incl.any (fun e => e.key = Key.pool p.key) = true
  · left; simp [hany]; exact ⟨rfl, rfl, rfl, rfl⟩
  · have hany' : g.incl.any (fun e => e.key = Key.pool p.key) = false := by simpa using hany
    rw [if_neg hany]
    rcases hc : classify cfg.tol date g.st p with ⟨c, n⟩
    cases c with
    | past => left; simp; exact ⟨rfl, rfl, rfl, rfl⟩
    | future => left; simp; exact ⟨rfl, rfl, rfl, rfl⟩
    | late => left; simp; exact ⟨rfl, rfl, rfl, rfl⟩
    | current =>
      simp only
      by_cases hr : (step cfg.feeOn g.st p.txn (p.res g.st)).2 = Status.rejected
      · left; simp [hr]; exact ⟨rfl, rfl, rfl, rfl⟩
      · right
        rw [if_neg hr]
        obtain ⟨h1, h2, h3, h4, _⟩ := checkForCurrent_frame
          { g with st := (step cfg.feeOn g.st p.txn (p.res g.st)).1,
                   incl := g.incl ++ [⟨Key.pool p.key, p, (step cfg.feeOn g.st p.txn (p.res g.st)).2⟩],
                   trace := g.trace ++ [(step cfg.feeOn g.st p.txn (p.res g.st)).1],
                   byteSize := g.byteSize + p.bytes + p.outLen g.st } p
        exact ⟨rfl, ⟨hany', classify_current _ _ _ _ _ hc, hr, h1, h2, h3, h4⟩⟩

/-! ### provenance: what waits in the future lists and in the promoted list came through `txnProcessor` -/

theorem mem_insertStable {α : Type} (less : α → α → Bool) (x y : α) : ∀ (l : List α), y ∈ insertStable less x l → y = x ∨ y ∈ l := by
  intro l
  induction l with
  | nil => intro h; simp [insertStable] at h; exact Or.inl h
  | cons e es ih =>
    intro h
    simp only [insertStable] at h
    split at h
    · rw [List.mem_cons] at h; exact h
    · rw [List.mem_cons] at h
      rcases h with h | h
      · exact Or.inr (List.mem_cons.mpr (Or.inl h))
      · rcases ih h with h | h
        · exact Or.inl h
        · exact Or.inr (List.mem_cons_of_mem _ h)

theorem mem_foldl_insertStable {α : Type} (less : α → α → Bool) (y : α) : ∀ (l acc : List α),
    y ∈ l.foldl (fun acc x => insertStable less x acc) acc → y ∈ acc ∨ y ∈ l := by
  intro l
  induction l with
  | nil => intro acc h; exact Or.inl h
  | cons x xs ih =>
    intro acc h
    simp only [List.foldl_cons] at h
    rcases ih _ h with h | h
    · rcases mem_insertStable less x y acc h with h | h
      · exact Or.inr (by rw [h]; exact List.mem_cons_self ..)
      · exact Or.inl h
    · exact Or.inr (List.mem_cons_of_mem _ h)

theorem mem_sortStable {α : Type} (less : α → α → Bool) (y : α) (l : List α) (h : y ∈ sortStable less l) : y ∈ l := by
  rcases mem_foldl_insertStable less y l [] h with h | h
  · cases h
  · exact h

theorem scan_mem (y : PTxn) : ∀ (l : List PTxn) (cn : Int), (y ∈ (scan l cn).cur → y ∈ l) ∧ (y ∈ (scan l cn).rest → y ∈ l) := by
  intro l
  induction l with
  | nil => intro cn; simp [scan]
  | cons f fs ih =>
    intro cn
    simp only [scan]
    split
    · simp
    · split
      · obtain ⟨h1, h2⟩ := ih cn
        exact ⟨fun h => List.mem_cons_of_mem _ (h1 h), fun h => List.mem_cons_of_mem _ (h2 h)⟩
      · obtain ⟨h1, h2⟩ := ih f.txn.nonce
        refine ⟨fun h => ?_, fun h => List.mem_cons_of_mem _ (h2 h)⟩
        rw [List.mem_cons] at h
        rcases h with h | h
        · rw [h]; exact List.mem_cons_self ..
        · exact List.mem_cons_of_mem _ (h1 h)

theorem futGet_mem : ∀ (f : List (Id × Fut)) (i : Id) (v : Fut), futGet f i = some v → ∃ k, (k, v) ∈ f := by
  intro f
  induction f with
  | nil => intro i v h; simp [futGet] at h
  | cons x xs ih =>
    intro i v h
    obtain ⟨k, w⟩ := x
    simp only [futGet] at h
    split at h
    · injection h with h; subst h; exact ⟨k, List.mem_cons_self ..⟩
    · obtain ⟨k', hk'⟩ := ih i v h
      exact ⟨k', List.mem_cons_of_mem _ hk'⟩

theorem futSet_mem (kv : Id × Fut) : ∀ (f : List (Id × Fut)) (i : Id) (v : Fut), kv ∈ futSet f i v → kv ∈ f ∨ kv.2 = v := by
  intro f
  induction f with
  | nil => intro i v h; simp [futSet] at h; exact Or.inr (by rw [h])
  | cons x xs ih =>
    intro i v h
    obtain ⟨k, w⟩ := x
    simp only [futSet] at h
    split at h
    · rw [List.mem_cons] at h
      rcases h with h | h
      · exact Or.inr (by rw [h])
      · exact Or.inl (List.mem_cons_of_mem _ h)
    · rw [List.mem_cons] at h
      rcases h with h | h
      · exact Or.inl (by rw [h]; exact List.mem_cons_self ..)
      · rcases ih i v h with h | h
        · exact Or.inl (List.mem_cons_of_mem _ h)
        · exact Or.inr h

/-- every transaction waiting in the promoted list or in a future list satisfies `P`. -/
def Prov (P : PTxn → Prop) (g : GS) : Prop :=
  (∀ p ∈ g.current, P p) ∧ (∀ kv ∈ g.future, ∀ p ∈ kv.2.txns, P p)

theorem checkForCurrent_prov (P : PTxn → Prop) (g : GS) (p : PTxn) (h : Prov P g) : Prov P (checkForCurrent g p) := by
  unfold checkForCurrent
  split
  · exact h
  · rename_i l hl
    split
    · exact h
    · rename_i x xs hx
      obtain ⟨k, hk⟩ := futGet_mem _ _ _ hl
      have hP : ∀ q ∈ l.txns, P q := h.2 _ hk
      refine ⟨?_, ?_⟩
      · intro q hq
        have := mem_sortStable _ _ _ hq
        rw [List.mem_append] at this
        rcases this with hq | hq
        · exact h.1 q hq
        · exact hP q ((scan_mem q l.txns p.txn.nonce).1 hq)
      · intro kv hkv q hq
        rcases futSet_mem kv _ _ _ hkv with hkv | hkv
        · exact h.2 kv hkv q hq
        · rw [hkv] at hq
          exact hP q ((scan_mem q l.txns p.txn.nonce).2 hq)

theorem txnProcessor_prov (P : PTxn → Prop) (cfg : Cfg) (date : Int) (g : GS) (p : PTxn) (h : Prov P g) (hp : P p) :
    Prov P (txnProcessor cfg date g p).1 := by
  unfold txnProcessor
  split
  · exact h
  · rcases hc : classify cfg.tol date g.st p with ⟨c, n⟩
    cases c with
    | past => exact h
    | late => exact h
    | future =>
      refine ⟨h.1, ?_⟩
      intro kv hkv q hq
      rcases futSet_mem kv _ _ _ hkv with hkv | hkv
      · exact h.2 kv hkv q hq
      · rw [hkv] at hq
        have := mem_sortStable _ _ _ hq
        rw [List.mem_append] at this
        rcases this with hq | hq
        · cases hg : futGet g.future p.txn.sender with
          | none => simp [hg] at hq
          | some l =>
            simp only [hg, Option.getD_some] at hq
            obtain ⟨k, hk⟩ := futGet_mem _ _ _ hg
            exact h.2 _ hk q hq
        · simp at hq; rw [hq]; exact hp
    | current =>
      simp only
      split
      · exact h
      · exact checkForCurrent_prov P _ p h

/-! ### re-execution -/

theorem reexec_append (feeOn : Bool) (e : Entry) : ∀ (l : List Entry) (s s1 : St) (sts : List Status) (tr : List St),
    reexec feeOn s l = some (s1, sts, tr) →
    (step feeOn s1 e.p.txn (e.p.res s1)).2 ≠ Status.rejected →
    reexec feeOn s (l ++ [e]) =
      some ((step feeOn s1 e.p.txn (e.p.res s1)).1, sts ++ [(step feeOn s1 e.p.txn (e.p.res s1)).2],
            tr ++ [(step feeOn s1 e.p.txn (e.p.res s1)).1]) := by
  intro l
  induction l with
  | nil =>
    intro s s1 sts tr h hne
    simp only [reexec] at h
    injection h with h; injection h with h1 h2; injection h2 with h2 h3
    subst h1; subst h2; subst h3
    simp [reexec, hne]
  | cons x xs ih =>
    intro s s1 sts tr h hne
    simp only [List.cons_append, reexec] at h ⊢
    by_cases hx : (step feeOn s x.p.txn (x.p.res s)).2 = Status.rejected
    · simp [hx] at h
    · simp only [hx, if_false] at h ⊢
      cases hr : reexec feeOn (step feeOn s x.p.txn (x.p.res s)).1 xs with
      | none => simp [hr] at h
      | some v =>
        obtain ⟨s', sts', tr'⟩ := v
        simp only [hr] at h
        injection h with h; injection h with h1 h2; injection h2 with h2 h3
        subst h1; subst h2; subst h3
        rw [ih _ _ _ _ hr hne]
        simp

/-! ### costs -/

def costSum : List Entry → Int
  | [] => 0
  | e :: es => e.p.cost.getD 0 + costSum es

theorem costSum_append (l : List Entry) (e : Entry) : costSum (l ++ [e]) = costSum l + e.p.cost.getD 0 := by
  induction l with
  | nil => simp [costSum]
  | cons x xs ih => simp only [List.cons_append, costSum, ih]; omega

theorem costSum_append' (l m : List Entry) : costSum (l ++ m) = costSum l + costSum m := by
  induction l with
  | nil => simp [costSum]
  | cons x xs ih => simp only [List.cons_append, costSum, ih]; omega

/-- the verifier's (wrapping) sum is the wrap of the exact sum. -/
theorem blockCost_eq (l : List Entry) (h : ∀ e ∈ l, e.p.cost.isSome) : blockCost l = some (wrap64 (costSum l)) := by
  induction l with
  | nil => simp [blockCost, costSum, wrap64, two63]
  | cons x xs ih =>
    have hx := h x (List.mem_cons_self ..)
    have hxs := ih (fun e he => h e (List.mem_cons_of_mem _ he))
    cases hc : x.p.cost with
    | none => simp [hc] at hx
    | some c =>
      simp only [blockCost, hc, hxs, costSum, Option.getD_some]
      rw [wrap64_add_wrap64']

/-- the cost estimate is a moderate non-negative number (no `MaxInt`, nothing near the `int` range). -/
def small (e : Entry) : Prop := ∃ c, e.p.cost = some c ∧ 0 ≤ c ∧ c < two62

/-! ### the pool phase -/

structure Inv (cfg : Cfg) (date : Int) (prior : St) (bcost : Int) (g : GS) : Prop where
  reex : reexec cfg.feeOn prior g.incl = some (g.st, g.incl.map (·.status), g.trace)
  keys : ∀ e ∈ g.incl, e.key = Key.pool e.p.key
  nodup : (g.incl.map (·.key)).Nodup
  good : ∀ e ∈ g.incl, lateAt cfg.tol date e.p = false ∧ e.p.cost.isSome
  names : ∀ e ∈ g.incl, e.p.bname = none
  costW : g.cost = wrap64 (bcost + costSum g.incl)
  costLt : g.incl ≠ [] → g.cost < cfg.maxBlockCost
  costT : 0 ≤ bcost → bcost ≤ cfg.maxBlockCost → cfg.maxBlockCost < two62 → (∀ e ∈ g.incl, small e) →
    g.cost = bcost + costSum g.incl

theorem Inv_init (cfg : Cfg) (date : Int) (prior : St) (bcost : Int) (hb : wrap64 bcost = bcost) : Inv cfg date prior bcost (GS.init prior bcost) := by
  refine ⟨by simp [GS.init, reexec], by simp [GS.init], by simp [GS.init], by simp [GS.init], by simp [GS.init], ?_, by simp [GS.init], ?_⟩
  · simp [GS.init, costSum, hb]
  · intros; simp [GS.init, costSum]

theorem Inv_unchanged {cfg : Cfg} {date : Int} {prior : St} {bcost : Int} {g g' : GS} (h : Inv cfg date prior bcost g) (u : Unchanged g g') :
    Inv cfg date prior bcost g' := by
  obtain ⟨h1, h2, h3, h4, hn, h5, h6, h7⟩ := h
  obtain ⟨u1, u2, u3, u4⟩ := u
  exact ⟨by rw [u2, u1, u3]; exact h1, by rw [u2]; exact h2, by rw [u2]; exact h3, by rw [u2]; exact h4, by rw [u2]; exact hn,
    by rw [u4, u2]; exact h5, by rw [u2, u4]; exact h6, by rw [u2, u4]; exact h7⟩

theorem any_false_not_mem (l : List Entry) (k : Key) (h : l.any (fun e => e.key = k) = false) : k ∉ l.map (·.key) := by
  intro hm
  rw [List.mem_map] at hm
  obtain ⟨e, he, hk⟩ := hm
  have : l.any (fun e => decide (e.key = k)) = true := List.any_eq_true.mpr ⟨e, he, by simp [hk]⟩
  rw [this] at h; cases h

/-- accepting `p` with estimate `c` (after the generator's cost test) keeps the invariant. -/
theorem Inv_accept {cfg : Cfg} {date : Int} {prior : St} {bcost : Int} {g g1 : GS} {p : PTxn} {c : Int}
    (h : Inv cfg date prior bcost g) (a : Accepted cfg date g p g1) (hc : p.cost = some c) (hbn : p.bname = none)
    (hlt : ¬ (wrap64 (g.cost + c) ≥ cfg.maxBlockCost)) :
    Inv cfg date prior bcost { g1 with cost := wrap64 (g1.cost + c) } := by
  obtain ⟨h1, h2, h3, h4, hn, h5, h6, h7⟩ := h
  have hcost : g1.cost = g.cost := a.cost
  refine ⟨?_, ?_, ?_, ?_, ?_, ?_, ?_, ?_⟩
  · show reexec cfg.feeOn prior g1.incl = some (g1.st, g1.incl.map (·.status), g1.trace)
    rw [a.incl, a.st, a.trace]
    have := reexec_append cfg.feeOn ⟨Key.pool p.key, p, (step cfg.feeOn g.st p.txn (p.res g.st)).2⟩ g.incl prior g.st _ _ h1 a.applied
    rw [this]; simp
  · show ∀ e ∈ g1.incl, e.key = Key.pool e.p.key
    rw [a.incl]; intro e he
    rw [List.mem_append] at he
    rcases he with he | he
    · exact h2 e he
    · simp at he; subst he; rfl
  · show (g1.incl.map (·.key)).Nodup
    rw [a.incl, List.map_append, List.nodup_append]
    refine ⟨h3, by simp, ?_⟩
    intro x hx y hy
    simp at hy; subst hy
    intro e; subst e
    exact any_false_not_mem g.incl _ a.fresh hx
  · show ∀ e ∈ g1.incl, lateAt cfg.tol date e.p = false ∧ e.p.cost.isSome
    rw [a.incl]; intro e he
    rw [List.mem_append] at he
    rcases he with he | he
    · exact h4 e he
    · simp at he; subst he; exact ⟨a.notLate, by simp [hc]⟩
  · show ∀ e ∈ g1.incl, e.p.bname = none
    rw [a.incl]; intro e he
    rw [List.mem_append] at he
    rcases he with he | he
    · exact hn e he
    · simp at he; subst he; exact hbn
  · show wrap64 (g1.cost + c) = wrap64 (bcost + costSum g1.incl)
    rw [a.incl, costSum_append, hcost, h5, wrap64_add_wrap64]
    simp only [hc, Option.getD_some]
    congr 1; omega
  · intro _
    show wrap64 (g1.cost + c) < cfg.maxBlockCost
    rw [hcost]; omega
  · intro hb0 hb1 hm hs
    show wrap64 (g1.cost + c) = bcost + costSum g1.incl
    rw [a.incl] at hs ⊢
    have hsold : ∀ e ∈ g.incl, small e := fun e he => hs e (List.mem_append_left _ he)
    have hnew : small ⟨Key.pool p.key, p, (step cfg.feeOn g.st p.txn (p.res g.st)).2⟩ := hs _ (List.mem_append_right _ (by simp))
    obtain ⟨c', hc', hc0, hc1⟩ := hnew
    simp only [hc] at hc'
    injection hc' with hc'; subst hc'
    have hg := h7 hb0 hb1 hm hsold
    have hle : g.cost ≤ cfg.maxBlockCost := by
      by_cases hnil : g.incl = []
      · rw [hg, hnil]; simp [costSum]; omega
      · have := h6 hnil; omega
    have hge : 0 ≤ g.cost := by
      rw [hg]
      have : ∀ l : List Entry, (∀ e ∈ l, small e) → 0 ≤ costSum l := by
        intro l
        induction l with
        | nil => intro _; simp [costSum]
        | cons x xs ih =>
          intro hl
          obtain ⟨cx, hcx, hx0, _⟩ := hl x (List.mem_cons_self ..)
          have := ih (fun e he => hl e (List.mem_cons_of_mem _ he))
          simp only [costSum, hcx, Option.getD_some]; omega
      have := this g.incl hsold
      omega
    rw [costSum_append, hcost]
    simp only [hc, Option.getD_some]
    rw [wrap64_id]
    · omega
    · omega
    · unfold two62 at hm hc1; omega

theorem iterHandler_inv {cfg : Cfg} {date : Int} {prior : St} {bcost : Int} {g : GS} (p : PTxn) (h : Inv cfg date prior bcost g)
    (hv : Prov (fun q => q.bname = none) g) :
    Inv cfg date prior bcost (iterHandler cfg date g p).1 ∧ Prov (fun q => q.bname = none) (iterHandler cfg date g p).1 := by
  unfold iterHandler
  split
  · exact ⟨h, hv⟩
  · rename_i hb
    have hbn : p.bname = none := by
      cases hx : p.bname with
      | none => rfl
      | some k => simp [hx] at hb
    split
    · exact ⟨Inv_unchanged h ⟨rfl, rfl, rfl, rfl⟩, hv⟩
    · split
      · exact ⟨h, hv⟩
      · rename_i c hc
        split
        · exact ⟨Inv_unchanged h ⟨rfl, rfl, rfl, rfl⟩, hv⟩
        · split
          · exact ⟨h, hv⟩
          · rename_i hlt
            have hv' := txnProcessor_prov (fun q => q.bname = none) cfg date g p hv hbn
            rcases txnProcessor_spec cfg date g p with ⟨hf, hu⟩ | ⟨ht, ha⟩
            · simp only [hf, Bool.not_false, if_true]
              exact ⟨Inv_unchanged h hu, hv'⟩
            · simp only [ht, Bool.not_true, Bool.false_eq_true, if_false]
              have := Inv_accept h ha hc hbn hlt
              split <;> exact ⟨this, hv'⟩

theorem iterate_inv {cfg : Cfg} {date : Int} {prior : St} {bcost : Int} (pool : List PTxn) : ∀ {g : GS}, Inv cfg date prior bcost g →
    Prov (fun q => q.bname = none) g →
    Inv cfg date prior bcost (iterate cfg date g pool).1 ∧ Prov (fun q => q.bname = none) (iterate cfg date g pool).1 := by
  induction pool with
  | nil => intro g h hv; exact ⟨h, hv⟩
  | cons p ps ih =>
    intro g h hv
    have hp := iterHandler_inv p h hv
    unfold iterate
    rcases hi : iterHandler cfg date g p with ⟨g', ctl⟩
    rw [hi] at hp
    cases ctl with
    | «continue» => exact ih hp.1 hp.2
    | stop => exact hp
    | error => exact hp

theorem currentLoop_inv {cfg : Cfg} {date : Int} {prior : St} {bcost : Int} (fuel : Nat) : ∀ (i : Nat) {g : GS}, Inv cfg date prior bcost g →
    Prov (fun q => q.bname = none) g →
    Inv cfg date prior bcost (currentLoop cfg date fuel i g) := by
  induction fuel with
  | zero => intro i g h _; exact h
  | succ n ih =>
    intro i g h hv
    unfold currentLoop
    split
    · split
      · exact h
      · rename_i p hp
        have hbn : p.bname = none := hv.1 p (List.mem_of_getElem? hp)
        split
        · exact h
        · rename_i c hc
          split
          · exact h
          · rename_i hlt
            have hv' := txnProcessor_prov (fun q => q.bname = none) cfg date g p hv hbn
            rcases txnProcessor_spec cfg date g p with ⟨hf, hu⟩ | ⟨ht, ha⟩
            · simp only [hf, Bool.false_eq_true, if_false]
              exact ih _ (Inv_unchanged h hu) hv'
            · simp only [ht, if_true]
              have := Inv_accept h ha hc hbn hlt
              split
              · exact this
              · exact ih _ this hv'
    · exact h

/-! ### the built-in phase -/

/-- `ents` are block entries made from a sub-sequence of the built-in list `bs`. -/
inductive Sub (date : Int) : List Entry → List (BuiltinKind × PTxn) → Prop where
  | nil (bs : List (BuiltinKind × PTxn)) : Sub date [] bs
  | skip {es : List Entry} {bs : List (BuiltinKind × PTxn)} (b : BuiltinKind × PTxn) : Sub date es bs → Sub date es (b :: bs)
  | take {es : List Entry} {bs : List (BuiltinKind × PTxn)} (e : Entry) (b : BuiltinKind × PTxn) :
      e.key = Key.builtin b.1 → e.p.cost = b.2.cost → e.p.created = date → e.p.bname = b.2.bname →
      Sub date es bs → Sub date (e :: es) (b :: bs)

theorem Sub_mem {date : Int} {es : List Entry} {bs : List (BuiltinKind × PTxn)} (h : Sub date es bs) :
    ∀ e ∈ es, ∃ b ∈ bs, e.key = Key.builtin b.1 ∧ e.p.cost = b.2.cost ∧ e.p.created = date ∧ e.p.bname = b.2.bname := by
  induction h with
  | nil => intro e he; cases he
  | skip b _ ih =>
    intro e he
    obtain ⟨b', hb', r⟩ := ih e he
    exact ⟨b', List.mem_cons_of_mem _ hb', r⟩
  | take e b h1 h2 h3 h4 _ ih =>
    intro e' he'
    rw [List.mem_cons] at he'
    rcases he' with he' | he'
    · subst he'; exact ⟨b, List.mem_cons_self .., h1, h2, h3, h4⟩
    · obtain ⟨b', hb', r⟩ := ih e' he'
      exact ⟨b', List.mem_cons_of_mem _ hb', r⟩

theorem Sub_keys_nodup {date : Int} {es : List Entry} {bs : List (BuiltinKind × PTxn)} (h : Sub date es bs) (hk : (bs.map (·.1)).Nodup) :
    (es.map (·.key)).Nodup := by
  induction h with
  | nil => simp
  | skip b _ ih => exact ih (List.nodup_cons.mp hk).2
  | take e b h1 _ _ _ hs ih =>
    rw [List.map_cons, List.nodup_cons] at hk ⊢
    refine ⟨?_, ih hk.2⟩
    intro hm
    rw [List.mem_map] at hm
    obtain ⟨e', he', hke⟩ := hm
    obtain ⟨b', hb', hk', _⟩ := Sub_mem hs e' he'
    rw [h1, hk'] at hke
    injection hke with hke
    exact hk.1 (List.mem_map.mpr ⟨b', hb', hke⟩)

theorem Sub_names_nodup {date : Int} {es : List Entry} {bs : List (BuiltinKind × PTxn)} (h : Sub date es bs) (hk : (bs.map (·.1)).Nodup)
    (hn : ∀ b ∈ bs, b.2.bname = some b.1) : (es.filterMap (fun e => e.p.bname)).Nodup := by
  induction h with
  | nil => simp
  | skip b _ ih => exact ih (List.nodup_cons.mp hk).2 (fun b' hb' => hn b' (List.mem_cons_of_mem _ hb'))
  | take e b _ _ _ h4 hs ih =>
    rw [List.map_cons, List.nodup_cons] at hk
    have hb := hn b (List.mem_cons_self ..)
    have hrest := ih hk.2 (fun b' hb' => hn b' (List.mem_cons_of_mem _ hb'))
    have he : e.p.bname = some b.1 := by rw [h4, hb]
    rw [List.filterMap_cons, he, List.nodup_cons]
    refine ⟨?_, hrest⟩
    intro hm
    rw [List.mem_filterMap] at hm
    obtain ⟨e', he', hne⟩ := hm
    obtain ⟨b', hb', _, _, _, hn'⟩ := Sub_mem hs e' he'
    rw [hn', hn b' (List.mem_cons_of_mem _ hb')] at hne
    injection hne with hne
    exact hk.1 (List.mem_map.mpr ⟨b', hb', hne⟩)

def bsum : List (BuiltinKind × PTxn) → Int
  | [] => 0
  | b :: bs => b.2.cost.getD 0 + bsum bs

theorem Sub_cost_le {date : Int} {es : List Entry} {bs : List (BuiltinKind × PTxn)} (h : Sub date es bs) (hp : ∀ b ∈ bs, 0 ≤ b.2.cost.getD 0) :
    costSum es ≤ bsum bs ∧ 0 ≤ costSum es := by
  induction h with
  | nil bs =>
    simp only [costSum]
    refine ⟨?_, Int.le_refl _⟩
    induction bs with
    | nil => simp [bsum]
    | cons b bs ih =>
      have := hp b (List.mem_cons_self ..)
      have := ih (fun b' hb' => hp b' (List.mem_cons_of_mem _ hb'))
      simp only [bsum]; omega
  | skip b _ ih =>
    have := hp b (List.mem_cons_self ..)
    have := ih (fun b' hb' => hp b' (List.mem_cons_of_mem _ hb'))
    simp only [bsum]; omega
  | take e b _ h2 _ _ _ ih =>
    have := hp b (List.mem_cons_self ..)
    have := ih (fun b' hb' => hp b' (List.mem_cons_of_mem _ hb'))
    simp only [bsum, costSum, h2]; omega

/-- the loop over the built-in transactions appends entries for a sub-sequence of them and keeps re-executability. -/
theorem builtinLoop_spec (cfg : Cfg) (date : Int) (waitOver : Bool) (prior : St) : ∀ (bs : List (BuiltinKind × PTxn)) (g : GS) (n : Int) (g' : GS),
    builtinLoop cfg date waitOver bs g n = .ok g' →
    reexec cfg.feeOn prior g.incl = some (g.st, g.incl.map (·.status), g.trace) →
    ∃ ents, g'.incl = g.incl ++ ents ∧ Sub date ents bs ∧
      reexec cfg.feeOn prior g'.incl = some (g'.st, g'.incl.map (·.status), g'.trace) ∧
      (∀ e ∈ ents, e.p.txn.sender = cfg.miner) := by
  intro bs
  induction bs with
  | nil =>
    intro g n g' h hr
    simp only [builtinLoop] at h
    injection h with h; subst h
    exact ⟨[], by simp, Sub.nil _, hr, by simp⟩
  | cons b bs ih =>
    intro g n g' h hr
    obtain ⟨k, b⟩ := b
    simp only [builtinLoop] at h
    split at h
    · cases h
    · split at h
      · obtain ⟨ents, h1, h2, h3, h4⟩ := ih g (n + 1) g' h hr
        exact ⟨ents, h1, Sub.skip _ h2, h3, h4⟩
      · rename_i hrej
        have hr' := reexec_append cfg.feeOn
          ⟨Key.builtin k, builtinTxn cfg date g.st b, (step cfg.feeOn g.st (builtinTxn cfg date g.st b).txn ((builtinTxn cfg date g.st b).res g.st)).2⟩
          g.incl prior g.st _ _ hr hrej
        obtain ⟨ents, h1, h2, h3, h4⟩ := ih _ (n + 1) g' h (by
          simp only
          rw [hr']; simp)
        refine ⟨⟨Key.builtin k, builtinTxn cfg date g.st b, (step cfg.feeOn g.st (builtinTxn cfg date g.st b).txn ((builtinTxn cfg date g.st b).res g.st)).2⟩ :: ents, ?_,
          Sub.take ⟨Key.builtin k, builtinTxn cfg date g.st b, (step cfg.feeOn g.st (builtinTxn cfg date g.st b).txn ((builtinTxn cfg date g.st b).res g.st)).2⟩ (k, b) rfl rfl rfl rfl h2, h3, ?_⟩
        · rw [h1]; simp
        · intro x hx
          rw [List.mem_cons] at hx
          rcases hx with hx | hx
          · subst hx; rfl
          · exact h4 x hx

/-! ### the built-in list -/

theorem tag_props (k : BuiltinKind) (o : Option PTxn) : ∀ b ∈ tag k o, b.1 = k ∧ b.2.bname = some b.1 := by
  intro b hb
  cases o with
  | none => simp [tag] at hb
  | some p => simp [tag] at hb; subst hb; exact ⟨rfl, rfl⟩

theorem list_props (bi : Builtins) : ∀ b ∈ bi.list, b.2.bname = some b.1 := by
  intro b hb
  simp only [Builtins.list, List.mem_append] at hb
  rcases hb with ((hb | hb) | hb) | hb
  · exact (tag_props _ _ b hb).2
  · exact (tag_props _ _ b hb).2
  · exact (tag_props _ _ b hb).2
  · exact (tag_props _ _ b hb).2

theorem list_kinds_nodup (bi : Builtins) : (bi.list.map (·.1)).Nodup := by
  obtain ⟨a, b, c, d⟩ := bi
  cases a <;> cases b <;> cases c <;> cases d <;> simp [Builtins.list, tag]

theorem builtinsCost_eq (l : List (BuiltinKind × PTxn)) : builtinsCost l = wrap64 (bsum l) := by
  induction l with
  | nil => simp [builtinsCost, bsum, wrap64, two63]
  | cons b bs ih =>
    obtain ⟨k, b⟩ := b
    simp only [builtinsCost, bsum, ih, wrap64_add_wrap64']

theorem wrap64_idem (a : Int) : wrap64 (wrap64 a) = wrap64 a := by
  unfold wrap64 two63; omega

/-! ### composition -/

structure GenSpec (cfg : Cfg) (date : Int) (prior : St) (bi : Builtins) (g : GS) : Prop where
  reex : reexec cfg.feeOn prior g.incl = some (g.st, g.incl.map (·.status), g.trace)
  split : ∃ gp ents, Inv cfg date prior (builtinsCost bi.list) gp ∧ g.incl = gp.incl ++ ents ∧ Sub date ents bi.list ∧
            (∀ e ∈ ents, e.p.txn.sender = cfg.miner)
  bcosts : ∀ b ∈ bi.list, b.2.cost.isSome

theorem poolPhase_inv (cfg : Cfg) (date : Int) (prior : St) (pool : List PTxn) (bi : Builtins) (fuel : Nat) :
    Inv cfg date prior (builtinsCost bi.list) (poolPhase cfg date prior pool bi fuel).1 := by
  have h0 : Inv cfg date prior (builtinsCost bi.list) (GS.init prior (builtinsCost bi.list)) :=
    Inv_init cfg date prior _ (by rw [builtinsCost_eq, wrap64_idem])
  have h1 := iterate_inv pool h0 (by constructor <;> simp [GS.init])
  unfold poolPhase
  split
  · exact h1.1
  · exact currentLoop_inv fuel 0 h1.1 h1.2

theorem generate_spec (cfg : Cfg) (date : Int) (prior : St) (pool : List PTxn) (bi : Builtins) (waitOver : Bool) (fuel : Nat) (g : GS)
    (h : generateAt cfg date prior pool bi waitOver fuel = .ok g) : GenSpec cfg date prior bi g := by
  unfold generateAt at h
  split at h
  · cases h
  · rename_i hbc
    split at h
    · cases h
    · have h2 := poolPhase_inv cfg date prior pool bi fuel
      obtain ⟨ents, e1, e2, e3, e4⟩ := builtinLoop_spec cfg date waitOver prior _ _ _ g h h2.reex
      refine ⟨e3, ⟨_, ents, h2, e1, e2, e4⟩, ?_⟩
      intro b hb
      cases hc : b.2.cost with
      | some c => rfl
      | none =>
        exfalso; apply hbc
        exact List.any_eq_true.mpr ⟨b, hb, by simp [hc]⟩

end ZChain.BlockGen
