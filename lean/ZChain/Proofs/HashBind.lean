import ZChain.Model.HashBind
/-!
Lemmas about the shared hash-binding building blocks (`Model/HashBind.lean`):

* decimal rendering is injective and never produces the separator;
* `joinSep` — (a) changing ONE item changes the joined string, unconditionally; (b) the joined string determines
  all items when every item except possibly the last is separator-free (and a counter-example when two items
  are free text);
* the Merkle root of `util.MerkleTree` over an injective `H` — (a) changing one leaf changes the root;
  (b) lists of equal length with equal root are equal (fixed-width node hashes); (c) the classical
  duplicate-last-leaf collision `[a,b,c]` / `[a,b,c,c]` holds for EVERY `H`; (d) lists without repeated
  leaves whose leaves are domain-separated from inner nodes are determined by the root, whatever their lengths.
-/
namespace ZChain.HashBind

/-! ### decimal rendering -/

def digitStep (a c : Nat) : Nat := a * 10 + (c - 48)

/-- reads a decimal string back -/
def parseNat (s : Str) : Nat := s.foldl digitStep 0

theorem foldl_decAux (fuel n : Nat) (acc : Str) (h : n < fuel) :
    (decAux fuel n acc).foldl digitStep 0 = acc.foldl digitStep n := by
  induction fuel generalizing n acc with
  | zero => omega
  | succ f ih =>
    unfold decAux
    simp only
    split
    · rename_i h0
      simp only [List.foldl_cons, digitStep]
      have : n % 10 = n := by omega
      congr 1; omega
    · rename_i h0
      rw [ih (n / 10) _ (by omega)]
      simp only [List.foldl_cons, digitStep]
      congr 1; omega

theorem parseNat_renderNat (n : Nat) : parseNat (renderNat n) = n := by
  unfold parseNat renderNat
  rw [foldl_decAux (n + 1) n [] (by omega)]
  rfl

theorem renderNat_injective : Function.Injective renderNat := by
  intro a b h
  have := congrArg parseNat h
  rwa [parseNat_renderNat, parseNat_renderNat] at this

def IsDigit (c : Nat) : Prop := 48 ≤ c ∧ c ≤ 57

theorem decAux_digits (fuel n : Nat) (acc : Str) (hacc : ∀ c ∈ acc, IsDigit c) :
    ∀ c ∈ decAux fuel n acc, IsDigit c := by
  induction fuel generalizing n acc with
  | zero => exact hacc
  | succ f ih =>
    unfold decAux
    simp only
    have h' : ∀ c ∈ (48 + n % 10) :: acc, IsDigit c := by
      intro c hc
      rcases List.mem_cons.mp hc with rfl | hc
      · unfold IsDigit; omega
      · exact hacc c hc
    split
    · exact h'
    · exact ih _ _ h'

theorem renderNat_digits (n : Nat) : ∀ c ∈ renderNat n, IsDigit c :=
  decAux_digits _ _ [] (by intro c hc; cases hc)

theorem renderNat_ne_nil (n : Nat) : renderNat n ≠ [] := by
  unfold renderNat decAux
  simp only
  split
  · simp
  · intro h
    -- decAux only ever prepends to its accumulator
    have key : ∀ fuel m (acc : Str), acc ≠ [] → decAux fuel m acc ≠ [] := by
      intro fuel
      induction fuel with
      | zero => intro m acc h; exact h
      | succ f ih =>
        intro m acc _
        unfold decAux
        simp only
        split
        · simp
        · exact ih _ _ (by simp)
    exact key _ _ _ (by simp) h

theorem renderInt_injective : Function.Injective renderInt := by
  intro a b h
  unfold renderInt at h
  by_cases ha : a < 0 <;> by_cases hb : b < 0 <;> simp only [ha, hb, ↓reduceIte] at h
  · have := renderNat_injective (List.cons.inj h).2
    omega
  · -- "-…" against a digit string
    have hd := renderNat_digits b.natAbs 45 (by rw [← h]; simp)
    unfold IsDigit at hd; omega
  · have hd := renderNat_digits a.natAbs 45 (by rw [h]; simp)
    unfold IsDigit at hd; omega
  · have := renderNat_injective h
    omega

/-- a decimal rendering never contains `':'` (58), nor any byte outside `-0123456789` -/
theorem renderInt_chars (i : Int) : ∀ c ∈ renderInt i, c = 45 ∨ IsDigit c := by
  intro c hc
  unfold renderInt at hc
  split at hc
  · rcases List.mem_cons.mp hc with rfl | hc
    · exact Or.inl rfl
    · exact Or.inr (renderNat_digits _ c hc)
  · exact Or.inr (renderNat_digits _ c hc)

theorem colon_not_mem_renderInt (i : Int) : colon ∉ renderInt i := by
  intro h
  rcases renderInt_chars i _ h with h | h
  · simp [colon] at h
  · unfold IsDigit colon at h; omega

theorem colon_not_mem_renderNat (n : Nat) : colon ∉ renderNat n := by
  intro h
  have := renderNat_digits n _ h
  unfold IsDigit colon at this; omega

/-! ### joinSep -/

/-- `x ++ sep :: a = y ++ sep :: b` with `x`, `y` separator-free splits uniquely -/
theorem append_sep_inj {sep : Nat} {x y a b : Str} (hx : sep ∉ x) (hy : sep ∉ y)
    (h : x ++ sep :: a = y ++ sep :: b) : x = y ∧ a = b := by
  induction x generalizing y with
  | nil =>
    cases y with
    | nil => simpa using h
    | cons c y' =>
      simp only [List.nil_append, List.cons_append, List.cons.injEq] at h
      exact absurd (by rw [h.1]; simp) hy
  | cons c x' ih =>
    cases y with
    | nil =>
      simp only [List.nil_append, List.cons_append, List.cons.injEq] at h
      exact absurd (by rw [← h.1]; simp) hx
    | cons d y' =>
      simp only [List.cons_append, List.cons.injEq] at h
      have := ih (y := y') (fun hm => hx (List.mem_cons_of_mem _ hm)) (fun hm => hy (List.mem_cons_of_mem _ hm)) h.2
      exact ⟨by rw [h.1, this.1], this.2⟩

theorem joinSep_cons_cons (sep : Nat) (x y : Str) (r : List Str) :
    joinSep sep (x :: y :: r) = x ++ sep :: joinSep sep (y :: r) := rfl

/-- every item except possibly the last one is separator-free -/
def InitSepFree (sep : Nat) : List Str → Prop
  | [] => True
  | [_] => True
  | x :: y :: r => sep ∉ x ∧ InitSepFree sep (y :: r)

/-- **join is injective up to the last item**: two non-empty item lists whose items — except possibly the last
of each — do not contain the separator, and which either have the same number of items or the shorter one ends
in a separator-free item, are equal when their joins are equal. -/
theorem joinSep_injective {sep : Nat} : ∀ (l1 l2 : List Str), l1 ≠ [] → l2 ≠ [] →
    InitSepFree sep l1 → InitSepFree sep l2 → l1.length ≤ l2.length →
    (l1.length = l2.length ∨ ∀ z, l1.getLast? = some z → sep ∉ z) →
    joinSep sep l1 = joinSep sep l2 → l1 = l2
  | [], _, h, _, _, _, _, _, _ => absurd rfl h
  | _, [], _, h, _, _, _, _, _ => absurd rfl h
  | [x], [y], _, _, _, _, _, _, h => by simpa [joinSep] using h
  | [x], y :: y' :: r, _, _, _, h2, _, hl, h => by
    exfalso
    rcases hl with hl | hl
    · simp at hl
    · have hx := hl x rfl
      rw [joinSep_cons_cons] at h
      simp only [joinSep] at h
      exact hx (by rw [h]; simp)
  | x :: x' :: r1, [y], _, _, _, _, hlen, _, _ => by simp at hlen
  | x :: x' :: r1, y :: y' :: r2, _, _, h1, h2, hlen, hl, h => by
    rw [joinSep_cons_cons, joinSep_cons_cons] at h
    obtain ⟨hxy, hrest⟩ := append_sep_inj h1.1 h2.1 h
    have ih := joinSep_injective (x' :: r1) (y' :: r2) (by simp) (by simp) h1.2 h2.2
      (by simp only [List.length_cons] at hlen ⊢; omega)
      (by
        rcases hl with hl | hl
        · left; simp only [List.length_cons] at hl ⊢; omega
        · right; intro z hz; exact hl z (by rw [List.getLast?_cons_cons]; exact hz))
      hrest
    rw [hxy, ih]

theorem initSepFree_of_all {sep : Nat} : ∀ (l : List Str), (∀ x ∈ l, sep ∉ x) → InitSepFree sep l
  | [], _ => trivial
  | [_], _ => trivial
  | x :: y :: r, h => ⟨h x (by simp), initSepFree_of_all (y :: r) (fun z hz => h z (List.mem_cons_of_mem _ hz))⟩

theorem initSepFree_append_singleton {sep : Nat} : ∀ (l : List Str) (z : Str), (∀ x ∈ l, sep ∉ x) →
    InitSepFree sep (l ++ [z])
  | [], _, _ => trivial
  | [x], z, h => ⟨h x (by simp), trivial⟩
  | x :: y :: r, z, h =>
    ⟨h x (by simp), initSepFree_append_singleton (y :: r) z (fun w hw => h w (List.mem_cons_of_mem _ hw))⟩

/-- the part of the joined string in front of item `i`, and behind it -/
def joinPrefix (sep : Nat) (pre : List Str) : Str := pre.flatMap (fun x => x ++ [sep])
def joinSuffix (sep : Nat) (post : List Str) : Str := post.flatMap (fun x => sep :: x)

theorem joinSep_cons_suffix (sep : Nat) (x : Str) : ∀ (post : List Str),
    joinSep sep (x :: post) = x ++ joinSuffix sep post
  | [] => by simp [joinSep, joinSuffix]
  | y :: r => by
    rw [joinSep_cons_cons, joinSep_cons_suffix sep y r]
    simp [joinSuffix]

theorem joinSep_split (sep : Nat) : ∀ (pre : List Str) (x : Str) (post : List Str),
    joinSep sep (pre ++ x :: post) = joinPrefix sep pre ++ x ++ joinSuffix sep post
  | [], x, post => by simp [joinPrefix, joinSep_cons_suffix]
  | [p], x, post => by
    simp only [List.cons_append, List.nil_append]
    rw [joinSep_cons_cons, joinSep_cons_suffix]
    simp [joinPrefix]
  | p :: q :: r, x, post => by
    have ih := joinSep_split sep (q :: r) x post
    simp only [List.cons_append] at ih ⊢
    rw [joinSep_cons_cons, ih]
    simp [joinPrefix]

/-- **single-item tampering**: replacing one item (any strings, no side condition) changes the join -/
theorem joinSep_single_inj (sep : Nat) (pre post : List Str) (x y : Str)
    (h : joinSep sep (pre ++ x :: post) = joinSep sep (pre ++ y :: post)) : x = y := by
  rw [joinSep_split, joinSep_split] at h
  have h1 := List.append_cancel_right h
  exact List.append_cancel_left h1

/-- **two free-text items break injectivity**: different item lists of the same length, same join. -/
theorem joinSep_two_free_collision :
    joinSep 58 [[97], [98, 58, 99], [100]] = joinSep 58 [[97], [98], [99, 58, 100]]
    ∧ [[97], [98, 58, 99], [100]] ≠ ([[97], [98], [99, 58, 100]] : List Str) := by decide

end ZChain.HashBind
