import ZChain.Base.Coin
import Mathlib.Tactic.Linarith
/-! Basic facts about `Base/Coin` (checked and wrapping uint64 arithmetic). -/
namespace ZChain.Coin

theorem addCoin_ok_iff (c b s : Nat) : addCoin c b = .ok s ↔ (s = c + b ∧ c + b < U64) := by
  unfold addCoin
  constructor
  · intro h; split at h
    · rename_i hlt; injection h with h; exact ⟨h.symm, hlt⟩
    · cases h
  · rintro ⟨rfl, hlt⟩; rw [if_pos hlt]

theorem minusCoin_ok_iff (c b s : Nat) : minusCoin c b = .ok s ↔ (s = c - b ∧ b ≤ c) := by
  unfold minusCoin
  constructor
  · intro h; split at h
    · cases h
    · rename_i hge; injection h with h; exact ⟨h.symm, by omega⟩
  · rintro ⟨rfl, hle⟩; rw [if_neg (by omega)]

theorem wrapAdd_of_lt {a b : Nat} (h : a + b < U64) : wrapAdd a b = a + b := Nat.mod_eq_of_lt h

theorem wrapSub_of_le {a b : Nat} (ha : a < U64) (hb : b ≤ a) : wrapSub a b = a - b := by
  unfold wrapSub
  have hb' : b % U64 = b := Nat.mod_eq_of_lt (by omega)
  rw [hb']
  have : a + (U64 - b) = (a - b) + U64 := by omega
  rw [this, Nat.add_mod_right]
  exact Nat.mod_eq_of_lt (by omega)

/-- the unchecked subtraction really wraps: `a - b` for `a < b` is `a + 2^64 - b`. -/
theorem wrapSub_of_lt {a b : Nat} (hb : b < U64) (hab : a < b) : wrapSub a b = a + U64 - b := by
  unfold wrapSub
  rw [Nat.mod_eq_of_lt hb]
  have : a + (U64 - b) = a + U64 - b := by omega
  rw [this]
  exact Nat.mod_eq_of_lt (by omega)

/-- `MultCoin` is exact whenever the true product fits. -/
theorem multCoin_ok_of_lt {c b : Nat} (h : c * b < U64) : multCoin c b = .ok (c * b) := by
  unfold multCoin wrapMul
  simp only [Nat.mod_eq_of_lt h]
  rcases Nat.eq_zero_or_pos c with hc | hc
  · subst hc; simp
  · rw [if_neg]
    intro ⟨_, h2⟩
    exact h2 (Nat.mul_div_cancel_left b hc)

/-- … and its overflow test misses products that wrap to exactly 0 (`a != 0 && a/c != b`): `MultCoin(2^32, 2^32) = (0, nil)`.
Confirmed on the Go function by harness/cmd/f64 (fixed case). -/
theorem multCoin_wrap_witness : multCoin (2 ^ 32) (2 ^ 32) = .ok 0 := by decide

/-- every other overflow is reported. -/
theorem multCoin_overflow_detected {c b : Nat} (h : U64 ≤ c * b) (h0 : (c * b) % U64 ≠ 0) : multCoin c b = .error .multOverflow := by
  unfold multCoin wrapMul
  simp only
  rw [if_pos]
  refine ⟨h0, ?_⟩
  intro heq
  have hc : 0 < c := by
    rcases Nat.eq_zero_or_pos c with hc | hc
    · subst hc; simp at h; exact absurd h (by decide)
    · exact hc
  have hlt : (c * b) % U64 < c * b := Nat.lt_of_lt_of_le (Nat.mod_lt _ (by decide)) h
  have : (c * b) % U64 / c < b := by
    apply (Nat.div_lt_iff_lt_mul hc).mpr
    rw [Nat.mul_comm b c]; exact hlt
  omega

end ZChain.Coin
