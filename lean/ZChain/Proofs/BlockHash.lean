import ZChain.Model.BlockHash
import ZChain.Proofs.HashBind
import ZChain.Proofs.Merkle
/-!
Table-generic lemmas about the block-hash model (`Model/BlockHash.lean`); `Props/C29.lean` instantiates them with
the generated table and decides the side conditions (membership, no repeated term) on it.
-/
namespace ZChain.BlockHash
open ZChain.HashBind

variable (tbl : Table) (H Hmb : Str → Str)

/-! ### one changed term -/

theorem map_update_of_nodup {α β : Type} (f g : α → β) (t0 : α) : ∀ (l : List α), l.Nodup → t0 ∈ l →
    (∀ t ∈ l, t ≠ t0 → f t = g t) →
    ∃ pre post, l.map g = pre ++ g t0 :: post ∧ l.map f = pre ++ f t0 :: post
  | [], _, h, _ => by cases h
  | a :: r, hn, hm, ho => by
    rw [List.nodup_cons] at hn
    by_cases ha : a = t0
    · subst ha
      refine ⟨[], r.map g, rfl, ?_⟩
      simp only [List.map_cons, List.nil_append, List.cons.injEq, true_and]
      apply List.map_congr_left
      intro t ht
      exact ho t (List.mem_cons_of_mem _ ht) (fun e => hn.1 (e ▸ ht))
    · have hm' : t0 ∈ r := by
        rcases List.mem_cons.mp hm with e | e
        · exact absurd e.symm ha
        · exact e
      obtain ⟨pre, post, e1, e2⟩ := map_update_of_nodup f g t0 r hn.2 hm' (fun t ht => ho t (List.mem_cons_of_mem _ ht))
      refine ⟨g a :: pre, post, by simp [e1], ?_⟩
      simp only [List.map_cons, List.cons_append, e2, ho a (by simp) ha]

/-- **workhorse of every single-field tampering theorem**: if two blocks write the same terms, these terms are
pairwise distinct, and all terms but `t0` have the same value in both blocks, then equal hash data forces `t0`
to have the same value too. No separator condition is needed. -/
theorem hashData_single (b b' : Block) (t0 : Term)
    (hterms : termsOf tbl b' = termsOf tbl b) (hmem : t0 ∈ termsOf tbl b) (hnd : (termsOf tbl b).Nodup)
    (hother : ∀ t ∈ termsOf tbl b, t ≠ t0 → render tbl H Hmb b' t = render tbl H Hmb b t)
    (h : hashData tbl H Hmb b' = hashData tbl H Hmb b) :
    render tbl H Hmb b' t0 = render tbl H Hmb b t0 := by
  unfold hashData items at h
  rw [hterms] at h
  obtain ⟨pre, post, e1, e2⟩ := map_update_of_nodup (render tbl H Hmb b') (render tbl H Hmb b) t0 _ hnd hmem hother
  rw [e1, e2] at h
  exact joinSep_single_inj _ _ _ _ _ h

theorem termsOf_nodup (b : Block) (h : (tbl.terms ++ tbl.mbSuffix).Nodup) : (termsOf tbl b).Nodup := by
  unfold termsOf
  split
  · exact h
  · rw [List.append_nil]; exact (List.nodup_append.mp h).1

theorem mem_termsOf_of_mem_terms (b : Block) {t : Term} (h : t ∈ tbl.terms) : t ∈ termsOf tbl b := by
  unfold termsOf; exact List.mem_append_left _ h

/-- changing a string field that is written as a term changes the hash data -/
theorem tamper_str (hnd : (tbl.terms ++ tbl.mbSuffix).Nodup) (f : Field) (hmem : Term.str f ∈ tbl.terms)
    (b : Block) (v : Str) (h : hashData tbl H Hmb (b.setStr f v) = hashData tbl H Hmb b) : v = b.str f := by
  have := hashData_single tbl H Hmb b (b.setStr f v) (.str f) rfl (mem_termsOf_of_mem_terms tbl b hmem)
    (termsOf_nodup tbl b hnd)
    (by
      intro t _ hne
      cases t with
      | str g =>
        have : g ≠ f := fun e => hne (by rw [e])
        simp [render, Block.setStr, this]
      | _ => rfl) h
  simpa [render, Block.setStr] using this

/-- changing an integer field that is written as a decimal term changes the hash data -/
theorem tamper_dec (hnd : (tbl.terms ++ tbl.mbSuffix).Nodup) (f : Field) (hmem : Term.dec f ∈ tbl.terms)
    (b : Block) (v : Int) (h : hashData tbl H Hmb (b.setInt f v) = hashData tbl H Hmb b) : v = b.int f := by
  have := hashData_single tbl H Hmb b (b.setInt f v) (.dec f) rfl (mem_termsOf_of_mem_terms tbl b hmem)
    (termsOf_nodup tbl b hnd)
    (by
      intro t _ hne
      cases t with
      | dec g =>
        have : g ≠ f := fun e => hne (by rw [e])
        simp [render, Block.setInt, this]
      | _ => rfl) h
  apply renderInt_injective
  simpa [render, Block.setInt] using this

/-- replace the `i`-th transaction's view -/
def Block.setTxns (b : Block) (ts : List Txn) : Block := { b with txns := ts }

/-- changing the hash of ONE transaction changes the hash data (leaves: txn tree = `Hash`, receipt tree =
`OutputHash`, so only the `txnRoot` term moves). -/
theorem tamper_txn_hash (hH : Function.Injective H) (hnd : (tbl.terms ++ tbl.mbSuffix).Nodup)
    (hl1 : tbl.txnLeaf = .txnHash) (hl2 : tbl.receiptLeaf = .txnOutputHash) (hmem : Term.txnRoot ∈ tbl.terms)
    (b : Block) (pre post : List Txn) (t : Txn) (v : Str) (hb : b.txns = pre ++ t :: post)
    (h : hashData tbl H Hmb (b.setTxns (pre ++ { t with hash := v } :: post)) = hashData tbl H Hmb b) :
    v = t.hash := by
  have := hashData_single tbl H Hmb b (b.setTxns (pre ++ { t with hash := v } :: post)) .txnRoot rfl
    (mem_termsOf_of_mem_terms tbl b hmem) (termsOf_nodup tbl b hnd)
    (by
      intro t' _ hne
      cases t' with
      | txnRoot => exact absurd rfl hne
      | receiptRoot => simp [render, Block.setTxns, hb, hl2, Txn.leaf]
      | _ => rfl) h
  simp only [render, Block.setTxns, hb, hl1, List.map_append, List.map_cons, Txn.leaf] at this
  exact merkleRoot_single_inj hH _ _ _ _ this

/-- changing the output hash of ONE transaction changes the hash data -/
theorem tamper_txn_output (hH : Function.Injective H) (hnd : (tbl.terms ++ tbl.mbSuffix).Nodup)
    (hl1 : tbl.txnLeaf = .txnHash) (hl2 : tbl.receiptLeaf = .txnOutputHash) (hmem : Term.receiptRoot ∈ tbl.terms)
    (b : Block) (pre post : List Txn) (t : Txn) (v : Str) (hb : b.txns = pre ++ t :: post)
    (h : hashData tbl H Hmb (b.setTxns (pre ++ { t with outputHash := v } :: post)) = hashData tbl H Hmb b) :
    v = t.outputHash := by
  have := hashData_single tbl H Hmb b (b.setTxns (pre ++ { t with outputHash := v } :: post)) .receiptRoot rfl
    (mem_termsOf_of_mem_terms tbl b hmem) (termsOf_nodup tbl b hnd)
    (by
      intro t' _ hne
      cases t' with
      | receiptRoot => exact absurd rfl hne
      | txnRoot => simp [render, Block.setTxns, hb, hl1, Txn.leaf]
      | _ => rfl) h
  simp only [render, Block.setTxns, hb, hl2, List.map_append, List.map_cons, Txn.leaf] at this
  exact merkleRoot_single_inj hH _ _ _ _ this

/-- changing the (effective) magic-block hash of a block that carries a magic block changes the hash data -/
theorem tamper_mb_hash (hnd : (tbl.terms ++ tbl.mbSuffix).Nodup) (hmem : Term.mbHashOrComputed ∈ tbl.mbSuffix)
    (b : Block) (m m' : MB) (hb : b.magicBlock = some m)
    (h : hashData tbl H Hmb { b with magicBlock := some m' } = hashData tbl H Hmb b) :
    mbHash Hmb m' = mbHash Hmb m := by
  have hterms : termsOf tbl { b with magicBlock := some m' } = termsOf tbl b := by
    simp [termsOf, hb]
  have := hashData_single tbl H Hmb b { b with magicBlock := some m' } .mbHashOrComputed hterms
    (by simp [termsOf, hb, hmem]) (termsOf_nodup tbl b hnd)
    (by
      intro t _ hne
      cases t with
      | mbHashOrComputed => exact absurd rfl hne
      | _ => rfl) h
  simpa [render, hb] using this

/-! ### fields the hash data does not read -/

/-- a string field that no term reads does not influence the hash -/
theorem computeHash_setStr_unread (f : Field) (hf : Term.str f ∉ tbl.terms ++ tbl.mbSuffix) (b : Block) (v : Str) :
    computeHash tbl H Hmb (b.setStr f v) = computeHash tbl H Hmb b := by
  unfold computeHash hashData items
  have ht : termsOf tbl (b.setStr f v) = termsOf tbl b := rfl
  rw [ht]
  congr 2
  apply List.map_congr_left
  intro t hm
  have hm' : t ∈ tbl.terms ++ tbl.mbSuffix := by
    unfold termsOf at hm
    split at hm
    · exact hm
    · rw [List.append_nil] at hm; exact List.mem_append_left _ hm
  cases t with
  | str g =>
    have : g ≠ f := fun e => hf (e ▸ hm')
    simp [render, Block.setStr, this]
  | _ => rfl

theorem computeHash_setInt_unread (f : Field) (hf : Term.dec f ∉ tbl.terms ++ tbl.mbSuffix) (b : Block) (v : Int) :
    computeHash tbl H Hmb (b.setInt f v) = computeHash tbl H Hmb b := by
  unfold computeHash hashData items
  have ht : termsOf tbl (b.setInt f v) = termsOf tbl b := rfl
  rw [ht]
  congr 2
  apply List.map_congr_left
  intro t hm
  have hm' : t ∈ tbl.terms ++ tbl.mbSuffix := by
    unfold termsOf at hm
    split at hm
    · exact hm
    · rw [List.append_nil] at hm; exact List.mem_append_left _ hm
  cases t with
  | dec g =>
    have : g ≠ f := fun e => hf (e ▸ hm')
    simp [render, Block.setInt, this]
  | _ => rfl

/-- … and `Validate` does not notice the change either, unless the field is one `Validate` itself reads -/
theorem validate_setStr_unread (env : Env) (f : Field) (hf : Term.str f ∉ tbl.terms ++ tbl.mbSuffix)
    (hv : f ≠ .chainID ∧ f ≠ .hash ∧ f ≠ .minerID ∧ f ≠ .signature) (b : Block) (v : Str) :
    validate tbl H Hmb env (b.setStr f v) = validate tbl H Hmb env b := by
  unfold validate
  congr 1
  funext c
  congr 1
  obtain ⟨h1, h2, h3, h4⟩ := hv
  have e1 : (b.setStr f v).str .chainID = b.str .chainID := by simp [Block.setStr, Ne.symm h1]
  have e2 : (b.setStr f v).str .hash = b.str .hash := by simp [Block.setStr, Ne.symm h2]
  have e3 : (b.setStr f v).str .minerID = b.str .minerID := by simp [Block.setStr, Ne.symm h3]
  have e4 : (b.setStr f v).str .signature = b.str .signature := by simp [Block.setStr, Ne.symm h4]
  cases c <;> simp only [checkOk, e1, e2, e3, e4, computeHash_setStr_unread tbl H Hmb f hf b v] <;> rfl

/-- a stored magic-block hash shadows the magic block's contents -/
theorem computeHash_mb_content (b : Block) (m : MB) (c : Str) (hb : b.magicBlock = some m) (hh : m.hash ≠ []) :
    computeHash tbl H Hmb { b with magicBlock := some { m with content := c } } = computeHash tbl H Hmb b := by
  unfold computeHash hashData items
  have ht : termsOf tbl { b with magicBlock := some { m with content := c } } = termsOf tbl b := by
    simp [termsOf, hb]
  rw [ht]
  congr 2
  apply List.map_congr_left
  intro t _
  cases t with
  | mbHashOrComputed => simp [render, hb, mbHash, hh]
  | _ => rfl

/-! ### the hash data determines every term (collision form) -/

theorem iter_range : ∀ (fuel : Nat) (l : List Str), (∀ x ∈ l, ∃ p, x = H p) → ∀ y ∈ iter H fuel l, ∃ p, y = H p
  | 0, _, h => h
  | f + 1, l, h => by
    unfold iter
    split
    · exact h
    · apply iter_range f
      intro x hx
      obtain ⟨c, d, _, _, e⟩ := mem_level l x hx
      exact ⟨c ++ d, e⟩

/-- a Merkle root is the empty string (no leaves) or an output of `H` -/
theorem merkleRoot_range (l : List Str) : merkleRoot H l = [] ∨ ∃ p, merkleRoot H l = H p := by
  by_cases hn : l = []
  · left; rw [hn]; rfl
  · right
    rw [merkleRoot_eq_of_ne_nil hn]
    obtain ⟨r, e⟩ := iter_singleton H l.length (level H l) (level_ne_nil H hn) (by rw [level_length]; omega)
    rw [e]
    have hr : r ∈ iter H l.length (level H l) := by rw [e]; simp
    obtain ⟨p, hp⟩ := iter_range H _ _ (fun x hx => by
      obtain ⟨c, d, _, _, e⟩ := mem_level l x hx
      exact ⟨c ++ d, e⟩) r hr
    exact ⟨p, by simpa using hp⟩

/-- the string fields written as terms do not contain the separator -/
def StrFree (b : Block) : Prop := ∀ f, Term.str f ∈ tbl.terms → tbl.sep ∉ b.str f

theorem render_sepFree (hs : tbl.sep = colon) (hHfree : ∀ x, colon ∉ H x) (b : Block) (hb : StrFree tbl b)
    (hnomb : Term.mbHashOrComputed ∉ tbl.terms) :
    ∀ t ∈ tbl.terms, tbl.sep ∉ render tbl H Hmb b t := by
  intro t ht
  cases t with
  | str f => exact hb f ht
  | dec f => rw [hs]; exact colon_not_mem_renderInt _
  | txnRoot =>
    rw [hs]; simp only [render]
    rcases merkleRoot_range H (b.txns.map (·.leaf tbl.txnLeaf)) with e | ⟨p, e⟩ <;> rw [e]
    · simp
    · exact hHfree p
  | receiptRoot =>
    rw [hs]; simp only [render]
    rcases merkleRoot_range H (b.txns.map (·.leaf tbl.receiptLeaf)) with e | ⟨p, e⟩ <;> rw [e]
    · simp
    · exact hHfree p
  | mbHashOrComputed => exact absurd ht hnomb

theorem initSepFree_items (hs : tbl.sep = colon) (hHfree : ∀ x, colon ∉ H x) (b : Block) (hb : StrFree tbl b)
    (hnomb : Term.mbHashOrComputed ∉ tbl.terms) (hsuf : tbl.mbSuffix.length ≤ 1) :
    InitSepFree tbl.sep (items tbl H Hmb b) := by
  have hfree := render_sepFree tbl H Hmb hs hHfree b hb hnomb
  unfold items termsOf
  split
  · match hm : tbl.mbSuffix, hsuf with
    | [], _ =>
      rw [List.append_nil]
      exact initSepFree_of_all _ (by
        intro x hx
        obtain ⟨t, ht, rfl⟩ := List.mem_map.mp hx
        exact hfree t ht)
    | [s], _ =>
      rw [List.map_append]
      exact initSepFree_append_singleton _ _ (by
        intro x hx
        obtain ⟨t, ht, rfl⟩ := List.mem_map.mp hx
        exact hfree t ht)
    | _ :: _ :: _, h => simp at h
  · rw [List.append_nil]
    exact initSepFree_of_all _ (by
      intro x hx
      obtain ⟨t, ht, rfl⟩ := List.mem_map.mp hx
      exact hfree t ht)

/-- **hash data is injective on well-formed blocks**: equal hash data ⇒ the same terms were written (so the magic
block is present in both or in neither) and every term has the same value. The magic-block hash, written last,
may be arbitrary text; the string fields written earlier must not contain the separator (`StrFree`). -/
theorem hashData_injective (hs : tbl.sep = colon) (hHfree : ∀ x, colon ∉ H x)
    (hnomb : Term.mbHashOrComputed ∉ tbl.terms) (hsuf : tbl.mbSuffix.length = 1) (hne : tbl.terms ≠ [])
    (b1 b2 : Block) (w1 : StrFree tbl b1) (w2 : StrFree tbl b2)
    (h : hashData tbl H Hmb b1 = hashData tbl H Hmb b2) :
    b1.magicBlock.isSome = b2.magicBlock.isSome ∧
    ∀ t ∈ termsOf tbl b1, render tbl H Hmb b1 t = render tbl H Hmb b2 t := by
  have i1 := initSepFree_items tbl H Hmb hs hHfree b1 w1 hnomb (by omega)
  have i2 := initSepFree_items tbl H Hmb hs hHfree b2 w2 hnomb (by omega)
  have len : ∀ b : Block, (items tbl H Hmb b).length = tbl.terms.length + (if b.magicBlock.isSome then 1 else 0) := by
    intro b
    unfold items termsOf
    split <;> simp [*]
  have ne : ∀ b : Block, items tbl H Hmb b ≠ [] := by
    intro b hb
    have := len b
    rw [hb] at this
    have : tbl.terms.length ≠ 0 := by intro e; exact hne (List.length_eq_zero_iff.mp e)
    simp only [List.length_nil] at *
    omega
  -- the last item of a block without magic block is a plain term, hence separator-free
  have lastFree : ∀ b : Block, StrFree tbl b → b.magicBlock.isSome = false →
      ∀ z, (items tbl H Hmb b).getLast? = some z → tbl.sep ∉ z := by
    intro b wb hb z hz
    have hfree := render_sepFree tbl H Hmb hs hHfree b wb hnomb
    have hz' := List.mem_of_getLast? hz
    unfold items termsOf at hz'
    simp only [hb, Bool.false_eq_true, ↓reduceIte, List.append_nil] at hz'
    obtain ⟨t, ht, rfl⟩ := List.mem_map.mp hz'
    exact hfree t ht
  unfold hashData at h
  have hitems : items tbl H Hmb b1 = items tbl H Hmb b2 := by
    cases h1 : b1.magicBlock.isSome <;> cases h2 : b2.magicBlock.isSome
    · exact joinSep_injective _ _ (ne b1) (ne b2) i1 i2 (by rw [len, len]; simp [h1, h2])
        (Or.inl (by rw [len, len]; simp [h1, h2])) h
    · exact joinSep_injective _ _ (ne b1) (ne b2) i1 i2 (by rw [len, len]; simp [h1, h2])
        (Or.inr (lastFree b1 w1 h1)) h
    · exact (joinSep_injective _ _ (ne b2) (ne b1) i2 i1 (by rw [len, len]; simp [h1, h2])
        (Or.inr (lastFree b2 w2 h2)) h.symm).symm
    · exact joinSep_injective _ _ (ne b1) (ne b2) i1 i2 (by rw [len, len]; simp [h1, h2])
        (Or.inl (by rw [len, len]; simp [h1, h2])) h
  have hsome : b1.magicBlock.isSome = b2.magicBlock.isSome := by
    have := congrArg List.length hitems
    rw [len, len] at this
    cases h1 : b1.magicBlock.isSome <;> cases h2 : b2.magicBlock.isSome <;> simp [h1, h2] at this ⊢
  refine ⟨hsome, ?_⟩
  have hterms : termsOf tbl b1 = termsOf tbl b2 := by unfold termsOf; rw [hsome]
  unfold items at hitems
  rw [← hterms] at hitems
  exact fun t ht => List.map_inj_left.mp hitems t ht

/-! ### Validate -/

theorem validate_none_iff (env : Env) (b : Block) :
    validate tbl H Hmb env b = none ↔ ∀ c ∈ tbl.checks, checkOk tbl H Hmb env b c = true := by
  unfold validate
  rw [List.find?_eq_none]
  constructor
  · intro h c hc
    have := h c hc
    simpa using this
  · intro h c hc
    simp [h c hc]

theorem validate_rejects (env : Env) (b : Block) (c : Check) (hc : c ∈ tbl.checks)
    (hf : checkOk tbl H Hmb env b c = false) : validate tbl H Hmb env b ≠ none := by
  intro h
  have := (validate_none_iff tbl H Hmb env b).mp h c hc
  rw [hf] at this
  cases this

/-! ### duplicates -/

theorem dedup_length_le : ∀ l : List Str, (dedup l).length ≤ l.length
  | [] => Nat.le_refl _
  | x :: xs => by
    simp only [dedup, List.length_cons]
    have := dedup_length_le xs
    have := List.length_filter_le (fun y => decide (y ≠ x)) (dedup xs)
    omega

theorem mem_dedup : ∀ (l : List Str) (y : Str), y ∈ dedup l ↔ y ∈ l
  | [], y => by simp [dedup]
  | x :: xs, y => by
    simp only [dedup, List.mem_cons, List.mem_filter, mem_dedup xs y]
    constructor
    · rintro (h | ⟨h, _⟩)
      · exact Or.inl h
      · exact Or.inr h
    · intro h
      by_cases e : y = x
      · exact Or.inl e
      · rcases h with h | h
        · exact absurd h e
        · exact Or.inr ⟨h, by simpa using e⟩

/-- a list with a repeated element is strictly longer than its key set -/
theorem dedup_length_lt_of_not_nodup : ∀ l : List Str, ¬ l.Nodup → (dedup l).length < l.length
  | [], h => absurd List.nodup_nil h
  | x :: xs, h => by
    simp only [dedup, List.length_cons]
    by_cases hx : x ∈ xs
    · -- x occurs again: filtering it out of the key set of xs removes at least one key
      have hm : x ∈ dedup xs := (mem_dedup xs x).mpr hx
      have hlt : ((dedup xs).filter (fun y => decide (y ≠ x))).length < (dedup xs).length := by
        apply List.length_filter_lt_length_iff_exists.mpr
        exact ⟨x, hm, by simp⟩
      have := dedup_length_le xs
      omega
    · have hn : ¬ xs.Nodup := fun hn => h (List.nodup_cons.mpr ⟨hx, hn⟩)
      have := dedup_length_lt_of_not_nodup xs hn
      have := List.length_filter_le (fun y => decide (y ≠ x)) (dedup xs)
      omega

end ZChain.BlockHash
