import ZChain.Model.HashBind
/-!
The Merkle tree of `github.com/0chain/common/core/util/merkle_tree.go` (`Model/HashBind.lean`: `level`, `iter`,
`merkleRoot`) over an arbitrary hash function `H`:

* `merkleRoot_single_inj` — changing ONE leaf changes the root (`H` injective; no other condition);
* `merkleRoot_inj_len` — equal-length leaf lists of fixed-width strings with equal roots are equal;
* `merkle_dup_collision` — `[a,b,c]` and `[a,b,c,c]` have the same root for EVERY `H` (the unpaired last node is
  hashed with itself), so the root alone does not fix the number of leaves;
* `merkleRoot_injective_nodup` — leaf lists WITHOUT repeated leaves, whose leaves can never be inner-node
  hashes (domain separation), are determined by their root, whatever their lengths.
-/
namespace ZChain.HashBind

variable (H : Str → Str)

theorem level_length : ∀ l : List Str, (level H l).length = (l.length + 1) / 2
  | [] => rfl
  | [_] => by simp [level]
  | _ :: _ :: r => by
    simp only [level, List.length_cons, level_length r]; omega

theorem level_ne_nil {l : List Str} (h : l ≠ []) : level H l ≠ [] := by
  intro hl
  have := level_length H l
  rw [hl] at this
  cases l with
  | nil => exact h rfl
  | cons a r => simp only [List.length_nil, List.length_cons] at this; omega

/-- with enough fuel the loop ends with at most one node -/
theorem iter_length_le_one : ∀ (fuel : Nat) (l : List Str), l.length ≤ fuel + 1 → (iter H fuel l).length ≤ 1
  | 0, l, h => by simpa [iter] using h
  | f + 1, l, h => by
    unfold iter
    split
    · assumption
    · apply iter_length_le_one f
      rw [level_length]; omega

theorem iter_ne_nil : ∀ (fuel : Nat) (l : List Str), l ≠ [] → iter H fuel l ≠ []
  | 0, _, h => by simpa [iter] using h
  | f + 1, l, h => by
    unfold iter
    split
    · exact h
    · exact iter_ne_nil f _ (level_ne_nil H h)

theorem iter_singleton (fuel : Nat) (l : List Str) (hne : l ≠ []) (hlen : l.length ≤ fuel + 1) :
    ∃ r, iter H fuel l = [r] := by
  have h1 := iter_length_le_one H fuel l hlen
  have h2 := iter_ne_nil H fuel l hne
  match hl : iter H fuel l with
  | [] => exact absurd hl h2
  | [r] => exact ⟨r, rfl⟩
  | _ :: _ :: _ => rw [hl] at h1; simp at h1

/-- the amount of fuel does not matter once it is enough -/
theorem iter_fuel_irrel : ∀ (f1 f2 : Nat) (l : List Str), l.length ≤ f1 + 1 → l.length ≤ f2 + 1 →
    iter H f1 l = iter H f2 l
  | 0, 0, _, _, _ => rfl
  | 0, f2 + 1, l, h1, _ => by
    have : l.length ≤ 1 := by omega
    simp [iter, this]
  | f1 + 1, 0, l, _, h2 => by
    have : l.length ≤ 1 := by omega
    simp [iter, this]
  | f1 + 1, f2 + 1, l, h1, h2 => by
    unfold iter
    split
    · rfl
    · apply iter_fuel_irrel f1 f2 <;> (rw [level_length]; omega)

/-! ### one leaf changed -/

/-- a list-valued function of one string that puts an injective image of it at one fixed position -/
def SingleHole (g : Str → List Str) : Prop :=
  ∃ (pre post : List Str) (f : Str → Str), Function.Injective f ∧ ∀ z, g z = pre ++ f z :: post

variable {H}

theorem self_append_inj {z w : Str} (h : z ++ z = w ++ w) : z = w := by
  have hl : z.length = w.length := by
    have := congrArg List.length h
    simp only [List.length_append] at this; omega
  exact (List.append_inj h hl).1

theorem level_singleHole (hH : Function.Injective H) : ∀ (pre post : List Str),
    SingleHole (fun z => level H (pre ++ z :: post))
  | [], [] => ⟨[], [], fun z => H (z ++ z), fun _ _ h => self_append_inj (hH h), fun _ => rfl⟩
  | [], b :: r => ⟨[], level H r, fun z => H (z ++ b),
      fun _ _ h => List.append_cancel_right (hH h), fun _ => rfl⟩
  | [a], post => ⟨[], level H post, fun z => H (a ++ z),
      fun _ _ h => List.append_cancel_left (hH h), fun _ => rfl⟩
  | a :: b :: pre, post => by
    obtain ⟨p', q', f, hf, hg⟩ := level_singleHole hH pre post
    exact ⟨mhash H a b :: p', q', f, hf, fun z => by
      show level H (a :: b :: (pre ++ z :: post)) = _
      have hz := hg z
      simp only at hz
      simp only [level]
      rw [hz]; rfl⟩

theorem singleHole_level (hH : Function.Injective H) {g : Str → List Str} (hg : SingleHole g) :
    SingleHole (fun z => level H (g z)) := by
  obtain ⟨pre, post, f, hf, hgz⟩ := hg
  obtain ⟨p', q', f', hf', h'⟩ := level_singleHole hH pre post
  exact ⟨p', q', f' ∘ f, hf'.comp hf, fun z => by
    show level H (g z) = _
    rw [hgz z]; exact h' (f z)⟩

theorem singleHole_iter (hH : Function.Injective H) : ∀ (fuel : Nat) {g : Str → List Str}, SingleHole g →
    SingleHole (fun z => iter H fuel (g z))
  | 0, _, hg => hg
  | f + 1, g, hg => by
    obtain ⟨pre, post, fz, hf, hgz⟩ := hg
    by_cases hlen : (pre ++ fz [] :: post).length ≤ 1
    · refine ⟨pre, post, fz, hf, fun z => ?_⟩
      have : (g z).length ≤ 1 := by
        rw [hgz z]; simp only [List.length_append, List.length_cons] at hlen ⊢; exact hlen
      simp only [iter, this, ↓reduceIte]
      exact hgz z
    · have := singleHole_iter hH f (singleHole_level hH ⟨pre, post, fz, hf, hgz⟩)
      obtain ⟨p', q', f', hf', h'⟩ := this
      refine ⟨p', q', f', hf', fun z => ?_⟩
      have hz : ¬ (g z).length ≤ 1 := by
        rw [hgz z]; simp only [List.length_append, List.length_cons] at hlen ⊢; exact hlen
      simp only [iter, hz, ↓reduceIte]
      exact h' z

theorem merkleRoot_eq_of_ne_nil {l : List Str} (h : l ≠ []) :
    merkleRoot H l = (iter H l.length (level H l)).headD [] := by
  cases l with
  | nil => exact absurd rfl h
  | cons a r => rfl

/-- **changing one leaf changes the Merkle root** (only `H` injective is needed). -/
theorem merkleRoot_single_inj (hH : Function.Injective H) (pre post : List Str) (x y : Str)
    (h : merkleRoot H (pre ++ x :: post) = merkleRoot H (pre ++ y :: post)) : x = y := by
  have hne : ∀ z, pre ++ z :: post ≠ [] := by intro z; simp
  have hroot : ∀ z, merkleRoot H (pre ++ z :: post) =
      (iter H (pre ++ z :: post).length (level H (pre ++ z :: post))).headD [] := by
    intro z
    exact merkleRoot_eq_of_ne_nil (hne z)
  have hlenz : ∀ z, (pre ++ z :: post).length = (pre ++ x :: post).length := by
    intro z; simp
  obtain ⟨p', q', f, hf, hg⟩ :=
    singleHole_iter hH (pre ++ x :: post).length (level_singleHole hH pre post)
  have hsing : ∀ z, ∃ r, iter H (pre ++ x :: post).length (level H (pre ++ z :: post)) = [r] := by
    intro z
    apply iter_singleton H _ _ (level_ne_nil H (hne z))
    rw [level_length, hlenz z]; omega
  -- the hole is the only element
  have hshape : p' = [] ∧ q' = [] := by
    obtain ⟨r, hr⟩ := hsing x
    have := hg x
    simp only at this
    rw [hr] at this
    cases p' with
    | nil => simp only [List.nil_append, List.cons.injEq] at this; exact ⟨rfl, this.2.symm⟩
    | cons a p'' =>
      simp only [List.cons_append, List.cons.injEq] at this
      have := congrArg List.length this.2
      simp at this
  rw [hroot x, hroot y, hlenz y] at h
  have hx := hg x
  have hy := hg y
  simp only [hshape.1, hshape.2, List.nil_append] at hx hy
  rw [hx, hy] at h
  exact hf (by simpa using h)

/-! ### equal length -/

/-- all strings of the list have width `w` -/
def Width (w : Nat) (l : List Str) : Prop := ∀ x ∈ l, x.length = w

theorem width_tail {w : Nat} {a : Str} {l : List Str} (h : Width w (a :: l)) : Width w l :=
  fun x hx => h x (List.mem_cons_of_mem _ hx)

theorem level_width {L : Nat} (hw : ∀ x, (H x).length = L) : ∀ l : List Str, Width L (level H l)
  | [] => by intro x hx; cases hx
  | [a] => by intro x hx; simp only [level, List.mem_singleton] at hx; rw [hx]; exact hw _
  | a :: b :: r => by
    intro x hx
    simp only [level, List.mem_cons] at hx
    rcases hx with rfl | hx
    · exact hw _
    · exact level_width hw r x hx

theorem level_inj_len (hH : Function.Injective H) {w : Nat} : ∀ (l1 l2 : List Str), Width w l1 → Width w l2 →
    l1.length = l2.length → level H l1 = level H l2 → l1 = l2
  | [], [], _, _, _, _ => rfl
  | [], _ :: _, _, _, h, _ => by simp at h
  | _ :: _, [], _, _, h, _ => by simp at h
  | [a], [c], _, _, _, h => by
    simp only [level, mhash, List.cons.injEq, and_true] at h
    rw [self_append_inj (hH h)]
  | [_], _ :: _ :: _, _, _, h, _ => by simp at h
  | _ :: _ :: _, [_], _, _, h, _ => by simp at h
  | a :: b :: r1, c :: d :: r2, w1, w2, hl, h => by
    simp only [level, mhash, List.cons.injEq] at h
    have hac : a.length = c.length := by rw [w1 a (by simp), w2 c (by simp)]
    obtain ⟨e1, e2⟩ := List.append_inj (hH h.1) hac
    have := level_inj_len hH r1 r2 (width_tail (width_tail w1)) (width_tail (width_tail w2))
      (by simp only [List.length_cons] at hl; omega) h.2
    rw [e1, e2, this]

theorem iter_inj_len (hH : Function.Injective H) {L : Nat} (hw : ∀ x, (H x).length = L) :
    ∀ (fuel : Nat) (w : Nat) (l1 l2 : List Str), Width w l1 → Width w l2 → l1.length = l2.length →
    iter H fuel l1 = iter H fuel l2 → l1 = l2
  | 0, _, _, _, _, _, _, h => h
  | f + 1, w, l1, l2, w1, w2, hl, h => by
    unfold iter at h
    by_cases h1 : l1.length ≤ 1
    · have h2 : l2.length ≤ 1 := by omega
      simpa [h1, h2] using h
    · have h2 : ¬ l2.length ≤ 1 := by omega
      simp only [h1, h2, ↓reduceIte] at h
      have := iter_inj_len hH hw f L (level H l1) (level H l2) (level_width hw l1) (level_width hw l2)
        (by rw [level_length, level_length, hl]) h
      exact level_inj_len hH l1 l2 w1 w2 hl this

/-- **equal-length leaf lists with equal roots are equal** (`H` injective, fixed-width node hashes, leaves of a
common width). -/
theorem merkleRoot_inj_len (hH : Function.Injective H) {L : Nat} (hw : ∀ x, (H x).length = L) {w : Nat}
    (l1 l2 : List Str) (w1 : Width w l1) (w2 : Width w l2) (hl : l1.length = l2.length)
    (h : merkleRoot H l1 = merkleRoot H l2) : l1 = l2 := by
  by_cases hn : l1 = []
  · subst hn
    cases l2 with
    | nil => rfl
    | cons _ _ => simp at hl
  · have hn2 : l2 ≠ [] := by intro h2; subst h2; cases l1 <;> simp_all
    rw [merkleRoot_eq_of_ne_nil hn, merkleRoot_eq_of_ne_nil hn2] at h
    obtain ⟨r1, e1⟩ := iter_singleton H l1.length (level H l1) (level_ne_nil H hn) (by rw [level_length]; omega)
    obtain ⟨r2, e2⟩ := iter_singleton H l2.length (level H l2) (level_ne_nil H hn2) (by rw [level_length]; omega)
    rw [e1, e2] at h
    simp only [List.headD_cons] at h
    have hit : iter H l1.length (level H l1) = iter H l1.length (level H l2) := by
      rw [e1, hl, e2, h]
    have := iter_inj_len hH hw l1.length L _ _ (level_width hw l1) (level_width hw l2)
      (by rw [level_length, level_length, hl]) hit
    exact level_inj_len hH l1 l2 w1 w2 hl this

/-- **the root does not fix the number of leaves**: for every hash function, a list of odd length and the same
list with its last leaf repeated have the same root (`[a,b,c]` / `[a,b,c,c]`, `[a]` / `[a,a]`). -/
theorem merkle_dup_collision (H : Str → Str) (a b c : Str) :
    merkleRoot H [a, b, c] = merkleRoot H [a, b, c, c] ∧ merkleRoot H [a] = merkleRoot H [a, a] := by
  constructor <;> rfl


/-! ### any lengths: no repeated leaves + domain separation -/

/-- `InLevel H Leafy k x`: `x` can be a node `k` levels above leaves satisfying `Leafy` -/
def InLevel (H : Str → Str) (Leafy : Str → Prop) : Nat → Str → Prop
  | 0, x => Leafy x
  | k + 1, x => ∃ a b, InLevel H Leafy k a ∧ InLevel H Leafy k b ∧ x = H (a ++ b)

section
variable {Leafy : Str → Prop} {L : Nat}

/-- hypotheses of the general theorem, bundled:
`H` is injective, its outputs have width `L`, every leaf is an output of `H`, and a leaf is never the hash of
the concatenation of two outputs of `H` (domain separation between leaves and inner nodes). -/
structure MerkleHyp (H : Str → Str) (Leafy : Str → Prop) (L : Nat) : Prop where
  inj : Function.Injective H
  width : ∀ x, (H x).length = L
  leafRange : ∀ x, Leafy x → ∃ p, x = H p
  sep : ∀ x p q, Leafy x → x ≠ H (H p ++ H q)

theorem inLevel_range (hy : MerkleHyp H Leafy L) : ∀ k x, InLevel H Leafy k x → ∃ p, x = H p
  | 0, x, h => hy.leafRange x h
  | _ + 1, _, ⟨a, b, _, _, e⟩ => ⟨a ++ b, e⟩

theorem inLevel_width (hy : MerkleHyp H Leafy L) (k : Nat) (x : Str) (h : InLevel H Leafy k x) : x.length = L := by
  obtain ⟨p, rfl⟩ := inLevel_range hy k x h
  exact hy.width p

theorem inLevel_unique (hy : MerkleHyp H Leafy L) : ∀ j k x, InLevel H Leafy j x → InLevel H Leafy k x → j = k
  | 0, 0, _, _, _ => rfl
  | 0, k + 1, x, h0, ⟨a, b, ha, hb, e⟩ => by
    obtain ⟨p, rfl⟩ := inLevel_range hy k a ha
    obtain ⟨q, rfl⟩ := inLevel_range hy k b hb
    exact absurd e (hy.sep x p q h0)
  | j + 1, 0, x, ⟨a, b, ha, hb, e⟩, h0 => by
    obtain ⟨p, rfl⟩ := inLevel_range hy j a ha
    obtain ⟨q, rfl⟩ := inLevel_range hy j b hb
    exact absurd e (hy.sep x p q h0)
  | j + 1, k + 1, x, ⟨a, b, ha, _, e⟩, ⟨a', b', ha', _, e'⟩ => by
    have hab := hy.inj (e.symm.trans e')
    have hl : a.length = a'.length := by rw [inLevel_width hy j a ha, inLevel_width hy k a' ha']
    have := (List.append_inj hab hl).1
    subst this
    rw [inLevel_unique hy j k a ha ha']

theorem level_inLevel (k : Nat) : ∀ l : List Str, (∀ x ∈ l, InLevel H Leafy k x) →
    ∀ y ∈ level H l, InLevel H Leafy (k + 1) y
  | [], _, y, hy => by cases hy
  | [a], h, y, hy => by
    simp only [level, List.mem_singleton] at hy
    exact ⟨a, a, h a (by simp), h a (by simp), hy⟩
  | a :: b :: r, h, y, hy => by
    simp only [level, List.mem_cons] at hy
    rcases hy with rfl | hy
    · exact ⟨a, b, h a (by simp), h b (by simp), rfl⟩
    · exact level_inLevel k r (fun x hx => h x (by simp [hx])) y hy

theorem iter_inLevel : ∀ (fuel k : Nat) (l : List Str), (∀ x ∈ l, InLevel H Leafy k x) →
    ∃ m, ∀ y ∈ iter H fuel l, InLevel H Leafy (k + m) y
  | 0, _, _, h => ⟨0, h⟩
  | f + 1, k, l, h => by
    unfold iter
    split
    · exact ⟨0, h⟩
    · obtain ⟨m, hm⟩ := iter_inLevel f (k + 1) (level H l) (level_inLevel k l h)
      exact ⟨m + 1, fun y hy => by have := hm y hy; rwa [Nat.add_assoc, Nat.add_comm 1 m] at this⟩

/-- every node of a level is the hash of two nodes of the level below, the left one at an earlier position -/
theorem mem_level : ∀ (l : List Str) (y : Str), y ∈ level H l → ∃ c d, c ∈ l ∧ d ∈ l ∧ y = H (c ++ d)
  | [], _, h => by cases h
  | [a], y, h => by
    simp only [level, List.mem_singleton] at h
    exact ⟨a, a, by simp, by simp, h⟩
  | a :: b :: r, y, h => by
    simp only [level, List.mem_cons] at h
    rcases h with rfl | h
    · exact ⟨a, b, by simp, by simp, rfl⟩
    · obtain ⟨c, d, hc, hd, e⟩ := mem_level r y h
      exact ⟨c, d, by simp [hc], by simp [hd], e⟩

/-- a level without repeated nodes yields a level without repeated nodes -/
theorem level_nodup (hH : Function.Injective H) {w : Nat} : ∀ l : List Str, Width w l → l.Nodup → (level H l).Nodup
  | [], _, _ => List.nodup_nil
  | [a], _, _ => by simp [level]
  | a :: b :: r, hw, hn => by
    simp only [level, List.nodup_cons] at hn ⊢
    refine ⟨?_, level_nodup hH r (width_tail (width_tail hw)) hn.2.2⟩
    intro hm
    obtain ⟨c, d, hc, _, e⟩ := mem_level r _ hm
    have hl : a.length = c.length := by rw [hw a (by simp), hw c (by simp [hc])]
    have := (List.append_inj (hH e) hl).1
    subst this
    exact hn.1 (by simp [hc])

/-- equal levels: the lists below are equal, or one is the other with its last node repeated -/
theorem level_eq_cases (hH : Function.Injective H) {w : Nat} : ∀ (l1 l2 : List Str), Width w l1 → Width w l2 →
    level H l1 = level H l2 →
    l1 = l2 ∨ (∃ a, l2 = l1 ++ [a] ∧ a ∈ l1) ∨ (∃ a, l1 = l2 ++ [a] ∧ a ∈ l2)
  | [], [], _, _, _ => Or.inl rfl
  | [], [_], _, _, h => by simp [level] at h
  | [], _ :: _ :: _, _, _, h => by simp [level] at h
  | [_], [], _, _, h => by simp [level] at h
  | _ :: _ :: _, [], _, _, h => by simp [level] at h
  | [a], [c], _, _, h => by
    simp only [level, mhash, List.cons.injEq, and_true] at h
    exact Or.inl (by rw [self_append_inj (hH h)])
  | [a], [c, d], w1, w2, h => by
    simp only [level, mhash, List.cons.injEq, and_true] at h
    have hl : a.length = c.length := by rw [w1 a (by simp), w2 c (by simp)]
    obtain ⟨e1, e2⟩ := List.append_inj (hH h) hl
    exact Or.inr (Or.inl ⟨a, by rw [← e1, ← e2]; rfl, by simp⟩)
  | [_], _ :: _ :: _ :: _, _, _, h => by
    have := congrArg List.length h
    simp only [level_length, List.length_cons, List.length_nil] at this
    omega
  | [a, b], [c], w1, w2, h => by
    simp only [level, mhash, List.cons.injEq, and_true] at h
    have hl : a.length = c.length := by rw [w1 a (by simp), w2 c (by simp)]
    obtain ⟨e1, e2⟩ := List.append_inj (hH h) hl
    exact Or.inr (Or.inr ⟨c, by rw [e1, e2]; rfl, by simp⟩)
  | _ :: _ :: _ :: _, [_], _, _, h => by
    have := congrArg List.length h
    simp only [level_length, List.length_cons, List.length_nil] at this
    omega
  | a :: b :: r1, c :: d :: r2, w1, w2, h => by
    simp only [level, mhash, List.cons.injEq] at h
    have hl : a.length = c.length := by rw [w1 a (by simp), w2 c (by simp)]
    obtain ⟨e1, e2⟩ := List.append_inj (hH h.1) hl
    subst e1; subst e2
    rcases level_eq_cases hH r1 r2 (width_tail (width_tail w1)) (width_tail (width_tail w2)) h.2 with e | ⟨x, e, hx⟩ | ⟨x, e, hx⟩
    · exact Or.inl (by rw [e])
    · exact Or.inr (Or.inl ⟨x, by rw [e]; rfl, by simp [hx]⟩)
    · exact Or.inr (Or.inr ⟨x, by rw [e]; rfl, by simp [hx]⟩)

theorem not_nodup_append_mem {a : Str} {l : List Str} (h : a ∈ l) : ¬ (l ++ [a]).Nodup := by
  intro hn
  rw [List.nodup_append] at hn
  exact hn.2.2 a h a (by simp) rfl

theorem iter_injective_nodup (hy : MerkleHyp H Leafy L) : ∀ (fuel k : Nat) (l1 l2 : List Str),
    l1 ≠ [] → l2 ≠ [] → l1.length ≤ fuel + 1 → l2.length ≤ fuel + 1 → l1.Nodup → l2.Nodup →
    (∀ x ∈ l1, InLevel H Leafy k x) → (∀ x ∈ l2, InLevel H Leafy k x) →
    iter H fuel l1 = iter H fuel l2 → l1 = l2
  | 0, _, _, _, _, _, _, _, _, _, _, _, h => h
  | f + 1, k, l1, l2, n1, n2, b1, b2, d1, d2, i1, i2, h => by
    have wd1 : Width L l1 := fun x hx => inLevel_width hy k x (i1 x hx)
    have wd2 : Width L l2 := fun x hx => inLevel_width hy k x (i2 x hx)
    unfold iter at h
    by_cases h1 : l1.length ≤ 1 <;> by_cases h2 : l2.length ≤ 1 <;> simp only [h1, h2, ↓reduceIte] at h
    · exact h
    · -- l1 is a single node of level k; the other side is a node of a strictly higher level
      exfalso
      obtain ⟨m, hm⟩ := iter_inLevel f (k + 1) (level H l2) (level_inLevel k l2 i2)
      cases l1 with
      | nil => exact n1 rfl
      | cons a r =>
        have ha : a ∈ iter H f (level H l2) := by rw [← h]; simp
        have := inLevel_unique hy _ _ a (i1 a (by simp)) (hm a ha)
        omega
    · exfalso
      obtain ⟨m, hm⟩ := iter_inLevel f (k + 1) (level H l1) (level_inLevel k l1 i1)
      cases l2 with
      | nil => exact n2 rfl
      | cons a r =>
        have ha : a ∈ iter H f (level H l1) := by rw [h]; simp
        have := inLevel_unique hy _ _ a (i2 a (by simp)) (hm a ha)
        omega
    · have ih := iter_injective_nodup hy f (k + 1) (level H l1) (level H l2) (level_ne_nil H n1) (level_ne_nil H n2)
        (by rw [level_length]; omega) (by rw [level_length]; omega)
        (level_nodup hy.inj l1 wd1 d1) (level_nodup hy.inj l2 wd2 d2)
        (level_inLevel k l1 i1) (level_inLevel k l2 i2) h
      rcases level_eq_cases hy.inj l1 l2 wd1 wd2 ih with e | ⟨a, e, ha⟩ | ⟨a, e, ha⟩
      · exact e
      · exact absurd (e ▸ d2) (not_nodup_append_mem ha)
      · exact absurd (e ▸ d1) (not_nodup_append_mem ha)

/-- **Merkle root injectivity for the tree construction used** (`util.MerkleTree`): two leaf lists of ANY lengths,
without repeated leaves, whose leaves are domain-separated from inner nodes, have equal roots only if they are
the same list. (Without "no repeated leaves" this is false: `merkle_dup_collision`.) -/
theorem merkleRoot_injective_nodup (hy : MerkleHyp H Leafy L) (hL : 0 < L) (l1 l2 : List Str)
    (d1 : l1.Nodup) (d2 : l2.Nodup) (i1 : ∀ x ∈ l1, Leafy x) (i2 : ∀ x ∈ l2, Leafy x)
    (h : merkleRoot H l1 = merkleRoot H l2) : l1 = l2 := by
  have rootLen : ∀ l : List Str, l ≠ [] → (merkleRoot H l).length = L := by
    intro l hl
    rw [merkleRoot_eq_of_ne_nil hl]
    obtain ⟨r, e⟩ := iter_singleton H l.length (level H l) (level_ne_nil H hl) (by rw [level_length]; omega)
    rw [e]
    have hr : r ∈ iter H l.length (level H l) := by rw [e]; simp
    have hwid : ∀ (fuel : Nat) (m : List Str), Width L m → Width L (iter H fuel m) := by
      intro fuel
      induction fuel with
      | zero => intro m hm; exact hm
      | succ f ih =>
        intro m hm
        unfold iter
        split
        · exact hm
        · exact ih _ (level_width hy.width m)
    exact hwid _ _ (level_width hy.width l) r hr
  by_cases hn1 : l1 = [] <;> by_cases hn2 : l2 = []
  · rw [hn1, hn2]
  · exfalso
    have := rootLen l2 hn2
    rw [← h, hn1] at this
    simp [merkleRoot] at this; omega
  · exfalso
    have := rootLen l1 hn1
    rw [h, hn2] at this
    simp [merkleRoot] at this; omega
  · rw [merkleRoot_eq_of_ne_nil hn1, merkleRoot_eq_of_ne_nil hn2] at h
    let F := max l1.length l2.length
    have b1 : (level H l1).length ≤ F + 1 := by rw [level_length]; omega
    have b2 : (level H l2).length ≤ F + 1 := by rw [level_length]; omega
    rw [iter_fuel_irrel H l1.length F _ (by rw [level_length]; omega) b1,
        iter_fuel_irrel H l2.length F _ (by rw [level_length]; omega) b2] at h
    obtain ⟨r1, e1⟩ := iter_singleton H F _ (level_ne_nil H hn1) b1
    obtain ⟨r2, e2⟩ := iter_singleton H F _ (level_ne_nil H hn2) b2
    have hit : iter H F (level H l1) = iter H F (level H l2) := by
      rw [e1, e2] at h ⊢
      simp only [List.headD_cons] at h
      rw [h]
    have wd1 : Width L l1 := fun x hx => inLevel_width hy 0 x (i1 x hx)
    have wd2 : Width L l2 := fun x hx => inLevel_width hy 0 x (i2 x hx)
    have ih := iter_injective_nodup hy F 1 (level H l1) (level H l2) (level_ne_nil H hn1) (level_ne_nil H hn2) b1 b2
      (level_nodup hy.inj l1 wd1 d1) (level_nodup hy.inj l2 wd2 d2)
      (level_inLevel 0 l1 i1) (level_inLevel 0 l2 i2) hit
    rcases level_eq_cases hy.inj l1 l2 wd1 wd2 ih with e | ⟨a, e, ha⟩ | ⟨a, e, ha⟩
    · exact e
    · exact absurd (e ▸ d2) (not_nodup_append_mem ha)
    · exact absurd (e ▸ d1) (not_nodup_append_mem ha)

end

end ZChain.HashBind
